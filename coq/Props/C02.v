(* Props/C02.v — property C02: rolling drivers call back once per position with exactly the right
   window.  Only theorem statements, closed by `exact`; `Check` pins; `Print Assumptions`.       *)
From Tevec Require Import Base.Prelude Model.Driver Proofs.Driver Model.DriverDispatch Proofs.Audit02.

(* (1) once per position, in increasing order, carrying x_i — for EVERY stateful callback:
       both bodies perform the call list  mapi (fun i x_i => (removed_i, x_i)) xs. *)
Theorem C02_once_in_order_returned :
  forall (T St O : Type) (f : St -> option T * T -> St * O) (s0 : St) (xs : list T) (w : nat),
    1 <= w ->
    rolling_apply_default w f s0 xs = Done (run f s0 (mapi (fun i v => (removed w xs i, v)) xs)).
Proof. intros; apply rolling_apply_default_eq; assumption. Qed.

Theorem C02_once_in_order_buffer :
  forall (T St O : Type) (f : St -> option T * T -> St * O) (s0 : St) (xs : list T) (w : nat),
    1 <= w ->
    rolling_apply_to w f s0 xs = Done (run f s0 (mapi (fun i v => (removed_to w xs i, v)) xs)).
Proof. intros; apply rolling_apply_to_eq; assumption. Qed.

Theorem C02_once_in_order_idx_returned :
  forall (T St O : Type) (f : St -> option nat * nat * T -> St * O) (s0 : St) (xs : list T) (w : nat),
    1 <= w ->
    rolling_apply_idx_default w f s0 xs
    = Done (run f s0 (mapi (fun i v => (start_of w i, i, v)) xs)).
Proof. intros; apply rolling_apply_idx_default_eq; assumption. Qed.

Theorem C02_once_in_order_idx_buffer :
  forall (T St O : Type) (f : St -> option nat * nat * T -> St * O) (s0 : St) (xs : list T) (w : nat),
    1 <= w ->
    rolling_apply_idx_to w f s0 xs
    = Done (run f s0 (mapi (fun i v => (start_of (Nat.min w (length xs)) i, i, v)) xs)).
Proof. intros; apply rolling_apply_idx_to_eq; assumption. Qed.

(* (2) the removed argument: element i-(w-1) from position w-1 on, nothing during warm-up *)
Theorem C02_removed_arg_returned :
  forall (T : Type) (w : nat) (xs : list T) (i : nat),
    1 <= w -> i < length xs ->
    (w - 1 <= i -> removed w xs i = nth_error xs (i - (w - 1)) /\ removed w xs i <> None) /\
    (i < w - 1 -> removed w xs i = None).
Proof. exact (@removed_spec). Qed.

Theorem C02_removed_arg_buffer :
  forall (T : Type) (w : nat) (xs : list T) (i : nat),
    1 <= w -> i < length xs ->
    (w - 1 <= i -> removed_to w xs i = nth_error xs (i - (w - 1))) /\
    (i < Nat.min w (length xs) - 1 -> removed_to w xs i = None).
Proof. exact (@removed_to_spec). Qed.

Theorem C02_start_index :
  forall (w len i : nat), i < len -> (w <= len \/ S i < len) ->
    start_of (Nat.min w len) i = start_of w i.
Proof. exact start_of_min_eq. Qed.

(* (3) slice forms pass exactly win w i xs = positions max(0,i-w+1)..=i, on both bodies *)
Theorem C02_slice_arg_returned :
  forall (T St O : Type) (f : St -> list T -> St * O) (s0 : St) (xs : list T) (w : nat),
    1 <= w ->
    rolling_custom_default w f s0 xs
    = Done (run f s0 (map (fun i => win w i xs) (seq 0 (length xs)))).
Proof. intros; apply rolling_custom_default_eq; assumption. Qed.

Theorem C02_slice_arg_buffer :
  forall (T St O : Type) (f : St -> list T -> St * O) (s0 : St) (xs : list T) (w : nat),
    1 <= w ->
    rolling_custom_to w f s0 xs = Done (run f s0 (map (fun i => win w i xs) (seq 0 (length xs)))).
Proof. intros; apply rolling_custom_to_eq; assumption. Qed.

(* (4) output placement: result k of the run is stored at position k; the output is as long as the input *)
Theorem C02_output_placement :
  forall (St X O : Type) (g : St -> X -> St * O) (s0 : St) (args : list X) (i : nat) (a : X),
    nth_error args i = Some a ->
    nth_error (run g s0 args) i = Some (snd (g (state_after g s0 (firstn i args)) a)).
Proof. exact (@run_placement). Qed.

Theorem C02_output_length :
  forall (St X O : Type) (g : St -> X -> St * O) (s0 : St) (args : list X),
    length (run g s0 args) = length args.
Proof. exact (@run_length). Qed.

(* (5) the two bodies differ only in the removed value at the final position when w > len ... *)
Theorem C02_bodies_same_removed :
  forall (T : Type) (w : nat) (xs : list T) (i : nat),
    i < length xs -> (w <= length xs \/ S i < length xs) -> removed_to w xs i = removed w xs i.
Proof. exact (@removed_to_eq). Qed.

(* ... which no output can depend on: for every add-emit-remove callback the two bodies agree *)
Theorem C02_bodies_agree :
  forall (T St O : Type) (pre : St -> T -> St) (emit : St -> O) (post : St -> option T -> St)
         (w : nat) (s0 : St) (xs : list T),
    1 <= w ->
    rolling_apply_to w (aer pre emit post) s0 xs = rolling_apply_default w (aer pre emit post) s0 xs.
Proof. exact (@rolling_apply_bodies_agree). Qed.

(* non-vacuity: a concrete run exercising w > len and w <= len *)
Example C02_example :
  rolling_apply_to 2 (fun (s : nat) (a : option nat * nat) => (s + 1, (s, a))) 0 [7; 8; 9]
  = Done [(0, (None, 7)); (1, (Some 7, 8)); (2, (Some 8, 9))]
  /\ rolling_apply_default 5 (fun (s : nat) (a : option nat * nat) => (s + 1, (s, a))) 0 [7; 8]
  = Done [(0, (None, 7)); (1, (None, 8))]
  /\ rolling_apply_to 5 (fun (s : nat) (a : option nat * nat) => (s + 1, (s, a))) 0 [7; 8]
  = Done [(0, (None, 7)); (1, (Some 7, 8))].
Proof. vm_compute. auto. Qed.

(* ======================================================================================================
   (X12) EVERY window, 0 included, and the two-series entry points in every combination of lengths.
   `bad_window w xs` = (w = 0 and xs non-empty) - the assertion `window > 0 || len == 0`.  The statements
   are equalities between the entry point and a closed form with the panics in the order of the code.     *)
Theorem C02_every_window_returned :
  forall (T St O : Type) (w : nat) (f : St -> option T * T -> St * O) (s0 : St) (xs : list T),
    rolling_apply_default w f s0 xs =
    if bad_window w xs then Panicked AssertFail
    else Done (run f s0 (mapi (fun i v => (removed w xs i, v)) xs)).
Proof. exact @rolling_apply_default_total. Qed.

Theorem C02_every_window_buffer :
  forall (T St O : Type) (w : nat) (f : St -> option T * T -> St * O) (s0 : St) (xs : list T),
    rolling_apply_to w f s0 xs =
    if bad_window w xs then Panicked AssertFail
    else Done (run f s0 (mapi (fun i v => (removed_to w xs i, v)) xs)).
Proof. exact @rolling_apply_to_total. Qed.

Theorem C02_every_window_idx_returned :
  forall (T St O : Type) (w : nat) (f : St -> option nat * nat * T -> St * O) (s0 : St) (xs : list T),
    rolling_apply_idx_default w f s0 xs =
    if bad_window w xs then Panicked AssertFail
    else Done (run f s0 (mapi (fun i v => (start_of w i, i, v)) xs)).
Proof. exact @rolling_apply_idx_default_total. Qed.

Theorem C02_every_window_idx_buffer :
  forall (T St O : Type) (w : nat) (f : St -> option nat * nat * T -> St * O) (s0 : St) (xs : list T),
    rolling_apply_idx_to w f s0 xs =
    if bad_window w xs then Panicked AssertFail
    else Done (run f s0 (mapi (fun i v => (start_of (Nat.min w (length xs)) i, i, v)) xs)).
Proof. exact @rolling_apply_idx_to_total. Qed.

(* slice forms: the returned path computes `window - 1` first - underflow at window 0 even on an empty series *)
Theorem C02_every_window_slice_returned :
  forall (T St O : Type) (w : nat) (f : St -> list T -> St * O) (s0 : St) (xs : list T),
    rolling_custom_default w f s0 xs =
    if w =? 0 then Panicked Underflow else Done (run f s0 (windows w xs)).
Proof. exact @rolling_custom_default_total. Qed.

Theorem C02_every_window_slice_buffer :
  forall (T St O : Type) (w : nat) (f : St -> list T -> St * O) (s0 : St) (xs : list T),
    rolling_custom_to w f s0 xs =
    if bad_window w xs then Panicked AssertFail else Done (run f s0 (windows w xs)).
Proof. exact @rolling_custom_to_total. Qed.

Theorem C02_bodies_agree_every_window :
  forall (T St O : Type) (pre : St -> T -> St) (emit : St -> O) (post : St -> option T -> St)
         (w : nat) (s0 : St) (xs : list T),
    rolling_apply_to w (aer pre emit post) s0 xs = rolling_apply_default w (aer pre emit post) s0 xs.
Proof. exact @rolling_apply_bodies_agree_total. Qed.

(* ---- two series.  Returned path (default trait method): the window is asserted on the FIRST series only,
   then the two series are zipped (one call per pair, the result has min(len xs, len ys) entries). ---- *)
Theorem C02_two_series_returned :
  forall (T1 T2 St O : Type) (w : nat) (f : St -> option (T1 * T2) * (T1 * T2) -> St * O) (s0 : St)
         (xs : list T1) (ys : list T2),
    rolling2_apply_default w f s0 xs ys =
    if bad_window w xs then Panicked AssertFail
    else Done (run f s0 (mapi (fun i v => (removed w (combine xs ys) i, v)) (combine xs ys))).
Proof. exact @rolling2_apply_default_total. Qed.

(* caller buffer / Vec, ndarray fast path: `other.len() >= len` is asserted first, then the window *)
Theorem C02_two_series_buffer :
  forall (T1 T2 St O : Type) (w : nat) (f : St -> option (T1 * T2) * (T1 * T2) -> St * O) (s0 : St)
         (xs : list T1) (ys : list T2),
    rolling2_apply_to w f s0 xs ys =
    if length ys <? length xs then Panicked AssertFail
    else if bad_window w xs then Panicked AssertFail
    else Done (run f s0 (mapi (fun i v => (removed_to w (combine xs ys) i, v)) (combine xs ys))).
Proof. exact @rolling2_apply_to_total. Qed.

Theorem C02_two_series_idx_returned :
  forall (T1 T2 St O : Type) (w : nat) (f : St -> option nat * nat * (T1 * T2) -> St * O) (s0 : St)
         (xs : list T1) (ys : list T2),
    rolling2_apply_idx_default w f s0 xs ys =
    if bad_window w xs then Panicked AssertFail
    else Done (run f s0 (mapi (fun i v => (start_of w i, i, v)) (combine xs ys))).
Proof. exact @rolling2_apply_idx_default_total. Qed.

Theorem C02_two_series_idx_buffer :
  forall (T1 T2 St O : Type) (w : nat) (f : St -> option nat * nat * (T1 * T2) -> St * O) (s0 : St)
         (xs : list T1) (ys : list T2),
    rolling2_apply_idx_to w f s0 xs ys =
    if length ys <? length xs then Panicked AssertFail
    else if bad_window w xs then Panicked AssertFail
    else Done (run f s0 (mapi (fun i v => (start_of (Nat.min w (length (combine xs ys))) i, i, v))
                              (combine xs ys))).
Proof. exact @rolling2_apply_idx_to_total. Qed.

(* rolling2_custom (both paths): the lengths, then `window - 1`; the callback gets the two windows *)
Theorem C02_two_series_slice :
  forall (T1 T2 St O : Type) (w : nat) (f : St -> list T1 * list T2 -> St * O) (s0 : St)
         (xs : list T1) (ys : list T2),
    rolling2_custom_default w f s0 xs ys =
    if length ys <? length xs then Panicked AssertFail
    else if w =? 0 then Panicked Underflow
    else Done (run f s0 (map (fun i => (win w i xs, win w i ys)) (seq 0 (length xs)))).
Proof. exact @rolling2_custom_default_total. Qed.

(* the start iterator of rolling2_apply_idx counts to len SELF; zipped it is the one-series argument list *)
Theorem C02_two_series_start_iterator :
  forall (T1 T2 : Type) (w : nat) (xs : list T1) (ys : list T2),
    args_iter_idx2 w xs ys = args_iter_idx w (combine xs ys).
Proof. exact @args_iter_idx2_eq. Qed.

(* where "the window check on the zipped series" (the model before X12) and the check of the code differ *)
Theorem C02_window_check_first_vs_zipped :
  forall (T1 T2 : Type) (w : nat) (xs : list T1) (ys : list T2),
    bad_window w (combine xs ys) <> bad_window w xs <-> w = 0 /\ xs <> [] /\ ys = [].
Proof. exact @bad_window_combine_differs. Qed.

Theorem C02_two_series_returned_window0 :
  forall (T1 T2 St O : Type) (f : St -> option (T1 * T2) * (T1 * T2) -> St * O)
         (g : St -> option nat * nat * (T1 * T2) -> St * O) (s0 : St) (xs : list T1) (ys : list T2),
    xs <> [] ->
    rolling2_apply_default 0 f s0 xs ys = Panicked AssertFail /\
    rolling2_apply_idx_default 0 g s0 xs ys = Panicked AssertFail.
Proof.
  intros; split; [apply rolling2_apply_default_window0|apply rolling2_apply_idx_default_window0]; assumption.
Qed.

(* the first failing check, in the order of the code (compared with the panic MESSAGE by the harness) *)
Theorem C02_two_series_check_returned :
  forall (T1 T2 : Type) (w : nat) (xs : list T1) (ys : list T2),
    (check2_default w xs ys = Some GWindow <-> w = 0 /\ xs <> []) /\
    (check2_default w xs ys = None <-> 1 <= w \/ xs = []).
Proof. exact @check2_default_spec. Qed.

Theorem C02_two_series_check_buffer :
  forall (T1 T2 : Type) (w : nat) (xs : list T1) (ys : list T2),
    (check2_to w xs ys = Some GShorter <-> length ys < length xs) /\
    (check2_to w xs ys = Some GWindow <-> length xs <= length ys /\ w = 0 /\ xs <> []) /\
    (check2_to w xs ys = None <-> length xs <= length ys /\ (1 <= w \/ xs = [])).
Proof. exact @check2_to_spec. Qed.

Theorem C02_two_series_bodies_agree :
  forall (T1 T2 St O : Type) (pre : St -> T1 * T2 -> St) (emit : St -> O) (post : St -> option (T1 * T2) -> St)
         (w : nat) (s0 : St) (xs : list T1) (ys : list T2),
    length xs <= length ys ->
    rolling2_apply_to w (aer pre emit post) s0 xs ys = rolling2_apply_default w (aer pre emit post) s0 xs ys.
Proof. intros; apply rolling2_apply_bodies_agree; assumption. Qed.

Theorem C02_two_series_idx_bodies_agree :
  forall (T1 T2 St O : Type) (pre : St -> nat -> T1 * T2 -> St) (emit : St -> O) (post : St -> option nat -> St)
         (w : nat) (s0 : St) (xs : list T1) (ys : list T2),
    w <= length xs <= length ys ->
    rolling2_apply_idx_to w (aer_idx pre emit post) s0 xs ys
    = rolling2_apply_idx_default w (aer_idx pre emit post) s0 xs ys.
Proof. intros; apply rolling2_apply_idx_bodies_agree; assumption. Qed.

(* a shorter second series is where the two paths differ by design *)
Theorem C02_two_series_shorter_second :
  forall (T1 T2 St O : Type) (w : nat) (f : St -> option (T1 * T2) * (T1 * T2) -> St * O) (s0 : St)
         (xs : list T1) (ys : list T2),
    length ys < length xs -> 1 <= w ->
    rolling2_apply_to w f s0 xs ys = Panicked AssertFail /\
    exists l, rolling2_apply_default w f s0 xs ys = Done l /\ length l = length ys.
Proof. intros; apply rolling2_shorter_second; assumption. Qed.

(* non-vacuity of the X12 implications; the corner the model had wrong: window 0, empty second series *)
Example C02_example_two_series :
  let f := fun (s : nat) (a : option (nat * nat) * (nat * nat)) => (s + 1, (s, a)) in
  let g := fun (s : nat) (a : option nat * nat * (nat * nat)) => (s + 1, (s, a)) in
  rolling2_apply_default 0 f 0 [7; 8] (@nil nat) = Panicked AssertFail
  /\ rolling2_apply_idx_default 0 g 0 [7; 8] (@nil nat) = Panicked AssertFail
  /\ rolling2_apply_default 0 f 0 (@nil nat) [1] = Done []
  /\ rolling2_apply_default 2 f 0 [7; 8; 9] [1; 2] = Done [(0, (None, (7, 1))); (1, (Some (7, 1), (8, 2)))]
  /\ rolling2_apply_to 2 f 0 [7; 8; 9] [1; 2] = Panicked AssertFail
  /\ rolling2_apply_to 2 f 0 [7; 8] [1; 2; 3] = Done [(0, (None, (7, 1))); (1, (Some (7, 1), (8, 2)))]
  /\ rolling2_apply_idx_to 1 g 0 [7; 8] [1; 2; 3] = rolling2_apply_idx_default 1 g 0 [7; 8] [1; 2; 3]
  /\ (bad_window 0 (combine [7] (@nil nat)) = false /\ bad_window 0 [7] = true)
  /\ check2_to 0 [7; 8] [1] = Some GShorter /\ check2_to 0 [7; 8] [1; 2] = Some GWindow
  /\ check2_default 0 [7; 8] [1] = Some GWindow /\ check2_custom 0 (@nil nat) (@nil nat) = Some GUnderflow
  /\ rolling_custom_default 0 (fun (s : nat) (l : list nat) => (s, l)) 0 (@nil nat) = Panicked Underflow.
Proof. vm_compute. repeat split. Qed.

(* ======================================================================================================
   (YA) AUDIT.  notes/C02.md has the clause-by-clause matrix; the theorems below close what it found:
   the number / order / arguments of the invocations as an observation of an arbitrary callback, the
   window as a set of positions, the corner cases of the statement (window = 1, len = 0, window > len) for
   every entry point and both bodies, the exact place where the two bodies differ, hypotheses dropped from
   the agreement theorems, EVERY backend x both output paths (Model/DriverDispatch.v), the lazy iterator.  *)

(* (A1) any callback, wrapped so that it also records what it receives: the k-th stored result was computed
        after exactly the first k+1 arguments, in order - and the results are those of the bare callback.
        With the closed forms `Done (run f s0 <call list>)` above (which hold for every f, hence for
        `logged f`) this is "exactly once per position, in increasing order, with these arguments". *)
Theorem C02_call_trace :
  forall (St X O : Type) (f : St -> X -> St * O) (args : list X) (s0 : St) (i : nat) (a : X),
    nth_error args i = Some a ->
    nth_error (run (logged f) (s0, []) args) i
    = Some (snd (f (state_after f s0 (firstn i args)) a), firstn (S i) args).
Proof. exact @logged_nth. Qed.

Theorem C02_call_trace_results_unchanged :
  forall (St X O : Type) (f : St -> X -> St * O) (args : list X) (s0 : St) (l : list X),
    map fst (run (logged f) (s0, l) args) = run f s0 args.
Proof. exact @logged_results. Qed.

(* (A2) "exactly the sub-sequence max(0,i-w+1)..=i": length and every element of the window, nothing beyond *)
Theorem C02_slice_positions :
  forall (X : Type) (w i : nat) (xs : list X),
    1 <= w -> i < length xs ->
    length (win w i xs) = Nat.min w (S i) /\
    (forall j, j < Nat.min w (S i) -> nth_error (win w i xs) j = nth_error xs (S i - Nat.min w (S i) + j)) /\
    (forall j, Nat.min w (S i) <= j -> nth_error (win w i xs) j = None).
Proof. exact @win_exact. Qed.

(* (A3) two series: the removed pair is the pair of the removed elements of each series *)
Theorem C02_removed_pair :
  forall (T T2 : Type) (w : nat) (xs : list T) (ys : list T2) (i : nat),
    removed w (combine xs ys) i =
    match removed w xs i, removed w ys i with Some a, Some b => Some (a, b) | _, _ => None end.
Proof. exact @removed_combine. Qed.

(* (A4) where exactly the two bodies report something different: window longer than the series, final position *)
Theorem C02_bodies_differ_exactly_at :
  forall (T : Type) (w : nat) (xs : list T) (i : nat),
    1 <= w -> i < length xs ->
    (removed_to w xs i <> removed w xs i <-> length xs < w /\ S i = length xs).
Proof. exact @removed_bodies_differ_iff. Qed.

(* ... and a callback that returns what it was told to remove does tell them apart there: the clause
   "unspecified" of the statement is needed *)
Theorem C02_bodies_differ_observably :
  forall (T : Type) (w : nat) (xs : list T),
    length xs < w -> xs <> [] ->
    rolling_apply_to w (fun (s : unit) (a : option T * T) => (s, fst a)) tt xs
    <> rolling_apply_default w (fun (s : unit) (a : option T * T) => (s, fst a)) tt xs.
Proof. exact @rolling_apply_bodies_differ_longer. Qed.

(* (A5) for EVERY callback the two bodies are equal as soon as the window fits (or the series is empty) *)
Theorem C02_bodies_equal_when_window_fits :
  forall (T St O : Type) (w : nat) (f : St -> option T * T -> St * O) (g : St -> option nat * nat * T -> St * O)
         (s0 : St) (xs : list T),
    w <= length xs \/ xs = [] ->
    rolling_apply_to w f s0 xs = rolling_apply_default w f s0 xs /\
    rolling_apply_idx_to w g s0 xs = rolling_apply_idx_default w g s0 xs.
Proof.
  intros; split; [apply rolling_apply_bodies_equal_fit | apply rolling_apply_idx_bodies_equal_fit]; assumption.
Qed.

Theorem C02_slice_bodies_equal :
  forall (T St O : Type) (w : nat) (f : St -> list T -> St * O) (s0 : St) (xs : list T),
    1 <= w -> rolling_custom_to w f s0 xs = rolling_custom_default w f s0 xs.
Proof. intros; apply rolling_custom_bodies_equal; assumption. Qed.

(* (A6) hypothesis dropped: index form, add-emit-remove callbacks, EVERY window (was: w <= len) *)
Theorem C02_idx_bodies_agree_every_window :
  forall (T St O : Type) (pre : St -> nat -> T -> St) (emit : St -> O) (post : St -> option nat -> St)
         (w : nat) (s0 : St) (xs : list T),
    rolling_apply_idx_to w (aer_idx pre emit post) s0 xs
    = rolling_apply_idx_default w (aer_idx pre emit post) s0 xs.
Proof. exact @rolling_apply_idx_bodies_agree_every_window. Qed.

Theorem C02_two_series_idx_bodies_agree_every_window :
  forall (T1 T2 St O : Type) (pre : St -> nat -> T1 * T2 -> St) (emit : St -> O) (post : St -> option nat -> St)
         (w : nat) (s0 : St) (xs : list T1) (ys : list T2),
    length xs <= length ys ->
    rolling2_apply_idx_to w (aer_idx pre emit post) s0 xs ys
    = rolling2_apply_idx_default w (aer_idx pre emit post) s0 xs ys.
Proof. intros; apply rolling2_apply_idx_bodies_agree_every_window; assumption. Qed.

(* (A7) window = 1: the element at i is also the window start, the slice is the singleton *)
Theorem C02_window_one :
  forall (T St O : Type) (f : St -> option T * T -> St * O) (g : St -> option nat * nat * T -> St * O)
         (h : St -> list T -> St * O) (s0 : St) (xs : list T),
    (rolling_apply_default 1 f s0 xs = Done (run f s0 (map (fun v => (Some v, v)) xs)) /\
     rolling_apply_to 1 f s0 xs = Done (run f s0 (map (fun v => (Some v, v)) xs))) /\
    (rolling_apply_idx_default 1 g s0 xs = Done (run g s0 (mapi (fun i v => (Some i, i, v)) xs)) /\
     rolling_apply_idx_to 1 g s0 xs = Done (run g s0 (mapi (fun i v => (Some i, i, v)) xs))) /\
    (rolling_custom_default 1 h s0 xs = Done (run h s0 (map (fun v => [v]) xs)) /\
     rolling_custom_to 1 h s0 xs = Done (run h s0 (map (fun v => [v]) xs))).
Proof.
  intros. exact (conj (rolling_apply_window1 f s0 xs) (conj (rolling_apply_idx_window1 g s0 xs) (rolling_custom_window1 h s0 xs))).
Qed.

(* (A8) len = 0: no call, empty output, for every window - except `window - 1` of the returned slice form *)
Theorem C02_empty_series :
  forall (T St O : Type) (w : nat) (f : St -> option T * T -> St * O) (g : St -> option nat * nat * T -> St * O)
         (h : St -> list T -> St * O) (s0 : St),
    rolling_apply_default w f s0 [] = Done [] /\ rolling_apply_to w f s0 [] = Done [] /\
    rolling_apply_idx_default w g s0 [] = Done [] /\ rolling_apply_idx_to w g s0 [] = Done [] /\
    rolling_custom_to w h s0 [] = Done [] /\
    rolling_custom_default w h s0 [] = (if w =? 0 then Panicked Underflow else Done []).
Proof. exact @rolling_empty. Qed.

(* (A9) window > len: the returned body never reports a removed element / start index; the two-phase body
        reports element 0 / index 0 at the final position only; the slices are the prefixes *)
Theorem C02_window_longer_remove_form :
  forall (T St O : Type) (w : nat) (f : St -> option T * T -> St * O) (s0 : St) (xs : list T),
    length xs < w ->
    rolling_apply_default w f s0 xs = Done (run f s0 (map (fun v => (None, v)) xs)) /\
    rolling_apply_to w f s0 xs
    = Done (run f s0 (mapi (fun i v => (if S i =? length xs then nth_error xs 0 else None, v)) xs)).
Proof. intros; apply rolling_apply_longer; assumption. Qed.

Theorem C02_window_longer_index_form :
  forall (T St O : Type) (w : nat) (f : St -> option nat * nat * T -> St * O) (s0 : St) (xs : list T),
    length xs < w ->
    rolling_apply_idx_default w f s0 xs = Done (run f s0 (mapi (fun i v => (None, i, v)) xs)) /\
    rolling_apply_idx_to w f s0 xs
    = Done (run f s0 (mapi (fun i v => (if S i =? length xs then Some 0 else None, i, v)) xs)).
Proof. intros; apply rolling_apply_idx_longer; assumption. Qed.

Theorem C02_window_longer_slice_form :
  forall (T St O : Type) (w : nat) (f : St -> list T -> St * O) (s0 : St) (xs : list T),
    1 <= w -> length xs <= w ->
    rolling_custom_default w f s0 xs = Done (run f s0 (map (fun i => firstn (S i) xs) (seq 0 (length xs)))) /\
    rolling_custom_to w f s0 xs = Done (run f s0 (map (fun i => firstn (S i) xs) (seq 0 (length xs)))).
Proof. intros; apply rolling_custom_longer; assumption. Qed.

(* (A10) EVERY backend x both output paths (Model/DriverDispatch.v: Vec, [T], [T; N], the three ndarray types
         override with the index body on both paths; VecDeque, the option view, Polars keep the trait default;
         Arc<V> forwards to V).  Closed forms for every window, 0 included. *)
Theorem C02_backend_remove_form :
  forall (T St O : Type) (b : backend) (out : bool) (w : nat) (f : St -> option T * T -> St * O) (s0 : St) (xs : list T),
    rolling_apply_on b out w f s0 xs =
    if bad_window w xs then Panicked AssertFail
    else Done (run f s0 (mapi (fun i v => (if fast b || out then removed_to w xs i else removed w xs i, v)) xs)).
Proof. exact @rolling_apply_on_total. Qed.

Theorem C02_backend_index_form :
  forall (T St O : Type) (b : backend) (out : bool) (w : nat) (f : St -> option nat * nat * T -> St * O) (s0 : St)
         (xs : list T),
    rolling_apply_idx_on b out w f s0 xs =
    if bad_window w xs then Panicked AssertFail
    else Done (run f s0 (mapi (fun i v => (start_of (if fast b || out then Nat.min w (length xs) else w) i, i, v)) xs)).
Proof. exact @rolling_apply_idx_on_total. Qed.

Theorem C02_backend_slice_form :
  forall (T St O : Type) (b : backend) (out : bool) (w : nat) (f : St -> list T -> St * O) (s0 : St) (xs : list T),
    rolling_custom_on b out w f s0 xs =
    if fast b then (if bad_window w xs then Panicked AssertFail else Done (run f s0 (windows w xs)))
    else (if w =? 0 then Panicked Underflow else Done (run f s0 (windows w xs))).
Proof. exact @rolling_custom_on_total. Qed.

Theorem C02_backend_two_series_remove_form :
  forall (T1 T2 St O : Type) (b : backend) (out : bool) (w : nat)
         (f : St -> option (T1 * T2) * (T1 * T2) -> St * O) (s0 : St) (xs : list T1) (ys : list T2),
    rolling2_apply_on b out w f s0 xs ys =
    if fast b || out then
      (if length ys <? length xs then Panicked AssertFail
       else if bad_window w xs then Panicked AssertFail
       else Done (run f s0 (mapi (fun i v => (removed_to w (combine xs ys) i, v)) (combine xs ys))))
    else
      (if bad_window w xs then Panicked AssertFail
       else Done (run f s0 (mapi (fun i v => (removed w (combine xs ys) i, v)) (combine xs ys)))).
Proof. exact @rolling2_apply_on_total. Qed.

Theorem C02_backend_two_series_index_form :
  forall (T1 T2 St O : Type) (b : backend) (out : bool) (w : nat)
         (f : St -> option nat * nat * (T1 * T2) -> St * O) (s0 : St) (xs : list T1) (ys : list T2),
    rolling2_apply_idx_on b out w f s0 xs ys =
    if fast b || out then
      (if length ys <? length xs then Panicked AssertFail
       else if bad_window w xs then Panicked AssertFail
       else Done (run f s0 (mapi (fun i v => (start_of (Nat.min w (length (combine xs ys))) i, i, v)) (combine xs ys))))
    else
      (if bad_window w xs then Panicked AssertFail
       else Done (run f s0 (mapi (fun i v => (start_of w i, i, v)) (combine xs ys)))).
Proof. exact @rolling2_apply_idx_on_total. Qed.

Theorem C02_backend_two_series_slice_form :
  forall (T1 T2 St O : Type) (b : backend) (out : bool) (w : nat) (f : St -> list T1 * list T2 -> St * O) (s0 : St)
         (xs : list T1) (ys : list T2),
    rolling2_custom_on b out w f s0 xs ys =
    if length ys <? length xs then Panicked AssertFail
    else if w =? 0 then Panicked Underflow
    else Done (run f s0 (map (fun i => (win w i xs, win w i ys)) (seq 0 (length xs)))).
Proof. exact @rolling2_custom_on_total. Qed.

(* Arc<V> is V; on the overriding backends the output path does not matter *)
Theorem C02_backend_arc_and_fast_path :
  forall (T St O : Type) (b : backend) (out : bool) (w : nat) (f : St -> option T * T -> St * O)
         (g : St -> option nat * nat * T -> St * O) (h : St -> list T -> St * O) (s0 : St) (xs : list T),
    (rolling_apply_on (BArc b) out w f s0 xs = rolling_apply_on b out w f s0 xs /\
     rolling_apply_idx_on (BArc b) out w g s0 xs = rolling_apply_idx_on b out w g s0 xs /\
     rolling_custom_on (BArc b) out w h s0 xs = rolling_custom_on b out w h s0 xs) /\
    (fast b = true ->
     rolling_apply_on b false w f s0 xs = rolling_apply_on b true w f s0 xs /\
     rolling_apply_idx_on b false w g s0 xs = rolling_apply_idx_on b true w g s0 xs /\
     rolling_custom_on b false w h s0 xs = rolling_custom_on b true w h s0 xs).
Proof.
  intros. split; [apply rolling_on_arc | intros Hb; apply rolling_on_fast_path_irrelevant; exact Hb].
Qed.

(* what must NOT depend on the backend or the path: every callback when the window fits; add-emit-remove
   callbacks always; the slice form at every window >= 1 *)
Theorem C02_backends_agree_when_window_fits :
  forall (T St O : Type) (b1 b2 : backend) (o1 o2 : bool) (w : nat) (f : St -> option T * T -> St * O)
         (g : St -> option nat * nat * T -> St * O) (s0 : St) (xs : list T),
    w <= length xs \/ xs = [] ->
    rolling_apply_on b1 o1 w f s0 xs = rolling_apply_on b2 o2 w f s0 xs /\
    rolling_apply_idx_on b1 o1 w g s0 xs = rolling_apply_idx_on b2 o2 w g s0 xs.
Proof.
  intros; split; [apply rolling_apply_on_agree_fit | apply rolling_apply_idx_on_agree_fit]; assumption.
Qed.

Theorem C02_backends_agree_add_emit_remove :
  forall (T St O : Type) (pre : St -> T -> St) (emit : St -> O) (post : St -> option T -> St)
         (prei : St -> nat -> T -> St) (posti : St -> option nat -> St)
         (b1 b2 : backend) (o1 o2 : bool) (w : nat) (s0 : St) (xs : list T),
    rolling_apply_on b1 o1 w (aer pre emit post) s0 xs = rolling_apply_on b2 o2 w (aer pre emit post) s0 xs /\
    rolling_apply_idx_on b1 o1 w (aer_idx prei emit posti) s0 xs
    = rolling_apply_idx_on b2 o2 w (aer_idx prei emit posti) s0 xs.
Proof.
  intros; split; [apply rolling_apply_on_agree_aer | apply rolling_apply_idx_on_agree_aer].
Qed.

Theorem C02_backends_agree_two_series_add_emit_remove :
  forall (T1 T2 St O : Type) (pre : St -> T1 * T2 -> St) (emit : St -> O) (post : St -> option (T1 * T2) -> St)
         (prei : St -> nat -> T1 * T2 -> St) (posti : St -> option nat -> St)
         (b1 b2 : backend) (o1 o2 : bool) (w : nat) (s0 : St) (xs : list T1) (ys : list T2),
    length xs <= length ys ->
    rolling2_apply_on b1 o1 w (aer pre emit post) s0 xs ys = rolling2_apply_on b2 o2 w (aer pre emit post) s0 xs ys /\
    rolling2_apply_idx_on b1 o1 w (aer_idx prei emit posti) s0 xs ys
    = rolling2_apply_idx_on b2 o2 w (aer_idx prei emit posti) s0 xs ys.
Proof.
  intros; split; [apply rolling2_apply_on_agree_aer | apply rolling2_apply_idx_on_agree_aer]; assumption.
Qed.

Theorem C02_backends_agree_slice_form :
  forall (T St O : Type) (b1 b2 : backend) (o1 o2 : bool) (w : nat) (f : St -> list T -> St * O) (s0 : St) (xs : list T),
    1 <= w -> rolling_custom_on b1 o1 w f s0 xs = rolling_custom_on b2 o2 w f s0 xs.
Proof. intros; apply rolling_custom_on_agree; assumption. Qed.

(* window 0 is the one place where the slice form depends on the backend *)
Theorem C02_backend_slice_form_window0 :
  forall (T St O : Type) (b : backend) (out : bool) (f : St -> list T -> St * O) (s0 : St) (xs : list T),
    rolling_custom_on b out 0 f s0 xs =
    if fast b then (match xs with [] => Done [] | _ => Panicked AssertFail end) else Panicked Underflow.
Proof. exact @rolling_custom_on_window0. Qed.

(* output placement per entry point: either the window assertion, or an output as long as the input whose
   slot i holds the callback's result on the i-th argument (which carries x_i) in the state after the first i *)
Theorem C02_backend_output_placement :
  forall (T St O : Type) (b : backend) (out : bool) (w : nat) (f : St -> option T * T -> St * O) (s0 : St) (xs : list T),
    (bad_window w xs = true /\ rolling_apply_on b out w f s0 xs = Panicked AssertFail) \/
    (bad_window w xs = false /\ exists l args, rolling_apply_on b out w f s0 xs = Done l /\
       length args = length xs /\ length l = length xs /\
       (forall i v, nth_error xs i = Some v -> exists r, nth_error args i = Some (r, v)) /\
       (forall i a, nth_error args i = Some a ->
          nth_error l i = Some (snd (f (state_after f s0 (firstn i args)) a)))).
Proof. exact @rolling_apply_on_shape. Qed.

(* (A11) the lazy iterator (view.rs:310): `window - 1` when it is built; pulling k items runs the callback on
         the first k windows in order and on nothing else; draining it is the returned slice form *)
Theorem C02_lazy_iterator :
  forall (T St O : Type) (k w : nat) (f : St -> list T -> St * O) (s0 : St) (xs : list T),
    rolling_custom_iter_take k w f s0 xs =
    if w =? 0 then Panicked Underflow else Done (run f s0 (firstn k (windows w xs))).
Proof. exact @rolling_custom_iter_take_total. Qed.

Theorem C02_lazy_iterator_prefix :
  forall (T St O : Type) (k w : nat) (f : St -> list T -> St * O) (s0 : St) (xs : list T),
    1 <= w ->
    rolling_custom_iter_take k w f s0 xs = Done (firstn k (run f s0 (windows w xs))) /\
    length (firstn k (run f s0 (windows w xs))) = Nat.min k (length xs).
Proof. intros; apply rolling_custom_iter_take_prefix; assumption. Qed.

Theorem C02_lazy_iterator_drained :
  forall (T St O : Type) (k w : nat) (f : St -> list T -> St * O) (s0 : St) (xs : list T),
    length xs <= k -> rolling_custom_iter_take k w f s0 xs = rolling_custom_default w f s0 xs.
Proof. intros; apply rolling_custom_iter_take_all; assumption. Qed.

(* non-vacuity of the (YA) implications *)
Example C02_example_audit :
  let f := fun (s : nat) (a : option nat * nat) => (s + 1, (s, a)) in
  let g := fun (s : nat) (a : option nat * nat * nat) => (s + 1, (s, a)) in
  let h := fun (s : nat) (l : list nat) => (s + 1, (s, l)) in
  nth_error (run (logged f) (0, []) [(None, 7); (Some 7, 8)]) 1
    = Some ((1, (Some 7, 8)), [(None, 7); (Some 7, 8)])
  /\ win 2 2 [5; 6; 7; 8] = [6; 7] /\ Nat.min 2 (S 2) = 2
  /\ removed 2 (combine [1; 2; 3] [4; 5; 6]) 2 = Some (2, 5)
  /\ (removed_to 5 [7; 8] 1 = Some 7 /\ removed 5 [7; 8] 1 = None)
  /\ rolling_apply_to 2 f 0 [7; 8; 9] = rolling_apply_default 2 f 0 [7; 8; 9]
  /\ rolling_apply_idx_to 5 (aer_idx (fun s e v => s + e + v) (fun s => s) (fun s st => s)) 0 [7; 8]
     = rolling_apply_idx_default 5 (aer_idx (fun s e v => s + e + v) (fun s => s) (fun s st => s)) 0 [7; 8]
  /\ rolling_apply_to 1 f 0 [7; 8] = Done [(0, (Some 7, 7)); (1, (Some 8, 8))]
  /\ rolling_apply_idx_to 5 g 0 [7; 8] = Done [(0, (None, 0, 7)); (1, (Some 0, 1, 8))]
  /\ rolling_apply_idx_default 5 g 0 [7; 8] = Done [(0, (None, 0, 7)); (1, (None, 1, 8))]
  /\ rolling_custom_to 5 h 0 [7; 8] = Done [(0, [7]); (1, [7; 8])]
  /\ rolling_apply_on (BArc BDeque) false 5 f 0 [7; 8] = Done [(0, (None, 7)); (1, (None, 8))]
  /\ rolling_apply_on (BArc BDeque) true 5 f 0 [7; 8] = Done [(0, (None, 7)); (1, (Some 7, 8))]
  /\ rolling_apply_on BNdView false 5 f 0 [7; 8] = Done [(0, (None, 7)); (1, (Some 7, 8))]
  /\ rolling_custom_on BVec false 0 h 0 [7] = Panicked AssertFail
  /\ rolling_custom_on BDeque false 0 h 0 [7] = Panicked Underflow
  /\ rolling_custom_on BVec false 0 h 0 [] = Done []
  /\ rolling_custom_on BDeque true 0 h 0 [] = Panicked Underflow
  /\ rolling2_apply_on BDeque false 1 (fun (s : nat) a => (s, a)) 0 [7; 8] [1] = Done [(Some (7, 1), (7, 1))]
  /\ rolling2_apply_on BVec false 1 (fun (s : nat) (a : option (nat * nat) * (nat * nat)) => (s, a)) 0 [7; 8] [1]
     = Panicked AssertFail
  /\ rolling_custom_iter_take 2 2 h 0 [7; 8; 9] = Done [(0, [7]); (1, [7; 8])]
  /\ rolling_custom_iter_take 0 0 h 0 [7] = Panicked Underflow
  /\ rolling_custom_iter_take 9 2 h 0 [7; 8; 9] = rolling_custom_default 2 h 0 [7; 8; 9].
Proof. vm_compute. repeat split. Qed.

Print Assumptions C02_once_in_order_returned.
Print Assumptions C02_once_in_order_buffer.
Print Assumptions C02_once_in_order_idx_returned.
Print Assumptions C02_once_in_order_idx_buffer.
Print Assumptions C02_removed_arg_returned.
Print Assumptions C02_removed_arg_buffer.
Print Assumptions C02_start_index.
Print Assumptions C02_slice_arg_returned.
Print Assumptions C02_slice_arg_buffer.
Print Assumptions C02_output_placement.
Print Assumptions C02_output_length.
Print Assumptions C02_bodies_same_removed.
Print Assumptions C02_bodies_agree.
Print Assumptions C02_every_window_returned.
Print Assumptions C02_every_window_buffer.
Print Assumptions C02_every_window_idx_returned.
Print Assumptions C02_every_window_idx_buffer.
Print Assumptions C02_every_window_slice_returned.
Print Assumptions C02_every_window_slice_buffer.
Print Assumptions C02_bodies_agree_every_window.
Print Assumptions C02_two_series_returned.
Print Assumptions C02_two_series_buffer.
Print Assumptions C02_two_series_idx_returned.
Print Assumptions C02_two_series_idx_buffer.
Print Assumptions C02_two_series_slice.
Print Assumptions C02_two_series_start_iterator.
Print Assumptions C02_window_check_first_vs_zipped.
Print Assumptions C02_two_series_returned_window0.
Print Assumptions C02_two_series_check_returned.
Print Assumptions C02_two_series_check_buffer.
Print Assumptions C02_two_series_bodies_agree.
Print Assumptions C02_two_series_idx_bodies_agree.
Print Assumptions C02_two_series_shorter_second.
Print Assumptions C02_call_trace.
Print Assumptions C02_call_trace_results_unchanged.
Print Assumptions C02_slice_positions.
Print Assumptions C02_removed_pair.
Print Assumptions C02_bodies_differ_exactly_at.
Print Assumptions C02_bodies_differ_observably.
Print Assumptions C02_bodies_equal_when_window_fits.
Print Assumptions C02_slice_bodies_equal.
Print Assumptions C02_idx_bodies_agree_every_window.
Print Assumptions C02_two_series_idx_bodies_agree_every_window.
Print Assumptions C02_window_one.
Print Assumptions C02_empty_series.
Print Assumptions C02_window_longer_remove_form.
Print Assumptions C02_window_longer_index_form.
Print Assumptions C02_window_longer_slice_form.
Print Assumptions C02_backend_remove_form.
Print Assumptions C02_backend_index_form.
Print Assumptions C02_backend_slice_form.
Print Assumptions C02_backend_two_series_remove_form.
Print Assumptions C02_backend_two_series_index_form.
Print Assumptions C02_backend_two_series_slice_form.
Print Assumptions C02_backend_arc_and_fast_path.
Print Assumptions C02_backends_agree_when_window_fits.
Print Assumptions C02_backends_agree_add_emit_remove.
Print Assumptions C02_backends_agree_two_series_add_emit_remove.
Print Assumptions C02_backends_agree_slice_form.
Print Assumptions C02_backend_slice_form_window0.
Print Assumptions C02_backend_output_placement.
Print Assumptions C02_lazy_iterator.
Print Assumptions C02_lazy_iterator_prefix.
Print Assumptions C02_lazy_iterator_drained.
