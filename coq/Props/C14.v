(* Props/C14.v — property C14: binning assigns the unique enclosing bin; run de-duplication keeps
   run ends.  Statements only (closed by `exact` / `apply`), non-vacuity Examples, Print Assumptions.
   Model: Model/Binning.v at Z with an explicit null (`option Z`); specification: Spec/Binning.v.
   `tmin`/`tmax` (T::MIN / T::MAX, still materialised by the code) are universally quantified: after
   the repair no result depends on them.                                                          *)
From Coq Require Import Sorted.
From Tevec Require Import Base.Prelude Model.Binning Spec.Binning Proofs.Binning Proofs.Unique.
Local Open Scope Z_scope.

(* ---- vcut ------------------------------------------------------------------------------------ *)

(* (1) a non-null value gets label j  iff  interval j (right- or left-closed as requested) contains it *)
Theorem C14_cut_label_iff_enclosing_bin :
  forall (L : Type) (tmin tmax : Z) (right add_bounds : bool) (edges : list Z) (labels : list L) (v : Z) (l : L),
    ascending edges -> count_ok add_bounds edges labels = true ->
    (cut1Z tmin tmax right add_bounds edges labels (Some v) = Lab l
     <-> exists j, contains right add_bounds edges j v /\ nth_error labels j = Some l).
Proof. intros; apply cut1_label_iff; assumption. Qed.

(* (2) ... and that interval is unique (from strict sortedness of the edges) *)
Theorem C14_cut_enclosing_bin_unique :
  forall (right add_bounds : bool) (edges : list Z) (j j' : nat) (v : Z),
    ascending edges ->
    contains right add_bounds edges j v -> contains right add_bounds edges j' v -> j = j'.
Proof. exact contains_unique. Qed.

(* (3) Err exactly when no interval contains the value: never a label for an outside value, never
       Err for an inside one (no sortedness needed) *)
Theorem C14_cut_err_iff_outside_all_bins :
  forall (L : Type) (tmin tmax : Z) (right add_bounds : bool) (edges : list Z) (labels : list L) (v : Z),
    count_ok add_bounds edges labels = true ->
    (cut1Z tmin tmax right add_bounds edges labels (Some v) = ErrItem
     <-> forall j, ~ contains right add_bounds edges j v).
Proof. intros; apply cut1_err_iff; assumption. Qed.

(* (4) totality of the element closure: a label or Err, nothing else (the model has no panic path:
       the only `unwrap` is guarded by `is_none`) *)
Theorem C14_cut_label_or_err :
  forall (L : Type) (tmin tmax : Z) (right add_bounds : bool) (edges : list Z) (labels : list L) (v : Z),
    (exists l, cut1Z tmin tmax right add_bounds edges labels (Some v) = Lab l)
    \/ cut1Z tmin tmax right add_bounds edges labels (Some v) = ErrItem.
Proof. intros; apply cut1_cases. Qed.

(* (5) for arbitrary (also unsorted) edges the label is that of the FIRST interval containing v *)
Theorem C14_cut_first_match :
  forall (L : Type) (tmin tmax : Z) (right add_bounds : bool) (edges : list Z) (labels : list L) (v : Z) (l : L),
    count_ok add_bounds edges labels = true ->
    (cut1Z tmin tmax right add_bounds edges labels (Some v) = Lab l
     <-> exists j, contains right add_bounds edges j v /\ nth_error labels j = Some l
                   /\ forall j', (j' < j)%nat -> ~ contains right add_bounds edges j' v).
Proof. intros; apply cut1_first_match; assumption. Qed.

(* (6) null gives the null label; items are positional, the output is as long as the input *)
Theorem C14_cut_null_and_positions :
  forall (L : Type) (tmin tmax : Z) (right add_bounds : bool) (edges : list Z) (labels : list L)
         (xs : list (option Z)),
    count_ok add_bounds edges labels = true ->
    cut1Z tmin tmax right add_bounds edges labels None = NullLab
    /\ vcutZ tmin tmax right add_bounds edges labels xs
       = Some (map (cut1Z tmin tmax right add_bounds edges labels) xs).
Proof. intros; split; [reflexivity|apply vcut_items; assumption]. Qed.

(* (7) the call is refused (Err, no items at all) exactly when the label count does not match *)
Theorem C14_cut_label_count :
  forall (L : Type) (tmin tmax : Z) (right add_bounds : bool) (edges : list Z) (labels : list L)
         (xs : list (option Z)),
    (vcutZ tmin tmax right add_bounds edges labels xs = None <-> count_ok add_bounds edges labels = false)
    /\ (count_ok add_bounds edges labels = true <->
        if add_bounds then length labels = (length edges + 1)%nat
        else (length labels + 1)%nat = length edges).
Proof. intros; split; [apply vcut_err_iff|apply count_ok_spec]. Qed.

(* (8) with open outer bounds every non-null value receives a label - for any edges, any T::MIN/MAX *)
Theorem C14_cut_open_bounds_total :
  forall (L : Type) (tmin tmax : Z) (right : bool) (edges : list Z) (labels : list L) (v : Z),
    count_ok true edges labels = true ->
    exists l, cut1Z tmin tmax right true edges labels (Some v) = Lab l.
Proof. intros; apply cut1_open_total; assumption. Qed.

Theorem C14_cut_open_bounds_some_bin :
  forall (right : bool) (edges : list Z) (v : Z), exists j, contains right true edges j v.
Proof. exact open_bounds_contains. Qed.

(* ---- vsorted_unique_idx / vsorted_unique ------------------------------------------------------- *)

(* (9) on a run-structured series (a nulls, runs of equal values with neighbouring runs different, b nulls)
       Keep::First returns exactly the first index of each run, Keep::Last the last one, in order *)
Theorem C14_unique_idx_first_runs :
  forall (a b : nat) (runs : list (Z * nat)),
    adjacent_distinct runs -> firstZ (expand a runs b) = starts a runs.
Proof. intros; apply first_runs; assumption. Qed.

Theorem C14_unique_idx_last_runs :
  forall (a b : nat) (runs : list (Z * nat)),
    adjacent_distinct runs -> lastZ (expand a runs b) = ends a runs.
Proof. intros; apply last_runs; assumption. Qed.

(* (10) the unique-value operation returns one representative per run *)
Theorem C14_unique_values_runs :
  forall (a b : nat) (runs : list (Z * nat)),
    adjacent_distinct runs -> uniqZ (expand a runs b) = map fst runs.
Proof. intros; apply uniq_runs; assumption. Qed.

(* (11) the reported indices are strictly ascending ... *)
Theorem C14_unique_idx_ascending :
  forall (a : nat) (runs : list (Z * nat)),
    StronglySorted lt (starts a runs) /\ StronglySorted lt (ends a runs).
Proof. intros; split; [apply starts_sorted|apply ends_sorted]. Qed.

(* (12) ... and the k-th one points at a cell holding the k-th run's value: never the index of a null *)
Theorem C14_unique_idx_never_null :
  forall (a b : nat) (runs : list (Z * nat)) (k : nat) (r : Z * nat),
    nth_error runs k = Some r ->
    nth_error (expand a runs b) (nth k (starts a runs) 0%nat) = Some (Some (fst r))
    /\ nth_error (expand a runs b) (nth k (ends a runs) 0%nat) = Some (Some (fst r))
    /\ length (starts a runs) = length runs /\ length (ends a runs) = length runs.
Proof.
  intros a b runs k r H. split; [apply starts_value; exact H|].
  split; [apply ends_value; exact H|]. split; [apply starts_length|apply ends_length].
Qed.

(* (13) the precondition is exactly "nulls only as a prefix and/or suffix": every such series is
        run-structured (run-length encoding), so (9)-(12) apply to it *)
Theorem C14_runs_decomposition :
  forall xs : list (option Z),
    nulls_at_ends xs -> exists a runs b, xs = expand a runs b /\ adjacent_distinct runs.
Proof. exact runs_decomposition. Qed.

(* (14) when equal values are adjacent (each value forms one run) the representatives are pairwise
        distinct and are exactly the non-null values of the series *)
Theorem C14_unique_values_distinct_and_complete :
  forall (a b : nat) (runs : list (Z * nat)),
    NoDup (map fst runs) -> adjacent_distinct runs ->
    NoDup (uniqZ (expand a runs b))
    /\ forall v, In v (uniqZ (expand a runs b)) <-> In (Some v) (expand a runs b).
Proof.
  intros a b runs Hnd Had. rewrite (uniq_runs a runs b Had). split; [exact Hnd|].
  intros v. symmetry. apply In_expand.
Qed.

(* (15) Keep::Last positionally, for EVERY series (nulls anywhere): index i is reported iff cell i is
        non-null and cell i+1 is not the same value; ascending, no repetition *)
Theorem C14_unique_idx_last_positional :
  forall xs : list (option Z),
    lastZ xs = filter (last_of_run_b xs) (seq 0 (length xs))
    /\ forall i, last_of_run_b xs i = true <-> last_of_run xs i.
Proof. intros; split; [apply last_positional|apply last_of_run_b_spec]. Qed.

(* (16) Keep::First positionally, when nulls form a prefix and/or suffix: index i is reported iff cell i
        is non-null and cell i-1 (if any) is not the same value *)
Theorem C14_unique_idx_first_positional :
  forall xs : list (option Z),
    nulls_at_ends xs ->
    firstZ xs = filter (first_of_run_b xs) (seq 0 (length xs))
    /\ forall i, first_of_run_b xs i = true <-> first_of_run xs i.
Proof. intros xs H; split; [apply first_positional; exact H|apply first_of_run_b_spec]. Qed.

(* ---- non-vacuity ------------------------------------------------------------------------------- *)

Example C14_ex_cut_premises :
  ascending [2; 5; 8] /\ count_ok true [2; 5; 8] [10; 11; 12; 13] = true /\ count_ok false [2; 5; 8] [10; 11] = true.
Proof. cbn. repeat split; lia. Qed.

Example C14_ex_cut_values :
  let e := [2; 5; 8] in
  vcutZ (-8) 7 true true e [10; 11; 12; 13] [Some 1; Some 2; Some 3; Some 5; Some 8; Some 9; None; Some (-8); Some 7; Some 100]
     = Some [Lab 10; Lab 10; Lab 11; Lab 11; Lab 12; Lab 13; NullLab; Lab 10; Lab 12; Lab 13]
  /\ vcutZ (-8) 7 false true e [10; 11; 12; 13] [Some 2; Some 5; Some 8; Some (-8); Some 7; Some (-100)]
     = Some [Lab 11; Lab 12; Lab 13; Lab 10; Lab 12; Lab 10]
  /\ vcutZ (-8) 7 true false e [10; 11] [Some 2; Some 3; Some 5; Some 8; Some 9; None]
     = Some [ErrItem; Lab 10; Lab 10; Lab 11; ErrItem; NullLab]
  /\ vcutZ (-8) 7 true false e [10; 11; 12] [Some 3] = None.
Proof. vm_compute. auto. Qed.

Example C14_ex_cut_contains :
  contains true true [2; 5; 8] 0 (-8) /\ contains false true [2; 5; 8] 3 8 /\ contains true false [2; 5; 8] 1 8
  /\ (forall j, ~ contains true false [2; 5; 8] j 2).
Proof.
  split; [|split; [|split]].
  - exists NegInf, (Fin 2). cbn. repeat split; try reflexivity; lia.
  - exists (Fin 8), PosInf. cbn. repeat split; try reflexivity; lia.
  - exists (Fin 5), (Fin 8). cbn. repeat split; try reflexivity; lia.
  - intros j (lo & hi & H1 & H2 & H3). destruct j as [|[|[|j]]]; cbn in H1, H2;
      try discriminate; try (destruct j; discriminate);
      injection H1 as <-; injection H2 as <-; cbn in H3; lia.
Qed.

Example C14_ex_unique_premises :
  let runs := [(7, 1%nat); (3, 0%nat); (5, 2%nat)] in
  adjacent_distinct runs /\ NoDup (map fst runs) /\ nulls_at_ends (expand 2 runs 1).
Proof.
  cbv zeta. split; [|split].
  - cbn. repeat split; congruence.
  - cbn. repeat constructor; cbn; intuition congruence.
  - exists 2%nat, [7; 7; 3; 5; 5; 5], 1%nat. reflexivity.
Qed.

Example C14_ex_unique_values :
  let runs := [(7, 1%nat); (3, 0%nat); (5, 2%nat)] in
  expand 2 runs 1 = [None; None; Some 7; Some 7; Some 3; Some 5; Some 5; Some 5; None]
  /\ firstZ (expand 2 runs 1) = [2; 4; 5]%nat
  /\ lastZ (expand 2 runs 1) = [3; 4; 7]%nat
  /\ uniqZ (expand 2 runs 1) = [7; 3; 5]
  /\ lastZ [None; Some 1; Some 1; Some 2] = [2; 3]%nat
  /\ lastZ [Some 1; None; Some 1] = [0; 2]%nat.
Proof. vm_compute. repeat split. Qed.

(* the precondition of (16) is needed: Keep::First does not treat an inner null as a run separator
   (Keep::Last does, see C14_ex_unique_values); outside the property's quantifier *)
Example C14_ex_first_needs_nulls_at_ends :
  firstZ [Some 1; None; Some 1] = [0]%nat
  /\ filter (first_of_run_b [Some 1; None; Some 1]) (seq 0 3) = [0; 2]%nat.
Proof. vm_compute. auto. Qed.

Print Assumptions C14_cut_label_iff_enclosing_bin.
Print Assumptions C14_cut_enclosing_bin_unique.
Print Assumptions C14_cut_err_iff_outside_all_bins.
Print Assumptions C14_cut_label_or_err.
Print Assumptions C14_cut_first_match.
Print Assumptions C14_cut_null_and_positions.
Print Assumptions C14_cut_label_count.
Print Assumptions C14_cut_open_bounds_total.
Print Assumptions C14_cut_open_bounds_some_bin.
Print Assumptions C14_unique_idx_first_runs.
Print Assumptions C14_unique_idx_last_runs.
Print Assumptions C14_unique_values_runs.
Print Assumptions C14_unique_idx_ascending.
Print Assumptions C14_unique_idx_never_null.
Print Assumptions C14_runs_decomposition.
Print Assumptions C14_unique_values_distinct_and_complete.
Print Assumptions C14_unique_idx_last_positional.
Print Assumptions C14_unique_idx_first_positional.
