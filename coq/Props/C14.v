(* Props/C14.v — placeholder while the pipeline is brought up; replaced by the real theorems. *)
From Tevec Require Import Base.Prelude Model.Binning.

Theorem C14_cut_null_partial :
  forall (L : Type) (right ab : bool) (edges : list Z) (labels : list L),
    cut1 Z.ltb Z.leb 0%Z 0%Z right ab edges labels None = NullLab.
Proof. reflexivity. Qed.
