(* Props/C14.v — property C14: binning assigns the unique enclosing bin; run de-duplication keeps
   run ends.  Statements only (closed by `exact` / `apply`), non-vacuity Examples, Print Assumptions.
   Model: Model/Binning.v at Z with an explicit null (`option Z`); specification: Spec/Binning.v.
   `tmin`/`tmax` (T::MIN / T::MAX, still materialised by the code) are universally quantified: after
   the repair no result depends on them.                                                          *)
From Coq Require Import Sorted.
From Tevec Require Import Base.Prelude Model.Binning Spec.Binning Proofs.Binning Proofs.Unique.
Local Open Scope Z_scope.

(* ---- vcut ------------------------------------------------------------------------------------ *)

(* (1) a non-null value gets label j  iff  interval j (right- or left-closed as requested) contains it *)
Theorem C14_cut_label_iff_enclosing_bin :
  forall (L : Type) (tmin tmax : Z) (right add_bounds : bool) (edges : list Z) (labels : list L) (v : Z) (l : L),
    ascending edges -> count_ok add_bounds edges labels = true ->
    (cut1Z tmin tmax right add_bounds edges labels (Some v) = Lab l
     <-> exists j, contains right add_bounds edges j v /\ nth_error labels j = Some l).
Proof. intros; apply cut1_label_iff; assumption. Qed.

(* (2) ... and that interval is unique (from strict sortedness of the edges) *)
Theorem C14_cut_enclosing_bin_unique :
  forall (right add_bounds : bool) (edges : list Z) (j j' : nat) (v : Z),
    ascending edges ->
    contains right add_bounds edges j v -> contains right add_bounds edges j' v -> j = j'.
Proof. exact contains_unique. Qed.

(* (3) Err exactly when no interval contains the value: never a label for an outside value, never
       Err for an inside one (no sortedness needed) *)
Theorem C14_cut_err_iff_outside_all_bins :
  forall (L : Type) (tmin tmax : Z) (right add_bounds : bool) (edges : list Z) (labels : list L) (v : Z),
    count_ok add_bounds edges labels = true ->
    (cut1Z tmin tmax right add_bounds edges labels (Some v) = ErrItem
     <-> forall j, ~ contains right add_bounds edges j v).
Proof. intros; apply cut1_err_iff; assumption. Qed.

(* (4) totality of the element closure: a label or Err, nothing else (the model has no panic path:
       the only `unwrap` is guarded by `is_none`) *)
Theorem C14_cut_label_or_err :
  forall (L : Type) (tmin tmax : Z) (right add_bounds : bool) (edges : list Z) (labels : list L) (v : Z),
    (exists l, cut1Z tmin tmax right add_bounds edges labels (Some v) = Lab l)
    \/ cut1Z tmin tmax right add_bounds edges labels (Some v) = ErrItem.
Proof. intros; apply cut1_cases. Qed.

(* (5) for arbitrary (also unsorted) edges the label is that of the FIRST interval containing v *)
Theorem C14_cut_first_match :
  forall (L : Type) (tmin tmax : Z) (right add_bounds : bool) (edges : list Z) (labels : list L) (v : Z) (l : L),
    count_ok add_bounds edges labels = true ->
    (cut1Z tmin tmax right add_bounds edges labels (Some v) = Lab l
     <-> exists j, contains right add_bounds edges j v /\ nth_error labels j = Some l
                   /\ forall j', (j' < j)%nat -> ~ contains right add_bounds edges j' v).
Proof. intros; apply cut1_first_match; assumption. Qed.

(* (6) null gives the null label; items are positional, the output is as long as the input *)
Theorem C14_cut_null_and_positions :
  forall (L : Type) (tmin tmax : Z) (right add_bounds : bool) (edges : list Z) (labels : list L)
         (xs : list (option Z)),
    count_ok add_bounds edges labels = true ->
    cut1Z tmin tmax right add_bounds edges labels None = NullLab
    /\ vcutZ tmin tmax right add_bounds edges labels xs
       = Some (map (cut1Z tmin tmax right add_bounds edges labels) xs).
Proof. intros; split; [reflexivity|apply vcut_items; assumption]. Qed.

(* (7) the call is refused (Err, no items at all) exactly when the label count does not match *)
Theorem C14_cut_label_count :
  forall (L : Type) (tmin tmax : Z) (right add_bounds : bool) (edges : list Z) (labels : list L)
         (xs : list (option Z)),
    (vcutZ tmin tmax right add_bounds edges labels xs = None <-> count_ok add_bounds edges labels = false)
    /\ (count_ok add_bounds edges labels = true <->
        if add_bounds then length labels = (length edges + 1)%nat
        else (length labels + 1)%nat = length edges).
Proof. intros; split; [apply vcut_err_iff|apply count_ok_spec]. Qed.

(* (8) with open outer bounds every non-null value receives a label - for any edges, any T::MIN/MAX *)
Theorem C14_cut_open_bounds_total :
  forall (L : Type) (tmin tmax : Z) (right : bool) (edges : list Z) (labels : list L) (v : Z),
    count_ok true edges labels = true ->
    exists l, cut1Z tmin tmax right true edges labels (Some v) = Lab l.
Proof. intros; apply cut1_open_total; assumption. Qed.

Theorem C14_cut_open_bounds_some_bin :
  forall (right : bool) (edges : list Z) (v : Z), exists j, contains right true edges j v.
Proof. exact open_bounds_contains. Qed.

(* ---- vsorted_unique_idx / vsorted_unique ------------------------------------------------------- *)

(* (9) on a run-structured series (a nulls, runs of equal values with neighbouring runs different, b nulls)
       Keep::First returns exactly the first index of each run, Keep::Last the last one, in order *)
Theorem C14_unique_idx_first_runs :
  forall (a b : nat) (runs : list (Z * nat)),
    adjacent_distinct runs -> firstZ (expand a runs b) = starts a runs.
Proof. intros; apply first_runs; assumption. Qed.

Theorem C14_unique_idx_last_runs :
  forall (a b : nat) (runs : list (Z * nat)),
    adjacent_distinct runs -> lastZ (expand a runs b) = ends a runs.
Proof. intros; apply last_runs; assumption. Qed.

(* (10) the unique-value operation returns one representative per run *)
Theorem C14_unique_values_runs :
  forall (a b : nat) (runs : list (Z * nat)),
    adjacent_distinct runs -> uniqZ (expand a runs b) = map fst runs.
Proof. intros; apply uniq_runs; assumption. Qed.

(* (11) the reported indices are strictly ascending ... *)
Theorem C14_unique_idx_ascending :
  forall (a : nat) (runs : list (Z * nat)),
    StronglySorted lt (starts a runs) /\ StronglySorted lt (ends a runs).
Proof. intros; split; [apply starts_sorted|apply ends_sorted]. Qed.

(* (12) ... and the k-th one points at a cell holding the k-th run's value: never the index of a null *)
Theorem C14_unique_idx_never_null :
  forall (a b : nat) (runs : list (Z * nat)) (k : nat) (r : Z * nat),
    nth_error runs k = Some r ->
    nth_error (expand a runs b) (nth k (starts a runs) 0%nat) = Some (Some (fst r))
    /\ nth_error (expand a runs b) (nth k (ends a runs) 0%nat) = Some (Some (fst r))
    /\ length (starts a runs) = length runs /\ length (ends a runs) = length runs.
Proof.
  intros a b runs k r H. split; [apply starts_value; exact H|].
  split; [apply ends_value; exact H|]. split; [apply starts_length|apply ends_length].
Qed.

(* (13) the precondition is exactly "nulls only as a prefix and/or suffix": every such series is
        run-structured (run-length encoding), so (9)-(12) apply to it *)
Theorem C14_runs_decomposition :
  forall xs : list (option Z),
    nulls_at_ends xs -> exists a runs b, xs = expand a runs b /\ adjacent_distinct runs.
Proof. exact runs_decomposition. Qed.

(* (14) when equal values are adjacent (each value forms one run) the representatives are pairwise
        distinct and are exactly the non-null values of the series *)
Theorem C14_unique_values_distinct_and_complete :
  forall (a b : nat) (runs : list (Z * nat)),
    NoDup (map fst runs) -> adjacent_distinct runs ->
    NoDup (uniqZ (expand a runs b))
    /\ forall v, In v (uniqZ (expand a runs b)) <-> In (Some v) (expand a runs b).
Proof.
  intros a b runs Hnd Had. rewrite (uniq_runs a runs b Had). split; [exact Hnd|].
  intros v. symmetry. apply In_expand.
Qed.

(* (15) Keep::Last positionally, for EVERY series (nulls anywhere): index i is reported iff cell i is
        non-null and cell i+1 is not the same value; ascending, no repetition *)
Theorem C14_unique_idx_last_positional :
  forall xs : list (option Z),
    lastZ xs = filter (last_of_run_b xs) (seq 0 (length xs))
    /\ forall i, last_of_run_b xs i = true <-> last_of_run xs i.
Proof. intros; split; [apply last_positional|apply last_of_run_b_spec]. Qed.

(* (16) Keep::First positionally, when nulls form a prefix and/or suffix: index i is reported iff cell i
        is non-null and cell i-1 (if any) is not the same value *)
Theorem C14_unique_idx_first_positional :
  forall xs : list (option Z),
    nulls_at_ends xs ->
    firstZ xs = filter (first_of_run_b xs) (seq 0 (length xs))
    /\ forall i, first_of_run_b xs i = true <-> first_of_run xs i.
Proof. intros xs H; split; [apply first_positional; exact H|apply first_of_run_b_spec]. Qed.

(* ---- non-vacuity ------------------------------------------------------------------------------- *)

Example C14_ex_cut_premises :
  ascending [2; 5; 8] /\ count_ok true [2; 5; 8] [10; 11; 12; 13] = true /\ count_ok false [2; 5; 8] [10; 11] = true.
Proof. cbn. repeat split; lia. Qed.

Example C14_ex_cut_values :
  let e := [2; 5; 8] in
  vcutZ (-8) 7 true true e [10; 11; 12; 13] [Some 1; Some 2; Some 3; Some 5; Some 8; Some 9; None; Some (-8); Some 7; Some 100]
     = Some [Lab 10; Lab 10; Lab 11; Lab 11; Lab 12; Lab 13; NullLab; Lab 10; Lab 12; Lab 13]
  /\ vcutZ (-8) 7 false true e [10; 11; 12; 13] [Some 2; Some 5; Some 8; Some (-8); Some 7; Some (-100)]
     = Some [Lab 11; Lab 12; Lab 13; Lab 10; Lab 12; Lab 10]
  /\ vcutZ (-8) 7 true false e [10; 11] [Some 2; Some 3; Some 5; Some 8; Some 9; None]
     = Some [ErrItem; Lab 10; Lab 10; Lab 11; ErrItem; NullLab]
  /\ vcutZ (-8) 7 true false e [10; 11; 12] [Some 3] = None.
Proof. vm_compute. auto. Qed.

Example C14_ex_cut_contains :
  contains true true [2; 5; 8] 0 (-8) /\ contains false true [2; 5; 8] 3 8 /\ contains true false [2; 5; 8] 1 8
  /\ (forall j, ~ contains true false [2; 5; 8] j 2).
Proof.
  split; [|split; [|split]].
  - exists NegInf, (Fin 2). cbn. repeat split; try reflexivity; lia.
  - exists (Fin 8), PosInf. cbn. repeat split; try reflexivity; lia.
  - exists (Fin 5), (Fin 8). cbn. repeat split; try reflexivity; lia.
  - intros j (lo & hi & H1 & H2 & H3). destruct j as [|[|[|j]]]; cbn in H1, H2;
      try discriminate; try (destruct j; discriminate);
      injection H1 as <-; injection H2 as <-; cbn in H3; lia.
Qed.

Example C14_ex_unique_premises :
  let runs := [(7, 1%nat); (3, 0%nat); (5, 2%nat)] in
  adjacent_distinct runs /\ NoDup (map fst runs) /\ nulls_at_ends (expand 2 runs 1).
Proof.
  cbv zeta. split; [|split].
  - cbn. repeat split; congruence.
  - cbn. repeat constructor; cbn; intuition congruence.
  - exists 2%nat, [7; 7; 3; 5; 5; 5], 1%nat. reflexivity.
Qed.

Example C14_ex_unique_values :
  let runs := [(7, 1%nat); (3, 0%nat); (5, 2%nat)] in
  expand 2 runs 1 = [None; None; Some 7; Some 7; Some 3; Some 5; Some 5; Some 5; None]
  /\ firstZ (expand 2 runs 1) = [2; 4; 5]%nat
  /\ lastZ (expand 2 runs 1) = [3; 4; 7]%nat
  /\ uniqZ (expand 2 runs 1) = [7; 3; 5]
  /\ lastZ [None; Some 1; Some 1; Some 2] = [2; 3]%nat
  /\ lastZ [Some 1; None; Some 1] = [0; 2]%nat.
Proof. vm_compute. repeat split. Qed.

(* the precondition of (16) is needed: Keep::First does not treat an inner null as a run separator
   (Keep::Last does, see C14_ex_unique_values); outside the property's quantifier *)
Example C14_ex_first_needs_nulls_at_ends :
  firstZ [Some 1; None; Some 1] = [0]%nat
  /\ filter (first_of_run_b [Some 1; None; Some 1]) (seq 0 3) = [0; 2]%nat.
Proof. vm_compute. auto. Qed.


(* ================================================================================================== *)
(* Audit (notes/C14.md, "Audit matrix"): the same statements for EVERY carrier the code is generic over.
   `cut1 ltb leb` / `uidx_first eqb` ... are the model of Model/Binning.v at an arbitrary element type A with its own
   comparisons; `gcontains` / `gascending` (Proofs/Audit14.v) are the specification written with those comparisons over
   the carrier extended by -inf / +inf.  CutLaws / EqLaws = strict weak order / partial equivalence on the non-null
   elements; they hold at Z (i32, i64, u64, usize) and at binary64 (f64; f32 values are binary64 values).        *)
From Coq Require Import Floats.
From Tevec Require Import Base.Num Base.F64 Spec.ExtremaOrd Proofs.Audit14.

(* (17) first match wins and Err iff no interval contains the value: ANY carrier, ANY comparison functions (no order
        law at all: also unsorted / repeated / NaN edges, also Some(NaN) values) *)
Theorem C14_cut_first_match_any_carrier :
  forall (A L : Type) (ltb leb : A -> A -> bool) (tmin tmax : A) (right add_bounds : bool)
         (edges : list A) (labels : list L) (v : A) (l : L),
    count_ok add_bounds edges labels = true ->
    (cut1 ltb leb tmin tmax right add_bounds edges labels (Some v) = Lab l
     <-> exists j, gcontains ltb leb right add_bounds edges j v /\ nth_error labels j = Some l
                   /\ forall j', (j' < j)%nat -> ~ gcontains ltb leb right add_bounds edges j' v).
Proof. intros; apply g_cut1_first_match; assumption. Qed.

Theorem C14_cut_err_iff_any_carrier :
  forall (A L : Type) (ltb leb : A -> A -> bool) (tmin tmax : A) (right add_bounds : bool)
         (edges : list A) (labels : list L) (v : A),
    count_ok add_bounds edges labels = true ->
    (cut1 ltb leb tmin tmax right add_bounds edges labels (Some v) = ErrItem
     <-> forall j, ~ gcontains ltb leb right add_bounds edges j v).
Proof. intros; apply g_cut1_err_iff; assumption. Qed.

(* (18) on an ordered carrier: label j iff interval j contains v; that interval is unique; with open bounds every
        non-null value is labelled (no sortedness needed for the last one) *)
Theorem C14_cut_label_iff_ordered_carrier :
  forall (A L : Type) (ltb leb : A -> A -> bool) (ok : A -> Prop), CutLaws ltb leb ok ->
  forall (tmin tmax : A) (right add_bounds : bool) (edges : list A) (labels : list L) (v : A) (l : L),
    Forall ok edges -> ok v -> gascending ltb edges -> count_ok add_bounds edges labels = true ->
    (cut1 ltb leb tmin tmax right add_bounds edges labels (Some v) = Lab l
     <-> exists j, gcontains ltb leb right add_bounds edges j v /\ nth_error labels j = Some l).
Proof. intros A L ltb leb ok CL; intros; apply (g_cut1_label_iff ltb leb ok CL); assumption. Qed.

Theorem C14_cut_bin_unique_ordered_carrier :
  forall (A : Type) (ltb leb : A -> A -> bool) (ok : A -> Prop), CutLaws ltb leb ok ->
  forall (right add_bounds : bool) (edges : list A) (j j' : nat) (v : A),
    Forall ok edges -> ok v -> gascending ltb edges ->
    gcontains ltb leb right add_bounds edges j v -> gcontains ltb leb right add_bounds edges j' v -> j = j'.
Proof. intros A ltb leb ok CL; intros; eapply (gcontains_unique ltb leb ok CL); eassumption. Qed.

Theorem C14_cut_open_bounds_total_ordered_carrier :
  forall (A L : Type) (ltb leb : A -> A -> bool) (ok : A -> Prop), CutLaws ltb leb ok ->
  forall (tmin tmax : A) (right : bool) (edges : list A) (labels : list L) (v : A),
    Forall ok edges -> ok v ->
    (exists j, gcontains ltb leb right true edges j v) /\
    (count_ok true edges labels = true -> exists l, cut1 ltb leb tmin tmax right true edges labels (Some v) = Lab l).
Proof.
  intros A L ltb leb ok CL tmin tmax right edges labels v Hok Hv. split.
  - apply (g_open_bounds_contains ltb leb ok CL); assumption.
  - intros Hc. apply (g_cut1_open_total ltb leb ok CL); assumption.
Qed.

(* (19) what must NOT happen (any carrier, no law): a label that is not one of the given labels; a result that depends
        on the materialised T::MIN / T::MAX; an output of another length, an item at another position, a null label for
        a non-null value or a non-null label / Err for a null *)
Theorem C14_cut_label_is_a_given_label :
  forall (A L : Type) (ltb leb : A -> A -> bool) (tmin tmax : A) (right add_bounds : bool)
         (edges : list A) (labels : list L) (x : option A) (l : L),
    cut1 ltb leb tmin tmax right add_bounds edges labels x = Lab l -> In l labels.
Proof. intros A L ltb leb; exact (g_cut1_label_from_labels ltb leb). Qed.

Theorem C14_cut_type_bounds_irrelevant :
  forall (A L : Type) (ltb leb : A -> A -> bool) (tmin tmax tmin' tmax' : A) (right add_bounds : bool)
         (edges : list A) (labels : list L) (x : option A),
    count_ok add_bounds edges labels = true ->
    cut1 ltb leb tmin tmax right add_bounds edges labels x = cut1 ltb leb tmin' tmax' right add_bounds edges labels x.
Proof. intros; apply g_cut1_bounds_irrelevant; assumption. Qed.

Theorem C14_cut_shape_any_carrier :
  forall (A L : Type) (ltb leb : A -> A -> bool) (tmin tmax : A) (right add_bounds : bool)
         (edges : list A) (labels : list L) (xs : list (option A)),
    (vcut ltb leb tmin tmax right add_bounds edges labels xs = None <-> count_ok add_bounds edges labels = false) /\
    (forall its, vcut ltb leb tmin tmax right add_bounds edges labels xs = Some its ->
       length its = length xs /\
       forall i, nth_error its i
                 = option_map (cut1 ltb leb tmin tmax right add_bounds edges labels) (nth_error xs i)) /\
    (forall its i, vcut ltb leb tmin tmax right add_bounds edges labels xs = Some its ->
       (nth_error its i = Some NullLab <-> nth_error xs i = Some None)).
Proof. intros; apply g_vcut_shape. Qed.

(* (20) the laws hold on the carriers of the code: every `Num` carrier satisfying the order laws of Spec/ExtremaOrd.v
        (the premise used by C03), in particular Z and binary64 *)
Theorem C14_carrier_laws :
  (forall (A : Type) (NA : Num A), OrdLaws A ->
     CutLaws (A := A) nltb nleb num_ok /\ EqLaws (A := A) neqb num_ok) /\
  (CutLaws Z.ltb Z.leb (fun _ => True) /\ EqLaws Z.eqb (fun _ => True)) /\
  (CutLaws PrimFloat.ltb PrimFloat.leb f64_ok /\ EqLaws PrimFloat.eqb f64_ok).
Proof.
  split; [|split].
  - intros A NA H. split; [exact (cutlaws_of_ordlaws H)|exact (eqlaws_of_ordlaws H)].
  - split; [exact cutlaws_Z|exact eqlaws_Z].
  - split; [exact cutlaws_f64|exact eqlaws_f64].
Qed.

(* ... and at Z the generic specification is the integer specification used by (1)-(8) *)
Theorem C14_generic_spec_at_Z :
  forall (right add_bounds : bool) (edges : list Z) (j : nat) (v : Z),
    (gcontains Z.ltb Z.leb right add_bounds edges j v <-> contains right add_bounds edges j v)
    /\ (gascending Z.ltb edges <-> ascending edges).
Proof. intros; split; [apply gcontains_Z|apply gascending_Z]. Qed.

(* (21) binary64 (f64 values / edges; NaN is the null and is excluded from the edges) *)
Theorem C14_cut_label_iff_enclosing_bin_binary64 :
  forall (L : Type) (tmin tmax : float) (right add_bounds : bool) (edges : list float) (labels : list L)
         (v : float) (l : L),
    Forall f64_ok edges -> f64_ok v -> ascendingF edges -> count_ok add_bounds edges labels = true ->
    (cut1F tmin tmax right add_bounds edges labels (Some v) = Lab l
     <-> exists j, containsF right add_bounds edges j v /\ nth_error labels j = Some l).
Proof. intros; apply cut1_label_iff_f64; assumption. Qed.

Theorem C14_cut_enclosing_bin_unique_binary64 :
  forall (right add_bounds : bool) (edges : list float) (j j' : nat) (v : float),
    Forall f64_ok edges -> f64_ok v -> ascendingF edges ->
    containsF right add_bounds edges j v -> containsF right add_bounds edges j' v -> j = j'.
Proof. intros; eapply contains_unique_f64; eassumption. Qed.

Theorem C14_cut_open_bounds_total_binary64 :
  forall (L : Type) (tmin tmax : float) (right : bool) (edges : list float) (labels : list L) (v : float),
    Forall f64_ok edges -> f64_ok v -> count_ok true edges labels = true ->
    exists l, cut1F tmin tmax right true edges labels (Some v) = Lab l.
Proof. intros; apply cut1_open_total_f64; assumption. Qed.

(* the premise "no NaN edge" cannot be dropped (outside the quantifier: "ascending edge vectors") *)
Theorem C14_nan_edge_is_outside_the_property :
  cut1F (L := Z) neg_infinity infinity true true [nan] [100; 101] (Some one) = ErrItem
  /\ count_ok true [nan] [100; 101] = true /\ ~ f64_ok nan.
Proof. split; [exact nan_edge_loses_totality|]. split; [reflexivity|]. unfold f64_ok. vm_compute. discriminate. Qed.

(* ---- unique, every carrier ------------------------------------------------------------------------ *)

(* (22) no law at all (any `==`, any series, nulls anywhere): every reported index is a position of the input that
        holds a non-null value - never a null, never out of range - and the indices are strictly ascending *)
Theorem C14_unique_idx_valid_positions :
  forall (A : Type) (eqb : A -> A -> bool) (xs : list (option A)),
    (forall k, In k (uidx_first eqb xs) -> (k < length xs)%nat /\ exists v, nth_error xs k = Some (Some v)) /\
    (forall k, In k (uidx_last eqb xs) -> (k < length xs)%nat /\ exists v, nth_error xs k = Some (Some v)) /\
    StronglySorted lt (uidx_first eqb xs) /\ StronglySorted lt (uidx_last eqb xs).
Proof.
  intros A eqb xs. destruct (g_first_idx_valid eqb xs) as [H1 H2]. destruct (g_last_idx_valid eqb xs) as [H3 H4].
  split; [exact H1|]. split; [exact H3|]. split; assumption.
Qed.

(* (23) Keep::Last positionally on every carrier with an equivalence `==`, for EVERY series *)
Theorem C14_unique_idx_last_positional_any_carrier :
  forall (A : Type) (eqb : A -> A -> bool) (ok : A -> Prop), EqLaws eqb ok ->
  forall xs : list (option A), Forall (okc ok) xs ->
    uidx_last eqb xs = filter (g_last_of_run_b eqb xs) (seq 0 (length xs))
    /\ forall i, g_last_of_run_b eqb xs i = true <->
                 exists v, nth_error xs i = Some (Some v)
                           /\ forall u, nth_error xs (S i) = Some (Some u) -> eqb v u = false.
Proof.
  intros A eqb ok EL xs Hok. split; [apply (g_last_positional eqb ok EL); exact Hok|].
  intros i. apply g_last_of_run_b_spec.
Qed.

(* (24) Keep::First positionally for EVERY series (the hypothesis `nulls_at_ends` of (16) dropped): index i is
        reported iff cell i is non-null and the NEAREST NON-NULL cell before it (if any) does not hold an equal value;
        `last_valid` is that cell *)
Theorem C14_unique_idx_first_positional_any_series :
  forall (A : Type) (eqb : A -> A -> bool) (ok : A -> Prop), EqLaws eqb ok ->
  forall xs : list (option A), Forall (okc ok) xs ->
    uidx_first eqb xs = filter (g_first_b eqb xs) (seq 0 (length xs))
    /\ forall i, g_first_b eqb xs i = true <->
                 exists v, nth_error xs i = Some (Some v)
                           /\ forall p, last_valid (firstn i xs) None = Some p -> eqb p v = false.
Proof.
  intros A eqb ok EL xs Hok. split; [apply (g_first_positional eqb ok EL); exact Hok|].
  intros i. apply g_first_b_spec.
Qed.

Theorem C14_nearest_non_null_cell :
  forall (A : Type) (l : list (option A)) (p : A),
    last_valid l None = Some p <->
    exists j, nth_error l j = Some (Some p)
              /\ forall k, (j < k)%nat -> (k < length l)%nat -> nth_error l k = Some None.
Proof. intros; apply last_valid_spec. Qed.

(* (25) vsorted_unique returns exactly the values held at the Keep::First indices, in order - for EVERY series: one
        representative per reported index, each of them a value of the input *)
Theorem C14_unique_values_are_first_cells :
  forall (A : Type) (eqb : A -> A -> bool) (ok : A -> Prop), EqLaws eqb ok ->
  forall xs : list (option A), Forall (okc ok) xs ->
    vsorted_unique eqb xs = flat_map (cell_vals xs) (uidx_first eqb xs)
    /\ length (vsorted_unique eqb xs) = length (uidx_first eqb xs)
    /\ forall v, In v (vsorted_unique eqb xs) -> In (Some v) xs.
Proof.
  intros A eqb ok EL xs Hok. split; [apply (g_uniq_is_values_at_first eqb ok EL); exact Hok|].
  split; [apply (g_uniq_length eqb ok EL); exact Hok|].
  intros v. apply (g_uniq_values_from_input eqb ok EL); exact Hok.
Qed.

(* (26) the instances: integers - every series whatsoever; binary64 - every series without Some(NaN) *)
Theorem C14_unique_positional_integer_any_series :
  forall xs : list (option Z),
    firstZ xs = filter (g_first_b Z.eqb xs) (seq 0 (length xs))
    /\ lastZ xs = filter (g_last_of_run_b Z.eqb xs) (seq 0 (length xs))
    /\ uniqZ xs = flat_map (cell_vals xs) (firstZ xs).
Proof.
  intros xs.
  assert (Hok : Forall (okc (fun _ : Z => True)) xs) by (apply Forall_forall; intros [v|] _; exact I).
  split; [exact (g_first_positional Z.eqb _ eqlaws_Z xs Hok)|].
  split; [exact (g_last_positional Z.eqb _ eqlaws_Z xs Hok)|].
  exact (g_uniq_is_values_at_first Z.eqb _ eqlaws_Z xs Hok).
Qed.

Theorem C14_unique_positional_binary64 :
  forall xs : list (option float), Forall okcF xs ->
    uidx_first PrimFloat.eqb xs = filter (g_first_b PrimFloat.eqb xs) (seq 0 (length xs))
    /\ uidx_last PrimFloat.eqb xs = filter (g_last_of_run_b PrimFloat.eqb xs) (seq 0 (length xs))
    /\ vsorted_unique PrimFloat.eqb xs = flat_map (cell_vals xs) (uidx_first PrimFloat.eqb xs).
Proof.
  intros xs Hok.
  split; [exact (g_first_positional PrimFloat.eqb _ eqlaws_f64 xs Hok)|].
  split; [exact (g_last_positional PrimFloat.eqb _ eqlaws_f64 xs Hok)|].
  exact (g_uniq_is_values_at_first PrimFloat.eqb _ eqlaws_f64 xs Hok).
Qed.

(* (27) the inputs the quantifier excludes, as the code treats them (model `vcut_call`, compared with the real code on
        Option<i32> edge vectors holding None at every position): the label-count guard comes FIRST - a count that does
        not match is Err, never a panic, whatever the edges hold; with a matching count a null edge of an Option<_> edge
        vector panics at call time (Option::unwrap on None); without null edges the call is `vcut` on the unwrapped edges *)
Theorem C14_cut_call_guard_first_then_null_edges :
  forall (A L : Type) (ltb leb : A -> A -> bool) (tmin tmax : A) (right add_bounds : bool)
         (edges : list (option A)) (labels : list L) (xs : list (option A)),
    (count_ok add_bounds edges labels = false ->
       vcut_call ltb leb tmin tmax right add_bounds edges labels xs = Ok None) /\
    (count_ok add_bounds edges labels = true -> In None edges ->
       vcut_call ltb leb tmin tmax right add_bounds edges labels xs = Panic UnwrapNone) /\
    (forall es, edges = map Some es ->
       vcut_call ltb leb tmin tmax right add_bounds edges labels xs
       = Ok (vcut ltb leb tmin tmax right add_bounds es labels xs)).
Proof. intros; apply vcut_call_spec. Qed.

(* (28) a label type WITHOUT a null (i32 labels): the iteration unwinds (T2::none() panics, DESIGN 5.4) exactly when the
        input holds a null value; with a nullable label type nothing ever unwinds *)
Theorem C14_cut_label_type_without_null :
  forall (A L : Type) (ltb leb : A -> A -> bool) (tmin tmax : A) (nullable right add_bounds : bool)
         (es : list A) (labels : list L) (xs : list (option A)),
    collect_items nullable (map (cut1 ltb leb tmin tmax right add_bounds es labels) xs) =
    if negb nullable && existsb (fun x => match x with None => true | Some _ => false end) xs
    then Panic OtherPanic else Ok (map (cut1 ltb leb tmin tmax right add_bounds es labels) xs).
Proof. intros; apply collect_items_spec. Qed.

Example C14_ex_cut_call :
  vcut_call Z.ltb Z.leb (-8) 7 true true [Some 2; None] [10; 11] [Some 1] = Ok None
  /\ vcut_call Z.ltb Z.leb (-8) 7 true true [Some 2; None] [10; 11; 12] [Some 1] = Panic UnwrapNone
  /\ vcut_call Z.ltb Z.leb (-8) 7 true true [Some 2; Some 5] [10; 11; 12] [Some 1; None]
     = Ok (Some [Lab 10; NullLab])
  /\ collect_items false [Lab 10; @NullLab Z] = Panic OtherPanic
  /\ collect_items true [Lab 10; @NullLab Z] = Ok [Lab 10; NullLab].
Proof. vm_compute. repeat split. Qed.

(* ---- non-vacuity of the audit theorems -------------------------------------------------------------- *)

(* premises of (18)/(21) at binary64, with a value on an edge, -0.0 against the edge 0.0, and +-inf under open bounds *)
Example C14_ex_binary64_premises_and_values :
  let e := [(-1.5)%float; 0%float; 2.25%float] in
  Forall f64_ok e /\ ascendingF e /\ count_ok true e [10; 11; 12; 13] = true /\ f64_ok (-0)%float /\ f64_ok infinity
  /\ map (cut1F neg_infinity infinity true true e [10; 11; 12; 13])
         [Some (-0)%float; Some 0%float; Some 2.25%float; Some infinity; Some neg_infinity; Some 1e300%float; None]
     = [Lab 11; Lab 11; Lab 12; Lab 13; Lab 10; Lab 13; NullLab]
  /\ map (cut1F neg_infinity infinity false true e [10; 11; 12; 13])
         [Some (-0)%float; Some 0%float; Some 2.25%float; Some infinity; Some neg_infinity]
     = [Lab 12; Lab 12; Lab 13; Lab 13; Lab 10].
Proof.
  cbv zeta. split; [repeat constructor|]. split; [vm_compute; auto|]. split; [reflexivity|].
  split; [reflexivity|]. split; [reflexivity|]. split; vm_compute; reflexivity.
Qed.

Example C14_ex_containsF :
  containsF true true [(-1.5)%float; 0%float; 2.25%float] 1 (-0)%float
  /\ containsF false false [(-1.5)%float; 0%float; 2.25%float] 1 0%float.
Proof.
  split.
  - exists (GFin (-1.5)%float), (GFin 0%float). repeat split.
  - exists (GFin 0%float), (GFin 2.25%float). repeat split.
Qed.

(* (24) on a series with an inner null: First does not treat the null as a separator, Last does; (25) *)
Example C14_ex_unique_inner_null :
  let xs := [Some 1; None; Some 1; Some 2; None; None; Some 2; Some 3] in
  firstZ xs = [0; 3; 7]%nat /\ filter (g_first_b Z.eqb xs) (seq 0 (length xs)) = [0; 3; 7]%nat
  /\ lastZ xs = [0; 2; 3; 6; 7]%nat /\ filter (g_last_of_run_b Z.eqb xs) (seq 0 (length xs)) = [0; 2; 3; 6; 7]%nat
  /\ uniqZ xs = [1; 2; 3] /\ flat_map (cell_vals xs) (firstZ xs) = [1; 2; 3]
  /\ last_valid (firstn 6 xs) None = Some 2.
Proof. vm_compute. repeat split. Qed.

Example C14_ex_unique_binary64 :
  let xs := [None; Some (-0)%float; Some 0%float; Some 1.5%float; Some infinity; Some infinity; None] in
  Forall okcF xs
  /\ uidx_first PrimFloat.eqb xs = [1; 3; 4]%nat /\ uidx_last PrimFloat.eqb xs = [2; 3; 5]%nat
  /\ vsorted_unique PrimFloat.eqb xs = [(-0)%float; 1.5%float; infinity].
Proof.
  cbv zeta. split; [repeat constructor|]. vm_compute. repeat split.
Qed.

Print Assumptions C14_cut_label_iff_enclosing_bin.
Print Assumptions C14_cut_enclosing_bin_unique.
Print Assumptions C14_cut_err_iff_outside_all_bins.
Print Assumptions C14_cut_label_or_err.
Print Assumptions C14_cut_first_match.
Print Assumptions C14_cut_null_and_positions.
Print Assumptions C14_cut_label_count.
Print Assumptions C14_cut_open_bounds_total.
Print Assumptions C14_cut_open_bounds_some_bin.
Print Assumptions C14_unique_idx_first_runs.
Print Assumptions C14_unique_idx_last_runs.
Print Assumptions C14_unique_values_runs.
Print Assumptions C14_unique_idx_ascending.
Print Assumptions C14_unique_idx_never_null.
Print Assumptions C14_runs_decomposition.
Print Assumptions C14_unique_values_distinct_and_complete.
Print Assumptions C14_unique_idx_last_positional.
Print Assumptions C14_unique_idx_first_positional.
Print Assumptions C14_cut_first_match_any_carrier.
Print Assumptions C14_cut_err_iff_any_carrier.
Print Assumptions C14_cut_label_iff_ordered_carrier.
Print Assumptions C14_cut_bin_unique_ordered_carrier.
Print Assumptions C14_cut_open_bounds_total_ordered_carrier.
Print Assumptions C14_cut_label_is_a_given_label.
Print Assumptions C14_cut_type_bounds_irrelevant.
Print Assumptions C14_cut_shape_any_carrier.
Print Assumptions C14_carrier_laws.
Print Assumptions C14_generic_spec_at_Z.
Print Assumptions C14_cut_label_iff_enclosing_bin_binary64.
Print Assumptions C14_cut_enclosing_bin_unique_binary64.
Print Assumptions C14_cut_open_bounds_total_binary64.
Print Assumptions C14_nan_edge_is_outside_the_property.
Print Assumptions C14_unique_idx_valid_positions.
Print Assumptions C14_unique_idx_last_positional_any_carrier.
Print Assumptions C14_unique_idx_first_positional_any_series.
Print Assumptions C14_nearest_non_null_cell.
Print Assumptions C14_unique_values_are_first_cells.
Print Assumptions C14_unique_positional_integer_any_series.
Print Assumptions C14_unique_positional_binary64.
Print Assumptions C14_cut_call_guard_first_then_null_edges.
Print Assumptions C14_cut_label_type_without_null.
