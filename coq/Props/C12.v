(* Props/C12.v — property C12: quantiles, percentile ranks, ranks and partitions are true order
   statistics.  Statements only (closed by `exact` / `apply`), non-vacuity examples, Print Assumptions.
   Carrier: XR = option R (None = null); `valid xs` = the non-null elements in order (Spec/Stats.v);
   `rle rev` = `<=` (rev = false) or `>=` (rev = true).  The theorems are stated for ANY sorted
   arrangement s of the valid elements (one exists: C12_sorted_arrangement_exists).             *)
From Coq Require Import Reals Lra Lia List Sorting Permutation ZArith.
From Tevec Require Import Base.Prelude Base.Num Base.XR Spec.Stats Model.SortCmp Model.Quantile
     Model.Rank Model.Partition Proofs.SortCmp Proofs.OrderXR Proofs.Quantile Proofs.Partition Proofs.Rank.
Import ListNotations.
Local Open Scope R_scope.

(* ---- the model of std's sorts -------------------------------------------------------------------- *)
Theorem C12_sort_is_permutation :
  forall (X : Type) (cmp : X -> X -> comparison) (l : list X), Permutation (isort cmp l) l.
Proof. exact @isort_perm. Qed.

Theorem C12_sort_is_sorted :
  forall (X : Type) (cmp : X -> X -> comparison),
    (forall a b, cle cmp a b = true \/ cle cmp b a = true) ->
    forall l, Sorted (fun a b => cle cmp a b = true) (isort cmp l).
Proof. exact @isort_sorted. Qed.

(* sort_cmp / sort_cmp_rev sort the valid elements ascending / descending and put the nulls last:
   the sorted series is s followed by the nulls, for the sorted arrangement s of the valid elements *)
Theorem C12_sort_cmp_nulls_last :
  forall (rev : bool) (xs : list XR) (s : list R),
    Sorted (rle rev) s -> Permutation s (valid xs) ->
    isort (cmp_dir (DT := IsNoneXR) rev) xs = map Some s ++ repeat None (length xs - nv xs).
Proof. exact isort_canon. Qed.

Theorem C12_sorted_arrangement_exists :
  forall (rev : bool) (l : list R), exists s, Sorted (rle rev) s /\ Permutation s l.
Proof. exact sorted_exists. Qed.

(* ---- quantile --------------------------------------------------------------------------------------- *)
(* with s the ascending arrangement of the n >= 1 valid elements and h = (n-1) q:
   linear  s[floor h] + (s[ceil h] - s[floor h]) (h - floor h);  lower s[floor h];  higher s[ceil h];
   midpoint (s[floor h] + s[ceil h]) / 2 — on BOTH branches of the code (q <= 1/2 ascending select,
   q > 1/2 descending select with 1 - q) *)
Theorem C12_quantile :
  forall (xs : list XR) (q : R) (m : qmethod) (s : list R),
    0 <= q <= 1 -> Sorted Rle s -> Permutation s (valid xs) -> s <> [] ->
    vquantile (Some q) m xs = Ok (Some (Some (quantile_spec s q m))).
Proof. exact vquantile_spec. Qed.

Theorem C12_quantile_null_iff_no_valid :
  forall (xs : list XR) (q : R) (m : qmethod),
    0 <= q <= 1 -> (vquantile (Some q) m xs = Ok (Some None) <-> valid xs = []).
Proof.
  intros xs q m Hq. split.
  - intros H. destruct (valid xs) as [|x l] eqn:E; [reflexivity|exfalso].
    destruct (sorted_exists false (x :: l)) as (s & Hs & HP). rewrite <- E in HP.
    assert (Hne : s <> []) by (intros ->; apply Permutation_nil in HP; rewrite E in HP; discriminate).
    rewrite (vquantile_spec xs q m s Hq Hs HP Hne) in H. discriminate.
  - apply vquantile_all_null. exact Hq.
Qed.

Theorem C12_quantile_rejects_bad_q :
  forall (xs : list XR) (q : R) (m : qmethod), ~ (0 <= q <= 1) -> vquantile (Some q) m xs = Ok None.
Proof. exact vquantile_bad_q. Qed.

Theorem C12_median :
  forall (xs : list XR) (s : list R),
    Sorted Rle s -> Permutation s (valid xs) -> s <> [] ->
    vmedian xs = Ok (Some (quantile_spec s (1 / 2) Linear)).
Proof. exact vmedian_spec. Qed.

(* the mirrored index arithmetic used by the q > 1/2 branch *)
Theorem C12_mirrored_index :
  forall (L : Z) (h : R),
    Rfloor (IZR L - h) = (L - Rceil h)%Z /\ Rceil (IZR L - h) = (L - Rfloor h)%Z.
Proof. intros L h. split; [apply Rfloor_mirror|apply Rceil_mirror]. Qed.

(* ---- percentile of score ---------------------------------------------------------------------------- *)
(* L = #{valid < score}, E = #{valid = score}, N = #valid:
   rank: L/N when E = 0, (L + (E+1)/2)/N otherwise;  weak (L+E)/N;  strict L/N *)
Theorem C12_percentile_of :
  forall (xs : list XR) (sc : R) (m : pmethod),
    valid xs <> [] -> vpercentile_of (Some sc) m xs = Some (percentile_spec (valid xs) sc m).
Proof. exact vpercentile_of_spec. Qed.

Theorem C12_percentile_of_null :
  forall (xs : list XR) (sc : XR) (m : pmethod),
    sc = None \/ valid xs = [] -> vpercentile_of sc m xs = None.
Proof.
  intros xs sc m [->|H]; [reflexivity|apply vpercentile_of_all_null; exact H].
Qed.

(* ---- rank ----------------------------------------------------------------------------------------------- *)
(* every slot of the output is written; a valid element x gets  #{valid before x} + (#{valid = x} + 1)/2
   (before = smaller, or larger when rev), divided by the valid count when pct; a null gets null *)
Theorem C12_rank :
  forall (pct rev : bool) (xs : list XR) (i : nat),
    (i < length xs)%nat ->
    nth_error (vrank (DX := IsNoneXXR) pct rev xs) i
    = Some (Some (match nth i xs None with
                  | Some x =>
                      let r := INR (count_before rev x (valid xs)) + (INR (count_eq x (valid xs)) + 1) / 2 in
                      Some (if pct then r / INR (length (valid xs)) else r)
                  | None => None
                  end)).
Proof. intros pct rev xs i Hi. apply (proj2 (vrank_spec pct rev xs) i Hi). Qed.

Theorem C12_rank_length :
  forall (pct rev : bool) (xs : list XR), length (vrank (DX := IsNoneXXR) pct rev xs) = length xs.
Proof. intros pct rev xs. apply (proj1 (vrank_spec pct rev xs)). Qed.

(* ---- partition ---------------------------------------------------------------------------------------- *)
(* closed form: with s the sorted (ascending / descending) arrangement of the valid elements, the result
   is a permutation of  [the k+1 first of s] ++ [k+1-n nulls]  — and exactly that list when sort = true *)
Theorem C12_partition_closed_form :
  forall (k : nat) (sort rev : bool) (xs : list XR) (s : list R),
    Sorted (rle rev) s -> Permutation s (valid xs) ->
    exists r, vpartition k sort rev xs = Ok r /\
              Permutation r (map Some (firstn (k + 1) s) ++ repeat None (k + 1 - length s)) /\
              (sort = true -> r = map Some (firstn (k + 1) s) ++ repeat None (k + 1 - length s)).
Proof. exact vpartition_spec. Qed.

(* the property's list: k+1 entries; the non-padding entries `taken` are a sub-multiset of the valid
   elements of size min (k+1) n, each <= (rev: >=) every valid element left out; the rest is null
   padding; sorted when requested *)
Theorem C12_partition :
  forall (k : nat) (sort rev : bool) (xs : list XR),
    exists (r : list XR) (taken rest : list R),
      vpartition k sort rev xs = Ok r /\
      length r = (k + 1)%nat /\
      Permutation (valid xs) (taken ++ rest) /\
      length taken = Nat.min (k + 1) (nv xs) /\
      (forall a b, In a taken -> In b rest -> rle rev a b) /\
      Permutation r (map Some taken ++ repeat None (k + 1 - nv xs)) /\
      (sort = true -> Sorted (rle rev) taken /\ r = map Some taken ++ repeat None (k + 1 - nv xs)).
Proof.
  intros k sort rev xs.
  destruct (sorted_exists rev (valid xs)) as (s & Hs & HP).
  destruct (vpartition_spec k sort rev xs s Hs HP) as (r & Hr & Hperm & Hsort).
  assert (Hlen : length s = nv xs) by (unfold nv; apply Permutation_length; exact HP).
  exists r, (firstn (k + 1) s), (skipn (k + 1) s). unfold part_canon in *. rewrite <- Hlen.
  split; [exact Hr|]. split.
  { rewrite (Permutation_length Hperm). apply (part_canon_length k s). }
  split; [rewrite firstn_skipn; symmetry; exact HP|].
  split; [apply firstn_length|].
  split; [intros a b Ha Hb; eapply sorted_split_le; eassumption|].
  split; [exact Hperm|].
  intros E. split; [apply sorted_firstn; exact Hs|apply Hsort; exact E].
Qed.

(* arg-partition: real indices (distinct, in range, pointing at non-null elements) followed by -1
   padding; the values at the indices are (a permutation of; exactly, when sorted) the k+1 first of s *)
Theorem C12_arg_partition :
  forall (k : nat) (sort rev : bool) (xs : list XR) (s : list R),
    Sorted (rle rev) s -> Permutation s (valid xs) ->
    exists idx : list nat,
      varg_partition k sort rev xs = map Z.of_nat idx ++ repeat (-1)%Z (k + 1 - length s) /\
      NoDup idx /\ (forall i, In i idx -> (i < length xs)%nat) /\
      Permutation (map (fun i => nth i xs None) idx) (map Some (firstn (k + 1) s)) /\
      (sort = true -> map (fun i => nth i xs None) idx = map Some (firstn (k + 1) s)).
Proof. exact varg_partition_spec. Qed.

Theorem C12_arg_partition_length_and_nonnull :
  forall (k : nat) (sort rev : bool) (xs : list XR),
    length (varg_partition k sort rev xs) = (k + 1)%nat /\
    (forall z, In z (varg_partition k sort rev xs) ->
               z = (-1)%Z \/ exists x, nth_error xs (Z.to_nat z) = Some (Some x) /\ (0 <= z)%Z).
Proof.
  intros k sort rev xs.
  destruct (sorted_exists rev (valid xs)) as (s & Hs & HP).
  destruct (varg_partition_spec k sort rev xs s Hs HP) as (idx & E & Hnd & Hr & Hperm & _).
  rewrite E. split.
  - assert (Hl : length idx = length (firstn (k + 1) s)).
    { apply Permutation_length in Hperm. rewrite !map_length in Hperm. exact Hperm. }
    rewrite app_length, map_length, repeat_length, Hl, firstn_length. lia.
  - intros z Hz. apply in_app_or in Hz. destruct Hz as [Hz|Hz]; [right|left; eapply repeat_spec; exact Hz].
    apply in_map_iff in Hz. destruct Hz as (i & <- & Hi).
    assert (Hin : In (nth i xs None) (map Some (firstn (k + 1) s))).
    { apply (Permutation_in _ Hperm). apply in_map_iff. exists i. split; [reflexivity|exact Hi]. }
    apply in_map_iff in Hin. destruct Hin as (x & Hx & _). exists x. split; [|lia].
    rewrite Nat2Z.id. rewrite (nth_error_nth' xs None) by (apply Hr; exact Hi). rewrite <- Hx. reflexivity.
Qed.

(* ---- non-vacuity ---------------------------------------------------------------------------------------- *)
Example C12_example_sorted : Sorted Rle [1; 2; 4] /\ Permutation [1; 2; 4] (valid [Some 4; None; Some 1; Some 2]).
Proof.
  split.
  - repeat constructor; lra.
  - cbn. apply Permutation_sym. apply (Permutation_cons_app [1; 2] [] 4). reflexivity.
Qed.

Example C12_example_quantile :
  vquantile (Some (1 / 2)) Lower [Some 4; None; Some 1; Some 2] = Ok (Some (Some 2)).
Proof.
  destruct C12_example_sorted as [Hs HP].
  rewrite (C12_quantile _ (1 / 2) Lower [1; 2; 4]); try assumption; [|lra|discriminate].
  unfold quantile_spec. cbn [length Nat.sub INR].
  replace ((1 + 1) * (1 / 2)) with (IZR 1) by lra. rewrite Rfloor_IZR. reflexivity.
Qed.

Example C12_example_partition :
  exists r, vpartition 3 true false [Some 4; None; Some 1; Some 2] = Ok r /\ r = [Some 1; Some 2; Some 4; None].
Proof.
  destruct C12_example_sorted as [Hs HP].
  destruct (C12_partition_closed_form 3 true false _ [1; 2; 4] Hs HP) as (r & Hr & _ & Hsort).
  exists r. split; [exact Hr|]. rewrite (Hsort eq_refl). reflexivity.
Qed.

Example C12_example_rank :
  nth_error (vrank (DX := IsNoneXXR) false false [Some 2; None; Some 1; Some 1]) 0 = Some (Some (Some (2 + (1 + 1) / 2)))
  /\ nth_error (vrank (DX := IsNoneXXR) false false [Some 2; None; Some 1; Some 1]) 1 = Some (Some None).
Proof.
  split.
  - rewrite C12_rank by (cbn; lia). cbn [nth valid flat_map app]. unfold count_before, count_eq, before_b.
    cbn [filter]. destruct (Rlt_dec 2 2); [lra|]. destruct (Rlt_dec 1 2); [|lra].
    destruct (Req_EM_T 2 2); [|contradiction]. destruct (Req_EM_T 1 2); [lra|]. reflexivity.
  - rewrite C12_rank by (cbn; lia). reflexivity.
Qed.

Print Assumptions C12_sort_is_permutation.
Print Assumptions C12_sort_is_sorted.
Print Assumptions C12_sort_cmp_nulls_last.
Print Assumptions C12_sorted_arrangement_exists.
Print Assumptions C12_quantile.
Print Assumptions C12_quantile_null_iff_no_valid.
Print Assumptions C12_quantile_rejects_bad_q.
Print Assumptions C12_median.
Print Assumptions C12_mirrored_index.
Print Assumptions C12_percentile_of.
Print Assumptions C12_percentile_of_null.
Print Assumptions C12_rank.
Print Assumptions C12_rank_length.
Print Assumptions C12_partition_closed_form.
Print Assumptions C12_partition.
Print Assumptions C12_arg_partition.
Print Assumptions C12_arg_partition_length_and_nonnull.
