(* Props/C12.v — property C12 (work in progress) *)
From Coq Require Import List Sorting Permutation.
From Tevec Require Import Base.Prelude Model.SortCmp Proofs.SortCmp.

Theorem C12_sort_is_permutation :
  forall (X : Type) (cmp : X -> X -> comparison) (l : list X), Permutation (isort cmp l) l.
Proof. exact @isort_perm. Qed.

Print Assumptions C12_sort_is_permutation.
