(* Props/C12.v — property C12: quantiles, percentile ranks, ranks and partitions are true order
   statistics.  Statements only (closed by `exact` / `apply`), non-vacuity examples, Print Assumptions.
   Carrier: XR = option R (None = null); `valid xs` = the non-null elements in order (Spec/Stats.v);
   `rle rev` = `<=` (rev = false) or `>=` (rev = true).  The theorems are stated for ANY sorted
   arrangement s of the valid elements (one exists: C12_sorted_arrangement_exists).             *)
From Coq Require Import Reals Lra Lia List Sorting Permutation ZArith.
From Tevec Require Import Base.Prelude Base.Num Base.XR Spec.Stats Model.SortCmp Model.Quantile
     Model.Rank Model.Partition Proofs.SortCmp Proofs.OrderXR Proofs.Quantile Proofs.Partition Proofs.Rank.
Import ListNotations.
Local Open Scope R_scope.

(* ---- the model of std's sorts -------------------------------------------------------------------- *)
Theorem C12_sort_is_permutation :
  forall (X : Type) (cmp : X -> X -> comparison) (l : list X), Permutation (isort cmp l) l.
Proof. exact @isort_perm. Qed.

Theorem C12_sort_is_sorted :
  forall (X : Type) (cmp : X -> X -> comparison),
    (forall a b, cle cmp a b = true \/ cle cmp b a = true) ->
    forall l, Sorted (fun a b => cle cmp a b = true) (isort cmp l).
Proof. exact @isort_sorted. Qed.

(* sort_cmp / sort_cmp_rev sort the valid elements ascending / descending and put the nulls last:
   the sorted series is s followed by the nulls, for the sorted arrangement s of the valid elements *)
Theorem C12_sort_cmp_nulls_last :
  forall (rev : bool) (xs : list XR) (s : list R),
    Sorted (rle rev) s -> Permutation s (valid xs) ->
    isort (cmp_dir (DT := IsNoneXR) rev) xs = map Some s ++ repeat None (length xs - nv xs).
Proof. exact isort_canon. Qed.

Theorem C12_sorted_arrangement_exists :
  forall (rev : bool) (l : list R), exists s, Sorted (rle rev) s /\ Permutation s l.
Proof. exact sorted_exists. Qed.

(* ---- quantile --------------------------------------------------------------------------------------- *)
(* with s the ascending arrangement of the n >= 1 valid elements and h = (n-1) q:
   linear  s[floor h] + (s[ceil h] - s[floor h]) (h - floor h);  lower s[floor h];  higher s[ceil h];
   midpoint (s[floor h] + s[ceil h]) / 2 — on BOTH branches of the code (q <= 1/2 ascending select,
   q > 1/2 descending select with 1 - q) *)
Theorem C12_quantile :
  forall (xs : list XR) (q : R) (m : qmethod) (s : list R),
    0 <= q <= 1 -> Sorted Rle s -> Permutation s (valid xs) -> s <> [] ->
    vquantile (Some q) m xs = Ok (Some (Some (quantile_spec s q m))).
Proof. exact vquantile_spec. Qed.

Theorem C12_quantile_null_iff_no_valid :
  forall (xs : list XR) (q : R) (m : qmethod),
    0 <= q <= 1 -> (vquantile (Some q) m xs = Ok (Some None) <-> valid xs = []).
Proof.
  intros xs q m Hq. split.
  - intros H. destruct (valid xs) as [|x l] eqn:E; [reflexivity|exfalso].
    destruct (sorted_exists false (x :: l)) as (s & Hs & HP). rewrite <- E in HP.
    assert (Hne : s <> []) by (intros ->; apply Permutation_nil in HP; rewrite E in HP; discriminate).
    rewrite (vquantile_spec xs q m s Hq Hs HP Hne) in H. discriminate.
  - apply vquantile_all_null. exact Hq.
Qed.

Theorem C12_quantile_rejects_bad_q :
  forall (xs : list XR) (q : R) (m : qmethod), ~ (0 <= q <= 1) -> vquantile (Some q) m xs = Ok None.
Proof. exact vquantile_bad_q. Qed.

Theorem C12_median :
  forall (xs : list XR) (s : list R),
    Sorted Rle s -> Permutation s (valid xs) -> s <> [] ->
    vmedian xs = Ok (Some (quantile_spec s (1 / 2) Linear)).
Proof. exact vmedian_spec. Qed.

(* the mirrored index arithmetic used by the q > 1/2 branch *)
Theorem C12_mirrored_index :
  forall (L : Z) (h : R),
    Rfloor (IZR L - h) = (L - Rceil h)%Z /\ Rceil (IZR L - h) = (L - Rfloor h)%Z.
Proof. intros L h. split; [apply Rfloor_mirror|apply Rceil_mirror]. Qed.

(* ---- percentile of score ---------------------------------------------------------------------------- *)
(* L = #{valid < score}, E = #{valid = score}, N = #valid:
   rank: L/N when E = 0, (L + (E+1)/2)/N otherwise;  weak (L+E)/N;  strict L/N *)
Theorem C12_percentile_of :
  forall (xs : list XR) (sc : R) (m : pmethod),
    valid xs <> [] -> vpercentile_of (Some sc) m xs = Some (percentile_spec (valid xs) sc m).
Proof. exact vpercentile_of_spec. Qed.

Theorem C12_percentile_of_null :
  forall (xs : list XR) (sc : XR) (m : pmethod),
    sc = None \/ valid xs = [] -> vpercentile_of sc m xs = None.
Proof.
  intros xs sc m [->|H]; [reflexivity|apply vpercentile_of_all_null; exact H].
Qed.

(* ---- rank ----------------------------------------------------------------------------------------------- *)
(* every slot of the output is written; a valid element x gets  #{valid before x} + (#{valid = x} + 1)/2
   (before = smaller, or larger when rev), divided by the valid count when pct; a null gets null *)
Theorem C12_rank :
  forall (pct rev : bool) (xs : list XR) (i : nat),
    (i < length xs)%nat ->
    nth_error (vrank (DX := IsNoneXXR) pct rev xs) i
    = Some (Some (match nth i xs None with
                  | Some x =>
                      let r := INR (count_before rev x (valid xs)) + (INR (count_eq x (valid xs)) + 1) / 2 in
                      Some (if pct then r / INR (length (valid xs)) else r)
                  | None => None
                  end)).
Proof. intros pct rev xs i Hi. apply (proj2 (vrank_spec pct rev xs) i Hi). Qed.

Theorem C12_rank_length :
  forall (pct rev : bool) (xs : list XR), length (vrank (DX := IsNoneXXR) pct rev xs) = length xs.
Proof. intros pct rev xs. apply (proj1 (vrank_spec pct rev xs)). Qed.

(* ---- partition ---------------------------------------------------------------------------------------- *)
(* closed form: with s the sorted (ascending / descending) arrangement of the valid elements, the result
   is a permutation of  [the k+1 first of s] ++ [k+1-n nulls]  — and exactly that list when sort = true *)
Theorem C12_partition_closed_form :
  forall (k : nat) (sort rev : bool) (xs : list XR) (s : list R),
    Sorted (rle rev) s -> Permutation s (valid xs) ->
    exists r, vpartition k sort rev xs = Ok r /\
              Permutation r (map Some (firstn (k + 1) s) ++ repeat None (k + 1 - length s)) /\
              (sort = true -> r = map Some (firstn (k + 1) s) ++ repeat None (k + 1 - length s)).
Proof. exact vpartition_spec. Qed.

(* the property's list: k+1 entries; the non-padding entries `taken` are a sub-multiset of the valid
   elements of size min (k+1) n, each <= (rev: >=) every valid element left out; the rest is null
   padding; sorted when requested *)
Theorem C12_partition :
  forall (k : nat) (sort rev : bool) (xs : list XR),
    exists (r : list XR) (taken rest : list R),
      vpartition k sort rev xs = Ok r /\
      length r = (k + 1)%nat /\
      Permutation (valid xs) (taken ++ rest) /\
      length taken = Nat.min (k + 1) (nv xs) /\
      (forall a b, In a taken -> In b rest -> rle rev a b) /\
      Permutation r (map Some taken ++ repeat None (k + 1 - nv xs)) /\
      (sort = true -> Sorted (rle rev) taken /\ r = map Some taken ++ repeat None (k + 1 - nv xs)).
Proof.
  intros k sort rev xs.
  destruct (sorted_exists rev (valid xs)) as (s & Hs & HP).
  destruct (vpartition_spec k sort rev xs s Hs HP) as (r & Hr & Hperm & Hsort).
  assert (Hlen : length s = nv xs) by (unfold nv; apply Permutation_length; exact HP).
  exists r, (firstn (k + 1) s), (skipn (k + 1) s). unfold part_canon in *. rewrite <- Hlen.
  split; [exact Hr|]. split.
  { rewrite (Permutation_length Hperm). apply (part_canon_length k s). }
  split; [rewrite firstn_skipn; symmetry; exact HP|].
  split; [apply firstn_length|].
  split; [intros a b Ha Hb; eapply sorted_split_le; eassumption|].
  split; [exact Hperm|].
  intros E. split; [apply sorted_firstn; exact Hs|apply Hsort; exact E].
Qed.

(* arg-partition: real indices (distinct, in range, pointing at non-null elements) followed by -1
   padding; the values at the indices are (a permutation of; exactly, when sorted) the k+1 first of s *)
Theorem C12_arg_partition :
  forall (k : nat) (sort rev : bool) (xs : list XR) (s : list R),
    Sorted (rle rev) s -> Permutation s (valid xs) ->
    exists idx : list nat,
      varg_partition k sort rev xs = map Z.of_nat idx ++ repeat (-1)%Z (k + 1 - length s) /\
      NoDup idx /\ (forall i, In i idx -> (i < length xs)%nat) /\
      Permutation (map (fun i => nth i xs None) idx) (map Some (firstn (k + 1) s)) /\
      (sort = true -> map (fun i => nth i xs None) idx = map Some (firstn (k + 1) s)).
Proof. exact varg_partition_spec. Qed.

Theorem C12_arg_partition_length_and_nonnull :
  forall (k : nat) (sort rev : bool) (xs : list XR),
    length (varg_partition k sort rev xs) = (k + 1)%nat /\
    (forall z, In z (varg_partition k sort rev xs) ->
               z = (-1)%Z \/ exists x, nth_error xs (Z.to_nat z) = Some (Some x) /\ (0 <= z)%Z).
Proof.
  intros k sort rev xs.
  destruct (sorted_exists rev (valid xs)) as (s & Hs & HP).
  destruct (varg_partition_spec k sort rev xs s Hs HP) as (idx & E & Hnd & Hr & Hperm & _).
  rewrite E. split.
  - assert (Hl : length idx = length (firstn (k + 1) s)).
    { apply Permutation_length in Hperm. rewrite !map_length in Hperm. exact Hperm. }
    rewrite app_length, map_length, repeat_length, Hl, firstn_length. lia.
  - intros z Hz. apply in_app_or in Hz. destruct Hz as [Hz|Hz]; [right|left; eapply repeat_spec; exact Hz].
    apply in_map_iff in Hz. destruct Hz as (i & <- & Hi).
    assert (Hin : In (nth i xs None) (map Some (firstn (k + 1) s))).
    { apply (Permutation_in _ Hperm). apply in_map_iff. exists i. split; [reflexivity|exact Hi]. }
    apply in_map_iff in Hin. destruct Hin as (x & Hx & _). exists x. split; [|lia].
    rewrite Nat2Z.id. rewrite (nth_error_nth' xs None) by (apply Hr; exact Hi). rewrite <- Hx. reflexivity.
Qed.

(* ---- non-vacuity ---------------------------------------------------------------------------------------- *)
Example C12_example_sorted : Sorted Rle [1; 2; 4] /\ Permutation [1; 2; 4] (valid [Some 4; None; Some 1; Some 2]).
Proof.
  split.
  - repeat constructor; lra.
  - cbn. apply Permutation_sym. apply (Permutation_cons_app [1; 2] [] 4). reflexivity.
Qed.

Example C12_example_quantile :
  vquantile (Some (1 / 2)) Lower [Some 4; None; Some 1; Some 2] = Ok (Some (Some 2)).
Proof.
  destruct C12_example_sorted as [Hs HP].
  rewrite (C12_quantile _ (1 / 2) Lower [1; 2; 4]); try assumption; [|lra|discriminate].
  unfold quantile_spec. cbn [length Nat.sub INR].
  replace ((1 + 1) * (1 / 2)) with (IZR 1) by lra. rewrite Rfloor_IZR. reflexivity.
Qed.

Example C12_example_partition :
  exists r, vpartition 3 true false [Some 4; None; Some 1; Some 2] = Ok r /\ r = [Some 1; Some 2; Some 4; None].
Proof.
  destruct C12_example_sorted as [Hs HP].
  destruct (C12_partition_closed_form 3 true false _ [1; 2; 4] Hs HP) as (r & Hr & _ & Hsort).
  exists r. split; [exact Hr|]. rewrite (Hsort eq_refl). reflexivity.
Qed.

Example C12_example_rank :
  nth_error (vrank (DX := IsNoneXXR) false false [Some 2; None; Some 1; Some 1]) 0 = Some (Some (Some (2 + (1 + 1) / 2)))
  /\ nth_error (vrank (DX := IsNoneXXR) false false [Some 2; None; Some 1; Some 1]) 1 = Some (Some None).
Proof.
  split.
  - rewrite C12_rank by (cbn; lia). cbn [nth valid flat_map app]. unfold count_before, count_eq, before_b.
    cbn [filter]. destruct (Rlt_dec 2 2); [lra|]. destruct (Rlt_dec 1 2); [|lra].
    destruct (Req_EM_T 2 2); [|contradiction]. destruct (Req_EM_T 1 2); [lra|]. reflexivity.
  - rewrite C12_rank by (cbn; lia). reflexivity.
Qed.

Print Assumptions C12_sort_is_permutation.
Print Assumptions C12_sort_is_sorted.
Print Assumptions C12_sort_cmp_nulls_last.
Print Assumptions C12_sorted_arrangement_exists.
Print Assumptions C12_quantile.
Print Assumptions C12_quantile_null_iff_no_valid.
Print Assumptions C12_quantile_rejects_bad_q.
Print Assumptions C12_median.
Print Assumptions C12_mirrored_index.
Print Assumptions C12_percentile_of.
Print Assumptions C12_percentile_of_null.
Print Assumptions C12_rank.
Print Assumptions C12_rank_length.
Print Assumptions C12_partition_closed_form.
Print Assumptions C12_partition.
Print Assumptions C12_arg_partition.
Print Assumptions C12_arg_partition_length_and_nonnull.

(* ==== extension: the index arithmetic of vquantile AT BINARY64 ============================================
   Carrier: Coq's primitive `float` (IEEE 754 binary64; instance NumF64 of Base/F64.v — the carrier the
   correspondence run evaluates and compares with Rust), floor / ceiling = the NumFloor instance of Run/RunC12.v.
   `f2r x` is the real value of a finite float (Flocq's B2R), `Zfloor` / `Zceil` Flocq's floor / ceiling of a real.
   Proofs: Proofs/QIdxFloat.v, through Flocq's specification of IEEE arithmetic (Bmult_correct, Bminus_correct,
   binary_normalize_correct, round_le, round_generic) and Flocq.IEEE754.PrimFloat.  Axioms: the Reals axioms and
   the standard library's specification of the primitive float operations (Floats/FloatAxioms.v); notes/C12.md. *)
From Coq Require Import Floats.
From Flocq Require Import Core.
From Tevec Require Import Base.F64 Proofs.TransQuantile Proofs.RoundSum Proofs.QIdxFloat.
From Tevec Require Run.RunC12.

(* the floor / ceiling instance the theorems below talk about is the one the correspondence run executes *)
Theorem C12_binary64_floor_instance_is_the_run_instance : QIdxFloat.NumFloorF64 = Run.RunC12.NumFloorF64.
Proof. exact NumFloorF64_is_the_run_instance. Qed.

(* it computes the mathematical floor / ceiling of the value of every finite float *)
Theorem C12_binary64_floor_ceil :
  forall x : float, PrimFloat.is_finite x = true ->
    @nfloorZ float NumFloorF64 x = Zfloor (f2r x) /\ @nceilZ float NumFloorF64 x = Zceil (f2r x).
Proof. intros x H. split; [apply f64_floorZ_spec|apply f64_ceilZ_spec]; exact H. Qed.

(* `(m as f64)` is exact below 2^53 *)
Theorem C12_binary64_length_cast_exact :
  forall m : nat, (Z.of_nat m < 2 ^ 53)%Z ->
    PrimFloat.is_finite (nofnat (A := float) m) = true /\ f2r (nofnat (A := float) m) = IZR (Z.of_nat m).
Proof. exact nofnat_f64_exact. Qed.

(* the guard `0 <= q && q <= 1` in binary64 comparisons: q is finite (not NaN, not infinite) with value in [0, 1] *)
Theorem C12_binary64_unit_guard :
  forall q : float, nleb (A := float) nzero q && nleb q none = true ->
    PrimFloat.is_finite q = true /\ 0 <= f2r q <= 1.
Proof. exact unit_guard_f64. Qed.

(* THE INDEX LAW, both indices, on the branch the code takes (q <= 0.5: h = fl((n-1) q);  q > 0.5: h = fl((n-1) fl(1-q))):
   h is finite and 0 <= floor h <= ceil h <= n-1, ceil h - floor h <= 1 — for every q in [0, 1] and EVERY n >= 1 *)
Theorem C12_quantile_index_binary64 :
  forall (q : float) (n : nat),
    nleb (A := float) nzero q && nleb q none = true -> (1 <= n)%nat ->
    let h := nmul (nofnat (n - 1)) (if nleb q nhalf then q else nsub none q) in
    PrimFloat.is_finite h = true /\
    (0 <= @nfloorZ float NumFloorF64 h <= @nceilZ float NumFloorF64 h)%Z /\
    (@nceilZ float NumFloorF64 h <= Z.of_nat n - 1)%Z /\
    (@nceilZ float NumFloorF64 h - @nfloorZ float NumFloorF64 h <= 1)%Z.
Proof. exact qidx_f64_in_range_all. Qed.

(* whatever the branch: for n - 1 < 2^53 (the length cast is exact) BOTH products fl((n-1) q) and fl((n-1) fl(1-q))
   give indices in range, for every q in [0, 1]  (idx_in_range h n := the four conjuncts above) *)
Theorem C12_quantile_index_binary64_exact_length :
  forall (n : nat) (q : float),
    (1 <= n)%nat -> (Z.of_nat n <= 2 ^ 53)%Z -> nleb (A := float) nzero q && nleb q none = true ->
    idx_in_range (nmul (nofnat (n - 1)) q) n /\ idx_in_range (nmul (nofnat (n - 1)) (nsub none q)) n.
Proof. exact qidx_f64_in_range. Qed.

(* ... and the bound is needed there: (2^53+3) as f64 = 2^53+4, so with q = 1 the product the code does not form
   (q > 0.5 takes the mirrored branch) would be an index outside 0 .. n-1 *)
Theorem C12_quantile_naive_product_out_of_range :
  exists (n : nat) (q : float),
    nleb (A := float) nzero q && nleb q none = true /\ (2 <= n)%nat /\
    (Z.of_nat n - 1 < @nceilZ float NumFloorF64 (nmul (nofnat (n - 1)) q))%Z.
Proof. exact naive_product_out_of_range. Qed.

(* TransQuantile.QIdxLaw (the premise of C10_vquantile_index_in_range / C10_vquantile_never_panics /
   C08_transparent_quantile_index_law) holds at binary64 *)
Theorem C12_quantile_index_law_binary64 : QIdxLaw (A := float) (NF := NumFloorF64).
Proof. exact qidx_law_f64. Qed.

(* hence vquantile / vmedian at binary64 are total, for every null dictionary over f64 (NaN as null, Option<f64>,
   never-null): a value, or the documented Err for q outside [0, 1] (NaN included) — never a panic *)
Theorem C12_quantile_total_binary64 :
  forall (T : Type) (DT : IsNone T float) (q : float) (m : qmethod) (xs : list T),
    (exists r, vquantile (NF := NumFloorF64) q m xs = Ok r /\
               (r = None <-> nleb (A := float) nzero q && nleb q none = false)) /\
    (exists v, vmedian (NF := NumFloorF64) xs = Ok v).
Proof. intros T DT q m xs. split; [apply vquantile_never_panics_f64|apply vmedian_never_panics_f64]. Qed.

(* ---- non-vacuity ---- *)
Example C12_example_binary64_floor :
  PrimFloat.is_finite (-2.5)%float = true /\
  @nfloorZ float NumFloorF64 (-2.5)%float = (-3)%Z /\ @nceilZ float NumFloorF64 (-2.5)%float = (-2)%Z.
Proof. vm_compute. repeat split. Qed.

Example C12_example_binary64_cast : (Z.of_nat 5 < 2 ^ 53)%Z /\ nofnat (A := float) 5 = 5%float.
Proof. split; [reflexivity|vm_compute; reflexivity]. Qed.

(* q = 0x1.6666666666666p-1 (0.7) passes the guard and takes the mirrored branch: fl(1 - q) = 0.30000000000000004,
   h = fl(4 * that) = 1.2000000000000002 *)
Example C12_example_binary64_index :
  nleb (A := float) nzero 0x1.6666666666666p-1%float && nleb 0x1.6666666666666p-1%float none = true /\
  (1 <= 5)%nat /\ (Z.of_nat 5 <= 2 ^ 53)%Z /\
  nleb 0x1.6666666666666p-1%float (nhalf (A := float)) = false /\
  @nfloorZ float NumFloorF64 (nmul (nofnat (5 - 1)) (nsub none 0x1.6666666666666p-1%float)) = 1%Z /\
  @nceilZ float NumFloorF64 (nmul (nofnat (5 - 1)) (nsub none 0x1.6666666666666p-1%float)) = 2%Z.
Proof.
  split; [vm_compute; reflexivity|]. split; [lia|]. split; [lia|].
  split; [vm_compute; reflexivity|]. split; vm_compute; reflexivity.
Qed.

Example C12_example_binary64_quantile :
  vquantile (NF := NumFloorF64) (DT := IsNoneF64) 0x1.6666666666666p-1%float Lower
            [3%float; nan; 1%float; 2%float; 5%float; 4%float] = Ok (Some 3%float) /\
  vmedian (NF := NumFloorF64) (DT := IsNoneF64) [3%float; nan; 1%float; 2%float; 5%float; 4%float] = Ok 3%float.
Proof. split; vm_compute; reflexivity. Qed.

Print Assumptions C12_binary64_floor_instance_is_the_run_instance.
Print Assumptions C12_binary64_floor_ceil.
Print Assumptions C12_binary64_length_cast_exact.
Print Assumptions C12_binary64_unit_guard.
Print Assumptions C12_quantile_index_binary64.
Print Assumptions C12_quantile_index_binary64_exact_length.
Print Assumptions C12_quantile_naive_product_out_of_range.
Print Assumptions C12_quantile_index_law_binary64.
Print Assumptions C12_quantile_total_binary64.

(* ==== audit extension (Proofs/Audit12.v, Proofs/Audit12Float.v): the clauses restated at EVERY carrier ========
   `Num A` is any numeric class instance (binary64 `float`, integers, option R ...), `IsNone T A` any null
   dictionary (NaN-as-null floats, Option<_>, never-null integer types).  No order law of the carrier and no axiom is
   used: these are the structural clauses of the property (how many entries, which entries, never a null, which
   elements the quantile is computed from, which counts the percentile rank divides).  notes/C12.md: the matrix. *)
From Tevec Require Import Model.NullView Proofs.Audit12 Proofs.Audit12Float.
Local Open Scope nat_scope.

(* partition: whenever `T::none()` is a null value (tnone = Ok pad), for EVERY kth (kth >= len included), both sort
   flags, both directions: Ok r with `part_shape`: r = taken ++ nulls, taken non-null elements of the series
   (a sub-multiset of size min (kth+1) n), nulls null, length r = kth + 1.  When `T::none()` panics (the integer
   element types): the call panics exactly when padding is needed (`needs_pad`), and is Ok with the same shape otherwise *)
Theorem C12_partition_any_carrier :
  forall (A : Type) (NA : Num A) (T : Type) (DT : IsNone T A) (DX : IsNoneX T A)
         (kth : nat) (sort rev : bool) (xs : list T),
    match tnone with
    | Ok pad => is_none pad = true -> exists r, vpartition kth sort rev xs = Ok r /\ part_shape kth xs r
    | Panic e => if needs_pad kth sort xs then vpartition kth sort rev xs = Panic e
                 else exists r, vpartition kth sort rev xs = Ok r /\ part_shape kth xs r
    end.
Proof. intros A NA T DT DX. exact vpartition_shape. Qed.

(* ... in the words of the property: kth + 1 entries; min (kth+1) n of them non-null; every non-null entry is an
   element of the series; the non-null entries are a sub-multiset of the non-null elements; nulls come last *)
Theorem C12_partition_shape_facts :
  forall (A : Type) (NA : Num A) (T : Type) (DT : IsNone T A) (kth : nat) (xs r : list T),
    part_shape kth xs r ->
    length r = kth + 1 /\
    length (filter not_none r) = Nat.min (kth + 1) (count_valid xs) /\
    (forall x, In x r -> not_none x = true -> In x xs) /\
    (exists rest, Permutation (filter not_none xs) (filter not_none r ++ rest)) /\
    (exists m, all_valid (firstn m r) /\ all_null (skipn m r)).
Proof. intros A NA T DT. exact part_shape_facts. Qed.

(* arg-partition never panics and ALWAYS has kth + 1 entries: min (kth+1) n distinct positions of NON-NULL elements
   followed by -1 only *)
Theorem C12_arg_partition_any_carrier :
  forall (A : Type) (NA : Num A) (T : Type) (DT : IsNone T A) (kth : nat) (sort rev : bool) (xs : list T),
    argpart_shape kth xs (varg_partition kth sort rev xs).
Proof. intros A NA T DT. exact varg_partition_shape. Qed.

Theorem C12_arg_partition_shape_facts :
  forall (A : Type) (NA : Num A) (T : Type) (DT : IsNone T A) (kth : nat) (xs : list T) (out : list Z),
    argpart_shape kth xs out ->
    length out = kth + 1 /\
    (forall z, In z out -> z = (-1)%Z \/
       ((0 <= z)%Z /\ exists v, nth_error xs (Z.to_nat z) = Some v /\ not_none v = true)) /\
    (forall i j z, nth_error out i = Some z -> nth_error out j = Some z -> z <> (-1)%Z -> i = j) /\
    (exists m, m = Nat.min (kth + 1) (count_valid xs) /\
               Forall (fun z => (0 <= z)%Z) (firstn m out) /\ skipn m out = repeat (-1)%Z (kth + 1 - count_valid xs)).
Proof. intros A NA T DT. exact argpart_shape_facts. Qed.

(* quantile: given the carrier's index facts (floor <= ceil < n; proved at option R and at binary64), the result is
   `qvalue q n m vi vj` of two NON-NULL ELEMENTS vi, vj of the series: vj = (sorted valid)[ceil], vi the extremum of
   (sorted valid)[0 .. ceil) — lower / higher / the exact-index case return one of them unchanged *)
Theorem C12_quantile_elements_any_carrier :
  forall (A : Type) (NA : Num A) (T : Type) (DT : IsNone T A) (NF : NumFloor A)
         (q : A) (mth : qmethod) (xs : list T),
    nleb nzero q && nleb q none = true ->
    let n := count_valid xs in
    2 <= n -> qi_of q n <= qj_of q n -> qj_of q n < n ->
    exists vi vj, is_valid_elem xs vi /\ is_valid_elem xs vj /\
      vquantile q mth xs = Ok (Some (qvalue q n mth vi vj)) /\
      (let S0 := isort (cmp_dir (qrev q)) (filter not_none xs) in
       (exists m, nth_error S0 (qj_of q n) = Some m /\ vj = unwrap m) /\
       (qi_of q n <> qj_of q n -> exists x, In x (firstn (qj_of q n) S0) /\ vi = unwrap x)).
Proof. intros A NA T DT NF. exact vquantile_elements. Qed.

(* no valid element: null; exactly one: that element, wherever it stands *)
Theorem C12_quantile_small_any_carrier :
  forall (A : Type) (NA : Num A) (T : Type) (DT : IsNone T A) (NF : NumFloor A)
         (q : A) (mth : qmethod) (xs : list T),
    nleb nzero q && nleb q none = true ->
    (count_valid xs = 0 -> vquantile q mth xs = Ok (Some nnan)) /\
    (count_valid xs = 1 -> exists x, In x xs /\ not_none x = true /\ filter not_none xs = [x] /\
                            vquantile q mth xs = Ok (Some (unwrap x))).
Proof. intros A NA T DT NF. exact vquantile_small. Qed.

(* percentile of score: L = #{non-null < score}, E = #{non-null, not <, == score}, N = #non-null, in the carrier's
   own comparisons; the result is the documented proportion of these counts in the carrier's arithmetic *)
Theorem C12_percentile_of_counts_any_carrier :
  forall (A : Type) (NA : Num A) (T : Type) (DT : IsNone T A) (score : T) (m : pmethod) (xs : list T),
    vpercentile_of score m xs =
    if is_none score then nnan else
    let sc := unwrap score in
    let L := cnt_lt sc xs in let E := cnt_eq sc xs in let N := count_valid xs in
    if N =? 0 then nnan else
    match m with
    | PRank => if 1 <? E then ndiv (nmul (nofnat ((L + 1) + (L + 1 + (E - 1)))) nhalf) (nofnat N)
               else ndiv (nofnat (L + E)) (nofnat N)
    | PWeak => ndiv (nofnat (L + E)) (nofnat N)
    | PStrict => ndiv (nofnat L) (nofnat N)
    end.
Proof. intros A NA T DT. exact vpercentile_of_counts. Qed.

Theorem C12_rank_length_any_carrier :
  forall (A : Type) (NA : Num A) (T : Type) (DT : IsNone T A) (DX : IsNoneX T A) (pct rev : bool) (xs : list T),
    length (vrank pct rev xs) = length xs.
Proof. intros A NA T DT DX. exact vrank_length_gen. Qed.

(* ---- AT BINARY64 ---------------------------------------------------------------------------------------- *)
(* the index premises hold (C12_quantile_index_binary64): for every q passing the guard and every series with
   n >= 2 non-null elements, every null dictionary over f64, the quantile is computed from two non-null ELEMENTS of
   the series; floor <= ceil < n, ceil - floor <= 1.  Lower / Higher / the exact index return an element bit for bit *)
Theorem C12_quantile_elements_binary64 :
  forall (T : Type) (DT : IsNone T float) (q : float) (mth : qmethod) (xs : list T),
    nleb (A := float) nzero q && nleb q none = true ->
    let n := count_valid xs in
    2 <= n ->
    exists vi vj, is_valid_elem xs vi /\ is_valid_elem xs vj /\
      vquantile (NF := NumFloorF64) q mth xs = Ok (Some (qvalue (NF := NumFloorF64) q n mth vi vj)) /\
      (qi_of (NF := NumFloorF64) q n <= qj_of (NF := NumFloorF64) q n < n) /\
      (qj_of (NF := NumFloorF64) q n - qi_of (NF := NumFloorF64) q n <= 1).
Proof. intros T DT. exact vquantile_elements_f64. Qed.

(* the linear interpolation r = fl(vi + fl(fl(vj - vi) * fraction)), finite operands, 0 <= fraction <= 1, no overflow:
   r is finite and lies between vi and E = fl(vi + fl(vj - vi)), on vj's side of vi *)
Theorem C12_interpolation_binary64_between :
  forall vi vj fr : float,
    ffin vi = true -> ffin fr = true -> (0 <= f2r fr <= 1)%R ->
    ffin (vj - vi)%float = true -> ffin (vi + (vj - vi))%float = true ->
    let E := f2r (vi + (vj - vi))%float in
    ffin (interp64 vi vj fr) = true /\
    ((0 <= f2r (vj - vi)%float)%R -> (f2r vi <= f2r (interp64 vi vj fr) <= E)%R) /\
    ((f2r (vj - vi)%float <= 0)%R -> (E <= f2r (interp64 vi vj fr) <= f2r vi)%R).
Proof. exact interp_f64_between. Qed.

(* when the difference vj - vi is exact, r lies between vi and vj (both orientations: the mirrored branch has vj <= vi) *)
Theorem C12_interpolation_binary64_exact_difference :
  forall vi vj fr : float,
    ffin vi = true -> ffin vj = true -> ffin fr = true -> (0 <= f2r fr <= 1)%R ->
    ffin (vj - vi)%float = true -> f2r (vj - vi)%float = (f2r vj - f2r vi)%R ->
    ffin (interp64 vi vj fr) = true /\
    ((f2r vi <= f2r vj)%R -> (f2r vi <= f2r (interp64 vi vj fr) <= f2r vj)%R) /\
    ((f2r vj <= f2r vi)%R -> (f2r vj <= f2r (interp64 vi vj fr) <= f2r vi)%R).
Proof. exact interp_f64_in_range_exact_diff. Qed.

(* ... which is the case whenever the two elements are within a factor two of each other (Sterbenz) *)
Theorem C12_binary64_difference_exact_sterbenz :
  forall vi vj : float,
    ffin vi = true -> ffin vj = true -> (f2r vi / 2 <= f2r vj <= 2 * f2r vi)%R ->
    ffin (vj - vi)%float = true /\ f2r (vj - vi)%float = (f2r vj - f2r vi)%R.
Proof. exact sterbenz_f64. Qed.

(* and WITHOUT exactness the claim "r in [vi, vj]" is false at fraction = 1 (vi = -1, vj = 2^-53 + 2^-105: r = 2^-52) *)
Theorem C12_interpolation_binary64_overshoot :
  exists vi vj fr : float,
    ffin vi = true /\ ffin vj = true /\ ffin fr = true /\ PrimFloat.leb vi vj = true /\
    PrimFloat.leb PrimFloat.zero fr = true /\ PrimFloat.leb fr PrimFloat.one = true /\ ffin (vj - vi)%float = true /\
    PrimFloat.ltb vj (interp64 vi vj fr) = true.
Proof. exact interp_f64_overshoot. Qed.

(* ... and the overshoot is reachable through vquantile: 50 valid elements {-1, 2^-53 + 2^-105, 1 x 48}, q = fl(1/49)
   (fl(49 q) = 0.9999999999999999: floor 0, ceil 1, fraction = 1): the linear quantile 2^-52 exceeds the `higher` quantile *)
Theorem C12_quantile_binary64_linear_above_higher :
  nleb (A := float) nzero overshoot_q && nleb overshoot_q none = true /\
  vquantile (NF := NumFloorF64) (DT := IsNoneF64) overshoot_q Linear overshoot_series = Ok (Some 0x1p-52%float) /\
  vquantile (NF := NumFloorF64) (DT := IsNoneF64) overshoot_q Higher overshoot_series = Ok (Some 0x1.0000000000001p-53%float) /\
  PrimFloat.ltb 0x1.0000000000001p-53%float 0x1p-52%float = true.
Proof. exact vquantile_f64_overshoot. Qed.

(* the partition clauses at the dictionaries the correspondence run executes: f64 with NaN as null (T::none() = NaN) *)
Theorem C12_partition_binary64 :
  forall (kth : nat) (sort rev : bool) (xs : list float),
    exists r, vpartition (DT := IsNoneF64) (DX := Run.RunC12.DXf) kth sort rev xs = Ok r /\
              part_shape (DT := IsNoneF64) kth xs r.
Proof.
  intros kth sort rev xs.
  exact (vpartition_shape (DT := IsNoneF64) (DX := Run.RunC12.DXf) kth sort rev xs eq_refl).
Qed.

(* ... and the never-null integer dictionary (T::none() panics): a panic exactly when padding is needed *)
Theorem C12_partition_integer_types :
  forall (kth : nat) (sort rev : bool) (xs : list float),
    if needs_pad (DT := Run.RunC12.Dn) kth sort xs
    then vpartition (DT := Run.RunC12.Dn) (DX := Run.RunC12.DXn) kth sort rev xs = Panic OtherPanic
    else exists r, vpartition (DT := Run.RunC12.Dn) (DX := Run.RunC12.DXn) kth sort rev xs = Ok r /\
                   part_shape (DT := Run.RunC12.Dn) kth xs r.
Proof.
  intros kth sort rev xs.
  exact (vpartition_shape (DT := Run.RunC12.Dn) (DX := Run.RunC12.DXn) kth sort rev xs).
Qed.

(* ---- non-vacuity ---- *)
Example C12_example_any_carrier_partition :
  vpartition (DT := IsNoneF64) (DX := Run.RunC12.DXf) 5 true false [3%float; nan; 1%float] 
  = Ok [1%float; 3%float; nan; nan; nan; nan]
  /\ varg_partition (DT := IsNoneF64) 5 true false [3%float; nan; 1%float] = [2; 0; -1; -1; -1; -1]%Z
  /\ vpartition (DT := Run.RunC12.Dn) (DX := Run.RunC12.DXn) 5 false false [3%float; 1%float] = Panic OtherPanic
  /\ needs_pad (DT := Run.RunC12.Dn) 5 false [3%float; 1%float] = true
  /\ needs_pad (DT := Run.RunC12.Dn) 1 false [3%float; 1%float] = false.
Proof. vm_compute. repeat split. Qed.

Example C12_example_quantile_elements_premises :
  nleb (A := float) nzero 0.25%float && nleb 0.25%float none = true /\
  count_valid (DT := IsNoneF64) [3%float; nan; 1%float; 2%float] = 3 /\
  qi_of (NF := NumFloorF64) 0.25%float 3 = 0 /\ qj_of (NF := NumFloorF64) 0.25%float 3 = 1 /\
  vquantile (NF := NumFloorF64) (DT := IsNoneF64) 0.25%float Linear [3%float; nan; 1%float; 2%float] = Ok (Some 1.5%float).
Proof. vm_compute. repeat split. Qed.

Example C12_example_interpolation_premises :
  ffin 1%float = true /\ ffin 0.5%float = true /\ ffin (2 - 1)%float = true /\ ffin (1 + (2 - 1))%float = true /\
  interp64 1%float 2%float 0.5%float = 1.5%float /\ PrimFloat.leb 1%float 2%float = true.
Proof. vm_compute. repeat split. Qed.

Print Assumptions C12_partition_any_carrier.
Print Assumptions C12_partition_shape_facts.
Print Assumptions C12_arg_partition_any_carrier.
Print Assumptions C12_arg_partition_shape_facts.
Print Assumptions C12_quantile_elements_any_carrier.
Print Assumptions C12_quantile_small_any_carrier.
Print Assumptions C12_percentile_of_counts_any_carrier.
Print Assumptions C12_rank_length_any_carrier.
Print Assumptions C12_quantile_elements_binary64.
Print Assumptions C12_interpolation_binary64_between.
Print Assumptions C12_interpolation_binary64_exact_difference.
Print Assumptions C12_binary64_difference_exact_sterbenz.
Print Assumptions C12_interpolation_binary64_overshoot.
Print Assumptions C12_quantile_binary64_linear_above_higher.
Print Assumptions C12_partition_binary64.
Print Assumptions C12_partition_integer_types.
