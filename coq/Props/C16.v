(* Props/C16.v — placeholder, replaced below *)
From Coq Require Import ZArith.
From Tevec Require Import Base.Prelude Model.Time.
Local Open Scope Z_scope.
Theorem C16_nat_into_unit : forall u t, into_unit u t NaT = Ok NaT.
Proof. intros [] []; reflexivity. Qed.
