(* Props/C16.v — property C16: NaT is absorbing; unit changes agree with the calendar.
   Statements about the model (Model/Time.v) closed by `exact`; Print Assumptions at the end. *)
From Coq Require Import ZArith List Bool.
From Tevec Require Import Base.Prelude Spec.Calendar Model.Time Proofs.Time Proofs.Calendar Model.TimeAccess Proofs.TimeAccess.
From Tevec Require Import Proofs.Audit16.
Local Open Scope Z_scope.

(* ---- (1) NaT is preserved by every conversion ------------------------------------------------ *)
Theorem C16_nat_conv_unit : forall u t : tunit, into_unit u t NaT = Ok NaT.
Proof. exact into_unit_nat. Qed.

Theorem C16_nat_conv_opt_i64 :
  into_opt_i64 NaT = None /\ (forall x, x <> NaT -> into_opt_i64 x = Some x)
  /\ (forall x, from_opt_i64 (into_opt_i64 x) = x) /\ from_opt_i64 None = NaT.
Proof. repeat split; [exact into_opt_i64_valid | exact from_into_opt_i64]. Qed.

Theorem C16_nat_conv_calendar :
  forall u, as_cr u NaT = None /\ forall f, dt_field f u NaT = None.
Proof. intros u; split; [apply as_cr_nat | intros f; apply dt_field_nat]. Qed.

(* ---- (2) NaT is absorbed by every operator of impl_ops.rs ----------------------------------------- *)
Theorem C16_nat_ops_datetime :
  forall u x d b,
    dt_add u NaT d = Ok NaT /\ dt_sub u NaT d = Ok NaT
    /\ (td_is_nat d = true -> dt_add u x d = Ok NaT /\ dt_sub u x d = Ok NaT)
    /\ dt_diff u NaT b = Ok td_nat /\ dt_diff u x NaT = Ok td_nat
    /\ dt_trunc u NaT d = Ok NaT.
Proof.
  intros u x d b. repeat split;
    [apply dt_add_nat_r; assumption | apply dt_sub_nat_r; assumption | apply dt_diff_nat_r].
Qed.

Theorem C16_nat_ops_timedelta :
  forall a b k, td_is_nat a = true ->
    td_is_nat (td_neg a) = true
    /\ td_add a b = Ok td_nat /\ td_add b a = Ok td_nat
    /\ td_sub a b = Ok td_nat /\ td_sub b a = Ok td_nat
    /\ td_mul a k = Ok td_nat.
Proof.
  intros a b k H. repeat split;
    [apply td_neg_nat | apply td_add_nat_l | apply td_add_nat_r | apply td_sub_nat_l | apply td_sub_nat_r
     | apply td_mul_nat]; exact H.
Qed.

Theorem C16_nat_ops_time :
  forall t d,
    time_add NaT d = Ok NaT /\ time_sub NaT d = Ok NaT
    /\ (td_is_nat d = true -> time_add t d = Ok NaT /\ time_sub t d = Ok NaT).
Proof.
  intros t d. repeat split; [apply time_add_nat_r; assumption | apply time_sub_nat_r; assumption].
Qed.

(* ---- (3) coarsening = the same instant truncated toward the past (Euclidean floor, also x < 0) ------ *)
Theorem C16_coarsen_floor :
  forall u t x y, finer t u = true -> x <> NaT -> into_unit u t x = Ok y ->
    y = x / ratio t u /\ y * ratio t u <= x < (y + 1) * ratio t u.
Proof.
  intros u t x y Hf Hx H. split; [|exact (into_unit_coarsen_floor u t x y Hf Hx H)].
  rewrite into_unit_coarsen in H by assumption. injection H as <-. reflexivity.
Qed.

Theorem C16_coarsen_instant :
  forall u t x y, finer t u = true -> x <> NaT -> into_unit u t x = Ok y ->
    instant_ns t y = unit_ns t * (instant_ns u x / unit_ns t).
Proof. exact into_unit_coarsen_instant. Qed.

Theorem C16_coarsen_total : forall u t x, finer t u = true -> x <> NaT -> into_unit u t x = Ok (x / ratio t u).
Proof. exact into_unit_coarsen. Qed.

(* ... exactly as the calendar library does: DateTime<u> -> chrono -> DateTime<t> is the same value *)
Theorem C16_coarsen_as_chrono :
  forall u t x c, finer t u = true -> as_cr u x = Some c -> from_cr t c = into_unit u t x.
Proof. exact into_unit_coarsen_chrono. Qed.

(* ---- (4) refining denotes the same instant, and refining then coarsening back is the identity ------- *)
Theorem C16_refine_back :
  forall u t x y, finer u t = true -> x <> NaT -> into_unit u t x = Ok y -> into_unit t u y = Ok x.
Proof. exact into_unit_refine_back. Qed.

Theorem C16_refine_same_instant :
  forall u t x y, finer u t = true -> x <> NaT -> into_unit u t x = Ok y -> instant_ns t y = instant_ns u x.
Proof. exact into_unit_refine_instant. Qed.

Theorem C16_refine_defined :
  forall u t x, finer u t = true -> x <> NaT -> in_i64 (x * ratio u t) = true ->
    into_unit u t x = Ok (x * ratio u t).
Proof. exact into_unit_refine_ok. Qed.

Theorem C16_same_unit : forall u x, into_unit u u x = Ok x.
Proof. exact into_unit_same. Qed.

(* ---- (5) to the calendar type and back, within the representable range ------------------------------- *)
Theorem C16_cr_roundtrip :
  forall u x c, in_i64 x = true -> as_cr u x = Some c -> from_cr u c = Ok x.
Proof. exact as_cr_from_cr. Qed.

Theorem C16_cr_roundtrip_from :
  forall u c x, cr_wf c -> cr_nanos c mod unit_ns u = 0 -> date_in_range (cr_day c) = true ->
    from_cr u c = Ok x -> x <> NaT -> as_cr u x = Some c.
Proof. exact from_cr_as_cr. Qed.

(* the conversion from the calendar type never panics; at nanosecond resolution an instant outside the
   i64 range is NaT (repo commit 3cb9707), every representable instant is its timestamp *)
Theorem C16_from_cr_total : forall u c, exists x, from_cr u c = Ok x.
Proof. exact from_cr_total. Qed.
Theorem C16_from_cr_nano :
  forall c, from_cr Nano c = Ok (if in_i64 (cr_total_ns c) then cr_total_ns c else NaT).
Proof. exact from_cr_nano_value. Qed.

(* as_cr is defined on every nanosecond timestamp and exactly on chrono's date range otherwise *)
Theorem C16_as_cr_defined :
  forall u x, x <> NaT -> date_in_range (x * unit_ns u / 1000000000 / SECS_PER_DAY) = true ->
    as_cr u x = Some (cr_of_total_ns (instant_ns u x)).
Proof. exact as_cr_of_total. Qed.

(* ---- (6) the executable calendar the fields are compared with is a bijection days <-> civil dates ---- *)
Theorem C16_calendar_days_civil_days : forall z, days_of_civil (civil_of_days z) = z.
Proof. exact days_civil_days. Qed.

Theorem C16_calendar_civil_days_civil : forall c, valid_civil c -> civil_of_days (days_of_civil c) = c.
Proof. exact civil_days_civil. Qed.

Theorem C16_calendar_lawful : CalendarLaws civil_of_days days_of_civil.
Proof. exact calendar_lawful. Qed.

(* ---- non-vacuity ------------------------------------------------------------------------------------- *)
Example C16_ex_coarsen_pre_epoch :
  into_unit Nano Micro (-1) = Ok (-1) /\ into_unit Nano Sec (-1500000000) = Ok (-2)
  /\ into_unit Micro Sec 1999999 = Ok 1.
Proof. vm_compute. auto. Qed.
Example C16_ex_refine_back :
  into_unit Sec Nano (-7) = Ok (-7000000000) /\ into_unit Nano Sec (-7000000000) = Ok (-7)
  /\ into_unit Sec Nano 10000000000 = Panic Overflow.
Proof. vm_compute. auto. Qed.
Example C16_ex_cr :
  as_cr Milli (-1) = Some (mkcr (-1) 999000000) /\ from_cr Milli (mkcr (-1) 999000000) = Ok (-1)
  /\ cr_civil (mkcr (-1) 999000000) = (1969, 12, 31) /\ as_cr Sec i64_max = None.
Proof. vm_compute. auto. Qed.
Example C16_ex_from_cr_out_of_range :
  (* 1600-01-01 is a valid chrono instant but not an i64 nanosecond timestamp *)
  from_cr Nano (mkcr (-11676096000) 0) = Ok NaT /\ from_cr Micro (mkcr (-11676096000) 0) = Ok (-11676096000000000).
Proof. vm_compute. auto. Qed.
Example C16_ex_calendar : civil_of_days 11016 = (2000, 2, 29) /\ days_of_civil (1900, 3, 1) = -25508.
Proof. vm_compute. auto. Qed.

(* ---- (7) X9: is_not_nat, the Option<i64> view both ways, the TryFrom impl called directly, to_cr ------------ *)
Theorem C16_is_not_nat :
  (forall x, is_not_nat x = negb (is_nat x)) /\ (forall x, is_not_nat x = true <-> x <> NaT)
  /\ (forall x, is_not_nat x = true <-> into_opt_i64 x = Some x) /\ is_not_nat NaT = false.
Proof. repeat split; try apply is_not_nat_iff; try apply is_not_nat_opt. Qed.

Theorem C16_is_not_nat_timedelta :
  (forall d, td_is_not_nat d = negb (td_is_nat d)) /\ (forall v, td_is_not_nat (td_from_i64 v) = is_not_nat v).
Proof. split; [exact td_is_not_nat_negb | exact td_from_i64_not_nat]. Qed.

Theorem C16_opt_i64_roundtrip :
  (forall x, from_opt_i64 (into_opt_i64 x) = x)
  /\ (forall o, o <> Some NaT -> into_opt_i64 (from_opt_i64 o) = o)
  /\ into_opt_i64 (from_opt_i64 (Some NaT)) = None.
Proof. repeat split; [exact from_into_opt_i64' | exact into_from_opt_i64]. Qed.

(* the TryFrom<DateTime<U>> impls agree with as_cr on every timestamp of every unit — NaT included — so a NaT
   never reaches the calendar type by any route (holds for the nanosecond impl since the repair) *)
Theorem C16_try_from_is_as_cr : forall u x, try_from_cr u x = as_cr u x.
Proof. exact try_from_cr_as_cr. Qed.

Theorem C16_try_from_nat : forall u, try_from_cr u NaT = None.
Proof. exact try_from_cr_nat. Qed.

Theorem C16_try_from_roundtrip :
  forall u x c, in_i64 x = true -> try_from_cr u x = Some c -> from_cr u c = Ok x.
Proof. exact try_from_cr_roundtrip. Qed.

Theorem C16_try_from_valid_only : forall u x c, try_from_cr u x = Some c -> x <> NaT.
Proof. exact try_from_cr_some_not_nat. Qed.

Theorem C16_to_cr : forall u x, to_cr u x = as_cr u x.
Proof. exact to_cr_as_cr. Qed.

Example C16_ex_try_from :
  in_i64 (-1) = true /\ try_from_cr Nano (-1) = Some (mkcr (-1) 999999999) /\ from_cr Nano (mkcr (-1) 999999999) = Ok (-1)
  /\ is_not_nat (-1) = true /\ Some 5 <> Some NaT /\ into_opt_i64 (from_opt_i64 (Some 5)) = Some 5.
Proof. repeat split; discriminate. Qed.

(* ==== the audit (notes/C16.md "Audit matrix"; Proofs/Audit16.v) ==================================================== *)
(* ---- (8) all 4 x 4 unit pairs as one closed form; the rejected inputs exactly ------------------------------------ *)
Theorem C16_unit_pairs_trichotomy :
  forall u t, (u = t /\ finer u t = false /\ finer t u = false)
           \/ (u <> t /\ finer u t = true /\ finer t u = false)
           \/ (u <> t /\ finer u t = false /\ finer t u = true).
Proof. exact unit_trichotomy. Qed.

(* no `finer` hypothesis: identity on the diagonal, NaT kept, checked multiplication by the ratio when refining, floor
   division by the ratio when coarsening — for each of the 16 pairs and every i64 *)
Theorem C16_into_unit_closed_form : forall u t x, into_unit u t x = conv_spec u t x.
Proof. exact into_unit_closed_form. Qed.

Theorem C16_into_unit_panics_iff :
  forall u t x k, into_unit u t x = Panic k <->
    (k = Overflow /\ finer u t = true /\ x <> NaT /\ in_i64 (x * ratio u t) = false).
Proof. exact into_unit_panics_iff. Qed.

Theorem C16_into_unit_never_unimplemented : forall u t x, into_unit u t x <> Panic OtherPanic.
Proof. exact into_unit_never_unimplemented. Qed.

Theorem C16_into_unit_returns_iff :
  forall u t x, (exists y, into_unit u t x = Ok y) <->
    (finer u t = true -> x <> NaT -> in_i64 (x * ratio u t) = true).
Proof. exact into_unit_returns_iff. Qed.

(* ---- (9) what a unit change must NOT do --------------------------------------------------------------------------- *)
Theorem C16_valid_stays_valid : forall u t x, in_i64 x = true -> (into_unit u t x = Ok NaT <-> x = NaT).
Proof. exact into_unit_nat_iff. Qed.

Theorem C16_conversion_monotone :
  forall u t x x' y y', x <> NaT -> x' <> NaT -> x <= x' -> into_unit u t x = Ok y -> into_unit u t x' = Ok y' ->
    y <= y' /\ (finer u t = true -> x < x' -> y < y').
Proof. exact into_unit_monotone. Qed.

Theorem C16_coarsen_compose :
  forall u t s x, finer t u = true -> finer s t = true -> in_i64 x = true ->
    (do y <- into_unit u t x; into_unit t s y) = into_unit u s x.
Proof. exact into_unit_coarsen_compose. Qed.

(* the other order of "to a finer unit and back": coarsen first. NOT the identity *)
Theorem C16_coarsen_refine :
  forall u t x, finer t u = true -> x <> NaT -> in_i64 x = true ->
    into_unit u t x = Ok (x / ratio t u) /\ into_unit t u (x / ratio t u) = chk64 (x - x mod ratio t u).
Proof. exact into_unit_coarsen_refine. Qed.

Theorem C16_coarsen_refine_identity_iff :
  forall u t x, finer t u = true -> x <> NaT -> in_i64 x = true ->
    (into_unit t u (x / ratio t u) = Ok x <-> x mod ratio t u = 0).
Proof. exact into_unit_coarsen_refine_identity_iff. Qed.

(* ---- (10) "exactly as the calendar library does" for the REFINING pairs and for all pairs at once ----------------- *)
Theorem C16_refine_as_chrono :
  forall u t x c, finer u t = true -> as_cr u x = Some c ->
    from_cr t c = Ok (if in_i64 (x * ratio u t) then x * ratio u t else NaT)
    /\ (t <> Nano -> in_i64 (x * ratio u t) = true).
Proof. exact into_unit_refine_chrono. Qed.

Theorem C16_refine_chrono_differs :
  forall u t x c, finer u t = true -> as_cr u x = Some c -> in_i64 (x * ratio u t) = false ->
    t = Nano /\ from_cr t c = Ok NaT /\ into_unit u t x = Panic Overflow.
Proof. exact into_unit_refine_chrono_differs. Qed.

Theorem C16_as_chrono_all_pairs :
  forall u t x c y, as_cr u x = Some c -> in_i64 x = true -> into_unit u t x = Ok y -> from_cr t c = Ok y.
Proof. exact into_unit_as_chrono_all_pairs. Qed.

(* ---- (11) as_cr: None exactly on NaT and outside chrono's date range; the getters reconstruct the instant -------- *)
Theorem C16_as_cr_none_iff :
  forall u x, as_cr u x = None <-> (x = NaT \/ (u <> Nano /\ date_in_range (x / per_sec u / SECS_PER_DAY) = false)).
Proof. exact as_cr_none_iff. Qed.

Theorem C16_as_cr_nano_none_iff : forall x, as_cr Nano x = None <-> x = NaT.
Proof. exact as_cr_nano_none_iff. Qed.

Theorem C16_fields_reconstruct :
  forall u x c, as_cr u x = Some c ->
    exists y m d,
      dt_field cr_year u x = Some y /\ dt_field cr_month u x = Some m /\ dt_field cr_dom u x = Some d
      /\ dt_field cr_hour u x = Some (cr_hour c) /\ dt_field cr_minute u x = Some (cr_minute c)
      /\ dt_field cr_second u x = Some (cr_second c)
      /\ valid_civil (y, m, d)
      /\ 0 <= cr_hour c < 24 /\ 0 <= cr_minute c < 60 /\ 0 <= cr_second c < 60 /\ 0 <= cr_nanos c < 1000000000
      /\ ((days_of_civil (y, m, d) * 86400 + cr_hour c * 3600 + cr_minute c * 60 + cr_second c) * 1000000000
          + cr_nanos c = instant_ns u x).
Proof. exact fields_reconstruct. Qed.

(* ---- (12) Default, From<NaiveDateTime / Option / NaiveDate / Duration / Option<Duration>>, the Cast views --------- *)
Theorem C16_defaults_and_none :
  dt_default = NaT /\ td_is_nat td_default = true /\ is_nat time_default = false
  /\ (forall u, from_opt_naive u None = Ok NaT) /\ td_is_nat (td_from_opt_dur None) = true
  /\ from_opt_i64 None = NaT /\ time_from_opt_i64 None = NaT /\ td_is_nat (td_from_opt_i64 None) = true.
Proof. exact defaults_and_none. Qed.

Theorem C16_from_some_is_plain :
  (forall u c, from_opt_naive u (Some c) = from_cr u c) /\ (forall u c, from_naive u c = from_cr u c)
  /\ (forall ns, td_from_opt_dur (Some ns) = mktd 0 ns /\ td_is_nat (td_from_dur ns) = false)
  /\ (forall v, time_from_opt_i64 (Some v) = v) /\ (forall v, from_opt_i64 (Some v) = v).
Proof. exact from_some_is_plain. Qed.

Theorem C16_from_naive_date_value :
  forall u day, from_naive_date u day =
    Ok (if unit_eqb u Nano && negb (in_i64 (day * 86400 * per_sec u)) then NaT else day * 86400 * per_sec u).
Proof. exact from_naive_date_value. Qed.

Theorem C16_from_naive_date_fields :
  forall u day x, date_in_range day = true -> from_naive_date u day = Ok x -> x <> NaT ->
    as_cr u x = Some (mkcr (day * SECS_PER_DAY) 0)
    /\ (exists y m d, civil_of_days day = (y, m, d)
         /\ dt_field cr_year u x = Some y /\ dt_field cr_month u x = Some m /\ dt_field cr_dom u x = Some d)
    /\ dt_field cr_hour u x = Some 0 /\ dt_field cr_minute u x = Some 0 /\ dt_field cr_second u x = Some 0.
Proof. exact from_naive_date_fields. Qed.

Theorem C16_cast_views :
  (forall x, dt_cast_i64 x = x) /\ (forall x, dt_cast_opt_i64 x = into_opt_i64 x) /\ dt_cast_opt_i64 NaT = None
  /\ (forall u t x, dt_cast_unit u t x = into_unit u t x) /\ (forall u t, dt_cast_unit u t NaT = Ok NaT)
  /\ (forall t, time_cast_opt_i64 t = into_opt_i64 t) /\ time_cast_opt_i64 NaT = None.
Proof. exact cast_views. Qed.

(* ---- (13) NaT operands where the result type has no NaT; the converse of absorption is false ---------------------- *)
Theorem C16_nat_div_panics : forall a b, td_is_nat a = true \/ td_is_nat b = true -> td_div a b = Panic OtherPanic.
Proof. exact td_div_nat_operand. Qed.

Theorem C16_nat_trunc_duration :
  forall u x d, td_is_nat d = true ->
    dt_trunc u x d = if is_nat x then Ok NaT
                     else match as_cr u x with None => Panic UnwrapNone | Some _ => Panic OtherPanic end.
Proof. exact dt_trunc_nat_duration. Qed.

Theorem C16_nat_neg_unchanged : forall d, td_is_nat d = true -> td_neg d = d.
Proof. exact td_neg_nat_unchanged. Qed.

Theorem C16_nat_result_converse_refuted :
  (td_is_nat (mktd (-1) 0) = false /\ td_is_nat (mktd (-2147483647) 0) = false
   /\ td_add (mktd (-1) 0) (mktd (-2147483647) 0) = Ok td_nat)
  /\ (td_is_nat (mktd 2147483647 0) = false /\ td_sub (mktd (-1) 0) (mktd 2147483647 0) = Ok td_nat)
  /\ (td_is_nat (mktd (-1073741824) 0) = false /\ td_mul (mktd (-1073741824) 0) 2 = Ok td_nat)
  /\ (is_nat 0 = false /\ td_is_nat (mktd 0 i64_min) = false /\ time_add 0 (mktd 0 i64_min) = Ok NaT)
  /\ (is_nat i64_max = false /\ td_is_nat (mktd 0 1) = false /\ dt_add Nano i64_max (mktd 0 1) = Ok NaT).
Proof. exact nat_result_converse_refuted. Qed.

(* ---- non-vacuity of the audit theorems ---------------------------------------------------------------------------- *)
Example C16_ex_audit_closed_form :
  (* every branch of conv_spec; the panic; the overflow boundary of s -> ns *)
  into_unit Milli Milli (-5) = Ok (-5) /\ into_unit Sec Nano NaT = Ok NaT
  /\ into_unit Sec Nano 9223372036 = Ok 9223372036000000000 /\ into_unit Sec Nano 9223372037 = Panic Overflow
  /\ finer Sec Nano = true /\ 9223372037 <> NaT /\ in_i64 (9223372037 * ratio Sec Nano) = false
  /\ into_unit Nano Milli (-1) = Ok (-1).
Proof. vm_compute. repeat split; discriminate. Qed.

Example C16_ex_audit_not_identity :
  (* coarsen-then-refine clears the sub-unit part; next to i64::MIN it overflows; monotone; composition *)
  finer Sec Milli = true /\ -1500 <> NaT /\ in_i64 (-1500) = true
  /\ into_unit Milli Sec (-1500) = Ok (-2) /\ into_unit Sec Milli (-2) = Ok (-2000) /\ (-1500) mod ratio Sec Milli = 500
  /\ into_unit Milli Sec (i64_min + 1) = Ok (-9223372036854776)
  /\ into_unit Sec Milli (-9223372036854776) = Panic Overflow
  /\ finer Micro Nano = true /\ finer Milli Micro = true
  /\ (do y <- into_unit Nano Micro (-1234567); into_unit Micro Milli y) = Ok (-2)
  /\ into_unit Nano Milli (-1234567) = Ok (-2).
Proof. vm_compute. repeat split; discriminate. Qed.

Example C16_ex_audit_chrono :
  (* s -> ns outside the i64 window: the library route gives NaT, into_unit panics; inside they agree *)
  finer Sec Nano = true /\ as_cr Sec 9223372037 = Some (mkcr 9223372037 0)
  /\ in_i64 (9223372037 * ratio Sec Nano) = false /\ from_cr Nano (mkcr 9223372037 0) = Ok NaT
  /\ as_cr Sec (-7) = Some (mkcr (-7) 0) /\ from_cr Nano (mkcr (-7) 0) = Ok (-7000000000)
  /\ as_cr Sec 8210298412800 = None /\ Sec <> Nano
  /\ date_in_range (8210298412800 / per_sec Sec / SECS_PER_DAY) = false
  /\ as_cr Nano i64_max = Some (mkcr 9223372036 854775807).
Proof. vm_compute. repeat split; discriminate. Qed.

Example C16_ex_audit_fields :
  (* 1969-12-31 23:59:59.999 at ms resolution: the fields rebuild the instant -1 ms *)
  as_cr Milli (-1) = Some (mkcr (-1) 999000000)
  /\ dt_field cr_year Milli (-1) = Some 1969 /\ dt_field cr_hour Milli (-1) = Some 23
  /\ ((days_of_civil (1969, 12, 31) * 86400 + 23 * 3600 + 59 * 60 + 59) * 1000000000 + 999000000 = instant_ns Milli (-1))
  /\ date_in_range 11016 = true /\ from_naive_date Micro 11016 = Ok 951782400000000 /\ 951782400000000 <> NaT
  /\ dt_field cr_month Micro 951782400000000 = Some 2 /\ dt_field cr_dom Micro 951782400000000 = Some 29
  /\ from_naive_date Nano 200000 = Ok NaT /\ from_naive_date Sec 200000 = Ok 17280000000.
Proof. vm_compute. repeat split; discriminate. Qed.

Example C16_ex_audit_trunc_nat :
  td_is_nat (mktd i32_min 5) = true /\ dt_trunc Sec 0 (mktd i32_min 5) = Panic OtherPanic
  /\ dt_trunc Sec i64_max (mktd i32_min 5) = Panic UnwrapNone /\ dt_trunc Sec NaT (mktd i32_min 5) = Ok NaT
  /\ td_div (mktd i32_min 0) (mktd 0 1) = Panic OtherPanic /\ td_neg (mktd i32_min 5) = mktd i32_min 5.
Proof. vm_compute. repeat split. Qed.

Print Assumptions C16_nat_conv_unit.
Print Assumptions C16_nat_ops_datetime.
Print Assumptions C16_coarsen_floor.
Print Assumptions C16_coarsen_as_chrono.
Print Assumptions C16_refine_back.
Print Assumptions C16_cr_roundtrip.
Print Assumptions C16_cr_roundtrip_from.
Print Assumptions C16_from_cr_nano.
Print Assumptions C16_calendar_lawful.
Print Assumptions C16_is_not_nat.
Print Assumptions C16_is_not_nat_timedelta.
Print Assumptions C16_opt_i64_roundtrip.
Print Assumptions C16_try_from_is_as_cr.
Print Assumptions C16_try_from_nat.
Print Assumptions C16_try_from_roundtrip.
Print Assumptions C16_try_from_valid_only.
Print Assumptions C16_to_cr.
Print Assumptions C16_into_unit_closed_form.
Print Assumptions C16_into_unit_panics_iff.
Print Assumptions C16_into_unit_returns_iff.
Print Assumptions C16_valid_stays_valid.
Print Assumptions C16_conversion_monotone.
Print Assumptions C16_coarsen_compose.
Print Assumptions C16_coarsen_refine.
Print Assumptions C16_coarsen_refine_identity_iff.
Print Assumptions C16_refine_as_chrono.
Print Assumptions C16_refine_chrono_differs.
Print Assumptions C16_as_chrono_all_pairs.
Print Assumptions C16_as_cr_none_iff.
Print Assumptions C16_fields_reconstruct.
Print Assumptions C16_defaults_and_none.
Print Assumptions C16_from_naive_date_value.
Print Assumptions C16_from_naive_date_fields.
Print Assumptions C16_cast_views.
Print Assumptions C16_nat_div_panics.
Print Assumptions C16_nat_trunc_duration.
Print Assumptions C16_nat_result_converse_refuted.
