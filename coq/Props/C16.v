(* Props/C16.v — property C16: NaT is absorbing; unit changes agree with the calendar.
   Statements about the model (Model/Time.v) closed by `exact`; Print Assumptions at the end. *)
From Coq Require Import ZArith List Bool.
From Tevec Require Import Base.Prelude Spec.Calendar Model.Time Proofs.Time Proofs.Calendar Model.TimeAccess Proofs.TimeAccess.
Local Open Scope Z_scope.

(* ---- (1) NaT is preserved by every conversion ------------------------------------------------ *)
Theorem C16_nat_conv_unit : forall u t : tunit, into_unit u t NaT = Ok NaT.
Proof. exact into_unit_nat. Qed.

Theorem C16_nat_conv_opt_i64 :
  into_opt_i64 NaT = None /\ (forall x, x <> NaT -> into_opt_i64 x = Some x)
  /\ (forall x, from_opt_i64 (into_opt_i64 x) = x) /\ from_opt_i64 None = NaT.
Proof. repeat split; [exact into_opt_i64_valid | exact from_into_opt_i64]. Qed.

Theorem C16_nat_conv_calendar :
  forall u, as_cr u NaT = None /\ forall f, dt_field f u NaT = None.
Proof. intros u; split; [apply as_cr_nat | intros f; apply dt_field_nat]. Qed.

(* ---- (2) NaT is absorbed by every operator of impl_ops.rs ----------------------------------------- *)
Theorem C16_nat_ops_datetime :
  forall u x d b,
    dt_add u NaT d = Ok NaT /\ dt_sub u NaT d = Ok NaT
    /\ (td_is_nat d = true -> dt_add u x d = Ok NaT /\ dt_sub u x d = Ok NaT)
    /\ dt_diff u NaT b = Ok td_nat /\ dt_diff u x NaT = Ok td_nat
    /\ dt_trunc u NaT d = Ok NaT.
Proof.
  intros u x d b. repeat split;
    [apply dt_add_nat_r; assumption | apply dt_sub_nat_r; assumption | apply dt_diff_nat_r].
Qed.

Theorem C16_nat_ops_timedelta :
  forall a b k, td_is_nat a = true ->
    td_is_nat (td_neg a) = true
    /\ td_add a b = Ok td_nat /\ td_add b a = Ok td_nat
    /\ td_sub a b = Ok td_nat /\ td_sub b a = Ok td_nat
    /\ td_mul a k = Ok td_nat.
Proof.
  intros a b k H. repeat split;
    [apply td_neg_nat | apply td_add_nat_l | apply td_add_nat_r | apply td_sub_nat_l | apply td_sub_nat_r
     | apply td_mul_nat]; exact H.
Qed.

Theorem C16_nat_ops_time :
  forall t d,
    time_add NaT d = Ok NaT /\ time_sub NaT d = Ok NaT
    /\ (td_is_nat d = true -> time_add t d = Ok NaT /\ time_sub t d = Ok NaT).
Proof.
  intros t d. repeat split; [apply time_add_nat_r; assumption | apply time_sub_nat_r; assumption].
Qed.

(* ---- (3) coarsening = the same instant truncated toward the past (Euclidean floor, also x < 0) ------ *)
Theorem C16_coarsen_floor :
  forall u t x y, finer t u = true -> x <> NaT -> into_unit u t x = Ok y ->
    y = x / ratio t u /\ y * ratio t u <= x < (y + 1) * ratio t u.
Proof.
  intros u t x y Hf Hx H. split; [|exact (into_unit_coarsen_floor u t x y Hf Hx H)].
  rewrite into_unit_coarsen in H by assumption. injection H as <-. reflexivity.
Qed.

Theorem C16_coarsen_instant :
  forall u t x y, finer t u = true -> x <> NaT -> into_unit u t x = Ok y ->
    instant_ns t y = unit_ns t * (instant_ns u x / unit_ns t).
Proof. exact into_unit_coarsen_instant. Qed.

Theorem C16_coarsen_total : forall u t x, finer t u = true -> x <> NaT -> into_unit u t x = Ok (x / ratio t u).
Proof. exact into_unit_coarsen. Qed.

(* ... exactly as the calendar library does: DateTime<u> -> chrono -> DateTime<t> is the same value *)
Theorem C16_coarsen_as_chrono :
  forall u t x c, finer t u = true -> as_cr u x = Some c -> from_cr t c = into_unit u t x.
Proof. exact into_unit_coarsen_chrono. Qed.

(* ---- (4) refining denotes the same instant, and refining then coarsening back is the identity ------- *)
Theorem C16_refine_back :
  forall u t x y, finer u t = true -> x <> NaT -> into_unit u t x = Ok y -> into_unit t u y = Ok x.
Proof. exact into_unit_refine_back. Qed.

Theorem C16_refine_same_instant :
  forall u t x y, finer u t = true -> x <> NaT -> into_unit u t x = Ok y -> instant_ns t y = instant_ns u x.
Proof. exact into_unit_refine_instant. Qed.

Theorem C16_refine_defined :
  forall u t x, finer u t = true -> x <> NaT -> in_i64 (x * ratio u t) = true ->
    into_unit u t x = Ok (x * ratio u t).
Proof. exact into_unit_refine_ok. Qed.

Theorem C16_same_unit : forall u x, into_unit u u x = Ok x.
Proof. exact into_unit_same. Qed.

(* ---- (5) to the calendar type and back, within the representable range ------------------------------- *)
Theorem C16_cr_roundtrip :
  forall u x c, in_i64 x = true -> as_cr u x = Some c -> from_cr u c = Ok x.
Proof. exact as_cr_from_cr. Qed.

Theorem C16_cr_roundtrip_from :
  forall u c x, cr_wf c -> cr_nanos c mod unit_ns u = 0 -> date_in_range (cr_day c) = true ->
    from_cr u c = Ok x -> x <> NaT -> as_cr u x = Some c.
Proof. exact from_cr_as_cr. Qed.

(* the conversion from the calendar type never panics; at nanosecond resolution an instant outside the
   i64 range is NaT (repo commit 3cb9707), every representable instant is its timestamp *)
Theorem C16_from_cr_total : forall u c, exists x, from_cr u c = Ok x.
Proof. exact from_cr_total. Qed.
Theorem C16_from_cr_nano :
  forall c, from_cr Nano c = Ok (if in_i64 (cr_total_ns c) then cr_total_ns c else NaT).
Proof. exact from_cr_nano_value. Qed.

(* as_cr is defined on every nanosecond timestamp and exactly on chrono's date range otherwise *)
Theorem C16_as_cr_defined :
  forall u x, x <> NaT -> date_in_range (x * unit_ns u / 1000000000 / SECS_PER_DAY) = true ->
    as_cr u x = Some (cr_of_total_ns (instant_ns u x)).
Proof. exact as_cr_of_total. Qed.

(* ---- (6) the executable calendar the fields are compared with is a bijection days <-> civil dates ---- *)
Theorem C16_calendar_days_civil_days : forall z, days_of_civil (civil_of_days z) = z.
Proof. exact days_civil_days. Qed.

Theorem C16_calendar_civil_days_civil : forall c, valid_civil c -> civil_of_days (days_of_civil c) = c.
Proof. exact civil_days_civil. Qed.

Theorem C16_calendar_lawful : CalendarLaws civil_of_days days_of_civil.
Proof. exact calendar_lawful. Qed.

(* ---- non-vacuity ------------------------------------------------------------------------------------- *)
Example C16_ex_coarsen_pre_epoch :
  into_unit Nano Micro (-1) = Ok (-1) /\ into_unit Nano Sec (-1500000000) = Ok (-2)
  /\ into_unit Micro Sec 1999999 = Ok 1.
Proof. vm_compute. auto. Qed.
Example C16_ex_refine_back :
  into_unit Sec Nano (-7) = Ok (-7000000000) /\ into_unit Nano Sec (-7000000000) = Ok (-7)
  /\ into_unit Sec Nano 10000000000 = Panic Overflow.
Proof. vm_compute. auto. Qed.
Example C16_ex_cr :
  as_cr Milli (-1) = Some (mkcr (-1) 999000000) /\ from_cr Milli (mkcr (-1) 999000000) = Ok (-1)
  /\ cr_civil (mkcr (-1) 999000000) = (1969, 12, 31) /\ as_cr Sec i64_max = None.
Proof. vm_compute. auto. Qed.
Example C16_ex_from_cr_out_of_range :
  (* 1600-01-01 is a valid chrono instant but not an i64 nanosecond timestamp *)
  from_cr Nano (mkcr (-11676096000) 0) = Ok NaT /\ from_cr Micro (mkcr (-11676096000) 0) = Ok (-11676096000000000).
Proof. vm_compute. auto. Qed.
Example C16_ex_calendar : civil_of_days 11016 = (2000, 2, 29) /\ days_of_civil (1900, 3, 1) = -25508.
Proof. vm_compute. auto. Qed.

(* ---- (7) X9: is_not_nat, the Option<i64> view both ways, the TryFrom impl called directly, to_cr ------------ *)
Theorem C16_is_not_nat :
  (forall x, is_not_nat x = negb (is_nat x)) /\ (forall x, is_not_nat x = true <-> x <> NaT)
  /\ (forall x, is_not_nat x = true <-> into_opt_i64 x = Some x) /\ is_not_nat NaT = false.
Proof. repeat split; try apply is_not_nat_iff; try apply is_not_nat_opt. Qed.

Theorem C16_is_not_nat_timedelta :
  (forall d, td_is_not_nat d = negb (td_is_nat d)) /\ (forall v, td_is_not_nat (td_from_i64 v) = is_not_nat v).
Proof. split; [exact td_is_not_nat_negb | exact td_from_i64_not_nat]. Qed.

Theorem C16_opt_i64_roundtrip :
  (forall x, from_opt_i64 (into_opt_i64 x) = x)
  /\ (forall o, o <> Some NaT -> into_opt_i64 (from_opt_i64 o) = o)
  /\ into_opt_i64 (from_opt_i64 (Some NaT)) = None.
Proof. repeat split; [exact from_into_opt_i64' | exact into_from_opt_i64]. Qed.

(* the TryFrom<DateTime<U>> impls agree with as_cr on every timestamp of every unit — NaT included — so a NaT
   never reaches the calendar type by any route (holds for the nanosecond impl since the repair) *)
Theorem C16_try_from_is_as_cr : forall u x, try_from_cr u x = as_cr u x.
Proof. exact try_from_cr_as_cr. Qed.

Theorem C16_try_from_nat : forall u, try_from_cr u NaT = None.
Proof. exact try_from_cr_nat. Qed.

Theorem C16_try_from_roundtrip :
  forall u x c, in_i64 x = true -> try_from_cr u x = Some c -> from_cr u c = Ok x.
Proof. exact try_from_cr_roundtrip. Qed.

Theorem C16_try_from_valid_only : forall u x c, try_from_cr u x = Some c -> x <> NaT.
Proof. exact try_from_cr_some_not_nat. Qed.

Theorem C16_to_cr : forall u x, to_cr u x = as_cr u x.
Proof. exact to_cr_as_cr. Qed.

Example C16_ex_try_from :
  in_i64 (-1) = true /\ try_from_cr Nano (-1) = Some (mkcr (-1) 999999999) /\ from_cr Nano (mkcr (-1) 999999999) = Ok (-1)
  /\ is_not_nat (-1) = true /\ Some 5 <> Some NaT /\ into_opt_i64 (from_opt_i64 (Some 5)) = Some 5.
Proof. repeat split; discriminate. Qed.

Print Assumptions C16_nat_conv_unit.
Print Assumptions C16_nat_ops_datetime.
Print Assumptions C16_coarsen_floor.
Print Assumptions C16_coarsen_as_chrono.
Print Assumptions C16_refine_back.
Print Assumptions C16_cr_roundtrip.
Print Assumptions C16_cr_roundtrip_from.
Print Assumptions C16_from_cr_nano.
Print Assumptions C16_calendar_lawful.
Print Assumptions C16_is_not_nat.
Print Assumptions C16_is_not_nat_timedelta.
Print Assumptions C16_opt_i64_roundtrip.
Print Assumptions C16_try_from_is_as_cr.
Print Assumptions C16_try_from_nat.
Print Assumptions C16_try_from_roundtrip.
Print Assumptions C16_try_from_valid_only.
Print Assumptions C16_to_cr.
