From Tevec Require Import Base.Prelude.
