(* Props/C06.v — property C06: rolling and lagging results never depend on later (or pre-window) data.
   Statements only.  `ts_out F body w xs` / `out_of (f xs)` is the result vector of a model run (body = true:
   two-phase index body = caller buffer and Vec / ndarray fast paths; false: iterator body).
   (A) prefix law, bit for bit: the statements (1)-(4) hold for EVERY carrier because no law of the numeric
       class is used — in particular at Coq's binary64 `float`, whose evaluation the correspondence run compares
       with the Rust code; (5)-(6) are about the exact integer carrier and the positional maps.
   (B) pre-window independence: output i is a function of positions max(0,i-w+1)..=i alone; exact for the
       extrema / arg-extrema / rank (integer carrier), exact in option R (= up to rounding in binary64, DESIGN
       5.1/5.2) for the accumulator families.                                                         *)
From Coq Require Import ZArith List Reals.
From Tevec Require Import Base.Prelude Base.Num Base.XR Model.Driver Proofs.Driver Model.Features
     Proofs.Generic Proofs.NoLookahead Proofs.NoLookahead2 Model.Cmp Spec.Extrema Model.Binary Model.Reg
     Model.MapOps Spec.MapOps.
Import ListNotations.

(* ---- (A) no look-ahead ------------------------------------------------------------------------------ *)
(* (1) every add-emit-remove rolling feature (moments, ewm, wma, z-score, and — over the zipped series —
   cov / corr / regression-on-x, trend regressions), any element type, state, output and carrier *)
Theorem C06_prefix_every_feature :
  forall (T St O : Type) (F : feat T St O) (w : nat) (xs : list T) (body : bool) (k : nat),
    1 <= w -> ts_out F body w (firstn k xs) = firstn k (ts_out F body w xs).
Proof. exact @ts_out_prefix. Qed.

(* (2) two-series features: the prefix of both series *)
Theorem C06_prefix_two_series :
  forall (T1 T2 St O : Type) (F : feat (T1 * T2) St O) (body : bool) (w : nat)
         (xs : list T1) (ys : list T2) (k : nat),
    1 <= w ->
    ts_out F body w (combine (firstn k xs) (firstn k ys)) = firstn k (ts_out F body w (combine xs ys)).
Proof. exact @two_series_prefix. Qed.

(* (3) slice-form drivers (rolling_custom: fractional differencing), any stateful callback *)
Theorem C06_prefix_slice_form :
  forall (T St O : Type) (body : bool) (w : nat) (f : St -> list T -> St * O) (s0 : St) (xs : list T) (k : nat),
    1 <= w -> custom_out body w f s0 (firstn k xs) = firstn k (custom_out body w f s0 xs).
Proof. exact @custom_out_prefix. Qed.

(* (4) rolling extrema, arg-extrema and rank: explicit min_periods for every cut, omitted min_periods when both
   the prefix and the whole series are at least as long as the window (cmp_dom; DESIGN 5.3) *)
Theorem C06_prefix_ts_vmin :
  forall (T : Type) (DT : IsNone T Z) (body : bool) (w : nat) (mp : option nat) (xs : list T) (k : nat),
    1 <= w -> cmp_dom w mp (Nat.min k (length xs)) -> cmp_dom w mp (length xs) ->
    out_of (ts_vmin body w mp (firstn k xs)) = firstn k (out_of (ts_vmin body w mp xs)).
Proof.
  intros T DT body w mp xs k Hw D1 D2.
  apply (wd_prefix (ts_vmin body w mp) w (cmp_dom w mp) (g_min w mp) (vmin_wd body w mp Hw)).
  - apply idx_run_nil.
  - intros _ _. split; assumption.
Qed.

Theorem C06_prefix_ts_vmax :
  forall (T : Type) (DT : IsNone T Z) (body : bool) (w : nat) (mp : option nat) (xs : list T) (k : nat),
    1 <= w -> cmp_dom w mp (Nat.min k (length xs)) -> cmp_dom w mp (length xs) ->
    out_of (ts_vmax body w mp (firstn k xs)) = firstn k (out_of (ts_vmax body w mp xs)).
Proof.
  intros T DT body w mp xs k Hw D1 D2.
  apply (wd_prefix (ts_vmax body w mp) w (cmp_dom w mp) (g_max w mp) (vmax_wd body w mp Hw)).
  - apply idx_run_nil.
  - intros _ _. split; assumption.
Qed.

Theorem C06_prefix_ts_vargmin :
  forall (T : Type) (DT : IsNone T Z) (body : bool) (w : nat) (mp : option nat) (xs : list T) (k : nat),
    1 <= w -> cmp_dom w mp (Nat.min k (length xs)) -> cmp_dom w mp (length xs) ->
    out_of (ts_vargmin body w mp (firstn k xs)) = firstn k (out_of (ts_vargmin body w mp xs)).
Proof.
  intros T DT body w mp xs k Hw D1 D2.
  apply (wd_prefix (ts_vargmin body w mp) w (cmp_dom w mp) (g_argmin w mp) (vargmin_wd body w mp Hw)).
  - apply idx_run_nil.
  - intros _ _. split; assumption.
Qed.

Theorem C06_prefix_ts_vargmax :
  forall (T : Type) (DT : IsNone T Z) (body : bool) (w : nat) (mp : option nat) (xs : list T) (k : nat),
    1 <= w -> cmp_dom w mp (Nat.min k (length xs)) -> cmp_dom w mp (length xs) ->
    out_of (ts_vargmax body w mp (firstn k xs)) = firstn k (out_of (ts_vargmax body w mp xs)).
Proof.
  intros T DT body w mp xs k Hw D1 D2.
  apply (wd_prefix (ts_vargmax body w mp) w (cmp_dom w mp) (g_argmax w mp) (vargmax_wd body w mp Hw)).
  - apply idx_run_nil.
  - intros _ _. split; assumption.
Qed.

Theorem C06_prefix_ts_vrank :
  forall (T : Type) (DT : IsNone T Z) (body : bool) (w : nat) (mp : option nat) (pct rev : bool)
         (xs : list T) (k : nat),
    1 <= w -> cmp_dom w mp (Nat.min k (length xs)) -> cmp_dom w mp (length xs) ->
    out_of (ts_vrank (B := XR) body w mp pct rev (firstn k xs))
    = firstn k (out_of (ts_vrank (B := XR) body w mp pct rev xs)).
Proof.
  intros T DT body w mp pct rev xs k Hw D1 D2.
  apply (wd_prefix (ts_vrank (B := XR) body w mp pct rev) w (cmp_dom w mp) (g_rank w mp pct rev)
                   (vrank_wd body w mp pct rev Hw)).
  - apply idx_run_nil.
  - intros _ _. split; assumption.
Qed.

(* the scope restriction of DESIGN 5.3 is needed: with omitted min_periods and a series shorter than the
   window the default min_periods is floor(len/2), which depends on data after the cut *)
Theorem C06_omitted_min_periods_short_series_depends_on_length :
  out_of (ts_vmin (A := Z) (DT := IsNone_option) true 6 None (firstn 1 [Some 1; Some 2; Some 3; Some 4]%Z))
  <> firstn 1 (out_of (ts_vmin (A := Z) (DT := IsNone_option) true 6 None [Some 1; Some 2; Some 3; Some 4]%Z)).
Proof. vm_compute. discriminate. Qed.

(* (5) positive-lag shift, difference and percentage change *)
Theorem C06_prefix_shift :
  forall (X : Type) (n : Z) (v : X) (xs : list X) (k : nat), (0 <= n)%Z ->
    exists r, shift n v xs = Ok r /\ shift n v (firstn k xs) = Ok (firstn k r).
Proof. exact @shift_prefix. Qed.

Theorem C06_prefix_vshift :
  forall (X I : Type) (d : NullDict X I) (n : Z) (value : option X) (v : X) (xs : list X) (k : nat),
    (0 <= n)%Z -> or_none d value = Ok v ->
    exists r, vshift d n value xs = Ok r /\ vshift d n value (firstn k xs) = Ok (firstn k r).
Proof. exact @vshift_prefix. Qed.

Theorem C06_prefix_vdiff :
  forall (X I : Type) (d : NullDict X I) (sub : X -> X -> X) (n : Z) (value : option X) (v : X)
         (xs : list X) (k : nat),
    (0 <= n)%Z -> or_none d value = Ok v ->
    exists r, vdiff d sub n value xs = Ok r /\ vdiff d sub n value (firstn k xs) = Ok (firstn k r).
Proof. exact @vdiff_prefix. Qed.

Theorem C06_prefix_vpct_change :
  forall (X I F : Type) (d : NullDict X I) (o : FOps F) (cast : X -> F) (n : Z) (xs : list X) (k : nat),
    (forall v, fisnan o (cast v) = is_none d v) -> fisnan o (fnanv o) = true -> (0 <= n)%Z ->
    exists r, vpct_change d o cast n xs = Ok r /\ vpct_change d o cast n (firstn k xs) = Ok (firstn k r).
Proof. exact @vpct_change_prefix. Qed.

(* the restriction n >= 0 is needed: a negative lag reads ahead by design *)
Theorem C06_negative_lag_reads_ahead :
  exists r, shift (-1)%Z 0%Z [1; 2; 3]%Z = Ok r /\ shift (-1)%Z 0%Z (firstn 2 [1; 2; 3]%Z) <> Ok (firstn 2 r).
Proof. exact shift_negative_lag_looks_ahead. Qed.

(* ---- (B) no dependence on pre-window data ---------------------------------------------------------- *)
(* (6) exactly not at all for min, max, arg-extrema and rank: two series (of any lengths, any histories) whose
   windows at positions i and j coincide give the same output there *)
Theorem C06_window_only_ts_vmin :
  forall (T : Type) (DT : IsNone T Z) (body : bool) (w : nat) (mp : option nat) (xs ys : list T) (i j : nat),
    1 <= w -> cmp_dom w mp (length xs) -> cmp_dom w mp (length ys) -> i < length xs -> j < length ys ->
    win w i xs = win w j ys ->
    nth_error (out_of (ts_vmin body w mp xs)) i = nth_error (out_of (ts_vmin body w mp ys)) j.
Proof.
  intros T DT body w mp xs ys i j Hw.
  apply (wd_window (ts_vmin body w mp) w (cmp_dom w mp) (g_min w mp) (vmin_wd body w mp Hw)).
Qed.

Theorem C06_window_only_ts_vmax :
  forall (T : Type) (DT : IsNone T Z) (body : bool) (w : nat) (mp : option nat) (xs ys : list T) (i j : nat),
    1 <= w -> cmp_dom w mp (length xs) -> cmp_dom w mp (length ys) -> i < length xs -> j < length ys ->
    win w i xs = win w j ys ->
    nth_error (out_of (ts_vmax body w mp xs)) i = nth_error (out_of (ts_vmax body w mp ys)) j.
Proof.
  intros T DT body w mp xs ys i j Hw.
  apply (wd_window (ts_vmax body w mp) w (cmp_dom w mp) (g_max w mp) (vmax_wd body w mp Hw)).
Qed.

Theorem C06_window_only_ts_vargmin :
  forall (T : Type) (DT : IsNone T Z) (body : bool) (w : nat) (mp : option nat) (xs ys : list T) (i j : nat),
    1 <= w -> cmp_dom w mp (length xs) -> cmp_dom w mp (length ys) -> i < length xs -> j < length ys ->
    win w i xs = win w j ys ->
    nth_error (out_of (ts_vargmin body w mp xs)) i = nth_error (out_of (ts_vargmin body w mp ys)) j.
Proof.
  intros T DT body w mp xs ys i j Hw.
  apply (wd_window (ts_vargmin body w mp) w (cmp_dom w mp) (g_argmin w mp) (vargmin_wd body w mp Hw)).
Qed.

Theorem C06_window_only_ts_vargmax :
  forall (T : Type) (DT : IsNone T Z) (body : bool) (w : nat) (mp : option nat) (xs ys : list T) (i j : nat),
    1 <= w -> cmp_dom w mp (length xs) -> cmp_dom w mp (length ys) -> i < length xs -> j < length ys ->
    win w i xs = win w j ys ->
    nth_error (out_of (ts_vargmax body w mp xs)) i = nth_error (out_of (ts_vargmax body w mp ys)) j.
Proof.
  intros T DT body w mp xs ys i j Hw.
  apply (wd_window (ts_vargmax body w mp) w (cmp_dom w mp) (g_argmax w mp) (vargmax_wd body w mp Hw)).
Qed.

Theorem C06_window_only_ts_vrank :
  forall (T : Type) (DT : IsNone T Z) (body : bool) (w : nat) (mp : option nat) (pct rev : bool)
         (xs ys : list T) (i j : nat),
    1 <= w -> cmp_dom w mp (length xs) -> cmp_dom w mp (length ys) -> i < length xs -> j < length ys ->
    win w i xs = win w j ys ->
    nth_error (out_of (ts_vrank (B := XR) body w mp pct rev xs)) i
    = nth_error (out_of (ts_vrank (B := XR) body w mp pct rev ys)) j.
Proof.
  intros T DT body w mp pct rev xs ys i j Hw.
  apply (wd_window (ts_vrank (B := XR) body w mp pct rev) w (cmp_dom w mp) (g_rank w mp pct rev)
                   (vrank_wd body w mp pct rev Hw)).
Qed.

(* (7) the accumulator families in exact arithmetic (option R): the incremental sums carry nothing over from the
   history — hence in binary64 the history can only enter through rounding of the sums (DESIGN 5.1, 5.2) *)
Theorem C06_window_only_moments :          (* sum, mean, var, std, skew, kurt: any emit function *)
  forall (emit : @mom XR -> XR) (body : bool) (w : nat) (xs ys : list XR) (i j : nat),
    1 <= w -> i < length xs -> j < length ys -> win w i xs = win w j ys ->
    nth_error (ts_out (mom_feat emit) body w xs) i = nth_error (ts_out (mom_feat emit) body w ys) j.
Proof. exact mom_window_only. Qed.

Theorem C06_window_only_ewm :
  forall (mp : option nat) (body : bool) (w : nat) (xs ys : list XR) (i j : nat),
    1 <= w -> i < length xs -> j < length ys -> win w i xs = win w j ys ->
    nth_error (ts_out (ts_vewm_f w mp) body w xs) i = nth_error (ts_out (ts_vewm_f w mp) body w ys) j.
Proof. exact ewm_window_only. Qed.

Theorem C06_window_only_wma :
  forall (mp : option nat) (body : bool) (w : nat) (xs ys : list XR) (i j : nat),
    1 <= w -> i < length xs -> j < length ys -> win w i xs = win w j ys ->
    nth_error (ts_out (ts_vwma_f w mp) body w xs) i = nth_error (ts_out (ts_vwma_f w mp) body w ys) j.
Proof. exact wma_window_only. Qed.

Theorem C06_window_only_cross_sums :       (* cov, corr, regression-on-x alpha / beta / all: any emit function *)
  forall (O : Type) (emit : @csum XR -> O) (body : bool) (w : nat) (zs zs' : list (XR * XR)) (i j : nat),
    1 <= w -> i < length zs -> j < length zs' -> win w i zs = win w j zs' ->
    nth_error (ts_out (csum_feat emit) body w zs) i = nth_error (ts_out (csum_feat emit) body w zs') j.
Proof. exact @csum_window_only. Qed.

Theorem C06_window_only_trend :            (* ts_vreg, ts_vtsf, slope, intercept, resid_mean: any emit function *)
  forall (emit : @tr_st XR -> XR) (body : bool) (w : nat) (xs ys : list XR) (i j : nat),
    1 <= w -> i < length xs -> j < length ys -> win w i xs = win w j ys ->
    nth_error (ts_out (tr_feat emit) body w xs) i = nth_error (ts_out (tr_feat emit) body w ys) j.
Proof. exact trend_window_only. Qed.

(* (8) slice forms with a stateless callback (fractional differencing), any carrier, exact *)
Theorem C06_window_only_slice_form :
  forall (T O : Type) (body : bool) (w : nat) (g : list T -> O) (xs ys : list T) (i j : nat),
    1 <= w -> i < length xs -> j < length ys -> win w i xs = win w j ys ->
    nth_error (custom_out body w (fun (u : unit) l => (u, g l)) tt xs) i
    = nth_error (custom_out body w (fun (u : unit) l => (u, g l)) tt ys) j.
Proof. exact @custom_window_only. Qed.

(* non-vacuity: two different histories, the same last window of 2 *)
Example C06_example_window :
  nth_error (out_of (ts_vmin (A := Z) (DT := IsNone_option) false 2 (Some 1) [Some 9; None; Some 4; Some 7]%Z)) 3
  = nth_error (out_of (ts_vmin (A := Z) (DT := IsNone_option) false 2 (Some 1) [Some (-5); Some 4; Some 7]%Z)) 2.
Proof.
  apply C06_window_only_ts_vmin; cbn; try lia; try exact I. reflexivity.
Qed.
Example C06_example_prefix :
  ts_out (ts_vsum_f (A := XR) 2 (Some 1)) true 2 (firstn 2 [Some 1%R; None; Some 3%R])
  = firstn 2 (ts_out (ts_vsum_f (A := XR) 2 (Some 1)) true 2 [Some 1%R; None; Some 3%R]).
Proof. apply C06_prefix_every_feature. auto. Qed.

Print Assumptions C06_prefix_every_feature.
Print Assumptions C06_prefix_two_series.
Print Assumptions C06_prefix_slice_form.
Print Assumptions C06_prefix_ts_vmin.
Print Assumptions C06_prefix_ts_vmax.
Print Assumptions C06_prefix_ts_vargmin.
Print Assumptions C06_prefix_ts_vargmax.
Print Assumptions C06_prefix_ts_vrank.
Print Assumptions C06_omitted_min_periods_short_series_depends_on_length.
Print Assumptions C06_prefix_shift.
Print Assumptions C06_prefix_vshift.
Print Assumptions C06_prefix_vdiff.
Print Assumptions C06_prefix_vpct_change.
Print Assumptions C06_negative_lag_reads_ahead.
Print Assumptions C06_window_only_ts_vmin.
Print Assumptions C06_window_only_ts_vmax.
Print Assumptions C06_window_only_ts_vargmin.
Print Assumptions C06_window_only_ts_vargmax.
Print Assumptions C06_window_only_ts_vrank.
Print Assumptions C06_window_only_moments.
Print Assumptions C06_window_only_ewm.
Print Assumptions C06_window_only_wma.
Print Assumptions C06_window_only_cross_sums.
Print Assumptions C06_window_only_trend.
Print Assumptions C06_window_only_slice_form.
