(* Props/C06.v — property C06: rolling and lagging results never depend on later (or pre-window) data.
   Statements only.  `ts_out F body w xs` / `out_of (f xs)` is the result vector of a model run (body = true:
   two-phase index body = caller buffer and Vec / ndarray fast paths; false: iterator body).
   (A) prefix law, bit for bit: the statements (1)-(4) hold for EVERY carrier because no law of the numeric
       class is used — in particular at Coq's binary64 `float`, whose evaluation the correspondence run compares
       with the Rust code; (5)-(6) are about the exact integer carrier and the positional maps.
   (B) pre-window independence: output i is a function of positions max(0,i-w+1)..=i alone; exact for the
       extrema / arg-extrema / rank (integer carrier), exact in option R (= up to rounding in binary64, DESIGN
       5.1/5.2) for the accumulator families.                                                         *)
From Coq Require Import ZArith List Reals.
From Tevec Require Import Base.Prelude Base.Num Base.XR Model.Driver Proofs.Driver Model.Features
     Proofs.Generic Proofs.NoLookahead Proofs.NoLookahead2 Model.Cmp Spec.Extrema Model.Binary Model.Reg
     Model.MapOps Spec.MapOps Model.Norm Proofs.IdxRun Proofs.NoLookahead3 Proofs.IdxPrefix Base.F64.
From Coq Require Import Lia Lra PrimFloat.
Import ListNotations.

(* ---- (A) no look-ahead ------------------------------------------------------------------------------ *)
(* (1) every add-emit-remove rolling feature (moments, ewm, wma, z-score, and — over the zipped series —
   cov / corr / regression-on-x, trend regressions), any element type, state, output and carrier *)
Theorem C06_prefix_every_feature :
  forall (T St O : Type) (F : feat T St O) (w : nat) (xs : list T) (body : bool) (k : nat),
    1 <= w -> ts_out F body w (firstn k xs) = firstn k (ts_out F body w xs).
Proof. exact @ts_out_prefix. Qed.

(* (2) two-series features: the prefix of both series *)
Theorem C06_prefix_two_series :
  forall (T1 T2 St O : Type) (F : feat (T1 * T2) St O) (body : bool) (w : nat)
         (xs : list T1) (ys : list T2) (k : nat),
    1 <= w ->
    ts_out F body w (combine (firstn k xs) (firstn k ys)) = firstn k (ts_out F body w (combine xs ys)).
Proof. exact @two_series_prefix. Qed.

(* (3) slice-form drivers (rolling_custom: fractional differencing), any stateful callback *)
Theorem C06_prefix_slice_form :
  forall (T St O : Type) (body : bool) (w : nat) (f : St -> list T -> St * O) (s0 : St) (xs : list T) (k : nat),
    1 <= w -> custom_out body w f s0 (firstn k xs) = firstn k (custom_out body w f s0 xs).
Proof. exact @custom_out_prefix. Qed.

(* (4) rolling extrema, arg-extrema and rank: explicit min_periods for every cut, omitted min_periods when both
   the prefix and the whole series are at least as long as the window (cmp_dom; DESIGN 5.3) *)
Theorem C06_prefix_ts_vmin :
  forall (T : Type) (DT : IsNone T Z) (body : bool) (w : nat) (mp : option nat) (xs : list T) (k : nat),
    1 <= w -> cmp_dom w mp (Nat.min k (length xs)) -> cmp_dom w mp (length xs) ->
    out_of (ts_vmin body w mp (firstn k xs)) = firstn k (out_of (ts_vmin body w mp xs)).
Proof.
  intros T DT body w mp xs k Hw D1 D2.
  apply (wd_prefix (ts_vmin body w mp) w (cmp_dom w mp) (g_min w mp) (vmin_wd body w mp Hw)).
  - apply idx_run_nil.
  - intros _ _. split; assumption.
Qed.

Theorem C06_prefix_ts_vmax :
  forall (T : Type) (DT : IsNone T Z) (body : bool) (w : nat) (mp : option nat) (xs : list T) (k : nat),
    1 <= w -> cmp_dom w mp (Nat.min k (length xs)) -> cmp_dom w mp (length xs) ->
    out_of (ts_vmax body w mp (firstn k xs)) = firstn k (out_of (ts_vmax body w mp xs)).
Proof.
  intros T DT body w mp xs k Hw D1 D2.
  apply (wd_prefix (ts_vmax body w mp) w (cmp_dom w mp) (g_max w mp) (vmax_wd body w mp Hw)).
  - apply idx_run_nil.
  - intros _ _. split; assumption.
Qed.

Theorem C06_prefix_ts_vargmin :
  forall (T : Type) (DT : IsNone T Z) (body : bool) (w : nat) (mp : option nat) (xs : list T) (k : nat),
    1 <= w -> cmp_dom w mp (Nat.min k (length xs)) -> cmp_dom w mp (length xs) ->
    out_of (ts_vargmin body w mp (firstn k xs)) = firstn k (out_of (ts_vargmin body w mp xs)).
Proof.
  intros T DT body w mp xs k Hw D1 D2.
  apply (wd_prefix (ts_vargmin body w mp) w (cmp_dom w mp) (g_argmin w mp) (vargmin_wd body w mp Hw)).
  - apply idx_run_nil.
  - intros _ _. split; assumption.
Qed.

Theorem C06_prefix_ts_vargmax :
  forall (T : Type) (DT : IsNone T Z) (body : bool) (w : nat) (mp : option nat) (xs : list T) (k : nat),
    1 <= w -> cmp_dom w mp (Nat.min k (length xs)) -> cmp_dom w mp (length xs) ->
    out_of (ts_vargmax body w mp (firstn k xs)) = firstn k (out_of (ts_vargmax body w mp xs)).
Proof.
  intros T DT body w mp xs k Hw D1 D2.
  apply (wd_prefix (ts_vargmax body w mp) w (cmp_dom w mp) (g_argmax w mp) (vargmax_wd body w mp Hw)).
  - apply idx_run_nil.
  - intros _ _. split; assumption.
Qed.

Theorem C06_prefix_ts_vrank :
  forall (T : Type) (DT : IsNone T Z) (body : bool) (w : nat) (mp : option nat) (pct rev : bool)
         (xs : list T) (k : nat),
    1 <= w -> cmp_dom w mp (Nat.min k (length xs)) -> cmp_dom w mp (length xs) ->
    out_of (ts_vrank (B := XR) body w mp pct rev (firstn k xs))
    = firstn k (out_of (ts_vrank (B := XR) body w mp pct rev xs)).
Proof.
  intros T DT body w mp pct rev xs k Hw D1 D2.
  apply (wd_prefix (ts_vrank (B := XR) body w mp pct rev) w (cmp_dom w mp) (g_rank w mp pct rev)
                   (vrank_wd body w mp pct rev Hw)).
  - apply idx_run_nil.
  - intros _ _. split; assumption.
Qed.

(* the scope restriction of DESIGN 5.3 is needed: with omitted min_periods and a series shorter than the
   window the default min_periods is floor(len/2), which depends on data after the cut *)
Theorem C06_omitted_min_periods_short_series_depends_on_length :
  out_of (ts_vmin (A := Z) (DT := IsNone_option) true 6 None (firstn 1 [Some 1; Some 2; Some 3; Some 4]%Z))
  <> firstn 1 (out_of (ts_vmin (A := Z) (DT := IsNone_option) true 6 None [Some 1; Some 2; Some 3; Some 4]%Z)).
Proof. vm_compute. discriminate. Qed.

(* (5) positive-lag shift, difference and percentage change *)
Theorem C06_prefix_shift :
  forall (X : Type) (n : Z) (v : X) (xs : list X) (k : nat), (0 <= n)%Z ->
    exists r, shift n v xs = Ok r /\ shift n v (firstn k xs) = Ok (firstn k r).
Proof. exact @shift_prefix. Qed.

Theorem C06_prefix_vshift :
  forall (X I : Type) (d : NullDict X I) (n : Z) (value : option X) (v : X) (xs : list X) (k : nat),
    (0 <= n)%Z -> or_none d value = Ok v ->
    exists r, vshift d n value xs = Ok r /\ vshift d n value (firstn k xs) = Ok (firstn k r).
Proof. exact @vshift_prefix. Qed.

Theorem C06_prefix_vdiff :
  forall (X I : Type) (d : NullDict X I) (sub : X -> X -> X) (n : Z) (value : option X) (v : X)
         (xs : list X) (k : nat),
    (0 <= n)%Z -> or_none d value = Ok v ->
    exists r, vdiff d sub n value xs = Ok r /\ vdiff d sub n value (firstn k xs) = Ok (firstn k r).
Proof. exact @vdiff_prefix. Qed.

Theorem C06_prefix_vpct_change :
  forall (X I F : Type) (d : NullDict X I) (o : FOps F) (cast : X -> F) (n : Z) (xs : list X) (k : nat),
    (forall v, fisnan o (cast v) = is_none d v) -> fisnan o (fnanv o) = true -> (0 <= n)%Z ->
    exists r, vpct_change d o cast n xs = Ok r /\ vpct_change d o cast n (firstn k xs) = Ok (firstn k r).
Proof. exact @vpct_change_prefix. Qed.

(* the restriction n >= 0 is needed: a negative lag reads ahead by design *)
Theorem C06_negative_lag_reads_ahead :
  exists r, shift (-1)%Z 0%Z [1; 2; 3]%Z = Ok r /\ shift (-1)%Z 0%Z (firstn 2 [1; 2; 3]%Z) <> Ok (firstn 2 r).
Proof. exact shift_negative_lag_looks_ahead. Qed.

(* ---- (B) no dependence on pre-window data ---------------------------------------------------------- *)
(* (6) exactly not at all for min, max, arg-extrema and rank: two series (of any lengths, any histories) whose
   windows at positions i and j coincide give the same output there *)
Theorem C06_window_only_ts_vmin :
  forall (T : Type) (DT : IsNone T Z) (body : bool) (w : nat) (mp : option nat) (xs ys : list T) (i j : nat),
    1 <= w -> cmp_dom w mp (length xs) -> cmp_dom w mp (length ys) -> i < length xs -> j < length ys ->
    win w i xs = win w j ys ->
    nth_error (out_of (ts_vmin body w mp xs)) i = nth_error (out_of (ts_vmin body w mp ys)) j.
Proof.
  intros T DT body w mp xs ys i j Hw.
  apply (wd_window (ts_vmin body w mp) w (cmp_dom w mp) (g_min w mp) (vmin_wd body w mp Hw)).
Qed.

Theorem C06_window_only_ts_vmax :
  forall (T : Type) (DT : IsNone T Z) (body : bool) (w : nat) (mp : option nat) (xs ys : list T) (i j : nat),
    1 <= w -> cmp_dom w mp (length xs) -> cmp_dom w mp (length ys) -> i < length xs -> j < length ys ->
    win w i xs = win w j ys ->
    nth_error (out_of (ts_vmax body w mp xs)) i = nth_error (out_of (ts_vmax body w mp ys)) j.
Proof.
  intros T DT body w mp xs ys i j Hw.
  apply (wd_window (ts_vmax body w mp) w (cmp_dom w mp) (g_max w mp) (vmax_wd body w mp Hw)).
Qed.

Theorem C06_window_only_ts_vargmin :
  forall (T : Type) (DT : IsNone T Z) (body : bool) (w : nat) (mp : option nat) (xs ys : list T) (i j : nat),
    1 <= w -> cmp_dom w mp (length xs) -> cmp_dom w mp (length ys) -> i < length xs -> j < length ys ->
    win w i xs = win w j ys ->
    nth_error (out_of (ts_vargmin body w mp xs)) i = nth_error (out_of (ts_vargmin body w mp ys)) j.
Proof.
  intros T DT body w mp xs ys i j Hw.
  apply (wd_window (ts_vargmin body w mp) w (cmp_dom w mp) (g_argmin w mp) (vargmin_wd body w mp Hw)).
Qed.

Theorem C06_window_only_ts_vargmax :
  forall (T : Type) (DT : IsNone T Z) (body : bool) (w : nat) (mp : option nat) (xs ys : list T) (i j : nat),
    1 <= w -> cmp_dom w mp (length xs) -> cmp_dom w mp (length ys) -> i < length xs -> j < length ys ->
    win w i xs = win w j ys ->
    nth_error (out_of (ts_vargmax body w mp xs)) i = nth_error (out_of (ts_vargmax body w mp ys)) j.
Proof.
  intros T DT body w mp xs ys i j Hw.
  apply (wd_window (ts_vargmax body w mp) w (cmp_dom w mp) (g_argmax w mp) (vargmax_wd body w mp Hw)).
Qed.

Theorem C06_window_only_ts_vrank :
  forall (T : Type) (DT : IsNone T Z) (body : bool) (w : nat) (mp : option nat) (pct rev : bool)
         (xs ys : list T) (i j : nat),
    1 <= w -> cmp_dom w mp (length xs) -> cmp_dom w mp (length ys) -> i < length xs -> j < length ys ->
    win w i xs = win w j ys ->
    nth_error (out_of (ts_vrank (B := XR) body w mp pct rev xs)) i
    = nth_error (out_of (ts_vrank (B := XR) body w mp pct rev ys)) j.
Proof.
  intros T DT body w mp pct rev xs ys i j Hw.
  apply (wd_window (ts_vrank (B := XR) body w mp pct rev) w (cmp_dom w mp) (g_rank w mp pct rev)
                   (vrank_wd body w mp pct rev Hw)).
Qed.

(* (7) the accumulator families in exact arithmetic (option R): the incremental sums carry nothing over from the
   history — hence in binary64 the history can only enter through rounding of the sums (DESIGN 5.1, 5.2) *)
Theorem C06_window_only_moments :          (* sum, mean, var, std, skew, kurt: any emit function *)
  forall (emit : @mom XR -> XR) (body : bool) (w : nat) (xs ys : list XR) (i j : nat),
    1 <= w -> i < length xs -> j < length ys -> win w i xs = win w j ys ->
    nth_error (ts_out (mom_feat emit) body w xs) i = nth_error (ts_out (mom_feat emit) body w ys) j.
Proof. exact mom_window_only. Qed.

Theorem C06_window_only_ewm :
  forall (mp : option nat) (body : bool) (w : nat) (xs ys : list XR) (i j : nat),
    1 <= w -> i < length xs -> j < length ys -> win w i xs = win w j ys ->
    nth_error (ts_out (ts_vewm_f w mp) body w xs) i = nth_error (ts_out (ts_vewm_f w mp) body w ys) j.
Proof. exact ewm_window_only. Qed.

Theorem C06_window_only_wma :
  forall (mp : option nat) (body : bool) (w : nat) (xs ys : list XR) (i j : nat),
    1 <= w -> i < length xs -> j < length ys -> win w i xs = win w j ys ->
    nth_error (ts_out (ts_vwma_f w mp) body w xs) i = nth_error (ts_out (ts_vwma_f w mp) body w ys) j.
Proof. exact wma_window_only. Qed.

Theorem C06_window_only_cross_sums :       (* cov, corr, regression-on-x alpha / beta / all: any emit function *)
  forall (O : Type) (emit : @csum XR -> O) (body : bool) (w : nat) (zs zs' : list (XR * XR)) (i j : nat),
    1 <= w -> i < length zs -> j < length zs' -> win w i zs = win w j zs' ->
    nth_error (ts_out (csum_feat emit) body w zs) i = nth_error (ts_out (csum_feat emit) body w zs') j.
Proof. exact @csum_window_only. Qed.

Theorem C06_window_only_trend :            (* ts_vreg, ts_vtsf, slope, intercept, resid_mean: any emit function *)
  forall (emit : @tr_st XR -> XR) (body : bool) (w : nat) (xs ys : list XR) (i j : nat),
    1 <= w -> i < length xs -> j < length ys -> win w i xs = win w j ys ->
    nth_error (ts_out (tr_feat emit) body w xs) i = nth_error (ts_out (tr_feat emit) body w ys) j.
Proof. exact trend_window_only. Qed.

(* (8) slice forms with a stateless callback (fractional differencing), any carrier, exact *)
Theorem C06_window_only_slice_form :
  forall (T O : Type) (body : bool) (w : nat) (g : list T -> O) (xs ys : list T) (i j : nat),
    1 <= w -> i < length xs -> j < length ys -> win w i xs = win w j ys ->
    nth_error (custom_out body w (fun (u : unit) l => (u, g l)) tt xs) i
    = nth_error (custom_out body w (fun (u : unit) l => (u, g l)) tt ys) j.
Proof. exact @custom_window_only. Qed.

(* non-vacuity: two different histories, the same last window of 2 *)
Example C06_example_window :
  nth_error (out_of (ts_vmin (A := Z) (DT := IsNone_option) false 2 (Some 1) [Some 9; None; Some 4; Some 7]%Z)) 3
  = nth_error (out_of (ts_vmin (A := Z) (DT := IsNone_option) false 2 (Some 1) [Some (-5); Some 4; Some 7]%Z)) 2.
Proof.
  apply C06_window_only_ts_vmin; cbn; try lia; try exact I. reflexivity.
Qed.
Example C06_example_prefix :
  ts_out (ts_vsum_f (A := XR) 2 (Some 1)) true 2 (firstn 2 [Some 1%R; None; Some 3%R])
  = firstn 2 (ts_out (ts_vsum_f (A := XR) 2 (Some 1)) true 2 [Some 1%R; None; Some 3%R]).
Proof. apply C06_prefix_every_feature. auto. Qed.

(* ---- (A'') index-form callbacks that re-read the series through `uget`: the prefix law BIT FOR BIT at EVERY
   carrier (in particular binary64) ---------------------------------------------------------------------- *)
(* (9) the rule: two runs of the window-index driver (either body), the prefix run with callback cb1 and driver
   window w1, the whole run with cb2 and w2.  If before the last position of the prefix both pass the same start
   index and cb1 returns what cb2 returns (cb1 can only see xs[..k]: "reads the series at positions <= e only"),
   and at the last position cb1 returns the same OUTPUT, then a whole run that completes makes the prefix run
   complete with the prefix of its result. *)
Theorem C06_prefix_index_form_rule :
  forall (T St O : Type) (cb1 cb2 : St -> option nat * nat * T -> res (St * O))
         (xs : list T) (k : nat) (body : bool) (w1 w2 : nat) (Inv : nat -> St -> Prop) (s0 : St) (out : list O),
    1 <= w1 -> 1 <= w2 ->
    let n := Nat.min k (length xs) in
    let sf1 := start_of (eff_window body w1 n) in
    let sf2 := start_of (eff_window body w2 (length xs)) in
    Inv 0 s0 ->
    (forall e v s, S e < n -> nth_error xs e = Some v -> Inv e s ->
       sf1 e = sf2 e /\ cb1 s (sf2 e, e, v) = cb2 s (sf2 e, e, v) /\
       (forall s' o, cb2 s (sf2 e, e, v) = Ok (s', o) -> Inv (S e) s')) ->
    (forall e v s s2 o, S e = n -> nth_error xs e = Some v -> Inv e s ->
       cb2 s (sf2 e, e, v) = Ok (s2, o) -> exists s1, cb1 s (sf1 e, e, v) = Ok (s1, o)) ->
    idx_run body w2 cb2 s0 xs = Done out -> idx_run body w1 cb1 s0 (firstn k xs) = Done (firstn k out).
Proof. exact @idx_run_prefix_gen. Qed.

(* (10) the extrema / arg-extrema / rank family, any carrier A (Z, binary64, option R ...), any null dictionary;
   same min_periods condition as (4).  `Done out -> Done (firstn k out)`: whenever the call on the whole series
   returns, the call on the prefix returns the prefix, bit for bit (and does not panic either). *)
Theorem C06_prefix_any_carrier_ts_vmin :
  forall (A : Type) (NA : Num A) (T : Type) (DT : IsNone T A) (body : bool) (w : nat) (mp : option nat)
         (xs : list T) (k : nat) (out : list (option A)),
    1 <= w -> cmp_dom w mp (Nat.min k (length xs)) -> cmp_dom w mp (length xs) ->
    ts_vmin body w mp xs = Done out -> ts_vmin body w mp (firstn k xs) = Done (firstn k out).
Proof. exact @ts_vmin_prefix_any. Qed.

Theorem C06_prefix_any_carrier_ts_vmax :
  forall (A : Type) (NA : Num A) (T : Type) (DT : IsNone T A) (body : bool) (w : nat) (mp : option nat)
         (xs : list T) (k : nat) (out : list (option A)),
    1 <= w -> cmp_dom w mp (Nat.min k (length xs)) -> cmp_dom w mp (length xs) ->
    ts_vmax body w mp xs = Done out -> ts_vmax body w mp (firstn k xs) = Done (firstn k out).
Proof. exact @ts_vmax_prefix_any. Qed.

Theorem C06_prefix_any_carrier_ts_vargmin :
  forall (A : Type) (NA : Num A) (T : Type) (DT : IsNone T A) (body : bool) (w : nat) (mp : option nat)
         (xs : list T) (k : nat) (out : list (option nat)),
    1 <= w -> cmp_dom w mp (Nat.min k (length xs)) -> cmp_dom w mp (length xs) ->
    ts_vargmin body w mp xs = Done out -> ts_vargmin body w mp (firstn k xs) = Done (firstn k out).
Proof. exact @ts_vargmin_prefix_any. Qed.

Theorem C06_prefix_any_carrier_ts_vargmax :
  forall (A : Type) (NA : Num A) (T : Type) (DT : IsNone T A) (body : bool) (w : nat) (mp : option nat)
         (xs : list T) (k : nat) (out : list (option nat)),
    1 <= w -> cmp_dom w mp (Nat.min k (length xs)) -> cmp_dom w mp (length xs) ->
    ts_vargmax body w mp xs = Done out -> ts_vargmax body w mp (firstn k xs) = Done (firstn k out).
Proof. exact @ts_vargmax_prefix_any. Qed.

Theorem C06_prefix_any_carrier_ts_vrank :
  forall (A : Type) (NA : Num A) (T : Type) (DT : IsNone T A) (B : Type) (NB : Num B) (body : bool) (w : nat)
         (mp : option nat) (pct rev : bool) (xs : list T) (k : nat) (out : list B),
    1 <= w -> cmp_dom w mp (Nat.min k (length xs)) -> cmp_dom w mp (length xs) ->
    ts_vrank body w mp pct rev xs = Done out -> ts_vrank body w mp pct rev (firstn k xs) = Done (firstn k out).
Proof. exact @ts_vrank_prefix_any. Qed.

(* (11) min-max normalisation (window not clamped, min_periods independent of the length: every cut, omitted or
   explicit min_periods) and the regression-residual statistics (pure callback: the out_of form is unconditional) *)
Theorem C06_prefix_any_carrier_ts_vminmaxnorm :
  forall (A : Type) (NA : Num A) (T : Type) (DT : IsNone T A) (tmin tmax : A) (body : bool) (w : nat)
         (mp : option nat) (xs : list T) (k : nat) (out : list A),
    1 <= w ->
    ts_vminmaxnorm tmin tmax body w mp xs = Done out ->
    ts_vminmaxnorm tmin tmax body w mp (firstn k xs) = Done (firstn k out).
Proof. exact @ts_vminmaxnorm_prefix_any. Qed.

Theorem C06_prefix_any_carrier_ts_vregx_resid :
  forall (A : Type) (NA : Num A) (T1 : Type) (D1 : IsNone T1 A) (T2 : Type) (D2 : IsNone T2 A)
         (k : rstat) (body : bool) (w : nat) (mp : option nat) (xs : list T1) (ys : list T2) (n : nat),
    1 <= w -> length xs <= length ys ->
    out_of (ts_vregx_resid k body w mp (firstn n xs) (firstn n ys))
    = firstn n (out_of (ts_vregx_resid k body w mp xs ys)).
Proof. exact @resid_prefix_any. Qed.

(* (12) in exact arithmetic (option R) min-max normalisation on data bounded by the sentinels always returns, so
   the prefix law holds in the unconditional form *)
Theorem C06_prefix_ts_vminmaxnorm :
  forall (lo hi : R) (body : bool) (w : nat) (mp : option nat) (xs : list XR) (k : nat),
    1 <= w -> bounded lo hi xs ->
    out_of (ts_vminmaxnorm (Some lo) (Some hi) body w mp (firstn k xs))
    = firstn k (out_of (ts_vminmaxnorm (Some lo) (Some hi) body w mp xs)).
Proof. exact mmnorm_prefix. Qed.

(* ---- (B'') window-only law for the remaining families (option R) --------------------------------------- *)
Theorem C06_window_only_ts_vminmaxnorm :
  forall (lo hi : R) (body : bool) (w : nat) (mp : option nat) (xs ys : list XR) (i j : nat),
    1 <= w -> bounded lo hi xs -> bounded lo hi ys -> i < length xs -> j < length ys ->
    win w i xs = win w j ys ->
    nth_error (out_of (ts_vminmaxnorm (Some lo) (Some hi) body w mp xs)) i
    = nth_error (out_of (ts_vminmaxnorm (Some lo) (Some hi) body w mp ys)) j.
Proof. exact mmnorm_window_only. Qed.

Theorem C06_window_only_ts_vregx_resid :   (* resid_mean / resid_std / resid_skew: the windows of both series *)
  forall (k : rstat) (body : bool) (w : nat) (mp : option nat) (xs ys xs' ys' : list XR) (i j : nat),
    1 <= w -> length xs = length ys -> length xs' = length ys' -> i < length xs -> j < length xs' ->
    win w i xs = win w j xs' -> win w i ys = win w j ys' ->
    nth_error (out_of (ts_vregx_resid k body w mp xs ys)) i
    = nth_error (out_of (ts_vregx_resid k body w mp xs' ys')) j.
Proof. exact resid_window_only. Qed.

Theorem C06_window_only_ts_vzscore :
  forall (mp : option nat) (body : bool) (w : nat) (xs ys : list XR) (i j : nat),
    1 <= w -> i < length xs -> j < length ys -> win w i xs = win w j ys ->
    nth_error (ts_out (ts_vzscore_f w mp) body w xs) i = nth_error (ts_out (ts_vzscore_f w mp) body w ys) j.
Proof. exact zscore_window_only. Qed.

(* non-vacuity of (10)-(11) at binary64: a warm-up cut (k = 2 < w = 3), index body; the whole call returns *)
Example C06_example_any_carrier_vmin_float :
  let xs := [1%float; nan; 3%float; 2%float] in
  exists out, ts_vmin (A := float) (DT := IsNoneF64) true 3 (Some 1) xs = Done out /\
              ts_vmin (A := float) (DT := IsNoneF64) true 3 (Some 1) (firstn 2 xs) = Done (firstn 2 out).
Proof.
  intros xs. eexists. split; [vm_compute; reflexivity|].
  apply C06_prefix_any_carrier_ts_vmin; [lia|exact I|exact I|vm_compute; reflexivity].
Qed.
Example C06_example_any_carrier_vargmax_float :
  let xs := [1%float; nan; 3%float; 2%float] in
  exists out, ts_vargmax (A := float) (DT := IsNoneF64) false 3 (Some 1) xs = Done out /\
              ts_vargmax (A := float) (DT := IsNoneF64) false 3 (Some 1) (firstn 2 xs) = Done (firstn 2 out).
Proof.
  intros xs. eexists. split; [vm_compute; reflexivity|].
  apply C06_prefix_any_carrier_ts_vargmax; [lia|exact I|exact I|vm_compute; reflexivity].
Qed.
Example C06_example_any_carrier_vrank_float :
  let xs := [1%float; nan; 3%float; 2%float] in
  exists out, ts_vrank (A := float) (DT := IsNoneF64) (B := float) true 3 (Some 1) false false xs = Done out /\
              ts_vrank (A := float) (DT := IsNoneF64) (B := float) true 3 (Some 1) false false (firstn 2 xs)
              = Done (firstn 2 out).
Proof.
  intros xs. eexists. split; [vm_compute; reflexivity|].
  apply C06_prefix_any_carrier_ts_vrank; [lia|exact I|exact I|vm_compute; reflexivity].
Qed.
Example C06_example_any_carrier_minmaxnorm_float :
  let xs := [1%float; nan; 3%float; 2%float] in
  let lo := (-0x1.fffffffffffffp+1023)%float in let hi := 0x1.fffffffffffffp+1023%float in
  exists out, ts_vminmaxnorm (A := float) (DT := IsNoneF64) lo hi true 3 None xs = Done out /\
              ts_vminmaxnorm (A := float) (DT := IsNoneF64) lo hi true 3 None (firstn 2 xs) = Done (firstn 2 out).
Proof.
  intros xs lo hi. eexists. split; [vm_compute; reflexivity|].
  apply C06_prefix_any_carrier_ts_vminmaxnorm; [lia|vm_compute; reflexivity].
Qed.
Example C06_example_any_carrier_resid_float :
  let xs := [1%float; 2%float; 4%float; 3%float] in let ys := [2%float; 1%float; nan; 5%float; 7%float] in
  out_of (ts_vregx_resid (A := float) (D1 := IsNoneF64) (D2 := IsNoneF64) RStd true 3 None (firstn 2 xs) (firstn 2 ys))
  = firstn 2 (out_of (ts_vregx_resid (A := float) (D1 := IsNoneF64) (D2 := IsNoneF64) RStd true 3 None xs ys)).
Proof. intros xs ys. apply C06_prefix_any_carrier_ts_vregx_resid; cbn; lia. Qed.

(* non-vacuity of (12) and (B''): two different histories, the same last window of 2 *)
Example C06_example_bounded : bounded 0 10 [Some 9%R; None; Some 4%R; Some 7%R].
Proof. intros r [H|[H|[H|[H|[]]]]]; try discriminate; injection H as <-; lra. Qed.
Example C06_example_window_minmaxnorm :
  nth_error (out_of (ts_vminmaxnorm (Some 0%R) (Some 10%R) true 2 (Some 1) [Some 9%R; None; Some 4%R; Some 7%R])) 3
  = nth_error (out_of (ts_vminmaxnorm (Some 0%R) (Some 10%R) true 2 (Some 1) [Some 1%R; Some 4%R; Some 7%R])) 2.
Proof.
  apply C06_window_only_ts_vminmaxnorm; cbn [length]; try lia; try reflexivity.
  - exact C06_example_bounded.
  - intros r [H|[H|[H|[]]]]; injection H as <-; lra.
Qed.
Example C06_example_prefix_minmaxnorm :
  out_of (ts_vminmaxnorm (Some 0%R) (Some 10%R) false 3 None (firstn 2 [Some 9%R; None; Some 4%R; Some 7%R]))
  = firstn 2 (out_of (ts_vminmaxnorm (Some 0%R) (Some 10%R) false 3 None [Some 9%R; None; Some 4%R; Some 7%R])).
Proof. apply C06_prefix_ts_vminmaxnorm; [lia|exact C06_example_bounded]. Qed.
Example C06_example_window_resid :
  nth_error (out_of (ts_vregx_resid RSkew false 2 None [Some 9%R; None; Some 4%R; Some 7%R]
                                                       [Some 1%R; Some 2%R; Some 3%R; Some 5%R])) 3
  = nth_error (out_of (ts_vregx_resid RSkew false 2 None [Some 4%R; Some 7%R] [Some 3%R; Some 5%R])) 1.
Proof. apply C06_window_only_ts_vregx_resid; cbn [length]; try lia; reflexivity. Qed.
Example C06_example_window_zscore :
  nth_error (ts_out (ts_vzscore_f 2 None) true 2 [Some 9%R; None; Some 4%R; Some 7%R]) 3
  = nth_error (ts_out (ts_vzscore_f 2 None) true 2 [Some 4%R; Some 7%R]) 1.
Proof. apply C06_window_only_ts_vzscore; cbn [length]; try lia; reflexivity. Qed.

Print Assumptions C06_prefix_every_feature.
Print Assumptions C06_prefix_two_series.
Print Assumptions C06_prefix_slice_form.
Print Assumptions C06_prefix_ts_vmin.
Print Assumptions C06_prefix_ts_vmax.
Print Assumptions C06_prefix_ts_vargmin.
Print Assumptions C06_prefix_ts_vargmax.
Print Assumptions C06_prefix_ts_vrank.
Print Assumptions C06_omitted_min_periods_short_series_depends_on_length.
Print Assumptions C06_prefix_shift.
Print Assumptions C06_prefix_vshift.
Print Assumptions C06_prefix_vdiff.
Print Assumptions C06_prefix_vpct_change.
Print Assumptions C06_negative_lag_reads_ahead.
Print Assumptions C06_window_only_ts_vmin.
Print Assumptions C06_window_only_ts_vmax.
Print Assumptions C06_window_only_ts_vargmin.
Print Assumptions C06_window_only_ts_vargmax.
Print Assumptions C06_window_only_ts_vrank.
Print Assumptions C06_window_only_moments.
Print Assumptions C06_window_only_ewm.
Print Assumptions C06_window_only_wma.
Print Assumptions C06_window_only_cross_sums.
Print Assumptions C06_window_only_trend.
Print Assumptions C06_window_only_slice_form.
Print Assumptions C06_prefix_index_form_rule.
Print Assumptions C06_prefix_any_carrier_ts_vmin.
Print Assumptions C06_prefix_any_carrier_ts_vmax.
Print Assumptions C06_prefix_any_carrier_ts_vargmin.
Print Assumptions C06_prefix_any_carrier_ts_vargmax.
Print Assumptions C06_prefix_any_carrier_ts_vrank.
Print Assumptions C06_prefix_any_carrier_ts_vminmaxnorm.
Print Assumptions C06_prefix_any_carrier_ts_vregx_resid.
Print Assumptions C06_prefix_ts_vminmaxnorm.
Print Assumptions C06_window_only_ts_vminmaxnorm.
Print Assumptions C06_window_only_ts_vregx_resid.
Print Assumptions C06_window_only_ts_vzscore.

(* ---- (B') pre-window independence of the rolling sum IN BINARY64, quantitatively (Proofs/RoundSum.v) -------
   (7) says the accumulator families carry nothing over from the history in exact arithmetic.  For the rolling sum
   `ts_vsum` at the EXECUTION instance (Coq's primitive binary64 `float`, NaN = null; add -> emit -> remove; only the
   m_s1 / m_n fields of the state matter) the history enters through rounding only, and by this much:
     nops w xs i   additions and subtractions performed up to the emit of step i
                   (= valid elements in positions 0..i  +  valid elements in positions 0..i-w;   <= 2i+1)
     habs w xs i   the magnitude they moved (sum of |x| over the same two ranges;  <= 2 * sum_{k<=i} |x_k|)
     accumulators w xs i   every value the sum field has gone through so far
     u64 = 2^-53,  gam u n = (1+u)^n - 1,  f2r / ffin / rvals64 / fx : see Props/C11.v (R1)-(R4).
   Premise (executable): the emitted value is finite — then so was every accumulator value and every operand.   *)
From Tevec Require Import Spec.Stats Proofs.RoundSum.

(* (13) after ANY history the emitted sum is within ((1+u)^m - 1) * H of the exact sum of the window *)
Theorem C06_ts_vsum_binary64_error :
  forall (w : nat) (mp : option nat) (body : bool) (xs : list PrimFloat.float) (i : nat) (o : PrimFloat.float),
    1 <= w -> nth_error (ts_out (ts_vsum_f (NA := NumF64) (DT := IsNoneF64) w mp) body w xs) i = Some o ->
    ffin o = true ->
    (Rabs (f2r o - sumR (rvals64 (win w i xs))) <= gam u64 (nops w xs i) * habs w xs i)%R.
Proof. exact ts_vsum_binary64_error. Qed.

(* (14) the drift is linear in the number of operations: explicit constants in i alone *)
Theorem C06_ts_vsum_binary64_drift :
  forall (w : nat) (mp : option nat) (body : bool) (xs : list PrimFloat.float) (i : nat) (o : PrimFloat.float),
    1 <= w -> nth_error (ts_out (ts_vsum_f (NA := NumF64) (DT := IsNoneF64) w mp) body w xs) i = Some o ->
    ffin o = true ->
    (Rabs (f2r o - sumR (rvals64 (win w i xs)))
     <= INR (2 * i + 1) * u64 * (1 + u64) ^ (2 * i + 1) * (2 * sumabs (rvals64 (firstn (S i) xs))))%R.
Proof. exact ts_vsum_binary64_drift. Qed.

(* (15) running form: (2i+1) * u * M, M any bound on the accumulator values the run has gone through *)
Theorem C06_ts_vsum_binary64_drift_running :
  forall (w : nat) (mp : option nat) (body : bool) (xs : list PrimFloat.float) (i : nat) (o : PrimFloat.float) (M : R),
    1 <= w -> nth_error (ts_out (ts_vsum_f (NA := NumF64) (DT := IsNoneF64) w mp) body w xs) i = Some o ->
    ffin o = true -> (0 <= M)%R ->
    Forall (fun a => (Rabs (f2r a) <= M)%R) (accumulators w xs i) ->
    (Rabs (f2r o - sumR (rvals64 (win w i xs))) <= INR (2 * i + 1) * u64 * M)%R.
Proof. exact ts_vsum_binary64_drift_running. Qed.

(* (16) history independence up to rounding: two series (any lengths, any histories, either body) whose windows at
   positions i and j coincide give sums that differ by at most the two rounding bounds *)
Theorem C06_history_independence_up_to_rounding_ts_vsum :
  forall (w : nat) (mp : option nat) (body1 body2 : bool) (xs ys : list PrimFloat.float) (i j : nat)
         (o1 o2 : PrimFloat.float),
    1 <= w -> win w i xs = win w j ys ->
    nth_error (ts_out (ts_vsum_f (NA := NumF64) (DT := IsNoneF64) w mp) body1 w xs) i = Some o1 ->
    nth_error (ts_out (ts_vsum_f (NA := NumF64) (DT := IsNoneF64) w mp) body2 w ys) j = Some o2 ->
    ffin o1 = true -> ffin o2 = true ->
    (Rabs (f2r o1 - f2r o2) <= gam u64 (nops w xs i) * habs w xs i + gam u64 (nops w ys j) * habs w ys j)%R.
Proof. exact ts_vsum_history_independence_up_to_rounding. Qed.

Theorem C06_ts_vsum_operation_count :
  forall (w : nat) (xs : list PrimFloat.float) (i : nat),
    1 <= w -> nops w xs i <= 2 * i + 1 /\ (habs w xs i <= 2 * sumabs (rvals64 (firstn (S i) xs)))%R.
Proof. intros w xs i Hw. split; [apply nops_le, Hw|apply habs_le]. Qed.

(* (17) exactness: on a series whose valid elements are finite multiples of 2^e (executable test grid_check) with
   2 * sum |x| < 2^(e+53), no addition or subtraction ever rounds: the binary64 run IS the exact run, for every
   window, min_periods and both bodies.  The generated inputs are k/4, |k| <= 400: this is why the correspondence run
   sees bit-identical rolling sums, and on such data the history does not enter at all. *)
Theorem C06_ts_vsum_exact_on_grid :
  forall (e : Z) (w : nat) (mp : option nat) (body : bool) (xs : list PrimFloat.float),
    1 <= w -> (-1074 <= e <= 971)%Z -> forallb (grid_check e) (fvals xs) = true ->
    (2 * sumabs (rvals64 xs) < pow2 (e + 53))%R ->
    map fx (ts_out (ts_vsum_f (NA := NumF64) (DT := IsNoneF64) w mp) body w xs)
    = ts_out (ts_vsum_f (NA := NumXR) (DT := IsNoneXR) w mp) body w (map fx xs).
Proof.
  intros e w mp body xs Hw He HG Hb.
  apply (ts_vsum_f64_exact_on_grid e w mp body xs Hw He); [apply grid_check_all, HG|exact Hb].
Qed.

(* non-vacuity: two different histories (one of them 1e16: the sum absorbs and loses the small terms), the same last
   window [0.1; 0.2]; both outputs are finite, the windows coincide, and the outputs DO differ in binary64 *)
Example C06_example_rounding_premises :
  exists o1 o2,
    nth_error (ts_out (ts_vsum_f (NA := NumF64) (DT := IsNoneF64) 2 (Some 1)) true 2 [1e16; 0.1; 0.2]%float) 2 = Some o1 /\
    nth_error (ts_out (ts_vsum_f (NA := NumF64) (DT := IsNoneF64) 2 (Some 1)) false 2 [nan; 0.1; 0.2]%float) 2 = Some o2 /\
    ffin o1 = true /\ ffin o2 = true /\
    win 2 2 [1e16; 0.1; 0.2]%float = win 2 2 [nan; 0.1; 0.2]%float /\
    PrimFloat.eqb o1 o2 = false.
Proof. do 2 eexists. repeat split; vm_compute; reflexivity. Qed.
Example C06_example_grid_premises :
  forallb (grid_check (-2)) (fvals [1.25; nan; -0.75; 100]%float) = true /\
  ts_out (ts_vsum_f (NA := NumF64) (DT := IsNoneF64) 2 None) true 2 [1.25; nan; -0.75; 100]%float
  = [1.25; 1.25; -0.75; 99.25]%float.
Proof. split; vm_compute; reflexivity. Qed.

Print Assumptions C06_ts_vsum_binary64_error.
Print Assumptions C06_ts_vsum_binary64_drift.
Print Assumptions C06_ts_vsum_binary64_drift_running.
Print Assumptions C06_history_independence_up_to_rounding_ts_vsum.
Print Assumptions C06_ts_vsum_operation_count.
Print Assumptions C06_ts_vsum_exact_on_grid.

(* ---- (B'') the rolling MEAN in binary64, and window-local exactness (Proofs/RoundMean.v) -----------------------
   The mean divides the rolling sum by `n as f64` (exact for n <= w < 2^53): one more correctly rounded operation,
   which CAN underflow — error model |fl(x) - x| <= u |x| + eta, eta64 = 2^-1075 (Props/C11.v (R5)).               *)
From Coq Require Import ZArith.
From Tevec Require Import Proofs.RoundMean.

(* (18) after ANY history the emitted mean is within ((1+u)^(m+1) - 1) * H / n + eta of the exact mean of the window *)
Theorem C06_ts_vmean_binary64_error :
  forall (w : nat) (mp : option nat) (body : bool) (xs : list PrimFloat.float) (i : nat) (o : PrimFloat.float),
    1 <= w -> (Z.of_nat w < 2 ^ 53)%Z ->
    nth_error (ts_out (ts_vmean_f (NA := NumF64) (DT := IsNoneF64) w mp) body w xs) i = Some o -> ffin o = true ->
    (Rabs (f2r o - meanR (rvals64 (win w i xs)))
     <= gam u64 (S (nops w xs i)) * (habs w xs i / INR (length (rvals64 (win w i xs)))) + eta64)%R.
Proof. exact ts_vmean_binary64_error. Qed.

(* (19) history independence up to rounding for the mean: two series (any lengths, any histories, either body) whose
   windows at positions i and j coincide give means that differ by at most the two rounding bounds *)
Theorem C06_history_independence_up_to_rounding_ts_vmean :
  forall (w : nat) (mp : option nat) (body1 body2 : bool) (xs ys : list PrimFloat.float) (i j : nat)
         (o1 o2 : PrimFloat.float),
    1 <= w -> (Z.of_nat w < 2 ^ 53)%Z -> win w i xs = win w j ys ->
    nth_error (ts_out (ts_vmean_f (NA := NumF64) (DT := IsNoneF64) w mp) body1 w xs) i = Some o1 ->
    nth_error (ts_out (ts_vmean_f (NA := NumF64) (DT := IsNoneF64) w mp) body2 w ys) j = Some o2 ->
    ffin o1 = true -> ffin o2 = true ->
    (Rabs (f2r o1 - f2r o2)
     <= (gam u64 (S (nops w xs i)) * habs w xs i + gam u64 (S (nops w ys j)) * habs w ys j)
        / INR (length (rvals64 (win w j ys))) + 2 * eta64)%R.
Proof. exact ts_vmean_history_independence_up_to_rounding. Qed.

(* (20) exactness of the rolling sum under a WINDOW-LOCAL premise (strengthens (17), which needs the whole history in
   range): valid elements multiples of 2^e, every window's sum of |x| below 2^(e+53) — then no addition or subtraction
   rounds however long the series: on such data the history does not enter at all *)
Theorem C06_ts_vsum_exact_on_grid_local :
  forall (e : Z) (w : nat) (mp : option nat) (body : bool) (xs : list PrimFloat.float),
    (-1074 <= e)%Z -> (e + 53 <= 1024)%Z -> 1 <= w -> forallb (grid_check e) (fvals xs) = true ->
    (forall i, i < length xs -> (spow 1 (rvals64 (win w i xs)) < pow2 (e + 53))%R) ->
    map fx (ts_out (ts_vsum_f (NA := NumF64) (DT := IsNoneF64) w mp) body w xs)
    = ts_out (ts_vsum_f (NA := NumXR) (DT := IsNoneXR) w mp) body w (map fx xs).
Proof. exact ts_vsum_f64_exact_on_grid_local_props. Qed.

(* non-vacuity of (18)-(19): the histories 1e16 / NaN in front of the same window [0.1; 0.2]; the means DO differ *)
Example C06_example_mean_rounding_premises :
  exists o1 o2,
    nth_error (ts_out (ts_vmean_f (NA := NumF64) (DT := IsNoneF64) 2 (Some 1)) true 2 [1e16; 0.1; 0.2]%float) 2 = Some o1 /\
    nth_error (ts_out (ts_vmean_f (NA := NumF64) (DT := IsNoneF64) 2 (Some 1)) false 2 [nan; 0.1; 0.2]%float) 2 = Some o2 /\
    ffin o1 = true /\ ffin o2 = true /\ (Z.of_nat 2 < 2 ^ 53)%Z /\
    win 2 2 [1e16; 0.1; 0.2]%float = win 2 2 [nan; 0.1; 0.2]%float /\
    PrimFloat.eqb o1 o2 = false.
Proof. do 2 eexists. repeat split; vm_compute; reflexivity. Qed.
(* non-vacuity of (20): a series whose total magnitude is irrelevant — only windows matter; executable premises *)
Example C06_example_grid_local_premises :
  forallb (grid_check (-2)) (fvals [1.25; nan; -0.75; 100]%float) = true /\
  forallb (abs_le_check 100) (fvals [1.25; nan; -0.75; 100]%float) = true /\ (-1074 <= -2)%Z /\ (-2 + 53 <= 1024)%Z.
Proof. repeat split; try (vm_compute; reflexivity); discriminate. Qed.

Print Assumptions C06_ts_vmean_binary64_error.
Print Assumptions C06_history_independence_up_to_rounding_ts_vmean.
Print Assumptions C06_ts_vsum_exact_on_grid_local.

(* ---- (C) X28: the extrema / arg-extrema / rank family at EVERY ordered carrier, incl. binary64 -------------------
   (4) / (6) above are at the integer carrier; (10) holds at every carrier but only in the form "IF the whole call
   returns THEN the prefix call returns the prefix".  With the closed forms of Props/C03.v for every carrier satisfying
   the order laws `OrdLaws A` of Spec/ExtremaOrd.v (Z, option R, Coq's primitive binary64 `float`) the whole call always
   returns on a series whose valid elements are not NaN (`valid_not_nan`: automatic when NaN IS the null; for
   Option<f64> it excludes Some(NaN), DESIGN 5.4), so (Proofs/MaskOrd.v):
     prefix      — UNCONDITIONAL: the call on the whole series returns some `out` of the input length and the call on
                   the prefix returns `firstn k out`, bit for bit; every cut k, window >= 1, both bodies, the min_periods
                   condition of DESIGN 5.3 (`cmp_dom`, as in (4));
     window-only — two series of any lengths and histories, each run with either driver body: if the windows at
                   positions i and j coincide, both calls return and the two outputs are the same value.
   ts_vrank needs neither a law nor a premise on the series and holds for every OUTPUT carrier B as well: at
   A = B = binary64 the rank arithmetic itself (additions of 1.0, `0.5 * (n_repeat - 1)`, the division by n) is
   covered bit for bit — the output is one function of the window (`g_rank_any`), proved for every carrier.         *)
From Tevec Require Import Spec.ExtremaOrd Proofs.CmpOrd Proofs.MaskOrd.

Theorem C06_prefix_ordered_ts_vmin :
  forall (A : Type) (NA : Num A), OrdLaws A ->
  forall (T : Type) (DT : IsNone T A) (body : bool) (w : nat) (mp : option nat) (xs : list T) (k : nat),
    valid_not_nan xs -> 1 <= w -> cmp_dom w mp (Nat.min k (length xs)) -> cmp_dom w mp (length xs) ->
    exists out, ts_vmin body w mp xs = Done out /\ length out = length xs /\
                ts_vmin body w mp (firstn k xs) = Done (firstn k out).
Proof. intros A NA OL T DT. exact (prefix_vmin_ord OL). Qed.

Theorem C06_prefix_ordered_ts_vmax :
  forall (A : Type) (NA : Num A), OrdLaws A ->
  forall (T : Type) (DT : IsNone T A) (body : bool) (w : nat) (mp : option nat) (xs : list T) (k : nat),
    valid_not_nan xs -> 1 <= w -> cmp_dom w mp (Nat.min k (length xs)) -> cmp_dom w mp (length xs) ->
    exists out, ts_vmax body w mp xs = Done out /\ length out = length xs /\
                ts_vmax body w mp (firstn k xs) = Done (firstn k out).
Proof. intros A NA OL T DT. exact (prefix_vmax_ord OL). Qed.

Theorem C06_prefix_ordered_ts_vargmin :
  forall (A : Type) (NA : Num A), OrdLaws A ->
  forall (T : Type) (DT : IsNone T A) (body : bool) (w : nat) (mp : option nat) (xs : list T) (k : nat),
    valid_not_nan xs -> 1 <= w -> cmp_dom w mp (Nat.min k (length xs)) -> cmp_dom w mp (length xs) ->
    exists out, ts_vargmin body w mp xs = Done out /\ length out = length xs /\
                ts_vargmin body w mp (firstn k xs) = Done (firstn k out).
Proof. intros A NA OL T DT. exact (prefix_vargmin_ord OL). Qed.

Theorem C06_prefix_ordered_ts_vargmax :
  forall (A : Type) (NA : Num A), OrdLaws A ->
  forall (T : Type) (DT : IsNone T A) (body : bool) (w : nat) (mp : option nat) (xs : list T) (k : nat),
    valid_not_nan xs -> 1 <= w -> cmp_dom w mp (Nat.min k (length xs)) -> cmp_dom w mp (length xs) ->
    exists out, ts_vargmax body w mp xs = Done out /\ length out = length xs /\
                ts_vargmax body w mp (firstn k xs) = Done (firstn k out).
Proof. intros A NA OL T DT. exact (prefix_vargmax_ord OL). Qed.

(* ts_vrank: every input carrier A, every output carrier B, every null dictionary, every series — no law, no premise *)
Theorem C06_prefix_unconditional_ts_vrank :
  forall (A : Type) (NA : Num A) (T : Type) (DT : IsNone T A) (B : Type) (NB : Num B) (body : bool) (w : nat)
         (mp : option nat) (pct rev : bool) (xs : list T) (k : nat),
    1 <= w -> cmp_dom w mp (Nat.min k (length xs)) -> cmp_dom w mp (length xs) ->
    exists out, ts_vrank (B := B) body w mp pct rev xs = Done out /\ length out = length xs /\
                ts_vrank (B := B) body w mp pct rev (firstn k xs) = Done (firstn k out).
Proof. intros A NA T DT B NB. exact prefix_vrank_any. Qed.

Theorem C06_window_only_ordered_ts_vmin :
  forall (A : Type) (NA : Num A), OrdLaws A ->
  forall (T : Type) (DT : IsNone T A) (bx by_ : bool) (w : nat) (mp : option nat) (xs ys : list T) (i j : nat),
    1 <= w -> valid_not_nan xs -> valid_not_nan ys -> cmp_dom w mp (length xs) -> cmp_dom w mp (length ys) ->
    i < length xs -> j < length ys -> win w i xs = win w j ys ->
    exists ox oy o, ts_vmin bx w mp xs = Done ox /\ ts_vmin by_ w mp ys = Done oy /\
                    nth_error ox i = Some o /\ nth_error oy j = Some o.
Proof. intros A NA OL T DT. exact (window_only_vmin_ord OL). Qed.

Theorem C06_window_only_ordered_ts_vmax :
  forall (A : Type) (NA : Num A), OrdLaws A ->
  forall (T : Type) (DT : IsNone T A) (bx by_ : bool) (w : nat) (mp : option nat) (xs ys : list T) (i j : nat),
    1 <= w -> valid_not_nan xs -> valid_not_nan ys -> cmp_dom w mp (length xs) -> cmp_dom w mp (length ys) ->
    i < length xs -> j < length ys -> win w i xs = win w j ys ->
    exists ox oy o, ts_vmax bx w mp xs = Done ox /\ ts_vmax by_ w mp ys = Done oy /\
                    nth_error ox i = Some o /\ nth_error oy j = Some o.
Proof. intros A NA OL T DT. exact (window_only_vmax_ord OL). Qed.

Theorem C06_window_only_ordered_ts_vargmin :
  forall (A : Type) (NA : Num A), OrdLaws A ->
  forall (T : Type) (DT : IsNone T A) (bx by_ : bool) (w : nat) (mp : option nat) (xs ys : list T) (i j : nat),
    1 <= w -> valid_not_nan xs -> valid_not_nan ys -> cmp_dom w mp (length xs) -> cmp_dom w mp (length ys) ->
    i < length xs -> j < length ys -> win w i xs = win w j ys ->
    exists ox oy o, ts_vargmin bx w mp xs = Done ox /\ ts_vargmin by_ w mp ys = Done oy /\
                    nth_error ox i = Some o /\ nth_error oy j = Some o.
Proof. intros A NA OL T DT. exact (window_only_vargmin_ord OL). Qed.

Theorem C06_window_only_ordered_ts_vargmax :
  forall (A : Type) (NA : Num A), OrdLaws A ->
  forall (T : Type) (DT : IsNone T A) (bx by_ : bool) (w : nat) (mp : option nat) (xs ys : list T) (i j : nat),
    1 <= w -> valid_not_nan xs -> valid_not_nan ys -> cmp_dom w mp (length xs) -> cmp_dom w mp (length ys) ->
    i < length xs -> j < length ys -> win w i xs = win w j ys ->
    exists ox oy o, ts_vargmax bx w mp xs = Done ox /\ ts_vargmax by_ w mp ys = Done oy /\
                    nth_error ox i = Some o /\ nth_error oy j = Some o.
Proof. intros A NA OL T DT. exact (window_only_vargmax_ord OL). Qed.

Theorem C06_window_only_any_carrier_ts_vrank :
  forall (A : Type) (NA : Num A) (T : Type) (DT : IsNone T A) (B : Type) (NB : Num B) (bx by_ : bool) (w : nat)
         (mp : option nat) (pct rev : bool) (xs ys : list T) (i j : nat),
    1 <= w -> cmp_dom w mp (length xs) -> cmp_dom w mp (length ys) ->
    i < length xs -> j < length ys -> win w i xs = win w j ys ->
    exists ox oy o, ts_vrank (B := B) bx w mp pct rev xs = Done ox /\ ts_vrank (B := B) by_ w mp pct rev ys = Done oy /\
                    nth_error ox i = Some o /\ nth_error oy j = Some o.
Proof. intros A NA T DT B NB. exact window_only_vrank_any. Qed.

(* the closed form behind it: output i of ts_vrank is `g_rank_any` of window i, for every carrier pair and both bodies *)
Theorem C06_ts_vrank_is_a_function_of_the_window :
  forall (A : Type) (NA : Num A) (T : Type) (DT : IsNone T A) (B : Type) (NB : Num B) (body : bool) (w : nat)
         (mp : option nat) (pct rev : bool) (xs : list T),
    1 <= w -> 1 <= length xs ->
    exists out, ts_vrank (B := B) body w mp pct rev xs = Done out /\ length out = length xs /\
      forall i, i < length xs ->
        nth_error out i = Some (g_rank_any (cmp_mp mp (cmp_window w xs)) pct rev (win w i (map to_opt xs))).
Proof. intros A NA T DT B NB. exact ts_vrank_any. Qed.

(* binary64: f64 series with NaN as the null (no premise on the series) ... *)
Theorem C06_prefix_extrema_binary64 :
  forall (body : bool) (w : nat) (mp : option nat) (xs : list float) (k : nat),
    1 <= w -> cmp_dom w mp (Nat.min k (length xs)) -> cmp_dom w mp (length xs) ->
    (exists out, ts_vmin (DT := IsNoneF64) body w mp xs = Done out /\ length out = length xs /\
                 ts_vmin (DT := IsNoneF64) body w mp (firstn k xs) = Done (firstn k out)) /\
    (exists out, ts_vmax (DT := IsNoneF64) body w mp xs = Done out /\ length out = length xs /\
                 ts_vmax (DT := IsNoneF64) body w mp (firstn k xs) = Done (firstn k out)) /\
    (exists out, ts_vargmin (DT := IsNoneF64) body w mp xs = Done out /\ length out = length xs /\
                 ts_vargmin (DT := IsNoneF64) body w mp (firstn k xs) = Done (firstn k out)) /\
    (exists out, ts_vargmax (DT := IsNoneF64) body w mp xs = Done out /\ length out = length xs /\
                 ts_vargmax (DT := IsNoneF64) body w mp (firstn k xs) = Done (firstn k out)).
Proof. exact prefix_extrema_f64. Qed.

Theorem C06_window_only_extrema_binary64 :
  forall (bx by_ : bool) (w : nat) (mp : option nat) (xs ys : list float) (i j : nat),
    1 <= w -> cmp_dom w mp (length xs) -> cmp_dom w mp (length ys) ->
    i < length xs -> j < length ys -> win w i xs = win w j ys ->
    (exists ox oy o, ts_vmin (DT := IsNoneF64) bx w mp xs = Done ox /\ ts_vmin (DT := IsNoneF64) by_ w mp ys = Done oy /\
                     nth_error ox i = Some o /\ nth_error oy j = Some o) /\
    (exists ox oy o, ts_vmax (DT := IsNoneF64) bx w mp xs = Done ox /\ ts_vmax (DT := IsNoneF64) by_ w mp ys = Done oy /\
                     nth_error ox i = Some o /\ nth_error oy j = Some o) /\
    (exists ox oy o, ts_vargmin (DT := IsNoneF64) bx w mp xs = Done ox /\ ts_vargmin (DT := IsNoneF64) by_ w mp ys = Done oy /\
                     nth_error ox i = Some o /\ nth_error oy j = Some o) /\
    (exists ox oy o, ts_vargmax (DT := IsNoneF64) bx w mp xs = Done ox /\ ts_vargmax (DT := IsNoneF64) by_ w mp ys = Done oy /\
                     nth_error ox i = Some o /\ nth_error oy j = Some o).
Proof. exact window_only_extrema_f64. Qed.

(* ... and Option<f64> series under the premise of DESIGN 5.4 (no Some(NaN); C03_some_nan_is_outside_the_property shows
   that on Some(NaN) elements the model of ts_vargmin does not return) *)
Theorem C06_prefix_extrema_option_binary64 :
  forall (body : bool) (w : nat) (mp : option nat) (xs : list (option float)) (k : nat),
    valid_not_nan (DT := IsNoneOptF64) xs ->
    1 <= w -> cmp_dom w mp (Nat.min k (length xs)) -> cmp_dom w mp (length xs) ->
    (exists out, ts_vmin (DT := IsNoneOptF64) body w mp xs = Done out /\ length out = length xs /\
                 ts_vmin (DT := IsNoneOptF64) body w mp (firstn k xs) = Done (firstn k out)) /\
    (exists out, ts_vmax (DT := IsNoneOptF64) body w mp xs = Done out /\ length out = length xs /\
                 ts_vmax (DT := IsNoneOptF64) body w mp (firstn k xs) = Done (firstn k out)) /\
    (exists out, ts_vargmin (DT := IsNoneOptF64) body w mp xs = Done out /\ length out = length xs /\
                 ts_vargmin (DT := IsNoneOptF64) body w mp (firstn k xs) = Done (firstn k out)) /\
    (exists out, ts_vargmax (DT := IsNoneOptF64) body w mp xs = Done out /\ length out = length xs /\
                 ts_vargmax (DT := IsNoneOptF64) body w mp (firstn k xs) = Done (firstn k out)).
Proof. exact prefix_extrema_optf64. Qed.

Theorem C06_window_only_extrema_option_binary64 :
  forall (bx by_ : bool) (w : nat) (mp : option nat) (xs ys : list (option float)) (i j : nat),
    valid_not_nan (DT := IsNoneOptF64) xs -> valid_not_nan (DT := IsNoneOptF64) ys ->
    1 <= w -> cmp_dom w mp (length xs) -> cmp_dom w mp (length ys) ->
    i < length xs -> j < length ys -> win w i xs = win w j ys ->
    (exists ox oy o, ts_vmin (DT := IsNoneOptF64) bx w mp xs = Done ox /\ ts_vmin (DT := IsNoneOptF64) by_ w mp ys = Done oy /\
                     nth_error ox i = Some o /\ nth_error oy j = Some o) /\
    (exists ox oy o, ts_vmax (DT := IsNoneOptF64) bx w mp xs = Done ox /\ ts_vmax (DT := IsNoneOptF64) by_ w mp ys = Done oy /\
                     nth_error ox i = Some o /\ nth_error oy j = Some o) /\
    (exists ox oy o, ts_vargmin (DT := IsNoneOptF64) bx w mp xs = Done ox /\
                     ts_vargmin (DT := IsNoneOptF64) by_ w mp ys = Done oy /\
                     nth_error ox i = Some o /\ nth_error oy j = Some o) /\
    (exists ox oy o, ts_vargmax (DT := IsNoneOptF64) bx w mp xs = Done ox /\
                     ts_vargmax (DT := IsNoneOptF64) by_ w mp ys = Done oy /\
                     nth_error ox i = Some o /\ nth_error oy j = Some o).
Proof. exact window_only_extrema_optf64. Qed.

(* ts_vrank with binary64 input AND output (the instance the correspondence run executes): both laws, no premise *)
Theorem C06_ts_vrank_binary64_no_lookahead :
  forall (bx by_ : bool) (w : nat) (mp : option nat) (pct rev : bool) (xs ys : list float) (i j k : nat),
    1 <= w ->
    (cmp_dom w mp (Nat.min k (length xs)) -> cmp_dom w mp (length xs) ->
     exists out, ts_vrank (DT := IsNoneF64) (B := float) bx w mp pct rev xs = Done out /\ length out = length xs /\
                 ts_vrank (DT := IsNoneF64) (B := float) bx w mp pct rev (firstn k xs) = Done (firstn k out)) /\
    (cmp_dom w mp (length xs) -> cmp_dom w mp (length ys) ->
     i < length xs -> j < length ys -> win w i xs = win w j ys ->
     exists ox oy o, ts_vrank (DT := IsNoneF64) (B := float) bx w mp pct rev xs = Done ox /\
                     ts_vrank (DT := IsNoneF64) (B := float) by_ w mp pct rev ys = Done oy /\
                     nth_error ox i = Some o /\ nth_error oy j = Some o).
Proof. exact vrank_f64_no_lookahead. Qed.

(* non-vacuity: premises of the ordered theorems on concrete binary64 data (OrdLaws float: C03_order_laws_binary64) *)
Example C06_example_ordered_prefix_binary64 :
  let xs := [1%float; nan; 3%float; 2%float; (-0)%float] in
  1 <= 3 /\ cmp_dom 3 None (Nat.min 4 (length xs)) /\ cmp_dom 3 None (length xs) /\
  valid_not_nan (DT := IsNoneF64) xs /\
  ts_vargmin (DT := IsNoneF64) true 3 None xs = Done [Some 1; Some 1; Some 1; Some 3; Some 3] /\
  ts_vargmin (DT := IsNoneF64) true 3 None (firstn 4 xs) = Done (firstn 4 [Some 1; Some 1; Some 1; Some 3; Some 3]).
Proof.
  intros xs. split; [lia|]. split; [cbn; lia|]. split; [cbn; lia|]. split; [exact (valid_not_nan_f64 xs)|].
  split; vm_compute; reflexivity.
Qed.
Example C06_example_ordered_window_binary64 :
  let xs := [5%float; 1%float; 2%float] in let ys := [nan; 9%float; 1%float; 2%float] in
  1 <= 2 /\ cmp_dom 2 None (length xs) /\ cmp_dom 2 None (length ys) /\ 2 < length xs /\ 3 < length ys /\
  win 2 2 xs = win 2 3 ys /\
  nth_error (out_of (ts_vmax (DT := IsNoneF64) true 2 None xs)) 2 = Some (Some 2%float) /\
  nth_error (out_of (ts_vmax (DT := IsNoneF64) false 2 None ys)) 3 = Some (Some 2%float).
Proof.
  intros xs ys. split; [lia|]. split; [cbn; lia|]. split; [cbn; lia|]. split; [cbn; lia|]. split; [cbn; lia|].
  split; [reflexivity|]. split; vm_compute; reflexivity.
Qed.
Example C06_example_ordered_option_binary64 :
  let xs := [Some 5%float; None; Some 2%float] in let ys := [Some 7%float; Some 1%float; None; Some 2%float] in
  valid_not_nan (DT := IsNoneOptF64) xs /\ valid_not_nan (DT := IsNoneOptF64) ys /\
  cmp_dom 2 (Some 1) (length xs) /\ cmp_dom 2 (Some 1) (length ys) /\ win 2 2 xs = win 2 3 ys.
Proof.
  intros xs ys. split; [|split; [|split; [exact I|split; [exact I|reflexivity]]]].
  - intros v [<-|[<-|[<-|[]]]] H; try discriminate; reflexivity.
  - intros v [<-|[<-|[<-|[<-|[]]]]] H; try discriminate; reflexivity.
Qed.
Example C06_example_vrank_binary64_window :
  let xs := [5%float; 1%float; 2%float; 2%float] in let ys := [nan; 1%float; 2%float; 2%float] in
  1 <= 3 /\ cmp_dom 3 (Some 2) (length xs) /\ cmp_dom 3 (Some 2) (length ys) /\ win 3 3 xs = win 3 3 ys /\
  nth_error (out_of (ts_vrank (DT := IsNoneF64) (B := float) true 3 (Some 2) true false xs)) 3 = Some (0x1.aaaaaaaaaaaabp-1)%float /\
  nth_error (out_of (ts_vrank (DT := IsNoneF64) (B := float) false 3 (Some 2) true false ys)) 3 = Some (0x1.aaaaaaaaaaaabp-1)%float.
Proof.
  intros xs ys. split; [lia|]. split; [exact I|]. split; [exact I|]. split; [reflexivity|]. split; vm_compute; reflexivity.
Qed.

Print Assumptions C06_prefix_ordered_ts_vmin.
Print Assumptions C06_prefix_ordered_ts_vmax.
Print Assumptions C06_prefix_ordered_ts_vargmin.
Print Assumptions C06_prefix_ordered_ts_vargmax.
Print Assumptions C06_prefix_unconditional_ts_vrank.
Print Assumptions C06_window_only_ordered_ts_vmin.
Print Assumptions C06_window_only_ordered_ts_vmax.
Print Assumptions C06_window_only_ordered_ts_vargmin.
Print Assumptions C06_window_only_ordered_ts_vargmax.
Print Assumptions C06_window_only_any_carrier_ts_vrank.
Print Assumptions C06_ts_vrank_is_a_function_of_the_window.
Print Assumptions C06_prefix_extrema_binary64.
Print Assumptions C06_window_only_extrema_binary64.
Print Assumptions C06_prefix_extrema_option_binary64.
Print Assumptions C06_window_only_extrema_option_binary64.
Print Assumptions C06_ts_vrank_binary64_no_lookahead.

(* ==================================================================================================================
   (D) AUDIT (notes/C06.md "Audit matrix"; proofs: Proofs/Audit06.v).
       (D1) the prefix law at the level of the OUTCOME of the call, for EVERY window: `1 <= w` of (1) is dropped;
       (D2) the two-series ENTRY points (with the length assertion of the index body and the silent truncation of the
            iterator body) on series of any lengths: prefix law, window-only law, and the refuted `out_of` form;
       (D3) a roster: the 14 + 8 one-series add-emit-remove entry points by name, every carrier;
       (D4) the fractional differences by name; rejected fill values of vshift / vdiff.
   ================================================================================================================== *)
From Tevec Require Import Model.Fdiff Proofs.Audit01 Proofs.Audit04 Proofs.Audit05 Proofs.Audit06.

(* the law: whenever the call on the whole series returns, the call on ANY prefix returns the prefix of its result — bit for
   bit, and in particular the prefix call does not panic *)
Definition C06_outcome_prefix_law {T O : Type} (f : list T -> outcome O) : Prop :=
  forall (xs : list T) (k : nat) (out : list O), f xs = Done out -> f (firstn k xs) = Done (firstn k out).

(* (D1) every add-emit-remove feature, any element type / state / output / carrier, both bodies, EVERY window (at window 0 the
   whole call returns only on the empty series) *)
Theorem C06_prefix_outcome_every_feature :
  forall (T St O : Type) (F : feat T St O) (body : bool) (w : nat), C06_outcome_prefix_law (ts_run F body w).
Proof. intros T St O F body w xs k out. apply ts_run_prefix_outcome. Qed.

Theorem C06_prefix_every_feature_any_window :
  forall (T St O : Type) (F : feat T St O) (body : bool) (w : nat) (xs : list T) (k : nat),
    ts_out F body w (firstn k xs) = firstn k (ts_out F body w xs).
Proof. exact @ts_out_prefix_any_window. Qed.

(* (D2) two-series entry points, series of ANY lengths, every window: cut both series at k *)
Theorem C06_prefix_two_series_entry :
  forall (T1 T2 St O : Type) (F : feat (T1 * T2) St O) (body : bool) (w : nat) (xs : list T1) (ys : list T2)
         (k : nat) (out : list O),
    ts_run2 F body w xs ys = Done out -> ts_run2 F body w (firstn k xs) (firstn k ys) = Done (firstn k out).
Proof. exact @ts_run2_prefix_outcome. Qed.

(* the `out_of` form (as in (2), over the zipped series) cannot be stated for the entry point: when the index body rejects
   the whole call (second series shorter) a prefix that fits is accepted, so "prefix of the result" would be empty *)
Theorem C06_prefix_two_series_needs_accepted_whole :
  out_of (ts_run2 (ts_vcov_f (A := Z) (D1 := IsNone_option) (D2 := IsNone_option) 1 (Some 0)) true 1
                  (firstn 1 [Some 1%Z; Some 2%Z]) (firstn 1 [Some 3%Z]))
  <> firstn 1 (out_of (ts_run2 (ts_vcov_f (A := Z) (D1 := IsNone_option) (D2 := IsNone_option) 1 (Some 0)) true 1
                               [Some 1%Z; Some 2%Z] [Some 3%Z])).
Proof. exact two_series_prefix_needs_accepted_whole. Qed.

(* window-only for cov / corr / regression-on-x (any emit of the cross sums), exact reals: two PAIRS of series of any lengths
   (accepted by their bodies), each run with either body; equal windows of BOTH series give the same output value *)
Theorem C06_window_only_two_series_entry :
  forall (O : Type) (emit : @csum XR -> O) (bx by_ : bool) (w : nat) (xs ys xs' ys' : list XR) (i j : nat),
    1 <= w -> (bx = false \/ length xs <= length ys) -> (by_ = false \/ length xs' <= length ys') ->
    i < Nat.min (length xs) (length ys) -> j < Nat.min (length xs') (length ys') ->
    win w i xs = win w j xs' -> win w i ys = win w j ys' ->
    exists ox oy o, ts_run2 (csum_feat emit) bx w xs ys = Done ox /\ ts_run2 (csum_feat emit) by_ w xs' ys' = Done oy /\
                    nth_error ox i = Some o /\ nth_error oy j = Some o.
Proof. exact @two_series_window_only_entry. Qed.

(* (D3) roster: the null-aware one-series add-emit-remove entry points by name — every carrier A (binary64 bit for bit), every
   null dictionary (IsNone_never: the 8 plain twins ts_sum .. ts_kurt, ts_ewm, ts_wma), every window and min_periods *)
Theorem C06_prefix_roster_one_series :
  forall (A : Type) (NA : Num A) (T : Type) (DT : IsNone T A) (body : bool) (w : nat) (mp : option nat),
    C06_outcome_prefix_law (ts_run (ts_vsum_f w mp) body w) /\ C06_outcome_prefix_law (ts_run (ts_vmean_f w mp) body w) /\
    C06_outcome_prefix_law (ts_run (ts_vvar_f w mp) body w) /\ C06_outcome_prefix_law (ts_run (ts_vstd_f w mp) body w) /\
    C06_outcome_prefix_law (ts_run (ts_vskew_f w mp) body w) /\ C06_outcome_prefix_law (ts_run (ts_vkurt_f w mp) body w) /\
    C06_outcome_prefix_law (ts_run (ts_vewm_f w mp) body w) /\ C06_outcome_prefix_law (ts_run (ts_vwma_f w mp) body w) /\
    C06_outcome_prefix_law (ts_vzscore body w mp) /\
    C06_outcome_prefix_law (ts_run (ts_vreg_f w mp) body w) /\ C06_outcome_prefix_law (ts_run (ts_vtsf_f w mp) body w) /\
    C06_outcome_prefix_law (ts_run (ts_vreg_slope_f w mp) body w) /\
    C06_outcome_prefix_law (ts_run (ts_vreg_intercept_f w mp) body w) /\
    C06_outcome_prefix_law (ts_run (ts_vreg_resid_mean_f w mp) body w).
Proof.
  intros A NA T DT body w mp. repeat split; intros xs k out; apply ts_run_prefix_outcome.
Qed.

(* (D4) the fractional differences by name (slice-form driver, (3)), every carrier and order d *)
Theorem C06_prefix_fractional_differences :
  forall (A : Type) (NA : Num A) (T : Type) (DT : IsNone T A) (body : bool) (d : A) (w : nat) (cast : T -> A)
         (mp : option nat) (xs : list T) (k : nat),
    1 <= w ->
    out_of (ts_fdiff body d w cast (firstn k xs)) = firstn k (out_of (ts_fdiff body d w cast xs)) /\
    out_of (ts_vfdiff body d w mp (firstn k xs)) = firstn k (out_of (ts_vfdiff body d w mp xs)).
Proof. intros A NA T DT. exact fdiff_prefix. Qed.

(* the hypothesis `or_none d value = Ok v` of (5) is exactly the complement of this rejection: an omitted fill value on an
   element type whose `none()` panics is refused before anything is read — the same panic on the series and on every prefix *)
Theorem C06_vshift_vdiff_rejected_fill :
  forall (X I : Type) (d : NullDict X I) (sub : X -> X -> X) (n : Z) (value : option X) (xs : list X) (k : panic_kind),
    or_none d value = Panic k -> vshift d n value xs = Panic k /\ vdiff d sub n value xs = Panic k.
Proof. intros X I d sub n value xs k H. split; [apply vshift_rejected|apply vdiff_rejected]; exact H. Qed.

(* non-vacuity: (D1) at window 0 and at binary64; (D2) a second series LONGER than the first (index body) and SHORTER
   (iterator body), windows with ties for the arg-extrema (6) *)
Example C06_example_prefix_outcome :
  ts_run (ts_vsum_f (A := Z) (DT := IsNone_option) 0 None) true 0 [] = Done [] /\
  ts_run2 (ts_vcov_f (NA := NumF64) (D1 := IsNoneF64) (D2 := IsNoneF64) 2 (Some 2)) false 2
          [1%float; 2%float; 4%float] [1%float; 3%float] = Done [nan; 1%float] /\
  ts_run2 (ts_vcov_f (NA := NumF64) (D1 := IsNoneF64) (D2 := IsNoneF64) 2 (Some 2)) true 2
          [1%float; 2%float] [1%float; 3%float; 7%float] = Done [nan; 1%float].
Proof. split; [reflexivity|]. split; vm_compute; reflexivity. Qed.
Example C06_example_window_two_series_premises :
  (false = false \/ length [Some 9%R; Some 1%R; Some 2%R] <= length [Some 0%R; Some 4%R]) /\
  1 < Nat.min (length [Some 9%R; Some 1%R; Some 2%R]) (length [Some 0%R; Some 4%R]) /\
  win 1 1 [Some 9%R; Some 1%R; Some 2%R] = win 1 0 [Some 1%R].
Proof. split; [left; reflexivity|]. split; [cbn; lia|reflexivity]. Qed.
Example C06_example_arg_ties :
  nth_error (out_of (ts_vargmin (A := Z) (DT := IsNone_option) true 3 (Some 1) [Some 9; Some 2; Some 5; Some 2]%Z)) 3
  = nth_error (out_of (ts_vargmin (A := Z) (DT := IsNone_option) false 3 (Some 1) [Some 2; Some 5; Some 2]%Z)) 2 /\
  nth_error (out_of (ts_vargmin (A := Z) (DT := IsNone_option) true 3 (Some 1) [Some 9; Some 2; Some 5; Some 2]%Z)) 3
  = Some (Some 3).
Proof. split; vm_compute; reflexivity. Qed.

Print Assumptions C06_prefix_outcome_every_feature.
Print Assumptions C06_prefix_every_feature_any_window.
Print Assumptions C06_prefix_two_series_entry.
Print Assumptions C06_prefix_two_series_needs_accepted_whole.
Print Assumptions C06_window_only_two_series_entry.
Print Assumptions C06_prefix_roster_one_series.
Print Assumptions C06_prefix_fractional_differences.
Print Assumptions C06_vshift_vdiff_rejected_fill.
