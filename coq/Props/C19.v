(* Props/C19.v — property C19 (work in progress) *)
From Tevec Require Import Base.Prelude Model.Driver Model.Create Model.Collect Proofs.Create.

Theorem C19_placeholder : True.
Proof. exact placeholder_true. Qed.
Print Assumptions C19_placeholder.
