(* Props/C19.v — property C19: generators and collectors build exactly the requested sequence.
   Only theorem statements, closed by `exact` / `apply`; non-vacuity Examples; Print Assumptions.
   Model: Model/Create.v (linspace.rs, create.rs — as repaired), Model/Collect.v (own.rs, trusted.rs,
   uninit.rs).  `z_ops true` = i32/i64, `z_ops false` = u64/usize, `q_ops` = the float code read in
   exact rational arithmetic (the binary64 instance lives in Run/RunC19.v and is what the
   correspondence run executes; it is the same polymorphic definition). *)
From Coq Require Import QArith.
From Tevec Require Import Base.Prelude Model.Driver Model.Create Model.Collect
     Proofs.Create Proofs.CreateQ Proofs.Collect.
Local Open Scope Z_scope.

(* ============================================================================ range ======= *)
(* (1) signed integers, every start/end/step (defaults 0 and 1), step <> 0, every backend:
       the result is the progression a, a+st, ..., and k is in it  <->  a + st*k lies strictly
       before the end in the direction of the step.  The count (one computation in the code) and
       the elements (another) are tied together by the <->: none missing, none beyond. *)
Theorem C19_range_int :
  forall (trusted : bool) (start : option Z) (e : Z) (step : option Z),
    let a := dflt 0 start in
    let st := dflt 1 step in
    st <> 0 ->
    exists n : nat,
      create_range (z_ops true) trusted start e step = Done (progression a st n) /\
      forall k : nat, (k < n)%nat <-> before st (a + st * Z.of_nat k) e.
Proof. exact create_range_Z_signed. Qed.

(* the same as a statement about membership *)
Theorem C19_range_int_members :
  forall (trusted : bool) (start : option Z) (e : Z) (step : option Z),
    let a := dflt 0 start in
    let st := dflt 1 step in
    st <> 0 ->
    exists out, create_range (z_ops true) trusted start e step = Done out /\
      forall x, In x out <-> exists k : nat, x = a + st * Z.of_nat k /\ before st x e.
Proof. exact create_range_Z_members. Qed.

(* empty span (the start itself is not before the end) -> [] — no panic, no element *)
Theorem C19_range_int_empty_span :
  forall (trusted : bool) (start : option Z) (e : Z) (step : option Z),
    let a := dflt 0 start in
    let st := dflt 1 step in
    st <> 0 -> ~ before st a e ->
    create_range (z_ops true) trusted start e step = Done [].
Proof. exact create_range_Z_empty. Qed.

(* (2) unsigned integers: arguments >= 0, step > 0; in particular no unsigned subtraction underflows *)
Theorem C19_range_unsigned :
  forall (trusted : bool) (start : option Z) (e : Z) (step : option Z),
    let a := dflt 0 start in
    let st := dflt 1 step in
    0 <= a -> 0 <= e -> 0 < st ->
    exists n : nat,
      create_range (z_ops false) trusted start e step = Done (progression a st n) /\
      forall k : nat, (k < n)%nat <-> a + st * Z.of_nat k < e.
Proof. exact create_range_Z_unsigned. Qed.

(* (3) the float code in exact arithmetic (Q): same statement *)
Theorem C19_range_exact_rational :
  forall (trusted : bool) (start : option Q) (e : Q) (step : option Q),
    let a := dfltQ 0%Q start in
    let st := dfltQ 1%Q step in
    ~ (st == 0)%Q ->
    exists n : nat,
      create_range q_ops trusted start e step = Done (map (elemQ a st) (seq 0 n)) /\
      forall k : nat, (k < n)%nat <-> beforeQ st (elemQ a st k) e.
Proof. exact create_range_Q. Qed.

(* ========================================================================= linspace ======= *)
(* (4) integers: n elements a + k*step with the truncated step the code computes; first = a;
       constant step; last = end when n-1 divides the span *)
Theorem C19_linspace_int :
  forall (trusted : bool) (start : option Z) (e : Z) (n : nat),
    create_linspace (z_ops true) trusted start e n
    = Done (progression (dflt 0 start) (lin_step (dflt 0 start) e n) n).
Proof. exact create_linspace_Z_signed. Qed.

Theorem C19_linspace_unsigned :
  forall (trusted : bool) (start : option Z) (e : Z) (n : nat),
    dflt 0 start <= e ->
    create_linspace (z_ops false) trusted start e n
    = Done (progression (dflt 0 start) (lin_step (dflt 0 start) e n) n).
Proof. exact create_linspace_Z_unsigned. Qed.

Theorem C19_linspace_int_shape :
  forall (a b : Z) (n : nat),
    let out := progression a (lin_step a b n) n in
    length out = n /\
    ((1 <= n)%nat -> nth_error out 0 = Some a) /\
    (forall k x y, nth_error out k = Some x -> nth_error out (S k) = Some y -> y - x = lin_step a b n) /\
    ((2 <= n)%nat -> (Z.of_nat (n - 1) | b - a) -> nth_error out (n - 1) = Some b).
Proof. exact linspace_Z_shape. Qed.

(* (5) floats in exact arithmetic: n elements, first == a, constant step, last == end for n >= 2 *)
Theorem C19_linspace_exact_rational :
  forall (trusted : bool) (start : option Q) (e : Q) (n : nat),
    create_linspace q_ops trusted start e n
    = Done (map (elemQ (dfltQ 0%Q start) (lin_stepQ (dfltQ 0%Q start) e n)) (seq 0 n)).
Proof. exact create_linspace_Q. Qed.

Theorem C19_linspace_exact_rational_shape :
  forall (a b : Q) (n : nat),
    (elemQ a (lin_stepQ a b n) 0 == a)%Q /\
    (forall k, elemQ a (lin_stepQ a b n) (S k) - elemQ a (lin_stepQ a b n) k == lin_stepQ a b n)%Q /\
    ((2 <= n)%nat -> (elemQ a (lin_stepQ a b n) (n - 1) == b)%Q).
Proof. exact linspace_Q_shape. Qed.

(* (6) the Linspace iterator is a double-ended queue over its remaining elements, for every
       Number dictionary: any interleaving of next / next_back pops the front / the back of
       `ls_to_list`, and size_hint is exactly the number of elements left (never underflows) *)
Theorem C19_linspace_iterator_double_ended :
  forall (A : Type) (N : num_ops A) (sc : list bool) (s : linspace A),
    (ls_index s <= ls_len s)%nat ->
    ls_script N sc s = map (fun p => (fst p, Ok (snd p))) (deque_script sc (ls_to_list N s)).
Proof. exact (@ls_script_spec). Qed.

(* `for v in iter` over a Linspace ends, exhausted, having yielded exactly its elements *)
Theorem C19_linspace_iterator_drain :
  forall (A : Type) (N : num_ops A) (fuel : nat) (s : linspace A),
    (ls_len s - ls_index s <= fuel)%nat ->
    fst (ls_drain N fuel s) = ls_to_list N s /\ fst (ls_next N (snd (ls_drain N fuel s))) = None.
Proof. exact (@ls_drain_spec). Qed.

(* ======================================================================= collectors ======= *)
(* (7) full n v = repeat v n, on every backend *)
Theorem C19_full :
  forall (A : Type) (b : backend) (n : nat) (v : A), full b n v = Done (repeat v n).
Proof. exact (@full_repeat). Qed.

(* (8) trusted / explicit-length collection is the identity on the item sequence when the announced
       length is the real one; the raw collector writes slots 0..len-1 once each, in order *)
Theorem C19_collect_trusted_identity :
  forall (A : Type) (b : backend) (items : list A),
    collect_from_trusted b (exact_iter items) = Done items.
Proof. exact (@collect_from_trusted_exact). Qed.

Theorem C19_collect_with_len_identity :
  forall (A : Type) (b : backend) (items : list A),
    collect_with_len b items (length items) = Done items.
Proof. exact (@collect_with_len_exact). Qed.

(* whatever is announced: a collection that completes has neither reordered, dropped nor
   invented an item (a wrong announcement can only surface as an exposed uninitialised tail or a
   write past the allocation, never as a wrong `Done`) *)
Theorem C19_collect_never_alters :
  forall (A : Type) (b : backend) (it : titer A) (out : list A),
    collect_from_trusted b it = Done out -> out = ti_items it.
Proof. exact (@collect_from_trusted_done). Qed.

Theorem C19_collect_short_announcement_exposed :
  forall (A : Type) (hint : nat) (items : list A),
    (length items < hint)%nat ->
    collect_trusted hint items = Uninit (map Some items ++ repeat None (hint - length items)).
Proof. exact (@collect_trusted_long_hint). Qed.

(* (9) optional -> null-encoded: position by position None becomes the null value, Some v stays v,
       and (canonical nulls, DESIGN 5.4) the output is null exactly where the input was None *)
Theorem C19_collect_opt_null_encoded :
  forall (A : Type) (none : A) (is_none : A -> bool) (items : list (option A)),
    is_none none = true ->
    (forall v, In (Some v) items -> is_none v = false) ->
    exists out, collect_from_opt_iter none items = Done out /\ length out = length items /\
      forall i o, nth_error items i = Some o ->
        exists x, nth_error out i = Some x /\
          (o = None -> x = none) /\ (forall v, o = Some v -> x = v) /\
          (is_none x = true <-> o = None).
Proof. exact (@collect_opt_nth). Qed.

(* (10) fallible collection: Ok of all the items when none fails, else the FIRST error; every item
        sequence falls in one of the two cases.  Plain, trusted, raw and default bodies alike. *)
Theorem C19_try_collect_all_ok :
  forall (A E : Type) (hint : nat) (xs : list A),
    try_collect_from_iter (TI hint (map (@inl A E) xs)) = TOk (Done xs).
Proof. exact (@try_collect_ok). Qed.

Theorem C19_try_collect_first_error :
  forall (A E : Type) (hint : nat) (xs : list A) (e : E) (rest : list (A + E)),
    try_collect_from_iter (TI hint (map (@inl A E) xs ++ inr e :: rest)) = TErr e.
Proof. exact (@try_collect_err). Qed.

Theorem C19_try_collect_trusted_all_ok :
  forall (A E : Type) (b : backend) (xs : list A),
    try_collect_from_trusted b (exact_iter (map (@inl A E) xs)) = TOk (Done xs).
Proof. exact (@try_collect_trusted_ok). Qed.

Theorem C19_try_collect_trusted_first_error :
  forall (A E : Type) (b : backend) (xs : list A) (e : E) (rest : list (A + E)),
    try_collect_from_trusted b (exact_iter (map (@inl A E) xs ++ inr e :: rest)) = TErr e.
Proof. exact (@try_collect_trusted_err). Qed.

Theorem C19_try_collect_cases_exhaustive :
  forall (A E : Type) (items : list (A + E)),
    (exists xs, items = map (@inl A E) xs)
    \/ (exists xs e rest, items = map (@inl A E) xs ++ inr e :: rest).
Proof. exact (@items_shape). Qed.

(* ================================================================== write_trust_iter ======= *)
(* (11) under the TrustedLen contract (announced = actual length), for every previous buffer
        content `old`:
        - equal length: Ok, slots 0..len-1 written once each in order, buffer = the items;
        - singleton: Ok, every slot written once, buffer = len copies;
        - len = 0: Ok and nothing written, whatever the iterator;
        - otherwise: Err and not one slot written (the buffer is exactly what it was). *)
Theorem C19_write_trust_iter :
  forall (A : Type) (old : list (option A)) (items : list A),
    let len := length old in
    let r := write_trust_iter len (exact_iter items) in
    (len = length items ->
       fst r = WOk /\ map fst (snd r) = seq 0 len /\ apply_writes (snd r) old = map Some items) /\
    (forall v, items = [v] -> len <> 0%nat ->
       fst r = WOk /\ map fst (snd r) = seq 0 len /\ apply_writes (snd r) old = repeat (Some v) len) /\
    (len = 0%nat -> r = (WOk, [])) /\
    (len <> 0%nat -> len <> length items -> length items <> 1%nat ->
       r = (WErr, []) /\ apply_writes (snd r) old = old).
Proof. exact (@write_trust_iter_spec). Qed.

(* the outcome is decided by the three lengths alone, and is never a panic *)
Theorem C19_write_trust_iter_status :
  forall (A : Type) (len : nat) (items : list A),
    fst (write_trust_iter len (exact_iter items))
    = if ((len =? 0) || ((len =? length items) || (length items =? 1)))%nat%bool then WOk else WErr.
Proof. exact (@write_trust_iter_status). Qed.

(* even when the announced length is wrong: the slots written are a prefix 0..k-1, each once, never
   out of bounds; Err means nothing was written; Ok means everything was *)
Theorem C19_write_trust_iter_no_partial_state :
  forall (A : Type) (len : nat) (it : titer A),
    exists k, (k <= len)%nat /\ map fst (snd (write_trust_iter len it)) = seq 0 k
    /\ (fst (write_trust_iter len it) = WErr -> k = 0%nat)
    /\ (fst (write_trust_iter len it) = WOk -> k = len).
Proof. exact (@write_trust_iter_slots). Qed.

(* ============================================================ Vec1Mut / sort_unstable_by ======= *)
(* (12) apply_mut_with: equal lengths -> f is applied once per position, in order, to (self[i],
        other[i]); different lengths -> Err, no call made, self unchanged *)
Theorem C19_apply_mut_with :
  forall (T OT : Type) (f : T -> OT -> T) (xs : list T) (ys : list OT),
    (length xs = length ys ->
       exists out, apply_mut_with f xs ys = (true, out, combine xs ys) /\ length out = length xs /\
         forall i x y, nth_error xs i = Some x -> nth_error ys i = Some y -> nth_error out i = Some (f x y))
    /\ (length xs <> length ys -> apply_mut_with f xs ys = (false, xs, [])).
Proof. exact (@apply_mut_with_spec). Qed.

Theorem C19_get_mut :
  forall (T : Type) (xs : list T) (i : nat),
    ((i < length xs)%nat -> exists x, get_mut xs i = Some x /\ nth_error xs i = Some x)
    /\ ((length xs <= i)%nat -> get_mut xs i = None).
Proof. exact (@get_mut_spec). Qed.

(* (13) sort_unstable_by with a total comparison: Ok, and the vector afterwards is a sorted
        permutation of what it was (also on the copy-out / write-back path) *)
Theorem C19_sort_unstable_by :
  forall (T : Type) (leb : T -> T -> bool),
    (forall x y, leb x y = false -> leb y x = true) ->
    forall xs : list T,
      sort_unstable_by leb xs = (true, isort leb xs)
      /\ Sorted.Sorted (fun x y => leb x y = true) (isort leb xs)
      /\ Permutation.Permutation (isort leb xs) xs.
Proof. exact (@sort_unstable_by_spec). Qed.

Example C19_mut_examples :
  apply_mut_with (fun v o => 10 * v + o) [1; 2; 3] [7; 8; 9] = (true, [17; 28; 39], [(1, 7); (2, 8); (3, 9)])
  /\ apply_mut_with (fun v o => 10 * v + o) [1; 2; 3] [7; 8] = (false, [1; 2; 3], [])
  /\ sort_unstable_by Z.leb [3; 1; 2; 1] = (true, [1; 1; 2; 3])
  /\ (forall x y, Z.leb x y = false -> Z.leb y x = true).
Proof. split; [|split; [|split]]; try (vm_compute; reflexivity). intros x y H. apply Z.leb_le. apply Z.leb_gt in H. lia. Qed.

(* ======================================================================= non-vacuity ======= *)
(* non-divisible spans in both directions, an empty span, defaults *)
Example C19_range_examples :
  create_range (z_ops true) true (Some 0) 5 (Some 2) = Done [0; 2; 4]
  /\ create_range (z_ops true) true (Some 5) 0 (Some (-2)) = Done [5; 3; 1]
  /\ create_range (z_ops true) false (Some 3) 0 (Some 1) = Done []
  /\ create_range (z_ops true) true None 3 None = Done [0; 1; 2]
  /\ create_range (z_ops false) true (Some 5) 2 None = Done []
  /\ create_range (z_ops false) true (Some 1) 6 (Some 2) = Done [1; 3; 5].
Proof. vm_compute. repeat split. Qed.

Example C19_range_premises_satisfiable :
  dflt 1 (Some 2) <> 0 /\ before 2 (0 + 2 * Z.of_nat 2) 5 /\ ~ before 2 (0 + 2 * Z.of_nat 3) 5
  /\ ~ before 1 3 0.
Proof. vm_compute. repeat split; intros H; discriminate. Qed.

Example C19_range_rational_example :
  exists out, create_range q_ops true (Some (1#1)%Q) (2#1)%Q (Some (3#10)%Q) = Done out
              /\ length out = 4%nat.
Proof. eexists. split; [vm_compute; reflexivity|reflexivity]. Qed.

Example C19_linspace_examples :
  create_linspace (z_ops true) true (Some 1) 4 3 = Done [1; 2; 3]
  /\ create_linspace (z_ops true) true (Some 1) 7 3 = Done [1; 4; 7]
  /\ create_linspace (z_ops true) true None 0 2 = Done [0; 0]
  /\ create_linspace (z_ops true) true (Some 9) 1 1 = Done [9]
  /\ create_linspace (z_ops true) true (Some 9) 1 0 = Done []
  /\ (Z.of_nat (3 - 1) | 7 - 1).
Proof. vm_compute. repeat split. exists 3. reflexivity. Qed.

Example C19_linspace_iterator_example :
  ls_script (z_ops true) [true; false; false; true; true] (LS 10 3 0 4)
  = [(Some 10, Ok 3%nat); (Some 19, Ok 2%nat); (Some 16, Ok 1%nat); (Some 13, Ok 0%nat); (None, Ok 0%nat)].
Proof. vm_compute. reflexivity. Qed.

Example C19_collect_examples :
  collect_with_len BRaw [7; 8; 9] 3 = Done [7; 8; 9]
  /\ collect_with_len BRaw [7; 8] 3 = Uninit [Some 7; Some 8; None]
  /\ collect_from_opt_iter (-1) [Some 4; None; Some 6] = Done [4; -1; 6]
  /\ try_collect_from_trusted BRaw (exact_iter [inl 1; inr 50; inl 2; inr 60]) = @TErr Z Z 50
  /\ try_collect_from_trusted BRaw (exact_iter [inl 1; inl 2]) = @TOk Z Z (Done [1; 2]).
Proof. vm_compute. repeat split. Qed.

Example C19_write_examples :
  write_trust_iter 3 (exact_iter [7; 8; 9]) = (WOk, [(0%nat, 7); (1%nat, 8); (2%nat, 9)])
  /\ write_trust_iter 3 (exact_iter [7]) = (WOk, [(0%nat, 7); (1%nat, 7); (2%nat, 7)])
  /\ write_trust_iter 3 (exact_iter [7; 8]) = (WErr, [])
  /\ write_trust_iter 0 (exact_iter [7; 8]) = (WOk, [])
  /\ write_trust_iter 3 (to_trust [7; 8] 3) = (WPanic UnwrapNone, [(0%nat, 7); (1%nat, 8)]).
Proof. vm_compute. repeat split. Qed.

(* the unrepaired range (kept in the model as range_old) does not satisfy (1): witnesses *)
Example C19_range_refuted_before_fix :
  create_range_old (z_ops true) (Some 0) 5 (Some 2) = Done [0; 2]
  /\ create_range_old (z_ops true) (Some 5) 0 (Some (-2)) = Done [5; 3]
  /\ create_range_old (z_ops true) (Some 3) 0 (Some 1) = Panicked Overflow.
Proof. exact range_old_loses_last. Qed.

Print Assumptions C19_range_int.
Print Assumptions C19_range_int_members.
Print Assumptions C19_range_int_empty_span.
Print Assumptions C19_range_unsigned.
Print Assumptions C19_range_exact_rational.
Print Assumptions C19_linspace_int.
Print Assumptions C19_linspace_unsigned.
Print Assumptions C19_linspace_int_shape.
Print Assumptions C19_linspace_exact_rational.
Print Assumptions C19_linspace_exact_rational_shape.
Print Assumptions C19_linspace_iterator_double_ended.
Print Assumptions C19_linspace_iterator_drain.
Print Assumptions C19_full.
Print Assumptions C19_collect_trusted_identity.
Print Assumptions C19_collect_with_len_identity.
Print Assumptions C19_collect_never_alters.
Print Assumptions C19_collect_short_announcement_exposed.
Print Assumptions C19_collect_opt_null_encoded.
Print Assumptions C19_try_collect_all_ok.
Print Assumptions C19_try_collect_first_error.
Print Assumptions C19_try_collect_trusted_all_ok.
Print Assumptions C19_try_collect_trusted_first_error.
Print Assumptions C19_try_collect_cases_exhaustive.
Print Assumptions C19_write_trust_iter.
Print Assumptions C19_write_trust_iter_status.
Print Assumptions C19_write_trust_iter_no_partial_state.
Print Assumptions C19_apply_mut_with.
Print Assumptions C19_get_mut.
Print Assumptions C19_sort_unstable_by.

(* ==== audit extension (Proofs/Audit19.v): announcements that are WRONG in either direction, `empty`,
   every Number dictionary (binary64 included).  notes/C19.md has the clause-by-clause matrix. ======== *)
From Coq Require Import Floats.
From Tevec Require Import Proofs.Audit19.
From Tevec Require Run.RunC19.

(* (14) plain collection ignores the size hint altogether: item-dropping sources (filter, take_while:
        upper bound too large), under-reporting sources — the items, in order, for every hint *)
Theorem C19_collect_plain_any_hint :
  forall (A : Type) (hint : nat) (items : list A), collect_from_iter (TI hint items) = Done items.
Proof. exact (@collect_from_iter_any_hint). Qed.

Theorem C19_empty : forall A : Type, @empty A = Done [].
Proof. exact (@empty_spec). Qed.

(* optional -> null-encoded as one equation (length 0 included; the source's hint is never read) *)
Theorem C19_collect_opt_closed_form :
  forall (A : Type) (none : A) (items : list (option A)),
    collect_from_opt_iter none items = Done (map (fun o => match o with Some v => v | None => none end) items).
Proof. exact (@collect_from_opt_iter_map). Qed.

(* (15) trusted collection against ANY announcement: the default body ignores it; the raw body is the
        identity iff the announcement is exact, exposes hint - n unwritten slots when it is too long and
        writes past the allocation (model: Panicked OtherPanic; undefined behaviour) when too short *)
Theorem C19_collect_trusted_any_announcement :
  forall (A : Type) (hint : nat) (items : list A),
    collect_from_trusted BDefault (TI hint items) = Done items /\
    (hint = length items -> collect_from_trusted BRaw (TI hint items) = Done items) /\
    ((length items < hint)%nat ->
       collect_from_trusted BRaw (TI hint items)
       = Uninit (map Some items ++ repeat None (hint - length items))) /\
    ((hint < length items)%nat -> collect_from_trusted BRaw (TI hint items) = Panicked OtherPanic).
Proof. intros A hint items. split; [reflexivity|apply collect_trusted_trichotomy]. Qed.

Theorem C19_collect_trusted_done_iff :
  forall (A : Type) (b : backend) (hint : nat) (items : list A),
    collect_from_trusted b (TI hint items) = Done items <-> (b = BDefault \/ hint = length items).
Proof. exact (@collect_trusted_done_iff). Qed.

Theorem C19_collect_with_len_any_announcement :
  forall (A : Type) (b : backend) (items : list A) (len : nat),
    collect_with_len b items len
    = match b with
      | BDefault => Done items
      | BRaw => if (len <? length items)%nat then Panicked OtherPanic
                else if (length items <? len)%nat
                     then Uninit (map Some items ++ repeat None (len - length items))
                     else Done items
      end.
Proof. exact (@collect_with_len_any). Qed.

(* (16) fallible trusted collection against ANY announcement, raw body: with no error among the items
        the three cases of (15); with a first error e after the Ok items xs: Err e for every announcement
        that is not shorter than xs (too long included: nothing is exposed, the vector is abandoned) —
        a shorter one overran the allocation before the error was reached *)
Theorem C19_try_collect_trusted_any_announcement :
  forall (A E : Type) (hint : nat) (xs : list A) (e : E) (rest : list (A + E)),
    try_collect_from_trusted BDefault (TI hint (map (@inl A E) xs)) = TOk (Done xs) /\
    try_collect_from_trusted BDefault (TI hint (map (@inl A E) xs ++ inr e :: rest)) = TErr e /\
    try_collect_from_trusted BRaw (TI hint (map (@inl A E) xs))
    = (if (hint <? length xs)%nat then TOk (Panicked OtherPanic)
       else if (length xs <? hint)%nat then TOk (Uninit (map Some xs ++ repeat None (hint - length xs)))
            else TOk (Done xs)) /\
    try_collect_from_trusted BRaw (TI hint (map (@inl A E) xs ++ inr e :: rest))
    = (if (hint <? length xs)%nat then TOk (Panicked OtherPanic) else TErr e).
Proof.
  intros A E hint xs e rest. split; [apply try_collect_ok|]. split; [apply try_collect_err|].
  split; [apply try_collect_trusted_raw_all_ok|apply try_collect_trusted_raw_err].
Qed.

(* the source is pulled up to and including the first error, and no further *)
Theorem C19_try_collect_pulls_stop_at_first_error :
  forall (A E : Type) (xs : list A) (e : E) (rest : list (A + E)),
    pulled (map (@inl A E) xs) = length xs /\
    pulled (map (@inl A E) xs ++ inr e :: rest) = S (length xs).
Proof. exact (@pulled_shape). Qed.

(* (17) write_trust_iter against ANY announcement and ANY previous buffer content:
        empty buffer: Ok, nothing read or written;  announced = buffer length <= actual: Ok, the first
        len items at slots 0..len-1 (surplus items are not pulled);  announced = buffer length > actual:
        the `unwrap` panics after the available items were written to a prefix — a panic, not an Err;
        announced = 1 <> buffer length: broadcast of the first item (panic when there is none);
        otherwise Err with the buffer untouched *)
Theorem C19_write_trust_iter_any_announcement :
  forall (A : Type) (old : list (option A)) (hint : nat) (items : list A),
    let len := length old in
    let r := write_trust_iter len (TI hint items) in
    (len = 0%nat -> r = (WOk, [])) /\
    (len <> 0%nat -> len = hint -> (len <= length items)%nat ->
       r = (WOk, combine (seq 0 len) (firstn len items))
       /\ apply_writes (snd r) old = map Some (firstn len items)) /\
    (len <> 0%nat -> len = hint -> (length items < len)%nat ->
       r = (WPanic UnwrapNone, combine (seq 0 (length items)) items)
       /\ apply_writes (snd r) old = map Some items ++ skipn (length items) old) /\
    (len <> 0%nat -> len <> hint -> hint = 1%nat ->
       match items with
       | [] => r = (WPanic UnwrapNone, [])
       | v :: _ => r = (WOk, map (fun i => (i, v)) (seq 0 len))
                   /\ apply_writes (snd r) old = repeat (Some v) len
       end) /\
    (len <> 0%nat -> len <> hint -> hint <> 1%nat -> r = (WErr, []) /\ apply_writes (snd r) old = old).
Proof. exact (@write_trust_iter_any). Qed.

(* "reports a length mismatch without partial undefined state", whatever the iterator announces *)
Theorem C19_write_trust_iter_err_untouched :
  forall (A : Type) (old : list (option A)) (it : titer A),
    fst (write_trust_iter (length old) it) = WErr ->
    snd (write_trust_iter (length old) it) = [] /\
    apply_writes (snd (write_trust_iter (length old) it)) old = old.
Proof. exact (@write_trust_iter_err_untouched). Qed.

(* (18) generators for EVERY Number dictionary (integer, rational, binary64 ... — no law of the
        arithmetic is used): linspace = exactly n elements, element k = start + step * k in the
        dictionary's arithmetic, or the panic of the step computation; range likewise with the count the
        code computed; the empty-span rule *)
Theorem C19_linspace_any_number_type :
  forall (A : Type) (N : num_ops A) (trusted : bool) (start : option A) (e : A) (n : nat),
    match linspace_new N (dflt_zero N start) e n with
    | Ok s => create_linspace N trusted start e n
              = Done (map (elem_at N (dflt_zero N start) (ls_step s)) (seq 0 n))
    | Panic k => create_linspace N trusted start e n = Panicked k
    end.
Proof. exact (@create_linspace_any). Qed.

Theorem C19_range_any_number_type :
  forall (A : Type) (N : num_ops A) (trusted : bool) (start : option A) (e : A) (step : option A),
    match range_new N (dflt_zero N start) e (dflt_one N step) with
    | Ok s => create_range N trusted start e step
              = Done (map (elem_at N (dflt_zero N start) (dflt_one N step)) (seq 0 (ls_len s)))
    | Panic k => create_range N trusted start e step = Panicked k
    end.
Proof. exact (@create_range_any). Qed.

Theorem C19_range_empty_span_any_number_type :
  forall (A : Type) (N : num_ops A) (trusted : bool) (start : option A) (e : A) (step : option A),
    (if gtb N (dflt_one N step) (n_zero N)
     then n_leb N e (dflt_zero N start) else geb N e (dflt_zero N start)) = true ->
    create_range N trusted start e step = Done [].
Proof. exact (@create_range_empty_any). Qed.

Theorem C19_progression_shape_any_number_type :
  forall (A : Type) (N : num_ops A) (a st : A) (n : nat),
    length (map (elem_at N a st) (seq 0 n)) = n /\
    forall k, (k < n)%nat -> nth_error (map (elem_at N a st) (seq 0 n)) k = Some (elem_at N a st k).
Proof. intros A N a st n. split; [apply map_elem_length|intros k; apply map_elem_nth]. Qed.

(* (19) AT BINARY64 (the dictionary Run/RunC19.v executes and the run compares with Rust, bit for bit):
        linspace never panics and has exactly n elements fl(start + fl(step * fl(k))), step = fl(fl(end - start) / fl(n-1));
        range is a capacity-overflow panic of the count cast or `count` elements fl(start + fl(step * fl(k))) *)
Theorem C19_linspace_binary64 :
  forall (trusted : bool) (start : option float) (e : float) (n : nat),
    let a := match start with Some v => v | None => PrimFloat.zero end in
    create_linspace Run.RunC19.f_ops trusted start e n = Done (map (f_elem a (f_lin_step a e n)) (seq 0 n)).
Proof. exact create_linspace_f64. Qed.

Theorem C19_range_binary64_shape :
  forall (trusted : bool) (start : option float) (e : float) (step : option float),
    let a := match start with Some v => v | None => PrimFloat.zero end in
    let st := match step with Some v => v | None => PrimFloat.one end in
    create_range Run.RunC19.f_ops trusted start e step = Panicked Overflow
    \/ exists count : nat,
         create_range Run.RunC19.f_ops trusted start e step = Done (map (f_elem a st) (seq 0 count)).
Proof. exact create_range_f64. Qed.

(* ---- non-vacuity of the new implications ---- *)
Example C19_any_announcement_examples :
  collect_from_trusted BRaw (TI 2 [7; 8; 9]) = Panicked OtherPanic
  /\ collect_from_trusted BRaw (TI 4 [7; 8; 9]) = Uninit [Some 7; Some 8; Some 9; None]
  /\ collect_from_iter (TI 0 [7; 8; 9]) = Done [7; 8; 9]
  /\ try_collect_from_trusted BRaw (TI 5 [inl 1; inr 50; inl 2]) = @TErr Z Z 50
  /\ try_collect_from_trusted BRaw (TI 0 [inl 1; inr 50; inl 2]) = @TOk Z Z (Panicked OtherPanic)
  /\ write_trust_iter 2 (TI 2 [7; 8; 9]) = (WOk, [(0%nat, 7); (1%nat, 8)])
  /\ write_trust_iter 3 (TI 1 [7; 8; 9]) = (WOk, [(0%nat, 7); (1%nat, 7); (2%nat, 7)])
  /\ write_trust_iter 3 (TI 1 (@nil Z)) = (WPanic UnwrapNone, [])
  /\ write_trust_iter 3 (TI 2 [7; 8; 9]) = (WErr, []).
Proof. vm_compute. repeat split. Qed.

Example C19_binary64_examples :
  create_linspace Run.RunC19.f_ops true (Some 1%float) 2%float 5
  = Done [1%float; 1.25%float; 1.5%float; 1.75%float; 2%float]
  /\ create_range Run.RunC19.f_ops true (Some 0.5%float) (-0.25)%float (Some (-0.25)%float)
     = Done [0.5%float; 0.25%float; 0%float]
  /\ create_range Run.RunC19.f_ops true (Some 0%float) infinity (Some 1%float) = Panicked Overflow
  /\ (if gtb Run.RunC19.f_ops 1%float 0%float then n_leb Run.RunC19.f_ops 0%float 3%float
      else geb Run.RunC19.f_ops 0%float 3%float) = true.
Proof. vm_compute. repeat split. Qed.

Print Assumptions C19_collect_plain_any_hint.
Print Assumptions C19_empty.
Print Assumptions C19_collect_opt_closed_form.
Print Assumptions C19_collect_trusted_any_announcement.
Print Assumptions C19_collect_trusted_done_iff.
Print Assumptions C19_collect_with_len_any_announcement.
Print Assumptions C19_try_collect_trusted_any_announcement.
Print Assumptions C19_try_collect_pulls_stop_at_first_error.
Print Assumptions C19_write_trust_iter_any_announcement.
Print Assumptions C19_write_trust_iter_err_untouched.
Print Assumptions C19_linspace_any_number_type.
Print Assumptions C19_range_any_number_type.
Print Assumptions C19_range_empty_span_any_number_type.
Print Assumptions C19_progression_shape_any_number_type.
Print Assumptions C19_linspace_binary64.
Print Assumptions C19_range_binary64_shape.

(* ==== UninitVec::set, the CHECKED single-slot write (uninit.rs:32-40; Model/Collect.v `uninit_set`, Proofs/LooseEnds.v).
   The interpreters `run_uninit_set` / `run_uninit_set_buf` of Run/RunC19.v run this definition. ======================== *)
From Coq Require Import Permutation.
From Tevec Require Import Proofs.LooseEnds.
Local Open Scope nat_scope.

(* (20) for every buffer (whatever was written before), index and value: `idx < len` -> Ok, ONE uset call, at idx, the
        slot idx replaced and every other slot and the length unchanged; otherwise Err, NO uset call, buffer unchanged.
        Ok <-> idx < len; the only other status is Err (never a panic); no uset call ever names a slot outside 0..len.
        The buffer model drops an out-of-range store silently (`set_nth`), so the bound is stated on the CALLS. *)
Theorem C19_uninit_set_total :
  forall (A : Type) (buf : list (option A)) (idx : nat) (v : A),
    let len := length buf in
    (idx < len ->
       uninit_set len idx v = (WOk, [(idx, v)])
       /\ fst (uninit_set_buf buf idx v) = WOk
       /\ length (snd (uninit_set_buf buf idx v)) = len
       /\ forall j, nth_error (snd (uninit_set_buf buf idx v)) j
                    = if j =? idx then Some (Some v) else nth_error buf j)
    /\ (len <= idx ->
          uninit_set len idx v = (WErr, []) /\ uninit_set_buf buf idx v = (WErr, buf))
    /\ (fst (uninit_set len idx v) = WOk <-> idx < len)
    /\ (fst (uninit_set len idx v) <> WOk -> fst (uninit_set len idx v) = WErr)
    /\ (forall w, In w (snd (uninit_set len idx v)) -> w = (idx, v) /\ fst w < len).
Proof. exact (@uninit_set_total). Qed.

(* (21) any sequence of `set` calls on one buffer, in closed form: call k is Ok iff ITS index is in range (no call
        influences the status of another), and the buffer afterwards is the buffer after exactly the accepted uset calls,
        in call order; the length never changes *)
Theorem C19_uninit_set_sequence :
  forall (A : Type) (buf : list (option A)) (calls : list (nat * A)),
    uninit_set_seq buf calls
    = (map (fun c => if fst c <? length buf then WOk else WErr) calls,
       apply_writes (filter (fun c => fst c <? length buf) calls) buf)
    /\ length (snd (uninit_set_seq buf calls)) = length buf.
Proof. intros A buf calls. split; [apply uninit_set_seq_closed|apply uninit_set_seq_length]. Qed.

(* (22) `len` successive sets at 0, 1, ..., len-1 — over ANY previous content of the buffer: every call Ok, the buffer is
        exposable (`assume_init` defined) and is exactly the written values *)
Theorem C19_uninit_set_fills_buffer :
  forall (A : Type) (old : list (option A)) (items : list A),
    length items = length old ->
    uninit_set_seq old (combine (seq 0 (length old)) items) = (repeat WOk (length old), map Some items)
    /\ assume_init (snd (uninit_set_seq old (combine (seq 0 (length old)) items))) = Some items
    /\ finish (snd (uninit_set_seq old (combine (seq 0 (length old)) items))) = Done items.
Proof. exact (@uninit_set_fill). Qed.

(* (23) the same in ANY order (each slot named once) on a fresh buffer: all Ok, a complete output, slot j = the value
        set at j; and a slot that no call names keeps the buffer from being exposable, whatever else was set *)
Theorem C19_uninit_set_fills_buffer_any_order :
  forall (A : Type) (calls : list (nat * A)) (n : nat),
    Permutation (map fst calls) (seq 0 n) ->
    fst (uninit_set_seq (repeat None n) calls) = repeat WOk n
    /\ exists l, finish (snd (uninit_set_seq (repeat None n) calls)) = Done l /\ length l = n
                 /\ forall j v, In (j, v) calls -> nth_error l j = Some v.
Proof. exact (@uninit_set_fill_any_order). Qed.

Theorem C19_uninit_set_missing_slot_not_exposable :
  forall (A : Type) (calls : list (nat * A)) (n j : nat),
    j < n -> ~ In j (map fst calls) ->
    assume_init (snd (uninit_set_seq (repeat None n) calls)) = None.
Proof. exact (@uninit_set_missing_slot). Qed.

(* ---- non-vacuity: inside / at the end / past the end; an overwritten buffer; a permuted fill; a missing slot;
        a call past the end in the middle of a sequence is refused alone ---- *)
Example C19_uninit_set_examples :
  uninit_set 3 2 7%Z = (WOk, [(2, 7%Z)])
  /\ uninit_set 3 3 7%Z = (WErr, [])
  /\ uninit_set 0 0 7%Z = (WErr, [])
  /\ uninit_set_buf [Some 1%Z; None; Some 3%Z] 1 9%Z = (WOk, [Some 1%Z; Some 9%Z; Some 3%Z])
  /\ uninit_set_buf [Some 1%Z; None; Some 3%Z] 3 9%Z = (WErr, [Some 1%Z; None; Some 3%Z])
  /\ uninit_set_seq [Some 5%Z; None] (combine (seq 0 2) [7%Z; 8%Z]) = ([WOk; WOk], [Some 7%Z; Some 8%Z])
  /\ Permutation (map fst [(2, 30%Z); (0, 10%Z); (1, 20%Z)]) (seq 0 3)
  /\ finish (snd (uninit_set_seq (repeat None 3) [(2, 30%Z); (0, 10%Z); (1, 20%Z)])) = Done [10%Z; 20%Z; 30%Z]
  /\ uninit_set_seq (repeat None 3) [(0, 10%Z); (3, 99%Z); (2, 30%Z)] = ([WOk; WErr; WOk], [Some 10%Z; None; Some 30%Z])
  /\ ~ In 1 (map fst [(0, 10%Z); (3, 99%Z); (2, 30%Z)]).
Proof.
  repeat split; try (vm_compute; reflexivity).
  - cbn. apply (Permutation_cons_app [0; 1] [] 2). reflexivity.
  - cbn. intros [H|[H|[H|[]]]]; discriminate.
Qed.

Print Assumptions C19_uninit_set_total.
Print Assumptions C19_uninit_set_sequence.
Print Assumptions C19_uninit_set_fills_buffer.
Print Assumptions C19_uninit_set_fills_buffer_any_order.
Print Assumptions C19_uninit_set_missing_slot_not_exposable.
