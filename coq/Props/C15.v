(* Props/C15.v — property C15: the null (IsNone) and cast algebra is coherent across all element types.
   Only theorem statements, closed by `exact` / `apply`; non-vacuity Examples; Print Assumptions.

   Universe (Model/Cast.v): ty = Plain b | Opt b, b in f32 f64 i32 i64 u8 u64 usize isize bool String/&str DateTime<U>
   TimeDelta Time (26 type codes, 676 ordered pairs).  Every theorem quantifies over ALL type codes / pairs and ALL
   values; F is an arbitrary float type and X : Ext F the external float / text operations, about which only
   `ExtLaws X` (Proofs/Cast.v) is assumed — an instance satisfying the laws is exhibited (Proofs/CastWitness.v), and
   the PrimFloat instance used by the runs is compared with the real code on every run.                       *)
From Coq Require Import ZArith List Bool.
From Tevec Require Import Base.Prelude Model.Cast Proofs.Cast Proofs.CastLattice Proofs.CastOrder
                          Proofs.CastWitness Proofs.CastProps.
Import ListNotations.
Local Open Scope Z_scope.

(* (1) the null predicates agree: is-null, not-null, conversion to an option, borrowed option, unwrap *)
Theorem C15_predicates_coherent :
  forall (F : Type) (X : Ext F) (t : ty) (v : val t),
    not_none X t v = negb (is_none X t v) /\
    (to_opt X t v = None <-> is_none X t v = true) /\
    as_opt X t v = to_opt X t v /\
    (forall x, to_opt X t v = Some x -> unwrap t v = Ok x) /\
    (is_none X t v = false -> exists x, to_opt X t v = Some x).
Proof. exact @predicates_coherent. Qed.

(* (2) the null constructor produces a null; it exists exactly for the types that can represent nulls *)
Theorem C15_none_is_null :
  forall (F : Type) (X : Ext F), ExtLaws X -> forall t : ty,
    (forall w, none X t = Ok w -> is_none X t w = true) /\
    (can_null t = true <-> exists w, none X t = Ok w).
Proof. exact @none_is_null. Qed.

(* (3) wrapping and unwrapping a non-null value is the identity; wrapping a null canonicalises it *)
Theorem C15_wrap_unwrap_identity :
  forall (F : Type) (X : Ext F) (t : ty) (x : inner t),
    (b_is_none X (base t) x = false ->
       to_opt X t (from_inner X t x) = Some x /\ unwrap t (from_inner X t x) = Ok x /\
       is_none X t (from_inner X t x) = false) /\
    (b_is_none X (base t) x = true -> is_none X t (from_inner X t x) = true).
Proof. exact @wrap_unwrap. Qed.

Theorem C15_from_opt_to_opt :
  forall (F : Type) (X : Ext F), ExtLaws X -> forall (t : ty) (v : val t),
    (canonical X t v = true -> is_none X t v = false -> from_opt X t (to_opt X t v) = Ok v) /\
    (forall w, is_none X t v = true -> from_opt X t (to_opt X t v) = Ok w -> is_none X t w = true).
Proof. exact @opt_roundtrip. Qed.

Theorem C15_into_cast_rewraps :
  forall (F : Type) (X : Ext F) (b : bt) (v : bval b),
    into_cast X false b v = v /\
    is_none X (Opt b) (into_cast X true b v) = b_is_none X b v /\
    to_opt X (Opt b) (into_cast X true b v) = to_opt X (Plain b) v /\
    into_cast X true b v = from_inner X (Opt b) v.
Proof. intros F X b v. split; [exact (into_cast_plain X b v)|exact (into_cast_opt X b v)]. Qed.

(* (4) the absolute value preserves nullness (both shapes, every numeric base type) *)
Theorem C15_vabs_preserves_nullness :
  forall (F : Type) (X : Ext F), ExtLaws X ->
  forall (shape : bool) (n : nt) (v w : val (if shape then Opt (N n) else Plain (N n))),
    canonical X _ v = true -> vabs X shape n v = Ok w -> is_none X _ w = is_none X _ v.
Proof. exact @vabs_nullness. Qed.

(* (5) casting never turns a null into a non-null when the target can represent nulls — every implemented pair
       outside known-finding class 1 (String <-> float / TimeDelta text) *)
Theorem C15_cast_null_preserved :
  forall (F : Type) (X : Ext F), ExtLaws X -> forall (s t : ty) (v : val s) (w : val t),
    implemented s t = true -> can_null t = true -> kf_text_null s t = false ->
    is_none X s v = true -> cast X s t v = Ok w -> is_none X t w = true.
Proof. exact @cast_null_preserved. Qed.

(* ... null to optional gives None (null to float gives NaN is the case t = Plain (N F32|F64) of (5)) *)
Theorem C15_cast_null_to_option_is_None :
  forall (F : Type) (X : Ext F), ExtLaws X -> forall (s : ty) (b : bt) (v : val s) (w : val (Opt b)),
    implemented s (Opt b) = true -> is_none X s v = true -> cast X s (Opt b) v = Ok w -> w = None.
Proof. exact @cast_null_to_option. Qed.

(* (6) ... nor a non-null into a null: every implemented pair outside class 1 and the two parsers of C18, for
       canonical values, unless the converted integer is the i64::MIN sentinel of the time types or a TimeDelta's
       microseconds overflow i64 (DESIGN 5.2) *)
Theorem C15_cast_nonnull_preserved :
  forall (F : Type) (X : Ext F), ExtLaws X -> forall (s t : ty) (v : val s) (w : val t),
    implemented s t = true -> can_null t = true -> kf_text_null s t = false -> parser_pair s t = false ->
    canonical X s v = true -> is_none X s v = false ->
    (is_time_ty t = true -> src_i64 X s v <> Some i64min) ->
    (t = Opt (N I64) -> td_src_ok s v = true) ->
    cast X s t v = Ok w -> is_none X t w = false.
Proof. exact @cast_nonnull_preserved. Qed.

(* (7) on non-null values a cast is the language's numeric conversion `as` (the identity for equal types), in all
       four Option shapes; the integer part of `as` is concrete: wrapping, identity inside the range, saturation *)
Theorem C15_cast_value_is_as :
  forall (F : Type) (X : Ext F) (a u : nt) (v : nval a),
    cast X (Plain (N a)) (Plain (N u)) v = Ok (as_nn X a u v) /\
    (n_is_none X a v = false -> cast X (Plain (N a)) (Opt (N u)) v = Ok (Some (as_nn X a u v))) /\
    cast X (Opt (N a)) (Opt (N u)) (Some v) = Ok (Some (as_nn X a u v)) /\
    cast X (Opt (N a)) (Plain (N u)) (Some v) = Ok (as_nn X a u v).
Proof. exact @cast_value_as. Qed.

Theorem C15_as_integer_part :
  forall (F : Type) (X : Ext F) (t : nt) (z : Z) (f : F),
    (imin t < imax t -> imin t <= wrap t z <= imax t) /\
    (imin t <= z <= imax t -> imin t < imax t -> wrap t z = z) /\
    (is_float t = false -> imin t <= f2i X t f <= imax t).
Proof.
  intros F X t z f. split; [exact (wrap_range t z)|]. split; [exact (wrap_in_range t z)|exact (f2i_range X t f)].
Qed.

(* (8) casts compose through Option on either side *)
Theorem C15_cast_composes_opt_opt :
  forall (F : Type) (X : Ext F) (a b : bt) (o : option (bval a)),
    implemented (Opt a) (Opt b) = true ->
    cast X (Opt a) (Opt b) o =
    match o with None => Ok None | Some v => do w <- cast X (Plain a) (Plain b) v; Ok (Some w) end.
Proof. exact @cast_opt_opt. Qed.

Theorem C15_cast_composes_plain_opt :
  forall (F : Type) (X : Ext F) (a b : bt) (v : bval a),
    implemented (Plain a) (Opt b) = true -> (bt_eqb a TD && bt_eqb b (N I64)) = false ->
    cast X (Plain a) (Opt b) v =
    if b_is_none X a v then Ok None else do w <- cast X (Plain a) (Plain b) v; Ok (Some w).
Proof. exact @cast_plain_opt. Qed.

Theorem C15_cast_composes_td_opt_i64 :
  forall (F : Type) (X : Ext F) (d : Z * Z) (q : Z),
    td_micros d = Some q ->
    cast X (Plain TD) (Opt (N I64)) d =
    if b_is_none X TD d then Ok None else do w <- cast X (Plain TD) (Plain (N I64)) d; Ok (Some w).
Proof. exact @cast_td_opt_i64. Qed.

Theorem C15_cast_composes_opt_plain :
  forall (F : Type) (X : Ext F) (a b : bt),
    implemented (Opt a) (Plain b) = true ->
    (forall v : bval a, cast X (Opt a) (Plain b) (Some v) = cast X (Plain a) (Plain b) v) /\
    ((bt_eqb a Bool && is_time b) = false -> cast X (Opt a) (Plain b) None = none X (Plain b)).
Proof.
  intros F X a b Hi. split; [intros v; exact (cast_opt_plain_some X a b v Hi)|exact (cast_opt_plain_none X a b Hi)].
Qed.

(* (9) the sort comparators are total preorders (reflexive, antisymmetric-up-to-equivalence hence total, transitive) *)
Theorem C15_sort_cmp_total_preorder :
  forall (F : Type) (X : Ext F), ExtLaws X -> forall (t : ty) (a b c : val t),
    canonical X t a = true -> canonical X t b = true -> canonical X t c = true ->
    sort_cmp X t a a = Ok Eq /\
    (exists o, sort_cmp X t a b = Ok o /\ sort_cmp X t b a = Ok (CompOpp o)) /\
    (le_res (sort_cmp X t a b) \/ le_res (sort_cmp X t b a)) /\
    (le_res (sort_cmp X t a b) -> le_res (sort_cmp X t b c) -> le_res (sort_cmp X t a c)).
Proof. exact @sort_cmp_preorder. Qed.

Theorem C15_sort_cmp_rev_total_preorder :
  forall (F : Type) (X : Ext F), ExtLaws X -> forall (t : ty) (a b c : val t),
    canonical X t a = true -> canonical X t b = true -> canonical X t c = true ->
    sort_cmp_rev X t a a = Ok Eq /\
    (exists o, sort_cmp_rev X t a b = Ok o /\ sort_cmp_rev X t b a = Ok (CompOpp o)) /\
    (le_res (sort_cmp_rev X t a b) \/ le_res (sort_cmp_rev X t b a)) /\
    (le_res (sort_cmp_rev X t a b) -> le_res (sort_cmp_rev X t b c) -> le_res (sort_cmp_rev X t a c)).
Proof. exact @sort_cmp_rev_preorder. Qed.

(* ... that order non-null values by value: ascending (the inner type's partial_cmp), resp. descending *)
Theorem C15_sort_cmp_orders_values :
  forall (F : Type) (X : Ext F), ExtLaws X -> forall (t : ty) (a b : val t) (x y : inner t),
    canonical X t a = true -> canonical X t b = true ->
    to_opt X t a = Some x -> to_opt X t b = Some y ->
    exists o, b_pcmp X (base t) x y = Some o /\ sort_cmp X t a b = Ok o /\ sort_cmp_rev X t a b = Ok (CompOpp o).
Proof. exact @sort_cmp_values. Qed.

Theorem C15_inner_order_is_value_order :
  forall (F : Type) (X : Ext F) (x y : Z) (p q : bool) (s1 s2 : str),
    b_pcmp X (N I32) x y = Some (x ?= y) /\ b_pcmp X (N I64) x y = Some (x ?= y) /\
    b_pcmp X (N U8) x y = Some (x ?= y) /\ b_pcmp X (N U64) x y = Some (x ?= y) /\
    b_pcmp X (N Usize) x y = Some (x ?= y) /\ b_pcmp X (N Isize) x y = Some (x ?= y) /\
    b_pcmp X DT x y = Some (x ?= y) /\ b_pcmp X TM x y = Some (x ?= y) /\
    b_pcmp X Bool p q = Some (bool_cmp p q) /\ b_pcmp X Str s1 s2 = Some (lex_cmp s1 s2).
Proof. exact @pcmp_concrete. Qed.

(* ... and put nulls last in both directions *)
Theorem C15_sort_cmp_nulls_last :
  forall (F : Type) (X : Ext F) (t : ty) (a b : val t),
    is_none X t a = true ->
    (is_none X t b = false ->
       sort_cmp X t a b = Ok Gt /\ sort_cmp X t b a = Ok Lt /\
       sort_cmp_rev X t a b = Ok Gt /\ sort_cmp_rev X t b a = Ok Lt) /\
    (is_none X t b = true -> sort_cmp X t a b = Ok Eq /\ sort_cmp_rev X t a b = Ok Eq).
Proof. exact @sort_cmp_nulls_last. Qed.

(* known-finding class 1 really fails (the premise kf_text_null = false of (5)/(6) cannot be dropped) *)
Theorem C15_text_null_class_refuted :
  (exists (v : val (Plain (N F64))) (w : val (Plain Str)),
      implemented (Plain (N F64)) (Plain Str) = true /\ can_null (Plain Str) = true /\
      is_none XZ (Plain (N F64)) v = true /\ cast XZ (Plain (N F64)) (Plain Str) v = Ok w /\
      is_none XZ (Plain Str) w = false) /\
  (exists (v : val (Plain Str)) (w : val (Plain (N F64))),
      implemented (Plain Str) (Plain (N F64)) = true /\ can_null (Plain (N F64)) = true /\
      is_none XZ (Plain Str) v = false /\ cast XZ (Plain Str) (Plain (N F64)) v = Ok w /\
      is_none XZ (Plain (N F64)) w = true).
Proof. exact kf_text_null_witness. Qed.

(* ------------------------------------------------------------------ *)
(* non-vacuity: the hypotheses are satisfiable and the implications have non-trivial instances *)

Example C15_laws_satisfiable : ExtLaws XZ.
Proof. exact XZ_laws. Qed.

(* 485 of the 676 ordered pairs are implemented; 26 type codes, 19 of which can represent a null *)
Example C15_universe_size :
  length all_ty = 26%nat /\
  length (filter (fun p => implemented (fst p) (snd p)) (list_prod all_ty all_ty)) = 485%nat /\
  length (filter can_null all_ty) = 19%nat.
Proof. vm_compute. repeat split. Qed.

(* (5): None : Option<i32> -> f64 is NaN, NaN -> DateTime is NaT, NaT -> Option<u8> is None *)
Example C15_example_null :
  cast XZ (Opt (N I32)) (Plain (N F64)) None = Ok None /\
  cast XZ (Plain (N F64)) (Plain DT) None = Ok i64min /\
  cast XZ (Plain TM) (Opt (N U8)) i64min = Ok None /\
  cast XZ (Plain TD) (Opt (N I64)) (i32min, 0) = Ok None /\
  cast XZ (Plain DT) (Plain (N F32)) i64min = Ok None.
Proof. vm_compute. repeat split. Qed.

(* (6),(7): 300 : i32 -> u8 wraps to 44, -> Option<f64> is Some 300.0, -> DateTime is 300; a sentinel collision *)
Example C15_example_nonnull :
  cast XZ (Plain (N I32)) (Plain (N U8)) 300 = Ok 44 /\
  cast XZ (Plain (N I32)) (Opt (N F64)) 300 = Ok (Some (Some 300)) /\
  cast XZ (Plain (N I32)) (Plain DT) 300 = Ok 300 /\
  cast XZ (Opt (N F64)) (Plain (N U8)) (Some (Some 300)) = Ok 255 /\
  cast XZ (Plain (N I64)) (Plain DT) i64min = Ok i64min /\
  src_i64 XZ (Plain (N I64)) i64min = Some i64min.
Proof. vm_compute. repeat split. Qed.

(* (4): vabs on Some(-3), None and a float NaN *)
Example C15_example_vabs :
  vabs XZ true I32 (Some (-3)) = Ok (Some 3) /\ vabs XZ true I32 None = Ok None /\
  vabs XZ false F64 None = Ok None /\ vabs XZ false I32 (imin I32) = Panic Overflow.
Proof. vm_compute. repeat split. Qed.

(* (9): ascending / descending on values, nulls last in both *)
Example C15_example_order :
  sort_cmp XZ (Opt (N I32)) (Some 1) (Some 2) = Ok Lt /\ sort_cmp_rev XZ (Opt (N I32)) (Some 1) (Some 2) = Ok Gt /\
  sort_cmp XZ (Opt (N I32)) None (Some 2) = Ok Gt /\ sort_cmp_rev XZ (Opt (N I32)) None (Some 2) = Ok Gt /\
  sort_cmp XZ (Plain (N F64)) None (Some 2) = Ok Gt /\ sort_cmp_rev XZ (Plain (N F64)) (Some 2) None = Ok Lt /\
  sort_cmp XZ (Plain Str) s_None s_true = Ok Gt /\ sort_cmp XZ (Plain TD) (0, 5) (1, 0) = Ok Lt.
Proof. vm_compute. repeat split. Qed.

Print Assumptions C15_predicates_coherent.
Print Assumptions C15_none_is_null.
Print Assumptions C15_wrap_unwrap_identity.
Print Assumptions C15_from_opt_to_opt.
Print Assumptions C15_into_cast_rewraps.
Print Assumptions C15_vabs_preserves_nullness.
Print Assumptions C15_cast_null_preserved.
Print Assumptions C15_cast_null_to_option_is_None.
Print Assumptions C15_cast_nonnull_preserved.
Print Assumptions C15_cast_value_is_as.
Print Assumptions C15_as_integer_part.
Print Assumptions C15_cast_composes_opt_opt.
Print Assumptions C15_cast_composes_plain_opt.
Print Assumptions C15_cast_composes_td_opt_i64.
Print Assumptions C15_cast_composes_opt_plain.
Print Assumptions C15_sort_cmp_total_preorder.
Print Assumptions C15_sort_cmp_rev_total_preorder.
Print Assumptions C15_sort_cmp_orders_values.
Print Assumptions C15_inner_order_is_value_order.
Print Assumptions C15_sort_cmp_nulls_last.
Print Assumptions C15_text_null_class_refuted.
