(* Props/C15.v — property C15 (placeholder; theorems follow) *)
From Tevec Require Import Base.Prelude Model.Cast.

Theorem C15_predicates_coherent_placeholder :
  forall (F : Type) (X : Ext F) (t : ty) (v : val t), not_none X t v = negb (is_none X t v).
Proof.
  intros F X [b|b] v; [destruct b as [[]| | | | |]|destruct v]; cbn; unfold fisnan; try reflexivity;
    rewrite ?negb_involutive; reflexivity.
Qed.
Print Assumptions C15_predicates_coherent_placeholder.
