(* Props/C15.v — property C15: the null (IsNone) and cast algebra is coherent across all element types.
   Only theorem statements, closed by `exact` / `apply`; non-vacuity Examples; Print Assumptions.

   Universe (Model/Cast.v): ty = Plain b | Opt b, b in f32 f64 i32 i64 u8 u64 usize isize bool String/&str DateTime<U>
   TimeDelta Time (26 type codes, 676 ordered pairs).  Every theorem quantifies over ALL type codes / pairs and ALL
   values; F is an arbitrary float type and X : Ext F the external float / text operations, about which only
   `ExtLaws X` (Proofs/Cast.v) is assumed — an instance satisfying the laws is exhibited (Proofs/CastWitness.v), and
   the PrimFloat instance used by the runs is compared with the real code on every run.                       *)
From Coq Require Import ZArith List Bool.
From Tevec Require Import Base.Prelude Model.Cast Proofs.Cast Proofs.CastLattice Proofs.CastOrder
                          Proofs.CastWitness Proofs.CastProps.
Import ListNotations.
Local Open Scope Z_scope.

(* (1) the null predicates agree: is-null, not-null, conversion to an option, borrowed option, unwrap *)
Theorem C15_predicates_coherent :
  forall (F : Type) (X : Ext F) (t : ty) (v : val t),
    not_none X t v = negb (is_none X t v) /\
    (to_opt X t v = None <-> is_none X t v = true) /\
    as_opt X t v = to_opt X t v /\
    (forall x, to_opt X t v = Some x -> unwrap t v = Ok x) /\
    (is_none X t v = false -> exists x, to_opt X t v = Some x).
Proof. exact @predicates_coherent. Qed.

(* (2) the null constructor produces a null; it exists exactly for the types that can represent nulls *)
Theorem C15_none_is_null :
  forall (F : Type) (X : Ext F), ExtLaws X -> forall t : ty,
    (forall w, none X t = Ok w -> is_none X t w = true) /\
    (can_null t = true <-> exists w, none X t = Ok w).
Proof. exact @none_is_null. Qed.

(* (3) wrapping and unwrapping a non-null value is the identity; wrapping a null canonicalises it *)
Theorem C15_wrap_unwrap_identity :
  forall (F : Type) (X : Ext F) (t : ty) (x : inner t),
    (b_is_none X (base t) x = false ->
       to_opt X t (from_inner X t x) = Some x /\ unwrap t (from_inner X t x) = Ok x /\
       is_none X t (from_inner X t x) = false) /\
    (b_is_none X (base t) x = true -> is_none X t (from_inner X t x) = true).
Proof. exact @wrap_unwrap. Qed.

Theorem C15_from_opt_to_opt :
  forall (F : Type) (X : Ext F), ExtLaws X -> forall (t : ty) (v : val t),
    (canonical X t v = true -> is_none X t v = false -> from_opt X t (to_opt X t v) = Ok v) /\
    (forall w, is_none X t v = true -> from_opt X t (to_opt X t v) = Ok w -> is_none X t w = true).
Proof. exact @opt_roundtrip. Qed.

Theorem C15_into_cast_rewraps :
  forall (F : Type) (X : Ext F) (b : bt) (v : bval b),
    into_cast X false b v = v /\
    is_none X (Opt b) (into_cast X true b v) = b_is_none X b v /\
    to_opt X (Opt b) (into_cast X true b v) = to_opt X (Plain b) v /\
    into_cast X true b v = from_inner X (Opt b) v.
Proof. intros F X b v. split; [exact (into_cast_plain X b v)|exact (into_cast_opt X b v)]. Qed.

(* (4) the absolute value preserves nullness (both shapes, every numeric base type) *)
Theorem C15_vabs_preserves_nullness :
  forall (F : Type) (X : Ext F), ExtLaws X ->
  forall (shape : bool) (n : nt) (v w : val (if shape then Opt (N n) else Plain (N n))),
    canonical X _ v = true -> vabs X shape n v = Ok w -> is_none X _ w = is_none X _ v.
Proof. exact @vabs_nullness. Qed.

(* (5) casting never turns a null into a non-null when the target can represent nulls — every implemented pair
       outside known-finding class 1 (String <-> float / TimeDelta text) *)
Theorem C15_cast_null_preserved :
  forall (F : Type) (X : Ext F), ExtLaws X -> forall (s t : ty) (v : val s) (w : val t),
    implemented s t = true -> can_null t = true -> kf_text_null s t = false ->
    is_none X s v = true -> cast X s t v = Ok w -> is_none X t w = true.
Proof. exact @cast_null_preserved. Qed.

(* ... null to optional gives None (null to float gives NaN is the case t = Plain (N F32|F64) of (5)) *)
Theorem C15_cast_null_to_option_is_None :
  forall (F : Type) (X : Ext F), ExtLaws X -> forall (s : ty) (b : bt) (v : val s) (w : val (Opt b)),
    implemented s (Opt b) = true -> is_none X s v = true -> cast X s (Opt b) v = Ok w -> w = None.
Proof. exact @cast_null_to_option. Qed.

(* (6) ... nor a non-null into a null: every implemented pair outside class 1 and the two parsers of C18, for
       canonical values, unless the converted integer is the i64::MIN sentinel of the time types or a TimeDelta's
       microseconds overflow i64 (DESIGN 5.2) *)
Theorem C15_cast_nonnull_preserved :
  forall (F : Type) (X : Ext F), ExtLaws X -> forall (s t : ty) (v : val s) (w : val t),
    implemented s t = true -> can_null t = true -> kf_text_null s t = false -> parser_pair s t = false ->
    canonical X s v = true -> is_none X s v = false ->
    (is_time_ty t = true -> src_i64 X s v <> Some i64min) ->
    (t = Opt (N I64) -> td_src_ok s v = true) ->
    cast X s t v = Ok w -> is_none X t w = false.
Proof. exact @cast_nonnull_preserved. Qed.

(* (7) on non-null values a cast is the language's numeric conversion `as` (the identity for equal types), in all
       four Option shapes; the integer part of `as` is concrete: wrapping, identity inside the range, saturation *)
Theorem C15_cast_value_is_as :
  forall (F : Type) (X : Ext F) (a u : nt) (v : nval a),
    cast X (Plain (N a)) (Plain (N u)) v = Ok (as_nn X a u v) /\
    (n_is_none X a v = false -> cast X (Plain (N a)) (Opt (N u)) v = Ok (Some (as_nn X a u v))) /\
    cast X (Opt (N a)) (Opt (N u)) (Some v) = Ok (Some (as_nn X a u v)) /\
    cast X (Opt (N a)) (Plain (N u)) (Some v) = Ok (as_nn X a u v).
Proof. exact @cast_value_as. Qed.

Theorem C15_as_integer_part :
  forall (F : Type) (X : Ext F) (t : nt) (z : Z) (f : F),
    (imin t < imax t -> imin t <= wrap t z <= imax t) /\
    (imin t <= z <= imax t -> imin t < imax t -> wrap t z = z) /\
    (is_float t = false -> imin t <= f2i X t f <= imax t).
Proof.
  intros F X t z f. split; [exact (wrap_range t z)|]. split; [exact (wrap_in_range t z)|exact (f2i_range X t f)].
Qed.

(* (8) casts compose through Option on either side *)
Theorem C15_cast_composes_opt_opt :
  forall (F : Type) (X : Ext F) (a b : bt) (o : option (bval a)),
    implemented (Opt a) (Opt b) = true ->
    cast X (Opt a) (Opt b) o =
    match o with None => Ok None | Some v => do w <- cast X (Plain a) (Plain b) v; Ok (Some w) end.
Proof. exact @cast_opt_opt. Qed.

Theorem C15_cast_composes_plain_opt :
  forall (F : Type) (X : Ext F) (a b : bt) (v : bval a),
    implemented (Plain a) (Opt b) = true -> (bt_eqb a TD && bt_eqb b (N I64)) = false ->
    cast X (Plain a) (Opt b) v =
    if b_is_none X a v then Ok None else do w <- cast X (Plain a) (Plain b) v; Ok (Some w).
Proof. exact @cast_plain_opt. Qed.

Theorem C15_cast_composes_td_opt_i64 :
  forall (F : Type) (X : Ext F) (d : Z * Z) (q : Z),
    td_micros d = Some q ->
    cast X (Plain TD) (Opt (N I64)) d =
    if b_is_none X TD d then Ok None else do w <- cast X (Plain TD) (Plain (N I64)) d; Ok (Some w).
Proof. exact @cast_td_opt_i64. Qed.

Theorem C15_cast_composes_opt_plain :
  forall (F : Type) (X : Ext F) (a b : bt),
    implemented (Opt a) (Plain b) = true ->
    (forall v : bval a, cast X (Opt a) (Plain b) (Some v) = cast X (Plain a) (Plain b) v) /\
    ((bt_eqb a Bool && is_time b) = false -> cast X (Opt a) (Plain b) None = none X (Plain b)).
Proof.
  intros F X a b Hi. split; [intros v; exact (cast_opt_plain_some X a b v Hi)|exact (cast_opt_plain_none X a b Hi)].
Qed.

(* (9) the sort comparators are total preorders (reflexive, antisymmetric-up-to-equivalence hence total, transitive) *)
Theorem C15_sort_cmp_total_preorder :
  forall (F : Type) (X : Ext F), ExtLaws X -> forall (t : ty) (a b c : val t),
    canonical X t a = true -> canonical X t b = true -> canonical X t c = true ->
    sort_cmp X t a a = Ok Eq /\
    (exists o, sort_cmp X t a b = Ok o /\ sort_cmp X t b a = Ok (CompOpp o)) /\
    (le_res (sort_cmp X t a b) \/ le_res (sort_cmp X t b a)) /\
    (le_res (sort_cmp X t a b) -> le_res (sort_cmp X t b c) -> le_res (sort_cmp X t a c)).
Proof. exact @sort_cmp_preorder. Qed.

Theorem C15_sort_cmp_rev_total_preorder :
  forall (F : Type) (X : Ext F), ExtLaws X -> forall (t : ty) (a b c : val t),
    canonical X t a = true -> canonical X t b = true -> canonical X t c = true ->
    sort_cmp_rev X t a a = Ok Eq /\
    (exists o, sort_cmp_rev X t a b = Ok o /\ sort_cmp_rev X t b a = Ok (CompOpp o)) /\
    (le_res (sort_cmp_rev X t a b) \/ le_res (sort_cmp_rev X t b a)) /\
    (le_res (sort_cmp_rev X t a b) -> le_res (sort_cmp_rev X t b c) -> le_res (sort_cmp_rev X t a c)).
Proof. exact @sort_cmp_rev_preorder. Qed.

(* ... that order non-null values by value: ascending (the inner type's partial_cmp), resp. descending *)
Theorem C15_sort_cmp_orders_values :
  forall (F : Type) (X : Ext F), ExtLaws X -> forall (t : ty) (a b : val t) (x y : inner t),
    canonical X t a = true -> canonical X t b = true ->
    to_opt X t a = Some x -> to_opt X t b = Some y ->
    exists o, b_pcmp X (base t) x y = Some o /\ sort_cmp X t a b = Ok o /\ sort_cmp_rev X t a b = Ok (CompOpp o).
Proof. exact @sort_cmp_values. Qed.

Theorem C15_inner_order_is_value_order :
  forall (F : Type) (X : Ext F) (x y : Z) (p q : bool) (s1 s2 : str),
    b_pcmp X (N I32) x y = Some (x ?= y) /\ b_pcmp X (N I64) x y = Some (x ?= y) /\
    b_pcmp X (N U8) x y = Some (x ?= y) /\ b_pcmp X (N U64) x y = Some (x ?= y) /\
    b_pcmp X (N Usize) x y = Some (x ?= y) /\ b_pcmp X (N Isize) x y = Some (x ?= y) /\
    b_pcmp X DT x y = Some (x ?= y) /\ b_pcmp X TM x y = Some (x ?= y) /\
    b_pcmp X Bool p q = Some (bool_cmp p q) /\ b_pcmp X Str s1 s2 = Some (lex_cmp s1 s2).
Proof. exact @pcmp_concrete. Qed.

(* ... and put nulls last in both directions *)
Theorem C15_sort_cmp_nulls_last :
  forall (F : Type) (X : Ext F) (t : ty) (a b : val t),
    is_none X t a = true ->
    (is_none X t b = false ->
       sort_cmp X t a b = Ok Gt /\ sort_cmp X t b a = Ok Lt /\
       sort_cmp_rev X t a b = Ok Gt /\ sort_cmp_rev X t b a = Ok Lt) /\
    (is_none X t b = true -> sort_cmp X t a b = Ok Eq /\ sort_cmp_rev X t a b = Ok Eq).
Proof. exact @sort_cmp_nulls_last. Qed.

(* known-finding class 1 really fails (the premise kf_text_null = false of (5)/(6) cannot be dropped) *)
Theorem C15_text_null_class_refuted :
  (exists (v : val (Plain (N F64))) (w : val (Plain Str)),
      implemented (Plain (N F64)) (Plain Str) = true /\ can_null (Plain Str) = true /\
      is_none XZ (Plain (N F64)) v = true /\ cast XZ (Plain (N F64)) (Plain Str) v = Ok w /\
      is_none XZ (Plain Str) w = false) /\
  (exists (v : val (Plain Str)) (w : val (Plain (N F64))),
      implemented (Plain Str) (Plain (N F64)) = true /\ can_null (Plain (N F64)) = true /\
      is_none XZ (Plain Str) v = false /\ cast XZ (Plain Str) (Plain (N F64)) v = Ok w /\
      is_none XZ (Plain (N F64)) w = true).
Proof. exact kf_text_null_witness. Qed.

(* ------------------------------------------------------------------ *)
(* non-vacuity: the hypotheses are satisfiable and the implications have non-trivial instances *)

Example C15_laws_satisfiable : ExtLaws XZ.
Proof. exact XZ_laws. Qed.

(* 485 of the 676 ordered pairs are implemented; 26 type codes, 19 of which can represent a null *)
Example C15_universe_size :
  length all_ty = 26%nat /\
  length (filter (fun p => implemented (fst p) (snd p)) (list_prod all_ty all_ty)) = 485%nat /\
  length (filter can_null all_ty) = 19%nat.
Proof. vm_compute. repeat split. Qed.

(* (5): None : Option<i32> -> f64 is NaN, NaN -> DateTime is NaT, NaT -> Option<u8> is None *)
Example C15_example_null :
  cast XZ (Opt (N I32)) (Plain (N F64)) None = Ok None /\
  cast XZ (Plain (N F64)) (Plain DT) None = Ok i64min /\
  cast XZ (Plain TM) (Opt (N U8)) i64min = Ok None /\
  cast XZ (Plain TD) (Opt (N I64)) (i32min, 0) = Ok None /\
  cast XZ (Plain DT) (Plain (N F32)) i64min = Ok None.
Proof. vm_compute. repeat split. Qed.

(* (6),(7): 300 : i32 -> u8 wraps to 44, -> Option<f64> is Some 300.0, -> DateTime is 300; a sentinel collision *)
Example C15_example_nonnull :
  cast XZ (Plain (N I32)) (Plain (N U8)) 300 = Ok 44 /\
  cast XZ (Plain (N I32)) (Opt (N F64)) 300 = Ok (Some (Some 300)) /\
  cast XZ (Plain (N I32)) (Plain DT) 300 = Ok 300 /\
  cast XZ (Opt (N F64)) (Plain (N U8)) (Some (Some 300)) = Ok 255 /\
  cast XZ (Plain (N I64)) (Plain DT) i64min = Ok i64min /\
  src_i64 XZ (Plain (N I64)) i64min = Some i64min.
Proof. vm_compute. repeat split. Qed.

(* (4): vabs on Some(-3), None and a float NaN *)
Example C15_example_vabs :
  vabs XZ true I32 (Some (-3)) = Ok (Some 3) /\ vabs XZ true I32 None = Ok None /\
  vabs XZ false F64 None = Ok None /\ vabs XZ false I32 (imin I32) = Panic Overflow.
Proof. vm_compute. repeat split. Qed.

(* (9): ascending / descending on values, nulls last in both *)
Example C15_example_order :
  sort_cmp XZ (Opt (N I32)) (Some 1) (Some 2) = Ok Lt /\ sort_cmp_rev XZ (Opt (N I32)) (Some 1) (Some 2) = Ok Gt /\
  sort_cmp XZ (Opt (N I32)) None (Some 2) = Ok Gt /\ sort_cmp_rev XZ (Opt (N I32)) None (Some 2) = Ok Gt /\
  sort_cmp XZ (Plain (N F64)) None (Some 2) = Ok Gt /\ sort_cmp_rev XZ (Plain (N F64)) (Some 2) None = Ok Lt /\
  sort_cmp XZ (Plain Str) s_None s_true = Ok Gt /\ sort_cmp XZ (Plain TD) (0, 5) (1, 0) = Ok Lt.
Proof. vm_compute. repeat split. Qed.


(* ================================================================================================== *)
(* Audit (notes/C15.md, "Audit matrix"; Proofs/Audit15.v)                                               *)
From Tevec Require Import Proofs.Audit15.
From Tevec Require Model.Time.

(* (A1) the premise of (6) about the sentinel is exact: a canonical non-null numeric value cast to DateTime / TimeDelta /
        Time is null EXACTLY when the i64 it passes through is i64::MIN (every numeric source, plain or Option) *)
Theorem C15_cast_to_time_null_iff_sentinel :
  forall (F : Type) (X : Ext F) (s t : ty) (v : val s) (w : val t),
    num_src s = true -> is_time_ty t = true ->
    canonical X s v = true -> is_none X s v = false -> cast X s t v = Ok w ->
    (is_none X t w = true <-> src_i64 X s v = Some i64min).
Proof. exact @cast_to_time_null_iff. Qed.

(* (A2) the other premise of (6): TimeDelta -> i64 / Option<i64>.  Microseconds in range: the quotient toward zero;
        overflowing microseconds: the null of the target (None, resp. the i64::MIN sentinel); months <> 0: panic *)
Theorem C15_cast_timedelta_to_i64 :
  forall (F : Type) (X : Ext F) (d : Z * Z),
    (forall q, fst d = 0 -> td_micros d = Some q ->
       cast X (Plain TD) (Opt (N I64)) d = Ok (Some q) /\ cast X (Plain TD) (Plain (N I64)) d = Ok q /\
       q = Z.quot (snd d) 1000 /\ i64min <= q <= 2 ^ 63 - 1) /\
    (fst d = 0 -> td_micros d = None ->
       cast X (Plain TD) (Opt (N I64)) d = Ok None /\ cast X (Plain TD) (Plain (N I64)) d = Ok i64min) /\
    (forall u, fst d <> 0 -> fst d <> i32min ->
       cast X (Plain TD) (Plain (N u)) d = Panic OtherPanic /\ cast X (Plain TD) (Opt (N u)) d = Panic OtherPanic).
Proof.
  intros F X d. split; [intros q; apply cast_td_i64_in_range|]. split; [apply cast_td_i64_overflow|].
  intros u. apply cast_td_months_panics.
Qed.

(* (A3) a null source and a target that CANNOT represent a null: a panic, never a made-up value - None -> integer / bool,
        "None" -> integer / bool, NaT -> integer / bool; the raw views DateTime / Time -> i64 return the sentinel itself
        (float NaN -> integer follows the language's `as`, theorem (7)) *)
Theorem C15_cast_null_to_nonnullable_panics :
  forall (F : Type) (X : Ext F),
    (forall a b, implemented (Opt a) (Plain b) = true -> b_can_null b = false ->
       cast X (Opt a) (Plain b) None = Panic OtherPanic) /\
    (forall b, implemented (Plain Str) (Plain b) = true -> b_can_null b = false ->
       cast X (Plain Str) (Plain b) s_None = Panic OtherPanic) /\
    (forall a u (v : bval a), is_time a = true -> is_float u = false -> nt_eqb u I64 = false ->
       b_is_none X a v = true ->
       cast X (Plain a) (Plain (N u)) v = Panic OtherPanic /\ cast X (Plain a) (Plain Bool) v = Panic OtherPanic) /\
    (forall ns, cast X (Plain DT) (Plain (N I64)) i64min = Ok i64min /\
                cast X (Plain TM) (Plain (N I64)) i64min = Ok i64min /\
                cast X (Plain TD) (Plain (N I64)) (i32min, ns) = Panic OtherPanic).
Proof.
  intros F X. split; [apply cast_none_to_nonnullable_panics|]. split; [apply cast_text_null_to_nonnullable_panics|].
  split; [intros a u v; apply cast_nat_to_nonnullable_panics|apply cast_nat_to_i64_is_the_sentinel].
Qed.

(* (A4) (5) says "if the cast returns": which null casts into a NULLABLE target do not return is a finite list, all by
        design (Option<bool> -> time, "None" -> DateTime / TimeDelta / f32 / f64 parsers, DateTime <-> TimeDelta
        unreachable!()); every other implemented pair returns on every null *)
Theorem C15_cast_null_total_or_panics_by_design :
  forall (F : Type) (X : Ext F), ExtLaws X -> forall (s t : ty) (v : val s),
    implemented s t = true -> can_null t = true -> is_none X s v = true ->
    if null_panics s t then cast X s t v = Panic OtherPanic else exists w, cast X s t v = Ok w.
Proof. exact @cast_null_total. Qed.

(* (A5) vabs, the values: integers get the mathematical |x| (again in range), unsigned are untouched, the only panic is
        the overflow of a signed minimum (debug build), Option re-wraps *)
Theorem C15_vabs_values :
  forall (F : Type) (X : Ext F) (x : Z) (f : F),
    (n_abs X I32 x = if x =? imin I32 then Panic Overflow else Ok (Z.abs x)) /\
    (n_abs X I64 x = if x =? imin I64 then Panic Overflow else Ok (Z.abs x)) /\
    (n_abs X Isize x = if x =? imin Isize then Panic Overflow else Ok (Z.abs x)) /\
    n_abs X U8 x = Ok x /\ n_abs X U64 x = Ok x /\ n_abs X Usize x = Ok x /\
    n_abs X F32 f = Ok (fabs X f) /\ n_abs X F64 f = Ok (fabs X f) /\
    (forall n, is_signed n = true -> imin n < x <= imax n -> 0 <= Z.abs x <= imax n).
Proof.
  intros F X x f. destruct (n_abs_int_value X I32 x) as (A1 & A2 & A3 & A4 & A5 & A6).
  repeat split; try assumption; try reflexivity;
    destruct (n_abs_signed_in_range X n x H H0) as [[B1 B2] _]; assumption.
Qed.

Theorem C15_vabs_rewraps_and_panics_only_on_signed_min :
  forall (F : Type) (X : Ext F) (n : nt),
    (forall x a : nval n, n_abs X n x = Ok a -> n_is_none X n a = false ->
       vabs X true n (Some x) = Ok (Some a) /\ vabs X true n None = Ok None /\ vabs X false n x = Ok a) /\
    (forall (shape : bool) (v : val (if shape then Opt (N n) else Plain (N n))) k,
       vabs X shape n v = Panic k -> k = Overflow /\ is_signed n = true).
Proof.
  intros F X n. split; [intros x a; apply vabs_opt_value|intros shape v k; apply vabs_panics_only_overflow].
Qed.

(* (A6) IsNone::map: applied to the inner value of a non-null; Option source: None gives U::none(); a plain source
        (overridden in every non-Option impl) applies f to the value whatever it is - also to NaN / "None" / NaT - and the
        nullness of the result is that of f's result *)
Theorem C15_map_spec :
  forall (F : Type) (X : Ext F) (s u : ty) (f : inner s -> inner u) (v : val s),
    (forall x, to_opt X s v = Some x -> map_ X s u f v = Ok (from_inner X u (f x))) /\
    (forall b (E : s = Opt b), eq_rect s val v (Opt b) E = None -> map_ X s u f v = none X u) /\
    (forall x w, to_opt X s v = Some x -> map_ X s u f v = Ok w -> is_none X u w = b_is_none X (base u) (f x)).
Proof.
  intros F X s u f v. destruct (map_spec X s u f v) as [H1 H2]. split; [exact H1|]. split; [exact H2|].
  intros x w. apply map_result_nullness.
Qed.

Theorem C15_map_plain_source_applies_f_to_nulls_too :
  forall (F : Type) (X : Ext F) (b : bt) (u : ty) (f : bval b -> inner u) (v : bval b),
    map_ X (Plain b) u f v = Ok (from_inner X u (f v)).
Proof. exact @map_plain_applies_f. Qed.

(* (A7) casts of the non-numeric pairs, the values: bool -> numeric / String / Option<bool>; numeric -> bool *)
Theorem C15_cast_bool_values :
  forall (F : Type) (X : Ext F) (b : bool),
    cast X (Plain Bool) (Plain (N I32)) b = Ok (if b then 1 else 0) /\
    cast X (Plain Bool) (Plain (N I64)) b = Ok (if b then 1 else 0) /\
    cast X (Plain Bool) (Plain (N U8)) b = Ok (if b then 1 else 0) /\
    cast X (Plain Bool) (Plain (N U64)) b = Ok (if b then 1 else 0) /\
    cast X (Plain Bool) (Plain (N Usize)) b = Ok (if b then 1 else 0) /\
    cast X (Plain Bool) (Plain (N Isize)) b = Ok (if b then 1 else 0) /\
    cast X (Plain Bool) (Plain (N F64)) b = Ok (z2f64 X (if b then 1 else 0)) /\
    cast X (Plain Bool) (Plain (N F32)) b = Ok (z2f32 X (if b then 1 else 0)) /\
    cast X (Plain Bool) (Plain Str) b = Ok (if b then s_true else s_false) /\
    cast X (Plain Bool) (Opt Bool) b = Ok (Some b) /\ cast X (Plain Bool) (Plain Bool) b = Ok b.
Proof. exact @cast_bool_values. Qed.

Theorem C15_cast_numeric_to_bool :
  forall (F : Type) (X : Ext F) (a : nt) (v : nval a),
    cast X (Plain (N a)) (Plain Bool) v =
      (let i : Z := as_nn X a I32 v in if i =? 0 then Ok false else if i =? 1 then Ok true else Panic OtherPanic) /\
    cast X (Opt (N a)) (Plain Bool) (Some v) = cast X (Plain (N a)) (Plain Bool) v /\
    cast X (Opt (N a)) (Plain Bool) None = Panic OtherPanic.
Proof. exact @cast_num_to_bool. Qed.

(* (A8) integer -> integer `as` (every integer source: as_nn s u = z_to s u): the value is preserved EXACTLY WHEN it is
        representable in the target; otherwise the result is in range and congruent modulo 2^bits *)
Theorem C15_int_cast_exact_iff_representable :
  forall (F : Type) (X : Ext F) (s u : nt) (z : Z),
    is_float u = false ->
    (as_nn X I32 u = z_to X I32 u /\ as_nn X I64 u = z_to X I64 u /\ as_nn X U8 u = z_to X U8 u /\
     as_nn X U64 u = z_to X U64 u /\ as_nn X Usize u = z_to X Usize u /\ as_nn X Isize u = z_to X Isize u) /\
    match u return nval u -> Prop with
    | F32 | F64 => fun _ => True
    | _ => fun r => (nt_eqb s u = true -> r = z) /\
                    (nt_eqb s u = false ->
                       imin u <= r <= imax u /\ (r = z <-> imin u <= z <= imax u) /\
                       exists k, r = z + k * (imax u - imin u + 1))
    end (z_to X s u z).
Proof. intros F X s u z Hu. split; [apply int_source_as_is_z_to|apply int_as_exact_iff; exact Hu]. Qed.

(* (A9) the comparators never panic: no premise on the values (also Some(NaN), non-canonical), no law on the floats *)
Theorem C15_sort_cmp_never_panics :
  forall (F : Type) (X : Ext F) (t : ty) (a b : val t),
    (exists o, sort_cmp X t a b = Ok o) /\ (exists o, sort_cmp_rev X t a b = Ok o).
Proof. exact @sort_cmp_never_panics. Qed.

(* (A10) the unit-changing casts DateTime<A> -> DateTime<B> (time_unit_cast! = into_unit, all 16 unit pairs): NaT stays
         NaT, a non-null never becomes NaT, the only failure is the overflow panic of a refinement *)
Theorem C15_unit_cast_nullness :
  forall (u t : Time.tunit) (x : Z),
    Time.into_unit u t Time.NaT = Ok Time.NaT /\
    (forall y, Time.in_i64 x = true -> Time.into_unit u t x = Ok y -> Time.is_nat y = Time.is_nat x) /\
    (forall k, Time.into_unit u t x = Panic k ->
       k = Overflow /\ Time.is_nat x = false /\ Time.unit_ns t < Time.unit_ns u).
Proof.
  intros u t x. split; [apply unit_cast_null|]. split; [intros y; apply unit_cast_nullness|].
  intros k; apply unit_cast_panic_only_overflow.
Qed.

(* (A11) IsNone for Vec<T>: the null is the empty vector; the predicates agree; wrap / unwrap are the identity *)
Theorem C15_vec_isnone_coherent :
  forall (T : Type) (v : list T),
    vec_not_none v = negb (vec_is_none v) /\
    (vec_to_opt v = None <-> vec_is_none v = true) /\
    vec_as_opt v = vec_to_opt v /\
    (forall x, vec_to_opt v = Some x -> vec_unwrap v = Ok x /\ x = v) /\
    vec_is_none (@vec_none T) = true /\
    (vec_is_none v = true <-> v = []) /\
    (vec_is_none v = false -> vec_to_opt (vec_from_inner v) = Some v /\ vec_from_opt (vec_to_opt v) = v) /\
    vec_from_opt (@None (list T)) = [].
Proof. exact @vec_isnone_coherent. Qed.

(* (A12) the coverage table: the 676 ordered pairs split into 191 not implemented, 154 implemented with a target that
         cannot represent a null ((7), (A3)), 5 of known-finding class 1, the 2 parsers of C18 (compared only), and 324
         to which (5) and (6) apply *)
Theorem C15_pair_coverage :
  count_class 0 = 191%nat /\ count_class 1 = 154%nat /\ count_class 2 = 5%nat /\ count_class 3 = 2%nat /\
  count_class 4 = 324%nat.
Proof. exact pair_coverage. Qed.

(* ---- non-vacuity of the audit theorems ------------------------------------------------------------- *)
Example C15_example_sentinel :
  cast XZ (Plain (N I64)) (Plain TD) i64min = Ok (i32min, 0) /\ src_i64 XZ (Plain (N I64)) i64min = Some i64min /\
  cast XZ (Opt (N F64)) (Plain TM) (Some (Some i64min)) = Ok i64min /\
  cast XZ (Plain (N I32)) (Plain DT) 5 = Ok 5 /\ num_src (Opt (N F64)) = true /\ is_time_ty (Plain TM) = true.
Proof. vm_compute. repeat split. Qed.

Example C15_example_timedelta_i64 :
  td_micros (0, 7999) = Some 7 /\ td_micros (0, -7999) = Some (-7) /\ td_micros (0, 2 ^ 63 * 1000) = None /\
  cast XZ (Plain TD) (Opt (N I64)) (0, 2 ^ 63 * 1000) = Ok None /\
  cast XZ (Plain TD) (Plain (N I32)) (3, 0) = Panic OtherPanic.
Proof. vm_compute. repeat split. Qed.

Example C15_example_null_to_nonnullable :
  implemented (Opt (N F64)) (Plain (N I32)) = true /\ b_can_null (N I32) = false /\
  cast XZ (Opt (N F64)) (Plain (N I32)) None = Panic OtherPanic /\
  cast XZ (Plain Str) (Plain Bool) s_None = Panic OtherPanic /\
  cast XZ (Plain TM) (Plain (N U8)) i64min = Panic OtherPanic /\
  null_panics (Opt Bool) (Plain DT) = true /\ cast XZ (Opt Bool) (Plain DT) None = Panic OtherPanic /\
  null_panics (Opt (N I32)) (Plain DT) = false /\ cast XZ (Opt (N I32)) (Plain DT) None = Ok i64min.
Proof. vm_compute. repeat split. Qed.

Example C15_example_values :
  cast XZ (Plain (N I32)) (Plain (N U8)) 255 = Ok 255 /\ cast XZ (Plain (N I32)) (Plain (N U8)) 256 = Ok 0 /\
  cast XZ (Plain (N I64)) (Plain (N I32)) (2 ^ 31) = Ok (- 2 ^ 31) /\
  cast XZ (Plain (N I32)) (Plain Bool) 1 = Ok true /\ cast XZ (Plain (N I32)) (Plain Bool) 2 = Panic OtherPanic /\
  n_abs XZ I32 (-5) = Ok 5 /\ n_abs XZ I32 (imin I32) = Panic Overflow /\ n_abs XZ U8 200 = Ok 200 /\
  map_ XZ (Plain (N F64)) (Plain (N F64)) (fun _ => Some 1) None = Ok (Some 1) /\
  map_ XZ (Opt (N F64)) (Plain (N F64)) (fun _ => Some 1) None = Ok None.
Proof. vm_compute. repeat split. Qed.

Example C15_example_unit_cast :
  Time.into_unit Time.Nano Time.Milli (-1) = Ok (-1) /\ Time.into_unit Time.Sec Time.Nano (2 ^ 62) = Panic Overflow /\
  Time.into_unit Time.Milli Time.Nano Time.NaT = Ok Time.NaT /\ Time.in_i64 (-1) = true.
Proof. vm_compute. repeat split. Qed.

Print Assumptions C15_predicates_coherent.
Print Assumptions C15_none_is_null.
Print Assumptions C15_wrap_unwrap_identity.
Print Assumptions C15_from_opt_to_opt.
Print Assumptions C15_into_cast_rewraps.
Print Assumptions C15_vabs_preserves_nullness.
Print Assumptions C15_cast_null_preserved.
Print Assumptions C15_cast_null_to_option_is_None.
Print Assumptions C15_cast_nonnull_preserved.
Print Assumptions C15_cast_value_is_as.
Print Assumptions C15_as_integer_part.
Print Assumptions C15_cast_composes_opt_opt.
Print Assumptions C15_cast_composes_plain_opt.
Print Assumptions C15_cast_composes_td_opt_i64.
Print Assumptions C15_cast_composes_opt_plain.
Print Assumptions C15_sort_cmp_total_preorder.
Print Assumptions C15_sort_cmp_rev_total_preorder.
Print Assumptions C15_sort_cmp_orders_values.
Print Assumptions C15_inner_order_is_value_order.
Print Assumptions C15_sort_cmp_nulls_last.
Print Assumptions C15_text_null_class_refuted.
Print Assumptions C15_cast_to_time_null_iff_sentinel.
Print Assumptions C15_cast_timedelta_to_i64.
Print Assumptions C15_cast_null_to_nonnullable_panics.
Print Assumptions C15_cast_null_total_or_panics_by_design.
Print Assumptions C15_vabs_values.
Print Assumptions C15_vabs_rewraps_and_panics_only_on_signed_min.
Print Assumptions C15_map_spec.
Print Assumptions C15_map_plain_source_applies_f_to_nulls_too.
Print Assumptions C15_cast_bool_values.
Print Assumptions C15_cast_numeric_to_bool.
Print Assumptions C15_int_cast_exact_iff_representable.
Print Assumptions C15_sort_cmp_never_panics.
Print Assumptions C15_unit_cast_nullness.
Print Assumptions C15_vec_isnone_coherent.
Print Assumptions C15_pair_coverage.
