(* Props/C10.v — property C10: kernels never index out of bounds and initialise every output slot
   exactly once.  Statements about the drivers' access traces (Model/Kernels.v), for every series
   length, every window (0 and > len included) and every second-series length.  Axiom-free.       *)
From Tevec Require Import Base.Prelude Model.Driver Proofs.Driver Model.Kernels Proofs.Kernels.

(* (1) unchecked element reads and output writes of the remove/add bodies are in bounds *)
Theorem C10_apply_reads_in_bounds :
  forall w len len2, Forall (acc_ok len len2) (trace_apply_to w len).
Proof. exact trace_apply_to_ok. Qed.

Theorem C10_apply2_reads_in_bounds :
  forall w len len2, len <= len2 -> Forall (acc_ok len len2) (trace_apply2_to w len).
Proof. exact trace_apply2_to_ok. Qed.

(* (2) window-index bodies: the driver's read is in bounds, and so is every read of a callback that
   stays inside its window start.unwrap_or(0) ..= end (the rescans of cmp.rs / norm.rs / reg.rs) *)
Theorem C10_idx_reads_in_bounds :
  forall cb w len len2, cb_reads_in_window cb -> len <= len2 ->
    Forall (acc_ok len len2) (trace_idx_to cb w len).
Proof. exact trace_idx_to_ok. Qed.

Theorem C10_idx2_reads_in_bounds :
  forall cb w len len2, cb_reads_in_window cb -> len <= len2 ->
    Forall (acc_ok len len2) (trace_idx2_to cb w len).
Proof. exact trace_idx2_to_ok. Qed.

(* (3) slice forms pass only ranges 0 <= start <= end <= len *)
Theorem C10_slices_in_bounds_buffer :
  forall w len len2, Forall (acc_ok len len2) (trace_custom_to w len).
Proof. exact trace_custom_to_ok. Qed.

Theorem C10_slices_in_bounds_lazy :
  forall w len len2, 1 <= w -> Forall (acc_ok len len2) (trace_custom_iter w len).
Proof. exact trace_custom_iter_ok. Qed.

Theorem C10_slices_in_bounds_two :
  forall w len len2, 1 <= w -> len <= len2 -> Forall (acc_ok len len2) (trace_custom2 w len).
Proof. exact trace_custom2_ok. Qed.

(* (4) every slot of the output buffer is written exactly once (the writes are 0,1,..,len-1) *)
Theorem C10_each_slot_once_apply :
  forall w len, bad_window w (seq 0 len) = false -> writes_of (trace_apply_to w len) = seq 0 len.
Proof. exact trace_apply_to_writes. Qed.

Theorem C10_each_slot_once_apply2 :
  forall w len, bad_window w (seq 0 len) = false -> writes_of (trace_apply2_to w len) = seq 0 len.
Proof. exact trace_apply2_to_writes. Qed.

Theorem C10_each_slot_once_idx :
  forall cb w len, (forall st e, writes_of (cb st e) = []) ->
    bad_window w (seq 0 len) = false -> writes_of (trace_idx_to cb w len) = seq 0 len.
Proof. exact trace_idx_to_writes. Qed.

Theorem C10_each_slot_once_custom :
  forall w len, bad_window w (seq 0 len) = false -> writes_of (trace_custom_to w len) = seq 0 len.
Proof. exact trace_custom_to_writes. Qed.

Theorem C10_each_slot_once_write :
  forall len len2, Forall (acc_ok len len2) (trace_write len) /\ writes_of (trace_write len) = seq 0 len.
Proof. exact trace_write_ok. Qed.

(* (5) degenerate parameters: a complete result or a clean panic, never an exposed unwritten slot *)
Theorem C10_never_uninit :
  forall (T St O : Type) (w : nat) (f : St -> option T * T -> St * O) (s0 : St) (xs : list T),
    (exists out, rolling_apply_to w f s0 xs = Done out /\ length out = length xs) \/
    rolling_apply_to w f s0 xs = Panicked AssertFail.
Proof. exact @outcome_never_uninit_apply. Qed.

Theorem C10_window0_rejected :
  forall (T St O : Type) (f : St -> option T * T -> St * O) (s0 : St) (xs : list T),
    xs <> [] ->
    rolling_apply_to 0 f s0 xs = Panicked AssertFail /\
    rolling_apply_default 0 f s0 xs = Panicked AssertFail.
Proof. intros; split; [apply window0_rejected_to|apply window0_rejected_default]; assumption. Qed.

Theorem C10_empty_input :
  forall (T St O : Type) (w : nat) (f : St -> option T * T -> St * O) (s0 : St),
    rolling_apply_to w f s0 (@nil T) = Done [] /\ rolling_apply_default w f s0 (@nil T) = Done [].
Proof. exact @empty_input_to. Qed.

Theorem C10_short_second_series_rejected :
  forall (T1 T2 St O : Type) (w : nat) (f : St -> option (T1 * T2) * (T1 * T2) -> St * O) (s0 : St)
         (xs : list T1) (ys : list T2),
    length ys < length xs -> rolling2_apply_to w f s0 xs ys = Panicked AssertFail.
Proof. exact @short_second_rejected. Qed.

(* non-vacuity: window 2 over 3 elements *)
Example C10_example :
  trace_apply_to 2 3 = [AUget 0 0; AUset 0; AUget 0 0; AUget 0 1; AUset 1; AUget 0 1; AUget 0 2; AUset 2].
Proof. reflexivity. Qed.

Print Assumptions C10_apply_reads_in_bounds.
Print Assumptions C10_apply2_reads_in_bounds.
Print Assumptions C10_idx_reads_in_bounds.
Print Assumptions C10_idx2_reads_in_bounds.
Print Assumptions C10_slices_in_bounds_buffer.
Print Assumptions C10_slices_in_bounds_lazy.
Print Assumptions C10_slices_in_bounds_two.
Print Assumptions C10_each_slot_once_apply.
Print Assumptions C10_each_slot_once_apply2.
Print Assumptions C10_each_slot_once_idx.
Print Assumptions C10_each_slot_once_custom.
Print Assumptions C10_each_slot_once_write.
Print Assumptions C10_never_uninit.
Print Assumptions C10_window0_rejected.
Print Assumptions C10_empty_input.
Print Assumptions C10_short_second_series_rejected.
