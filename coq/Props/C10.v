(* Props/C10.v — property C10: kernels never index out of bounds and initialise every output slot
   exactly once.  Statements about the drivers' access traces (Model/Kernels.v), for every series
   length, every window (0 and > len included) and every second-series length.  Axiom-free.       *)
From Tevec Require Import Base.Prelude Model.Driver Proofs.Driver Model.Kernels Proofs.Kernels.
(* extension: the kernels themselves inside the trace model (parts 6-11 below) *)
From Coq Require Import ZArith Permutation.
From Tevec Require Import Base.Num Base.XR Model.Features Model.Cmp Model.Norm Model.Binary Model.Reg Proofs.IdxRun Proofs.IdxPrefix
     Proofs.Kernels2 Proofs.Kernels3 Model.SortCmp Model.Rank Model.Partition Model.Quantile Model.KernelsMap
     Proofs.TransQuantile Proofs.KernelsMap Proofs.KernelsMap2 Proofs.OrderXR Proofs.KernelsXR.
(* extension: the kernel traces step by step (part 12) *)
From Tevec Require Import Model.KernelSteps Proofs.KernelSteps Model.KernelsMapFast Proofs.KernelsMapFast.

(* (1) unchecked element reads and output writes of the remove/add bodies are in bounds *)
Theorem C10_apply_reads_in_bounds :
  forall w len len2, Forall (acc_ok len len2) (trace_apply_to w len).
Proof. exact trace_apply_to_ok. Qed.

Theorem C10_apply2_reads_in_bounds :
  forall w len len2, len <= len2 -> Forall (acc_ok len len2) (trace_apply2_to w len).
Proof. exact trace_apply2_to_ok. Qed.

(* (2) window-index bodies: the driver's read is in bounds, and so is every read of a callback that
   stays inside its window start.unwrap_or(0) ..= end (the rescans of cmp.rs / norm.rs / reg.rs) *)
Theorem C10_idx_reads_in_bounds :
  forall cb w len len2, cb_reads_in_window cb -> len <= len2 ->
    Forall (acc_ok len len2) (trace_idx_to cb w len).
Proof. exact trace_idx_to_ok. Qed.

Theorem C10_idx2_reads_in_bounds :
  forall cb w len len2, cb_reads_in_window cb -> len <= len2 ->
    Forall (acc_ok len len2) (trace_idx2_to cb w len).
Proof. exact trace_idx2_to_ok. Qed.

(* (3) slice forms pass only ranges 0 <= start <= end <= len *)
Theorem C10_slices_in_bounds_buffer :
  forall w len len2, Forall (acc_ok len len2) (trace_custom_to w len).
Proof. exact trace_custom_to_ok. Qed.

Theorem C10_slices_in_bounds_lazy :
  forall w len len2, 1 <= w -> Forall (acc_ok len len2) (trace_custom_iter w len).
Proof. exact trace_custom_iter_ok. Qed.

Theorem C10_slices_in_bounds_two :
  forall w len len2, 1 <= w -> len <= len2 -> Forall (acc_ok len len2) (trace_custom2 w len).
Proof. exact trace_custom2_ok. Qed.

(* (4) every slot of the output buffer is written exactly once (the writes are 0,1,..,len-1) *)
Theorem C10_each_slot_once_apply :
  forall w len, bad_window w (seq 0 len) = false -> writes_of (trace_apply_to w len) = seq 0 len.
Proof. exact trace_apply_to_writes. Qed.

Theorem C10_each_slot_once_apply2 :
  forall w len, bad_window w (seq 0 len) = false -> writes_of (trace_apply2_to w len) = seq 0 len.
Proof. exact trace_apply2_to_writes. Qed.

Theorem C10_each_slot_once_idx :
  forall cb w len, (forall st e, writes_of (cb st e) = []) ->
    bad_window w (seq 0 len) = false -> writes_of (trace_idx_to cb w len) = seq 0 len.
Proof. exact trace_idx_to_writes. Qed.

Theorem C10_each_slot_once_custom :
  forall w len, bad_window w (seq 0 len) = false -> writes_of (trace_custom_to w len) = seq 0 len.
Proof. exact trace_custom_to_writes. Qed.

Theorem C10_each_slot_once_write :
  forall len len2, Forall (acc_ok len len2) (trace_write len) /\ writes_of (trace_write len) = seq 0 len.
Proof. exact trace_write_ok. Qed.

(* (5) degenerate parameters: a complete result or a clean panic, never an exposed unwritten slot *)
Theorem C10_never_uninit :
  forall (T St O : Type) (w : nat) (f : St -> option T * T -> St * O) (s0 : St) (xs : list T),
    (exists out, rolling_apply_to w f s0 xs = Done out /\ length out = length xs) \/
    rolling_apply_to w f s0 xs = Panicked AssertFail.
Proof. exact @outcome_never_uninit_apply. Qed.

Theorem C10_window0_rejected :
  forall (T St O : Type) (f : St -> option T * T -> St * O) (s0 : St) (xs : list T),
    xs <> [] ->
    rolling_apply_to 0 f s0 xs = Panicked AssertFail /\
    rolling_apply_default 0 f s0 xs = Panicked AssertFail.
Proof. intros; split; [apply window0_rejected_to|apply window0_rejected_default]; assumption. Qed.

Theorem C10_empty_input :
  forall (T St O : Type) (w : nat) (f : St -> option T * T -> St * O) (s0 : St),
    rolling_apply_to w f s0 (@nil T) = Done [] /\ rolling_apply_default w f s0 (@nil T) = Done [].
Proof. exact @empty_input_to. Qed.

Theorem C10_short_second_series_rejected :
  forall (T1 T2 St O : Type) (w : nat) (f : St -> option (T1 * T2) * (T1 * T2) -> St * O) (s0 : St)
         (xs : list T1) (ys : list T2),
    length ys < length xs -> rolling2_apply_to w f s0 xs ys = Panicked AssertFail.
Proof. exact @short_second_rejected. Qed.

(* non-vacuity: window 2 over 3 elements *)
Example C10_example :
  trace_apply_to 2 3 = [AUget 0 0; AUset 0; AUget 0 0; AUget 0 1; AUset 1; AUget 0 1; AUget 0 2; AUset 2].
Proof. reflexivity. Qed.


(* ======================================================================================================
   (6) the rescanning callbacks of cmp.rs / norm.rs / reg.rs inside the trace model.  `X_cb_tr` is the text of the
   model callback `X_cb` in the traced monad (every `uget` logged).  ERASURE: it computes the model value.
   READS: every access it performs is an unchecked read at an index of start.unwrap_or(0) ..= end — for every
   state, every series, EVERY CARRIER (memory safety does not depend on the element type or on its order).   *)
Theorem C10_vext_cb_traced :
  forall (A T : Type) (NA : Num A) (DT : IsNone T A) (scmp : option A -> option A -> comparison)
         (xs : list T) (mp : nat) (s : @ext A) (st : option nat) (e : nat) (v : T),
    snd (vext_cb_tr scmp mp xs s (st, e, v)) = vext_cb scmp mp xs s (st, e, v) /\
    (start_le st e -> reads_within (start_or_0 st) e (fst (vext_cb_tr scmp mp xs s (st, e, v)))).
Proof. intros. split; [apply vext_cb_tr_erase|apply vext_cb_tr_reads]. Qed.

Theorem C10_varg_cb_traced :
  forall (A T : Type) (NA : Num A) (DT : IsNone T A) (scmp : option A -> option A -> comparison)
         (xs : list T) (mp : nat) (s : @ext A) (st : option nat) (e : nat) (v : T),
    snd (varg_cb_tr scmp mp xs s (st, e, v)) = varg_cb scmp mp xs s (st, e, v) /\
    (start_le st e -> reads_within (start_or_0 st) e (fst (varg_cb_tr scmp mp xs s (st, e, v)))).
Proof. intros. split; [apply varg_cb_tr_erase|apply varg_cb_tr_reads]. Qed.

Theorem C10_vrank_cb_traced :
  forall (A T B : Type) (NA : Num A) (DT : IsNone T A) (NB : Num B) (xs : list T) (mp wm1 : nat) (pct rev : bool)
         (n : nat) (st : option nat) (e : nat) (v : T),
    snd (vrank_cb_tr (B := B) mp wm1 pct rev xs n (st, e, v)) = vrank_cb mp wm1 pct rev xs n (st, e, v) /\
    (start_le st e -> reads_within (start_or_0 st) e (fst (vrank_cb_tr (B := B) mp wm1 pct rev xs n (st, e, v)))).
Proof. intros. split; [apply vrank_cb_tr_erase|apply vrank_cb_tr_reads]. Qed.

Theorem C10_mmnorm_cb_traced :
  forall (A T : Type) (NA : Num A) (DT : IsNone T A) (tmin tmax : A) (xs : list T) (mp : nat) (s : @mm A)
         (st : option nat) (e : nat) (v : T),
    snd (mmnorm_cb_tr tmin tmax mp xs s (st, e, v)) = mmnorm_cb tmin tmax mp xs s (st, e, v) /\
    (start_le st e -> reads_within (start_or_0 st) e (fst (mmnorm_cb_tr tmin tmax mp xs s (st, e, v)))).
Proof. intros. split; [apply mmnorm_cb_tr_erase|apply mmnorm_cb_tr_reads]. Qed.

Theorem C10_resid_cb_reads_in_window :
  forall (A T1 T2 : Type) (NA : Num A) (D1 : IsNone T1 A) (D2 : IsNone T2 A) (zs : list (T1 * T2)) (k : rstat)
         (mp : nat) (s : @csum A) (st : option nat) (e : nat) (v : T1 * T2),
    start_le st e -> reads_within (start_or_0 st) e (fst (resid_cb_tr k mp zs s (st, e, v))).
Proof. intros. apply resid_cb_tr_reads. assumption. Qed.

(* (7) the access trace of a WHOLE call of each kernel (driver reads + callback reads + slot writes, threaded
   through the callback state; a panic in the callback ends the trace) is in bounds — unconditionally: every
   series, every window (0 and > len included), every min_periods, both bodies, every carrier.            *)
Theorem C10_ts_vmin_vmax_trace_in_bounds :
  forall (A T : Type) (NA : Num A) (DT : IsNone T A) (scmp : option A -> option A -> comparison)
         (body : bool) (w : nat) (mp : option nat) (xs : list T) (len2 : nat),
    length xs <= len2 -> Forall (acc_ok (length xs) len2) (trace_ts_vext scmp body w mp xs).
Proof. intros. apply trace_ts_vext_ok. assumption. Qed.

Theorem C10_ts_vargmin_vargmax_trace_in_bounds :
  forall (A T : Type) (NA : Num A) (DT : IsNone T A) (scmp : option A -> option A -> comparison)
         (body : bool) (w : nat) (mp : option nat) (xs : list T) (len2 : nat),
    length xs <= len2 -> Forall (acc_ok (length xs) len2) (trace_ts_varg scmp body w mp xs).
Proof. intros. apply trace_ts_varg_ok. assumption. Qed.

Theorem C10_ts_vrank_trace_in_bounds :
  forall (A T B : Type) (NA : Num A) (DT : IsNone T A) (NB : Num B)
         (body : bool) (w : nat) (mp : option nat) (pct rev : bool) (xs : list T) (len2 : nat),
    length xs <= len2 -> Forall (acc_ok (length xs) len2) (trace_ts_vrank (B := B) body w mp pct rev xs).
Proof. intros. apply trace_ts_vrank_ok. assumption. Qed.

Theorem C10_ts_vminmaxnorm_trace_in_bounds :
  forall (A T : Type) (NA : Num A) (DT : IsNone T A) (tmin tmax : A)
         (body : bool) (w : nat) (mp : option nat) (xs : list T) (len2 : nat),
    length xs <= len2 -> Forall (acc_ok (length xs) len2) (trace_ts_vminmaxnorm tmin tmax body w mp xs).
Proof. intros. apply trace_ts_vminmaxnorm_ok. assumption. Qed.

(* two series: every pair of lengths (a shorter second series is rejected before anything is read) *)
Theorem C10_ts_vregx_resid_trace_in_bounds :
  forall (A T1 T2 : Type) (NA : Num A) (D1 : IsNone T1 A) (D2 : IsNone T2 A) (k : rstat)
         (body : bool) (w : nat) (mp : option nat) (xs : list T1) (ys : list T2),
    Forall (acc_ok (length xs) (length ys)) (trace_ts_vregx_resid (A := A) k body w mp xs ys).
Proof. intros. apply trace_ts_vregx_resid_ok. Qed.

(* (8) two-phase bodies: the slots written are exactly 0..len-1, once each, in order *)
Theorem C10_each_slot_once_ts_vmin_vmax :
  forall (A T : Type) (NA : Num A) (DT : IsNone T A) (scmp : option A -> option A -> comparison)
         (w : nat) (mp : option nat) (xs : list T),
    bad_window w xs = false -> writes_of (trace_ts_vext scmp true w mp xs) = seq 0 (length xs).
Proof. intros. apply trace_ts_vext_writes. assumption. Qed.

Theorem C10_each_slot_once_ts_vargmin_vargmax :
  forall (A T : Type) (NA : Num A) (DT : IsNone T A) (scmp : option A -> option A -> comparison)
         (w : nat) (mp : option nat) (xs : list T),
    scmp_refl_on scmp xs -> bad_window w xs = false ->
    writes_of (trace_ts_varg scmp true w mp xs) = seq 0 (length xs).
Proof. intros. apply trace_ts_varg_writes; assumption. Qed.

Theorem C10_each_slot_once_ts_vrank :
  forall (A T B : Type) (NA : Num A) (DT : IsNone T A) (NB : Num B)
         (w : nat) (mp : option nat) (pct rev : bool) (xs : list T),
    bad_window w xs = false -> writes_of (trace_ts_vrank (B := B) true w mp pct rev xs) = seq 0 (length xs).
Proof. intros. apply trace_ts_vrank_writes. assumption. Qed.

Theorem C10_each_slot_once_ts_vminmaxnorm :
  forall (A T : Type) (NA : Num A) (DT : IsNone T A) (tmin tmax : A) (w : nat) (mp : option nat) (xs : list T),
    bad_window w xs = false -> writes_of (trace_ts_vminmaxnorm tmin tmax true w mp xs) = seq 0 (length xs).
Proof. intros. apply trace_ts_vminmaxnorm_writes. assumption. Qed.

Theorem C10_each_slot_once_ts_vregx_resid :
  forall (A T1 T2 : Type) (NA : Num A) (D1 : IsNone T1 A) (D2 : IsNone T2 A) (k : rstat)
         (w : nat) (mp : option nat) (xs : list T1) (ys : list T2),
    length xs <= length ys -> bad_window w xs = false ->
    writes_of (trace_ts_vregx_resid (A := A) k true w mp xs ys) = seq 0 (length xs).
Proof. intros. apply trace_ts_vregx_resid_writes; assumption. Qed.

(* (9) the model's `uget` is a CHECKED read (out of range = Panic OtherPanic), `n -= 1` is `usub`,
   `start.unwrap()` is Panic UnwrapNone: a result `Done out` says none of them happened.  Every series, every
   window, every min_periods, both bodies, every carrier: a complete result, or the documented rejection of
   window 0 on a non-empty series — never a panic inside the callback, never `Uninit`.                    *)
Theorem C10_ts_vmin_safe :
  forall (A T : Type) (NA : Num A) (DT : IsNone T A) (body : bool) (w : nat) (mp : option nat) (xs : list T),
    kernel_safe w xs (ts_vmin body w mp xs).
Proof. intros. apply ts_vmin_safe. Qed.
Theorem C10_ts_vmax_safe :
  forall (A T : Type) (NA : Num A) (DT : IsNone T A) (body : bool) (w : nat) (mp : option nat) (xs : list T),
    kernel_safe w xs (ts_vmax body w mp xs).
Proof. intros. apply ts_vmax_safe. Qed.
(* the offset `min_idx - start` additionally needs that every non-null element equals itself (false only for
   Some(NaN) in an optional float series, outside DESIGN 5.4) *)
Theorem C10_ts_vargmin_safe :
  forall (A T : Type) (NA : Num A) (DT : IsNone T A) (body : bool) (w : nat) (mp : option nat) (xs : list T),
    self_eq_on xs -> kernel_safe w xs (ts_vargmin body w mp xs).
Proof. intros. apply ts_vargmin_safe. assumption. Qed.
Theorem C10_ts_vargmax_safe :
  forall (A T : Type) (NA : Num A) (DT : IsNone T A) (body : bool) (w : nat) (mp : option nat) (xs : list T),
    self_eq_on xs -> kernel_safe w xs (ts_vargmax body w mp xs).
Proof. intros. apply ts_vargmax_safe. assumption. Qed.
Theorem C10_ts_vargmin_vargmax_safe_int :
  forall (T : Type) (DT : IsNone T Z) (body : bool) (w : nat) (mp : option nat) (xs : list T),
    kernel_safe w xs (ts_vargmin body w mp xs) /\ kernel_safe w xs (ts_vargmax body w mp xs).
Proof. intros. split; [apply ts_vargmin_safe|apply ts_vargmax_safe]; apply self_eq_on_Z. Qed.
Theorem C10_ts_vrank_safe :
  forall (A T B : Type) (NA : Num A) (DT : IsNone T A) (NB : Num B)
         (body : bool) (w : nat) (mp : option nat) (pct rev : bool) (xs : list T),
    kernel_safe w xs (ts_vrank (B := B) body w mp pct rev xs).
Proof. intros. apply ts_vrank_safe. Qed.
Theorem C10_ts_vminmaxnorm_safe :
  forall (A T : Type) (NA : Num A) (DT : IsNone T A) (tmin tmax : A)
         (body : bool) (w : nat) (mp : option nat) (xs : list T),
    kernel_safe w xs (ts_vminmaxnorm tmin tmax body w mp xs).
Proof. intros. apply ts_vminmaxnorm_safe. Qed.
(* reg.rs residual statistics: the CHECKED text (reads through `uget`, `n -= 1` through `usub`) returns exactly
   what the pure model of Model/Reg.v returns, for every window, every pair of lengths, both bodies *)
Theorem C10_ts_vregx_resid_checked :
  forall (A T1 T2 : Type) (NA : Num A) (D1 : IsNone T1 A) (D2 : IsNone T2 A) (k : rstat)
         (body : bool) (w : nat) (mp : option nat) (xs : list T1) (ys : list T2),
    ts_vregx_resid_chk (A := A) k body w mp xs ys = ts_vregx_resid k body w mp xs ys.
Proof. intros. apply ts_vregx_resid_chk_eq. Qed.
Theorem C10_ts_vregx_resid_safe :
  forall (A T1 T2 : Type) (NA : Num A) (D1 : IsNone T1 A) (D2 : IsNone T2 A) (k : rstat)
         (body : bool) (w : nat) (mp : option nat) (xs : list T1) (ys : list T2),
    (exists out, ts_vregx_resid (A := A) k body w mp xs ys = Done out /\
                 length out = Nat.min (length xs) (length ys)) \/
    ts_vregx_resid (A := A) k body w mp xs ys = Panicked AssertFail.
Proof. intros. apply ts_vregx_resid_safe. Qed.

(* (10) vrank (tea-map): the checked, traced text (series = view 0, internal Vec<usize> idx_sorted = view 2, both of
   length len; `i - j` and `len - repeat_num` through `usub`) performs only in-bounds accesses, never panics and
   returns the value of Model/Rank.v — every series (empty, one element, all null), both flags, every carrier *)
Theorem C10_vrank_checked :
  forall (A T : Type) (NA : Num A) (DT : IsNone T A) (DX : IsNoneX T A) (pct rev : bool) (xs : list T),
    Forall (acc_ok (length xs) (length xs)) (fst (vrank_tr pct rev xs)) /\
    snd (vrank_tr pct rev xs) = Ok (vrank pct rev xs).
Proof. intros. split; [apply vrank_tr_in_bounds|apply vrank_tr_value]. Qed.

(* every output slot is written exactly once: on the uninitialised-buffer path (len >= 2, first sorted element
   non-null) the slots written are a permutation of 0..len-1; the other paths return O::empty() / O::full(len, ..)
   (an initialised allocation) and perform no `uset` *)
Theorem C10_vrank_each_slot_once :
  forall (A T : Type) (NA : Num A) (DT : IsNone T A) (DX : IsNoneX T A) (pct rev : bool) (xs : list T),
    2 <= length xs ->
    get_is_none xs (nth 0 (isort (cmp_idx (cmp_dir rev) xs) (seq 0 (length xs))) 0) = false ->
    Permutation (writes_of (fst (vrank_tr pct rev xs))) (seq 0 (length xs)).
Proof. intros. apply vrank_tr_writes_perm; assumption. Qed.
Theorem C10_vrank_initialised_paths :
  forall (A T : Type) (NA : Num A) (DT : IsNone T A) (DX : IsNoneX T A) (pct rev : bool) (xs : list T),
    length xs <= 1 \/ get_is_none xs (nth 0 (isort (cmp_idx (cmp_dir rev) xs) (seq 0 (length xs))) 0) = true ->
    writes_of (fst (vrank_tr pct rev xs)) = [] /\
    (length xs <= 1 \/ vrank pct rev xs = repeat (Some nnan) (length xs)).
Proof. intros. apply vrank_tr_writes_none; assumption. Qed.

(* (11) vpartition / varg_partition / vquantile / vmedian *)
Theorem C10_partition_select_in_range :
  forall (A T : Type) (NA : Num A) (DT : IsNone T A) (kth : nat) (xs : list T),
    (count_valid xs <=? kth + 1) = false ->
    kth < length (seq 0 (length xs)) /\ kth < length xs /\ kth + 1 <= length xs.
Proof. intros. apply partition_select_in_range. assumption. Qed.
Theorem C10_varg_partition_trusted_len :
  forall (A T : Type) (NA : Num A) (DT : IsNone T A) (kth : nat) (sort rev : bool) (xs : list T),
    length (varg_partition kth sort rev xs) = kth + 1 /\
    Forall (fun z => z = (-1)%Z \/ (0 <= z < Z.of_nat (length xs))%Z) (varg_partition kth sort rev xs).
Proof. intros. split; [apply varg_partition_length|apply varg_partition_in_range]. Qed.
Theorem C10_vpartition_trusted_len :
  forall (A T : Type) (NA : Num A) (DT : IsNone T A) (DX : IsNoneX T A) (kth : nat) (sort rev : bool)
         (xs : list T) (l : list T),
    vpartition kth sort rev xs = Ok l -> length l = kth + 1.
Proof. intros A T NA DT DX kth sort rev xs l. apply vpartition_length. Qed.
Theorem C10_vpartition_panics_only_without_none :
  forall (A T : Type) (NA : Num A) (DT : IsNone T A) (DX : IsNoneX T A) (kth : nat) (sort rev : bool) (xs : list T),
    ((exists pad, tnone = Ok pad) \/ kth + 1 <= count_valid xs) ->
    exists l, vpartition kth sort rev xs = Ok l /\ length l = kth + 1.
Proof.
  intros A T NA DT DX kth sort rev xs [[pad H]|H]; [apply (vpartition_ok _ _ _ _ pad H)|apply vpartition_no_padding_ok; exact H].
Qed.
Theorem C10_vquantile_rejects_bad_q :
  forall (A T : Type) (NA : Num A) (NF : NumFloor A) (DT : IsNone T A) (q : A) (m : qmethod) (xs : list T),
    nleb nzero q && nleb q none = false -> vquantile q m xs = Ok None.
Proof. intros. apply vquantile_bad_q_any. assumption. Qed.
Theorem C10_vquantile_index_in_range :
  forall (A T : Type) (NA : Num A) (NF : NumFloor A) (DT : IsNone T A),
    QIdxLaw (A := A) -> forall (q : A) (xs : list T),
    nleb nzero q && nleb q none = true -> 2 <= count_valid xs -> qsel_index q (count_valid xs) < length xs.
Proof. intros A T NA NF DT. apply vquantile_index_in_range. Qed.
Theorem C10_vquantile_never_panics :
  forall (A T : Type) (NA : Num A) (NF : NumFloor A) (DT : IsNone T A),
    QIdxLaw (A := A) -> forall (q : A) (m : qmethod) (xs : list T),
    exists r, vquantile q m xs = Ok r /\ (r = None <-> nleb nzero q && nleb q none = false).
Proof. intros A T NA NF DT. apply vquantile_never_panics. Qed.
Theorem C10_vquantile_vmedian_never_panic_real :
  forall (q : XR) (m : qmethod) (xs : list XR),
    (exists r, vquantile (NF := NumFloorXR) (DT := IsNoneXR) q m xs = Ok r /\
               (r = None <-> nleb nzero q && nleb q none = false)) /\
    (exists v, vmedian (NF := NumFloorXR) (DT := IsNoneXR) xs = Ok v).
Proof. intros. split; [apply vquantile_never_panics_xr|apply vmedian_never_panics_xr]. Qed.
Theorem C10_select_nth_panics_iff_out_of_range :
  forall (A T : Type) (NA : Num A) (NF : NumFloor A) (DT : IsNone T A) (cmp : T -> T -> comparison) (j : nat) (slc : list T),
    (j < length slc -> exists hm, select_nth cmp j slc = Ok hm) /\
    (length slc <= j -> select_nth cmp j slc = Panic OtherPanic).
Proof. intros. split; [apply select_nth_ok|apply select_nth_panics]. Qed.

(* ---- non-vacuity of the new implications (integer carrier, never-null dictionary) ---- *)
Example C10_kernel_trace_example :
  trace_ts_vext (A := Z) (T := Z) (DT := IsNone_never) Cmp.sort_cmp true 2 (Some 1) [1; 3; 2]%Z
  = [AUget 0 0; AUset 0; AUget 0 1; AUget 0 0; AUset 1; AUget 0 2; AUget 0 1; AUget 0 1; AUget 0 2; AUget 0 1; AUset 2].
Proof. vm_compute. reflexivity. Qed.
Example C10_kernel_safe_example :
  ts_vargmin (A := Z) (T := Z) (DT := IsNone_never) true 2 (Some 1) [3; 1; 2]%Z = Done [Some 1; Some 2; Some 1]
  /\ self_eq_on (A := Z) (DT := IsNone_never) [3; 1; 2]%Z
  /\ ts_vargmin (A := Z) (T := Z) (DT := IsNone_never) true 0 (Some 1) [3]%Z = Panicked AssertFail
  /\ bad_window 2 [3; 1; 2]%Z = false /\ bad_window 0 [3]%Z = true.
Proof. split; [vm_compute; reflexivity|]. split; [apply self_eq_on_Z|]. repeat split; reflexivity. Qed.
Example C10_resid_trace_example :
  trace_ts_vregx_resid (A := Z) (T1 := Z) (T2 := Z) (D1 := IsNone_never) (D2 := IsNone_never) RMean true 2 (Some 1) [1; 2]%Z [5; 7; 9]%Z
  = [AUget 0 0; AUget 1 0; AUget 0 0; AUget 1 0; AUset 0;
     AUget 0 1; AUget 1 1; AUget 0 0; AUget 1 0; AUget 0 1; AUget 1 1; AUget 0 0; AUget 1 0; AUset 1]
  /\ trace_ts_vregx_resid (A := Z) (T1 := Z) (T2 := Z) (D1 := IsNone_never) (D2 := IsNone_never) RMean true 2 (Some 1) [1; 2]%Z [5]%Z = [].
Proof. split; vm_compute; reflexivity. Qed.
Example C10_vrank_trace_example :
  writes_of (fst (vrank_tr (A := Z) (T := Z) (DT := IsNone_never) (DX := IsNoneX_never) false false [30; 10; 20]%Z)) = [1; 2; 0]
  /\ snd (vrank_tr (A := Z) (T := Z) (DT := IsNone_never) (DX := IsNoneX_never) false false [30; 10; 20]%Z)
     = Ok [Some 3; Some 1; Some 2]%Z
  /\ get_is_none (DT := IsNone_never) [30; 10; 20]%Z
       (nth 0 (isort (cmp_idx (cmp_dir (DT := IsNone_never) false) [30; 10; 20]%Z) (seq 0 3)) 0) = false.
Proof. repeat split; vm_compute; reflexivity. Qed.
Example C10_partition_example :
  varg_partition (A := Z) (T := Z) (DT := IsNone_never) 1 true false [30; 10; 20]%Z = [1; 2]%Z
  /\ (count_valid (DT := IsNone_never) [30; 10; 20]%Z <=? 1 + 1) = false
  /\ vpartition (A := Z) (T := Z) (DT := IsNone_never) (DX := IsNoneX_never) 4 false false [30; 10]%Z = Panic OtherPanic
  /\ vpartition (A := Z) (T := Z) (DT := IsNone_never) (DX := IsNoneX_never) 1 true false [30; 10; 20]%Z = Ok [10; 20]%Z.
Proof. repeat split; vm_compute; reflexivity. Qed.

(* (12) the kernel traces STEP BY STEP (Model/KernelSteps.v) — the form in which the instrumented implementation
   run is compared with the model, one callback invocation at a time (Run/RunC10.v : run_ksteps, run_ksteps2,
   run_vrank_segs; harness/src/bin/c10.rs part=ktrace) *)
(* concatenating the steps gives the kernel trace back: nothing added, dropped or reordered — every traced
   callback, every window (0 and > len included), both bodies, one or two series *)
Theorem C10_kernel_steps_flatten :
  forall (T St O : Type) (body two : bool) (w : nat) (cbt : St -> option nat * nat * T -> tr (St * O)) (s0 : St)
         (xs : list T),
    flat_map kstep_accs (kernel_steps body two w cbt s0 xs) = kernel_trace body two w cbt s0 xs.
Proof. intros. apply kernel_steps_flatten. Qed.
Theorem C10_entry_steps_flatten :
  forall (A T : Type) (NA : Num A) (DT : IsNone T A) (scmp : option A -> option A -> comparison) (tmin tmax : A)
         (body : bool) (w : nat) (mp : option nat) (pct rev : bool) (xs : list T),
    flat_map kstep_accs (steps_ts_vext scmp body w mp xs) = trace_ts_vext scmp body w mp xs /\
    flat_map kstep_accs (steps_ts_varg scmp body w mp xs) = trace_ts_varg scmp body w mp xs /\
    flat_map kstep_accs (steps_ts_vrank (B := A) body w mp pct rev xs) = trace_ts_vrank (B := A) body w mp pct rev xs /\
    flat_map kstep_accs (steps_ts_vminmaxnorm tmin tmax body w mp xs) = trace_ts_vminmaxnorm tmin tmax body w mp xs.
Proof.
  intros. split; [apply steps_ts_vext_flatten|]. split; [apply steps_ts_varg_flatten|].
  split; [apply steps_ts_vrank_flatten|apply steps_ts_vminmaxnorm_flatten].
Qed.
Theorem C10_resid_steps_flatten :
  forall (A T1 T2 : Type) (NA : Num A) (D1 : IsNone T1 A) (D2 : IsNone T2 A) (K : rstat) (body : bool) (w : nat)
         (mp : option nat) (xs : list T1) (ys : list T2),
    flat_map kstep_accs (steps_ts_vregx_resid (A := A) K body w mp xs ys)
    = trace_ts_vregx_resid (A := A) K body w mp xs ys.
Proof. intros. apply steps_ts_vregx_resid_flatten. Qed.
(* at most one step per position; only the LAST step can carry a panic (unwinding: nothing follows) *)
Theorem C10_kernel_steps_count :
  forall (T St O : Type) (body two : bool) (w : nat) (cbt : St -> option nat * nat * T -> tr (St * O)) (s0 : St)
         (xs : list T),
    length (kernel_steps body two w cbt s0 xs) <= length xs /\
    (forall i k, nth_error (kernel_steps body two w cbt s0 xs) i = Some k -> ks_panic k <> None ->
                 S i = length (kernel_steps body two w cbt s0 xs)).
Proof. intros. split; [apply kernel_steps_length|intros i k; apply kernel_steps_panic_last]. Qed.
(* whenever the erased model run returns there is exactly one step per position and none carries a panic *)
Theorem C10_kernel_steps_complete :
  forall (T St O : Type) (body two : bool) (w : nat) (cbt : St -> option nat * nat * T -> tr (St * O))
         (cb : St -> option nat * nat * T -> res (St * O)) (s0 : St) (xs : list T) (out : list O),
    (forall s a, snd (cbt s a) = cb s a) -> 1 <= w ->
    idx_run body w cb s0 xs = Done out ->
    length (kernel_steps body two w cbt s0 xs) = length xs /\
    Forall (fun k => ks_panic k = None) (kernel_steps body two w cbt s0 xs).
Proof. intros T St O body two w cbt cb s0 xs out He Hw Hr. exact (kernel_steps_complete body two w cbt cb s0 xs out He Hw Hr). Qed.
(* step number i IS position i: its driver reads are those of position i, its write (if the callback returned)
   is slot i and nothing else, and a callback that reads inside [start, end] reads inside the window of i *)
Theorem C10_kernel_step_is_position :
  forall (T St O : Type) (body two : bool) (w : nat) (cbt : St -> option nat * nat * T -> tr (St * O)) (s0 : St)
         (xs : list T) (i : nat) (k : kstep),
    (forall s st e v, start_le st e -> reads_within (start_or_0 st) e (fst (cbt s (st, e, v)))) ->
    1 <= w ->
    nth_error (kernel_steps body two w cbt s0 xs) i = Some k ->
    i < length xs /\
    ks_drv k = (if body then drv_reads two i else []) /\
    (ks_panic k = None -> ks_wr k = if body then [AUset i] else []) /\
    (ks_panic k <> None -> ks_wr k = []) /\
    reads_within (start_or_0 (start_of (eff_window body w (length xs)) i)) i (ks_cb k).
Proof. intros T St O body two w cbt s0 xs i k Hcb Hw Hk. exact (kernel_step_shape body two w cbt s0 xs i k Hcb Hw Hk). Qed.
(* the five kernels: the callback reads of step i are unchecked reads of indices of the window of position i
   (window clamped to the length in the cmp family) — every series, window, min_periods, both bodies *)
Theorem C10_steps_ts_vmin_vmax_in_window :
  forall (A T : Type) (NA : Num A) (DT : IsNone T A) (scmp : option A -> option A -> comparison) (body : bool)
         (w : nat) (mp : option nat) (xs : list T) (i : nat) (k : kstep),
    nth_error (steps_ts_vext scmp body w mp xs) i = Some k ->
    step_in_window body (cmp_window w xs) (length xs) i k.
Proof. intros. eapply steps_ts_vext_in_window; eassumption. Qed.
Theorem C10_steps_ts_vargmin_vargmax_in_window :
  forall (A T : Type) (NA : Num A) (DT : IsNone T A) (scmp : option A -> option A -> comparison) (body : bool)
         (w : nat) (mp : option nat) (xs : list T) (i : nat) (k : kstep),
    nth_error (steps_ts_varg scmp body w mp xs) i = Some k ->
    step_in_window body (cmp_window w xs) (length xs) i k.
Proof. intros. eapply steps_ts_varg_in_window; eassumption. Qed.
Theorem C10_steps_ts_vrank_in_window :
  forall (A T B : Type) (NA : Num A) (DT : IsNone T A) (NB : Num B) (body : bool) (w : nat) (mp : option nat)
         (pct rev : bool) (xs : list T) (i : nat) (k : kstep),
    nth_error (steps_ts_vrank (B := B) body w mp pct rev xs) i = Some k ->
    step_in_window body (cmp_window w xs) (length xs) i k.
Proof. intros. eapply steps_ts_vrank_in_window; eassumption. Qed.
Theorem C10_steps_ts_vminmaxnorm_in_window :
  forall (A T : Type) (NA : Num A) (DT : IsNone T A) (tmin tmax : A) (body : bool) (w : nat) (mp : option nat)
         (xs : list T) (i : nat) (k : kstep),
    nth_error (steps_ts_vminmaxnorm tmin tmax body w mp xs) i = Some k ->
    step_in_window body w (length xs) i k.
Proof. intros. eapply steps_ts_vminmaxnorm_in_window; eassumption. Qed.
Theorem C10_steps_ts_vregx_resid_in_window :
  forall (A T1 T2 : Type) (NA : Num A) (D1 : IsNone T1 A) (D2 : IsNone T2 A) (K : rstat) (body : bool) (w : nat)
         (mp : option nat) (xs : list T1) (ys : list T2) (i : nat) (k : kstep),
    nth_error (steps_ts_vregx_resid (A := A) K body w mp xs ys) i = Some k ->
    i < Nat.min (length xs) (length ys) /\
    ks_drv k = (if body then drv_reads true i else []) /\
    (ks_panic k = None -> ks_wr k = if body then [AUset i] else []) /\
    reads_within (start_or_0 (start_of (eff_window body w (Nat.min (length xs) (length ys))) i)) i (ks_cb k).
Proof. intros. eapply steps_ts_vregx_resid_in_window; eassumption. Qed.
(* the cells of a step: the sorted read numbers are a permutation of the numbers of the reads the callback
   performs (nothing lost, nothing invented) and sorted; a read of index i of view v is among them exactly
   when the step performs it *)
Theorem C10_step_cells_sound :
  forall t : list acc,
    Permutation (read_nums t) (map acc_num (filter is_read t)) /\ Sorted.Sorted Z.le (read_nums t).
Proof. exact read_nums_sound. Qed.
Theorem C10_step_cells_uget :
  forall (t : list acc) (v i : nat),
    Forall (fun a => match a with AUget v' i' => (Z.of_nat i' < 1000000)%Z | _ => False end) t ->
    (Z.of_nat i < 1000000)%Z ->
    (In (1000000 * (1 + Z.of_nat v) + Z.of_nat i)%Z (read_nums t) <-> In (AUget v i) t).
Proof. exact read_nums_uget. Qed.
(* vrank cut at its writes: the segments concatenate to the observable trace (reads of the series, writes; the
   reads of the internal Vec<usize> are dropped), their writes are the writes of vrank_tr — hence every slot
   exactly once on the uninitialised-buffer path —, every access of every segment is in bounds, and only the
   last segment can lack a write *)
Theorem C10_vrank_segs_flatten :
  forall (A T : Type) (NA : Num A) (DT : IsNone T A) (DX : IsNoneX T A) (pct rev : bool) (xs : list T),
    flat_map wseg_accs (vrank_segs pct rev xs) = filter observable (fst (vrank_tr pct rev xs)) /\
    seg_writes (vrank_segs pct rev xs) = writes_of (fst (vrank_tr pct rev xs)) /\
    (forall i s, nth_error (vrank_segs pct rev xs) i = Some s -> ws_write s = None ->
                 S i = length (vrank_segs pct rev xs)).
Proof.
  intros. split; [apply vrank_segs_flatten|]. split; [apply vrank_segs_writes|].
  intros i s. apply vrank_segs_write_last.
Qed.
Theorem C10_vrank_segs_each_slot_once :
  forall (A T : Type) (NA : Num A) (DT : IsNone T A) (DX : IsNoneX T A) (pct rev : bool) (xs : list T),
    2 <= length xs ->
    get_is_none xs (nth 0 (isort (cmp_idx (cmp_dir rev) xs) (seq 0 (length xs))) 0) = false ->
    Permutation (seg_writes (vrank_segs pct rev xs)) (seq 0 (length xs)).
Proof. intros. apply vrank_segs_each_slot_once; assumption. Qed.
Theorem C10_vrank_segs_in_bounds :
  forall (A T : Type) (NA : Num A) (DT : IsNone T A) (DX : IsNoneX T A) (pct rev : bool) (xs : list T),
    Forall (fun s => Forall (acc_ok (length xs) (length xs)) (wseg_accs s)) (vrank_segs pct rev xs).
Proof. intros. apply vrank_segs_in_bounds. Qed.
(* the interpreter of Run/RunC10.v runs vrank_tr_fast: the text of vrank_tr with a bind that evaluates its
   continuation once (vm_compute shares nothing; `tbind` mentions `f x` twice) — the same function *)
Theorem C10_vrank_tr_fast_eq :
  forall (A T : Type) (NA : Num A) (DT : IsNone T A) (DX : IsNoneX T A) (pct rev : bool) (xs : list T),
    vrank_tr_fast pct rev xs = vrank_tr pct rev xs /\ vrank_segs_fast pct rev xs = vrank_segs pct rev xs.
Proof. intros. split; [apply vrank_tr_fast_eq|apply vrank_segs_fast_eq]. Qed.
(* the class representative used to compare vrank "modulo ties": an index <= i holding an element of the class *)
Theorem C10_class_rep :
  forall (T : Type) (same : T -> T -> bool) (xs : list T) (i : nat),
    class_rep same xs i <= i /\
    ((forall y, same y y = true) -> forall x, nth_error xs i = Some x ->
       exists y, nth_error xs (class_rep same xs i) = Some y /\ same y x = true).
Proof. intros. split; [apply class_rep_le|intros Hr x Hx; apply class_rep_same; assumption]. Qed.

Example C10_kernel_steps_example :
  let xs := [3; 1; 2; 5]%Z in
  let steps := steps_ts_vext (A := Z) (T := Z) (DT := IsNone_never) (Cmp.sort_cmp (A := Z)) true 2 (Some 1) xs in
  map (fun k => (ks_drv k, read_nums (ks_cb k), ks_wr k, ks_panic k)) steps
  = [([AUget 0 0], [], [AUset 0], None);
     ([AUget 0 1], [1000000], [AUset 1], None);
     ([AUget 0 2], [1000001], [AUset 2], None);
     ([AUget 0 3], [1000002; 1000002; 1000002; 1000003], [AUset 3], None)]%Z
  /\ ts_vmin (A := Z) (T := Z) (DT := IsNone_never) true 2 (Some 1) xs = Done [Some 3; Some 1; Some 1; Some 2]%Z
  /\ nth_error steps 3 = Some {| ks_drv := [AUget 0 3]; ks_cb := [AUget 0 2; AUget 0 2; AUget 0 3; AUget 0 2];
                                 ks_wr := [AUset 3]; ks_panic := None |}.
Proof. repeat split; vm_compute; reflexivity. Qed.
(* a step that carries a panic exists (Some(NaN) analogue at an integer carrier is impossible; the residual
   kernel's index body with a shorter second series has no step at all) *)
Example C10_resid_steps_example :
  map (fun k => (ks_drv k, read_nums (ks_cb k), ks_wr k))
      (steps_ts_vregx_resid (A := Z) (T1 := Z) (T2 := Z) (D1 := IsNone_never) (D2 := IsNone_never) RMean false 2 (Some 1)
                            [1; 2; 3]%Z [5; 7]%Z)
  = [([], [1000000; 2000000], []); ([], [1000000; 1000000; 1000001; 2000000; 2000000; 2000001], [])]%Z
  /\ steps_ts_vregx_resid (A := Z) (T1 := Z) (T2 := Z) (D1 := IsNone_never) (D2 := IsNone_never) RMean true 2 (Some 1)
                          [1; 2; 3]%Z [5; 7]%Z = [].
Proof. split; vm_compute; reflexivity. Qed.
Example C10_vrank_segs_example :
  map (fun s => (ws_reads s, ws_write s))
      (vrank_segs (A := Z) (T := Z) (DT := IsNone_never) (DX := IsNoneX_never) false false [30; 10; 20]%Z)
  = [([AUget 0 1; AUget 0 1; AUget 0 2], Some 1); ([AUget 0 2; AUget 0 0], Some 2); ([], Some 0)]
  /\ class_rep Z.eqb [30; 10; 30; 10]%Z 3 = 1 /\ class_rep Z.eqb [30; 10; 30; 10]%Z 1 = 1.
Proof. repeat split; vm_compute; reflexivity. Qed.

(* ======================================================================================================
   (13, X12) the two-series entry points for EVERY window (0 included) and EVERY pair of lengths (second
   series empty / shorter / equal / longer): the outcome is the panic of the FIRST failing check, in the
   order of the code (check2_* of Model/Driver.v; the harness compares the panic message), or a COMPLETE
   output of the stated length - never an output with an unwritten slot (`Uninit`).                      *)
Theorem C10_two_series_returned_outcome :
  forall (T1 T2 St O : Type) (w : nat) (f : St -> option (T1 * T2) * (T1 * T2) -> St * O) (s0 : St)
         (xs : list T1) (ys : list T2),
    match check2_default w xs ys with
    | Some g => rolling2_apply_default w f s0 xs ys = Panicked (guard_kind g)
    | None => exists l, rolling2_apply_default w f s0 xs ys = Done l
                        /\ length l = Nat.min (length xs) (length ys)
    end.
Proof. exact @rolling2_apply_default_by_check. Qed.

Theorem C10_two_series_idx_returned_outcome :
  forall (T1 T2 St O : Type) (w : nat) (f : St -> option nat * nat * (T1 * T2) -> St * O) (s0 : St)
         (xs : list T1) (ys : list T2),
    match check2_default w xs ys with
    | Some g => rolling2_apply_idx_default w f s0 xs ys = Panicked (guard_kind g)
    | None => exists l, rolling2_apply_idx_default w f s0 xs ys = Done l
                        /\ length l = Nat.min (length xs) (length ys)
    end.
Proof. exact @rolling2_apply_idx_default_by_check. Qed.

Theorem C10_two_series_buffer_outcome :
  forall (T1 T2 St O : Type) (w : nat) (f : St -> option (T1 * T2) * (T1 * T2) -> St * O) (s0 : St)
         (xs : list T1) (ys : list T2),
    match check2_to w xs ys with
    | Some g => rolling2_apply_to w f s0 xs ys = Panicked (guard_kind g)
    | None => exists l, rolling2_apply_to w f s0 xs ys = Done l /\ length l = length xs
    end.
Proof. exact @rolling2_apply_to_by_check. Qed.

Theorem C10_two_series_idx_buffer_outcome :
  forall (T1 T2 St O : Type) (w : nat) (f : St -> option nat * nat * (T1 * T2) -> St * O) (s0 : St)
         (xs : list T1) (ys : list T2),
    match check2_to w xs ys with
    | Some g => rolling2_apply_idx_to w f s0 xs ys = Panicked (guard_kind g)
    | None => exists l, rolling2_apply_idx_to w f s0 xs ys = Done l /\ length l = length xs
    end.
Proof. exact @rolling2_apply_idx_to_by_check. Qed.

Theorem C10_two_series_slice_outcome :
  forall (T1 T2 St O : Type) (w : nat) (f : St -> list T1 * list T2 -> St * O) (s0 : St)
         (xs : list T1) (ys : list T2),
    match check2_custom w xs ys with
    | Some g => rolling2_custom_default w f s0 xs ys = Panicked (guard_kind g)
    | None => exists l, rolling2_custom_default w f s0 xs ys = Done l /\ length l = length xs
    end.
Proof. exact @rolling2_custom_default_by_check. Qed.

(* window 0 on a non-empty first series: both bodies of the residual statistics assert before any access,
   whatever the second series is (also empty: the corner Model/Driver.v had wrong before X12) *)
Theorem C10_resid_window0_rejected :
  forall (A : Type) (NA : Num A) (T1 : Type) (D1 : IsNone T1 A) (T2 : Type) (D2 : IsNone T2 A)
         (K : rstat) (body : bool) (mp : option nat) (xs : list T1) (ys : list T2),
    xs <> [] ->
    ts_vregx_resid (A := A) (D1 := D1) (D2 := D2) K body 0 mp xs ys = Panicked AssertFail
    /\ steps_ts_vregx_resid (A := A) (D1 := D1) (D2 := D2) K body 0 mp xs ys = [].
Proof. intros; apply resid_window0_rejected; assumption. Qed.

(* non-vacuity: each check fires on some input and every one passes on some input *)
Example C10_example_two_series_checks :
  check2_default 0 [1; 2]%Z (@nil Z) = Some GWindow /\ check2_default 0 (@nil Z) [5]%Z = None
  /\ check2_to 0 [1; 2]%Z [5]%Z = Some GShorter /\ check2_to 0 [1; 2]%Z [5; 6]%Z = Some GWindow
  /\ check2_to 2 [1; 2]%Z [5; 6; 7]%Z = None
  /\ check2_custom 0 [1]%Z (@nil Z) = Some GShorter /\ check2_custom 0 (@nil Z) (@nil Z) = Some GUnderflow
  /\ check2_custom 1 [1]%Z [2]%Z = None
  /\ ts_vregx_resid (A := Z) (T1 := Z) (T2 := Z) (D1 := IsNone_never) (D2 := IsNone_never) RMean false 0 (Some 1)
       [1; 2]%Z (@nil Z) = Panicked AssertFail.
Proof. vm_compute. repeat split. Qed.

Print Assumptions C10_apply_reads_in_bounds.
Print Assumptions C10_apply2_reads_in_bounds.
Print Assumptions C10_idx_reads_in_bounds.
Print Assumptions C10_idx2_reads_in_bounds.
Print Assumptions C10_slices_in_bounds_buffer.
Print Assumptions C10_slices_in_bounds_lazy.
Print Assumptions C10_slices_in_bounds_two.
Print Assumptions C10_each_slot_once_apply.
Print Assumptions C10_each_slot_once_apply2.
Print Assumptions C10_each_slot_once_idx.
Print Assumptions C10_each_slot_once_custom.
Print Assumptions C10_each_slot_once_write.
Print Assumptions C10_never_uninit.
Print Assumptions C10_window0_rejected.
Print Assumptions C10_empty_input.
Print Assumptions C10_short_second_series_rejected.
Print Assumptions C10_vext_cb_traced.
Print Assumptions C10_varg_cb_traced.
Print Assumptions C10_vrank_cb_traced.
Print Assumptions C10_mmnorm_cb_traced.
Print Assumptions C10_resid_cb_reads_in_window.
Print Assumptions C10_ts_vmin_vmax_trace_in_bounds.
Print Assumptions C10_ts_vargmin_vargmax_trace_in_bounds.
Print Assumptions C10_ts_vrank_trace_in_bounds.
Print Assumptions C10_ts_vminmaxnorm_trace_in_bounds.
Print Assumptions C10_ts_vregx_resid_trace_in_bounds.
Print Assumptions C10_each_slot_once_ts_vmin_vmax.
Print Assumptions C10_each_slot_once_ts_vargmin_vargmax.
Print Assumptions C10_each_slot_once_ts_vrank.
Print Assumptions C10_each_slot_once_ts_vminmaxnorm.
Print Assumptions C10_each_slot_once_ts_vregx_resid.
Print Assumptions C10_ts_vmin_safe.
Print Assumptions C10_ts_vmax_safe.
Print Assumptions C10_ts_vargmin_safe.
Print Assumptions C10_ts_vargmax_safe.
Print Assumptions C10_ts_vargmin_vargmax_safe_int.
Print Assumptions C10_ts_vrank_safe.
Print Assumptions C10_ts_vminmaxnorm_safe.
Print Assumptions C10_ts_vregx_resid_checked.
Print Assumptions C10_ts_vregx_resid_safe.
Print Assumptions C10_vrank_checked.
Print Assumptions C10_vrank_each_slot_once.
Print Assumptions C10_vrank_initialised_paths.
Print Assumptions C10_partition_select_in_range.
Print Assumptions C10_varg_partition_trusted_len.
Print Assumptions C10_vpartition_trusted_len.
Print Assumptions C10_vpartition_panics_only_without_none.
Print Assumptions C10_vquantile_rejects_bad_q.
Print Assumptions C10_vquantile_index_in_range.
Print Assumptions C10_vquantile_never_panics.
Print Assumptions C10_vquantile_vmedian_never_panic_real.
Print Assumptions C10_select_nth_panics_iff_out_of_range.
Print Assumptions C10_kernel_steps_flatten.
Print Assumptions C10_entry_steps_flatten.
Print Assumptions C10_resid_steps_flatten.
Print Assumptions C10_kernel_steps_count.
Print Assumptions C10_kernel_steps_complete.
Print Assumptions C10_kernel_step_is_position.
Print Assumptions C10_steps_ts_vmin_vmax_in_window.
Print Assumptions C10_steps_ts_vargmin_vargmax_in_window.
Print Assumptions C10_steps_ts_vrank_in_window.
Print Assumptions C10_steps_ts_vminmaxnorm_in_window.
Print Assumptions C10_steps_ts_vregx_resid_in_window.
Print Assumptions C10_step_cells_sound.
Print Assumptions C10_step_cells_uget.
Print Assumptions C10_vrank_segs_flatten.
Print Assumptions C10_vrank_segs_each_slot_once.
Print Assumptions C10_vrank_segs_in_bounds.
Print Assumptions C10_class_rep.
Print Assumptions C10_vrank_tr_fast_eq.
Print Assumptions C10_two_series_returned_outcome.
Print Assumptions C10_two_series_idx_returned_outcome.
Print Assumptions C10_two_series_buffer_outcome.
Print Assumptions C10_two_series_idx_buffer_outcome.
Print Assumptions C10_two_series_slice_outcome.
Print Assumptions C10_resid_window0_rejected.

(* ==== extension: the carrier hypotheses discharged AT BINARY64 ==============================================
   Carrier: Coq's primitive `float` (IEEE 754 binary64, instance NumF64 — what the correspondence run evaluates);
   floor / ceiling: QIdxFloat.NumFloorF64 = the instance of Run/RunC12.v (C12_binary64_floor_instance_is_the_run_instance).
   Proofs: Proofs/QIdxFloat.v (Flocq's specification of IEEE arithmetic; monotone rounding) and Proofs/CmpOrdFloat.v
   (order laws of the primitive comparisons).  Axioms: the Reals axioms + the standard library's specification of the
   primitive float operations (Floats/FloatAxioms.v).                                                            *)
From Coq Require Floats.
From Tevec Require Base.F64 Proofs.CmpOrd Proofs.QIdxFloat.

(* the index law QIdxLaw — premise of C10_vquantile_index_in_range / C10_vquantile_never_panics — holds at binary64 *)
Theorem C10_quantile_index_law_binary64 :
  QIdxLaw (A := PrimFloat.float) (NA := F64.NumF64) (NF := QIdxFloat.NumFloorF64).
Proof. exact QIdxFloat.qidx_law_f64. Qed.

Theorem C10_vquantile_index_in_range_binary64 :
  forall (T : Type) (DT : IsNone T PrimFloat.float) (q : PrimFloat.float) (xs : list T),
    nleb (A := PrimFloat.float) nzero q && nleb q none = true -> 2 <= count_valid xs ->
    qsel_index (NF := QIdxFloat.NumFloorF64) q (count_valid xs) < length xs.
Proof. intros T DT. apply QIdxFloat.vquantile_index_in_range_f64. Qed.

(* vquantile / vmedian never panic at binary64: every series (empty, all null, one element), every q (NaN, infinite and
   out-of-range ones are the documented Err), every method, every null dictionary over f64 *)
Theorem C10_vquantile_vmedian_never_panic_binary64 :
  forall (T : Type) (DT : IsNone T PrimFloat.float) (q : PrimFloat.float) (m : qmethod) (xs : list T),
    (exists r, vquantile (NF := QIdxFloat.NumFloorF64) q m xs = Ok r /\
               (r = None <-> nleb (A := PrimFloat.float) nzero q && nleb q none = false)) /\
    (exists v, vmedian (NF := QIdxFloat.NumFloorF64) xs = Ok v).
Proof.
  intros T DT q m xs. split; [apply QIdxFloat.vquantile_never_panics_f64|apply QIdxFloat.vmedian_never_panics_f64].
Qed.

(* every non-NaN binary64 number equals itself and is not below itself *)
Theorem C10_self_eq_binary64 :
  forall x : PrimFloat.float, PrimFloat.is_nan x = false -> PrimFloat.ltb x x = false /\ PrimFloat.eqb x x = true.
Proof. exact QIdxFloat.f64_self_eq. Qed.

(* hence the premise `self_eq_on` of C10_ts_vargmin_safe / C10_ts_vargmax_safe holds for EVERY f64 series (NaN is the
   null), and for an Option<f64> series without Some(NaN) (DESIGN 5.4): ts_vargmin / ts_vargmax are safe at binary64 *)
Theorem C10_ts_vargmin_vargmax_safe_binary64 :
  forall (body : bool) (w : nat) (mp : option nat) (xs : list PrimFloat.float),
    kernel_safe w xs (ts_vargmin (DT := F64.IsNoneF64) body w mp xs) /\
    kernel_safe w xs (ts_vargmax (DT := F64.IsNoneF64) body w mp xs).
Proof. exact QIdxFloat.ts_varg_safe_f64. Qed.

Theorem C10_ts_vargmin_vargmax_safe_option_binary64 :
  forall (body : bool) (w : nat) (mp : option nat) (xs : list (option PrimFloat.float)),
    CmpOrd.valid_not_nan (DT := F64.IsNoneOptF64) xs ->
    kernel_safe w xs (ts_vargmin (DT := F64.IsNoneOptF64) body w mp xs) /\
    kernel_safe w xs (ts_vargmax (DT := F64.IsNoneOptF64) body w mp xs).
Proof. exact QIdxFloat.ts_varg_safe_optf64. Qed.

(* ---- non-vacuity ---- *)
From Coq Require Import Floats.   (* float literals *)
Example C10_ex_binary64_guard_and_count :
  nleb (A := PrimFloat.float) nzero 0.75%float && nleb 0.75%float none = true /\
  2 <= count_valid (DT := F64.IsNoneF64) [3%float; PrimFloat.nan; 1%float; 2%float] /\
  qsel_index (NF := QIdxFloat.NumFloorF64) 0.75%float (count_valid (DT := F64.IsNoneF64) [3%float; PrimFloat.nan; 1%float; 2%float]) = 1.
Proof. split; [vm_compute; reflexivity|]. split; [vm_compute; repeat constructor|vm_compute; reflexivity]. Qed.

Example C10_ex_binary64_quantile_runs :
  vquantile (NF := QIdxFloat.NumFloorF64) (DT := F64.IsNoneF64) 0.75%float Higher [3%float; PrimFloat.nan; 1%float; 2%float]
  = Ok (Some 3%float) /\
  vquantile (NF := QIdxFloat.NumFloorF64) (DT := F64.IsNoneF64) PrimFloat.nan Higher [3%float; PrimFloat.nan] = Ok None.
Proof. split; vm_compute; reflexivity. Qed.

Example C10_ex_binary64_not_nan : PrimFloat.is_nan 1%float = false /\ PrimFloat.is_nan PrimFloat.infinity = false.
Proof. split; vm_compute; reflexivity. Qed.

Example C10_ex_binary64_valid_not_nan :
  CmpOrd.valid_not_nan (DT := F64.IsNoneOptF64) [Some 1%float; None; Some 2%float] /\
  ts_vargmin (DT := F64.IsNoneOptF64) true 2 (Some 1) [Some 1%float; None; Some 2%float] = Done [Some 1; Some 1; Some 2].
Proof.
  split; [|vm_compute; reflexivity].
  intros v [<-|[<-|[<-|[]]]] H; try discriminate H; vm_compute; reflexivity.
Qed.

Print Assumptions C10_quantile_index_law_binary64.
Print Assumptions C10_vquantile_index_in_range_binary64.
Print Assumptions C10_vquantile_vmedian_never_panic_binary64.
Print Assumptions C10_self_eq_binary64.
Print Assumptions C10_ts_vargmin_vargmax_safe_binary64.
Print Assumptions C10_ts_vargmin_vargmax_safe_option_binary64.

(* ====================================================================================================================
   AUDIT YB (notes/C10.md, matrix).  Proofs/Audit10.v.  Axiom-free.
   ==================================================================================================================== *)
From Tevec Require Model.Create Model.Collect.
From Tevec Require Import Proofs.Audit07 Proofs.Audit10.

(* (14) a WHOLE call of every driver, with the checks of the code in their order (Model/Kernels.v driver_call = what
   Run/RunC10.v run_trace emits): EVERY window (0, > len), EVERY pair of lengths.  A rejected call panics BEFORE any
   access (DPanic carries no trace); an accepted call accesses in bounds and writes every slot exactly once, in order
   (or nothing, for the collected lazy forms).  Replaces the hypotheses `len <= len2`, `1 <= w`,
   `bad_window w .. = false` of parts (1)-(4) by the guards themselves.                                              *)
Theorem C10_driver_call_safe :
  forall (cb : option nat -> nat -> list acc) (k : dkind) (w len len2 : nat),
    cb_reads_in_window cb -> (forall st e, writes_of (cb st e) = []) -> (k = KIdxTo -> len <= len2) ->
    match driver_call cb k w len len2 with
    | DPanic _ => True
    | DTrace t => Forall (acc_ok len len2) t /\ writes_of t = if dkind_writes k then seq 0 len else []
    end.
Proof. exact driver_call_safe. Qed.
(* the drivers themselves (callbacks that read nothing - the compared traces): no hypothesis at all *)
Theorem C10_driver_call_safe_unconditional :
  forall (k : dkind) (w len len2 : nat),
    match driver_call (fun _ _ => []) k w len len2 with
    | DPanic _ => True
    | DTrace t => Forall (acc_ok len len2) t /\ writes_of t = if dkind_writes k then seq 0 len else []
    end.
Proof. exact driver_call_safe_plain. Qed.
(* which calls are rejected: exactly those the value model (Model/Driver.v) rejects, with the same first failing check *)
Theorem C10_driver_call_rejects_one_series :
  forall (T : Type) (cb : option nat -> nat -> list acc) (k : dkind) (w : nat) (xs : list T) (len2 : nat),
    In k [KApplyTo; KIdxTo; KCustomTo; KIterBody] ->
    ((exists p, driver_call cb k w (length xs) len2 = DPanic p) <-> bad_window w xs = true).
Proof. exact @driver_call_guard_one. Qed.
Theorem C10_driver_call_rejects_two_series :
  forall (T T2 : Type) (cb : option nat -> nat -> list acc) (k : dkind) (w : nat) (xs : list T) (ys : list T2),
    In k [KApply2To; KIdx2To] ->
    driver_call cb k w (length xs) (length ys)
    = match check2_to w xs ys with
      | Some g => DPanic (guard_kind g)
      | None => driver_call cb k w (length xs) (length ys)
      end
    /\ (check2_to w xs ys = None <-> exists t, driver_call cb k w (length xs) (length ys) = DTrace t).
Proof. exact @driver_call_guard_two. Qed.
Theorem C10_driver_call_rejects_two_series_slices :
  forall (T T2 : Type) (cb : option nat -> nat -> list acc) (k : dkind) (w : nat) (xs : list T) (ys : list T2),
    In k [KCustom2Lazy; KCustom2Write] ->
    (forall g, check2_custom w xs ys = Some g -> driver_call cb k w (length xs) (length ys) = DPanic (guard_kind g)) /\
    (check2_custom w xs ys = None -> exists t, driver_call cb k w (length xs) (length ys) = DTrace t).
Proof. exact @driver_call_guard_custom2. Qed.

(* (15) write-once statements that were missing: the two-series window-index body *)
Theorem C10_each_slot_once_idx2 :
  forall cb w len, (forall st e, writes_of (cb st e) = []) ->
    bad_window w (seq 0 len) = false -> writes_of (trace_idx2_to cb w len) = seq 0 len.
Proof. exact trace_idx2_to_writes. Qed.
(* the lazy slice forms perform no uset themselves; written through Collect.write_trust_iter: slots 0..len-1, once, in order *)
Theorem C10_lazy_slices_write_nothing :
  forall w len, writes_of (trace_custom_iter w len) = [] /\ writes_of (trace_custom2 w len) = [].
Proof. intros. split; [apply trace_custom_iter_no_write|apply trace_custom2_no_write]. Qed.

(* (16) the clamp `window.min(len)` (anchored mechanism): a window larger than the series IS window = len - the same
   trace, the same calls, the same outcome, for every two-phase body; and clamping never changes what is rejected  *)
Theorem C10_window_clamp_traces :
  forall (w len : nat) (cb : option nat -> nat -> list acc),
    trace_apply_to w len = trace_apply_to (Nat.min w len) len /\
    trace_apply2_to w len = trace_apply2_to (Nat.min w len) len /\
    trace_idx_to cb w len = trace_idx_to cb (Nat.min w len) len /\
    trace_idx2_to cb w len = trace_idx2_to cb (Nat.min w len) len /\
    trace_custom_to w len = trace_custom_to (Nat.min w len) len.
Proof. exact traces_clamp. Qed.
Theorem C10_window_clamp_outcomes :
  forall (T St O : Type) (w : nat) (f : St -> option T * T -> St * O) (g : St -> option nat * nat * T -> St * O)
         (h : St -> list T -> St * O) (s0 : St) (xs : list T),
    rolling_apply_to w f s0 xs = rolling_apply_to (Nat.min w (length xs)) f s0 xs /\
    rolling_apply_idx_to w g s0 xs = rolling_apply_idx_to (Nat.min w (length xs)) g s0 xs /\
    rolling_custom_to w h s0 xs = rolling_custom_to (Nat.min w (length xs)) h s0 xs /\
    bad_window (Nat.min w (length xs)) xs = bad_window w xs.
Proof.
  intros. split; [apply rolling_apply_to_clamp|]. split; [apply rolling_apply_idx_to_clamp|].
  split; [apply rolling_custom_to_clamp|apply bad_window_clamp].
Qed.

(* (17) every one-series entry point for EVERY window: a complete result of the input's length, or the panic of the
   code's check - never `Uninit` (C10_never_uninit covered rolling_apply_to only)                                    *)
Theorem C10_one_series_outcomes :
  forall (T St O : Type) (w : nat) (f : St -> option T * T -> St * O) (g : St -> option nat * nat * T -> St * O)
         (h : St -> list T -> St * O) (s0 : St) (xs : list T),
    complete_or AssertFail (bad_window w xs) (length xs) (rolling_apply_to w f s0 xs) /\
    complete_or AssertFail (bad_window w xs) (length xs) (rolling_apply_default w f s0 xs) /\
    complete_or AssertFail (bad_window w xs) (length xs) (rolling_apply_idx_to w g s0 xs) /\
    complete_or AssertFail (bad_window w xs) (length xs) (rolling_apply_idx_default w g s0 xs) /\
    complete_or AssertFail (bad_window w xs) (length xs) (rolling_custom_to w h s0 xs) /\
    complete_or Underflow (w =? 0) (length xs) (rolling_custom_default w h s0 xs).
Proof.
  intros. split; [apply apply_to_outcome|]. split; [apply apply_default_outcome|]. split; [apply apply_idx_to_outcome|].
  split; [apply apply_idx_default_outcome|]. split; [apply custom_to_outcome|apply custom_default_outcome].
Qed.

(* (18) a caller buffer of ANY length handed to the default rolling_custom (iter.write(&mut out).unwrap()): the lazy
   iterator is built (window - 1), then: empty buffer - nothing pulled, nothing stored; same length - slot i gets item
   i; a one-element series - its single item is stored in EVERY slot of the buffer; otherwise Err -> a clean panic
   before anything is pulled or stored.  Every write is below the length of the BUFFER, every slot once.            *)
Theorem C10_custom_write_any_buffer :
  forall w len lo : nat,
    match custom_write_call w len lo with
    | DPanic p => (p = Underflow /\ w = 0) \/ (p = UnwrapNone /\ 1 <= w /\ lo <> 0 /\ lo <> len /\ len <> 1)
    | DTrace t =>
        1 <= w /\ Forall (fun a => match a with AUset i => i < lo | a => acc_ok len len a end) t /\
        writes_of t = seq 0 lo
    end.
Proof. exact custom_write_call_safe. Qed.
Theorem C10_custom_write_is_write_trust_iter :
  forall (O : Type) (w : nat) (items : list O) (lo : nat), 1 <= w ->
    let r := Collect.write_trust_iter lo (Collect.exact_iter items) in
    match custom_write_call w (length items) lo with
    | DPanic p => p = UnwrapNone /\ fst r = Collect.WErr /\ snd r = []
    | DTrace t => fst r = Collect.WOk /\ writes_of t = map fst (snd r)
    end.
Proof. exact @custom_write_call_is_write_trust_iter. Qed.

(* (19) the collected (trusted-length) forms of the lazy bodies: the size_hint the raw collector trusts IS the number
   of items the iterator yields - for every window (0 included) and every pair of lengths - so collecting writes each
   allocated slot exactly once and exposes exactly the iterator's items                                              *)
Theorem C10_lazy_hints_exact :
  forall (T T2 : Type) (w : nat) (xs : list T) (ys : list T2),
    hint_apply w (length xs) = length (args_iter w xs) /\
    hint_apply2 w (length xs) (length ys) = length (args_iter w (combine xs ys)) /\
    hint_idx w (length xs) = length (args_iter_idx w xs) /\
    hint_idx2 w (length xs) (length ys) = length (args_iter_idx2 w xs ys) /\
    (1 <= w -> hint_custom w (length xs) = length (slices_iter w (length xs)) /\
               hint_custom2 w (length xs) = length (slices_iter w (length xs))).
Proof.
  intros. split; [apply hint_apply_exact|]. split; [apply hint_apply2_exact|]. split; [apply hint_idx_exact|].
  split; [apply hint_idx2_exact|apply hint_custom_exact].
Qed.
Theorem C10_lazy_collected_one_series :
  forall (T St O : Type) (w : nat) (f : St -> option T * T -> St * O) (g : St -> option nat * nat * T -> St * O)
         (s0 : St) (xs : list T),
    bad_window w xs = false ->
    Create.collect_trusted (hint_apply w (length xs)) (run f s0 (args_iter w xs)) = rolling_apply_default w f s0 xs /\
    Create.collect_trusted (hint_idx w (length xs)) (run g s0 (args_iter_idx w xs)) = rolling_apply_idx_default w g s0 xs.
Proof. intros. split; [apply apply_lazy_collected|apply apply_idx_lazy_collected]; assumption. Qed.
Theorem C10_lazy_collected_two_series :
  forall (T T2 St O : Type) (w : nat) (f : St -> option (T * T2) * (T * T2) -> St * O)
         (g : St -> option nat * nat * (T * T2) -> St * O) (s0 : St) (xs : list T) (ys : list T2),
    bad_window w xs = false ->
    Create.collect_trusted (hint_apply2 w (length xs) (length ys)) (run f s0 (args_iter w (combine xs ys)))
    = rolling2_apply_default w f s0 xs ys /\
    Create.collect_trusted (hint_idx2 w (length xs) (length ys)) (run g s0 (args_iter_idx2 w xs ys))
    = rolling2_apply_idx_default w g s0 xs ys.
Proof. intros. split; [apply apply2_lazy_collected|apply apply_idx2_lazy_collected]; assumption. Qed.
Theorem C10_lazy_collected_slices :
  forall (T T2 St O : Type) (w : nat) (f : St -> list T -> St * O) (g : St -> list T * list T2 -> St * O)
         (s0 : St) (xs : list T) (ys : list T2),
    1 <= w ->
    Create.collect_trusted (hint_custom w (length xs))
                    (run f s0 (map (fun '(st, e) => seg st e xs) (slices_iter w (length xs))))
    = rolling_custom_default w f s0 xs /\
    (length xs <= length ys ->
     Create.collect_trusted (hint_custom2 w (length xs))
                     (run g s0 (map (fun '(st, e) => (seg st e xs, seg st e ys)) (slices_iter w (length xs))))
     = rolling2_custom_default w g s0 xs ys).
Proof. intros. split; [apply custom_lazy_collected; assumption|intros; apply custom2_lazy_collected; assumption]. Qed.
(* the partition kernels announce kth + 1 and yield exactly that: the trusted collector is sound on them *)
Theorem C10_partition_collected :
  forall (A T : Type) (NA : Num A) (DT : IsNone T A) (DX : IsNoneX T A) (kth : nat) (sort rev : bool) (xs : list T),
    Create.collect_trusted (kth + 1) (varg_partition kth sort rev xs) = Done (varg_partition kth sort rev xs) /\
    (forall l, vpartition kth sort rev xs = Ok l -> Create.collect_trusted (kth + 1) l = Done l).
Proof. intros. split; [apply varg_partition_collected|apply vpartition_collected]. Qed.
(* the EXACT panic condition of vpartition (C10_vpartition_panics_only_without_none was one direction): T::none() of
   a non-nullable element type, evaluated because padding is needed *)
Theorem C10_vpartition_panics_iff :
  forall (A T : Type) (NA : Num A) (DT : IsNone T A) (DX : IsNoneX T A) (kth : nat) (sort rev : bool) (xs : list T),
    (exists p, vpartition kth sort rev xs = Panic p) <->
    (exists p, tnone = Panic p) /\ (if sort then length xs < kth + 1 else count_valid xs < kth + 1).
Proof. intros. apply vpartition_panics_iff. Qed.

(* (20) "before the buffer is exposed as initialised": the write lists fed to the buffer model of Model/Driver.v.
   Writes 0..n-1 in order with any values (every two-phase body): complete, slot i = value i; vrank's permuted writes
   on the uninitialised-buffer path: complete, each slot holds THE value stored there.                              *)
Theorem C10_in_order_writes_expose :
  forall (O : Type) (vs : list O),
    finish (Collect.apply_writes (combine (seq 0 (length vs)) vs) (repeat None (length vs))) = Done vs.
Proof. exact @in_order_writes_expose. Qed.
Theorem C10_vrank_buffer_exposed_initialised :
  forall (A T : Type) (NA : Num A) (DT : IsNone T A) (DX : IsNoneX T A) (O : Type) (pct rev : bool) (xs : list T)
         (vs : list O),
    2 <= length xs ->
    get_is_none xs (nth 0 (isort (cmp_idx (cmp_dir rev) xs) (seq 0 (length xs))) 0) = false ->
    length vs = length (writes_of (fst (vrank_tr pct rev xs))) ->
    exists l, finish (Collect.apply_writes (combine (writes_of (fst (vrank_tr pct rev xs))) vs) (repeat None (length xs))) = Done l
              /\ length l = length xs
              /\ forall j v, In (j, v) (combine (writes_of (fst (vrank_tr pct rev xs))) vs) -> nth_error l j = Some v.
Proof. intros. apply vrank_buffer_exposed_initialised; assumption. Qed.
(* and what must NOT be exposed: any store sequence that misses a slot leaves the buffer `Uninit` *)
Theorem C10_missing_slot_never_exposed :
  forall (O : Type) (ws : list (nat * O)) (n j : nat),
    j < n -> ~ In j (map fst ws) ->
    finish (Collect.apply_writes ws (repeat None n)) = Uninit (Collect.apply_writes ws (repeat None n)).
Proof. exact @missing_slot_uninit. Qed.

(* ---- non-vacuity ---- *)
Example C10_audit_example_driver_calls :
  driver_call (fun _ _ => []) KApply2To 2 3 2 = DPanic AssertFail
  /\ driver_call (fun _ _ => []) KApply2To 0 3 3 = DPanic AssertFail
  /\ driver_call (fun _ _ => []) KCustom2Write 0 0 0 = DPanic Underflow
  /\ driver_call (fun _ _ => []) KCustomWrite 2 2 0
     = DTrace [ASlice 0 0 1; ASlice 0 0 2; AUset 0; AUset 1]
  /\ driver_call (fun _ _ => []) KIdx2To 5 2 3 = DTrace [AUget 0 0; AUget 1 0; AUset 0; AUget 0 1; AUget 1 1; AUset 1]
  /\ trace_apply_to 5 2 = trace_apply_to 2 2
  /\ (let cb := fun (st : option nat) (e : nat) => if start_or_0 st <=? e then [AUget 0 e] else [] in
      cb_reads_in_window cb /\ (forall st e, writes_of (cb st e) = []) /\ cb (Some 1) 2 = [AUget 0 2]).
Proof.
  repeat split; try reflexivity.
  - intros st e a Ha. destruct (start_or_0 st <=? e) eqn:E; [|destruct Ha]. apply Nat.leb_le in E.
    destruct Ha as [<-|[]]. unfold start_or_0 in E. destruct st; lia.
  - intros st e. destruct (start_or_0 st <=? e); reflexivity.
Qed.
Example C10_audit_example_custom_write :
  custom_write_call 2 1 3 = DTrace [ASlice 0 0 1; AUset 0; AUset 1; AUset 2]
  /\ custom_write_call 2 3 2 = DPanic UnwrapNone /\ custom_write_call 2 3 0 = DTrace []
  /\ custom_write_call 0 3 3 = DPanic Underflow
  /\ Collect.write_trust_iter 3 (Collect.exact_iter [7]) = (Collect.WOk, [(0, 7); (1, 7); (2, 7)]).
Proof. repeat split. Qed.
Example C10_audit_example_hints :
  hint_apply 0 3 = 3 /\ hint_apply 5 3 = 3 /\ hint_apply2 2 3 1 = 1 /\ hint_idx2 4 3 2 = 2
  /\ length (args_iter_idx2 4 [1; 2; 3] [7; 8]) = 2 /\ bad_window 0 (@nil nat) = false
  /\ rolling_apply_default 0 (fun (s : unit) (a : option nat * nat) => (s, snd a)) tt [] = Done []
  /\ complete_or (O := nat) Underflow true 0 (Panicked Underflow).
Proof. repeat split. Qed.
Example C10_audit_example_partition :
  (exists p, vpartition (A := Z) (T := Z) (DT := IsNone_never) (DX := IsNoneX_never) 4 false false [30; 10]%Z = Panic p)
  /\ (exists p, @tnone Z Z IsNoneX_never = Panic p) /\ count_valid (DT := IsNone_never) [30; 10]%Z < 4 + 1
  /\ Create.collect_trusted (1 + 1) (varg_partition (A := Z) (T := Z) (DT := IsNone_never) 1 true false [30; 10; 20]%Z) = Done [1; 2]%Z.
Proof. split; [eexists; vm_compute; reflexivity|]. split; [eexists; reflexivity|]. split; [vm_compute; lia|vm_compute; reflexivity]. Qed.
Example C10_audit_example_vrank_exposed :
  let ws := writes_of (fst (vrank_tr (A := Z) (T := Z) (DT := IsNone_never) (DX := IsNoneX_never) false false [30; 10; 20]%Z)) in
  ws = [1; 2; 0] /\ finish (Collect.apply_writes (combine ws [1; 2; 3]%Z) (repeat None 3)) = Done [3; 1; 2]%Z
  /\ finish (Collect.apply_writes [(1, 7); (1, 8)] (repeat None 2)) = Uninit [None; Some 8].
Proof. cbv zeta. repeat split; vm_compute; reflexivity. Qed.

Print Assumptions C10_driver_call_safe.
Print Assumptions C10_driver_call_safe_unconditional.
Print Assumptions C10_driver_call_rejects_one_series.
Print Assumptions C10_driver_call_rejects_two_series.
Print Assumptions C10_driver_call_rejects_two_series_slices.
Print Assumptions C10_each_slot_once_idx2.
Print Assumptions C10_lazy_slices_write_nothing.
Print Assumptions C10_window_clamp_traces.
Print Assumptions C10_window_clamp_outcomes.
Print Assumptions C10_one_series_outcomes.
Print Assumptions C10_custom_write_any_buffer.
Print Assumptions C10_custom_write_is_write_trust_iter.
Print Assumptions C10_lazy_hints_exact.
Print Assumptions C10_lazy_collected_one_series.
Print Assumptions C10_lazy_collected_two_series.
Print Assumptions C10_lazy_collected_slices.
Print Assumptions C10_partition_collected.
Print Assumptions C10_vpartition_panics_iff.
Print Assumptions C10_in_order_writes_expose.
Print Assumptions C10_vrank_buffer_exposed_initialised.
Print Assumptions C10_missing_slot_never_exposed.
