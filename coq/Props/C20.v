(* Props/C20.v — property C20: composite analytics terminate within range and respect their defining
   relations.  Statements only (closed by `exact` / `apply`), non-vacuity examples, Print Assumptions.
   Carrier XR = option R (None = null = NaN of an f64 series); `valid xs` = the non-null elements;
   s ranges over ANY ascending arrangement of them (one exists: C12_sorted_arrangement_exists).
     clipR lo hi x        = lo if x < lo, hi if hi < x, else x
     clip_series lo hi xs = map (option_map (clipR lo hi)) xs           (nulls stay null)
     quantile_spec s q Linear = the linearly interpolated q-quantile of s (C12)
     ranks pct rev xs     = the average ranks of C12 (null for a null)
   Models: Model/Composite.v (winsorize, vcorr, half_life_exec) over Model/{Quantile,Rank,Agg,MapOps,HalfLife}.v. *)
From Coq Require Import Reals Lra Lia List Sorting Permutation ZArith.
From Tevec Require Import Base.Prelude Model.MapOps.
From Tevec Require Import Base.Num Base.XR Spec.Stats Spec.Stats2 Model.SortCmp Model.Quantile Model.Rank
     Model.Agg Model.HalfLife Model.Composite
     Proofs.OrderXR Proofs.Quantile Proofs.QuantileMono Proofs.Partition Proofs.Rank Proofs.AggXR
     Proofs.HalfLife Proofs.Composite Proofs.Spearman Proofs.HalfLifeExec.
From Tevec Require Import Model.NullView Proofs.EncRank Proofs.Composite2 Proofs.HalfLifeProbes.
From Coq Require Floats.
From Tevec Require Import Base.F64 Spec.ExtremaOrd Proofs.CmpOrdFloat Proofs.Audit20 Proofs.Audit20Float.
From Tevec Require Run.RunC12 Run.RunC20.
From Tevec Require Import Proofs.AggGeneric.
Import ListNotations.
Local Open Scope R_scope.

(* ================================ winsorize ========================================================= *)
(* Quantile method, 0 <= q <= 1/2: clip to [Q(q), Q(1-q)] of the valid data, and Q(q) <= Q(1-q) *)
Theorem C20_winsorize_quantile :
  forall (xs : list XR) (q : R) (s : list R),
    0 <= q <= 1 / 2 -> Sorted Rle s -> Permutation s (valid xs) -> s <> [] ->
    let lo := quantile_spec s q Linear in let hi := quantile_spec s (1 - q) Linear in
    winsorize (DT := IsNoneXR) WQuantile (Some (Some q)) xs = Ok (Some (clip_series lo hi xs)) /\ lo <= hi.
Proof.
  intros xs q s Hq Hs HP Hne lo hi. split.
  - apply winsorize_quantile; try assumption. lra.
  - apply quantile_bounds_ordered; assumption.
Qed.

(* Median method, k >= 0: clip to median -/+ k MAD, MAD = median of |x - median| >= 0 (no scale factor) *)
Theorem C20_winsorize_median :
  forall (xs : list XR) (k : R) (s s' : list R),
    0 <= k -> Sorted Rle s -> Permutation s (valid xs) -> s <> [] ->
    let med := quantile_spec s (1 / 2) Linear in
    Sorted Rle s' -> Permutation s' (map (fun x => Rabs (x - med)) (valid xs)) ->
    let mad := quantile_spec s' (1 / 2) Linear in
    winsorize (DT := IsNoneXR) WMedian (Some (Some k)) xs
      = Ok (Some (clip_series (med - k * mad) (med + k * mad) xs))
    /\ 0 <= mad /\ med - k * mad <= med + k * mad.
Proof.
  intros xs k s s' Hk Hs HP Hne med Hs' HP' mad.
  assert (Hmad : 0 <= mad).
  { apply (mad_nonneg s' (valid xs) med); try assumption.
    intros ->. apply Permutation_nil in HP'. apply map_eq_nil in HP'. rewrite HP' in HP.
    apply Permutation_sym, Permutation_nil in HP. contradiction. }
  split; [apply winsorize_median; assumption|]. split; [exact Hmad|].
  apply median_bounds_ordered; assumption.
Qed.

(* Sigma method, k >= 0: clip to mean -/+ k sigma (sample standard deviation of the valid data); with
   fewer than two valid elements, or a population variance at or below the code's floor EPS = 1e-14
   (constant series), sigma is not used and the series is returned unchanged *)
Theorem C20_winsorize_sigma :
  forall (xs : list XR) (k : R),
    0 <= k ->
    let V := valid xs in
    let lo := meanR V - k * sqrt (samplevarR V) in let hi := meanR V + k * sqrt (samplevarR V) in
    winsorize (DT := IsNoneXR) WSigma (Some (Some k)) xs
      = Ok (Some (if (length V <? 2)%nat then xs
                  else if Rle_dec (popvarR V) EPS then xs
                  else clip_series lo hi xs))
    /\ lo <= hi.
Proof.
  intros xs k Hk V lo hi. split; [apply winsorize_sigma|apply sigma_bounds_ordered; exact Hk].
Qed.

(* no valid element: every method returns the (all-null) series unchanged *)
Theorem C20_winsorize_no_valid :
  forall (m : wmethod) (p : R) (xs : list XR),
    wparam_in_scope m p -> valid xs = [] ->
    winsorize (DT := IsNoneXR) m (Some (Some p)) xs = Ok (Some xs).
Proof.
  intros m p xs Hp Hv. destruct m.
  - apply winsorize_quantile_all_null; [cbn in Hp; lra|exact Hv].
  - apply winsorize_median_all_null. exact Hv.
  - rewrite winsorize_sigma, Hv. reflexivity.
Qed.

Theorem C20_winsorize_rejects_bad_q :
  forall (xs : list XR) (q : R), ~ (0 <= q <= 1) ->
    winsorize (DT := IsNoneXR) WQuantile (Some (Some q)) xs = Ok None.
Proof. exact winsorize_quantile_bad_q. Qed.

(* omitted parameter: q = 0.01, k = 3 *)
Theorem C20_winsorize_default :
  forall (m : wmethod) (xs : list XR),
    winsorize (DT := IsNoneXR) m None xs = winsorize (DT := IsNoneXR) m (Some (Some (wdefault m))) xs.
Proof. exact winsorize_default. Qed.

(* all methods, every parameter of the quantifier: the result is the input or ONE clip with lo <= hi *)
Theorem C20_winsorize_acts_as_clip :
  forall (m : wmethod) (p : R) (xs : list XR),
    wparam_in_scope m p ->
    exists r, winsorize (DT := IsNoneXR) m (Some (Some p)) xs = Ok (Some r) /\
              (r = xs \/ exists lo hi, lo <= hi /\ r = clip_series lo hi xs).
Proof. exact winsorize_acts_as_clip. Qed.

(* what clipping to one interval means: one value per input; nulls stay null; inside unchanged; below -> lo;
   above -> hi; result inside [lo, hi] and the nearest point of it; order preserving *)
Theorem C20_clip_laws :
  forall (lo hi : R) (xs : list XR),
    lo <= hi ->
    length (clip_series lo hi xs) = length xs /\
    (forall i, nth_error xs i = Some None -> nth_error (clip_series lo hi xs) i = Some None) /\
    (forall i x, nth_error xs i = Some (Some x) ->
       exists y, nth_error (clip_series lo hi xs) i = Some (Some y) /\
         (lo <= x <= hi -> y = x) /\ (x < lo -> y = lo) /\ (hi < x -> y = hi) /\ lo <= y <= hi /\
         (forall z, lo <= z <= hi -> Rabs (x - y) <= Rabs (x - z))) /\
    (forall i j x x' y y', nth_error xs i = Some (Some x) -> nth_error xs j = Some (Some x') ->
       nth_error (clip_series lo hi xs) i = Some (Some y) -> nth_error (clip_series lo hi xs) j = Some (Some y') ->
       x <= x' -> y <= y').
Proof. exact clip_series_laws. Qed.

(* hence, directly on winsorize: order preserving and null preserving for every method in scope *)
Theorem C20_winsorize_order_preserving :
  forall (m : wmethod) (p : R) (xs : list XR),
    wparam_in_scope m p ->
    exists r, winsorize (DT := IsNoneXR) m (Some (Some p)) xs = Ok (Some r) /\ length r = length xs /\
      (forall i, nth_error xs i = Some None <-> nth_error r i = Some None) /\
      (forall i j x x' y y', nth_error xs i = Some (Some x) -> nth_error xs j = Some (Some x') ->
         nth_error r i = Some (Some y) -> nth_error r j = Some (Some y') -> x <= x' -> y <= y').
Proof.
  intros m p xs Hp. destruct (winsorize_acts_as_clip m p xs Hp) as (r & Hr & [->|(lo & hi & Hlh & ->)]).
  - exists xs. split; [exact Hr|]. split; [reflexivity|]. split; [tauto|].
    intros i j x x' y y' Hi Hj Hy Hy' Hxx. rewrite Hi in Hy. rewrite Hj in Hy'.
    injection Hy as <-. injection Hy' as <-. exact Hxx.
  - exists (clip_series lo hi xs). split; [exact Hr|].
    destruct (clip_series_laws lo hi xs Hlh) as (Hlen & Hnull & Hval & Hord).
    split; [exact Hlen|]. split; [|exact Hord].
    intros i. split; [apply Hnull|]. intros H.
    destruct (nth_error xs i) as [[x|]|] eqn:E; [| reflexivity |].
    + destruct (Hval i x E) as (y & Hy & _). rewrite Hy in H. discriminate.
    + unfold clip_series in H. rewrite nth_error_map, E in H. discriminate.
Qed.

(* the interpolated quantile is monotone in q (the fact behind lo <= hi) *)
Theorem C20_quantile_monotone :
  forall (s : list R) (q q' : R),
    Sorted Rle s -> s <> [] -> 0 <= q -> q <= q' -> q' <= 1 ->
    quantile_spec s q Linear <= quantile_spec s q' Linear.
Proof. exact quantile_mono. Qed.

(* ================================ Spearman ========================================================== *)
(* vrank IS the average-rank vector of C12, as an equation between lists *)
Theorem C20_rank_is_average_rank :
  forall (pct rev : bool) (xs : list XR),
    vrank (DT := IsNoneXR) (DX := IsNoneXXR) pct rev xs = map Some (ranks pct rev xs).
Proof. exact vrank_ranks. Qed.

(* Spearman = Pearson (pairwise deletion, min_periods default len/2) of the two average-rank vectors; the
   ranks are taken within each series over its own valid elements *)
Theorem C20_spearman :
  forall (mp : option nat) (xs ys : list XR),
    vcorr (DT := IsNoneXR) (DX := IsNoneXXR) mp true xs ys
    = Some (vcorr_pearson (DT := IsNoneXR) (DT2 := IsNoneXR) (fun x : XR => x)
              (mp_default mp (length xs)) (ranks false false xs) (ranks false false ys)).
Proof. exact spearman_is_pearson_of_ranks. Qed.

(* ... i.e. Pearson's r (C11) of the pairwise-complete rank pairs, null below min_periods / on zero spread *)
Theorem C20_spearman_textbook :
  forall (mp : option nat) (xs ys : list XR),
    let P := rpairs (DT := IsNoneXR) (DT2 := IsNoneXR) (fun x : XR => x) (ranks false false xs) (ranks false false ys) in
    vcorr (DT := IsNoneXR) (DX := IsNoneXXR) mp true xs ys
    = Some (if (length P <? Nat.max (mp_default mp (length xs)) 2)%nat then None
            else if Rlt_dec EPS (popvarR (xs_of P)) then
                   (if Rlt_dec EPS (popvarR (ys_of P)) then Some (corrR P) else None)
                 else None).
Proof. exact spearman_textbook. Qed.

(* rank (map f xs) = rank xs for strictly increasing f, nulls mapped to nulls: every flag combination *)
Theorem C20_rank_invariant :
  forall (pct rev : bool) (f : R -> R) (xs : list XR),
    strict_mono f ->
    vrank (DT := IsNoneXR) (DX := IsNoneXXR) pct rev (map (option_map f) xs)
    = vrank (DT := IsNoneXR) (DX := IsNoneXXR) pct rev xs.
Proof. exact vrank_invariant. Qed.

Theorem C20_spearman_invariant :
  forall (mp : option nat) (f g : R -> R) (xs ys : list XR),
    strict_mono f -> strict_mono g ->
    vcorr (DT := IsNoneXR) (DX := IsNoneXXR) mp true (map (option_map f) xs) (map (option_map g) ys)
    = vcorr (DT := IsNoneXR) (DX := IsNoneXXR) mp true xs ys.
Proof. exact spearman_invariant. Qed.

(* ================================ half_life ========================================================= *)
Local Close Scope R_scope.
(* abstract oracle (any test that is false for lags >= len): never out of fuel, never Panic, range,
   0 iff len < 2 *)
Theorem C20_half_life_oracle_total :
  forall (above : nat -> bool) (len : nat),
    (forall k, len <= k -> above k = false) -> 1 <= len ->
    exists r, half_life above len = Some (Ok r) /\ (r <= len - 1)%nat /\ (r = 0%nat <-> len < 2)%nat.
Proof. exact half_life_range. Qed.

Theorem C20_half_life_empty : forall above, half_life above 0 = Some (Ok 0%nat).
Proof. exact half_life_empty. Qed.

(* the search only ever looks at lags >= 1 *)
Theorem C20_half_life_probes_from_1 :
  forall (a1 a2 : nat -> bool) (len : nat),
    (forall k, (1 <= k)%nat -> a1 k = a2 k) -> half_life a1 len = half_life a2 len.
Proof. exact half_life_ext. Qed.

(* threshold oracle: above exactly for the lags 1 .. L-1  ->  the first lag that is not, capped at len-1 *)
Theorem C20_half_life_oracle_threshold :
  forall (above : nat -> bool) (len L : nat),
    (forall k, len <= k -> above k = false) -> (1 <= len)%nat -> (1 <= L)%nat ->
    (forall k, (1 <= k)%nat -> above k = (k <? L)%nat) ->
    half_life above len = Some (Ok (Nat.min L (len - 1))).
Proof. intros above len L Hout Hlen HL Hthr. apply half_life_threshold_from_1; assumption. Qed.

(* the executable half_life: oracle = vcorr_pearson(xs, vshift(xs, lag), min_periods) > 0.5, for every
   element type whose T::none() is a null value (f64, Option<f64>), every series, every min_periods *)
Theorem C20_half_life_total :
  forall {T : Type} {DT : IsNone T XR} (dm : NullDict T XR) (mp : option nat) (nv : T) (xs : list T),
    MapOps.none dm = Ok nv -> Num.is_none nv = true ->
    exists r, half_life_exec (DT := DT) dm mp xs = Some (Ok r) /\
              (r <= length xs - 1)%nat /\ (r = 0%nat <-> length xs < 2)%nat.
Proof. intros T DT dm mp nv xs. apply half_life_exec_total. Qed.

Corollary C20_half_life_total_f64 :
  forall (mp : option nat) (xs : list XR),
    exists r, half_life_exec (DT := IsNoneXR) (fdict (A := XR)) mp xs = Some (Ok r) /\
              (r <= length xs - 1)%nat /\ (r = 0%nat <-> length xs < 2)%nat.
Proof. intros mp xs. apply (half_life_exec_total (fdict (A := XR)) mp None xs); reflexivity. Qed.

Theorem C20_half_life_threshold :
  forall {T : Type} {DT : IsNone T XR} (dm : NullDict T XR) (mp : option nat) (nv : T) (xs : list T) (L : nat),
    MapOps.none dm = Ok nv -> Num.is_none nv = true -> xs <> [] -> (1 <= L)%nat ->
    (forall k, (1 <= k)%nat -> above_half (DT := DT) (mp_default mp (length xs)) nv xs k = (k <? L)%nat) ->
    half_life_exec (DT := DT) dm mp xs = Some (Ok (Nat.min L (length xs - 1))).
Proof. intros T DT dm mp nv xs L. apply half_life_exec_threshold. Qed.

(* a lag >= len has no complete pair: the correlation is null, the test is false *)
Theorem C20_autocorr_beyond_length :
  forall {T : Type} {DT : IsNone T XR} (mp : nat) (nv : T) (xs : list T) (lag : nat),
    Num.is_none nv = true -> (length xs <= lag)%nat ->
    autocorr (DT := DT) mp nv xs lag = None /\ above_half (DT := DT) mp nv xs lag = false.
Proof.
  intros T DT mp nv xs lag Hnv H. split; [apply autocorr_out|apply above_half_out]; assumption.
Qed.

(* plain integer series (DESIGN 5.4): T::none() panics in the first vshift; only the empty series returns *)
Theorem C20_half_life_int_none_panics :
  forall {T : Type} {DT : IsNone T XR} (dm : NullDict T XR) (mp : option nat) (k : panic_kind) (xs : list T),
    MapOps.none dm = Panic k ->
    half_life_exec (DT := DT) dm mp xs = if (length xs =? 0)%nat then Some (Ok 0%nat) else Some (Panic k).
Proof. intros T DT dm mp k xs. apply half_life_exec_none_panics. Qed.

(* ================================ non-vacuity ======================================================== *)
Local Open Scope R_scope.
Example C20_ex_sorted : Sorted Rle [1; 2; 4] /\ Permutation [1; 2; 4] (valid [Some 4; None; Some 1; Some 2]).
Proof.
  split.
  - repeat constructor; lra.
  - cbn. apply Permutation_sym. apply (Permutation_cons_app [1; 2] [] 4). reflexivity.
Qed.

(* q = 1/2: both bounds are the median 2, every valid value moves onto it, the null stays *)
Example C20_ex_winsorize_quantile :
  winsorize (DT := IsNoneXR) WQuantile (Some (Some (1 / 2))) [Some 4; None; Some 1; Some 2]
  = Ok (Some [Some 2; None; Some 2; Some 2]).
Proof.
  destruct C20_ex_sorted as [Hs HP].
  destruct (C20_winsorize_quantile _ (1 / 2) [1; 2; 4] ltac:(lra) Hs HP ltac:(discriminate)) as [E _].
  rewrite E. unfold quantile_spec. cbn [length Nat.sub INR].
  replace (1 - 1 / 2) with (1 / 2) by lra.
  replace ((1 + 1) * (1 / 2)) with (IZR 1) by lra. rewrite Rfloor_IZR, Rceil_IZR.
  change (Z.to_nat 1) with 1%nat. cbn [nth]. replace (2 + (2 - 2) * (1 - 1)) with 2 by lra.
  unfold clip_series, clipR. cbn [map option_map].
  destruct (Rlt_dec 4 2); [lra|]. destruct (Rlt_dec 2 4); [|lra].
  destruct (Rlt_dec 1 2); [|lra]. destruct (Rlt_dec 2 2); [lra|]. reflexivity.
Qed.

Example C20_ex_scope : wparam_in_scope WQuantile (1 / 100) /\ wparam_in_scope WMedian 3 /\ wparam_in_scope WSigma 0.
Proof. cbn. lra. Qed.

Example C20_ex_clip : clip_series 1 3 [Some 0; None; Some 2; Some 5] = [Some 1; None; Some 2; Some 3].
Proof.
  unfold clip_series, clipR. cbn [map option_map].
  destruct (Rlt_dec 0 1); [|lra]. destruct (Rlt_dec 2 1); [lra|]. destruct (Rlt_dec 3 2); [lra|].
  destruct (Rlt_dec 5 1); [lra|]. destruct (Rlt_dec 3 5); [|lra]. reflexivity.
Qed.

Example C20_ex_strict_mono : strict_mono (fun x => 3 * x + 1) /\ strict_mono exp /\ strict_mono (fun x => x * x * x).
Proof.
  split; [|split].
  - intros x y H. lra.
  - intros x y H. apply exp_increasing. exact H.
  - intros x y H.
    assert (E : y * y * y - x * x * x = (y - x) * (x * x + x * y + y * y)) by ring.
    assert (P : 0 < x * x + x * y + y * y).
    { assert (Q : x * x + x * y + y * y = (x + y / 2) * (x + y / 2) + 3 / 4 * (y * y)) by field.
      rewrite Q. pose proof (Rle_0_sqr (x + y / 2)) as S1. unfold Rsqr in S1.
      destruct (Rtotal_order y 0) as [Hy|[Hy|Hy]].
      - assert (0 < y * y) by nra. lra.
      - subst y. assert (0 < x * x) by nra. replace (x + 0 / 2) with x by lra. lra.
      - assert (0 < y * y) by nra. lra. }
    assert (D : 0 < y - x) by lra. pose proof (Rmult_lt_0_compat _ _ D P). lra.
Qed.

(* the search on a threshold oracle: above for lags 1, 2 -> half-life 3; capped at len - 1 *)
Example C20_ex_half_life_oracle :
  half_life (fun k => k <? 3)%nat 10 = Some (Ok 3%nat) /\ half_life (fun k => k <? 7)%nat 5 = Some (Ok 4%nat)
  /\ half_life (fun _ => false) 1 = Some (Ok 0%nat) /\ half_life (fun _ => false) 2 = Some (Ok 1%nat).
Proof. repeat split; reflexivity. Qed.

(* the executable oracle on a two-element series: lag 1 leaves one complete pair, fewer than two: not above;
   the hypothesis of C20_half_life_threshold holds with L = 1 and the half-life is 1 *)
Example C20_ex_half_life_exec :
  half_life_exec (DT := IsNoneXR) (fdict (A := XR)) (Some 1%nat) [Some 1; Some 2] = Some (Ok 1%nat).
Proof.
  assert (Hthr : forall k, (1 <= k)%nat ->
            above_half (DT := IsNoneXR) (mp_default (Some 1%nat) (length [Some 1; Some 2])) None [Some 1; Some 2] k
            = (k <? 1)%nat).
  2: { apply (C20_half_life_threshold (fdict (A := XR)) (Some 1%nat) None [Some 1; Some 2] 1);
       [reflexivity|reflexivity|discriminate|lia|exact Hthr]. }
  intros k Hk. destruct k as [|[|k]]; [lia|reflexivity|].
  apply above_half_out; [reflexivity|cbn; lia].
Qed.


(* ================================ the other element types ============================================ *)
(* (a) winsorize, vcorr (Pearson and Spearman) and half_life are ENCODING INDEPENDENT — every carrier A (so also bit for
   bit at binary64), every two null dictionaries, every two series with the same option view (C08's SameView): EQUAL
   results.  winsorize returns an f64 series and vcorr an f64 whatever the element type (the input is cast element by
   element: `iter_cast::<f64>()` in map.rs:60/76/89, `v.cast()` in the MAD, `.f64()` inside the aggregations and vrank). *)
Theorem C20_winsorize_encoding :
  forall {A : Type} {NA : Num A} {NF : NumFloor A} {T1 T2 : Type} (D1 : IsNone T1 A) (D2 : IsNone T2 A)
         (m : wmethod) (p : option A) (xs1 : list T1) (xs2 : list T2),
    SameView D1 D2 xs1 xs2 -> winsorize (DT := D1) m p xs1 = winsorize (DT := D2) m p xs2.
Proof. intros A NA NF T1 T2 D1 D2 m p xs1 xs2. apply winsorize_view. Qed.

Theorem C20_vcorr_encoding :
  forall {A : Type} {NA : Num A} {T1 T2 : Type} (D1 : IsNone T1 A) (D2 : IsNone T2 A)
         (X1 : IsNoneX T1 A) (X2 : IsNoneX T2 A) (mp : option nat) (spearman : bool)
         (xs1 ys1 : list T1) (xs2 ys2 : list T2),
    EqbView D1 D2 X1 X2 -> SameView D1 D2 xs1 xs2 -> SameView D1 D2 ys1 ys2 ->
    vcorr (DT := D1) (DX := X1) mp spearman xs1 ys1 = vcorr (DT := D2) (DX := X2) mp spearman xs2 ys2.
Proof. intros A NA T1 T2 D1 D2 X1 X2 mp sp xs1 ys1 xs2 ys2. apply vcorr_view. Qed.

Theorem C20_half_life_encoding :
  forall {T1 T2 : Type} (D1 : IsNone T1 XR) (D2 : IsNone T2 XR) (dm1 : NullDict T1 XR) (dm2 : NullDict T2 XR)
         (nv1 : T1) (nv2 : T2) (mp : option nat) (xs1 : list T1) (xs2 : list T2),
    MapOps.none dm1 = Ok nv1 -> MapOps.none dm2 = Ok nv2 ->
    Num.is_none (IsNone := D1) nv1 = true -> Num.is_none (IsNone := D2) nv2 = true ->
    SameView D1 D2 xs1 xs2 ->
    half_life_exec (DT := D1) dm1 mp xs1 = half_life_exec (DT := D2) dm2 mp xs2.
Proof.
  intros T1 T2 D1 D2 dm1 dm2 nv1 nv2 mp xs1 xs2 Hn1 Hn2 Hnv1 Hnv2 HS.
  exact (half_life_exec_view D1 D2 dm1 dm2 nv1 nv2 Hn1 Hn2 Hnv1 Hnv2 mp xs1 xs2 HS).
Qed.

(* (b) the two other element types at option R:
     enc_opt xs  : list (option XR)  the Option<f64> series  Some (Some r) | None  rendering the float series xs
                                     (dictionary DOpt = IsNone_option: None is the null)
     cast_i32 zs : list XR           the i32 series zs seen through its exact f64 values Some (IZR z), with the never-null
                                     dictionary DInt = IsNone_never (what Run/RunC20.v executes for i32)
   they encode the same logical series as the f64 series, `==` agrees, an integer series has no null *)
Theorem C20_encodings_option_i32 :
  (forall xs : list XR, SameView DOpt IsNoneXR (enc_opt xs) xs) /\
  (forall zs : list Z, SameView DInt IsNoneXR (cast_i32 zs) (cast_i32 zs)) /\
  EqbView DOpt IsNoneXR DXOpt IsNoneXXR /\ EqbView DInt IsNoneXR DXInt IsNoneXXR /\
  (forall zs : list Z, valid (cast_i32 zs) = map IZR zs).
Proof.
  split; [exact enc_opt_view|]. split; [exact cast_i32_view|]. split; [exact eqb_view_opt_xr|].
  split; [exact eqb_view_int_xr|exact valid_cast_i32].
Qed.

(* (c) hence every f64 theorem above holds verbatim for an Option<f64> series and for an i32 series (over its cast) *)
Theorem C20_winsorize_quantile_opt :
  forall (xs : list XR) (q : R) (s : list R),
    0 <= q <= 1 / 2 -> Sorted Rle s -> Permutation s (valid xs) -> s <> [] ->
    let lo := quantile_spec s q Linear in let hi := quantile_spec s (1 - q) Linear in
    winsorize (DT := DOpt) WQuantile (Some (Some q)) (enc_opt xs) = Ok (Some (clip_series lo hi xs)) /\ lo <= hi.
Proof. intros xs q s Hq Hs HP Hne. rewrite winsorize_opt. exact (C20_winsorize_quantile xs q s Hq Hs HP Hne). Qed.

Theorem C20_winsorize_quantile_i32 :
  forall (zs : list Z) (q : R) (s : list R),
    0 <= q <= 1 / 2 -> Sorted Rle s -> Permutation s (map IZR zs) -> s <> [] ->
    let lo := quantile_spec s q Linear in let hi := quantile_spec s (1 - q) Linear in
    winsorize (DT := DInt) WQuantile (Some (Some q)) (cast_i32 zs) = Ok (Some (clip_series lo hi (cast_i32 zs))) /\ lo <= hi.
Proof.
  intros zs q s Hq Hs HP Hne. rewrite winsorize_i32. rewrite <- valid_cast_i32 in HP.
  exact (C20_winsorize_quantile (cast_i32 zs) q s Hq Hs HP Hne).
Qed.

Theorem C20_winsorize_median_opt :
  forall (xs : list XR) (k : R) (s s' : list R),
    0 <= k -> Sorted Rle s -> Permutation s (valid xs) -> s <> [] ->
    let med := quantile_spec s (1 / 2) Linear in
    Sorted Rle s' -> Permutation s' (map (fun x => Rabs (x - med)) (valid xs)) ->
    let mad := quantile_spec s' (1 / 2) Linear in
    winsorize (DT := DOpt) WMedian (Some (Some k)) (enc_opt xs)
      = Ok (Some (clip_series (med - k * mad) (med + k * mad) xs))
    /\ 0 <= mad /\ med - k * mad <= med + k * mad.
Proof.
  intros xs k s s' Hk Hs HP Hne med Hs' HP'. rewrite winsorize_opt.
  exact (C20_winsorize_median xs k s s' Hk Hs HP Hne Hs' HP').
Qed.

Theorem C20_winsorize_median_i32 :
  forall (zs : list Z) (k : R) (s s' : list R),
    0 <= k -> Sorted Rle s -> Permutation s (map IZR zs) -> s <> [] ->
    let med := quantile_spec s (1 / 2) Linear in
    Sorted Rle s' -> Permutation s' (map (fun x => Rabs (x - med)) (map IZR zs)) ->
    let mad := quantile_spec s' (1 / 2) Linear in
    winsorize (DT := DInt) WMedian (Some (Some k)) (cast_i32 zs)
      = Ok (Some (clip_series (med - k * mad) (med + k * mad) (cast_i32 zs)))
    /\ 0 <= mad /\ med - k * mad <= med + k * mad.
Proof.
  intros zs k s s' Hk Hs HP Hne med Hs' HP'. rewrite winsorize_i32. rewrite <- valid_cast_i32 in HP, HP'.
  exact (C20_winsorize_median (cast_i32 zs) k s s' Hk Hs HP Hne Hs' HP').
Qed.

Theorem C20_winsorize_sigma_opt :
  forall (xs : list XR) (k : R),
    0 <= k ->
    let V := valid xs in
    let lo := meanR V - k * sqrt (samplevarR V) in let hi := meanR V + k * sqrt (samplevarR V) in
    winsorize (DT := DOpt) WSigma (Some (Some k)) (enc_opt xs)
      = Ok (Some (if (length V <? 2)%nat then xs
                  else if Rle_dec (popvarR V) EPS then xs
                  else clip_series lo hi xs))
    /\ lo <= hi.
Proof. intros xs k Hk. rewrite winsorize_opt. exact (C20_winsorize_sigma xs k Hk). Qed.

Theorem C20_winsorize_sigma_i32 :
  forall (zs : list Z) (k : R),
    0 <= k ->
    let V := map IZR zs in
    let lo := meanR V - k * sqrt (samplevarR V) in let hi := meanR V + k * sqrt (samplevarR V) in
    winsorize (DT := DInt) WSigma (Some (Some k)) (cast_i32 zs)
      = Ok (Some (if (length V <? 2)%nat then cast_i32 zs
                  else if Rle_dec (popvarR V) EPS then cast_i32 zs
                  else clip_series lo hi (cast_i32 zs)))
    /\ lo <= hi.
Proof.
  intros zs k Hk. rewrite winsorize_i32, <- valid_cast_i32. exact (C20_winsorize_sigma (cast_i32 zs) k Hk).
Qed.

Theorem C20_winsorize_no_valid_opt :
  forall (m : wmethod) (p : R) (xs : list XR),
    wparam_in_scope m p -> valid xs = [] ->
    winsorize (DT := DOpt) m (Some (Some p)) (enc_opt xs) = Ok (Some xs).
Proof. intros m p xs Hp Hv. rewrite winsorize_opt. exact (C20_winsorize_no_valid m p xs Hp Hv). Qed.

(* an integer series has no null: "no valid element" is the empty series *)
Theorem C20_winsorize_no_valid_i32 :
  forall (m : wmethod) (p : R) (zs : list Z),
    wparam_in_scope m p -> (valid (cast_i32 zs) = [] <-> zs = []) /\
    (zs = [] -> winsorize (DT := DInt) m (Some (Some p)) (cast_i32 zs) = Ok (Some [])).
Proof.
  intros m p zs Hp. split.
  - rewrite valid_cast_i32. split; [apply map_eq_nil|intros ->; reflexivity].
  - intros ->. rewrite winsorize_i32. exact (C20_winsorize_no_valid m p [] Hp eq_refl).
Qed.

Theorem C20_winsorize_acts_as_clip_opt :
  forall (m : wmethod) (p : R) (xs : list XR),
    wparam_in_scope m p ->
    exists r, winsorize (DT := DOpt) m (Some (Some p)) (enc_opt xs) = Ok (Some r) /\
              (r = xs \/ exists lo hi, lo <= hi /\ r = clip_series lo hi xs).
Proof. intros m p xs Hp. rewrite winsorize_opt. exact (C20_winsorize_acts_as_clip m p xs Hp). Qed.

Theorem C20_winsorize_acts_as_clip_i32 :
  forall (m : wmethod) (p : R) (zs : list Z),
    wparam_in_scope m p ->
    exists r, winsorize (DT := DInt) m (Some (Some p)) (cast_i32 zs) = Ok (Some r) /\
              (r = cast_i32 zs \/ exists lo hi, lo <= hi /\ r = clip_series lo hi (cast_i32 zs)).
Proof. intros m p zs Hp. rewrite winsorize_i32. exact (C20_winsorize_acts_as_clip m p (cast_i32 zs) Hp). Qed.

(* positions of the output are positions of the f64 view xs of the Option series: length, nullness, order *)
Theorem C20_winsorize_order_preserving_opt :
  forall (m : wmethod) (p : R) (xs : list XR),
    wparam_in_scope m p ->
    exists r, winsorize (DT := DOpt) m (Some (Some p)) (enc_opt xs) = Ok (Some r) /\ length r = length (enc_opt xs) /\
      (forall i, nth_error (enc_opt xs) i = Some None <-> nth_error r i = Some None) /\
      (forall i j x x' y y', nth_error (enc_opt xs) i = Some (Some (Some x)) -> nth_error (enc_opt xs) j = Some (Some (Some x')) ->
         nth_error r i = Some (Some y) -> nth_error r j = Some (Some y') -> x <= x' -> y <= y').
Proof.
  intros m p xs Hp. rewrite winsorize_opt, length_enc_opt.
  destruct (C20_winsorize_order_preserving m p xs Hp) as (r & Hr & Hlen & Hnull & Hord).
  exists r. split; [exact Hr|]. split; [exact Hlen|]. split.
  - intros i. rewrite <- Hnull. apply enc_opt_nth_null.
  - intros i j x x' y y' Hi Hj. apply Hord; apply enc_opt_nth_valid; assumption.
Qed.

Theorem C20_winsorize_order_preserving_i32 :
  forall (m : wmethod) (p : R) (zs : list Z),
    wparam_in_scope m p ->
    exists r, winsorize (DT := DInt) m (Some (Some p)) (cast_i32 zs) = Ok (Some r) /\ length r = length zs /\
      (forall i, nth_error r i <> Some None) /\
      (forall i j z z' y y', nth_error zs i = Some z -> nth_error zs j = Some z' ->
         nth_error r i = Some (Some y) -> nth_error r j = Some (Some y') -> (z <= z')%Z -> y <= y').
Proof.
  intros m p zs Hp. rewrite winsorize_i32.
  destruct (C20_winsorize_order_preserving m p (cast_i32 zs) Hp) as (r & Hr & Hlen & Hnull & Hord).
  exists r. split; [exact Hr|]. split; [rewrite Hlen; apply length_cast_i32|]. split.
  - intros i Hi. apply Hnull in Hi. unfold cast_i32 in Hi. rewrite nth_error_map in Hi.
    destruct (nth_error zs i); discriminate.
  - intros i j z z' y y' Hi Hj Hy Hy' Hzz.
    apply (Hord i j (IZR z) (IZR z') y y'); try assumption;
      try (unfold cast_i32; rewrite nth_error_map; rewrite ?Hi, ?Hj; reflexivity).
    apply IZR_le. exact Hzz.
Qed.

(* ---- Spearman ---- *)
Theorem C20_rank_is_average_rank_opt :
  forall (pct rev : bool) (xs : list XR),
    vrank (DT := DOpt) (DX := DXOpt) pct rev (enc_opt xs) = map Some (ranks pct rev xs).
Proof. intros pct rev xs. rewrite vrank_opt. apply C20_rank_is_average_rank. Qed.

Theorem C20_rank_is_average_rank_i32 :
  forall (pct rev : bool) (zs : list Z),
    vrank (DT := DInt) (DX := DXInt) pct rev (cast_i32 zs) = map Some (ranks pct rev (cast_i32 zs)).
Proof. intros pct rev zs. rewrite vrank_i32. apply C20_rank_is_average_rank. Qed.

Theorem C20_spearman_opt :
  forall (mp : option nat) (xs ys : list XR),
    vcorr (DT := DOpt) (DX := DXOpt) mp true (enc_opt xs) (enc_opt ys)
    = Some (vcorr_pearson (DT := IsNoneXR) (DT2 := IsNoneXR) (fun x : XR => x)
              (mp_default mp (length (enc_opt xs))) (ranks false false xs) (ranks false false ys)).
Proof. intros mp xs ys. rewrite vcorr_opt, length_enc_opt. apply C20_spearman. Qed.

Theorem C20_spearman_i32 :
  forall (mp : option nat) (xs ys : list Z),
    vcorr (DT := DInt) (DX := DXInt) mp true (cast_i32 xs) (cast_i32 ys)
    = Some (vcorr_pearson (DT := IsNoneXR) (DT2 := IsNoneXR) (fun x : XR => x)
              (mp_default mp (length xs)) (ranks false false (cast_i32 xs)) (ranks false false (cast_i32 ys))).
Proof. intros mp xs ys. rewrite vcorr_i32, <- (length_cast_i32 xs). apply C20_spearman. Qed.

Theorem C20_spearman_textbook_opt :
  forall (mp : option nat) (xs ys : list XR),
    let P := rpairs (DT := IsNoneXR) (DT2 := IsNoneXR) (fun x : XR => x) (ranks false false xs) (ranks false false ys) in
    vcorr (DT := DOpt) (DX := DXOpt) mp true (enc_opt xs) (enc_opt ys)
    = Some (if (length P <? Nat.max (mp_default mp (length (enc_opt xs))) 2)%nat then None
            else if Rlt_dec EPS (popvarR (xs_of P)) then
                   (if Rlt_dec EPS (popvarR (ys_of P)) then Some (corrR P) else None)
                 else None).
Proof. intros mp xs ys. rewrite vcorr_opt, length_enc_opt. exact (C20_spearman_textbook mp xs ys). Qed.

Theorem C20_spearman_textbook_i32 :
  forall (mp : option nat) (xs ys : list Z),
    let P := rpairs (DT := IsNoneXR) (DT2 := IsNoneXR) (fun x : XR => x)
                    (ranks false false (cast_i32 xs)) (ranks false false (cast_i32 ys)) in
    vcorr (DT := DInt) (DX := DXInt) mp true (cast_i32 xs) (cast_i32 ys)
    = Some (if (length P <? Nat.max (mp_default mp (length xs)) 2)%nat then None
            else if Rlt_dec EPS (popvarR (xs_of P)) then
                   (if Rlt_dec EPS (popvarR (ys_of P)) then Some (corrR P) else None)
                 else None).
Proof.
  intros mp xs ys. rewrite vcorr_i32, <- (length_cast_i32 xs). exact (C20_spearman_textbook mp (cast_i32 xs) (cast_i32 ys)).
Qed.

Theorem C20_spearman_invariant_opt :
  forall (mp : option nat) (f g : R -> R) (xs ys : list XR),
    strict_mono f -> strict_mono g ->
    vcorr (DT := DOpt) (DX := DXOpt) mp true (map (option_map (option_map f)) (enc_opt xs))
                                             (map (option_map (option_map g)) (enc_opt ys))
    = vcorr (DT := DOpt) (DX := DXOpt) mp true (enc_opt xs) (enc_opt ys).
Proof. intros mp f g xs ys Hf Hg. rewrite !enc_opt_map, !vcorr_opt. apply C20_spearman_invariant; assumption. Qed.

(* an integer map fz that is the restriction of a strictly increasing real function f (3z + 1, z^3, ...) *)
Theorem C20_spearman_invariant_i32 :
  forall (mp : option nat) (f g : R -> R) (fz gz : Z -> Z) (xs ys : list Z),
    strict_mono f -> strict_mono g ->
    (forall z, IZR (fz z) = f (IZR z)) -> (forall z, IZR (gz z) = g (IZR z)) ->
    vcorr (DT := DInt) (DX := DXInt) mp true (cast_i32 (map fz xs)) (cast_i32 (map gz ys))
    = vcorr (DT := DInt) (DX := DXInt) mp true (cast_i32 xs) (cast_i32 ys).
Proof.
  intros mp f g fz gz xs ys Hf Hg Ef Eg. rewrite !vcorr_i32, (cast_i32_map f fz xs Ef), (cast_i32_map g gz ys Eg).
  apply C20_spearman_invariant; assumption.
Qed.

(* half_life on the Option<f64> rendering = half_life on the f64 series (so C20_half_life_total_f64 etc. carry over) *)
Theorem C20_half_life_opt :
  forall (mp : option nat) (xs : list XR),
    half_life_exec (DT := DOpt) (dict_opt (nisnan (A := XR))) mp (enc_opt xs)
    = half_life_exec (DT := IsNoneXR) (fdict (A := XR)) mp xs.
Proof. exact half_life_exec_opt. Qed.

(* ================================ half_life: which lags are probed ==================================== *)
Local Close Scope R_scope.
(* half_life_tr = the two loops of the model with the list of probed lags recorded; erasing the trace gives the model *)
Theorem C20_half_life_trace_erasure :
  forall (above : nat -> bool) (len : nat), fst (half_life_tr above len) = half_life above len.
Proof. exact half_life_tr_fst. Qed.

(* first_fail above j : the oracle is true at 2^0 .. 2^(j-1) and false at 2^j.  Exactly one such j exists. *)
Theorem C20_half_life_first_fail_unique :
  forall (above : nat -> bool) (len : nat),
    (forall k, len <= k -> above k = false) -> 1 <= len ->
    exists j, first_fail above j /\ forall j', first_fail above j' -> j' = j.
Proof.
  intros above len Hout Hlen. destruct (first_fail_exists above len Hout Hlen) as (j & F).
  exists j. split; [exact F|]. intros j' F'. apply (first_fail_unique above j' j F' F).
Qed.

(* THE PROBE SEQUENCE.  The doubling phase probes exactly 1, 2, 4, .., 2^j (j = the first exponent at which the
   oracle is false; no lag is skipped for any other reason), then the bisection of (prev_pow j, min(2^j, len-1)] probes
   exactly the midpoints determined by the answers; the result is where that bisection ends. *)
Theorem C20_half_life_probe_sequence_oracle :
  forall (above : nat -> bool) (len j : nat),
    (forall k, len <= k -> above k = false) -> 1 <= len -> first_fail above j ->
    let n := Nat.min (2 ^ j) (len - 1) in let last := prev_pow j in
    half_life_tr above len = (Some (Ok (bis_end above (n - last) n last)), pows 0 (S j) ++ mids above (n - last) n last).
Proof. intros above len j Hout Hlen F. exact (half_life_tr_exact above len Hout Hlen j F). Qed.

(* every bisection probe is strictly inside the bracket; the end is inside, one above a lag where the oracle is true (or
   the lower end), and the upper end or a lag where the oracle is false *)
Theorem C20_half_life_bisection :
  forall (above : nat -> bool) (k n last : nat),
    last <= n -> n - last <= k ->
    Forall (fun m => last < m < n) (mids above k n last) /\
    exists l', l' <= bis_end above k n last <= l' + 1 /\ last <= l' /\ bis_end above k n last <= n /\
               (l' = last \/ above l' = true) /\
               (bis_end above k n last = n \/ above (bis_end above k n last) = false) /\
               (last < n -> l' < bis_end above k n last).
Proof. intros above k n last H1 H2. split; [apply mids_inside|apply bis_end_spec; assumption]. Qed.

(* the result is the cap len-1 or a genuine down-crossing of the oracle, inside the bracket of the doubling phase *)
Theorem C20_half_life_crossing :
  forall (above : nat -> bool) (len j r : nat),
    (forall k, len <= k -> above k = false) -> 1 <= len -> first_fail above j ->
    half_life above len = Some (Ok r) ->
    prev_pow j <= r <= Nat.min (2 ^ j) (len - 1) /\ (prev_pow j < len - 1 -> prev_pow j < r) /\
    (r = len - 1 \/ (above r = false /\ (r = 1 \/ above (r - 1) = true))).
Proof. intros above len j r Hout Hlen F Hr. exact (half_life_crossing above len Hout Hlen j r F Hr). Qed.

(* the executable half_life, oracle = vcorr_pearson(xs, vshift(xs, lag), min_periods) > 0.5: every element type whose
   T::none() is a null, every series, EVERY min_periods (explicit, omitted, 0, 1, > len) *)
Theorem C20_half_life_probe_sequence :
  forall {T : Type} {DT : IsNone T XR} (dm : NullDict T XR) (mp : option nat) (nv : T) (xs : list T),
    MapOps.none dm = Ok nv -> Num.is_none nv = true -> xs <> [] ->
    let len := length xs in
    let ab := above_half (DT := DT) (mp_default mp len) nv xs in
    exists j r,
      first_fail ab j /\
      half_life_exec (DT := DT) dm mp xs = Some (Ok r) /\
      (let n := Nat.min (2 ^ j) (len - 1) in let last := prev_pow j in
       half_life_tr ab len = (Some (Ok r), pows 0 (S j) ++ mids ab (n - last) n last) /\
       Forall (fun m => last < m < n) (mids ab (n - last) n last)) /\
      prev_pow j <= r <= Nat.min (2 ^ j) (len - 1) /\ (prev_pow j < len - 1 -> prev_pow j < r) /\
      (r = len - 1 \/ (ab r = false /\ (r = 1 \/ ab (r - 1) = true))).
Proof. intros T DT dm mp nv xs. apply half_life_exec_probes. Qed.

Local Open Scope R_scope.
(* the oracle itself.  lag_pairs xs L = the complete pairs (x[i+L], x[i]); `canonical` = a non-null element is a number
   (always true for f64; no Some(NaN) for Option<f64>, DESIGN 5.4) *)
Theorem C20_autocorr_textbook :
  forall {T : Type} {DT : IsNone T XR} (nv : T) (mp : nat) (xs : list T) (lag : nat),
    Num.is_none nv = true -> canonical (@idA XR) xs ->
    let P := lag_pairs xs lag in
    autocorr (DT := DT) mp nv xs lag
    = if (length P <? Nat.max mp 2)%nat then None
      else if Rlt_dec EPS (popvarR (xs_of P)) then
             (if Rlt_dec EPS (popvarR (ys_of P)) then Some (corrR P) else None)
           else None.
Proof. intros T DT nv mp xs lag Hnv Hc. exact (autocorr_textbook nv Hnv mp xs lag Hc). Qed.

(* null iff fewer than max(min_periods, 2) complete pairs remain or one side has no spread: a lag leaving EXACTLY
   min_periods (>= 2) pairs is evaluated *)
Theorem C20_autocorr_defined_iff_enough_pairs :
  forall {T : Type} {DT : IsNone T XR} (nv : T) (mp : nat) (xs : list T) (lag : nat),
    Num.is_none nv = true -> canonical (@idA XR) xs ->
    let P := lag_pairs xs lag in
    autocorr (DT := DT) mp nv xs lag = None <->
    (length P < Nat.max mp 2)%nat \/ ~ EPS < popvarR (xs_of P) \/ ~ EPS < popvarR (ys_of P).
Proof. intros T DT nv mp xs lag Hnv Hc. exact (autocorr_defined_iff nv Hnv mp xs lag Hc). Qed.

Theorem C20_above_half_iff :
  forall {T : Type} {DT : IsNone T XR} (nv : T) (mp : nat) (xs : list T) (lag : nat),
    Num.is_none nv = true -> canonical (@idA XR) xs ->
    let P := lag_pairs xs lag in
    above_half (DT := DT) mp nv xs lag = true <->
    (Nat.max mp 2 <= length P)%nat /\ EPS < popvarR (xs_of P) /\ EPS < popvarR (ys_of P) /\ 1 / 2 < corrR P.
Proof. intros T DT nv mp xs lag Hnv Hc. exact (above_half_iff nv Hnv mp xs lag Hc). Qed.

(* a series without nulls: the pairs at lag L are all len - L overlapping pairs *)
Theorem C20_autocorr_all_valid :
  forall (mp : nat) (rs : list R) (lag : nat),
    let P := combine (skipn lag rs) rs in
    length P = (length rs - lag)%nat /\
    (autocorr (DT := IsNoneXR) mp None (map Some rs) lag = None <->
     (length rs - lag < Nat.max mp 2)%nat \/ ~ EPS < popvarR (xs_of P) \/ ~ EPS < popvarR (ys_of P)) /\
    (above_half (DT := IsNoneXR) mp None (map Some rs) lag = true <->
     (Nat.max mp 2 <= length rs - lag)%nat /\ EPS < popvarR (xs_of P) /\ EPS < popvarR (ys_of P) /\ 1 / 2 < corrR P).
Proof.
  intros mp rs lag P. split; [unfold P; rewrite combine_length, skipn_length; lia|].
  split; [apply autocorr_all_valid_defined_iff|apply above_half_all_valid_iff].
Qed.

(* ================================ non-vacuity (new theorems) ========================================= *)
Example C20_ex_enc_opt :
  enc_opt [Some 4; None; Some 1; Some 2] = [Some (Some 4); None; Some (Some 1); Some (Some 2)] /\
  cast_i32 [4; -1; 2]%Z = [Some 4; Some (-1); Some 2].
Proof. split; reflexivity. Qed.

(* the Option<f64> run of C20_ex_winsorize_quantile: the output is an f64 series, the None became a NaN *)
Example C20_ex_winsorize_quantile_opt :
  winsorize (DT := DOpt) WQuantile (Some (Some (1 / 2))) [Some (Some 4); None; Some (Some 1); Some (Some 2)]
  = Ok (Some [Some 2; None; Some 2; Some 2]).
Proof. rewrite <- C20_ex_winsorize_quantile. apply (winsorize_opt WQuantile (Some (Some (1 / 2))) [Some 4; None; Some 1; Some 2]). Qed.

Example C20_ex_int_maps :
  (forall z, IZR (3 * z + 1) = 3 * IZR z + 1) /\ (forall z, IZR (z * z * z) = IZR z * IZR z * IZR z).
Proof. split; intros z; rewrite ?plus_IZR, ?mult_IZR; reflexivity. Qed.

Local Close Scope R_scope.
(* above for lags 1, 2: j = 2 (4 is the first power of two that fails); probes 1, 2, 4 then the midpoint 3 *)
Example C20_ex_probe_sequence :
  first_fail (fun k => k <? 3) 2 /\
  half_life_tr (fun k => k <? 3) 10 = (Some (Ok 3), [1; 2; 4; 3]) /\
  half_life_tr (fun k => k <? 17) 20 = (Some (Ok 17), [1; 2; 4; 8; 16; 32; 17]) /\
  half_life_tr (fun k => k <? 30) 20 = (Some (Ok 19), [1; 2; 4; 8; 16; 32; 17; 18]).
Proof.
  split; [split; [reflexivity|intros i Hi; destruct i as [|[|i]]; [reflexivity|reflexivity|lia]]|].
  repeat split; reflexivity.
Qed.

(* lag 1 of [1; 2; 4] leaves exactly two pairs (2,1), (4,2): with min_periods = 2 the correlation IS evaluated (not null);
   with min_periods = 3 it is null *)
Example C20_ex_autocorr_exactly_min_periods :
  (autocorr (DT := IsNoneXR) 2 None (map Some [1; 2; 4]) 1 <> None /\
   autocorr (DT := IsNoneXR) 3 None (map Some [1; 2; 4]) 1 = None)%R.
Proof.
  split.
  - intros H. apply (autocorr_all_valid_defined_iff 2 [1; 2; 4]%R 1) in H.
    cbn [skipn combine length Nat.sub Nat.max xs_of ys_of map fst snd] in H.
    assert (E1 : popvarR [2; 4]%R = 1%R).
    { unfold popvarR, cmom, devsum, meanR, nR, sumR. cbn [length map fold_right INR]. field. }
    assert (E2 : popvarR [1; 2]%R = (1 / 4)%R).
    { unfold popvarR, cmom, devsum, meanR, nR, sumR. cbn [length map fold_right INR]. field. }
    rewrite E1, E2 in H. unfold EPS in H. destruct H as [H|[H|H]]; [lia|apply H; lra|apply H; lra].
  - apply (autocorr_all_valid_defined_iff 3 [1; 2; 4]%R 1). left. cbn. lia.
Qed.


(* ===================================================================================================================== *)
(* ================================ AUDIT (notes/C20.md, "Audit matrix"): Proofs/Audit20.v, Proofs/Audit20Float.v ========= *)
(* ===================================================================================================================== *)
Local Notation float := PrimFloat.float (only parsing).
(* (A1) winsorize at EVERY carrier A (so also Coq's binary64 `float`), every dictionary, method and parameter — omitted,
        NaN, out of range: the result is a panic propagated from the order-statistic selection, the Err of vquantile
        (Quantile method only), the cast input itself, or ONE map of vclip's element function
        clipA lo hi x = if x null then x else if lo non-null && x < lo then lo else if hi non-null && hi < x then hi else x *)
Theorem C20_winsorize_shape :
  forall {A : Type} {NA : Num A} {NF : NumFloor A} {T : Type} {DT : IsNone T A} (m : wmethod) (p : option A) (xs : list T),
    (exists k, winsorize m p xs = Panic k) \/
    (m = WQuantile /\ winsorize m p xs = Ok None) \/
    winsorize m p xs = Ok (Some (iter_cast xs)) \/
    (exists lo hi, winsorize m p xs = Ok (Some (map (clipA lo hi) (iter_cast xs)))).
Proof. intros A NA NF T DT. exact winsorize_shape. Qed.

(* "one value per input", "what must not change": WHENEVER a series is returned (no scope hypothesis): same length, same
   order; the null pattern of the cast input is kept; every output is the cast input itself — bit for bit — or, for a
   non-null input only, one of two bounds (the same two for the whole series) that it exceeded *)
Theorem C20_winsorize_returns :
  forall {A : Type} {NA : Num A} {NF : NumFloor A} {T : Type} {DT : IsNone T A} (m : wmethod) (p : option A) (xs : list T) (r : list A),
    winsorize m p xs = Ok (Some r) ->
    length r = length xs /\
    exists lo hi, forall i x, nth_error xs i = Some x ->
      exists y, nth_error r i = Some y /\ nisnan y = nisnan (tcast x) /\
        (y = tcast x \/ (nisnan (tcast x) = false /\ ((nltb (tcast x) lo = true /\ y = lo) \/ (nltb hi (tcast x) = true /\ y = hi)))).
Proof. intros A NA NF T DT. exact winsorize_returns. Qed.

(* "keeps nulls null", every carrier whose NaN is a NaN: a null input position holds the carrier's NaN *)
Theorem C20_winsorize_keeps_nulls :
  forall {A : Type} {NA : Num A} {NF : NumFloor A} {T : Type} {DT : IsNone T A} (m : wmethod) (p : option A) (xs : list T) (r : list A),
    nisnan (nnan : A) = true -> winsorize m p xs = Ok (Some r) ->
    forall i x, nth_error xs i = Some x -> Num.is_none x = true -> nth_error r i = Some nnan.
Proof. intros A NA NF T DT. exact winsorize_keeps_nulls. Qed.

(* the Sigma method has no failing input: never an Err, never a panic, at any carrier *)
Theorem C20_winsorize_sigma_never_fails :
  forall {A : Type} {NA : Num A} {NF : NumFloor A} {T : Type} {DT : IsNone T A} (p : option A) (xs : list T),
    exists r, winsorize WSigma p xs = Ok (Some r).
Proof. intros A NA NF T DT. exact winsorize_sigma_returns. Qed.

(* "unchanged inside", any carrier, no order law needed: a value not below a non-null lower bound and not above a non-null
   upper bound is returned as it is *)
Theorem C20_clip_inside_unchanged :
  forall {A : Type} {NA : Num A} (lo hi x : A),
    (nisnan lo = false -> nltb x lo = false) -> (nisnan hi = false -> nltb hi x = false) -> clipA lo hi x = x.
Proof. intros A NA. exact clipA_inside. Qed.

(* (A2) ORDERED carriers (Spec/ExtremaOrd.v: `<` a strict weak order on the non-NaN elements; binary64 satisfies it):
        bounds not reversed (a NaN bound is no bound) -> the result is inside the bounds, clipping is idempotent and ORDER
        PRESERVING for the carrier's own comparison *)
Theorem C20_clip_ordered_carrier :
  forall {A : Type} {NA : Num A}, OrdLaws A -> forall (lo hi : A),
    (nisnan lo = false -> nisnan hi = false -> nltb hi lo = false) ->
    (forall x, clipA lo hi (clipA lo hi x) = clipA lo hi x) /\
    (forall x, nisnan x = false ->
       (nisnan lo = false -> nltb (clipA lo hi x) lo = false) /\ (nisnan hi = false -> nltb hi (clipA lo hi x) = false)) /\
    (forall x y, nisnan x = false -> nisnan y = false -> nltb y x = false -> nltb (clipA lo hi y) (clipA lo hi x) = false).
Proof.
  intros A NA OL lo hi Hlh. split; [intros x; apply (clipA_idempotent OL); exact Hlh|].
  split; [intros x Hx; apply (clipA_contained OL); assumption|intros x y Hx Hy Hxy; apply (clipA_monotone OL); assumption].
Qed.

Theorem C20_winsorize_order_preserving_ordered :
  forall {A : Type} {NA : Num A} {NF : NumFloor A} {T : Type} {DT : IsNone T A}, OrdLaws A ->
  forall (m : wmethod) (p : option A) (xs : list T) (r : list A),
    winsorize m p xs = Ok (Some r) ->
    r = iter_cast xs \/
    exists lo hi, r = map (clipA lo hi) (iter_cast xs) /\
      ((nisnan lo = false -> nisnan hi = false -> nltb hi lo = false) ->
       forall i j x x', nth_error xs i = Some x -> nth_error xs j = Some x' ->
         nisnan (tcast x) = false -> nisnan (tcast x') = false -> nltb (tcast x') (tcast x) = false ->
         exists y y', nth_error r i = Some y /\ nth_error r j = Some y' /\ nltb y' y = false /\
                      (nisnan lo = false -> nltb y lo = false) /\ (nisnan hi = false -> nltb hi y = false)).
Proof. intros A NA NF T DT OL. exact (winsorize_order_preserving_ordered OL). Qed.

(* (A3) binary64, every element type (any null dictionary over Coq's `float`: f64, Option<f64>, the i32 rendering), with
        the floor / ceil the run executes: length; nulls -> NaN; NaN-ness fixed; each value bit-identical or on a bound; and
        when the two bounds are not reversed: order preserved (PrimFloat.ltb) and every non-NaN output inside the bounds *)
Theorem C20_winsorize_binary64 :
  forall {T : Type} {DT : IsNone T float} (m : wmethod) (p : option float) (xs : list T) (r : list float),
    winsorize (NF := Run.RunC12.NumFloorF64) m p xs = Ok (Some r) ->
    length r = length xs /\
    (forall i x, nth_error xs i = Some x -> Num.is_none x = true -> nth_error r i = Some PrimFloat.nan) /\
    exists lo hi,
      (forall i x, nth_error xs i = Some x ->
         exists y, nth_error r i = Some y /\ PrimFloat.is_nan y = PrimFloat.is_nan (tcast x) /\
           (y = tcast x \/ (PrimFloat.is_nan (tcast x) = false /\ ((PrimFloat.ltb (tcast x) lo = true /\ y = lo) \/ (PrimFloat.ltb hi (tcast x) = true /\ y = hi))))) /\
      ((PrimFloat.is_nan lo = false -> PrimFloat.is_nan hi = false -> PrimFloat.ltb hi lo = false) ->
       forall i j x x', nth_error xs i = Some x -> nth_error xs j = Some x' ->
         PrimFloat.is_nan (tcast x) = false -> PrimFloat.is_nan (tcast x') = false -> PrimFloat.ltb (tcast x') (tcast x) = false ->
         exists y y', nth_error r i = Some y /\ nth_error r j = Some y' /\ PrimFloat.ltb y' y = false /\
                      (PrimFloat.is_nan lo = false -> PrimFloat.ltb y lo = false) /\ (PrimFloat.is_nan hi = false -> PrimFloat.ltb hi y = false)).
Proof. intros T DT. exact winsorize_binary64. Qed.

(* (A4) option R, the parameters the quantifier leaves out.  EVERY method, EVERY parameter (omitted, NaN, any real): never a
        panic; an Err exactly for the Quantile method with q NaN or outside [0, 1]; otherwise the input or one clip_series *)
Local Open Scope R_scope.
Theorem C20_winsorize_every_parameter :
  forall (m : wmethod) (p : option XR) (xs : list XR),
    let rejected := m = WQuantile /\ (weff m p = None \/ exists q, weff m p = Some q /\ ~ 0 <= q <= 1) in
    (rejected /\ winsorize (DT := IsNoneXR) m p xs = Ok None) \/
    (~ rejected /\ exists r, winsorize (DT := IsNoneXR) m p xs = Ok (Some r) /\
                             (r = xs \/ exists lo hi, r = clip_series lo hi xs)).
Proof. exact winsorize_total_xr. Qed.

(* the closed forms hold beyond the quantifier: Quantile for every 0 <= q <= 1 (bounds ordered for q <= 1/2, REVERSED for
   q >= 1/2), Median and Sigma for every real multiplier (bounds reversed for k <= 0) and for k = NaN (series unchanged) *)
Theorem C20_winsorize_quantile_any_q :
  forall (xs : list XR) (q : R) (s : list R),
    0 <= q <= 1 -> Sorted Rle s -> Permutation s (valid xs) -> s <> [] ->
    let lo := quantile_spec s q Linear in let hi := quantile_spec s (1 - q) Linear in
    winsorize (DT := IsNoneXR) WQuantile (Some (Some q)) xs = Ok (Some (clip_series lo hi xs)) /\
    (q <= 1 / 2 -> lo <= hi) /\ (1 / 2 <= q -> hi <= lo).
Proof.
  intros xs q s Hq Hs HP Hne lo hi. split; [apply winsorize_quantile; assumption|].
  split; intros H; [apply quantile_bounds_ordered|apply quantile_bounds_reversed]; try assumption; lra.
Qed.

Theorem C20_winsorize_median_any_k :
  forall (xs : list XR) (k : XR) (s s' : list R),
    Sorted Rle s -> Permutation s (valid xs) -> s <> [] ->
    let med := quantile_spec s (1 / 2) Linear in
    Sorted Rle s' -> Permutation s' (map (fun x => Rabs (x - med)) (valid xs)) ->
    let mad := quantile_spec s' (1 / 2) Linear in
    winsorize (DT := IsNoneXR) WMedian (Some k) xs
      = Ok (Some (match k with Some k => clip_series (med - k * mad) (med + k * mad) xs | None => xs end))
    /\ 0 <= mad /\ (forall k', k = Some k' -> k' <= 0 -> med + k' * mad <= med - k' * mad).
Proof.
  intros xs k s s' Hs HP Hne med Hs' HP' mad.
  assert (Hmad : 0 <= mad).
  { apply (mad_nonneg s' (valid xs) med); try assumption.
    intros ->. apply Permutation_nil in HP'. apply map_eq_nil in HP'. rewrite HP' in HP.
    apply Permutation_sym, Permutation_nil in HP. contradiction. }
  split; [apply winsorize_median_any; assumption|]. split; [exact Hmad|].
  intros k' _ Hk'. apply median_bounds_reversed; assumption.
Qed.

Theorem C20_winsorize_sigma_any_k :
  forall (xs : list XR) (k : XR),
    let V := valid xs in
    winsorize (DT := IsNoneXR) WSigma (Some k) xs
      = Ok (Some (match k with
                  | None => xs
                  | Some k => if (length V <? 2)%nat then xs
                              else if Rle_dec (popvarR V) EPS then xs
                              else clip_series (meanR V - k * sqrt (samplevarR V)) (meanR V + k * sqrt (samplevarR V)) xs
                  end))
    /\ (forall k', k = Some k' -> k' <= 0 -> meanR V + k' * sqrt (samplevarR V) <= meanR V - k' * sqrt (samplevarR V)).
Proof.
  intros xs k V. split; [destruct k as [k|]; [apply winsorize_sigma|apply winsorize_sigma_nan]|].
  intros k' _ Hk'. apply sigma_bounds_reversed. exact Hk'.
Qed.

Theorem C20_winsorize_nan_parameter :
  forall (m : wmethod) (xs : list XR),
    winsorize (DT := IsNoneXR) m (Some None) xs = match m with WQuantile => Ok None | _ => Ok (Some xs) end.
Proof.
  intros m xs. destruct m; [apply winsorize_quantile_nan| |apply winsorize_sigma_nan].
  destruct (winsorize_total_xr WMedian (Some None) xs) as [((E & _) & _)|(_ & r & Hr & Hc)]; [discriminate|].
  destruct (sorted_exists false (valid xs)) as (s & Hs & HP).
  destruct (list_eq_dec Req_EM_T (valid xs) []) as [Hv|Hv]; [apply winsorize_median_all_null_any; exact Hv|].
  assert (Hne : s <> []) by (intros ->; apply Permutation_nil in HP; contradiction).
  destruct (sorted_exists false (map (fun x => Rabs (x - quantile_spec s (1 / 2) Linear)) (valid xs))) as (s' & Hs' & HP').
  exact (winsorize_median_any xs None s s' Hs HP Hne Hs' HP').
Qed.

(* just outside the quantifier (q in (1/2, 1], k < 0) the code still returns a series but it is NOT a clip to an interval:
   the bounds are reversed, every valid value below the first bound moves UP onto it, every other one onto the second *)
Theorem C20_winsorize_reversed_scope :
  forall (m : wmethod) (p : R) (xs : list XR),
    wparam_reversed m p ->
    exists r, winsorize (DT := IsNoneXR) m (Some (Some p)) xs = Ok (Some r) /\
              (r = xs \/ exists lo hi, hi <= lo /\ r = clip_series lo hi xs /\
                                       r = map (option_map (fun x => if Rlt_dec x lo then lo else hi)) xs).
Proof. exact winsorize_reversed_scope. Qed.

(* ... so the scope hypothesis of C20_winsorize_order_preserving is EXACTLY needed: at q = 1 and at k = -1 the series
   [1; 2; 3] becomes [3; 3; 1], and 2 <= 3 is mapped to 3 > 1 *)
Theorem C20_winsorize_scope_needed :
  winsorize (DT := IsNoneXR) WQuantile (Some (Some 1)) [Some 1; Some 2; Some 3] = Ok (Some [Some 3; Some 3; Some 1]) /\
  winsorize (DT := IsNoneXR) WMedian (Some (Some (-1))) [Some 1; Some 2; Some 3] = Ok (Some [Some 3; Some 3; Some 1]) /\
  ~ (forall i j x x' y y', nth_error [Some 1; Some 2; Some 3] i = Some (Some x) ->
       nth_error [Some 1; Some 2; Some 3] j = Some (Some x') ->
       nth_error [Some 3; Some 3; Some 1] i = Some (Some y) -> nth_error [Some 3; Some 3; Some 1] j = Some (Some y') ->
       x <= x' -> y <= y').
Proof.
  split; [exact winsorize_quantile_q1_witness|]. split; [exact winsorize_median_kneg_witness|exact order_broken_331].
Qed.
Local Close Scope R_scope.

(* (A5) half_life over ANY oracle (len >= 1): never out of fuel; either the oracle fails somewhere on the doubling sequence
        1, 2, 4, .. up to the first power of two >= len, and then the result is a lag in range; or it is true on all of it,
        and then `n - last_n` underflows.  So "the test is false for lags >= len" is needed at exactly one lag. *)
Theorem C20_half_life_any_oracle :
  forall (above : nat -> bool) (len : nat), 1 <= len ->
    (exists j, first_fail above j /\ prev_pow j < len /\
       exists r, half_life above len = Some (Ok r) /\ r <= len - 1 /\ (r = 0 <-> len < 2)) \/
    ((forall t, prev_pow t < len -> above (2 ^ t) = true) /\ half_life above len = Some (Panic Underflow)).
Proof. exact half_life_any_oracle. Qed.

Theorem C20_half_life_panics_iff :
  forall (above : nat -> bool) (len : nat), 1 <= len ->
    (half_life above len = Some (Panic Underflow) <-> forall t, prev_pow t < len -> above (2 ^ t) = true).
Proof. exact half_life_panics_iff. Qed.

Theorem C20_half_life_oracle_hypothesis_needed :
  exists (above : nat -> bool) (len : nat), 1 <= len /\ half_life above len = Some (Panic Underflow).
Proof. exists (fun _ => true), 3. split; [lia|exact half_life_always_true_panics]. Qed.

(* the threshold theorem for EVERY L (L = 0, "never above", behaves as L = 1) *)
Theorem C20_half_life_oracle_threshold_any_L :
  forall (above : nat -> bool) (len L : nat),
    1 <= len -> (forall k, len <= k -> above k = false) ->
    (forall k, 1 <= k -> above k = (k <? L)) ->
    half_life above len = Some (Ok (Nat.min (Nat.max L 1) (len - 1))).
Proof. intros above len L Hlen Hout Hthr. apply half_life_threshold_any_L; assumption. Qed.

(* (A6) the executable half_life at EVERY carrier (binary64 included) and every element type whose T::none() is a null:
        totality needs only that the carrier's NaN tests as NaN *)
Theorem C20_autocorr_beyond_length_any_carrier :
  forall {A : Type} {NA : Num A} {T : Type} {DT : IsNone T A} (mp : nat) (nv : T) (xs : list T) (lag : nat),
    nisnan (nnan : A) = true -> Num.is_none nv = true -> length xs <= lag ->
    autocorr (DT := DT) mp nv xs lag = nnan /\ above_half (DT := DT) mp nv xs lag = false.
Proof.
  intros A NA T DT mp nv xs lag Hnan Hnv H. split; [apply autocorr_out_any|apply above_half_out_any]; assumption.
Qed.

Theorem C20_half_life_total_any_carrier :
  forall {A : Type} {NA : Num A} {T : Type} {DT : IsNone T A} (dm : NullDict T A) (mp : option nat) (nv : T) (xs : list T),
    nisnan (nnan : A) = true -> MapOps.none dm = Ok nv -> Num.is_none nv = true ->
    exists r, half_life_exec (DT := DT) dm mp xs = Some (Ok r) /\
              r <= length xs - 1 /\ (r = 0 <-> length xs < 2).
Proof. intros A NA T DT dm mp nv xs Hnan. apply half_life_exec_total_any. exact Hnan. Qed.

Theorem C20_half_life_threshold_any_carrier :
  forall {A : Type} {NA : Num A} {T : Type} {DT : IsNone T A} (dm : NullDict T A) (mp : option nat) (nv : T) (xs : list T) (L : nat),
    nisnan (nnan : A) = true -> MapOps.none dm = Ok nv -> Num.is_none nv = true -> xs <> [] ->
    (forall k, 1 <= k -> above_half (DT := DT) (mp_default mp (length xs)) nv xs k = (k <? L)) ->
    half_life_exec (DT := DT) dm mp xs = Some (Ok (Nat.min (Nat.max L 1) (length xs - 1))).
Proof. intros A NA T DT dm mp nv xs L Hnan. apply half_life_exec_threshold_any. exact Hnan. Qed.

Theorem C20_half_life_probe_sequence_any_carrier :
  forall {A : Type} {NA : Num A} {T : Type} {DT : IsNone T A} (dm : NullDict T A) (mp : option nat) (nv : T) (xs : list T),
    nisnan (nnan : A) = true -> MapOps.none dm = Ok nv -> Num.is_none nv = true -> xs <> [] ->
    let len := length xs in
    let ab := above_half (DT := DT) (mp_default mp len) nv xs in
    exists j r,
      first_fail ab j /\
      half_life_exec (DT := DT) dm mp xs = Some (Ok r) /\
      (let n := Nat.min (2 ^ j) (len - 1) in let last := prev_pow j in
       half_life_tr ab len = (Some (Ok r), pows 0 (S j) ++ mids ab (n - last) n last) /\
       Forall (fun m => last < m < n) (mids ab (n - last) n last)) /\
      prev_pow j <= r <= Nat.min (2 ^ j) (len - 1) /\ (prev_pow j < len - 1 -> prev_pow j < r) /\
      (r = len - 1 \/ (ab r = false /\ (r = 1 \/ ab (r - 1) = true))).
Proof. intros A NA T DT dm mp nv xs Hnan. apply half_life_exec_probes_any. exact Hnan. Qed.

Theorem C20_half_life_int_none_panics_any_carrier :
  forall {A : Type} {NA : Num A} {T : Type} {DT : IsNone T A} (dm : NullDict T A) (mp : option nat) (k : panic_kind) (xs : list T),
    MapOps.none dm = Panic k ->
    half_life_exec (DT := DT) dm mp xs = if length xs =? 0 then Some (Ok 0) else Some (Panic k).
Proof. intros A NA T DT dm mp k xs. apply half_life_exec_none_panics_any. Qed.

(* binary64, on the three dictionaries the correspondence run executes (Run/RunC20.v: mF, mO, mN) *)
Theorem C20_half_life_binary64 :
  (forall (mp : option nat) (xs : list float),
     exists r, half_life_exec (DT := IsNoneF64) Run.RunC20.mF mp xs = Some (Ok r) /\
               r <= length xs - 1 /\ (r = 0 <-> length xs < 2)) /\
  (forall (mp : option nat) (xs : list (option float)),
     exists r, half_life_exec (DT := IsNoneOptF64) Run.RunC20.mO mp xs = Some (Ok r) /\
               r <= length xs - 1 /\ (r = 0 <-> length xs < 2)) /\
  (forall (mp : option nat) (xs : list float),
     half_life_exec (DT := Run.RunC20.Dn20) Run.RunC20.mN mp xs
     = if length xs =? 0 then Some (Ok 0) else Some (Panic OtherPanic)).
Proof.
  split; [exact half_life_binary64_f64|]. split; [exact half_life_binary64_opt|exact half_life_binary64_i32].
Qed.

(* (A7) vcorr, the Pearson arm (agg.rs:44): every carrier, every dictionary.  min_periods defaults to half the length of
        the FIRST series; unequal lengths are zipped (the longer series is cut, the default is not recomputed) *)
Theorem C20_vcorr_pearson_arm :
  forall {A : Type} {NA : Num A} {T : Type} {DT : IsNone T A} {DX : IsNoneX T A} (mp : option nat) (xs ys : list T),
    vcorr (DT := DT) (DX := DX) mp false xs ys
    = Some (vcorr_pearson (DT := DT) (DT2 := DT) (@idA A) (mp_default mp (length xs)) xs ys).
Proof. intros A NA T DT DX. exact vcorr_pearson_arm. Qed.

Theorem C20_vcorr_pearson_arm_truncates :
  forall {A : Type} {NA : Num A} {T : Type} {DT : IsNone T A} {DX : IsNoneX T A} (mp : option nat) (xs ys : list T),
    let n := Nat.min (length xs) (length ys) in
    vcorr (DT := DT) (DX := DX) mp false xs ys
    = vcorr (DT := DT) (DX := DX) (Some (mp_default mp (length xs))) false (firstn n xs) (firstn n ys).
Proof. intros A NA T DT DX. exact vcorr_pearson_arm_truncates. Qed.

Local Open Scope R_scope.
Theorem C20_vcorr_pearson_textbook :
  forall (mp : option nat) (xs ys : list XR),
    let P := rpairs (DT := IsNoneXR) (DT2 := IsNoneXR) (fun x : XR => x) xs ys in
    vcorr (DT := IsNoneXR) (DX := IsNoneXXR) mp false xs ys
    = Some (if (length P <? Nat.max (mp_default mp (length xs)) 2)%nat then None
            else if Rlt_dec EPS (popvarR (xs_of P)) then
                   (if Rlt_dec EPS (popvarR (ys_of P)) then Some (corrR P) else None)
                 else None).
Proof. exact vcorr_pearson_arm_textbook. Qed.

Theorem C20_vcorr_pearson_textbook_opt :
  forall (mp : option nat) (xs ys : list XR),
    let P := rpairs (DT := IsNoneXR) (DT2 := IsNoneXR) (fun x : XR => x) xs ys in
    vcorr (DT := DOpt) (DX := DXOpt) mp false (enc_opt xs) (enc_opt ys)
    = Some (if (length P <? Nat.max (mp_default mp (length (enc_opt xs))) 2)%nat then None
            else if Rlt_dec EPS (popvarR (xs_of P)) then
                   (if Rlt_dec EPS (popvarR (ys_of P)) then Some (corrR P) else None)
                 else None).
Proof. intros mp xs ys. rewrite vcorr_opt, length_enc_opt. exact (vcorr_pearson_arm_textbook mp xs ys). Qed.

Theorem C20_vcorr_pearson_textbook_i32 :
  forall (mp : option nat) (xs ys : list Z),
    let P := rpairs (DT := IsNoneXR) (DT2 := IsNoneXR) (fun x : XR => x) (cast_i32 xs) (cast_i32 ys) in
    vcorr (DT := DInt) (DX := DXInt) mp false (cast_i32 xs) (cast_i32 ys)
    = Some (if (length P <? Nat.max (mp_default mp (length xs)) 2)%nat then None
            else if Rlt_dec EPS (popvarR (xs_of P)) then
                   (if Rlt_dec EPS (popvarR (ys_of P)) then Some (corrR P) else None)
                 else None).
Proof.
  intros mp xs ys. rewrite vcorr_i32, <- (length_cast_i32 xs). exact (vcorr_pearson_arm_textbook mp (cast_i32 xs) (cast_i32 ys)).
Qed.

(* (A8) the Option<f64> and i32 renderings of (A4), and the Sigma method on fewer than two valid elements (every carrier):
        winsorize calls vmean_var(2), so that case is the `n < min_periods` branch — (NaN, NaN), series unchanged; the
        `n < 2 -> (m1, NaN)` line of vmean_var (tea-core/src/agg.rs:340) is not reachable from winsorize *)
Local Open Scope R_scope.
Theorem C20_winsorize_every_parameter_opt :
  forall (m : wmethod) (p : option XR) (xs : list XR),
    let rejected := m = WQuantile /\ (weff m p = None \/ exists q, weff m p = Some q /\ ~ 0 <= q <= 1) in
    (rejected /\ winsorize (DT := DOpt) m p (enc_opt xs) = Ok None) \/
    (~ rejected /\ exists r, winsorize (DT := DOpt) m p (enc_opt xs) = Ok (Some r) /\
                             (r = xs \/ exists lo hi, r = clip_series lo hi xs)).
Proof. intros m p xs. rewrite winsorize_opt. exact (winsorize_total_xr m p xs). Qed.

Theorem C20_winsorize_every_parameter_i32 :
  forall (m : wmethod) (p : option XR) (zs : list Z),
    let rejected := m = WQuantile /\ (weff m p = None \/ exists q, weff m p = Some q /\ ~ 0 <= q <= 1) in
    (rejected /\ winsorize (DT := DInt) m p (cast_i32 zs) = Ok None) \/
    (~ rejected /\ exists r, winsorize (DT := DInt) m p (cast_i32 zs) = Ok (Some r) /\
                             (r = cast_i32 zs \/ exists lo hi, r = clip_series lo hi (cast_i32 zs))).
Proof. intros m p zs. rewrite winsorize_i32. exact (winsorize_total_xr m p (cast_i32 zs)). Qed.
Local Close Scope R_scope.

Theorem C20_sigma_single_valid_is_min_periods_branch :
  forall {A : Type} {NA : Num A} {NF : NumFloor A} {T : Type} {DT : IsNone T A} (p : option A) (xs : list T),
    nisnan (nnan : A) = true -> length (vals xs) < 2 ->
    Agg.vmean_var (@idA A) 2 xs = (nnan, nnan) /\ winsorize WSigma p xs = Ok (Some (iter_cast xs)).
Proof.
  intros A NA NF T DT p xs Hnan H. split; [apply vmean_var_mp2_short; exact H|apply winsorize_sigma_short; assumption].
Qed.

Example C20_ex_sigma_single_valid :
  length (vals (DT := IsNoneXR) [None; Some 2%R; None]) < 2.
Proof. cbn. lia. Qed.

(* ================================ non-vacuity (audit theorems) ======================================== *)
(* binary64 satisfies the order laws (FloatAxioms.{ltb,leb,eqb}_spec) and its NaN tests as NaN *)
Example C20_ex_ordered_carrier : OrdLaws float /\ nisnan (nnan : float) = true.
Proof. split; [exact ordlaws_F64|reflexivity]. Qed.

Example C20_ex_reversed_scope : wparam_reversed WQuantile 1 /\ wparam_reversed WMedian (-1) /\ wparam_reversed WSigma (-1 / 2).
Proof. cbn. lra. Qed.

Local Close Scope R_scope.

(* both cases of C20_half_life_any_oracle occur; an oracle that is true beyond len but fails on the doubling sequence is fine *)
Example C20_ex_any_oracle :
  half_life (fun _ => true) 3 = Some (Panic Underflow) /\
  half_life (fun k => negb (k =? 2)) 3 = Some (Ok 2) /\ first_fail (fun k => negb (k =? 2)) 1 /\
  half_life (fun k => k <? 0) 5 = Some (Ok 1).
Proof.
  split; [reflexivity|]. split; [reflexivity|]. split; [|reflexivity].
  split; [reflexivity|]. intros i Hi. destruct i; [reflexivity|lia].
Qed.

(* binary64 examples (float literals need the PrimFloat notations) *)
Import PrimFloat.
(* the binary64 run of C20_ex_winsorize_quantile: hypothesis of C20_winsorize_returns / _binary64 *)
Example C20_ex_winsorize_binary64 :
  winsorize (DT := IsNoneF64) (NF := Run.RunC12.NumFloorF64) WQuantile (Some 0.5%float) [4%float; PrimFloat.nan; 1%float; 2%float]
  = Ok (Some [2%float; PrimFloat.nan; 2%float; 2%float]).
Proof. vm_compute. reflexivity. Qed.

Example C20_ex_clip_inside : clipA (1%float) (3%float) (2%float) = 2%float /\ clipA PrimFloat.nan PrimFloat.nan (7%float) = 7%float.
Proof. split; vm_compute; reflexivity. Qed.

Example C20_ex_half_life_binary64 :
  half_life_exec (DT := IsNoneF64) Run.RunC20.mF (Some 1) [1%float; 2%float; 4%float; 8%float; 9%float; 12%float] = Some (Ok 5).
Proof. vm_compute. reflexivity. Qed.

Print Assumptions C20_winsorize_quantile.
Print Assumptions C20_winsorize_median.
Print Assumptions C20_winsorize_sigma.
Print Assumptions C20_winsorize_no_valid.
Print Assumptions C20_winsorize_rejects_bad_q.
Print Assumptions C20_winsorize_default.
Print Assumptions C20_winsorize_acts_as_clip.
Print Assumptions C20_clip_laws.
Print Assumptions C20_winsorize_order_preserving.
Print Assumptions C20_quantile_monotone.
Print Assumptions C20_rank_is_average_rank.
Print Assumptions C20_spearman.
Print Assumptions C20_spearman_textbook.
Print Assumptions C20_rank_invariant.
Print Assumptions C20_spearman_invariant.
Print Assumptions C20_half_life_oracle_total.
Print Assumptions C20_half_life_empty.
Print Assumptions C20_half_life_probes_from_1.
Print Assumptions C20_half_life_oracle_threshold.
Print Assumptions C20_half_life_total.
Print Assumptions C20_half_life_total_f64.
Print Assumptions C20_half_life_threshold.
Print Assumptions C20_autocorr_beyond_length.
Print Assumptions C20_half_life_int_none_panics.
Print Assumptions C20_winsorize_encoding.
Print Assumptions C20_vcorr_encoding.
Print Assumptions C20_half_life_encoding.
Print Assumptions C20_encodings_option_i32.
Print Assumptions C20_winsorize_quantile_opt.
Print Assumptions C20_winsorize_quantile_i32.
Print Assumptions C20_winsorize_median_opt.
Print Assumptions C20_winsorize_median_i32.
Print Assumptions C20_winsorize_sigma_opt.
Print Assumptions C20_winsorize_sigma_i32.
Print Assumptions C20_winsorize_no_valid_opt.
Print Assumptions C20_winsorize_no_valid_i32.
Print Assumptions C20_winsorize_acts_as_clip_opt.
Print Assumptions C20_winsorize_acts_as_clip_i32.
Print Assumptions C20_winsorize_order_preserving_opt.
Print Assumptions C20_winsorize_order_preserving_i32.
Print Assumptions C20_rank_is_average_rank_opt.
Print Assumptions C20_rank_is_average_rank_i32.
Print Assumptions C20_spearman_opt.
Print Assumptions C20_spearman_i32.
Print Assumptions C20_spearman_textbook_opt.
Print Assumptions C20_spearman_textbook_i32.
Print Assumptions C20_spearman_invariant_opt.
Print Assumptions C20_spearman_invariant_i32.
Print Assumptions C20_half_life_opt.
Print Assumptions C20_half_life_trace_erasure.
Print Assumptions C20_half_life_first_fail_unique.
Print Assumptions C20_half_life_probe_sequence_oracle.
Print Assumptions C20_half_life_bisection.
Print Assumptions C20_half_life_crossing.
Print Assumptions C20_half_life_probe_sequence.
Print Assumptions C20_autocorr_textbook.
Print Assumptions C20_autocorr_defined_iff_enough_pairs.
Print Assumptions C20_above_half_iff.
Print Assumptions C20_autocorr_all_valid.
Print Assumptions C20_winsorize_shape.
Print Assumptions C20_winsorize_returns.
Print Assumptions C20_winsorize_keeps_nulls.
Print Assumptions C20_winsorize_sigma_never_fails.
Print Assumptions C20_clip_inside_unchanged.
Print Assumptions C20_clip_ordered_carrier.
Print Assumptions C20_winsorize_order_preserving_ordered.
Print Assumptions C20_winsorize_binary64.
Print Assumptions C20_winsorize_every_parameter.
Print Assumptions C20_winsorize_quantile_any_q.
Print Assumptions C20_winsorize_median_any_k.
Print Assumptions C20_winsorize_sigma_any_k.
Print Assumptions C20_winsorize_nan_parameter.
Print Assumptions C20_winsorize_reversed_scope.
Print Assumptions C20_winsorize_scope_needed.
Print Assumptions C20_half_life_any_oracle.
Print Assumptions C20_half_life_panics_iff.
Print Assumptions C20_half_life_oracle_hypothesis_needed.
Print Assumptions C20_half_life_oracle_threshold_any_L.
Print Assumptions C20_autocorr_beyond_length_any_carrier.
Print Assumptions C20_half_life_total_any_carrier.
Print Assumptions C20_half_life_threshold_any_carrier.
Print Assumptions C20_half_life_probe_sequence_any_carrier.
Print Assumptions C20_half_life_int_none_panics_any_carrier.
Print Assumptions C20_half_life_binary64.
Print Assumptions C20_vcorr_pearson_arm.
Print Assumptions C20_vcorr_pearson_arm_truncates.
Print Assumptions C20_vcorr_pearson_textbook.
Print Assumptions C20_vcorr_pearson_textbook_opt.
Print Assumptions C20_vcorr_pearson_textbook_i32.
Print Assumptions C20_winsorize_every_parameter_opt.
Print Assumptions C20_winsorize_every_parameter_i32.
Print Assumptions C20_sigma_single_valid_is_min_periods_branch.
