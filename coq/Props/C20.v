(* Props/C20.v — property C20: composite analytics terminate within range and respect their defining
   relations.  Statements only (closed by `exact` / `apply`), non-vacuity examples, Print Assumptions.
   Carrier XR = option R (None = null = NaN of an f64 series); `valid xs` = the non-null elements;
   s ranges over ANY ascending arrangement of them (one exists: C12_sorted_arrangement_exists).
     clipR lo hi x        = lo if x < lo, hi if hi < x, else x
     clip_series lo hi xs = map (option_map (clipR lo hi)) xs           (nulls stay null)
     quantile_spec s q Linear = the linearly interpolated q-quantile of s (C12)
     ranks pct rev xs     = the average ranks of C12 (null for a null)
   Models: Model/Composite.v (winsorize, vcorr, half_life_exec) over Model/{Quantile,Rank,Agg,MapOps,HalfLife}.v. *)
From Coq Require Import Reals Lra Lia List Sorting Permutation ZArith.
From Tevec Require Import Base.Prelude Model.MapOps.
From Tevec Require Import Base.Num Base.XR Spec.Stats Spec.Stats2 Model.SortCmp Model.Quantile Model.Rank
     Model.Agg Model.HalfLife Model.Composite
     Proofs.OrderXR Proofs.Quantile Proofs.QuantileMono Proofs.Partition Proofs.Rank Proofs.AggXR
     Proofs.HalfLife Proofs.Composite Proofs.Spearman Proofs.HalfLifeExec.
Import ListNotations.
Local Open Scope R_scope.

(* ================================ winsorize ========================================================= *)
(* Quantile method, 0 <= q <= 1/2: clip to [Q(q), Q(1-q)] of the valid data, and Q(q) <= Q(1-q) *)
Theorem C20_winsorize_quantile :
  forall (xs : list XR) (q : R) (s : list R),
    0 <= q <= 1 / 2 -> Sorted Rle s -> Permutation s (valid xs) -> s <> [] ->
    let lo := quantile_spec s q Linear in let hi := quantile_spec s (1 - q) Linear in
    winsorize (DT := IsNoneXR) WQuantile (Some (Some q)) xs = Ok (Some (clip_series lo hi xs)) /\ lo <= hi.
Proof.
  intros xs q s Hq Hs HP Hne lo hi. split.
  - apply winsorize_quantile; try assumption. lra.
  - apply quantile_bounds_ordered; assumption.
Qed.

(* Median method, k >= 0: clip to median -/+ k MAD, MAD = median of |x - median| >= 0 (no scale factor) *)
Theorem C20_winsorize_median :
  forall (xs : list XR) (k : R) (s s' : list R),
    0 <= k -> Sorted Rle s -> Permutation s (valid xs) -> s <> [] ->
    let med := quantile_spec s (1 / 2) Linear in
    Sorted Rle s' -> Permutation s' (map (fun x => Rabs (x - med)) (valid xs)) ->
    let mad := quantile_spec s' (1 / 2) Linear in
    winsorize (DT := IsNoneXR) WMedian (Some (Some k)) xs
      = Ok (Some (clip_series (med - k * mad) (med + k * mad) xs))
    /\ 0 <= mad /\ med - k * mad <= med + k * mad.
Proof.
  intros xs k s s' Hk Hs HP Hne med Hs' HP' mad.
  assert (Hmad : 0 <= mad).
  { apply (mad_nonneg s' (valid xs) med); try assumption.
    intros ->. apply Permutation_nil in HP'. apply map_eq_nil in HP'. rewrite HP' in HP.
    apply Permutation_sym, Permutation_nil in HP. contradiction. }
  split; [apply winsorize_median; assumption|]. split; [exact Hmad|].
  apply median_bounds_ordered; assumption.
Qed.

(* Sigma method, k >= 0: clip to mean -/+ k sigma (sample standard deviation of the valid data); with
   fewer than two valid elements, or a population variance at or below the code's floor EPS = 1e-14
   (constant series), sigma is not used and the series is returned unchanged *)
Theorem C20_winsorize_sigma :
  forall (xs : list XR) (k : R),
    0 <= k ->
    let V := valid xs in
    let lo := meanR V - k * sqrt (samplevarR V) in let hi := meanR V + k * sqrt (samplevarR V) in
    winsorize (DT := IsNoneXR) WSigma (Some (Some k)) xs
      = Ok (Some (if (length V <? 2)%nat then xs
                  else if Rle_dec (popvarR V) EPS then xs
                  else clip_series lo hi xs))
    /\ lo <= hi.
Proof.
  intros xs k Hk V lo hi. split; [apply winsorize_sigma|apply sigma_bounds_ordered; exact Hk].
Qed.

(* no valid element: every method returns the (all-null) series unchanged *)
Theorem C20_winsorize_no_valid :
  forall (m : wmethod) (p : R) (xs : list XR),
    wparam_in_scope m p -> valid xs = [] ->
    winsorize (DT := IsNoneXR) m (Some (Some p)) xs = Ok (Some xs).
Proof.
  intros m p xs Hp Hv. destruct m.
  - apply winsorize_quantile_all_null; [cbn in Hp; lra|exact Hv].
  - apply winsorize_median_all_null. exact Hv.
  - rewrite winsorize_sigma, Hv. reflexivity.
Qed.

Theorem C20_winsorize_rejects_bad_q :
  forall (xs : list XR) (q : R), ~ (0 <= q <= 1) ->
    winsorize (DT := IsNoneXR) WQuantile (Some (Some q)) xs = Ok None.
Proof. exact winsorize_quantile_bad_q. Qed.

(* omitted parameter: q = 0.01, k = 3 *)
Theorem C20_winsorize_default :
  forall (m : wmethod) (xs : list XR),
    winsorize (DT := IsNoneXR) m None xs = winsorize (DT := IsNoneXR) m (Some (Some (wdefault m))) xs.
Proof. exact winsorize_default. Qed.

(* all methods, every parameter of the quantifier: the result is the input or ONE clip with lo <= hi *)
Theorem C20_winsorize_acts_as_clip :
  forall (m : wmethod) (p : R) (xs : list XR),
    wparam_in_scope m p ->
    exists r, winsorize (DT := IsNoneXR) m (Some (Some p)) xs = Ok (Some r) /\
              (r = xs \/ exists lo hi, lo <= hi /\ r = clip_series lo hi xs).
Proof. exact winsorize_acts_as_clip. Qed.

(* what clipping to one interval means: one value per input; nulls stay null; inside unchanged; below -> lo;
   above -> hi; result inside [lo, hi] and the nearest point of it; order preserving *)
Theorem C20_clip_laws :
  forall (lo hi : R) (xs : list XR),
    lo <= hi ->
    length (clip_series lo hi xs) = length xs /\
    (forall i, nth_error xs i = Some None -> nth_error (clip_series lo hi xs) i = Some None) /\
    (forall i x, nth_error xs i = Some (Some x) ->
       exists y, nth_error (clip_series lo hi xs) i = Some (Some y) /\
         (lo <= x <= hi -> y = x) /\ (x < lo -> y = lo) /\ (hi < x -> y = hi) /\ lo <= y <= hi /\
         (forall z, lo <= z <= hi -> Rabs (x - y) <= Rabs (x - z))) /\
    (forall i j x x' y y', nth_error xs i = Some (Some x) -> nth_error xs j = Some (Some x') ->
       nth_error (clip_series lo hi xs) i = Some (Some y) -> nth_error (clip_series lo hi xs) j = Some (Some y') ->
       x <= x' -> y <= y').
Proof. exact clip_series_laws. Qed.

(* hence, directly on winsorize: order preserving and null preserving for every method in scope *)
Theorem C20_winsorize_order_preserving :
  forall (m : wmethod) (p : R) (xs : list XR),
    wparam_in_scope m p ->
    exists r, winsorize (DT := IsNoneXR) m (Some (Some p)) xs = Ok (Some r) /\ length r = length xs /\
      (forall i, nth_error xs i = Some None <-> nth_error r i = Some None) /\
      (forall i j x x' y y', nth_error xs i = Some (Some x) -> nth_error xs j = Some (Some x') ->
         nth_error r i = Some (Some y) -> nth_error r j = Some (Some y') -> x <= x' -> y <= y').
Proof.
  intros m p xs Hp. destruct (winsorize_acts_as_clip m p xs Hp) as (r & Hr & [->|(lo & hi & Hlh & ->)]).
  - exists xs. split; [exact Hr|]. split; [reflexivity|]. split; [tauto|].
    intros i j x x' y y' Hi Hj Hy Hy' Hxx. rewrite Hi in Hy. rewrite Hj in Hy'.
    injection Hy as <-. injection Hy' as <-. exact Hxx.
  - exists (clip_series lo hi xs). split; [exact Hr|].
    destruct (clip_series_laws lo hi xs Hlh) as (Hlen & Hnull & Hval & Hord).
    split; [exact Hlen|]. split; [|exact Hord].
    intros i. split; [apply Hnull|]. intros H.
    destruct (nth_error xs i) as [[x|]|] eqn:E; [| reflexivity |].
    + destruct (Hval i x E) as (y & Hy & _). rewrite Hy in H. discriminate.
    + unfold clip_series in H. rewrite nth_error_map, E in H. discriminate.
Qed.

(* the interpolated quantile is monotone in q (the fact behind lo <= hi) *)
Theorem C20_quantile_monotone :
  forall (s : list R) (q q' : R),
    Sorted Rle s -> s <> [] -> 0 <= q -> q <= q' -> q' <= 1 ->
    quantile_spec s q Linear <= quantile_spec s q' Linear.
Proof. exact quantile_mono. Qed.

(* ================================ Spearman ========================================================== *)
(* vrank IS the average-rank vector of C12, as an equation between lists *)
Theorem C20_rank_is_average_rank :
  forall (pct rev : bool) (xs : list XR),
    vrank (DT := IsNoneXR) (DX := IsNoneXXR) pct rev xs = map Some (ranks pct rev xs).
Proof. exact vrank_ranks. Qed.

(* Spearman = Pearson (pairwise deletion, min_periods default len/2) of the two average-rank vectors; the
   ranks are taken within each series over its own valid elements *)
Theorem C20_spearman :
  forall (mp : option nat) (xs ys : list XR),
    vcorr (DT := IsNoneXR) (DX := IsNoneXXR) mp true xs ys
    = Some (vcorr_pearson (DT := IsNoneXR) (DT2 := IsNoneXR) (fun x : XR => x)
              (mp_default mp (length xs)) (ranks false false xs) (ranks false false ys)).
Proof. exact spearman_is_pearson_of_ranks. Qed.

(* ... i.e. Pearson's r (C11) of the pairwise-complete rank pairs, null below min_periods / on zero spread *)
Theorem C20_spearman_textbook :
  forall (mp : option nat) (xs ys : list XR),
    let P := rpairs (DT := IsNoneXR) (DT2 := IsNoneXR) (fun x : XR => x) (ranks false false xs) (ranks false false ys) in
    vcorr (DT := IsNoneXR) (DX := IsNoneXXR) mp true xs ys
    = Some (if (length P <? Nat.max (mp_default mp (length xs)) 2)%nat then None
            else if Rlt_dec EPS (popvarR (xs_of P)) then
                   (if Rlt_dec EPS (popvarR (ys_of P)) then Some (corrR P) else None)
                 else None).
Proof. exact spearman_textbook. Qed.

(* rank (map f xs) = rank xs for strictly increasing f, nulls mapped to nulls: every flag combination *)
Theorem C20_rank_invariant :
  forall (pct rev : bool) (f : R -> R) (xs : list XR),
    strict_mono f ->
    vrank (DT := IsNoneXR) (DX := IsNoneXXR) pct rev (map (option_map f) xs)
    = vrank (DT := IsNoneXR) (DX := IsNoneXXR) pct rev xs.
Proof. exact vrank_invariant. Qed.

Theorem C20_spearman_invariant :
  forall (mp : option nat) (f g : R -> R) (xs ys : list XR),
    strict_mono f -> strict_mono g ->
    vcorr (DT := IsNoneXR) (DX := IsNoneXXR) mp true (map (option_map f) xs) (map (option_map g) ys)
    = vcorr (DT := IsNoneXR) (DX := IsNoneXXR) mp true xs ys.
Proof. exact spearman_invariant. Qed.

(* ================================ half_life ========================================================= *)
Local Close Scope R_scope.
(* abstract oracle (any test that is false for lags >= len): never out of fuel, never Panic, range,
   0 iff len < 2 *)
Theorem C20_half_life_oracle_total :
  forall (above : nat -> bool) (len : nat),
    (forall k, len <= k -> above k = false) -> 1 <= len ->
    exists r, half_life above len = Some (Ok r) /\ (r <= len - 1)%nat /\ (r = 0%nat <-> len < 2)%nat.
Proof. exact half_life_range. Qed.

Theorem C20_half_life_empty : forall above, half_life above 0 = Some (Ok 0%nat).
Proof. exact half_life_empty. Qed.

(* the search only ever looks at lags >= 1 *)
Theorem C20_half_life_probes_from_1 :
  forall (a1 a2 : nat -> bool) (len : nat),
    (forall k, (1 <= k)%nat -> a1 k = a2 k) -> half_life a1 len = half_life a2 len.
Proof. exact half_life_ext. Qed.

(* threshold oracle: above exactly for the lags 1 .. L-1  ->  the first lag that is not, capped at len-1 *)
Theorem C20_half_life_oracle_threshold :
  forall (above : nat -> bool) (len L : nat),
    (forall k, len <= k -> above k = false) -> (1 <= len)%nat -> (1 <= L)%nat ->
    (forall k, (1 <= k)%nat -> above k = (k <? L)%nat) ->
    half_life above len = Some (Ok (Nat.min L (len - 1))).
Proof. intros above len L Hout Hlen HL Hthr. apply half_life_threshold_from_1; assumption. Qed.

(* the executable half_life: oracle = vcorr_pearson(xs, vshift(xs, lag), min_periods) > 0.5, for every
   element type whose T::none() is a null value (f64, Option<f64>), every series, every min_periods *)
Theorem C20_half_life_total :
  forall {T : Type} {DT : IsNone T XR} (dm : NullDict T XR) (mp : option nat) (nv : T) (xs : list T),
    MapOps.none dm = Ok nv -> Num.is_none nv = true ->
    exists r, half_life_exec (DT := DT) dm mp xs = Some (Ok r) /\
              (r <= length xs - 1)%nat /\ (r = 0%nat <-> length xs < 2)%nat.
Proof. intros T DT dm mp nv xs. apply half_life_exec_total. Qed.

Corollary C20_half_life_total_f64 :
  forall (mp : option nat) (xs : list XR),
    exists r, half_life_exec (DT := IsNoneXR) (fdict (A := XR)) mp xs = Some (Ok r) /\
              (r <= length xs - 1)%nat /\ (r = 0%nat <-> length xs < 2)%nat.
Proof. intros mp xs. apply (half_life_exec_total (fdict (A := XR)) mp None xs); reflexivity. Qed.

Theorem C20_half_life_threshold :
  forall {T : Type} {DT : IsNone T XR} (dm : NullDict T XR) (mp : option nat) (nv : T) (xs : list T) (L : nat),
    MapOps.none dm = Ok nv -> Num.is_none nv = true -> xs <> [] -> (1 <= L)%nat ->
    (forall k, (1 <= k)%nat -> above_half (DT := DT) (mp_default mp (length xs)) nv xs k = (k <? L)%nat) ->
    half_life_exec (DT := DT) dm mp xs = Some (Ok (Nat.min L (length xs - 1))).
Proof. intros T DT dm mp nv xs L. apply half_life_exec_threshold. Qed.

(* a lag >= len has no complete pair: the correlation is null, the test is false *)
Theorem C20_autocorr_beyond_length :
  forall {T : Type} {DT : IsNone T XR} (mp : nat) (nv : T) (xs : list T) (lag : nat),
    Num.is_none nv = true -> (length xs <= lag)%nat ->
    autocorr (DT := DT) mp nv xs lag = None /\ above_half (DT := DT) mp nv xs lag = false.
Proof.
  intros T DT mp nv xs lag Hnv H. split; [apply autocorr_out|apply above_half_out]; assumption.
Qed.

(* plain integer series (DESIGN 5.4): T::none() panics in the first vshift; only the empty series returns *)
Theorem C20_half_life_int_none_panics :
  forall {T : Type} {DT : IsNone T XR} (dm : NullDict T XR) (mp : option nat) (k : panic_kind) (xs : list T),
    MapOps.none dm = Panic k ->
    half_life_exec (DT := DT) dm mp xs = if (length xs =? 0)%nat then Some (Ok 0%nat) else Some (Panic k).
Proof. intros T DT dm mp k xs. apply half_life_exec_none_panics. Qed.

(* ================================ non-vacuity ======================================================== *)
Local Open Scope R_scope.
Example C20_ex_sorted : Sorted Rle [1; 2; 4] /\ Permutation [1; 2; 4] (valid [Some 4; None; Some 1; Some 2]).
Proof.
  split.
  - repeat constructor; lra.
  - cbn. apply Permutation_sym. apply (Permutation_cons_app [1; 2] [] 4). reflexivity.
Qed.

(* q = 1/2: both bounds are the median 2, every valid value moves onto it, the null stays *)
Example C20_ex_winsorize_quantile :
  winsorize (DT := IsNoneXR) WQuantile (Some (Some (1 / 2))) [Some 4; None; Some 1; Some 2]
  = Ok (Some [Some 2; None; Some 2; Some 2]).
Proof.
  destruct C20_ex_sorted as [Hs HP].
  destruct (C20_winsorize_quantile _ (1 / 2) [1; 2; 4] ltac:(lra) Hs HP ltac:(discriminate)) as [E _].
  rewrite E. unfold quantile_spec. cbn [length Nat.sub INR].
  replace (1 - 1 / 2) with (1 / 2) by lra.
  replace ((1 + 1) * (1 / 2)) with (IZR 1) by lra. rewrite Rfloor_IZR, Rceil_IZR.
  change (Z.to_nat 1) with 1%nat. cbn [nth]. replace (2 + (2 - 2) * (1 - 1)) with 2 by lra.
  unfold clip_series, clipR. cbn [map option_map].
  destruct (Rlt_dec 4 2); [lra|]. destruct (Rlt_dec 2 4); [|lra].
  destruct (Rlt_dec 1 2); [|lra]. destruct (Rlt_dec 2 2); [lra|]. reflexivity.
Qed.

Example C20_ex_scope : wparam_in_scope WQuantile (1 / 100) /\ wparam_in_scope WMedian 3 /\ wparam_in_scope WSigma 0.
Proof. cbn. lra. Qed.

Example C20_ex_clip : clip_series 1 3 [Some 0; None; Some 2; Some 5] = [Some 1; None; Some 2; Some 3].
Proof.
  unfold clip_series, clipR. cbn [map option_map].
  destruct (Rlt_dec 0 1); [|lra]. destruct (Rlt_dec 2 1); [lra|]. destruct (Rlt_dec 3 2); [lra|].
  destruct (Rlt_dec 5 1); [lra|]. destruct (Rlt_dec 3 5); [|lra]. reflexivity.
Qed.

Example C20_ex_strict_mono : strict_mono (fun x => 3 * x + 1) /\ strict_mono exp /\ strict_mono (fun x => x * x * x).
Proof.
  split; [|split].
  - intros x y H. lra.
  - intros x y H. apply exp_increasing. exact H.
  - intros x y H.
    assert (E : y * y * y - x * x * x = (y - x) * (x * x + x * y + y * y)) by ring.
    assert (P : 0 < x * x + x * y + y * y).
    { assert (Q : x * x + x * y + y * y = (x + y / 2) * (x + y / 2) + 3 / 4 * (y * y)) by field.
      rewrite Q. pose proof (Rle_0_sqr (x + y / 2)) as S1. unfold Rsqr in S1.
      destruct (Rtotal_order y 0) as [Hy|[Hy|Hy]].
      - assert (0 < y * y) by nra. lra.
      - subst y. assert (0 < x * x) by nra. replace (x + 0 / 2) with x by lra. lra.
      - assert (0 < y * y) by nra. lra. }
    assert (D : 0 < y - x) by lra. pose proof (Rmult_lt_0_compat _ _ D P). lra.
Qed.

(* the search on a threshold oracle: above for lags 1, 2 -> half-life 3; capped at len - 1 *)
Example C20_ex_half_life_oracle :
  half_life (fun k => k <? 3)%nat 10 = Some (Ok 3%nat) /\ half_life (fun k => k <? 7)%nat 5 = Some (Ok 4%nat)
  /\ half_life (fun _ => false) 1 = Some (Ok 0%nat) /\ half_life (fun _ => false) 2 = Some (Ok 1%nat).
Proof. repeat split; reflexivity. Qed.

(* the executable oracle on a two-element series: lag 1 leaves one complete pair, fewer than two: not above;
   the hypothesis of C20_half_life_threshold holds with L = 1 and the half-life is 1 *)
Example C20_ex_half_life_exec :
  half_life_exec (DT := IsNoneXR) (fdict (A := XR)) (Some 1%nat) [Some 1; Some 2] = Some (Ok 1%nat).
Proof.
  assert (Hthr : forall k, (1 <= k)%nat ->
            above_half (DT := IsNoneXR) (mp_default (Some 1%nat) (length [Some 1; Some 2])) None [Some 1; Some 2] k
            = (k <? 1)%nat).
  2: { apply (C20_half_life_threshold (fdict (A := XR)) (Some 1%nat) None [Some 1; Some 2] 1);
       [reflexivity|reflexivity|discriminate|lia|exact Hthr]. }
  intros k Hk. destruct k as [|[|k]]; [lia|reflexivity|].
  apply above_half_out; [reflexivity|cbn; lia].
Qed.

Print Assumptions C20_winsorize_quantile.
Print Assumptions C20_winsorize_median.
Print Assumptions C20_winsorize_sigma.
Print Assumptions C20_winsorize_no_valid.
Print Assumptions C20_winsorize_rejects_bad_q.
Print Assumptions C20_winsorize_default.
Print Assumptions C20_winsorize_acts_as_clip.
Print Assumptions C20_clip_laws.
Print Assumptions C20_winsorize_order_preserving.
Print Assumptions C20_quantile_monotone.
Print Assumptions C20_rank_is_average_rank.
Print Assumptions C20_spearman.
Print Assumptions C20_spearman_textbook.
Print Assumptions C20_rank_invariant.
Print Assumptions C20_spearman_invariant.
Print Assumptions C20_half_life_oracle_total.
Print Assumptions C20_half_life_empty.
Print Assumptions C20_half_life_probes_from_1.
Print Assumptions C20_half_life_oracle_threshold.
Print Assumptions C20_half_life_total.
Print Assumptions C20_half_life_total_f64.
Print Assumptions C20_half_life_threshold.
Print Assumptions C20_autocorr_beyond_length.
Print Assumptions C20_half_life_int_none_panics.
