(* Props/C01.v — property C01: rolling moments and weighted averages equal from-scratch window
   evaluation.  Carrier XR = option R (exact reals + one absorbing NaN), every series, every window
   w >= 1, every min_periods, every position, both driver bodies.  Statements only.            *)
From Coq Require Import Reals Lra List.
From Tevec Require Import Base.Prelude Base.Num Base.XR Spec.Stats Model.Driver Model.Features
     Model.Fdiff Proofs.Features Proofs.Fdiff Proofs.Fdiff2 Proofs.Features2.
Import ListNotations.

(* (0) the accumulator never drifts: at emit time of every step it holds exactly the count and the
   first four power sums of the non-null elements of the window max(0,i-w+1)..=i — whatever the
   statistic computed from it (sum, mean, std, var, skew, kurt share this accumulator).          *)
Theorem C01_state_tracks_window :
  forall (emit : @mom XR -> XR) (body : bool) (w : nat) (xs : list XR),
    1 <= w ->
    exists out, ts_run (mom_feat emit) body w xs = Done out /\ length out = length xs /\
      forall i v, nth_error xs i = Some v ->
        exists s, nth_error out i = Some (emit s) /\
          m_n s = nv (win w i xs) /\
          m_s1 s = Some (psum 1 (valid (win w i xs))) /\ m_s2 s = Some (psum 2 (valid (win w i xs))) /\
          m_s3 s = Some (psum 3 (valid (win w i xs))) /\ m_s4 s = Some (psum 4 (valid (win w i xs))).
Proof.
  intros emit body w xs Hw.
  destruct (mom_state_tracks_window emit body w xs Hw) as (out & H1 & H2 & H3).
  exists out. split; [exact H1|]. split; [exact H2|]. intros i v Hv.
  destruct (H3 i v Hv) as (s & Habs & Hn). exists s. split; [exact Hn|exact Habs].
Qed.

(* (1) rolling sum *)
Theorem C01_ts_vsum :
  forall (body : bool) (w : nat) (mp : option nat) (xs : list XR), 1 <= w ->
    exists out, ts_run (ts_vsum_f w mp) body w xs = Done out /\ length out = length xs /\
      forall i, i < length xs ->
        nth_error out i =
        Some (let V := valid (win w i xs) in
              if mp_eff mp w 0 <=? length V then Some (sumR V) else None).
Proof.
  intros body w mp xs Hw.
  apply (mom_entry (emit_sum (mp_eff mp w 0))
           (fun V => if mp_eff mp w 0 <=? length V then Some (sumR V) else None)); [exact Hw|].
  intros s W HA. apply emit_sum_spec. exact HA.
Qed.

(* (2) rolling mean: null when the window has no valid element *)
Theorem C01_ts_vmean :
  forall (body : bool) (w : nat) (mp : option nat) (xs : list XR), 1 <= w ->
    exists out, ts_run (ts_vmean_f w mp) body w xs = Done out /\ length out = length xs /\
      forall i, i < length xs ->
        nth_error out i =
        Some (let V := valid (win w i xs) in
              if mp_eff mp w 0 <=? length V then (if length V =? 0 then None else Some (meanR V))
              else None).
Proof.
  intros body w mp xs Hw.
  apply (mom_entry (emit_mean (mp_eff mp w 0))
           (fun V => if mp_eff mp w 0 <=? length V then (if length V =? 0 then None else Some (meanR V))
                     else None)); [exact Hw|].
  intros s W HA. apply emit_mean_spec. exact HA.
Qed.

(* (3) rolling sample variance / standard deviation, with the EPS floor made explicit *)
Theorem C01_ts_vvar :
  forall (body : bool) (w : nat) (mp : option nat) (xs : list XR), 1 <= w ->
    exists out, ts_run (ts_vvar_f w mp) body w xs = Done out /\ length out = length xs /\
      forall i, i < length xs ->
        nth_error out i =
        Some (let V := valid (win w i xs) in
              if mp_eff mp w 2 <=? length V
              then (if Rlt_dec EPS (popvarR V) then Some (samplevarR V) else Some 0%R) else None).
Proof.
  intros body w mp xs Hw.
  apply (mom_entry (emit_var (mp_eff mp w 2))
           (fun V => if mp_eff mp w 2 <=? length V
                     then (if Rlt_dec EPS (popvarR V) then Some (samplevarR V) else Some 0%R) else None));
    [exact Hw|].
  intros s W HA. apply emit_var_spec; [exact HA|apply mp_eff_ge].
Qed.

Theorem C01_ts_vstd :
  forall (body : bool) (w : nat) (mp : option nat) (xs : list XR), 1 <= w ->
    exists out, ts_run (ts_vstd_f w mp) body w xs = Done out /\ length out = length xs /\
      forall i, i < length xs ->
        nth_error out i =
        Some (let V := valid (win w i xs) in
              if mp_eff mp w 2 <=? length V
              then (if Rlt_dec EPS (popvarR V) then Some (samplestdR V) else Some 0%R) else None).
Proof.
  intros body w mp xs Hw.
  apply (mom_entry (emit_std (mp_eff mp w 2))
           (fun V => if mp_eff mp w 2 <=? length V
                     then (if Rlt_dec EPS (popvarR V) then Some (samplestdR V) else Some 0%R) else None));
    [exact Hw|].
  intros s W HA. apply emit_std_spec; [exact HA|apply mp_eff_ge].
Qed.

(* the floor is a rounding device: where it applies the textbook variance is at most 2 EPS *)
Theorem C01_eps_floor_bounded :
  forall V : list R, 2 <= length V -> ~ (EPS < popvarR V)%R -> (samplevarR V <= 2 * EPS)%R.
Proof. exact eps_floor_bounded. Qed.

(* (4) exponentially weighted mean: state = sum_k oma^k x_(k), output = its normalised value *)
Theorem C01_ts_vewm :
  forall (body : bool) (w : nat) (mp : option nat) (xs : list XR), 1 <= w ->
    let oma := (1 - 2 / INR w)%R in
    exists out, ts_run (ts_vewm_f w mp) body w xs = Done out /\ length out = length xs /\
      forall i, i < length xs ->
        nth_error out i =
        Some (let V := valid (win w i xs) in
              if mp_eff mp w 0 <=? length V then
                (if Req_EM_T (1 - oma ^ length V) 0 then None
                 else Some (ewsum oma V * (2 / INR w) / (1 - oma ^ length V))%R)
              else None).
Proof.
  intros body w mp xs Hw oma.
  destruct (ewm_state_tracks_window w Hw mp body xs) as (out & H1 & H2 & H3).
  exists out. split; [exact H1|]. split; [exact H2|]. intros i Hi.
  destruct (nth_error xs i) as [v|] eqn:Hv; [|apply nth_error_None in Hv; lia].
  destruct (H3 i v Hv) as (s & Habs & Hn). rewrite Hn. f_equal.
  apply (ewm_emit_spec w Hw). exact Habs.
Qed.

Theorem C01_ewm_is_weighted_average :
  forall (w : nat) (V : list R), 1 <= w ->
    let oma := (1 - 2 / INR w)%R in
    (1 - oma ^ length V <> 0)%R ->
    (ewsum oma V * (2 / INR w) / (1 - oma ^ length V) = ewmR oma V)%R.
Proof. intros w V Hw oma Hd. apply (ewm_normalised w). exact Hd. Qed.

(* (5) linearly weighted mean: sum_t t x_t / (n(n+1)/2) over the valid window *)
Theorem C01_ts_vwma :
  forall (body : bool) (w : nat) (mp : option nat) (xs : list XR), 1 <= w ->
    exists out, ts_run (ts_vwma_f w mp) body w xs = Done out /\ length out = length xs /\
      forall i, i < length xs ->
        nth_error out i =
        Some (let V := valid (win w i xs) in
              if mp_eff mp w 0 <=? length V then (if length V =? 0 then None else Some (wmaR V))
              else None).
Proof.
  intros body w mp xs Hw.
  destruct (wma_state_tracks_window mp body w xs Hw) as (out & H1 & H2 & H3).
  exists out. split; [exact H1|]. split; [exact H2|]. intros i Hi.
  destruct (nth_error xs i) as [v|] eqn:Hv; [|apply nth_error_None in Hv; lia].
  destruct (H3 i v Hv) as (s & Habs & Hn). rewrite Hn. f_equal.
  apply wma_emit_spec. exact Habs.
Qed.

(* (6) adjusted skewness and excess kurtosis *)
Theorem C01_ts_vskew :
  forall (body : bool) (w : nat) (mp : option nat) (xs : list XR), 1 <= w ->
    exists out, ts_run (ts_vskew_f w mp) body w xs = Done out /\ length out = length xs /\
      forall i, i < length xs ->
        nth_error out i =
        Some (let V := valid (win w i xs) in
              if mp_eff mp w 3 <=? length V
              then (if Rle_dec (popvarR V) EPS then Some 0%R else Some (skewR V)) else None).
Proof.
  intros body w mp xs Hw.
  apply (mom_entry (emit_skew (mp_eff mp w 3))
           (fun V => if mp_eff mp w 3 <=? length V
                     then (if Rle_dec (popvarR V) EPS then Some 0%R else Some (skewR V)) else None));
    [exact Hw|].
  intros s W HA. apply emit_skew_spec; [exact HA|apply mp_eff_ge].
Qed.

Theorem C01_ts_vkurt :
  forall (body : bool) (w : nat) (mp : option nat) (xs : list XR), 1 <= w ->
    exists out, ts_run (ts_vkurt_f w mp) body w xs = Done out /\ length out = length xs /\
      forall i, i < length xs ->
        nth_error out i =
        Some (let V := valid (win w i xs) in
              if mp_eff mp w 4 <=? length V
              then (if Rle_dec (popvarR V) EPS then Some 0%R else Some (kurtR V)) else None).
Proof.
  intros body w mp xs Hw.
  apply (mom_entry (emit_kurt (mp_eff mp w 4))
           (fun V => if mp_eff mp w 4 <=? length V
                     then (if Rle_dec (popvarR V) EPS then Some 0%R else Some (kurtR V)) else None));
    [exact Hw|].
  intros s W HA. apply emit_kurt_spec; [exact HA|apply mp_eff_ge].
Qed.

(* (7) fractional difference (plain family, finite series): weights (-1)^k C(d,k) on the k-th most
   recent element of the window, also during warm-up *)
Theorem C01_ts_fdiff :
  forall (body : bool) (d : R) (w : nat) (rs : list R), 1 <= w ->
    exists out, ts_fdiff body (Some d) w (fun x : XR => x) (map Some rs) = Done out /\
      length out = length rs /\
      forall i, i < length rs -> nth_error out i = Some (Some (fdiffR d (win w i rs))).
Proof. exact ts_fdiff_spec. Qed.

(* (8) the plain family ts_sum .. ts_kurt, ts_ewm, ts_wma is the same code with a never-null
   dictionary; on null-free input it coincides with the null-aware family, so (1)-(6) apply *)
Theorem C01_plain_family_moments :
  forall (emit : @mom XR -> XR) (body : bool) (w : nat) (rs : list R), 1 <= w ->
    ts_run (mom_feat (DT := IsNone_never) emit) body w (map Some rs)
    = ts_run (mom_feat (DT := IsNoneXR) emit) body w (map Some rs).
Proof. exact plain_family_mom. Qed.

Theorem C01_plain_family_ewm :
  forall (w : nat) (mp : option nat) (body : bool) (rs : list R), 1 <= w ->
    ts_run (ts_vewm_f (DT := IsNone_never) w mp) body w (map Some rs)
    = ts_run (ts_vewm_f (DT := IsNoneXR) w mp) body w (map Some rs).
Proof. exact plain_family_ewm. Qed.

Theorem C01_plain_family_wma :
  forall (w : nat) (mp : option nat) (body : bool) (rs : list R), 1 <= w ->
    ts_run (ts_vwma_f (DT := IsNone_never) w mp) body w (map Some rs)
    = ts_run (ts_vwma_f (DT := IsNoneXR) w mp) body w (map Some rs).
Proof. exact plain_family_wma. Qed.

(* ---------------------------------------------------------------------------------------------
   (9) the null-aware fractional difference ts_vfdiff.  What the code does, faithfully:
       n = number of non-null elements of the window max(0,i-w+1)..=i; null iff
       n < min(min_periods.unwrap_or(w/2), w); otherwise the nulls are COMPACTED OUT and the k-th most
       recent VALID element gets (-1)^k C(d,k) — a null shifts the weights of all older elements,
       and a null in the current position does not null the output.                            *)
Theorem C01_ts_vfdiff :
  forall (body : bool) (d : R) (w : nat) (mp : option nat) (xs : list XR), 1 <= w ->
    exists out, ts_vfdiff (DT := IsNoneXR) body (Some d) w mp xs = Done out /\
      length out = length xs /\
      forall i, i < length xs ->
        nth_error out i =
        Some (let V := valid (win w i xs) in
              if mp_eff mp w 0 <=? length V then Some (fdiffR d V) else None).
Proof. exact ts_vfdiff_spec. Qed.

(* the same with the sum written out: V_(k) = k-th most recent valid element of the window *)
Theorem C01_ts_vfdiff_textbook :
  forall (body : bool) (d : R) (w : nat) (mp : option nat) (xs : list XR), 1 <= w ->
    exists out, ts_vfdiff (DT := IsNoneXR) body (Some d) w mp xs = Done out /\
      length out = length xs /\
      forall i, i < length xs ->
        nth_error out i =
        Some (let V := valid (win w i xs) in
              if mp_eff mp w 0 <=? length V
              then Some (sumR (map (fun k => (-1) ^ k * binomR d k * nth (length V - 1 - k) V 0)
                                   (seq 0 (length V))))%R
              else None).
Proof. exact ts_vfdiff_textbook. Qed.

(* plain ts_fdiff in the coordinates of the series: sum_{k < min(i+1,w)} (-1)^k C(d,k) x_{i-k} *)
Theorem C01_ts_fdiff_textbook :
  forall (body : bool) (d : R) (w : nat) (rs : list R), 1 <= w ->
    exists out, ts_fdiff body (Some d) w (fun x : XR => x) (map Some rs) = Done out /\
      length out = length rs /\
      forall i, i < length rs ->
        nth_error out i =
        Some (Some (sumR (map (fun k => (-1) ^ k * binomR d k * nth (i - k) rs 0)
                              (seq 0 (Nat.min (S i) w))))%R).
Proof. exact ts_fdiff_textbook. Qed.

(* fdiffR itself, recursively and positionally (weights by distance from the END of the window) *)
Theorem C01_fdiffR_cons :
  forall (d x : R) (l : list R), (fdiffR d (x :: l) = x * fdiff_weight d (length l) + fdiffR d l)%R.
Proof. exact fdiffR_cons. Qed.

Theorem C01_fdiffR_positional :
  forall (d : R) (l : list R),
    fdiffR d l
    = sumR (map (fun k => fdiff_weight d k * nth (length l - 1 - k) l 0)%R (seq 0 (length l))).
Proof. exact fdiffR_nth. Qed.

(* the output at i depends on the valid elements of the window only: where the nulls sit, the
   current position included, is irrelevant *)
Theorem C01_vfdiff_depends_on_valid_only :
  forall (body : bool) (d : R) (w : nat) (mp : option nat) (xs ys : list XR) (i : nat),
    1 <= w -> i < length xs -> i < length ys ->
    valid (win w i xs) = valid (win w i ys) ->
    forall ox oy,
      ts_vfdiff (DT := IsNoneXR) body (Some d) w mp xs = Done ox ->
      ts_vfdiff (DT := IsNoneXR) body (Some d) w mp ys = Done oy ->
      nth_error ox i = nth_error oy i.
Proof. exact vfdiff_depends_on_valid_only. Qed.

(* the surprise pinned on concrete windows (d = 1, w = 3, min_periods 1):
   [1; null; 3] -> 3 - 1 = 2 although x_0 is two steps back (positional weighting would give 3);
   [1; 3; null] -> 2, not null, although the current element is null *)
Theorem C01_vfdiff_nulls_shift_weights :
  forall body : bool,
    exists out, ts_vfdiff (DT := IsNoneXR) body (Some 1%R) 3 (Some 1) [Some 1%R; None; Some 3%R] = Done out /\
      nth_error out 2 = Some (Some 2%R) /\
      fdiff_positional 1 [Some 1%R; None; Some 3%R] = 3%R.
Proof. exact vfdiff_nulls_shift_weights. Qed.

Theorem C01_vfdiff_current_null_not_null :
  forall body : bool,
    exists out, ts_vfdiff (DT := IsNoneXR) body (Some 1%R) 3 (Some 1) [Some 1%R; Some 3%R; None] = Done out /\
      nth_error out 2 = Some (Some 2%R).
Proof. exact vfdiff_current_null_not_null. Qed.

(* ---------------------------------------------------------------------------------------------
   (10) the coefficient table fdiff_coef d w                                                   *)
(* length w, for EVERY numeric carrier (binary64 included) *)
Theorem C01_fdiff_coef_length :
  forall (A : Type) (NA : Num A) (d : A) (w : nat), length (fdiff_coef d w) = w.
Proof. exact (@fdiff_coef_length). Qed.

(* C(d,k) is the generalised binomial product, with the usual recurrence *)
Theorem C01_binom_product :
  forall (d : R) (k : nat),
    binomR d k = prodR (map (fun i => (d - INR i) / INR (S i))%R (seq 0 k)).
Proof. exact binomR_prod. Qed.

Theorem C01_binom_recurrence :
  forall (d : R) (k : nat),
    binomR d 0 = 1%R /\ (binomR d (S k) = binomR d k * ((d - INR k) / INR (S k)))%R.
Proof. intros d k. split; [apply binomR_0|apply binomR_S]. Qed.

(* coefficient k, counted from the most recent element (table index w-1-k), is (-1)^k C(d,k) *)
Theorem C01_fdiff_coef_nth :
  forall (d : R) (w k : nat), k < w ->
    nth_error (fdiff_coef (Some d) w) (w - 1 - k) = Some (Some ((-1) ^ k * binomR d k)%R).
Proof. exact fdiff_coef_nth. Qed.

(* the most recent element has weight 1 *)
Theorem C01_fdiff_coef_last :
  forall (d : R) (w : nat), 1 <= w -> nth_error (fdiff_coef (Some d) w) (w - 1) = Some (Some 1%R).
Proof. exact fdiff_coef_last. Qed.

(* integer order n: binomial numbers up to n, exactly 0 beyond *)
Theorem C01_fdiff_coef_integer_binomial :
  forall (n w k : nat), k <= n -> k < w ->
    nth_error (fdiff_coef (Some (INR n)) w) (w - 1 - k) = Some (Some ((-1) ^ k * C n k)%R).
Proof. exact fdiff_coef_nat_binomial. Qed.

Theorem C01_fdiff_coef_integer_vanish :
  forall (n w k : nat), n < k -> k < w ->
    nth_error (fdiff_coef (Some (INR n)) w) (w - 1 - k) = Some (Some 0%R).
Proof. exact fdiff_coef_nat_vanish. Qed.

(* ... so an integer-order fractional difference is the (window-truncated) n-th finite difference *)
Theorem C01_fdiff_integer_order :
  forall (n : nat) (l : list R),
    fdiffR (INR n) l
    = sumR (map (fun k => (-1) ^ k * C n k * nth (length l - 1 - k) l 0)%R
                (seq 0 (Nat.min (S n) (length l)))).
Proof. exact fdiffR_nat. Qed.

Theorem C01_fdiff_order0_identity :
  forall l : list R, l <> [] -> fdiffR 0 l = last l 0%R.
Proof. exact fdiffR_d0. Qed.

(* d = 1: the table is [0; ..; 0; -1; 1] and ts_fdiff (w >= 2) is the first difference *)
Theorem C01_fdiff_coef_d1 :
  forall w : nat, 2 <= w ->
    fdiff_coef (Some 1%R) w = repeat (Some 0%R) (w - 2) ++ [Some (-1)%R; Some 1%R].
Proof. exact fdiff_coef_d1. Qed.

Theorem C01_ts_fdiff_d1_first_difference :
  forall (body : bool) (w : nat) (rs : list R), 2 <= w ->
    exists out, ts_fdiff body (Some 1%R) w (fun x : XR => x) (map Some rs) = Done out /\
      length out = length rs /\
      forall i, i < length rs ->
        nth_error out i =
        Some (Some (match i with O => nth 0 rs 0 | S j => nth (S j) rs 0 - nth j rs 0 end)%R).
Proof. exact ts_fdiff_d1_first_difference. Qed.

(* ---------------------------------------------------------------------------------------------
   (11) plain entry points = null-aware twins on null-free input, entry point by entry point.
        For fdiff the twin additionally masks the positions with i + 1 < effective min_periods.  *)
Theorem C01_plain_fdiff_vs_vfdiff :
  forall (body : bool) (d : R) (w : nat) (mp : option nat) (rs : list R), 1 <= w ->
    exists outp outv,
      ts_fdiff body (Some d) w (fun x : XR => x) (map Some rs) = Done outp /\
      ts_vfdiff (DT := IsNoneXR) body (Some d) w mp (map Some rs) = Done outv /\
      length outp = length rs /\ length outv = length rs /\
      forall i, i < length rs ->
        nth_error outv i =
        if mp_eff mp w 0 <=? Nat.min (S i) w then nth_error outp i else Some None.
Proof. exact plain_fdiff_vs_vfdiff. Qed.

Theorem C01_plain_family_fdiff :
  forall (body : bool) (d : R) (w : nat) (mp : option nat) (rs : list R),
    1 <= w -> mp_eff mp w 0 <= 1 ->
    ts_fdiff body (Some d) w (fun x : XR => x) (map Some rs)
    = ts_vfdiff (DT := IsNoneXR) body (Some d) w mp (map Some rs).
Proof. exact plain_family_fdiff. Qed.

Theorem C01_vfdiff_warmup_mask :
  forall (body : bool) (d : R) (w : nat) (mp : option nat) (rs : list R), 1 <= w ->
    exists outv, ts_vfdiff (DT := IsNoneXR) body (Some d) w mp (map Some rs) = Done outv /\
      forall i, i < length rs -> S i < mp_eff mp w 0 -> nth_error outv i = Some None.
Proof. exact vfdiff_warmup_mask. Qed.

Theorem C01_plain_equals_null_aware :
  forall (body : bool) (w : nat) (mp : option nat) (d : R) (rs : list R), 1 <= w ->
    let xs := map Some rs in
    ts_run (ts_vsum_f (DT := IsNone_never) w mp) body w xs = ts_run (ts_vsum_f (DT := IsNoneXR) w mp) body w xs /\
    ts_run (ts_vmean_f (DT := IsNone_never) w mp) body w xs = ts_run (ts_vmean_f (DT := IsNoneXR) w mp) body w xs /\
    ts_run (ts_vvar_f (DT := IsNone_never) w mp) body w xs = ts_run (ts_vvar_f (DT := IsNoneXR) w mp) body w xs /\
    ts_run (ts_vstd_f (DT := IsNone_never) w mp) body w xs = ts_run (ts_vstd_f (DT := IsNoneXR) w mp) body w xs /\
    ts_run (ts_vskew_f (DT := IsNone_never) w mp) body w xs = ts_run (ts_vskew_f (DT := IsNoneXR) w mp) body w xs /\
    ts_run (ts_vkurt_f (DT := IsNone_never) w mp) body w xs = ts_run (ts_vkurt_f (DT := IsNoneXR) w mp) body w xs /\
    ts_run (ts_vewm_f (DT := IsNone_never) w mp) body w xs = ts_run (ts_vewm_f (DT := IsNoneXR) w mp) body w xs /\
    ts_run (ts_vwma_f (DT := IsNone_never) w mp) body w xs = ts_run (ts_vwma_f (DT := IsNoneXR) w mp) body w xs /\
    (mp_eff mp w 0 <= 1 ->
     ts_fdiff body (Some d) w (fun x : XR => x) xs = ts_vfdiff (DT := IsNoneXR) body (Some d) w mp xs).
Proof. exact plain_equals_null_aware. Qed.

(* ---------------------------------------------------------------------------------------------
   (12) the EPS floor of ts_vstd, and the zero-variance branches                               *)
(* ts_vstd returns 0 where the textbook sample std is at most sqrt(2 EPS) ~ 1.41e-7 *)
Theorem C01_eps_floor_bounded_std :
  forall V : list R, 2 <= length V -> ~ (EPS < popvarR V)%R ->
    (0 <= samplestdR V <= sqrt (2 * EPS))%R.
Proof. exact eps_floor_bounded_std. Qed.

(* `var > EPS` (var/std) and `var <= EPS` (skew/kurt) split the windows the same way *)
Theorem C01_floor_guards_agree :
  forall p : R, ~ (EPS < p)%R <-> (p <= EPS)%R.
Proof. exact floor_guards_agree. Qed.

(* a constant window has population variance exactly 0, so it is always in the floored class *)
Theorem C01_popvar_constant :
  forall (c : R) (n : nat), popvarR (repeat c n) = 0%R.
Proof. exact popvar_constant. Qed.

(* on a window with population variance <= EPS all four entry points return exactly 0 (never null,
   never the 0/0 of the textbook skewness / kurtosis), min_periods permitting *)
Theorem C01_zero_variance_outputs :
  forall (body : bool) (w : nat) (mp : option nat) (xs : list XR), 1 <= w ->
    exists ovar ostd oskew okurt,
      ts_run (ts_vvar_f w mp) body w xs = Done ovar /\
      ts_run (ts_vstd_f w mp) body w xs = Done ostd /\
      ts_run (ts_vskew_f w mp) body w xs = Done oskew /\
      ts_run (ts_vkurt_f w mp) body w xs = Done okurt /\
      forall i, i < length xs ->
        let V := valid (win w i xs) in
        (popvarR V <= EPS)%R ->
        (mp_eff mp w 2 <= length V ->
           nth_error ovar i = Some (Some 0%R) /\ nth_error ostd i = Some (Some 0%R)) /\
        (mp_eff mp w 3 <= length V -> nth_error oskew i = Some (Some 0%R)) /\
        (mp_eff mp w 4 <= length V -> nth_error okurt i = Some (Some 0%R)).
Proof. exact zero_variance_outputs. Qed.

(* ---------------------------------------------------------------------------------------------
   (13) the exponentially weighted mean is null exactly on windows without a valid element: the
        denominator of (4) vanishes iff n = 0, so (4) reads "weighted average, null iff empty"   *)
Theorem C01_ewm_denominator_zero_iff :
  forall (w n : nat), 1 <= w -> n <= w -> ((1 - (1 - 2 / INR w) ^ n)%R = 0%R <-> n = 0).
Proof. exact ewm_denominator_zero_iff. Qed.

Theorem C01_ts_vewm_total :
  forall (w : nat) (mp : option nat) (body : bool) (xs : list XR), 1 <= w ->
    exists out, ts_run (ts_vewm_f w mp) body w xs = Done out /\ length out = length xs /\
      forall i, i < length xs ->
        nth_error out i =
        Some (let V := valid (win w i xs) in
              if mp_eff mp w 0 <=? length V
              then (if length V =? 0 then None else Some (ewmR (1 - 2 / INR w) V))
              else None).
Proof. exact ts_vewm_total. Qed.

(* (14) window = 0 is rejected by both fractional differences, for every carrier: this is why the
        theorems above ask 1 <= w *)
Theorem C01_fdiff_window0 :
  forall (A : Type) (NA : Num A) (T : Type) (DT : IsNone T A) (d : A) (cast : T -> A)
         (mp : option nat) (xs : list T),
    ts_fdiff false d 0 cast xs = Panicked Underflow /\
    ts_vfdiff false d 0 mp xs = Panicked Underflow /\
    (xs <> [] -> ts_fdiff true d 0 cast xs = Panicked AssertFail /\
                 ts_vfdiff true d 0 mp xs = Panicked AssertFail).
Proof. exact (@fdiff_window0). Qed.

(* ---------------------------------------------------------------------------------------------
   (15) the weights in the form of the fractional-differencing literature, and the repository's
        own unit-test vectors (rolling.rs test_fdiff_coef, test_fdiff) exactly                   *)
Theorem C01_fdiff_weight_recurrence :
  forall (d : R) (k : nat),
    fdiff_weight d 0 = 1%R /\
    (fdiff_weight d (S k) = - fdiff_weight d k * ((d - INR k) / INR (S k)))%R.
Proof. intros d k. split; [apply fdiff_weight_0|apply fdiff_weight_S]. Qed.

Theorem C01_fdiff_weight_negative :
  forall (d : R) (k : nat), (0 < d < 1)%R -> 1 <= k -> (fdiff_weight d k < 0)%R.
Proof. exact fdiff_weight_negative. Qed.

Theorem C01_fdiff_weight_decreasing :
  forall (d : R) (k : nat), (0 < d < 1)%R -> 1 <= k -> (fdiff_weight d k < fdiff_weight d (S k))%R.
Proof. exact fdiff_weight_decreasing. Qed.

Theorem C01_fdiff_coef_unit_test_vector :
  fdiff_coef (Some (/ 2)%R) 4 = [Some (- / 16)%R; Some (- / 8)%R; Some (- / 2)%R; Some 1%R].
Proof. exact fdiff_coef_half_4. Qed.

Theorem C01_ts_vfdiff_unit_test_vector :
  forall body : bool,
    exists out, ts_vfdiff (DT := IsNoneXR) body (Some (/ 2)%R) 4 None
                  (map Some [7; 4; 2; 5; 1; 2]%R) = Done out /\
      out = [None; Some (/ 2)%R; Some (- (7 / 8))%R; Some (49 / 16)%R; Some (- 2)%R; Some (3 / 4)%R].
Proof. exact test_fdiff_vector. Qed.

(* non-vacuity: a window with a null, warm-up and expiry *)
Example C01_example_mean :
  exists out, ts_run (ts_vmean_f (A := XR) 2 (Some 1)) false 2 [Some 1%R; None; Some 3%R] = Done out
              /\ length out = 3.
Proof.
  destruct (C01_ts_vmean false 2 (Some 1) [Some 1%R; None; Some 3%R] ltac:(auto)) as (out & H & L & _).
  exists out. split; assumption.
Qed.

(* non-vacuity of the new implications *)
Example C01_example_vfdiff_masked_and_defined :       (* one series hits both branches of the mask *)
  exists out, ts_vfdiff (DT := IsNoneXR) true (Some (/ 2)%R) 2 (Some 2) [Some 1%R; None; Some 3%R; Some 4%R] = Done out
              /\ nth_error out 2 = Some None /\ nth_error out 3 = Some (Some (4 - / 2 * 3)%R).
Proof.
  destruct (C01_ts_vfdiff true (/ 2)%R 2 (Some 2) [Some 1%R; None; Some 3%R; Some 4%R] ltac:(auto))
    as (out & H & _ & H3).
  exists out. split; [exact H|]. split.
  - rewrite (H3 2 ltac:(cbn; auto)). reflexivity.
  - rewrite (H3 3 ltac:(cbn; auto)).
    cbn [win wstart Nat.sub skipn firstn valid flat_map app length]. cbv zeta.
    cbn [mp_eff Nat.min Nat.max Nat.leb]. rewrite fdiffR_two. reflexivity.
Qed.

Example C01_example_plain_family_fdiff :               (* w = 3, default min_periods = 3/2 = 1 *)
  ts_fdiff false (Some (/ 2)%R) 3 (fun x : XR => x) (map Some [1%R; 2%R; 4%R])
  = ts_vfdiff (DT := IsNoneXR) false (Some (/ 2)%R) 3 None (map Some [1%R; 2%R; 4%R]).
Proof. apply C01_plain_family_fdiff; [auto|vm_compute; auto]. Qed.

Example C01_example_warmup_mask :                      (* w = 4, min_periods 3: position 0 has S 0 < 3 *)
  0 < length [1%R; 2%R; 4%R] /\ 1 < mp_eff (Some 3) 4 0.
Proof. vm_compute. auto. Qed.

Example C01_example_coef_integer :                     (* hypotheses of the integer-order theorems *)
  nth_error (fdiff_coef (Some (INR 2)) 5) (5 - 1 - 3) = Some (Some 0%R) /\
  nth_error (fdiff_coef (Some (INR 2)) 5) (5 - 1 - 1) = Some (Some ((-1) ^ 1 * C 2 1)%R).
Proof.
  split; [apply C01_fdiff_coef_integer_vanish|apply C01_fdiff_coef_integer_binomial]; auto.
Qed.

Example C01_example_coef_d1 :
  fdiff_coef (Some 1%R) 4 = [Some 0%R; Some 0%R; Some (-1)%R; Some 1%R].
Proof. apply (C01_fdiff_coef_d1 4). auto. Qed.

Example C01_example_zero_variance :                    (* the floored class is inhabited *)
  2 <= length (repeat 5%R 3) /\ ~ (EPS < popvarR (repeat 5%R 3))%R /\ (popvarR (repeat 5%R 3) <= EPS)%R.
Proof.
  rewrite C01_popvar_constant. pose proof EPS_pos as H. split; [cbn; auto|].
  split; [apply Rlt_irrefl || (intros K; apply (Rlt_asym _ _ H); exact K)|apply Rlt_le; exact H].
Qed.

Example C01_example_fractional_order : (0 < / 2 < 1)%R /\ 1 <= 3.
Proof. split; [lra|auto]. Qed.

(* ================= binary64: the rolling MEAN up to rounding, and exact moment sums on a dyadic grid ============== *)
(* (Proofs/RoundSum.v, Proofs/RoundMean.v.)  Everything above is about the proof instance option R.  Here the theorems
   are about the EXECUTION instance — the model at Coq's primitive binary64 `float` (NumF64, NaN = null), the very terms
   the correspondence run evaluates and compares with Rust.  Notation as in Props/C11.v (R1)-(R8) and Props/C06.v
   (13)-(17):  f2r / ffin / fvals / rvals64 / fx,  u64 = 2^-53,  eta64 = 2^-1075,  gam u n = (1+u)^n - 1,
     nops w xs i  additions and subtractions performed on the sum field up to the emit of step i (<= 2i+1),
     habs w xs i  the magnitude they moved (<= 2 * sum_{k<=i} |x_k|),
     spow k l = sum of |x^k| over l,  psum k l = sum of x^k,  msk k s = the k-th power-sum field of the state s,
     grid_check e x / abs_le_check b x : EXECUTABLE tests "x is finite and a multiple of 2^e" / "finite and |x| <= b". *)
From Coq Require Import ZArith Floats.
From Tevec Require Import Base.F64 Proofs.Generic Proofs.RoundSum Proofs.RoundMean.

(* (B1) the rolling mean after ANY history: sum / n with the drift of the rolling sum carried through the division.
   Premises: the emitted value is finite (then the count is >= 1 and nothing overflowed); w < 2^53 so `n as f64` is exact *)
Theorem C01_ts_vmean_binary64_error :
  forall (w : nat) (mp : option nat) (body : bool) (xs : list PrimFloat.float) (i : nat) (o : PrimFloat.float),
    1 <= w -> (Z.of_nat w < 2 ^ 53)%Z ->
    nth_error (ts_out (ts_vmean_f (NA := NumF64) (DT := IsNoneF64) w mp) body w xs) i = Some o -> ffin o = true ->
    (Rabs (f2r o - meanR (rvals64 (win w i xs)))
     <= gam u64 (S (nops w xs i)) * (habs w xs i / INR (length (rvals64 (win w i xs)))) + eta64)%R.
Proof. exact ts_vmean_binary64_error. Qed.

(* (B2) explicit constants in i alone: at most 2i+1 additions / subtractions and one division *)
Theorem C01_ts_vmean_binary64_drift :
  forall (w : nat) (mp : option nat) (body : bool) (xs : list PrimFloat.float) (i : nat) (o : PrimFloat.float),
    1 <= w -> (Z.of_nat w < 2 ^ 53)%Z ->
    nth_error (ts_out (ts_vmean_f (NA := NumF64) (DT := IsNoneF64) w mp) body w xs) i = Some o -> ffin o = true ->
    (Rabs (f2r o - meanR (rvals64 (win w i xs)))
     <= INR (2 * i + 2) * u64 * (1 + u64) ^ (2 * i + 2)
        * (2 * sumabs (rvals64 (firstn (S i) xs)) / INR (length (rvals64 (win w i xs)))) + eta64)%R.
Proof. exact ts_vmean_binary64_drift. Qed.

(* (B3) no absolute (underflow) term when the computed quotient is in the normal range *)
Theorem C01_ts_vmean_binary64_error_normal :
  forall (w : nat) (mp : option nat) (body : bool) (xs : list PrimFloat.float) (i : nat) (o : PrimFloat.float),
    1 <= w -> (Z.of_nat w < 2 ^ 53)%Z ->
    nth_error (ts_out (ts_vmean_f (NA := NumF64) (DT := IsNoneF64) w mp) body w xs) i = Some o -> ffin o = true ->
    (pow2 (-1022) <= Rabs (f2r (ffold zero (emit_ops w xs i)) / INR (length (fvals (win w i xs)))))%R ->
    (Rabs (f2r o - meanR (rvals64 (win w i xs)))
     <= gam u64 (S (nops w xs i)) * (habs w xs i / INR (length (rvals64 (win w i xs)))))%R.
Proof. exact ts_vmean_binary64_error_normal. Qed.

(* (B4) exact accumulators: when every valid element is a multiple of 2^e and every WINDOW's K-th absolute power sum
   is below 2^(K e + 53) (K = 1..4), no product v*v, v2*v, v2*v2 and no addition / subtraction of `mom_add` / `mom_sub`
   ever rounds: behind every output, for every emit function (sum, mean, var, std, skew, kurt share the accumulator),
   both bodies, the float state holds the count and the first K power sums of the window EXACTLY.  Window-local: the
   history does not enter. *)
Theorem C01_moment_accumulators_float_exact :
  forall (K : nat) (e : Z) (emit : @mom PrimFloat.float -> PrimFloat.float) (w : nat) (body : bool)
         (xs : list PrimFloat.float),
    1 <= K <= 4 -> (-1074 <= Z.of_nat K * e)%Z -> (Z.of_nat K * e + 53 <= 1024)%Z -> 1 <= w ->
    forallb (grid_check e) (fvals xs) = true ->
    (forall i, i < length xs -> (spow K (rvals64 (win w i xs)) < pow2 (Z.of_nat K * e + 53))%R) ->
    forall i v, nth_error xs i = Some v ->
      exists s : @mom PrimFloat.float,
        nth_error (ts_out (mom_feat (NA := NumF64) (DT := IsNoneF64) emit) body w xs) i = Some (emit s) /\
        m_n s = length (fvals (win w i xs)) /\
        forall k, 1 <= k <= K -> ffin (msk k s) = true /\ f2r (msk k s) = psum k (rvals64 (win w i xs)).
Proof. exact moment_accumulators_float_exact. Qed.

(* (B5) the sum of squares in the form "grid 2^e, |x| <= b, w * b^2 < 2^(2e+53)" (all premises executable) *)
Theorem C01_sum_of_squares_exact_on_grid :
  forall (e b : Z) (emit : @mom PrimFloat.float -> PrimFloat.float) (w : nat) (body : bool) (xs : list PrimFloat.float),
    (-1074 <= 2 * e)%Z -> (2 * e + 53 <= 1024)%Z -> 1 <= w ->
    forallb (grid_check e) (fvals xs) = true -> forallb (abs_le_check b) (fvals xs) = true ->
    (INR w * IZR b ^ 2 < pow2 (2 * e + 53))%R ->
    forall i v, nth_error xs i = Some v ->
      exists s : @mom PrimFloat.float,
        nth_error (ts_out (mom_feat (NA := NumF64) (DT := IsNoneF64) emit) body w xs) i = Some (emit s) /\
        m_n s = length (fvals (win w i xs)) /\
        ffin (m_s1 s) = true /\ f2r (m_s1 s) = psum 1 (rvals64 (win w i xs)) /\
        ffin (m_s2 s) = true /\ f2r (m_s2 s) = psum 2 (rvals64 (win w i xs)).
Proof. exact sum_of_squares_exact_on_grid. Qed.

(* (B6) the state of the float run is the state of the option-R run on the same series: the two instances differ only
   in the final closed-form arithmetic of `emit`.  For k <= K the float field, read as an exact real, IS the exact
   field; the exact state holds the power sums of the window ((0) above). *)
Theorem C01_moment_state_exact_on_grid :
  forall (K : nat) (e : Z) (emit64 : @mom PrimFloat.float -> PrimFloat.float) (emitX : @mom XR -> XR)
         (w : nat) (body : bool) (xs : list PrimFloat.float),
    1 <= K <= 4 -> (-1074 <= Z.of_nat K * e)%Z -> (Z.of_nat K * e + 53 <= 1024)%Z -> 1 <= w ->
    forallb (grid_check e) (fvals xs) = true ->
    (forall i, i < length xs -> (spow K (rvals64 (win w i xs)) < pow2 (Z.of_nat K * e + 53))%R) ->
    forall i v, nth_error xs i = Some v ->
      exists (s64 : @mom PrimFloat.float) (sX : @mom XR),
        nth_error (ts_out (mom_feat (NA := NumF64) (DT := IsNoneF64) emit64) body w xs) i = Some (emit64 s64) /\
        nth_error (ts_out (mom_feat (NA := NumXR) (DT := IsNoneXR) emitX) body w (map fx xs)) i = Some (emitX sX) /\
        m_n s64 = m_n sX /\ (forall k, 1 <= k <= K -> fx (msk k s64) = msk k sX) /\
        m_n sX = length (rvals64 (win w i xs)) /\
        (forall k, 1 <= k <= 4 -> msk k sX = Some (psum k (rvals64 (win w i xs)))).
Proof. exact moment_state_exact_on_grid_props. Qed.

(* (B7) all four power sums (premise on the fourth-power sum of every window): the exact run's state IS the image
   `mom_fx` of the float run's state *)
Theorem C01_moment_state_exact_on_grid_all :
  forall (e : Z) (emit64 : @mom PrimFloat.float -> PrimFloat.float) (emitX : @mom XR -> XR)
         (w : nat) (body : bool) (xs : list PrimFloat.float),
    (-1074 <= 4 * e)%Z -> (4 * e + 53 <= 1024)%Z -> 1 <= w ->
    forallb (grid_check e) (fvals xs) = true ->
    (forall i, i < length xs -> (psum 4 (rvals64 (win w i xs)) < pow2 (4 * e + 53))%R) ->
    forall i v, nth_error xs i = Some v ->
      exists s64 : @mom PrimFloat.float,
        nth_error (ts_out (mom_feat (NA := NumF64) (DT := IsNoneF64) emit64) body w xs) i = Some (emit64 s64) /\
        nth_error (ts_out (mom_feat (NA := NumXR) (DT := IsNoneXR) emitX) body w (map fx xs)) i
        = Some (emitX (mom_fx s64)).
Proof. exact moment_state_exact_on_grid_all_props. Qed.

(* (B8) the window premise from executable tests: |x| <= b for every valid element and w * b^K < 2^(K e + 53) *)
Theorem C01_windows_in_range_of_bound :
  forall (K : nat) (e : Z) (w : nat) (xs : list PrimFloat.float) (b : Z),
    1 <= w -> forallb (abs_le_check b) (fvals xs) = true ->
    (INR w * IZR b ^ K < pow2 (Z.of_nat K * e + 53))%R ->
    forall i, i < length xs -> (spow K (rvals64 (win w i xs)) < pow2 (Z.of_nat K * e + 53))%R.
Proof. exact windows_in_range_of_bound_props. Qed.

(* (B9) DESIGN 2.3, now a theorem: generated values are k/4 with |k| <= 400 and windows have at most 64 elements, so the
   premise of (B7) holds with e = -2: all four power sums of the correspondence inputs are exact in binary64 *)
Theorem C01_generated_inputs_in_range :
  forall (w : nat) (xs : list PrimFloat.float),
    1 <= w <= 64 -> forallb (abs_le_check 100) (fvals xs) = true ->
    forall i, i < length xs -> (psum 4 (rvals64 (win w i xs)) < pow2 (4 * (-2) + 53))%R.
Proof. exact generated_inputs_in_range. Qed.

(* (B10) on grid data the rolling mean is the CORRECTLY ROUNDED exact mean of the window — half an ulp, whatever the
   history (compare (B1), whose bound grows with the number of operations performed) *)
Theorem C01_ts_vmean_correctly_rounded_on_grid :
  forall (e : Z) (w : nat) (mp : option nat) (body : bool) (xs : list PrimFloat.float) (i : nat) (o : PrimFloat.float),
    (-1074 <= e)%Z -> (e + 53 <= 1024)%Z -> 1 <= w -> (Z.of_nat w < 2 ^ 53)%Z ->
    forallb (grid_check e) (fvals xs) = true ->
    (forall j, j < length xs -> (spow 1 (rvals64 (win w j xs)) < pow2 (e + 53))%R) ->
    nth_error (ts_out (ts_vmean_f (NA := NumF64) (DT := IsNoneF64) w mp) body w xs) i = Some o -> ffin o = true ->
    f2r o = rnd64 (meanR (rvals64 (win w i xs))) /\
    (Rabs (f2r o - meanR (rvals64 (win w i xs))) <= u64 * Rabs (meanR (rvals64 (win w i xs))) + eta64)%R.
Proof. exact ts_vmean_correctly_rounded_on_grid. Qed.

(* non-vacuity of (B1)-(B3): a long history (1e16 absorbs the small terms), a NaN, the mean of the last window rounds *)
Example C01_example_mean_rounding_premises :
  exists o, nth_error (ts_out (ts_vmean_f (NA := NumF64) (DT := IsNoneF64) 2 (Some 1)) true 2 [1e16; nan; 0.1; 0.2]%float) 3
            = Some o /\ ffin o = true /\ PrimFloat.eqb o 0.15%float = false /\ (Z.of_nat 2 < 2 ^ 53)%Z.
Proof. eexists. repeat split; vm_compute; reflexivity. Qed.
(* non-vacuity of (B4)-(B9): a grid series (multiples of 1/4, |x| <= 100, a NaN), window 2 *)
Example C01_example_grid_premises :
  forallb (grid_check (-2)) (fvals [1.25; nan; -0.75; 100; 99.75]%float) = true /\
  forallb (abs_le_check 100) (fvals [1.25; nan; -0.75; 100; 99.75]%float) = true /\
  (INR 2 * IZR 100 ^ 2 < pow2 (2 * (-2) + 53))%R /\ (-1074 <= 2 * (-2))%Z /\ (2 * (-2) + 53 <= 1024)%Z /\
  ts_out (ts_vvar_f (NA := NumF64) (DT := IsNoneF64) 2 None) true 2 [1.25; nan; -0.75; 100; 99.75]%float
  = [nan; nan; nan; 5075.28125; 0.03125]%float.
Proof.
  split; [vm_compute; reflexivity|]. split; [vm_compute; reflexivity|]. split.
  - change (pow2 (2 * -2 + 53)) with (IZR (2 ^ 49)).
    replace (INR 2 * IZR 100 ^ 2)%R with (IZR (2 * 100 ^ 2)) by (rewrite mult_IZR, pow_IZR, INR_IZR_INZ; reflexivity).
    apply IZR_lt. reflexivity.
  - split; [discriminate|]. split; [discriminate|]. vm_compute. reflexivity.
Qed.
(* non-vacuity of (B10): a grid series whose window mean 100.75 / 3 is not a dyadic number; the output is finite and
   (being rounded) not even a multiple of 2^-40 *)
Example C01_example_grid_mean_premises :
  forallb (grid_check (-2)) (fvals [1.25; nan; -0.75; 100.25]%float) = true /\
  (exists o, nth_error (ts_out (ts_vmean_f (NA := NumF64) (DT := IsNoneF64) 4 (Some 1)) false 4 [1.25; nan; -0.75; 100.25]%float) 3
             = Some o /\ ffin o = true /\ grid_check (-40) o = false).
Proof. split; [vm_compute; reflexivity|]. eexists. repeat split; vm_compute; reflexivity. Qed.
(* the grid premise is needed: 0.1 is not a dyadic grid point of 2^-2 and its square rounds *)
Example C01_example_off_grid :
  grid_check (-2) 0.1%float = false /\ PrimFloat.eqb (0.1 * 0.1)%float 0.01%float = false.
Proof. split; vm_compute; reflexivity. Qed.

Print Assumptions C01_state_tracks_window.
Print Assumptions C01_ts_vsum.
Print Assumptions C01_ts_vmean.
Print Assumptions C01_ts_vvar.
Print Assumptions C01_ts_vstd.
Print Assumptions C01_eps_floor_bounded.
Print Assumptions C01_ts_vewm.
Print Assumptions C01_ewm_is_weighted_average.
Print Assumptions C01_ts_vwma.
Print Assumptions C01_ts_vskew.
Print Assumptions C01_ts_vkurt.
Print Assumptions C01_ts_fdiff.
Print Assumptions C01_plain_family_moments.
Print Assumptions C01_plain_family_ewm.
Print Assumptions C01_plain_family_wma.
Print Assumptions C01_ts_vfdiff.
Print Assumptions C01_ts_vfdiff_textbook.
Print Assumptions C01_ts_fdiff_textbook.
Print Assumptions C01_fdiffR_cons.
Print Assumptions C01_fdiffR_positional.
Print Assumptions C01_vfdiff_depends_on_valid_only.
Print Assumptions C01_vfdiff_nulls_shift_weights.
Print Assumptions C01_vfdiff_current_null_not_null.
Print Assumptions C01_fdiff_coef_length.
Print Assumptions C01_binom_product.
Print Assumptions C01_binom_recurrence.
Print Assumptions C01_fdiff_coef_nth.
Print Assumptions C01_fdiff_coef_last.
Print Assumptions C01_fdiff_coef_integer_binomial.
Print Assumptions C01_fdiff_coef_integer_vanish.
Print Assumptions C01_fdiff_integer_order.
Print Assumptions C01_fdiff_order0_identity.
Print Assumptions C01_fdiff_coef_d1.
Print Assumptions C01_ts_fdiff_d1_first_difference.
Print Assumptions C01_plain_fdiff_vs_vfdiff.
Print Assumptions C01_plain_family_fdiff.
Print Assumptions C01_vfdiff_warmup_mask.
Print Assumptions C01_plain_equals_null_aware.
Print Assumptions C01_eps_floor_bounded_std.
Print Assumptions C01_floor_guards_agree.
Print Assumptions C01_popvar_constant.
Print Assumptions C01_zero_variance_outputs.
Print Assumptions C01_ewm_denominator_zero_iff.
Print Assumptions C01_ts_vewm_total.
Print Assumptions C01_fdiff_window0.
Print Assumptions C01_fdiff_weight_recurrence.
Print Assumptions C01_fdiff_weight_negative.
Print Assumptions C01_fdiff_weight_decreasing.
Print Assumptions C01_fdiff_coef_unit_test_vector.
Print Assumptions C01_ts_vfdiff_unit_test_vector.
Print Assumptions C01_ts_vmean_binary64_error.
Print Assumptions C01_ts_vmean_binary64_drift.
Print Assumptions C01_ts_vmean_binary64_error_normal.
Print Assumptions C01_moment_accumulators_float_exact.
Print Assumptions C01_sum_of_squares_exact_on_grid.
Print Assumptions C01_moment_state_exact_on_grid.
Print Assumptions C01_moment_state_exact_on_grid_all.
Print Assumptions C01_windows_in_range_of_bound.
Print Assumptions C01_generated_inputs_in_range.
Print Assumptions C01_ts_vmean_correctly_rounded_on_grid.

(* ================= AUDIT (notes/C01.md "Audit matrix"; Proofs/Audit01.v) ============================================
   What the clause-by-clause audit found open and closed.  (A1)-(A9), (A13) hold for EVERY numeric carrier / null
   dictionary (binary64 included) and are axiom-free; (A10)-(A12), (A14), (A15) are over option R.                    *)
From Tevec Require Import Proofs.Driver Proofs.Audit01.

(* (A1) the call, totally, for every add-emit-remove feature (the eight moment / weighted entry points and ts_vzscore), every
   carrier: the only rejected input is window = 0 on a non-empty series — `assert!(window > 0 || len == 0)`, the same
   assertion on both bodies; everything else returns the run over the (removed, new) pairs.  This is exactly what the
   hypothesis `1 <= w` of (0)-(6) excludes. *)
Theorem C01_ts_run_total :
  forall (T St O : Type) (F : feat T St O) (body : bool) (w : nat) (xs : list T),
    ts_run F body w xs =
    if bad_window w xs then Panicked AssertFail
    else Done (run (feat_cb F) (f_init F) (mapi (fun i v => (removed w xs i, v)) xs)).
Proof. exact (@ts_run_total). Qed.

Theorem C01_window0 :
  forall (T St O : Type) (F : feat T St O) (body : bool) (xs : list T),
    ts_run F body 0 xs = match xs with [] => Done [] | _ :: _ => Panicked AssertFail end.
Proof. exact (@ts_run_window0). Qed.

(* (A2) it returns iff window >= 1 or the series is empty; then exactly len outputs; never an uninitialised slot;
   the empty series gives the empty result at every window *)
Theorem C01_returns_iff :
  forall (T St O : Type) (F : feat T St O) (body : bool) (w : nat) (xs : list T),
    ((exists out, ts_run F body w xs = Done out) <-> (1 <= w \/ xs = [])) /\
    (forall out, ts_run F body w xs = Done out -> length out = length xs) /\
    (forall buf, ts_run F body w xs <> Uninit buf) /\
    ts_run F body w [] = Done [].
Proof.
  intros T St O F body w xs. split; [apply ts_run_returns_iff|]. split; [apply ts_run_length|].
  split; [apply ts_run_never_uninit|apply ts_run_empty].
Qed.

(* (A3) both driver bodies return the same outcome at EVERY window (0 included), for every feature and carrier *)
Theorem C01_bodies_agree :
  forall (T St O : Type) (F : feat T St O) (w : nat) (xs : list T), ts_run F true w xs = ts_run F false w xs.
Proof. exact (@ts_run_bodies_agree). Qed.

(* (A4) windows: w >= len makes every window the prefix 0..=i (an expanding window: nothing is ever removed from what
   the outputs see), and in general the window at i has min(i+1, w) elements *)
Theorem C01_window_beyond_length :
  forall (T : Type) (w i : nat) (xs : list T),
    i < length xs ->
    (length xs <= w -> win w i xs = firstn (S i) xs) /\ (1 <= w -> length (win w i xs) = Nat.min (S i) w).
Proof. intros T w i xs Hi. split; intros H; [apply win_beyond|apply win_full_length]; assumption. Qed.

(* (A5) min_periods: `min_periods.unwrap_or(window / 2).min(window).max(k)` in closed form — omitted = max(w/2, k);
   anything >= w acts as w (the statement's "min_periods <= w" loses nothing); never above w when k <= w *)
Theorem C01_min_periods_effective :
  forall (w k : nat),
    mp_eff None w k = Nat.max (w / 2) k /\
    (forall m, mp_eff (Some m) w k = mp_eff (Some (Nat.min m w)) w k) /\
    (forall m, w <= m -> mp_eff (Some m) w k = Nat.max w k) /\
    (forall mp, k <= mp_eff mp w k) /\ (forall mp, k <= w -> mp_eff mp w k <= w).
Proof.
  intros w k. split; [apply mp_eff_omitted|]. split; [intros m; apply mp_eff_clamp|].
  split; [intros m; apply mp_eff_above|]. split; [intros mp; apply mp_eff_ge|intros mp; apply mp_eff_le_window].
Qed.

Theorem C01_min_periods_above_window :
  forall (A : Type) (NA : Num A) (T : Type) (DT : IsNone T A) (w m : nat), w <= m ->
    ts_vsum_f w (Some m) = ts_vsum_f w (Some w) /\ ts_vmean_f w (Some m) = ts_vmean_f w (Some w) /\
    ts_vvar_f w (Some m) = ts_vvar_f w (Some w) /\ ts_vstd_f w (Some m) = ts_vstd_f w (Some w) /\
    ts_vskew_f w (Some m) = ts_vskew_f w (Some w) /\ ts_vkurt_f w (Some m) = ts_vkurt_f w (Some w) /\
    ts_vewm_f w (Some m) = ts_vewm_f w (Some w) /\ ts_vwma_f w (Some m) = ts_vwma_f w (Some w).
Proof. intros A NA T DT. exact (@min_periods_above_window A NA T DT). Qed.

(* (A6) EVERY carrier (the binary64 execution instance included): behind every output of the six moment entry points
   (any emit), of ts_vewm and of ts_vwma stands a state whose count field is the number of non-null elements of the
   window — the count never drifts, whatever the arithmetic does *)
Theorem C01_count_tracks_window_every_carrier :
  forall (A : Type) (NA : Num A) (T : Type) (DT : IsNone T A) (body : bool) (w : nat) (mp : option nat) (xs : list T),
    1 <= w ->
    (forall emit : @mom A -> A,
      exists out, ts_run (mom_feat emit) body w xs = Done out /\ length out = length xs /\
        forall i v, nth_error xs i = Some v ->
          exists s, m_n s = cnt_valid (win w i xs) /\ nth_error out i = Some (emit s)) /\
    (exists out, ts_run (ts_vewm_f w mp) body w xs = Done out /\ length out = length xs /\
        forall i v, nth_error xs i = Some v ->
          exists s, e_n s = cnt_valid (win w i xs) /\ nth_error out i = Some (ewm_emit w (mp_eff mp w 0) s)) /\
    (exists out, ts_run (ts_vwma_f w mp) body w xs = Done out /\ length out = length xs /\
        forall i v, nth_error xs i = Some v ->
          exists s, w_n s = cnt_valid (win w i xs) /\ nth_error out i = Some (wma_emit (mp_eff mp w 0) s)).
Proof.
  intros A NA T DT body w mp xs Hw. split; [intros emit; apply mom_count_tracks; exact Hw|].
  split; [apply ewm_count_tracks|apply wma_count_tracks]; exact Hw.
Qed.

(* (A7) ... hence below the effective min_periods all eight entry points return the carrier's NaN — exactly, at
   binary64 too (`masked_below k out w xs`: position i holds nnan whenever the window at i has fewer than k non-null
   elements) *)
Theorem C01_below_min_periods_is_nan_every_carrier :
  forall (A : Type) (NA : Num A) (T : Type) (DT : IsNone T A) (body : bool) (w : nat) (mp : option nat) (xs : list T),
    1 <= w ->
    (exists out, ts_run (ts_vsum_f w mp) body w xs = Done out /\ length out = length xs /\ masked_below (mp_eff mp w 0) out w xs) /\
    (exists out, ts_run (ts_vmean_f w mp) body w xs = Done out /\ length out = length xs /\ masked_below (mp_eff mp w 0) out w xs) /\
    (exists out, ts_run (ts_vvar_f w mp) body w xs = Done out /\ length out = length xs /\ masked_below (mp_eff mp w 2) out w xs) /\
    (exists out, ts_run (ts_vstd_f w mp) body w xs = Done out /\ length out = length xs /\ masked_below (mp_eff mp w 2) out w xs) /\
    (exists out, ts_run (ts_vskew_f w mp) body w xs = Done out /\ length out = length xs /\ masked_below (mp_eff mp w 3) out w xs) /\
    (exists out, ts_run (ts_vkurt_f w mp) body w xs = Done out /\ length out = length xs /\ masked_below (mp_eff mp w 4) out w xs) /\
    (exists out, ts_run (ts_vewm_f w mp) body w xs = Done out /\ length out = length xs /\ masked_below (mp_eff mp w 0) out w xs) /\
    (exists out, ts_run (ts_vwma_f w mp) body w xs = Done out /\ length out = length xs /\ masked_below (mp_eff mp w 0) out w xs).
Proof. intros A NA T DT. exact (@below_min_periods_is_nan A NA T DT). Qed.

(* (A8) a window shorter than the statistic needs: var / std with w = 1, skew with w <= 2, kurt with w <= 3 return
   NaN everywhere, whatever min_periods and whatever the data — every carrier *)
Theorem C01_short_window_all_nan :
  forall (A : Type) (NA : Num A) (T : Type) (DT : IsNone T A) (body : bool) (w : nat) (mp : option nat) (xs : list T),
    1 <= w ->
    (w < 2 -> ts_run (ts_vvar_f w mp) body w xs = Done (repeat nnan (length xs)) /\
              ts_run (ts_vstd_f w mp) body w xs = Done (repeat nnan (length xs))) /\
    (w < 3 -> ts_run (ts_vskew_f w mp) body w xs = Done (repeat nnan (length xs))) /\
    (w < 4 -> ts_run (ts_vkurt_f w mp) body w xs = Done (repeat nnan (length xs))).
Proof. intros A NA T DT. exact (@short_window_all_nan A NA T DT). Qed.

(* (A9) dead code: the `else { acc }` arm of the fold closure of ts_vfdiff (rolling.rs:116; the coverage report shows the
   correspondence run never reaches it) cannot be reached by ANY input — the closure is folded over a window with
   n == window valid elements (a window never has more than `window` elements) or over the not_none-filtered window.
   ts_vfdiff_nn is ts_vfdiff with that arm removed (Proofs/Audit01.v); every carrier, both bodies, every window. *)
Theorem C01_vfdiff_null_arm_is_dead_code :
  forall (A : Type) (NA : Num A) (T : Type) (DT : IsNone T A) (body : bool) (d : A) (w : nat) (mp : option nat)
         (xs : list T),
    ts_vfdiff body d w mp xs = ts_vfdiff_nn body d w mp xs.
Proof. intros A NA T DT. exact (@vfdiff_null_branch_dead A NA T DT). Qed.

(* (A10) min_periods = Some 0: the rolling sum is NEVER null (an all-null window sums to 0); mean / ewm / wma are null
   exactly on the windows without a valid element *)
Theorem C01_min_periods_zero :
  forall (body : bool) (w : nat) (xs : list XR), 1 <= w ->
  (exists out, ts_run (ts_vsum_f w (Some 0)) body w xs = Done out /\ length out = length xs /\
     forall i, i < length xs -> nth_error out i = Some (Some (sumR (valid (win w i xs))))) /\
  (exists out, ts_run (ts_vmean_f w (Some 0)) body w xs = Done out /\ length out = length xs /\
     forall i, i < length xs ->
       nth_error out i = Some (let V := valid (win w i xs) in if length V =? 0 then None else Some (meanR V))) /\
  (exists out, ts_run (ts_vewm_f w (Some 0)) body w xs = Done out /\ length out = length xs /\
     forall i, i < length xs ->
       nth_error out i = Some (let V := valid (win w i xs) in
                               if length V =? 0 then None else Some (ewmR (1 - 2 / INR w) V))) /\
  (exists out, ts_run (ts_vwma_f w (Some 0)) body w xs = Done out /\ length out = length xs /\
     forall i, i < length xs ->
       nth_error out i = Some (let V := valid (win w i xs) in if length V =? 0 then None else Some (wmaR V))).
Proof. exact min_periods_zero. Qed.

(* (A11) the ewm and wma accumulators never drift either ((0) is the moment accumulator): behind every output the ewm state
   holds the count and sum_k oma^k x_(k), the wma state the count, the sum and sum_t t x_t of the valid window *)
Theorem C01_ewm_state_tracks_window :
  forall (w : nat) (mp : option nat) (body : bool) (xs : list XR), 1 <= w ->
    exists out, ts_run (ts_vewm_f w mp) body w xs = Done out /\ length out = length xs /\
      forall i v, nth_error xs i = Some v ->
        exists s, nth_error out i = Some (ewm_emit w (mp_eff mp w 0) s) /\
          e_n s = nv (win w i xs) /\ e_q s = Some (ewsum (1 - 2 / INR w) (valid (win w i xs))).
Proof.
  intros w mp body xs Hw. destruct (ewm_state_tracks_window w Hw mp body xs) as (out & H1 & H2 & H3).
  exists out. split; [exact H1|]. split; [exact H2|]. intros i v Hv.
  destruct (H3 i v Hv) as (s & (Hn & Hq) & Ho). exists s. split; [exact Ho|]. split; assumption.
Qed.
Theorem C01_wma_state_tracks_window :
  forall (w : nat) (mp : option nat) (body : bool) (xs : list XR), 1 <= w ->
    exists out, ts_run (ts_vwma_f w mp) body w xs = Done out /\ length out = length xs /\
      forall i v, nth_error xs i = Some v ->
        exists s, nth_error out i = Some (wma_emit (mp_eff mp w 0) s) /\
          w_n s = nv (win w i xs) /\ w_sum s = Some (sumR (valid (win w i xs))) /\
          w_xt s = Some (lwsum (valid (win w i xs))).
Proof.
  intros w mp body xs Hw. destruct (wma_state_tracks_window mp body w xs Hw) as (out & H1 & H2 & H3).
  exists out. split; [exact H1|]. split; [exact H2|]. intros i v Hv.
  destruct (H3 i v Hv) as (s & (Hn & Hs & Hx) & Ho). exists s. split; [exact Ho|]. repeat split; assumption.
Qed.

(* (A12) the PLAIN family on a series holding a NaN at position j (outside the property's "finite numeric series", and
   outside (8)/(11), which take null-free input): the accumulator is poisoned for ever — every output at a position
   >= j, also long after the NaN has left the window, is NaN for ts_sum / ts_mean / ts_skew / ts_kurt and exactly 0
   (min_periods permitting) for ts_var / ts_std, whose guard `var > EPS` is false on NaN *)
Theorem C01_plain_nan_poisons :
  forall (body : bool) (w : nat) (mp : option nat) (xs : list XR) (j : nat),
  1 <= w -> nth_error xs j = Some None ->
  let Dn : IsNone XR XR := IsNone_never in
  exists osum omean ovar ostd oskew okurt,
    ts_run (ts_vsum_f (DT := Dn) w mp) body w xs = Done osum /\
    ts_run (ts_vmean_f (DT := Dn) w mp) body w xs = Done omean /\
    ts_run (ts_vvar_f (DT := Dn) w mp) body w xs = Done ovar /\
    ts_run (ts_vstd_f (DT := Dn) w mp) body w xs = Done ostd /\
    ts_run (ts_vskew_f (DT := Dn) w mp) body w xs = Done oskew /\
    ts_run (ts_vkurt_f (DT := Dn) w mp) body w xs = Done okurt /\
    forall i, j <= i < length xs ->
      nth_error osum i = Some None /\ nth_error omean i = Some None /\
      nth_error oskew i = Some None /\ nth_error okurt i = Some None /\
      nth_error ovar i = Some (if mp_eff mp w 2 <=? Nat.min (S i) w then Some 0%R else None) /\
      nth_error ostd i = Some (if mp_eff mp w 2 <=? Nat.min (S i) w then Some 0%R else None).
Proof. exact plain_nan_poisons. Qed.

(* (A13) ... so the sentence "the window state never drifts away from the window it describes" is REFUTED for the
   plain family once a NaN has passed: window [1] gives NaN, window [1; 2] gives variance 0 (replayed on the real code,
   notes/C01.md; the repository's test_ts_mean expects the NaN tail, so this is recorded, not repaired) *)
Theorem C01_plain_never_drifts_refuted :
  let Dn : IsNone XR XR := IsNone_never in
  forall body : bool,
  (exists out, ts_run (ts_vsum_f (DT := Dn) 1 (Some 1)) body 1 [None; Some 1%R] = Done out /\
     win 1 1 [None; Some 1%R] = [Some 1%R] /\ nth_error out 1 = Some None) /\
  (exists out, ts_run (ts_vvar_f (DT := Dn) 2 (Some 2)) body 2 [None; Some 1%R; Some 1%R; Some 2%R] = Done out /\
     win 2 3 [None; Some 1%R; Some 1%R; Some 2%R] = [Some 1%R; Some 2%R] /\ nth_error out 3 = Some (Some 0%R)).
Proof. exact plain_never_drifts_refuted. Qed.

(* non-vacuity of the audit's implications *)
Example C01_example_audit_windows :
  bad_window 0 [1%Z] = true /\ bad_window 0 (@nil Z) = false /\ 3 <= 5 /\ 1 < length [1%Z; 2%Z] /\
  mp_eff (Some 9) 4 0 = 4 /\ mp_eff None 5 0 = 2 /\ mp_eff (Some 0) 1 2 = 2.
Proof. repeat split; vm_compute; auto. Qed.
Example C01_example_audit_masked :                      (* the mask premise of (A7) is met and not met in one series *)
  cnt_valid (DT := IsNoneF64) (win 2 1 [nan; 1; 2]%float) = 1 /\ cnt_valid (DT := IsNoneF64) (win 2 2 [nan; 1; 2]%float) = 2 /\
  ts_run (ts_vsum_f (NA := NumF64) (DT := IsNoneF64) 2 (Some 2)) true 2 [nan; 1; 2]%float = Done [nan; nan; 3]%float.
Proof. repeat split; vm_compute; reflexivity. Qed.
Example C01_example_audit_short_window :                (* (A8) at binary64: kurt with w = 3 *)
  ts_run (ts_vkurt_f (NA := NumF64) (DT := IsNoneF64) 3 (Some 0)) false 3 [1; 2; 4; 8]%float = Done [nan; nan; nan; nan]%float.
Proof. vm_compute. reflexivity. Qed.
Example C01_example_audit_poison_premise : nth_error [Some 1%R; None; Some 3%R] 1 = Some None /\ 1 <= 1 < 3.
Proof. split; [reflexivity|split; auto]. Qed.

Print Assumptions C01_ts_run_total.
Print Assumptions C01_window0.
Print Assumptions C01_returns_iff.
Print Assumptions C01_bodies_agree.
Print Assumptions C01_window_beyond_length.
Print Assumptions C01_min_periods_effective.
Print Assumptions C01_min_periods_above_window.
Print Assumptions C01_count_tracks_window_every_carrier.
Print Assumptions C01_below_min_periods_is_nan_every_carrier.
Print Assumptions C01_short_window_all_nan.
Print Assumptions C01_vfdiff_null_arm_is_dead_code.
Print Assumptions C01_min_periods_zero.
Print Assumptions C01_ewm_state_tracks_window.
Print Assumptions C01_wma_state_tracks_window.
Print Assumptions C01_plain_nan_poisons.
Print Assumptions C01_plain_never_drifts_refuted.
