(* Props/C01.v — property C01: rolling moments and weighted averages equal from-scratch window
   evaluation.  Carrier XR = option R (exact reals + one absorbing NaN), every series, every window
   w >= 1, every min_periods, every position, both driver bodies.  Statements only.            *)
From Coq Require Import Reals Lra List.
From Tevec Require Import Base.Prelude Base.Num Base.XR Spec.Stats Model.Driver Model.Features
     Model.Fdiff Proofs.Features Proofs.Fdiff Proofs.Fdiff2 Proofs.Features2.
Import ListNotations.

(* (0) the accumulator never drifts: at emit time of every step it holds exactly the count and the
   first four power sums of the non-null elements of the window max(0,i-w+1)..=i — whatever the
   statistic computed from it (sum, mean, std, var, skew, kurt share this accumulator).          *)
Theorem C01_state_tracks_window :
  forall (emit : @mom XR -> XR) (body : bool) (w : nat) (xs : list XR),
    1 <= w ->
    exists out, ts_run (mom_feat emit) body w xs = Done out /\ length out = length xs /\
      forall i v, nth_error xs i = Some v ->
        exists s, nth_error out i = Some (emit s) /\
          m_n s = nv (win w i xs) /\
          m_s1 s = Some (psum 1 (valid (win w i xs))) /\ m_s2 s = Some (psum 2 (valid (win w i xs))) /\
          m_s3 s = Some (psum 3 (valid (win w i xs))) /\ m_s4 s = Some (psum 4 (valid (win w i xs))).
Proof.
  intros emit body w xs Hw.
  destruct (mom_state_tracks_window emit body w xs Hw) as (out & H1 & H2 & H3).
  exists out. split; [exact H1|]. split; [exact H2|]. intros i v Hv.
  destruct (H3 i v Hv) as (s & Habs & Hn). exists s. split; [exact Hn|exact Habs].
Qed.

(* (1) rolling sum *)
Theorem C01_ts_vsum :
  forall (body : bool) (w : nat) (mp : option nat) (xs : list XR), 1 <= w ->
    exists out, ts_run (ts_vsum_f w mp) body w xs = Done out /\ length out = length xs /\
      forall i, i < length xs ->
        nth_error out i =
        Some (let V := valid (win w i xs) in
              if mp_eff mp w 0 <=? length V then Some (sumR V) else None).
Proof.
  intros body w mp xs Hw.
  apply (mom_entry (emit_sum (mp_eff mp w 0))
           (fun V => if mp_eff mp w 0 <=? length V then Some (sumR V) else None)); [exact Hw|].
  intros s W HA. apply emit_sum_spec. exact HA.
Qed.

(* (2) rolling mean: null when the window has no valid element *)
Theorem C01_ts_vmean :
  forall (body : bool) (w : nat) (mp : option nat) (xs : list XR), 1 <= w ->
    exists out, ts_run (ts_vmean_f w mp) body w xs = Done out /\ length out = length xs /\
      forall i, i < length xs ->
        nth_error out i =
        Some (let V := valid (win w i xs) in
              if mp_eff mp w 0 <=? length V then (if length V =? 0 then None else Some (meanR V))
              else None).
Proof.
  intros body w mp xs Hw.
  apply (mom_entry (emit_mean (mp_eff mp w 0))
           (fun V => if mp_eff mp w 0 <=? length V then (if length V =? 0 then None else Some (meanR V))
                     else None)); [exact Hw|].
  intros s W HA. apply emit_mean_spec. exact HA.
Qed.

(* (3) rolling sample variance / standard deviation, with the EPS floor made explicit *)
Theorem C01_ts_vvar :
  forall (body : bool) (w : nat) (mp : option nat) (xs : list XR), 1 <= w ->
    exists out, ts_run (ts_vvar_f w mp) body w xs = Done out /\ length out = length xs /\
      forall i, i < length xs ->
        nth_error out i =
        Some (let V := valid (win w i xs) in
              if mp_eff mp w 2 <=? length V
              then (if Rlt_dec EPS (popvarR V) then Some (samplevarR V) else Some 0%R) else None).
Proof.
  intros body w mp xs Hw.
  apply (mom_entry (emit_var (mp_eff mp w 2))
           (fun V => if mp_eff mp w 2 <=? length V
                     then (if Rlt_dec EPS (popvarR V) then Some (samplevarR V) else Some 0%R) else None));
    [exact Hw|].
  intros s W HA. apply emit_var_spec; [exact HA|apply mp_eff_ge].
Qed.

Theorem C01_ts_vstd :
  forall (body : bool) (w : nat) (mp : option nat) (xs : list XR), 1 <= w ->
    exists out, ts_run (ts_vstd_f w mp) body w xs = Done out /\ length out = length xs /\
      forall i, i < length xs ->
        nth_error out i =
        Some (let V := valid (win w i xs) in
              if mp_eff mp w 2 <=? length V
              then (if Rlt_dec EPS (popvarR V) then Some (samplestdR V) else Some 0%R) else None).
Proof.
  intros body w mp xs Hw.
  apply (mom_entry (emit_std (mp_eff mp w 2))
           (fun V => if mp_eff mp w 2 <=? length V
                     then (if Rlt_dec EPS (popvarR V) then Some (samplestdR V) else Some 0%R) else None));
    [exact Hw|].
  intros s W HA. apply emit_std_spec; [exact HA|apply mp_eff_ge].
Qed.

(* the floor is a rounding device: where it applies the textbook variance is at most 2 EPS *)
Theorem C01_eps_floor_bounded :
  forall V : list R, 2 <= length V -> ~ (EPS < popvarR V)%R -> (samplevarR V <= 2 * EPS)%R.
Proof. exact eps_floor_bounded. Qed.

(* (4) exponentially weighted mean: state = sum_k oma^k x_(k), output = its normalised value *)
Theorem C01_ts_vewm :
  forall (body : bool) (w : nat) (mp : option nat) (xs : list XR), 1 <= w ->
    let oma := (1 - 2 / INR w)%R in
    exists out, ts_run (ts_vewm_f w mp) body w xs = Done out /\ length out = length xs /\
      forall i, i < length xs ->
        nth_error out i =
        Some (let V := valid (win w i xs) in
              if mp_eff mp w 0 <=? length V then
                (if Req_EM_T (1 - oma ^ length V) 0 then None
                 else Some (ewsum oma V * (2 / INR w) / (1 - oma ^ length V))%R)
              else None).
Proof.
  intros body w mp xs Hw oma.
  destruct (ewm_state_tracks_window w Hw mp body xs) as (out & H1 & H2 & H3).
  exists out. split; [exact H1|]. split; [exact H2|]. intros i Hi.
  destruct (nth_error xs i) as [v|] eqn:Hv; [|apply nth_error_None in Hv; lia].
  destruct (H3 i v Hv) as (s & Habs & Hn). rewrite Hn. f_equal.
  apply (ewm_emit_spec w Hw). exact Habs.
Qed.

Theorem C01_ewm_is_weighted_average :
  forall (w : nat) (V : list R), 1 <= w ->
    let oma := (1 - 2 / INR w)%R in
    (1 - oma ^ length V <> 0)%R ->
    (ewsum oma V * (2 / INR w) / (1 - oma ^ length V) = ewmR oma V)%R.
Proof. intros w V Hw oma Hd. apply (ewm_normalised w). exact Hd. Qed.

(* (5) linearly weighted mean: sum_t t x_t / (n(n+1)/2) over the valid window *)
Theorem C01_ts_vwma :
  forall (body : bool) (w : nat) (mp : option nat) (xs : list XR), 1 <= w ->
    exists out, ts_run (ts_vwma_f w mp) body w xs = Done out /\ length out = length xs /\
      forall i, i < length xs ->
        nth_error out i =
        Some (let V := valid (win w i xs) in
              if mp_eff mp w 0 <=? length V then (if length V =? 0 then None else Some (wmaR V))
              else None).
Proof.
  intros body w mp xs Hw.
  destruct (wma_state_tracks_window mp body w xs Hw) as (out & H1 & H2 & H3).
  exists out. split; [exact H1|]. split; [exact H2|]. intros i Hi.
  destruct (nth_error xs i) as [v|] eqn:Hv; [|apply nth_error_None in Hv; lia].
  destruct (H3 i v Hv) as (s & Habs & Hn). rewrite Hn. f_equal.
  apply wma_emit_spec. exact Habs.
Qed.

(* (6) adjusted skewness and excess kurtosis *)
Theorem C01_ts_vskew :
  forall (body : bool) (w : nat) (mp : option nat) (xs : list XR), 1 <= w ->
    exists out, ts_run (ts_vskew_f w mp) body w xs = Done out /\ length out = length xs /\
      forall i, i < length xs ->
        nth_error out i =
        Some (let V := valid (win w i xs) in
              if mp_eff mp w 3 <=? length V
              then (if Rle_dec (popvarR V) EPS then Some 0%R else Some (skewR V)) else None).
Proof.
  intros body w mp xs Hw.
  apply (mom_entry (emit_skew (mp_eff mp w 3))
           (fun V => if mp_eff mp w 3 <=? length V
                     then (if Rle_dec (popvarR V) EPS then Some 0%R else Some (skewR V)) else None));
    [exact Hw|].
  intros s W HA. apply emit_skew_spec; [exact HA|apply mp_eff_ge].
Qed.

Theorem C01_ts_vkurt :
  forall (body : bool) (w : nat) (mp : option nat) (xs : list XR), 1 <= w ->
    exists out, ts_run (ts_vkurt_f w mp) body w xs = Done out /\ length out = length xs /\
      forall i, i < length xs ->
        nth_error out i =
        Some (let V := valid (win w i xs) in
              if mp_eff mp w 4 <=? length V
              then (if Rle_dec (popvarR V) EPS then Some 0%R else Some (kurtR V)) else None).
Proof.
  intros body w mp xs Hw.
  apply (mom_entry (emit_kurt (mp_eff mp w 4))
           (fun V => if mp_eff mp w 4 <=? length V
                     then (if Rle_dec (popvarR V) EPS then Some 0%R else Some (kurtR V)) else None));
    [exact Hw|].
  intros s W HA. apply emit_kurt_spec; [exact HA|apply mp_eff_ge].
Qed.

(* (7) fractional difference (plain family, finite series): weights (-1)^k C(d,k) on the k-th most
   recent element of the window, also during warm-up *)
Theorem C01_ts_fdiff :
  forall (body : bool) (d : R) (w : nat) (rs : list R), 1 <= w ->
    exists out, ts_fdiff body (Some d) w (fun x : XR => x) (map Some rs) = Done out /\
      length out = length rs /\
      forall i, i < length rs -> nth_error out i = Some (Some (fdiffR d (win w i rs))).
Proof. exact ts_fdiff_spec. Qed.

(* (8) the plain family ts_sum .. ts_kurt, ts_ewm, ts_wma is the same code with a never-null
   dictionary; on null-free input it coincides with the null-aware family, so (1)-(6) apply *)
Theorem C01_plain_family_moments :
  forall (emit : @mom XR -> XR) (body : bool) (w : nat) (rs : list R), 1 <= w ->
    ts_run (mom_feat (DT := IsNone_never) emit) body w (map Some rs)
    = ts_run (mom_feat (DT := IsNoneXR) emit) body w (map Some rs).
Proof. exact plain_family_mom. Qed.

Theorem C01_plain_family_ewm :
  forall (w : nat) (mp : option nat) (body : bool) (rs : list R), 1 <= w ->
    ts_run (ts_vewm_f (DT := IsNone_never) w mp) body w (map Some rs)
    = ts_run (ts_vewm_f (DT := IsNoneXR) w mp) body w (map Some rs).
Proof. exact plain_family_ewm. Qed.

Theorem C01_plain_family_wma :
  forall (w : nat) (mp : option nat) (body : bool) (rs : list R), 1 <= w ->
    ts_run (ts_vwma_f (DT := IsNone_never) w mp) body w (map Some rs)
    = ts_run (ts_vwma_f (DT := IsNoneXR) w mp) body w (map Some rs).
Proof. exact plain_family_wma. Qed.

(* ---------------------------------------------------------------------------------------------
   (9) the null-aware fractional difference ts_vfdiff.  What the code does, faithfully:
       n = number of non-null elements of the window max(0,i-w+1)..=i; null iff
       n < min(min_periods.unwrap_or(w/2), w); otherwise the nulls are COMPACTED OUT and the k-th most
       recent VALID element gets (-1)^k C(d,k) — a null shifts the weights of all older elements,
       and a null in the current position does not null the output.                            *)
Theorem C01_ts_vfdiff :
  forall (body : bool) (d : R) (w : nat) (mp : option nat) (xs : list XR), 1 <= w ->
    exists out, ts_vfdiff (DT := IsNoneXR) body (Some d) w mp xs = Done out /\
      length out = length xs /\
      forall i, i < length xs ->
        nth_error out i =
        Some (let V := valid (win w i xs) in
              if mp_eff mp w 0 <=? length V then Some (fdiffR d V) else None).
Proof. exact ts_vfdiff_spec. Qed.

(* the same with the sum written out: V_(k) = k-th most recent valid element of the window *)
Theorem C01_ts_vfdiff_textbook :
  forall (body : bool) (d : R) (w : nat) (mp : option nat) (xs : list XR), 1 <= w ->
    exists out, ts_vfdiff (DT := IsNoneXR) body (Some d) w mp xs = Done out /\
      length out = length xs /\
      forall i, i < length xs ->
        nth_error out i =
        Some (let V := valid (win w i xs) in
              if mp_eff mp w 0 <=? length V
              then Some (sumR (map (fun k => (-1) ^ k * binomR d k * nth (length V - 1 - k) V 0)
                                   (seq 0 (length V))))%R
              else None).
Proof. exact ts_vfdiff_textbook. Qed.

(* plain ts_fdiff in the coordinates of the series: sum_{k < min(i+1,w)} (-1)^k C(d,k) x_{i-k} *)
Theorem C01_ts_fdiff_textbook :
  forall (body : bool) (d : R) (w : nat) (rs : list R), 1 <= w ->
    exists out, ts_fdiff body (Some d) w (fun x : XR => x) (map Some rs) = Done out /\
      length out = length rs /\
      forall i, i < length rs ->
        nth_error out i =
        Some (Some (sumR (map (fun k => (-1) ^ k * binomR d k * nth (i - k) rs 0)
                              (seq 0 (Nat.min (S i) w))))%R).
Proof. exact ts_fdiff_textbook. Qed.

(* fdiffR itself, recursively and positionally (weights by distance from the END of the window) *)
Theorem C01_fdiffR_cons :
  forall (d x : R) (l : list R), (fdiffR d (x :: l) = x * fdiff_weight d (length l) + fdiffR d l)%R.
Proof. exact fdiffR_cons. Qed.

Theorem C01_fdiffR_positional :
  forall (d : R) (l : list R),
    fdiffR d l
    = sumR (map (fun k => fdiff_weight d k * nth (length l - 1 - k) l 0)%R (seq 0 (length l))).
Proof. exact fdiffR_nth. Qed.

(* the output at i depends on the valid elements of the window only: where the nulls sit, the
   current position included, is irrelevant *)
Theorem C01_vfdiff_depends_on_valid_only :
  forall (body : bool) (d : R) (w : nat) (mp : option nat) (xs ys : list XR) (i : nat),
    1 <= w -> i < length xs -> i < length ys ->
    valid (win w i xs) = valid (win w i ys) ->
    forall ox oy,
      ts_vfdiff (DT := IsNoneXR) body (Some d) w mp xs = Done ox ->
      ts_vfdiff (DT := IsNoneXR) body (Some d) w mp ys = Done oy ->
      nth_error ox i = nth_error oy i.
Proof. exact vfdiff_depends_on_valid_only. Qed.

(* the surprise pinned on concrete windows (d = 1, w = 3, min_periods 1):
   [1; null; 3] -> 3 - 1 = 2 although x_0 is two steps back (positional weighting would give 3);
   [1; 3; null] -> 2, not null, although the current element is null *)
Theorem C01_vfdiff_nulls_shift_weights :
  forall body : bool,
    exists out, ts_vfdiff (DT := IsNoneXR) body (Some 1%R) 3 (Some 1) [Some 1%R; None; Some 3%R] = Done out /\
      nth_error out 2 = Some (Some 2%R) /\
      fdiff_positional 1 [Some 1%R; None; Some 3%R] = 3%R.
Proof. exact vfdiff_nulls_shift_weights. Qed.

Theorem C01_vfdiff_current_null_not_null :
  forall body : bool,
    exists out, ts_vfdiff (DT := IsNoneXR) body (Some 1%R) 3 (Some 1) [Some 1%R; Some 3%R; None] = Done out /\
      nth_error out 2 = Some (Some 2%R).
Proof. exact vfdiff_current_null_not_null. Qed.

(* ---------------------------------------------------------------------------------------------
   (10) the coefficient table fdiff_coef d w                                                   *)
(* length w, for EVERY numeric carrier (binary64 included) *)
Theorem C01_fdiff_coef_length :
  forall (A : Type) (NA : Num A) (d : A) (w : nat), length (fdiff_coef d w) = w.
Proof. exact (@fdiff_coef_length). Qed.

(* C(d,k) is the generalised binomial product, with the usual recurrence *)
Theorem C01_binom_product :
  forall (d : R) (k : nat),
    binomR d k = prodR (map (fun i => (d - INR i) / INR (S i))%R (seq 0 k)).
Proof. exact binomR_prod. Qed.

Theorem C01_binom_recurrence :
  forall (d : R) (k : nat),
    binomR d 0 = 1%R /\ (binomR d (S k) = binomR d k * ((d - INR k) / INR (S k)))%R.
Proof. intros d k. split; [apply binomR_0|apply binomR_S]. Qed.

(* coefficient k, counted from the most recent element (table index w-1-k), is (-1)^k C(d,k) *)
Theorem C01_fdiff_coef_nth :
  forall (d : R) (w k : nat), k < w ->
    nth_error (fdiff_coef (Some d) w) (w - 1 - k) = Some (Some ((-1) ^ k * binomR d k)%R).
Proof. exact fdiff_coef_nth. Qed.

(* the most recent element has weight 1 *)
Theorem C01_fdiff_coef_last :
  forall (d : R) (w : nat), 1 <= w -> nth_error (fdiff_coef (Some d) w) (w - 1) = Some (Some 1%R).
Proof. exact fdiff_coef_last. Qed.

(* integer order n: binomial numbers up to n, exactly 0 beyond *)
Theorem C01_fdiff_coef_integer_binomial :
  forall (n w k : nat), k <= n -> k < w ->
    nth_error (fdiff_coef (Some (INR n)) w) (w - 1 - k) = Some (Some ((-1) ^ k * C n k)%R).
Proof. exact fdiff_coef_nat_binomial. Qed.

Theorem C01_fdiff_coef_integer_vanish :
  forall (n w k : nat), n < k -> k < w ->
    nth_error (fdiff_coef (Some (INR n)) w) (w - 1 - k) = Some (Some 0%R).
Proof. exact fdiff_coef_nat_vanish. Qed.

(* ... so an integer-order fractional difference is the (window-truncated) n-th finite difference *)
Theorem C01_fdiff_integer_order :
  forall (n : nat) (l : list R),
    fdiffR (INR n) l
    = sumR (map (fun k => (-1) ^ k * C n k * nth (length l - 1 - k) l 0)%R
                (seq 0 (Nat.min (S n) (length l)))).
Proof. exact fdiffR_nat. Qed.

Theorem C01_fdiff_order0_identity :
  forall l : list R, l <> [] -> fdiffR 0 l = last l 0%R.
Proof. exact fdiffR_d0. Qed.

(* d = 1: the table is [0; ..; 0; -1; 1] and ts_fdiff (w >= 2) is the first difference *)
Theorem C01_fdiff_coef_d1 :
  forall w : nat, 2 <= w ->
    fdiff_coef (Some 1%R) w = repeat (Some 0%R) (w - 2) ++ [Some (-1)%R; Some 1%R].
Proof. exact fdiff_coef_d1. Qed.

Theorem C01_ts_fdiff_d1_first_difference :
  forall (body : bool) (w : nat) (rs : list R), 2 <= w ->
    exists out, ts_fdiff body (Some 1%R) w (fun x : XR => x) (map Some rs) = Done out /\
      length out = length rs /\
      forall i, i < length rs ->
        nth_error out i =
        Some (Some (match i with O => nth 0 rs 0 | S j => nth (S j) rs 0 - nth j rs 0 end)%R).
Proof. exact ts_fdiff_d1_first_difference. Qed.

(* ---------------------------------------------------------------------------------------------
   (11) plain entry points = null-aware twins on null-free input, entry point by entry point.
        For fdiff the twin additionally masks the positions with i + 1 < effective min_periods.  *)
Theorem C01_plain_fdiff_vs_vfdiff :
  forall (body : bool) (d : R) (w : nat) (mp : option nat) (rs : list R), 1 <= w ->
    exists outp outv,
      ts_fdiff body (Some d) w (fun x : XR => x) (map Some rs) = Done outp /\
      ts_vfdiff (DT := IsNoneXR) body (Some d) w mp (map Some rs) = Done outv /\
      length outp = length rs /\ length outv = length rs /\
      forall i, i < length rs ->
        nth_error outv i =
        if mp_eff mp w 0 <=? Nat.min (S i) w then nth_error outp i else Some None.
Proof. exact plain_fdiff_vs_vfdiff. Qed.

Theorem C01_plain_family_fdiff :
  forall (body : bool) (d : R) (w : nat) (mp : option nat) (rs : list R),
    1 <= w -> mp_eff mp w 0 <= 1 ->
    ts_fdiff body (Some d) w (fun x : XR => x) (map Some rs)
    = ts_vfdiff (DT := IsNoneXR) body (Some d) w mp (map Some rs).
Proof. exact plain_family_fdiff. Qed.

Theorem C01_vfdiff_warmup_mask :
  forall (body : bool) (d : R) (w : nat) (mp : option nat) (rs : list R), 1 <= w ->
    exists outv, ts_vfdiff (DT := IsNoneXR) body (Some d) w mp (map Some rs) = Done outv /\
      forall i, i < length rs -> S i < mp_eff mp w 0 -> nth_error outv i = Some None.
Proof. exact vfdiff_warmup_mask. Qed.

Theorem C01_plain_equals_null_aware :
  forall (body : bool) (w : nat) (mp : option nat) (d : R) (rs : list R), 1 <= w ->
    let xs := map Some rs in
    ts_run (ts_vsum_f (DT := IsNone_never) w mp) body w xs = ts_run (ts_vsum_f (DT := IsNoneXR) w mp) body w xs /\
    ts_run (ts_vmean_f (DT := IsNone_never) w mp) body w xs = ts_run (ts_vmean_f (DT := IsNoneXR) w mp) body w xs /\
    ts_run (ts_vvar_f (DT := IsNone_never) w mp) body w xs = ts_run (ts_vvar_f (DT := IsNoneXR) w mp) body w xs /\
    ts_run (ts_vstd_f (DT := IsNone_never) w mp) body w xs = ts_run (ts_vstd_f (DT := IsNoneXR) w mp) body w xs /\
    ts_run (ts_vskew_f (DT := IsNone_never) w mp) body w xs = ts_run (ts_vskew_f (DT := IsNoneXR) w mp) body w xs /\
    ts_run (ts_vkurt_f (DT := IsNone_never) w mp) body w xs = ts_run (ts_vkurt_f (DT := IsNoneXR) w mp) body w xs /\
    ts_run (ts_vewm_f (DT := IsNone_never) w mp) body w xs = ts_run (ts_vewm_f (DT := IsNoneXR) w mp) body w xs /\
    ts_run (ts_vwma_f (DT := IsNone_never) w mp) body w xs = ts_run (ts_vwma_f (DT := IsNoneXR) w mp) body w xs /\
    (mp_eff mp w 0 <= 1 ->
     ts_fdiff body (Some d) w (fun x : XR => x) xs = ts_vfdiff (DT := IsNoneXR) body (Some d) w mp xs).
Proof. exact plain_equals_null_aware. Qed.

(* ---------------------------------------------------------------------------------------------
   (12) the EPS floor of ts_vstd, and the zero-variance branches                               *)
(* ts_vstd returns 0 where the textbook sample std is at most sqrt(2 EPS) ~ 1.41e-7 *)
Theorem C01_eps_floor_bounded_std :
  forall V : list R, 2 <= length V -> ~ (EPS < popvarR V)%R ->
    (0 <= samplestdR V <= sqrt (2 * EPS))%R.
Proof. exact eps_floor_bounded_std. Qed.

(* `var > EPS` (var/std) and `var <= EPS` (skew/kurt) split the windows the same way *)
Theorem C01_floor_guards_agree :
  forall p : R, ~ (EPS < p)%R <-> (p <= EPS)%R.
Proof. exact floor_guards_agree. Qed.

(* a constant window has population variance exactly 0, so it is always in the floored class *)
Theorem C01_popvar_constant :
  forall (c : R) (n : nat), popvarR (repeat c n) = 0%R.
Proof. exact popvar_constant. Qed.

(* on a window with population variance <= EPS all four entry points return exactly 0 (never null,
   never the 0/0 of the textbook skewness / kurtosis), min_periods permitting *)
Theorem C01_zero_variance_outputs :
  forall (body : bool) (w : nat) (mp : option nat) (xs : list XR), 1 <= w ->
    exists ovar ostd oskew okurt,
      ts_run (ts_vvar_f w mp) body w xs = Done ovar /\
      ts_run (ts_vstd_f w mp) body w xs = Done ostd /\
      ts_run (ts_vskew_f w mp) body w xs = Done oskew /\
      ts_run (ts_vkurt_f w mp) body w xs = Done okurt /\
      forall i, i < length xs ->
        let V := valid (win w i xs) in
        (popvarR V <= EPS)%R ->
        (mp_eff mp w 2 <= length V ->
           nth_error ovar i = Some (Some 0%R) /\ nth_error ostd i = Some (Some 0%R)) /\
        (mp_eff mp w 3 <= length V -> nth_error oskew i = Some (Some 0%R)) /\
        (mp_eff mp w 4 <= length V -> nth_error okurt i = Some (Some 0%R)).
Proof. exact zero_variance_outputs. Qed.

(* ---------------------------------------------------------------------------------------------
   (13) the exponentially weighted mean is null exactly on windows without a valid element: the
        denominator of (4) vanishes iff n = 0, so (4) reads "weighted average, null iff empty"   *)
Theorem C01_ewm_denominator_zero_iff :
  forall (w n : nat), 1 <= w -> n <= w -> ((1 - (1 - 2 / INR w) ^ n)%R = 0%R <-> n = 0).
Proof. exact ewm_denominator_zero_iff. Qed.

Theorem C01_ts_vewm_total :
  forall (w : nat) (mp : option nat) (body : bool) (xs : list XR), 1 <= w ->
    exists out, ts_run (ts_vewm_f w mp) body w xs = Done out /\ length out = length xs /\
      forall i, i < length xs ->
        nth_error out i =
        Some (let V := valid (win w i xs) in
              if mp_eff mp w 0 <=? length V
              then (if length V =? 0 then None else Some (ewmR (1 - 2 / INR w) V))
              else None).
Proof. exact ts_vewm_total. Qed.

(* (14) window = 0 is rejected by both fractional differences, for every carrier: this is why the
        theorems above ask 1 <= w *)
Theorem C01_fdiff_window0 :
  forall (A : Type) (NA : Num A) (T : Type) (DT : IsNone T A) (d : A) (cast : T -> A)
         (mp : option nat) (xs : list T),
    ts_fdiff false d 0 cast xs = Panicked Underflow /\
    ts_vfdiff false d 0 mp xs = Panicked Underflow /\
    (xs <> [] -> ts_fdiff true d 0 cast xs = Panicked AssertFail /\
                 ts_vfdiff true d 0 mp xs = Panicked AssertFail).
Proof. exact (@fdiff_window0). Qed.

(* ---------------------------------------------------------------------------------------------
   (15) the weights in the form of the fractional-differencing literature, and the repository's
        own unit-test vectors (rolling.rs test_fdiff_coef, test_fdiff) exactly                   *)
Theorem C01_fdiff_weight_recurrence :
  forall (d : R) (k : nat),
    fdiff_weight d 0 = 1%R /\
    (fdiff_weight d (S k) = - fdiff_weight d k * ((d - INR k) / INR (S k)))%R.
Proof. intros d k. split; [apply fdiff_weight_0|apply fdiff_weight_S]. Qed.

Theorem C01_fdiff_weight_negative :
  forall (d : R) (k : nat), (0 < d < 1)%R -> 1 <= k -> (fdiff_weight d k < 0)%R.
Proof. exact fdiff_weight_negative. Qed.

Theorem C01_fdiff_weight_decreasing :
  forall (d : R) (k : nat), (0 < d < 1)%R -> 1 <= k -> (fdiff_weight d k < fdiff_weight d (S k))%R.
Proof. exact fdiff_weight_decreasing. Qed.

Theorem C01_fdiff_coef_unit_test_vector :
  fdiff_coef (Some (/ 2)%R) 4 = [Some (- / 16)%R; Some (- / 8)%R; Some (- / 2)%R; Some 1%R].
Proof. exact fdiff_coef_half_4. Qed.

Theorem C01_ts_vfdiff_unit_test_vector :
  forall body : bool,
    exists out, ts_vfdiff (DT := IsNoneXR) body (Some (/ 2)%R) 4 None
                  (map Some [7; 4; 2; 5; 1; 2]%R) = Done out /\
      out = [None; Some (/ 2)%R; Some (- (7 / 8))%R; Some (49 / 16)%R; Some (- 2)%R; Some (3 / 4)%R].
Proof. exact test_fdiff_vector. Qed.

(* non-vacuity: a window with a null, warm-up and expiry *)
Example C01_example_mean :
  exists out, ts_run (ts_vmean_f (A := XR) 2 (Some 1)) false 2 [Some 1%R; None; Some 3%R] = Done out
              /\ length out = 3.
Proof.
  destruct (C01_ts_vmean false 2 (Some 1) [Some 1%R; None; Some 3%R] ltac:(auto)) as (out & H & L & _).
  exists out. split; assumption.
Qed.

(* non-vacuity of the new implications *)
Example C01_example_vfdiff_masked_and_defined :       (* one series hits both branches of the mask *)
  exists out, ts_vfdiff (DT := IsNoneXR) true (Some (/ 2)%R) 2 (Some 2) [Some 1%R; None; Some 3%R; Some 4%R] = Done out
              /\ nth_error out 2 = Some None /\ nth_error out 3 = Some (Some (4 - / 2 * 3)%R).
Proof.
  destruct (C01_ts_vfdiff true (/ 2)%R 2 (Some 2) [Some 1%R; None; Some 3%R; Some 4%R] ltac:(auto))
    as (out & H & _ & H3).
  exists out. split; [exact H|]. split.
  - rewrite (H3 2 ltac:(cbn; auto)). reflexivity.
  - rewrite (H3 3 ltac:(cbn; auto)).
    cbn [win wstart Nat.sub skipn firstn valid flat_map app length]. cbv zeta.
    cbn [mp_eff Nat.min Nat.max Nat.leb]. rewrite fdiffR_two. reflexivity.
Qed.

Example C01_example_plain_family_fdiff :               (* w = 3, default min_periods = 3/2 = 1 *)
  ts_fdiff false (Some (/ 2)%R) 3 (fun x : XR => x) (map Some [1%R; 2%R; 4%R])
  = ts_vfdiff (DT := IsNoneXR) false (Some (/ 2)%R) 3 None (map Some [1%R; 2%R; 4%R]).
Proof. apply C01_plain_family_fdiff; [auto|vm_compute; auto]. Qed.

Example C01_example_warmup_mask :                      (* w = 4, min_periods 3: position 0 has S 0 < 3 *)
  0 < length [1%R; 2%R; 4%R] /\ 1 < mp_eff (Some 3) 4 0.
Proof. vm_compute. auto. Qed.

Example C01_example_coef_integer :                     (* hypotheses of the integer-order theorems *)
  nth_error (fdiff_coef (Some (INR 2)) 5) (5 - 1 - 3) = Some (Some 0%R) /\
  nth_error (fdiff_coef (Some (INR 2)) 5) (5 - 1 - 1) = Some (Some ((-1) ^ 1 * C 2 1)%R).
Proof.
  split; [apply C01_fdiff_coef_integer_vanish|apply C01_fdiff_coef_integer_binomial]; auto.
Qed.

Example C01_example_coef_d1 :
  fdiff_coef (Some 1%R) 4 = [Some 0%R; Some 0%R; Some (-1)%R; Some 1%R].
Proof. apply (C01_fdiff_coef_d1 4). auto. Qed.

Example C01_example_zero_variance :                    (* the floored class is inhabited *)
  2 <= length (repeat 5%R 3) /\ ~ (EPS < popvarR (repeat 5%R 3))%R /\ (popvarR (repeat 5%R 3) <= EPS)%R.
Proof.
  rewrite C01_popvar_constant. pose proof EPS_pos as H. split; [cbn; auto|].
  split; [apply Rlt_irrefl || (intros K; apply (Rlt_asym _ _ H); exact K)|apply Rlt_le; exact H].
Qed.

Example C01_example_fractional_order : (0 < / 2 < 1)%R /\ 1 <= 3.
Proof. split; [lra|auto]. Qed.

Print Assumptions C01_state_tracks_window.
Print Assumptions C01_ts_vsum.
Print Assumptions C01_ts_vmean.
Print Assumptions C01_ts_vvar.
Print Assumptions C01_ts_vstd.
Print Assumptions C01_eps_floor_bounded.
Print Assumptions C01_ts_vewm.
Print Assumptions C01_ewm_is_weighted_average.
Print Assumptions C01_ts_vwma.
Print Assumptions C01_ts_vskew.
Print Assumptions C01_ts_vkurt.
Print Assumptions C01_ts_fdiff.
Print Assumptions C01_plain_family_moments.
Print Assumptions C01_plain_family_ewm.
Print Assumptions C01_plain_family_wma.
Print Assumptions C01_ts_vfdiff.
Print Assumptions C01_ts_vfdiff_textbook.
Print Assumptions C01_ts_fdiff_textbook.
Print Assumptions C01_fdiffR_cons.
Print Assumptions C01_fdiffR_positional.
Print Assumptions C01_vfdiff_depends_on_valid_only.
Print Assumptions C01_vfdiff_nulls_shift_weights.
Print Assumptions C01_vfdiff_current_null_not_null.
Print Assumptions C01_fdiff_coef_length.
Print Assumptions C01_binom_product.
Print Assumptions C01_binom_recurrence.
Print Assumptions C01_fdiff_coef_nth.
Print Assumptions C01_fdiff_coef_last.
Print Assumptions C01_fdiff_coef_integer_binomial.
Print Assumptions C01_fdiff_coef_integer_vanish.
Print Assumptions C01_fdiff_integer_order.
Print Assumptions C01_fdiff_order0_identity.
Print Assumptions C01_fdiff_coef_d1.
Print Assumptions C01_ts_fdiff_d1_first_difference.
Print Assumptions C01_plain_fdiff_vs_vfdiff.
Print Assumptions C01_plain_family_fdiff.
Print Assumptions C01_vfdiff_warmup_mask.
Print Assumptions C01_plain_equals_null_aware.
Print Assumptions C01_eps_floor_bounded_std.
Print Assumptions C01_floor_guards_agree.
Print Assumptions C01_popvar_constant.
Print Assumptions C01_zero_variance_outputs.
Print Assumptions C01_ewm_denominator_zero_iff.
Print Assumptions C01_ts_vewm_total.
Print Assumptions C01_fdiff_window0.
Print Assumptions C01_fdiff_weight_recurrence.
Print Assumptions C01_fdiff_weight_negative.
Print Assumptions C01_fdiff_weight_decreasing.
Print Assumptions C01_fdiff_coef_unit_test_vector.
Print Assumptions C01_ts_vfdiff_unit_test_vector.
