(* Props/C01.v — property C01: rolling moments and weighted averages equal from-scratch window
   evaluation.  Carrier XR = option R (exact reals + one absorbing NaN), every series, every window
   w >= 1, every min_periods, every position, both driver bodies.  Statements only.            *)
From Coq Require Import Reals List.
From Tevec Require Import Base.Prelude Base.Num Base.XR Spec.Stats Model.Driver Model.Features
     Model.Fdiff Proofs.Features Proofs.Fdiff.
Import ListNotations.

(* (0) the accumulator never drifts: at emit time of every step it holds exactly the count and the
   first four power sums of the non-null elements of the window max(0,i-w+1)..=i — whatever the
   statistic computed from it (sum, mean, std, var, skew, kurt share this accumulator).          *)
Theorem C01_state_tracks_window :
  forall (emit : @mom XR -> XR) (body : bool) (w : nat) (xs : list XR),
    1 <= w ->
    exists out, ts_run (mom_feat emit) body w xs = Done out /\ length out = length xs /\
      forall i v, nth_error xs i = Some v ->
        exists s, nth_error out i = Some (emit s) /\
          m_n s = nv (win w i xs) /\
          m_s1 s = Some (psum 1 (valid (win w i xs))) /\ m_s2 s = Some (psum 2 (valid (win w i xs))) /\
          m_s3 s = Some (psum 3 (valid (win w i xs))) /\ m_s4 s = Some (psum 4 (valid (win w i xs))).
Proof.
  intros emit body w xs Hw.
  destruct (mom_state_tracks_window emit body w xs Hw) as (out & H1 & H2 & H3).
  exists out. split; [exact H1|]. split; [exact H2|]. intros i v Hv.
  destruct (H3 i v Hv) as (s & Habs & Hn). exists s. split; [exact Hn|exact Habs].
Qed.

(* (1) rolling sum *)
Theorem C01_ts_vsum :
  forall (body : bool) (w : nat) (mp : option nat) (xs : list XR), 1 <= w ->
    exists out, ts_run (ts_vsum_f w mp) body w xs = Done out /\ length out = length xs /\
      forall i, i < length xs ->
        nth_error out i =
        Some (let V := valid (win w i xs) in
              if mp_eff mp w 0 <=? length V then Some (sumR V) else None).
Proof.
  intros body w mp xs Hw.
  apply (mom_entry (emit_sum (mp_eff mp w 0))
           (fun V => if mp_eff mp w 0 <=? length V then Some (sumR V) else None)); [exact Hw|].
  intros s W HA. apply emit_sum_spec. exact HA.
Qed.

(* (2) rolling mean: null when the window has no valid element *)
Theorem C01_ts_vmean :
  forall (body : bool) (w : nat) (mp : option nat) (xs : list XR), 1 <= w ->
    exists out, ts_run (ts_vmean_f w mp) body w xs = Done out /\ length out = length xs /\
      forall i, i < length xs ->
        nth_error out i =
        Some (let V := valid (win w i xs) in
              if mp_eff mp w 0 <=? length V then (if length V =? 0 then None else Some (meanR V))
              else None).
Proof.
  intros body w mp xs Hw.
  apply (mom_entry (emit_mean (mp_eff mp w 0))
           (fun V => if mp_eff mp w 0 <=? length V then (if length V =? 0 then None else Some (meanR V))
                     else None)); [exact Hw|].
  intros s W HA. apply emit_mean_spec. exact HA.
Qed.

(* (3) rolling sample variance / standard deviation, with the EPS floor made explicit *)
Theorem C01_ts_vvar :
  forall (body : bool) (w : nat) (mp : option nat) (xs : list XR), 1 <= w ->
    exists out, ts_run (ts_vvar_f w mp) body w xs = Done out /\ length out = length xs /\
      forall i, i < length xs ->
        nth_error out i =
        Some (let V := valid (win w i xs) in
              if mp_eff mp w 2 <=? length V
              then (if Rlt_dec EPS (popvarR V) then Some (samplevarR V) else Some 0%R) else None).
Proof.
  intros body w mp xs Hw.
  apply (mom_entry (emit_var (mp_eff mp w 2))
           (fun V => if mp_eff mp w 2 <=? length V
                     then (if Rlt_dec EPS (popvarR V) then Some (samplevarR V) else Some 0%R) else None));
    [exact Hw|].
  intros s W HA. apply emit_var_spec; [exact HA|apply mp_eff_ge].
Qed.

Theorem C01_ts_vstd :
  forall (body : bool) (w : nat) (mp : option nat) (xs : list XR), 1 <= w ->
    exists out, ts_run (ts_vstd_f w mp) body w xs = Done out /\ length out = length xs /\
      forall i, i < length xs ->
        nth_error out i =
        Some (let V := valid (win w i xs) in
              if mp_eff mp w 2 <=? length V
              then (if Rlt_dec EPS (popvarR V) then Some (samplestdR V) else Some 0%R) else None).
Proof.
  intros body w mp xs Hw.
  apply (mom_entry (emit_std (mp_eff mp w 2))
           (fun V => if mp_eff mp w 2 <=? length V
                     then (if Rlt_dec EPS (popvarR V) then Some (samplestdR V) else Some 0%R) else None));
    [exact Hw|].
  intros s W HA. apply emit_std_spec; [exact HA|apply mp_eff_ge].
Qed.

(* the floor is a rounding device: where it applies the textbook variance is at most 2 EPS *)
Theorem C01_eps_floor_bounded :
  forall V : list R, 2 <= length V -> ~ (EPS < popvarR V)%R -> (samplevarR V <= 2 * EPS)%R.
Proof. exact eps_floor_bounded. Qed.

(* (4) exponentially weighted mean: state = sum_k oma^k x_(k), output = its normalised value *)
Theorem C01_ts_vewm :
  forall (body : bool) (w : nat) (mp : option nat) (xs : list XR), 1 <= w ->
    let oma := (1 - 2 / INR w)%R in
    exists out, ts_run (ts_vewm_f w mp) body w xs = Done out /\ length out = length xs /\
      forall i, i < length xs ->
        nth_error out i =
        Some (let V := valid (win w i xs) in
              if mp_eff mp w 0 <=? length V then
                (if Req_EM_T (1 - oma ^ length V) 0 then None
                 else Some (ewsum oma V * (2 / INR w) / (1 - oma ^ length V))%R)
              else None).
Proof.
  intros body w mp xs Hw oma.
  destruct (ewm_state_tracks_window w Hw mp body xs) as (out & H1 & H2 & H3).
  exists out. split; [exact H1|]. split; [exact H2|]. intros i Hi.
  destruct (nth_error xs i) as [v|] eqn:Hv; [|apply nth_error_None in Hv; lia].
  destruct (H3 i v Hv) as (s & Habs & Hn). rewrite Hn. f_equal.
  apply (ewm_emit_spec w Hw). exact Habs.
Qed.

Theorem C01_ewm_is_weighted_average :
  forall (w : nat) (V : list R), 1 <= w ->
    let oma := (1 - 2 / INR w)%R in
    (1 - oma ^ length V <> 0)%R ->
    (ewsum oma V * (2 / INR w) / (1 - oma ^ length V) = ewmR oma V)%R.
Proof. intros w V Hw oma Hd. apply (ewm_normalised w). exact Hd. Qed.

(* (5) linearly weighted mean: sum_t t x_t / (n(n+1)/2) over the valid window *)
Theorem C01_ts_vwma :
  forall (body : bool) (w : nat) (mp : option nat) (xs : list XR), 1 <= w ->
    exists out, ts_run (ts_vwma_f w mp) body w xs = Done out /\ length out = length xs /\
      forall i, i < length xs ->
        nth_error out i =
        Some (let V := valid (win w i xs) in
              if mp_eff mp w 0 <=? length V then (if length V =? 0 then None else Some (wmaR V))
              else None).
Proof.
  intros body w mp xs Hw.
  destruct (wma_state_tracks_window mp body w xs Hw) as (out & H1 & H2 & H3).
  exists out. split; [exact H1|]. split; [exact H2|]. intros i Hi.
  destruct (nth_error xs i) as [v|] eqn:Hv; [|apply nth_error_None in Hv; lia].
  destruct (H3 i v Hv) as (s & Habs & Hn). rewrite Hn. f_equal.
  apply wma_emit_spec. exact Habs.
Qed.

(* (6) adjusted skewness and excess kurtosis *)
Theorem C01_ts_vskew :
  forall (body : bool) (w : nat) (mp : option nat) (xs : list XR), 1 <= w ->
    exists out, ts_run (ts_vskew_f w mp) body w xs = Done out /\ length out = length xs /\
      forall i, i < length xs ->
        nth_error out i =
        Some (let V := valid (win w i xs) in
              if mp_eff mp w 3 <=? length V
              then (if Rle_dec (popvarR V) EPS then Some 0%R else Some (skewR V)) else None).
Proof.
  intros body w mp xs Hw.
  apply (mom_entry (emit_skew (mp_eff mp w 3))
           (fun V => if mp_eff mp w 3 <=? length V
                     then (if Rle_dec (popvarR V) EPS then Some 0%R else Some (skewR V)) else None));
    [exact Hw|].
  intros s W HA. apply emit_skew_spec; [exact HA|apply mp_eff_ge].
Qed.

Theorem C01_ts_vkurt :
  forall (body : bool) (w : nat) (mp : option nat) (xs : list XR), 1 <= w ->
    exists out, ts_run (ts_vkurt_f w mp) body w xs = Done out /\ length out = length xs /\
      forall i, i < length xs ->
        nth_error out i =
        Some (let V := valid (win w i xs) in
              if mp_eff mp w 4 <=? length V
              then (if Rle_dec (popvarR V) EPS then Some 0%R else Some (kurtR V)) else None).
Proof.
  intros body w mp xs Hw.
  apply (mom_entry (emit_kurt (mp_eff mp w 4))
           (fun V => if mp_eff mp w 4 <=? length V
                     then (if Rle_dec (popvarR V) EPS then Some 0%R else Some (kurtR V)) else None));
    [exact Hw|].
  intros s W HA. apply emit_kurt_spec; [exact HA|apply mp_eff_ge].
Qed.

(* (7) fractional difference (plain family, finite series): weights (-1)^k C(d,k) on the k-th most
   recent element of the window, also during warm-up *)
Theorem C01_ts_fdiff :
  forall (body : bool) (d : R) (w : nat) (rs : list R), 1 <= w ->
    exists out, ts_fdiff body (Some d) w (fun x : XR => x) (map Some rs) = Done out /\
      length out = length rs /\
      forall i, i < length rs -> nth_error out i = Some (Some (fdiffR d (win w i rs))).
Proof. exact ts_fdiff_spec. Qed.

(* (8) the plain family ts_sum .. ts_kurt, ts_ewm, ts_wma is the same code with a never-null
   dictionary; on null-free input it coincides with the null-aware family, so (1)-(6) apply *)
Theorem C01_plain_family_moments :
  forall (emit : @mom XR -> XR) (body : bool) (w : nat) (rs : list R), 1 <= w ->
    ts_run (mom_feat (DT := IsNone_never) emit) body w (map Some rs)
    = ts_run (mom_feat (DT := IsNoneXR) emit) body w (map Some rs).
Proof. exact plain_family_mom. Qed.

Theorem C01_plain_family_ewm :
  forall (w : nat) (mp : option nat) (body : bool) (rs : list R), 1 <= w ->
    ts_run (ts_vewm_f (DT := IsNone_never) w mp) body w (map Some rs)
    = ts_run (ts_vewm_f (DT := IsNoneXR) w mp) body w (map Some rs).
Proof. exact plain_family_ewm. Qed.

Theorem C01_plain_family_wma :
  forall (w : nat) (mp : option nat) (body : bool) (rs : list R), 1 <= w ->
    ts_run (ts_vwma_f (DT := IsNone_never) w mp) body w (map Some rs)
    = ts_run (ts_vwma_f (DT := IsNoneXR) w mp) body w (map Some rs).
Proof. exact plain_family_wma. Qed.

(* non-vacuity: a window with a null, warm-up and expiry *)
Example C01_example_mean :
  exists out, ts_run (ts_vmean_f (A := XR) 2 (Some 1)) false 2 [Some 1%R; None; Some 3%R] = Done out
              /\ length out = 3.
Proof.
  destruct (C01_ts_vmean false 2 (Some 1) [Some 1%R; None; Some 3%R] ltac:(auto)) as (out & H & L & _).
  exists out. split; assumption.
Qed.

Print Assumptions C01_state_tracks_window.
Print Assumptions C01_ts_vsum.
Print Assumptions C01_ts_vmean.
Print Assumptions C01_ts_vvar.
Print Assumptions C01_ts_vstd.
Print Assumptions C01_eps_floor_bounded.
Print Assumptions C01_ts_vewm.
Print Assumptions C01_ewm_is_weighted_average.
Print Assumptions C01_ts_vwma.
Print Assumptions C01_ts_vskew.
Print Assumptions C01_ts_vkurt.
Print Assumptions C01_ts_fdiff.
Print Assumptions C01_plain_family_moments.
Print Assumptions C01_plain_family_ewm.
Print Assumptions C01_plain_family_wma.
