(* Props/C13.v — property C13: element-wise mapping operations follow their positional definitions.
   Only theorem statements (closed by `exact` / `apply`), non-vacuity Examples, Print Assumptions.
   Model: Model/MapOps.v (list versions of the iterator constructions of tea-map, repaired tree);
   positional definitions: Spec/MapOps.v; proofs: Proofs/MapOps.v.
   `n : Z` is the i32 lag (every integer, so i32::MIN/MAX and |n| >= len are included);
   `NullDict` is the IsNone dictionary; `or_none d value = Ok v` says the effective fill value is v
   (value = Some v, or value = None on a type whose none() exists).                              *)
From Coq Require Import QArith.
From Tevec Require Import Base.Prelude Model.MapOps Spec.MapOps Proofs.MapOps Proofs.MapOpsExamples.
Local Open Scope Z_scope.

(* ---- (1) shift / vshift ------------------------------------------------------------------------ *)
(* total, length-preserving, element i = x[i-n] where that exists and the fill value elsewhere *)
Theorem C13_shift_positional :
  forall (T : Type) (n : Z) (v : T) (xs : list T),
  exists r, shift n v xs = Ok r /\ length r = length xs /\
    forall i, (i < length xs)%nat -> nth_error r i = Some (shift_at n v xs i).
Proof. exact (@shift_positional). Qed.

Theorem C13_vshift_positional :
  forall (T I : Type) (d : NullDict T I) (n : Z) (value : option T) (v : T) (xs : list T),
  or_none d value = Ok v ->
  exists r, vshift d n value xs = Ok r /\ length r = length xs /\
    forall i, (i < length xs)%nat -> nth_error r i = Some (shift_at n v xs i).
Proof. intros T I d n value v xs. apply vshift_positional. Qed.

(* reading shift_at: element j moves to place j+n (towards the end for n > 0, the start for n < 0) ... *)
Theorem C13_shift_moves_by_n :
  forall (T : Type) (n : Z) (v : T) (xs : list T) (j : nat),
  (j < length xs)%nat -> 0 <= Z.of_nat j + n < Z.of_nat (length xs) ->
  shift_at n v xs (Z.to_nat (Z.of_nat j + n)) = nth j xs v.
Proof. exact (@shift_at_moved). Qed.

(* ... and the vacated places (the first n for n > 0, the last |n| for n < 0, all when |n| >= len) hold the fill *)
Theorem C13_shift_fills_vacated :
  forall (T : Type) (n : Z) (v : T) (xs : list T) (i : nat),
  (Z.of_nat i < n \/ Z.of_nat (length xs) + n <= Z.of_nat i) -> shift_at n v xs i = v.
Proof. exact (@shift_at_vacated). Qed.

(* integer element types: a missing fill value panics (none() on a non-float type), by design *)
Theorem C13_vshift_int_none_panics :
  forall (n : Z) (xs : list Z), vshift dict_int n None xs = Panic OtherPanic.
Proof. intros. apply vshift_none_panics. reflexivity. Qed.

(* ---- (2) vdiff --------------------------------------------------------------------------------- *)
(* x[i] - x[i-n] where x[i-n] exists, the fill value itself elsewhere (all n, incl. 0 and |n| >= len) *)
Theorem C13_vdiff_positional :
  forall (T I : Type) (d : NullDict T I) (sub : T -> T -> T) (n : Z) (value : option T) (v : T) (xs : list T),
  or_none d value = Ok v ->
  exists r, vdiff d sub n value xs = Ok r /\ length r = length xs /\
    forall i, (i < length xs)%nat -> nth_error r i = Some (diff_at sub n v xs i).
Proof. intros T I d sub n value v xs. apply vdiff_positional. Qed.

Theorem C13_vdiff_integer_formula :
  forall (n v : Z) (xs : list Z) (i : nat),
  in_range (length xs) (src n i) = true ->
  diff_at Z.sub n v xs i = nth i xs v - nth (Z.to_nat (src n i)) xs v.
Proof. exact diff_at_Z. Qed.

Theorem C13_vdiff_fill_elsewhere :
  forall (T : Type) (sub : T -> T -> T) (n : Z) (v : T) (xs : list T) (i : nat),
  in_range (length xs) (src n i) = false -> diff_at sub n v xs i = v.
Proof. exact (@diff_at_out). Qed.

(* a null operand gives null, for any subtraction that propagates nulls (IEEE NaN) *)
Theorem C13_vdiff_null_operand :
  forall (T I : Type) (d : NullDict T I) (sub : T -> T -> T) (n : Z) (v : T) (xs : list T) (i : nat),
  (forall a b, is_none d a = true \/ is_none d b = true -> is_none d (sub b a) = true) ->
  in_range (length xs) (src n i) = true ->
  is_none d (nth i xs v) = true \/ is_none d (nth (Z.to_nat (src n i)) xs v) = true ->
  is_none d (diff_at sub n v xs i) = true.
Proof. intros T I d sub n v xs i. apply diff_at_null. Qed.

(* ---- (3) vpct_change --------------------------------------------------------------------------- *)
(* for any f64-like operations in which a cast is null exactly when its argument is, and NAN is null *)
Theorem C13_vpct_change_positional :
  forall (T I F : Type) (d : NullDict T I) (o : FOps F) (cast : T -> F),
  (forall v, fisnan o (cast v) = is_none d v) -> fisnan o (fnanv o) = true ->
  forall (n : Z) (xs : list T),
  exists r, vpct_change d o cast n xs = Ok r /\ length r = length xs /\
    forall i, (i < length xs)%nat -> nth_error r i = Some (pct_at d o cast n xs i).
Proof. intros T I F d o cast H1 H2 n xs. apply vpct_change_positional; assumption. Qed.

(* pct_at is x[i]/x[i-n] - 1 on non-null operands with a non-zero base ... *)
Theorem C13_pct_formula_defined :
  forall (T I F : Type) (d : NullDict T I) (o : FOps F) (cast : T -> F) (a b : T),
  is_none d a = false -> is_none d b = false -> fis0 o (cast a) = false ->
  pct_formula d o cast a b = fsub o (fdiv o (cast b) (cast a)) (fone o).
Proof. exact (@pct_formula_defined). Qed.

(* ... and null on a null operand or a zero base (and, by pct_at, where x[i-n] does not exist) *)
Theorem C13_pct_formula_null :
  forall (T I F : Type) (d : NullDict T I) (o : FOps F) (cast : T -> F) (a b : T),
  is_none d a = true \/ is_none d b = true \/ fis0 o (cast a) = true ->
  pct_formula d o cast a b = fnanv o.
Proof. exact (@pct_formula_null). Qed.

(* ---- (4) ffill / bfill ------------------------------------------------------------------------- *)
Theorem C13_ffill_mask_positional :
  forall (T I : Type) (d : NullDict T I) (mask : T -> bool) (value : option T) (dv : T) (xs : list T),
  or_none d value = Ok dv ->
  exists r, ffill_mask d mask value xs = Ok r /\ length r = length xs /\
    forall i x, nth_error xs i = Some x -> nth_error r i = Some (ffill_at mask dv xs i x).
Proof. intros T I d mask value dv xs. apply ffill_mask_positional. Qed.

Theorem C13_bfill_mask_positional :
  forall (T I : Type) (d : NullDict T I) (mask : T -> bool) (value : option T) (dv : T) (xs : list T),
  or_none d value = Ok dv ->
  exists r, bfill_mask d mask value xs = Ok r /\ length r = length xs /\
    forall i x, nth_error xs i = Some x -> nth_error r i = Some (bfill_at mask dv xs i x).
Proof. intros T I d mask value dv xs. apply bfill_mask_positional. Qed.

(* ffill / bfill are the is_none instances *)
Theorem C13_ffill_positional :
  forall (T I : Type) (d : NullDict T I) (value : option T) (dv : T) (xs : list T),
  or_none d value = Ok dv ->
  exists r, ffill d value xs = Ok r /\ length r = length xs /\
    forall i x, nth_error xs i = Some x ->
      nth_error r i = Some (if is_none d x
                            then match last_valid (is_none d) (firstn i xs) with Some y => y | None => dv end
                            else x).
Proof. intros T I d value dv xs. apply ffill_mask_positional. Qed.

Theorem C13_bfill_positional :
  forall (T I : Type) (d : NullDict T I) (value : option T) (dv : T) (xs : list T),
  or_none d value = Ok dv ->
  exists r, bfill d value xs = Ok r /\ length r = length xs /\
    forall i x, nth_error xs i = Some x ->
      nth_error r i = Some (if is_none d x
                            then match next_valid (is_none d) (skipn (S i) xs) with Some y => y | None => dv end
                            else x).
Proof. intros T I d value dv xs. apply bfill_mask_positional. Qed.

(* last_valid / next_valid are the NEAREST earlier / later unmasked (non-null) elements *)
Theorem C13_nearest_earlier :
  forall (T : Type) (mask : T -> bool) (xs : list T) (i : nat) (y : T),
  (i <= length xs)%nat ->
  (last_valid mask (firstn i xs) = Some y <->
   exists j, (j < i)%nat /\ nth_error xs j = Some y /\ mask y = false /\
             forall k x, (j < k < i)%nat -> nth_error xs k = Some x -> mask x = true).
Proof. exact (@last_valid_nearest). Qed.

Theorem C13_no_earlier :
  forall (T : Type) (mask : T -> bool) (xs : list T) (i : nat),
  last_valid mask (firstn i xs) = None <->
  forall k x, (k < i)%nat -> nth_error xs k = Some x -> mask x = true.
Proof. exact (@last_valid_none_earlier). Qed.

Theorem C13_nearest_later :
  forall (T : Type) (mask : T -> bool) (xs : list T) (i : nat) (y : T),
  next_valid mask (skipn (S i) xs) = Some y <->
  exists j, (i < j)%nat /\ nth_error xs j = Some y /\ mask y = false /\
            forall k x, (i < k < j)%nat -> nth_error xs k = Some x -> mask x = true.
Proof. exact (@next_valid_nearest). Qed.

Theorem C13_no_later :
  forall (T : Type) (mask : T -> bool) (xs : list T) (i : nat),
  next_valid mask (skipn (S i) xs) = None <->
  forall k x, (i < k)%nat -> nth_error xs k = Some x -> mask x = true.
Proof. exact (@next_valid_none_later). Qed.

(* nothing selected (e.g. an integer series, never null): identity, even where none() would panic *)
Theorem C13_fill_nothing_selected :
  forall (T I : Type) (d : NullDict T I) (mask : T -> bool) (value : option T) (xs : list T),
  (forall x, In x xs -> mask x = false) ->
  ffill_mask d mask value xs = Ok xs /\ bfill_mask d mask value xs = Ok xs.
Proof. intros T I d mask value xs H. split; [apply ffill_mask_unmasked|apply bfill_mask_unmasked]; exact H. Qed.

(* whenever ffill_mask / bfill_mask return at all, the length is the input's (no hypothesis) *)
Theorem C13_fill_directional_length :
  forall (T I : Type) (d : NullDict T I) (mask : T -> bool) (value : option T) (xs r : list T),
  (ffill_mask d mask value xs = Ok r -> length r = length xs) /\
  (bfill_mask d mask value xs = Ok r -> length r = length xs).
Proof. intros T I d mask value xs r. split; [apply ffill_mask_length|apply bfill_mask_length]. Qed.

(* ---- (5) fill ------------------------------------------------------------------------------------ *)
Theorem C13_fill_mask_positional :
  forall (T : Type) (mask : T -> bool) (v : T) (xs : list T) (i : nat),
  nth_error (fill_mask mask v xs) i = option_map (fun x => if mask x then v else x) (nth_error xs i).
Proof. exact (@fill_mask_positional). Qed.

Theorem C13_fill_touches_only_nulls :
  forall (T I : Type) (d : NullDict T I) (v : T) (xs : list T) (i : nat) (x : T),
  nth_error xs i = Some x ->
  nth_error (fill d v xs) i = Some (if is_none d x then v else x) /\
  (is_none d x = false -> nth_error (fill d v xs) i = Some x).
Proof. intros T I d v xs i x. apply fill_only_nulls. Qed.

Theorem C13_fill_length :
  forall (T : Type) (mask : T -> bool) (v : T) (xs : list T), length (fill_mask mask v xs) = length xs.
Proof. exact (@fill_mask_length). Qed.

(* ---- (6) vclip ----------------------------------------------------------------------------------- *)
(* for every dictionary whose unwrap succeeds on non-null elements (all three families, below) *)
Theorem C13_vclip_positional :
  forall (T I : Type) (d : NullDict T I) (inner : T -> I) (ltb : I -> I -> bool),
  (forall v, is_none d v = false -> unwrap d v = Ok (inner v)) ->
  forall (lower upper : T) (xs : list T),
  exists r, vclip d ltb lower upper xs = Ok r /\ length r = length xs /\
    forall i, nth_error r i = option_map (clip_elem d inner ltb lower upper) (nth_error xs i).
Proof. intros T I d inner ltb H lower upper xs. apply vclip_positional. exact H. Qed.

Theorem C13_unwrap_law_instances :
  forall (A : Type) (inan : A -> bool) (nanv dflt : A),
  (forall v, is_none (dict_float inan nanv) v = false -> unwrap (dict_float inan nanv) v = Ok v) /\
  (forall v : A, is_none dict_int v = false -> unwrap dict_int v = Ok v) /\
  (forall v, is_none (dict_opt inan) v = false -> unwrap (dict_opt inan) v = Ok (opt_inner dflt v)).
Proof.
  intros A inan nanv dflt. split; [|split].
  - exact (unwrap_ok_float inan nanv).
  - exact (@unwrap_ok_int A).
  - exact (unwrap_ok_opt inan dflt).
Qed.

(* nulls stay null and non-nulls stay non-null, whatever the bounds *)
Theorem C13_clip_preserves_nullness :
  forall (T I : Type) (d : NullDict T I) (inner : T -> I) (ltb : I -> I -> bool) (lower upper x : T),
  is_none d (clip_elem d inner ltb lower upper x) = is_none d x /\
  (is_none d x = true -> clip_elem d inner ltb lower upper x = x).
Proof. intros. split; [apply clip_elem_nullness|apply clip_elem_null]. Qed.

(* lower <= upper (for the non-null bounds): idempotent ... *)
Theorem C13_clip_idempotent :
  forall (T I : Type) (d : NullDict T I) (inner : T -> I) (ltb : I -> I -> bool),
  (forall a, ltb a a = false) ->
  forall (lower upper x : T),
  (is_none d lower = false -> is_none d upper = false -> leb_of ltb (inner lower) (inner upper) = true) ->
  clip_elem d inner ltb lower upper (clip_elem d inner ltb lower upper x) = clip_elem d inner ltb lower upper x.
Proof. intros T I d inner ltb H lower upper x. apply clip_elem_idempotent. exact H. Qed.

(* ... and every non-null result lies inside the (non-null) bounds *)
Theorem C13_clip_contained :
  forall (T I : Type) (d : NullDict T I) (inner : T -> I) (ltb : I -> I -> bool),
  (forall a, ltb a a = false) ->
  forall (lower upper x : T),
  (is_none d lower = false -> is_none d upper = false -> leb_of ltb (inner lower) (inner upper) = true) ->
  is_none d x = false ->
  (is_none d lower = false -> leb_of ltb (inner lower) (inner (clip_elem d inner ltb lower upper x)) = true) /\
  (is_none d upper = false -> leb_of ltb (inner (clip_elem d inner ltb lower upper x)) (inner upper) = true).
Proof. intros T I d inner ltb H lower upper x. apply clip_elem_contained. exact H. Qed.

(* integers: the textbook max(lo, min(hi, x)) *)
Theorem C13_clip_integer :
  forall lo hi x : Z, lo <= hi ->
  clip_elem dict_int (fun v => v) Z.ltb lo hi x = Z.max lo (Z.min hi x).
Proof. exact clip_elem_Z. Qed.

Theorem C13_vclip_length :
  forall (T I : Type) (d : NullDict T I) (ltb : I -> I -> bool) (lower upper : T) (xs r : list T),
  vclip d ltb lower upper xs = Ok r -> length r = length xs.
Proof. exact (@vclip_length). Qed.

(* ---- (7) abs / vabs -------------------------------------------------------------------------------- *)
Theorem C13_abs_positional :
  forall (A : Type) (aabs : A -> A) (xs : list A) (i : nat),
  nth_error (abs_map aabs xs) i = option_map aabs (nth_error xs i) /\
  length (abs_map aabs xs) = length xs.
Proof. intros. split; [apply abs_map_positional|apply abs_map_length]. Qed.

Theorem C13_vabs_elementwise :
  forall (A : Type) (aabs : A -> A) (inan : A -> bool) (nanv : A) (xs : list A) (os : list (option A)),
  vabs dict_int aabs xs = Ok (map aabs xs) /\
  vabs (dict_float inan nanv) aabs xs = Ok (map aabs xs) /\
  vabs (dict_opt inan) aabs os = Ok (map (vabs_opt_elem aabs inan) os).
Proof. intros. split; [apply vabs_int|split; [apply vabs_float|apply vabs_opt]]. Qed.

(* |.| keeps null inner values null  ==>  vabs leaves nulls null and non-nulls non-null *)
Theorem C13_vabs_preserves_nullness :
  forall (A : Type) (aabs : A -> A) (inan : A -> bool) (nanv : A),
  (forall v, inan (aabs v) = inan v) ->
  (forall v, is_none (dict_float inan nanv) (aabs v) = is_none (dict_float inan nanv) v) /\
  (forall o, (forall v, o = Some v -> inan v = false) ->
     vabs_opt_elem aabs inan o = option_map aabs o /\
     is_none (dict_opt inan) (vabs_opt_elem aabs inan o) = is_none (dict_opt inan) o).
Proof.
  intros A aabs inan nanv H. split.
  - intros v. apply vabs_float_nullness. exact H.
  - intros o Ho. split; [apply vabs_opt_elem_canonical|apply vabs_opt_nullness]; assumption.
Qed.

Theorem C13_vabs_length :
  forall (T I : Type) (d : NullDict T I) (iabs : I -> I) (xs r : list T),
  vabs d iabs xs = Ok r -> length r = length xs.
Proof. exact (@vabs_length). Qed.

(* ---- non-vacuity: the premises are satisfiable, on runs that reach every branch ------------------- *)
Example C13_ex_shift :
  shift 2 0 [1; 2; 3; 4; 5] = Ok [0; 0; 1; 2; 3] /\ shift (-2) 0 [1; 2; 3; 4; 5] = Ok [3; 4; 5; 0; 0] /\
  shift 0 0 [1; 2] = Ok [1; 2] /\ shift 7 0 [1; 2; 3] = Ok [0; 0; 0] /\
  shift (-2147483648) 9 [1; 2] = Ok [9; 9] /\ shift 2147483647 9 [1; 2] = Ok [9; 9] /\
  vshift (dict_opt (fun _ : Z => false)) 1 None [Some 1; None; Some 3] = Ok [None; Some 1; None] /\
  or_none (dict_opt (fun _ : Z => false)) None = Ok None /\ or_none dict_int (Some 5) = Ok 5.
Proof. vm_compute. repeat split. Qed.

(* the repaired behaviour: the fill value itself in the first n places; lag 0 = x - x *)
Example C13_ex_vdiff :
  vdiff dict_int Z.sub 1 (Some 10) [4; 1; 12] = Ok [10; -3; 11] /\
  vdiff dict_int Z.sub (-1) (Some 0) [4; 1; 12; 4] = Ok [3; -11; 8; 0] /\
  vdiff dict_int Z.sub 0 (Some 7) [4; 1] = Ok [0; 0] /\
  vdiff dict_int Z.sub 5 (Some 7) [4; 1] = Ok [7; 7] /\
  in_range 3 (src 1 2) = true /\ in_range 3 (src 1 0) = false.
Proof. vm_compute. repeat split. Qed.

(* NaN-like arithmetic: a null operand gives null, the fill value is not subtracted from anything *)
Example C13_ex_vdiff_null :
  vdiff d_fz sub_fz 1 (Some (Some 10)) [Some 4; None; Some 12; Some 5] = Ok [Some 10; None; None; Some (-7)] /\
  vdiff d_fz sub_fz 0 None [Some 4; None] = Ok [Some 0; None] /\
  (forall a b, is_none d_fz a = true \/ is_none d_fz b = true -> is_none d_fz (sub_fz b a) = true).
Proof. split; [|split]; try (vm_compute; reflexivity). exact sub_fz_null. Qed.

Example C13_ex_vpct_change :
  vpct_change d_oz qops cast_oz 1 [Some 1; Some 2; None; Some 0; Some 4; Some 6]
  = Ok [None; Some 1%Q; None; None; None; Some (1 # 2)%Q] /\
  vpct_change d_oz qops cast_oz (-1) [Some 4; Some 2; Some 0]
  = Ok [Some 1%Q; None; None] /\
  vpct_change d_oz qops cast_oz 0 [Some 4; None; Some 0] = Ok [Some 0%Q; None; None] /\
  (forall v, fisnan qops (cast_oz v) = is_none d_oz v) /\ fisnan qops (fnanv qops) = true.
Proof. split; [|split; [|split; [|split]]]; try (vm_compute; reflexivity). exact cast_oz_null. Qed.

Example C13_ex_fills :
  let d := dict_opt (fun _ : Z => false) in
  ffill d None [None; Some 1; None; None; Some 3; None] = Ok [None; Some 1; Some 1; Some 1; Some 3; Some 3] /\
  ffill d (Some (Some 0)) [None; Some 1; None] = Ok [Some 0; Some 1; Some 1] /\
  bfill d (Some (Some 0)) [None; Some 1; None; None; Some 3; None]
  = Ok [Some 1; Some 1; Some 3; Some 3; Some 3; Some 0] /\
  fill d (Some 9) [None; Some 1; None] = [Some 9; Some 1; Some 9] /\
  ffill dict_int None [1; 2; 3] = Ok [1; 2; 3] /\
  ffill_mask dict_int (fun v => v <? 2) None [1; 2; 3] = Panic OtherPanic.
Proof. vm_compute. repeat split. Qed.

Example C13_ex_clip :
  let d := dict_opt (fun _ : Z => false) in
  vclip d Z.ltb (Some 2) (Some 6) [Some 1; None; Some 3; Some 5; Some 7] = Ok [Some 2; None; Some 3; Some 5; Some 6] /\
  vclip d Z.ltb (Some 2) None [Some 1; None; Some 7] = Ok [Some 2; None; Some 7] /\
  vclip d Z.ltb None (Some 6) [Some 1; None; Some 7] = Ok [Some 1; None; Some 6] /\
  vclip d Z.ltb None None [Some 1; None; Some 7] = Ok [Some 1; None; Some 7] /\
  (forall a, Z.ltb a a = false) /\ leb_of Z.ltb 2 6 = true.
Proof. split; [|split; [|split; [|split; [|split]]]]; try (vm_compute; reflexivity). exact Z.ltb_irrefl. Qed.

Example C13_ex_abs :
  vabs (dict_opt (fun _ : Z => false)) Z.abs [Some (-1); None; Some 2] = Ok [Some 1; None; Some 2] /\
  abs_map Z.abs [-1; 2; -3] = [1; 2; 3] /\
  (forall v : Z, (fun _ : Z => false) (Z.abs v) = (fun _ : Z => false) v).
Proof. split; [|split]; vm_compute; reflexivity. Qed.

Print Assumptions C13_shift_positional.
Print Assumptions C13_vshift_positional.
Print Assumptions C13_shift_moves_by_n.
Print Assumptions C13_shift_fills_vacated.
Print Assumptions C13_vshift_int_none_panics.
Print Assumptions C13_vdiff_positional.
Print Assumptions C13_vdiff_integer_formula.
Print Assumptions C13_vdiff_fill_elsewhere.
Print Assumptions C13_vdiff_null_operand.
Print Assumptions C13_vpct_change_positional.
Print Assumptions C13_pct_formula_defined.
Print Assumptions C13_pct_formula_null.
Print Assumptions C13_ffill_mask_positional.
Print Assumptions C13_bfill_mask_positional.
Print Assumptions C13_ffill_positional.
Print Assumptions C13_bfill_positional.
Print Assumptions C13_nearest_earlier.
Print Assumptions C13_no_earlier.
Print Assumptions C13_nearest_later.
Print Assumptions C13_no_later.
Print Assumptions C13_fill_nothing_selected.
Print Assumptions C13_fill_directional_length.
Print Assumptions C13_fill_mask_positional.
Print Assumptions C13_fill_touches_only_nulls.
Print Assumptions C13_fill_length.
Print Assumptions C13_vclip_positional.
Print Assumptions C13_unwrap_law_instances.
Print Assumptions C13_clip_preserves_nullness.
Print Assumptions C13_clip_idempotent.
Print Assumptions C13_clip_contained.
Print Assumptions C13_clip_integer.
Print Assumptions C13_vclip_length.
Print Assumptions C13_abs_positional.
Print Assumptions C13_vabs_elementwise.
Print Assumptions C13_vabs_preserves_nullness.
Print Assumptions C13_vabs_length.
