(* Props/C13.v — property C13 (work in progress). *)
From Tevec Require Import Base.Prelude Model.MapOps Proofs.MapOps.

Theorem C13_fill_mask_length :
  forall (T : Type) (mask : T -> bool) (v : T) (xs : list T), length (fill_mask mask v xs) = length xs.
Proof. exact (@fill_mask_length). Qed.
Print Assumptions C13_fill_mask_length.
