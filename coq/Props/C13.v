(* Props/C13.v — property C13: element-wise mapping operations follow their positional definitions.
   Only theorem statements (closed by `exact` / `apply`), non-vacuity Examples, Print Assumptions.
   Model: Model/MapOps.v (list versions of the iterator constructions of tea-map, repaired tree);
   positional definitions: Spec/MapOps.v; proofs: Proofs/MapOps.v.
   `n : Z` is the i32 lag (every integer, so i32::MIN/MAX and |n| >= len are included);
   `NullDict` is the IsNone dictionary; `or_none d value = Ok v` says the effective fill value is v
   (value = Some v, or value = None on a type whose none() exists).                              *)
From Coq Require Import QArith Reals Floats.
From Tevec Require Import Base.XR Base.Prelude Model.MapOps Spec.MapOps Proofs.MapOps Proofs.MapOpsExamples Proofs.Audit13.
Local Open Scope Z_scope.

(* ---- (1) shift / vshift ------------------------------------------------------------------------ *)
(* total, length-preserving, element i = x[i-n] where that exists and the fill value elsewhere *)
Theorem C13_shift_positional :
  forall (T : Type) (n : Z) (v : T) (xs : list T),
  exists r, shift n v xs = Ok r /\ length r = length xs /\
    forall i, (i < length xs)%nat -> nth_error r i = Some (shift_at n v xs i).
Proof. exact (@shift_positional). Qed.

Theorem C13_vshift_positional :
  forall (T I : Type) (d : NullDict T I) (n : Z) (value : option T) (v : T) (xs : list T),
  or_none d value = Ok v ->
  exists r, vshift d n value xs = Ok r /\ length r = length xs /\
    forall i, (i < length xs)%nat -> nth_error r i = Some (shift_at n v xs i).
Proof. intros T I d n value v xs. apply vshift_positional. Qed.

(* reading shift_at: element j moves to place j+n (towards the end for n > 0, the start for n < 0) ... *)
Theorem C13_shift_moves_by_n :
  forall (T : Type) (n : Z) (v : T) (xs : list T) (j : nat),
  (j < length xs)%nat -> 0 <= Z.of_nat j + n < Z.of_nat (length xs) ->
  shift_at n v xs (Z.to_nat (Z.of_nat j + n)) = nth j xs v.
Proof. exact (@shift_at_moved). Qed.

(* ... and the vacated places (the first n for n > 0, the last |n| for n < 0, all when |n| >= len) hold the fill *)
Theorem C13_shift_fills_vacated :
  forall (T : Type) (n : Z) (v : T) (xs : list T) (i : nat),
  (Z.of_nat i < n \/ Z.of_nat (length xs) + n <= Z.of_nat i) -> shift_at n v xs i = v.
Proof. exact (@shift_at_vacated). Qed.

(* integer element types: a missing fill value panics (none() on a non-float type), by design *)
Theorem C13_vshift_int_none_panics :
  forall (n : Z) (xs : list Z), vshift dict_int n None xs = Panic OtherPanic.
Proof. intros. apply vshift_none_panics. reflexivity. Qed.

(* ---- (2) vdiff --------------------------------------------------------------------------------- *)
(* x[i] - x[i-n] where x[i-n] exists, the fill value itself elsewhere (all n, incl. 0 and |n| >= len) *)
Theorem C13_vdiff_positional :
  forall (T I : Type) (d : NullDict T I) (sub : T -> T -> T) (n : Z) (value : option T) (v : T) (xs : list T),
  or_none d value = Ok v ->
  exists r, vdiff d sub n value xs = Ok r /\ length r = length xs /\
    forall i, (i < length xs)%nat -> nth_error r i = Some (diff_at sub n v xs i).
Proof. intros T I d sub n value v xs. apply vdiff_positional. Qed.

Theorem C13_vdiff_integer_formula :
  forall (n v : Z) (xs : list Z) (i : nat),
  in_range (length xs) (src n i) = true ->
  diff_at Z.sub n v xs i = nth i xs v - nth (Z.to_nat (src n i)) xs v.
Proof. exact diff_at_Z. Qed.

Theorem C13_vdiff_fill_elsewhere :
  forall (T : Type) (sub : T -> T -> T) (n : Z) (v : T) (xs : list T) (i : nat),
  in_range (length xs) (src n i) = false -> diff_at sub n v xs i = v.
Proof. exact (@diff_at_out). Qed.

(* a null operand gives null, for any subtraction that propagates nulls (IEEE NaN) *)
Theorem C13_vdiff_null_operand :
  forall (T I : Type) (d : NullDict T I) (sub : T -> T -> T) (n : Z) (v : T) (xs : list T) (i : nat),
  (forall a b, is_none d a = true \/ is_none d b = true -> is_none d (sub b a) = true) ->
  in_range (length xs) (src n i) = true ->
  is_none d (nth i xs v) = true \/ is_none d (nth (Z.to_nat (src n i)) xs v) = true ->
  is_none d (diff_at sub n v xs i) = true.
Proof. intros T I d sub n v xs i. apply diff_at_null. Qed.

(* ---- (3) vpct_change --------------------------------------------------------------------------- *)
(* for any f64-like operations in which a cast is null exactly when its argument is, and NAN is null *)
Theorem C13_vpct_change_positional :
  forall (T I F : Type) (d : NullDict T I) (o : FOps F) (cast : T -> F),
  (forall v, fisnan o (cast v) = is_none d v) -> fisnan o (fnanv o) = true ->
  forall (n : Z) (xs : list T),
  exists r, vpct_change d o cast n xs = Ok r /\ length r = length xs /\
    forall i, (i < length xs)%nat -> nth_error r i = Some (pct_at d o cast n xs i).
Proof. intros T I F d o cast H1 H2 n xs. apply vpct_change_positional; assumption. Qed.

(* pct_at is x[i]/x[i-n] - 1 on non-null operands with a non-zero base ... *)
Theorem C13_pct_formula_defined :
  forall (T I F : Type) (d : NullDict T I) (o : FOps F) (cast : T -> F) (a b : T),
  is_none d a = false -> is_none d b = false -> fis0 o (cast a) = false ->
  pct_formula d o cast a b = fsub o (fdiv o (cast b) (cast a)) (fone o).
Proof. exact (@pct_formula_defined). Qed.

(* ... and null on a null operand or a zero base (and, by pct_at, where x[i-n] does not exist) *)
Theorem C13_pct_formula_null :
  forall (T I F : Type) (d : NullDict T I) (o : FOps F) (cast : T -> F) (a b : T),
  is_none d a = true \/ is_none d b = true \/ fis0 o (cast a) = true ->
  pct_formula d o cast a b = fnanv o.
Proof. exact (@pct_formula_null). Qed.

(* ---- (4) ffill / bfill ------------------------------------------------------------------------- *)
Theorem C13_ffill_mask_positional :
  forall (T I : Type) (d : NullDict T I) (mask : T -> bool) (value : option T) (dv : T) (xs : list T),
  or_none d value = Ok dv ->
  exists r, ffill_mask d mask value xs = Ok r /\ length r = length xs /\
    forall i x, nth_error xs i = Some x -> nth_error r i = Some (ffill_at mask dv xs i x).
Proof. intros T I d mask value dv xs. apply ffill_mask_positional. Qed.

Theorem C13_bfill_mask_positional :
  forall (T I : Type) (d : NullDict T I) (mask : T -> bool) (value : option T) (dv : T) (xs : list T),
  or_none d value = Ok dv ->
  exists r, bfill_mask d mask value xs = Ok r /\ length r = length xs /\
    forall i x, nth_error xs i = Some x -> nth_error r i = Some (bfill_at mask dv xs i x).
Proof. intros T I d mask value dv xs. apply bfill_mask_positional. Qed.

(* ffill / bfill are the is_none instances *)
Theorem C13_ffill_positional :
  forall (T I : Type) (d : NullDict T I) (value : option T) (dv : T) (xs : list T),
  or_none d value = Ok dv ->
  exists r, ffill d value xs = Ok r /\ length r = length xs /\
    forall i x, nth_error xs i = Some x ->
      nth_error r i = Some (if is_none d x
                            then match last_valid (is_none d) (firstn i xs) with Some y => y | None => dv end
                            else x).
Proof. intros T I d value dv xs. apply ffill_mask_positional. Qed.

Theorem C13_bfill_positional :
  forall (T I : Type) (d : NullDict T I) (value : option T) (dv : T) (xs : list T),
  or_none d value = Ok dv ->
  exists r, bfill d value xs = Ok r /\ length r = length xs /\
    forall i x, nth_error xs i = Some x ->
      nth_error r i = Some (if is_none d x
                            then match next_valid (is_none d) (skipn (S i) xs) with Some y => y | None => dv end
                            else x).
Proof. intros T I d value dv xs. apply bfill_mask_positional. Qed.

(* last_valid / next_valid are the NEAREST earlier / later unmasked (non-null) elements *)
Theorem C13_nearest_earlier :
  forall (T : Type) (mask : T -> bool) (xs : list T) (i : nat) (y : T),
  (i <= length xs)%nat ->
  (last_valid mask (firstn i xs) = Some y <->
   exists j, (j < i)%nat /\ nth_error xs j = Some y /\ mask y = false /\
             forall k x, (j < k < i)%nat -> nth_error xs k = Some x -> mask x = true).
Proof. exact (@last_valid_nearest). Qed.

Theorem C13_no_earlier :
  forall (T : Type) (mask : T -> bool) (xs : list T) (i : nat),
  last_valid mask (firstn i xs) = None <->
  forall k x, (k < i)%nat -> nth_error xs k = Some x -> mask x = true.
Proof. exact (@last_valid_none_earlier). Qed.

Theorem C13_nearest_later :
  forall (T : Type) (mask : T -> bool) (xs : list T) (i : nat) (y : T),
  next_valid mask (skipn (S i) xs) = Some y <->
  exists j, (i < j)%nat /\ nth_error xs j = Some y /\ mask y = false /\
            forall k x, (i < k < j)%nat -> nth_error xs k = Some x -> mask x = true.
Proof. exact (@next_valid_nearest). Qed.

Theorem C13_no_later :
  forall (T : Type) (mask : T -> bool) (xs : list T) (i : nat),
  next_valid mask (skipn (S i) xs) = None <->
  forall k x, (i < k)%nat -> nth_error xs k = Some x -> mask x = true.
Proof. exact (@next_valid_none_later). Qed.

(* nothing selected (e.g. an integer series, never null): identity, even where none() would panic *)
Theorem C13_fill_nothing_selected :
  forall (T I : Type) (d : NullDict T I) (mask : T -> bool) (value : option T) (xs : list T),
  (forall x, In x xs -> mask x = false) ->
  ffill_mask d mask value xs = Ok xs /\ bfill_mask d mask value xs = Ok xs.
Proof. intros T I d mask value xs H. split; [apply ffill_mask_unmasked|apply bfill_mask_unmasked]; exact H. Qed.

(* whenever ffill_mask / bfill_mask return at all, the length is the input's (no hypothesis) *)
Theorem C13_fill_directional_length :
  forall (T I : Type) (d : NullDict T I) (mask : T -> bool) (value : option T) (xs r : list T),
  (ffill_mask d mask value xs = Ok r -> length r = length xs) /\
  (bfill_mask d mask value xs = Ok r -> length r = length xs).
Proof. intros T I d mask value xs r. split; [apply ffill_mask_length|apply bfill_mask_length]. Qed.

(* ---- (5) fill ------------------------------------------------------------------------------------ *)
Theorem C13_fill_mask_positional :
  forall (T : Type) (mask : T -> bool) (v : T) (xs : list T) (i : nat),
  nth_error (fill_mask mask v xs) i = option_map (fun x => if mask x then v else x) (nth_error xs i).
Proof. exact (@fill_mask_positional). Qed.

Theorem C13_fill_touches_only_nulls :
  forall (T I : Type) (d : NullDict T I) (v : T) (xs : list T) (i : nat) (x : T),
  nth_error xs i = Some x ->
  nth_error (fill d v xs) i = Some (if is_none d x then v else x) /\
  (is_none d x = false -> nth_error (fill d v xs) i = Some x).
Proof. intros T I d v xs i x. apply fill_only_nulls. Qed.

Theorem C13_fill_length :
  forall (T : Type) (mask : T -> bool) (v : T) (xs : list T), length (fill_mask mask v xs) = length xs.
Proof. exact (@fill_mask_length). Qed.

(* ---- (6) vclip ----------------------------------------------------------------------------------- *)
(* for every dictionary whose unwrap succeeds on non-null elements (all three families, below) *)
Theorem C13_vclip_positional :
  forall (T I : Type) (d : NullDict T I) (inner : T -> I) (ltb : I -> I -> bool),
  (forall v, is_none d v = false -> unwrap d v = Ok (inner v)) ->
  forall (lower upper : T) (xs : list T),
  exists r, vclip d ltb lower upper xs = Ok r /\ length r = length xs /\
    forall i, nth_error r i = option_map (clip_elem d inner ltb lower upper) (nth_error xs i).
Proof. intros T I d inner ltb H lower upper xs. apply vclip_positional. exact H. Qed.

Theorem C13_unwrap_law_instances :
  forall (A : Type) (inan : A -> bool) (nanv dflt : A),
  (forall v, is_none (dict_float inan nanv) v = false -> unwrap (dict_float inan nanv) v = Ok v) /\
  (forall v : A, is_none dict_int v = false -> unwrap dict_int v = Ok v) /\
  (forall v, is_none (dict_opt inan) v = false -> unwrap (dict_opt inan) v = Ok (opt_inner dflt v)).
Proof.
  intros A inan nanv dflt. split; [|split].
  - exact (unwrap_ok_float inan nanv).
  - exact (@unwrap_ok_int A).
  - exact (unwrap_ok_opt inan dflt).
Qed.

(* nulls stay null and non-nulls stay non-null, whatever the bounds *)
Theorem C13_clip_preserves_nullness :
  forall (T I : Type) (d : NullDict T I) (inner : T -> I) (ltb : I -> I -> bool) (lower upper x : T),
  is_none d (clip_elem d inner ltb lower upper x) = is_none d x /\
  (is_none d x = true -> clip_elem d inner ltb lower upper x = x).
Proof. intros. split; [apply clip_elem_nullness|apply clip_elem_null]. Qed.

(* lower <= upper (for the non-null bounds): idempotent ... *)
Theorem C13_clip_idempotent :
  forall (T I : Type) (d : NullDict T I) (inner : T -> I) (ltb : I -> I -> bool),
  (forall a, ltb a a = false) ->
  forall (lower upper x : T),
  (is_none d lower = false -> is_none d upper = false -> leb_of ltb (inner lower) (inner upper) = true) ->
  clip_elem d inner ltb lower upper (clip_elem d inner ltb lower upper x) = clip_elem d inner ltb lower upper x.
Proof. intros T I d inner ltb H lower upper x. apply clip_elem_idempotent. exact H. Qed.

(* ... and every non-null result lies inside the (non-null) bounds *)
Theorem C13_clip_contained :
  forall (T I : Type) (d : NullDict T I) (inner : T -> I) (ltb : I -> I -> bool),
  (forall a, ltb a a = false) ->
  forall (lower upper x : T),
  (is_none d lower = false -> is_none d upper = false -> leb_of ltb (inner lower) (inner upper) = true) ->
  is_none d x = false ->
  (is_none d lower = false -> leb_of ltb (inner lower) (inner (clip_elem d inner ltb lower upper x)) = true) /\
  (is_none d upper = false -> leb_of ltb (inner (clip_elem d inner ltb lower upper x)) (inner upper) = true).
Proof. intros T I d inner ltb H lower upper x. apply clip_elem_contained. exact H. Qed.

(* integers: the textbook max(lo, min(hi, x)) *)
Theorem C13_clip_integer :
  forall lo hi x : Z, lo <= hi ->
  clip_elem dict_int (fun v => v) Z.ltb lo hi x = Z.max lo (Z.min hi x).
Proof. exact clip_elem_Z. Qed.

Theorem C13_vclip_length :
  forall (T I : Type) (d : NullDict T I) (ltb : I -> I -> bool) (lower upper : T) (xs r : list T),
  vclip d ltb lower upper xs = Ok r -> length r = length xs.
Proof. exact (@vclip_length). Qed.

(* ---- (7) abs / vabs -------------------------------------------------------------------------------- *)
Theorem C13_abs_positional :
  forall (A : Type) (aabs : A -> A) (xs : list A) (i : nat),
  nth_error (abs_map aabs xs) i = option_map aabs (nth_error xs i) /\
  length (abs_map aabs xs) = length xs.
Proof. intros. split; [apply abs_map_positional|apply abs_map_length]. Qed.

Theorem C13_vabs_elementwise :
  forall (A : Type) (aabs : A -> A) (inan : A -> bool) (nanv : A) (xs : list A) (os : list (option A)),
  vabs dict_int aabs xs = Ok (map aabs xs) /\
  vabs (dict_float inan nanv) aabs xs = Ok (map aabs xs) /\
  vabs (dict_opt inan) aabs os = Ok (map (vabs_opt_elem aabs inan) os).
Proof. intros. split; [apply vabs_int|split; [apply vabs_float|apply vabs_opt]]. Qed.

(* |.| keeps null inner values null  ==>  vabs leaves nulls null and non-nulls non-null *)
Theorem C13_vabs_preserves_nullness :
  forall (A : Type) (aabs : A -> A) (inan : A -> bool) (nanv : A),
  (forall v, inan (aabs v) = inan v) ->
  (forall v, is_none (dict_float inan nanv) (aabs v) = is_none (dict_float inan nanv) v) /\
  (forall o, (forall v, o = Some v -> inan v = false) ->
     vabs_opt_elem aabs inan o = option_map aabs o /\
     is_none (dict_opt inan) (vabs_opt_elem aabs inan o) = is_none (dict_opt inan) o).
Proof.
  intros A aabs inan nanv H. split.
  - intros v. apply vabs_float_nullness. exact H.
  - intros o Ho. split; [apply vabs_opt_elem_canonical|apply vabs_opt_nullness]; assumption.
Qed.

Theorem C13_vabs_length :
  forall (T I : Type) (d : NullDict T I) (iabs : I -> I) (xs r : list T),
  vabs d iabs xs = Ok r -> length r = length xs.
Proof. exact (@vabs_length). Qed.

(* ---- non-vacuity: the premises are satisfiable, on runs that reach every branch ------------------- *)
Example C13_ex_shift :
  shift 2 0 [1; 2; 3; 4; 5] = Ok [0; 0; 1; 2; 3] /\ shift (-2) 0 [1; 2; 3; 4; 5] = Ok [3; 4; 5; 0; 0] /\
  shift 0 0 [1; 2] = Ok [1; 2] /\ shift 7 0 [1; 2; 3] = Ok [0; 0; 0] /\
  shift (-2147483648) 9 [1; 2] = Ok [9; 9] /\ shift 2147483647 9 [1; 2] = Ok [9; 9] /\
  vshift (dict_opt (fun _ : Z => false)) 1 None [Some 1; None; Some 3] = Ok [None; Some 1; None] /\
  or_none (dict_opt (fun _ : Z => false)) None = Ok None /\ or_none dict_int (Some 5) = Ok 5.
Proof. vm_compute. repeat split. Qed.

(* the repaired behaviour: the fill value itself in the first n places; lag 0 = x - x *)
Example C13_ex_vdiff :
  vdiff dict_int Z.sub 1 (Some 10) [4; 1; 12] = Ok [10; -3; 11] /\
  vdiff dict_int Z.sub (-1) (Some 0) [4; 1; 12; 4] = Ok [3; -11; 8; 0] /\
  vdiff dict_int Z.sub 0 (Some 7) [4; 1] = Ok [0; 0] /\
  vdiff dict_int Z.sub 5 (Some 7) [4; 1] = Ok [7; 7] /\
  in_range 3 (src 1 2) = true /\ in_range 3 (src 1 0) = false.
Proof. vm_compute. repeat split. Qed.

(* NaN-like arithmetic: a null operand gives null, the fill value is not subtracted from anything *)
Example C13_ex_vdiff_null :
  vdiff d_fz sub_fz 1 (Some (Some 10)) [Some 4; None; Some 12; Some 5] = Ok [Some 10; None; None; Some (-7)] /\
  vdiff d_fz sub_fz 0 None [Some 4; None] = Ok [Some 0; None] /\
  (forall a b, is_none d_fz a = true \/ is_none d_fz b = true -> is_none d_fz (sub_fz b a) = true).
Proof. split; [|split]; try (vm_compute; reflexivity). exact sub_fz_null. Qed.

Example C13_ex_vpct_change :
  vpct_change d_oz qops cast_oz 1 [Some 1; Some 2; None; Some 0; Some 4; Some 6]
  = Ok [None; Some 1%Q; None; None; None; Some (1 # 2)%Q] /\
  vpct_change d_oz qops cast_oz (-1) [Some 4; Some 2; Some 0]
  = Ok [Some 1%Q; None; None] /\
  vpct_change d_oz qops cast_oz 0 [Some 4; None; Some 0] = Ok [Some 0%Q; None; None] /\
  (forall v, fisnan qops (cast_oz v) = is_none d_oz v) /\ fisnan qops (fnanv qops) = true.
Proof. split; [|split; [|split; [|split]]]; try (vm_compute; reflexivity). exact cast_oz_null. Qed.

Example C13_ex_fills :
  let d := dict_opt (fun _ : Z => false) in
  ffill d None [None; Some 1; None; None; Some 3; None] = Ok [None; Some 1; Some 1; Some 1; Some 3; Some 3] /\
  ffill d (Some (Some 0)) [None; Some 1; None] = Ok [Some 0; Some 1; Some 1] /\
  bfill d (Some (Some 0)) [None; Some 1; None; None; Some 3; None]
  = Ok [Some 1; Some 1; Some 3; Some 3; Some 3; Some 0] /\
  fill d (Some 9) [None; Some 1; None] = [Some 9; Some 1; Some 9] /\
  ffill dict_int None [1; 2; 3] = Ok [1; 2; 3] /\
  ffill_mask dict_int (fun v => v <? 2) None [1; 2; 3] = Panic OtherPanic.
Proof. vm_compute. repeat split. Qed.

Example C13_ex_clip :
  let d := dict_opt (fun _ : Z => false) in
  vclip d Z.ltb (Some 2) (Some 6) [Some 1; None; Some 3; Some 5; Some 7] = Ok [Some 2; None; Some 3; Some 5; Some 6] /\
  vclip d Z.ltb (Some 2) None [Some 1; None; Some 7] = Ok [Some 2; None; Some 7] /\
  vclip d Z.ltb None (Some 6) [Some 1; None; Some 7] = Ok [Some 1; None; Some 6] /\
  vclip d Z.ltb None None [Some 1; None; Some 7] = Ok [Some 1; None; Some 7] /\
  (forall a, Z.ltb a a = false) /\ leb_of Z.ltb 2 6 = true.
Proof. split; [|split; [|split; [|split; [|split]]]]; try (vm_compute; reflexivity). exact Z.ltb_irrefl. Qed.

Example C13_ex_abs :
  vabs (dict_opt (fun _ : Z => false)) Z.abs [Some (-1); None; Some 2] = Ok [Some 1; None; Some 2] /\
  abs_map Z.abs [-1; 2; -3] = [1; 2; 3] /\
  (forall v : Z, (fun _ : Z => false) (Z.abs v) = (fun _ : Z => false) v).
Proof. split; [|split]; vm_compute; reflexivity. Qed.

(* ================================================================================================ *)
(* AUDIT (notes/C13.md, "Audit matrix"): clauses that had no theorem, hypotheses weakened to exactly *)
(* what the code rejects, what must not change, degenerate inputs, numeric carriers.                 *)
(* Proofs: Proofs/Audit13.v.                                                                         *)
(* ================================================================================================ *)

(* ---- (8) the i32 lag: `n.unsigned_abs() as usize` is |n| for EVERY i32, i32::MIN included; a signed
        negation would overflow there.  (Two's-complement definitions: Proofs/Audit13.v.) ---- *)
Theorem C13_lag_unsigned_abs :
  forall n : Z, in_i32 n -> i32_unsigned_abs n = Z.abs n /\ 0 <= i32_unsigned_abs n <= 2 ^ 31.
Proof. intros n H. split; [apply i32_unsigned_abs_spec|apply i32_unsigned_abs_range]; exact H. Qed.

Theorem C13_lag_i32_min :
  i32_checked_neg i32_min = Panic Overflow /\ i32_wrapping_abs i32_min = i32_min /\
  i32_unsigned_abs i32_min = 2 ^ 31 /\ i32_unsigned_abs i32_max = 2 ^ 31 - 1.
Proof. exact i32_min_neg. Qed.

(* ---- (9) shift / vshift corner lags, stated as whole results ---- *)
(* lag 0: the series itself (nothing changes, the fill value is not used) *)
Theorem C13_shift_zero_identity :
  forall (T I : Type) (d : NullDict T I) (v : T) (value : option T) (xs : list T),
  shift 0 v xs = Ok xs /\ (or_none d value = Ok v -> vshift d 0 value xs = Ok xs).
Proof. intros T I d v value xs. split; [apply shift_zero|exact (vshift_zero d value v xs)]. Qed.

(* |n| >= len: every place holds the fill; in particular i32::MIN / i32::MAX on any series shorter than 2^31 *)
Theorem C13_shift_beyond_length :
  forall (T : Type) (n : Z) (v : T) (xs : list T),
  (Z.of_nat (length xs) <= Z.abs n -> shift n v xs = Ok (repeat v (length xs))) /\
  ((n = i32_min \/ n = i32_max) -> Z.of_nat (length xs) < 2 ^ 31 -> shift n v xs = Ok (repeat v (length xs))).
Proof. intros T n v xs. split; [apply shift_beyond|apply shift_extreme]. Qed.

(* the omitted fill on a type without a null: vshift / vdiff return iff the effective fill exists, and the
   panic is none()'s — for every lag and every series, the empty one included *)
Theorem C13_vshift_returns_iff_fill_exists :
  forall (T I : Type) (d : NullDict T I) (n : Z) (value : option T) (xs : list T) (k : panic_kind),
  ((exists r, vshift d n value xs = Ok r) <-> (exists v, or_none d value = Ok v)) /\
  (vshift d n value xs = Panic k <-> (value = None /\ none d = Panic k)).
Proof. intros T I d n value xs k. split; [apply vshift_total_iff|apply vshift_panic_iff]. Qed.

Theorem C13_vdiff_panics_iff_fill_missing :
  forall (T I : Type) (d : NullDict T I) (sub : T -> T -> T) (n : Z) (value : option T) (xs : list T) (k : panic_kind),
  vdiff d sub n value xs = Panic k <-> (value = None /\ none d = Panic k).
Proof. intros T I d sub n value xs k. apply vdiff_panic_iff. Qed.

(* ---- (10) "exactly as many elements as the input", with NO hypothesis, for the operations whose
         positional theorem carries one ---- *)
Theorem C13_lengths_unconditional :
  forall (T I F : Type) (d : NullDict T I) (sub : T -> T -> T) (o : FOps F) (cast : T -> F)
         (n : Z) (v : T) (value : option T) (xs r : list T),
  (shift n v xs = Ok r -> length r = length xs) /\
  (vshift d n value xs = Ok r -> length r = length xs) /\
  (vdiff d sub n value xs = Ok r -> length r = length xs) /\
  (exists q, vpct_change d o cast n xs = Ok q /\ length q = length xs).
Proof.
  intros T I F d sub o cast n v value xs r.
  split; [apply shift_length|]. split; [apply vshift_length|]. split; [apply vdiff_length|apply vpct_change_total].
Qed.

(* ---- (11) vdiff / vpct_change corner lags as whole results ---- *)
Theorem C13_vdiff_corner_lags :
  forall (T I : Type) (d : NullDict T I) (sub : T -> T -> T) (n : Z) (value : option T) (v : T) (xs : list T),
  or_none d value = Ok v ->
  vdiff d sub 0 value xs = Ok (map (fun x => sub x x) xs) /\
  (Z.of_nat (length xs) <= Z.abs n -> vdiff d sub n value xs = Ok (repeat v (length xs))).
Proof. intros T I d sub n value v xs H. split; [apply (vdiff_zero d sub value v xs H)|apply vdiff_beyond; exact H]. Qed.

Theorem C13_vpct_change_corner_lags :
  forall (T I F : Type) (d : NullDict T I) (o : FOps F) (cast : T -> F) (n : Z) (xs : list T),
  vpct_change d o cast 0 xs = Ok (map (fun x => pct_neg d o cast x x) xs) /\
  (Z.of_nat (length xs) <= Z.abs n -> vpct_change d o cast n xs = Ok (repeat (fnanv o) (length xs))).
Proof. intros T I F d o cast n xs. split; [apply vpct_change_zero|apply vpct_change_beyond]. Qed.

(* ---- (12) ffill / bfill without the hypothesis `or_none d value = Ok dv`: the default is needed
         only for a masked FIRST (ffill) / LAST (bfill) element; otherwise the result is the positional
         one whatever `value` is (dv is arbitrary: it is never read), and the only panic is none()'s at
         such a head ---- *)
Theorem C13_ffill_head_unmasked :
  forall (T I : Type) (d : NullDict T I) (mask : T -> bool) (value : option T) (dv : T) (xs : list T),
  (forall x, hd_error xs = Some x -> mask x = false) ->
  ffill_mask d mask value xs = Ok (mapi (ffill_at mask dv xs) xs).
Proof. intros T I d mask value dv xs. apply ffill_mask_head_unmasked. Qed.

Theorem C13_bfill_tail_unmasked :
  forall (T I : Type) (d : NullDict T I) (mask : T -> bool) (value : option T) (dv : T) (xs : list T),
  (forall x, hd_error (rev xs) = Some x -> mask x = false) ->
  bfill_mask d mask value xs = Ok (mapi (bfill_at mask dv xs) xs).
Proof. intros T I d mask value dv xs. apply bfill_mask_tail_unmasked. Qed.

Theorem C13_fill_directional_panics_iff :
  forall (T I : Type) (d : NullDict T I) (mask : T -> bool) (value : option T) (xs : list T) (k : panic_kind),
  (ffill_mask d mask value xs = Panic k <->
   (value = None /\ none d = Panic k /\ exists x, hd_error xs = Some x /\ mask x = true)) /\
  (bfill_mask d mask value xs = Panic k <->
   (value = None /\ none d = Panic k /\ exists x, hd_error (rev xs) = Some x /\ mask x = true)).
Proof. intros T I d mask value xs k. split; [apply ffill_mask_panic_iff|apply bfill_mask_panic_iff]. Qed.

(* ---- (13) what the fills leave alone, and where a null can remain ---- *)
(* a place is still masked after ffill / bfill iff it was masked, every earlier / later element is masked and the
   default is masked; an unmasked place keeps its value *)
Theorem C13_fill_directional_remaining_nulls :
  forall (T : Type) (mask : T -> bool) (dv : T) (xs : list T) (i : nat) (x : T),
  mask (ffill_at mask dv xs i x) = mask x && forallb mask (firstn i xs) && mask dv /\
  mask (bfill_at mask dv xs i x) = mask x && forallb mask (skipn (S i) xs) && mask dv /\
  (mask x = false -> ffill_at mask dv xs i x = x /\ bfill_at mask dv xs i x = x).
Proof.
  intros T mask dv xs i x. split; [apply ffill_at_masked_iff|]. split; [apply bfill_at_masked_iff|].
  intros H. split; [apply ffill_at_unmasked|apply bfill_at_unmasked]; exact H.
Qed.

(* fill: no null is left when the value is non-null; null pattern afterwards; idempotent; identity when
   nothing is selected *)
Theorem C13_fill_result_nulls :
  forall (T I : Type) (d : NullDict T I) (v : T) (xs : list T),
  (is_none d v = false -> Forall (fun y => is_none d y = false) (fill d v xs)) /\
  (forall i x, nth_error xs i = Some x ->
     exists y, nth_error (fill d v xs) i = Some y /\ is_none d y = is_none d x && is_none d v).
Proof. intros T I d v xs. split; [apply fill_no_nulls_left|apply fill_nullness]. Qed.

Theorem C13_fill_idempotent_and_identity :
  forall (T : Type) (mask : T -> bool) (v : T) (xs : list T),
  fill_mask mask v (fill_mask mask v xs) = fill_mask mask v xs /\
  ((forall x, In x xs -> mask x = false) -> fill_mask mask v xs = xs).
Proof. intros T mask v xs. split; [apply fill_mask_idempotent|apply fill_mask_unmasked]. Qed.

(* ---- (14) clip with degenerate bounds: what the code does where idempotence / containment are not claimed ---- *)
(* both bounds null: the series itself, for every dictionary (nothing is unwrapped); one bound null: one-sided *)
Theorem C13_clip_null_bounds :
  forall (T I : Type) (d : NullDict T I) (inner : T -> I) (ltb : I -> I -> bool) (lower upper : T) (xs : list T) (x : T),
  (is_none d lower = true -> is_none d upper = true -> vclip d ltb lower upper xs = Ok xs) /\
  (is_none d upper = true -> is_none d x = false -> is_none d lower = false ->
   clip_elem d inner ltb lower upper x = if ltb (inner x) (inner lower) then lower else x) /\
  (is_none d lower = true -> is_none d x = false -> is_none d upper = false ->
   clip_elem d inner ltb lower upper x = if ltb (inner upper) (inner x) then upper else x).
Proof.
  intros T I d inner ltb lower upper xs x. split; [apply vclip_null_bounds|].
  split; [apply clip_elem_lower_only|apply clip_elem_upper_only].
Qed.

(* lower > upper is accepted silently: every non-null element becomes lower (if below it) or upper, and a second
   application swaps them — never idempotent, never contained *)
Theorem C13_clip_reversed_bounds :
  forall (T I : Type) (d : NullDict T I) (inner : T -> I) (ltb : I -> I -> bool),
  (forall a, ltb a a = false) -> (forall a b c, ltb a b = true -> ltb a c = true \/ ltb c b = true) ->
  forall (lower upper x : T),
  is_none d lower = false -> is_none d upper = false -> ltb (inner upper) (inner lower) = true ->
  is_none d x = false ->
  clip_elem d inner ltb lower upper x = (if ltb (inner x) (inner lower) then lower else upper) /\
  clip_elem d inner ltb lower upper (clip_elem d inner ltb lower upper x)
  = (if ltb (inner x) (inner lower) then upper else lower).
Proof. intros T I d inner ltb H1 H2 lower upper x. apply clip_elem_reversed; assumption. Qed.

Theorem C13_clip_reversed_bounds_refute_idempotence :
  exists lo hi x : Z,
    let c := clip_elem dict_int (fun v : Z => v) Z.ltb lo hi in
    hi < lo /\ c (c x) <> c x /\ leb_of Z.ltb (c x) hi = false.
Proof.
  exists 5, 1, 0. destruct clip_reversed_Z_witness as (H1 & H2 & H3 & H4). cbv zeta.
  split; [lia|]. split; [exact H3|exact H4].
Qed.

(* a bound that compares false with everything (an inner NaN under Some, outside DESIGN 5.4) does nothing *)
Theorem C13_clip_unordered_bounds :
  forall (T I : Type) (d : NullDict T I) (inner : T -> I) (ltb : I -> I -> bool) (lower upper x : T),
  (forall a, ltb a (inner lower) = false) -> (forall a, ltb (inner upper) a = false) ->
  clip_elem d inner ltb lower upper x = x.
Proof. intros T I d inner ltb lower upper x. apply clip_elem_unordered_bounds. Qed.

(* ---- (15) carriers.  Exact reals with a null (option R): the arithmetic premises are discharged and the
         values are the textbook ones ---- *)
Theorem C13_vdiff_real :
  forall (n : Z) (value : option (option R)) (xs : list (option R)),
  exists r, vdiff d_xr xr_sub n value xs = Ok r /\ length r = length xs /\
    forall i, (i < length xs)%nat ->
      nth_error r i = Some (diff_real n (match value with Some v => v | None => None end) xs i).
Proof. exact vdiff_real. Qed.

Theorem C13_vpct_change_real :
  forall (n : Z) (xs : list (option R)),
  exists r, vpct_change d_xr xr_ops (fun x => x) n xs = Ok r /\ length r = length xs /\
    forall i, (i < length xs)%nat -> nth_error r i = Some (pct_real n xs i).
Proof. exact vpct_change_real. Qed.

Theorem C13_clip_real :
  forall lo hi x : R, (lo <= hi)%R ->
  clip_elem d_xr (fun v => v) xltb (Some lo) (Some hi) (Some x) = Some (Rmax lo (Rmin hi x)).
Proof. exact clip_elem_real. Qed.

(* ---- (16) binary64 (Coq's primitive float = the instance Run/RunC13.v executes against the code): NaN is the
         null; premises that were IEEE facts are proved from the standard library's specification ---- *)
Theorem C13_vdiff_null_operand_binary64 :
  forall (n : Z) (v : float) (xs : list float) (i : nat),
  in_range (length xs) (src n i) = true ->
  is_nan (nth i xs v) = true \/ is_nan (nth (Z.to_nat (src n i)) xs v) = true ->
  is_nan (diff_at PrimFloat.sub n v xs i) = true.
Proof. exact vdiff_null_operand_f64. Qed.

Theorem C13_vpct_change_binary64 :
  forall (n : Z) (xs : list float),
  exists r, vpct_change d_f64 f64_fops (fun x => x) n xs = Ok r /\ length r = length xs /\
    forall i, (i < length xs)%nat -> nth_error r i = Some (pct_at d_f64 f64_fops (fun x => x) n xs i).
Proof. exact vpct_change_f64. Qed.

(* clip at binary64, bounds in order (not upper < lower) or NaN: idempotent, NaN kept, result inside the non-NaN bounds *)
Theorem C13_clip_binary64 :
  forall lower upper x : float,
  (is_nan lower = false -> is_nan upper = false -> (upper <? lower)%float = false) ->
  let c := clip_elem d_f64 (fun v => v) PrimFloat.ltb lower upper in
  c (c x) = c x /\ is_nan (c x) = is_nan x /\
  (is_nan x = false ->
   (is_nan lower = false -> (c x <? lower)%float = false) /\
   (is_nan upper = false -> (upper <? c x)%float = false)).
Proof. exact clip_f64. Qed.

Theorem C13_vabs_binary64 :
  forall xs : list float,
  vabs d_f64 abs xs = Ok (map abs xs) /\
  forall i x, nth_error xs i = Some x ->
    exists y, nth_error (map abs xs) i = Some y /\ is_nan y = is_nan x.
Proof. exact vabs_f64. Qed.

Theorem C13_binary64_instance_is_the_run_instance :
  f64_fops = Tevec.Run.RunC13.f64ops /\ d_f64 = Tevec.Run.RunC13.dict Tevec.Run.RunC13.pF.
Proof. split; [exact f64_fops_is_run_ops|exact d_f64_is_run_dict]. Qed.

(* ---- non-vacuity of the audit theorems ---- *)
Example C13_ex_audit_lags :
  in_i32 i32_min /\ in_i32 i32_max /\ in_i32 0 /\
  shift i32_min 9 [1; 2] = Ok [9; 9] /\ vdiff dict_int Z.sub i32_max (Some 7) [4; 1] = Ok [7; 7] /\
  vshift dict_int 1 None ([] : list Z) = Panic OtherPanic /\ vdiff dict_int Z.sub 0 None [4] = Panic OtherPanic.
Proof. unfold in_i32, i32_min, i32_max. vm_compute. repeat split; discriminate. Qed.

(* head unmasked with no default on an integer type: returns; head masked: none()'s panic; bfill symmetric *)
Example C13_ex_audit_fills :
  let m := fun v : Z => v <? 2 in
  ffill_mask dict_int m None [3; 1; 5; 0] = Ok [3; 3; 5; 5] /\
  ffill_mask dict_int m None [1; 3] = Panic OtherPanic /\
  bfill_mask dict_int m None [1; 3; 0; 4] = Ok [3; 3; 4; 4] /\
  bfill_mask dict_int m None [3; 1] = Panic OtherPanic /\
  (forall x, hd_error [3; 1; 5; 0] = Some x -> m x = false) /\
  (forall x, hd_error (rev [1; 3; 0; 4]) = Some x -> m x = false) /\
  let d := dict_opt (fun _ : Z => false) in
  ffill d (Some None) [None; Some 1; None] = Ok [None; Some 1; Some 1] /\
  fill d (Some 9) [None; Some 1] = [Some 9; Some 1] /\ is_none d (Some 9) = false.
Proof.
  cbv zeta. repeat split; try (vm_compute; reflexivity).
  - intros x H. cbn in H. injection H as <-. reflexivity.
  - intros x H. cbn in H. injection H as <-. reflexivity.
Qed.

Example C13_ex_audit_clip :
  let d := dict_opt (fun _ : Z => false) in
  vclip d Z.ltb (Some 5) (Some 1) [Some 0; None; Some 3; Some 7] = Ok [Some 5; None; Some 5; Some 1] /\
  (forall a, Z.ltb a a = false) /\ (forall a b c, (a <? b) = true -> (a <? c) = true \/ (c <? b) = true) /\
  (1 <? 5) = true.
Proof. cbv zeta. split; [vm_compute; reflexivity|]. split; [exact Z.ltb_irrefl|]. split; [exact Zltb_cotrans|reflexivity]. Qed.

Example C13_ex_audit_binary64 :
  vpct_change d_f64 f64_fops (fun x => x) 1 [1; 2; nan; 0; 4]%float = Ok [nan; 1; nan; nan; nan]%float /\
  vclip d_f64 PrimFloat.ltb 1%float 3%float [0; nan; 2; 7]%float = Ok [1; nan; 2; 3]%float /\
  (3 <? 1)%float = false /\ is_nan 1%float = false.
Proof. vm_compute. repeat split. Qed.


Print Assumptions C13_shift_positional.
Print Assumptions C13_vshift_positional.
Print Assumptions C13_shift_moves_by_n.
Print Assumptions C13_shift_fills_vacated.
Print Assumptions C13_vshift_int_none_panics.
Print Assumptions C13_vdiff_positional.
Print Assumptions C13_vdiff_integer_formula.
Print Assumptions C13_vdiff_fill_elsewhere.
Print Assumptions C13_vdiff_null_operand.
Print Assumptions C13_vpct_change_positional.
Print Assumptions C13_pct_formula_defined.
Print Assumptions C13_pct_formula_null.
Print Assumptions C13_ffill_mask_positional.
Print Assumptions C13_bfill_mask_positional.
Print Assumptions C13_ffill_positional.
Print Assumptions C13_bfill_positional.
Print Assumptions C13_nearest_earlier.
Print Assumptions C13_no_earlier.
Print Assumptions C13_nearest_later.
Print Assumptions C13_no_later.
Print Assumptions C13_fill_nothing_selected.
Print Assumptions C13_fill_directional_length.
Print Assumptions C13_fill_mask_positional.
Print Assumptions C13_fill_touches_only_nulls.
Print Assumptions C13_fill_length.
Print Assumptions C13_vclip_positional.
Print Assumptions C13_unwrap_law_instances.
Print Assumptions C13_clip_preserves_nullness.
Print Assumptions C13_clip_idempotent.
Print Assumptions C13_clip_contained.
Print Assumptions C13_clip_integer.
Print Assumptions C13_vclip_length.
Print Assumptions C13_abs_positional.
Print Assumptions C13_vabs_elementwise.
Print Assumptions C13_vabs_preserves_nullness.
Print Assumptions C13_vabs_length.
Print Assumptions C13_lag_unsigned_abs.
Print Assumptions C13_lag_i32_min.
Print Assumptions C13_shift_zero_identity.
Print Assumptions C13_shift_beyond_length.
Print Assumptions C13_vshift_returns_iff_fill_exists.
Print Assumptions C13_vdiff_panics_iff_fill_missing.
Print Assumptions C13_lengths_unconditional.
Print Assumptions C13_vdiff_corner_lags.
Print Assumptions C13_vpct_change_corner_lags.
Print Assumptions C13_ffill_head_unmasked.
Print Assumptions C13_bfill_tail_unmasked.
Print Assumptions C13_fill_directional_panics_iff.
Print Assumptions C13_fill_directional_remaining_nulls.
Print Assumptions C13_fill_result_nulls.
Print Assumptions C13_fill_idempotent_and_identity.
Print Assumptions C13_clip_null_bounds.
Print Assumptions C13_clip_reversed_bounds.
Print Assumptions C13_clip_reversed_bounds_refute_idempotence.
Print Assumptions C13_clip_unordered_bounds.
Print Assumptions C13_vdiff_real.
Print Assumptions C13_vpct_change_real.
Print Assumptions C13_clip_real.
Print Assumptions C13_vdiff_null_operand_binary64.
Print Assumptions C13_vpct_change_binary64.
Print Assumptions C13_clip_binary64.
Print Assumptions C13_vabs_binary64.
Print Assumptions C13_binary64_instance_is_the_run_instance.
