(* Props/C07.v — property C07: results are independent of input backend, output container and
   out-buffer path; each container's accessors describe one logical sequence.  Axiom-free.       *)
From Coq Require Import ZArith.
From Tevec Require Import Base.Prelude Base.Num Model.Driver Proofs.Driver Model.Features
     Proofs.Generic Model.Containers Proofs.Containers Model.PolarsOut Proofs.PolarsOut.

(* ---- VecDeque (ring buffer) in any rotation: wrapped or contiguous ---------------------------- *)
Theorem C07_ring_length : forall (A : Type) (r : ring A), ring_wf r -> length (ring_to_list r) = rlen r.
Proof. exact @ring_to_list_length. Qed.

Theorem C07_ring_get : forall (A : Type) (r : ring A), ring_wf r ->
  forall i, nth_error (ring_to_list r) i = ring_get r i.
Proof. exact @ring_get_to_list. Qed.

Theorem C07_ring_try_as_slice : forall (A : Type) (r : ring A), ring_wf r ->
  forall l, ring_try_as_slice r = Some l -> l = ring_to_list r.
Proof. exact @ring_try_as_slice_sound. Qed.

(* ---- ndarray views with any stride (positive, negative) and offset ------------------------------ *)
Theorem C07_strided_length : forall (A : Type) (s : strided A), strided_wf s ->
  length (strided_to_list s) = slen s.
Proof. exact @strided_to_list_length. Qed.

Theorem C07_strided_get : forall (A : Type) (s : strided A), strided_wf s ->
  forall i, nth_error (strided_to_list s) i = strided_get s i.
Proof. exact @strided_to_list_nth. Qed.

Theorem C07_strided_try_as_slice : forall (A : Type) (s : strided A), strided_wf s ->
  forall l, strided_try_as_slice s = Some l -> l = strided_to_list s.
Proof. exact @strided_try_as_slice_sound. Qed.

(* ---- Polars chunked arrays under any chunking ------------------------------------------------------ *)
Theorem C07_chunked_get : forall (A : Type) (c : chunked A) (i : nat),
  chunked_get c i = nth_error (chunked_to_list c) i.
Proof. exact @chunked_get_spec. Qed.

Theorem C07_chunked_len : forall (A : Type) (c : chunked A), chunked_len c = length (chunked_to_list c).
Proof. exact @chunked_len_spec. Qed.

Theorem C07_chunking_irrelevant : forall (A : Type) (c1 c2 : chunked A) (i : nat),
  chunked_to_list c1 = chunked_to_list c2 -> chunked_get c1 i = chunked_get c2 i.
Proof. exact @chunked_rechunk. Qed.

(* ---- the checked accessor of view.rs ------------------------------------------------------------------ *)
Theorem C07_checked_get : forall (A : Type) (l : list A) (i : nat),
  checked_get (length l) (nth_error l) i
  = match nth_error l i with Some x => Ok x | None => Panic OtherPanic end.
Proof. exact @checked_get_spec. Qed.

(* ---- returned path = caller-buffer path = fast path ------------------------------------------------- *)
(* every rolling feature (add-emit-remove) gives the same, complete result through the iterator body
   (default backends, returned) and the two-phase index body (caller buffer; Vec / ndarray fast path) *)
Theorem C07_out_path :
  forall (T St O : Type) (F : feat T St O) (w : nat) (xs : list T),
    1 <= w -> ts_run F true w xs = ts_run F false w xs.
Proof. intros T St O F w xs Hw. rewrite !ts_run_iter by exact Hw. reflexivity. Qed.

Theorem C07_total :
  forall (T St O : Type) (F : feat T St O) (w : nat) (xs : list T) (body : bool),
    1 <= w -> exists out, ts_run F body w xs = Done out /\ length out = length xs.
Proof. exact @ts_run_total. Qed.

(* the slice forms pass the same windows on both paths *)
Theorem C07_out_path_custom :
  forall (T St O : Type) (f : St -> list T -> St * O) (s0 : St) (xs : list T) (w : nat),
    1 <= w -> rolling_custom_to w f s0 xs = rolling_custom_default w f s0 xs.
Proof. intros. rewrite rolling_custom_to_eq, rolling_custom_default_eq by assumption. reflexivity. Qed.

(* ---- a Polars array as OUTPUT container (Model/PolarsOut.v; polars.rs after the repair) ----------------
   results stored by index go through a staging buffer that starts all-null and is collected by
   assume_init; this is the caller-buffer path of every backend and the returned path of the Vec / ndarray
   fast paths with O = ChunkedArray (which panicked with `unimplemented!` before the repair)              *)

(* any stores, in any order, any number of times: slot by slot the staged array is `join` of the generic
   MaybeUninit buffer of Model/Driver.v — equal to it when that is fully initialised, null (never
   garbage) where it is not *)
Theorem C07_polars_stage_refines :
  forall (St X A : Type) (g : St -> X -> St * option A) (s : St) (calls : list (nat * X)) (n : nat),
    finish_polars (pexec g s calls (pstage_uninit n))
    = match finish (exec g s calls (repeat None n)) with
      | Done out => Done out
      | Uninit buf => Done (map join buf)
      | Panicked k => Panicked k
      end.
Proof. exact @polars_stage_refines. Qed.

Theorem C07_polars_stage_total :
  forall (St X A : Type) (g : St -> X -> St * option A) (s : St) (calls : list (nat * X)) (n : nat),
    exists out, finish_polars (pexec g s calls (pstage_uninit n)) = Done out /\ length out = n.
Proof. exact @polars_stage_total. Qed.

(* uset / read-back of one slot *)
Theorem C07_polars_stage_slot :
  forall (A : Type) (i : nat) (v : option A) (b : pstage A) (j : nat),
    nth_error (pstage_uset i v b) j = if (j =? i) && (i <? length b) then Some v else nth_error b j.
Proof. exact @pstage_uset_nth. Qed.

(* the five index bodies, every window (0 included), every callback, every series *)
Theorem C07_polars_out_any_window :
  forall (T St A : Type) (w : nat) (f : St -> option T * T -> St * option A) (s0 : St) (xs : list T),
    rolling_apply_to_polars w f s0 xs = lift_uninit (rolling_apply_to w f s0 xs).
Proof. exact @rolling_apply_to_polars_spec. Qed.

Theorem C07_polars_out_rolling_apply :
  forall (T St A : Type) (w : nat) (f : St -> option T * T -> St * option A) (s0 : St) (xs : list T),
    1 <= w -> rolling_apply_to_polars w f s0 xs = rolling_apply_to w f s0 xs.
Proof. exact @rolling_apply_to_polars_eq. Qed.

Theorem C07_polars_out_rolling_apply_idx :
  forall (T St A : Type) (w : nat) (f : St -> option nat * nat * T -> St * option A) (s0 : St) (xs : list T),
    1 <= w -> rolling_apply_idx_to_polars w f s0 xs = rolling_apply_idx_to w f s0 xs.
Proof. exact @rolling_apply_idx_to_polars_eq. Qed.

Theorem C07_polars_out_rolling_custom :
  forall (T St A : Type) (w : nat) (f : St -> list T -> St * option A) (s0 : St) (xs : list T),
    1 <= w -> rolling_custom_to_polars w f s0 xs = collected_polars (rolling_custom_default w f s0 xs).
Proof. exact @rolling_custom_to_polars_eq. Qed.

Theorem C07_polars_out_rolling2_apply :
  forall (T1 T2 St A : Type) (w : nat) (f : St -> option (T1 * T2) * (T1 * T2) -> St * option A) (s0 : St)
         (xs : list T1) (ys : list T2),
    1 <= w -> rolling2_apply_to_polars w f s0 xs ys = rolling2_apply_to w f s0 xs ys.
Proof. exact @rolling2_apply_to_polars_eq. Qed.

Theorem C07_polars_out_rolling2_apply_idx :
  forall (T1 T2 St A : Type) (w : nat) (f : St -> option nat * nat * (T1 * T2) -> St * option A) (s0 : St)
         (xs : list T1) (ys : list T2),
    1 <= w -> rolling2_apply_idx_to_polars w f s0 xs ys = rolling2_apply_idx_to w f s0 xs ys.
Proof. exact @rolling2_apply_idx_to_polars_eq. Qed.

(* every rolling feature: staged into a Polars array = either body collected into a Polars array *)
Theorem C07_polars_out_feature :
  forall (T St A : Type) (F : feat T St (option A)) (w : nat) (xs : list T) (body : bool),
    1 <= w -> ts_run_polars F w xs = collected_polars (ts_run F body w xs).
Proof. exact @ts_run_polars_eq. Qed.

(* collecting into one chunk does not change the logical sequence *)
Theorem C07_polars_collect :
  forall (A : Type) (l : list (option A)), chunked_to_list (chunked_collect l) = l.
Proof. exact @chunked_single. Qed.

(* non-vacuity of the Polars-output theorems: a running count of valid elements with window 2 over a series
   with a null, staged out of a two-phase body; the window-index and slice forms; a window of 0 *)
Example C07_example_polars_out :
  let F := {| f_init := 0; f_pre := fun s (v : option nat) => match v with Some _ => S s | None => s end;
              f_emit := fun s => if 2 <=? s then Some s else None;
              f_post := fun s rm => match rm with Some (Some _) => s - 1 | _ => s end |} in
  ts_run_polars F 2 [Some 5; None; Some 7; Some 8; Some 9] = Done [None; None; None; Some 2; Some 2]
  /\ ts_run F false 2 [Some 5; None; Some 7; Some 8; Some 9] = Done [None; None; None; Some 2; Some 2].
Proof. split; vm_compute; reflexivity. Qed.

Example C07_example_polars_out_idx_custom :
  rolling_apply_idx_to_polars 2 (fun (s : unit) a => (s, Some (fst (fst a), snd a))) tt [10; 20; 30]
    = Done [Some (None, 10); Some (Some 0, 20); Some (Some 1, 30)]
  /\ rolling_custom_to_polars 2 (fun (s : unit) (l : list nat) => (s, Some l)) tt [10; 20; 30]
    = Done [Some [10]; Some [10; 20]; Some [20; 30]]
  /\ rolling2_apply_to_polars 2 (fun (s : unit) a => (s, Some (fst a))) tt [1; 2; 3] [4; 5; 6]
    = Done [Some None; Some (Some (1, 4)); Some (Some (2, 5))]
  /\ rolling2_apply_idx_to_polars 1 (fun (s : unit) a => (s, Some (snd a))) tt [1; 2] [4; 5]
    = Done [Some (1, 4); Some (2, 5)]
  /\ rolling_apply_to_polars 0 (fun (s : unit) (a : option nat * nat) => (s, Some (snd a))) tt [1]
    = Panicked AssertFail.
Proof. repeat split; vm_compute; reflexivity. Qed.

(* a store sequence that leaves a slot unwritten and writes another twice: null there, last write wins *)
Example C07_example_polars_stage :
  finish_polars (pexec (fun (s : unit) (a : nat) => (s, Some a)) tt [(2, 7); (0, 8); (2, 9)] (pstage_uninit 3))
    = Done [Some 8; None; Some 9]
  /\ finish (exec (fun (s : unit) (a : nat) => (s, Some a)) tt [(2, 7); (0, 8); (2, 9)] (repeat None 3))
    = Uninit [Some (Some 8); None; Some (Some 9)].
Proof. split; vm_compute; reflexivity. Qed.

(* non-vacuity: a wrapped ring and a reversed view *)
Example C07_example_ring :
  let r := {| rbuf := [3; 4; 1; 2]; rhead := 2; rlen := 4 |} in
  ring_wf r /\ ring_to_list r = [1; 2; 3; 4] /\ ring_try_as_slice r = None.
Proof. cbv zeta. unfold ring_wf, rcap. cbn. repeat split; lia. Qed.

Example C07_example_reversed_view :
  let s := {| sbase := [1; 2; 3; 4]; soff := 3; sstep := (-1)%Z; slen := 4 |} in
  strided_to_list s = [4; 3; 2; 1] /\ strided_try_as_slice s = None.
Proof. split; reflexivity. Qed.


(* ==== mutable accessors (Vec1Mut::get_mut / uget_mut / try_as_slice_mut) ============================================ *)
(* a write at logical index i is a write at index i of the logical sequence; an out-of-range index is rejected *)
Theorem C07_vec_set : forall (A : Type) (l : list A) (i : nat) (v : A),
  checked_set (length l) (list_uset l) i v = if i <? length l then Some (update l i v) else None.
Proof. exact @checked_set_list. Qed.

Theorem C07_ring_uset : forall (A : Type) (r : ring A), ring_wf r -> forall (i : nat) (v : A),
  option_map (@ring_to_list A) (ring_uset r i v) = if i <? rlen r then Some (update (ring_to_list r) i v) else None.
Proof. exact @ring_uset_to_list. Qed.

Theorem C07_ring_get_mut : forall (A : Type) (r : ring A), ring_wf r -> forall (i : nat) (v : A),
  option_map (@ring_to_list A) (checked_set (rlen r) (ring_uset r) i v)
  = if i <? rlen r then Some (update (ring_to_list r) i v) else None.
Proof. exact @ring_checked_set_to_list. Qed.

Theorem C07_ring_uset_wf : forall (A : Type) (r : ring A), ring_wf r -> forall (i : nat) (v : A) (r' : ring A),
  ring_uset r i v = Some r' -> ring_wf r'.
Proof. exact @ring_uset_wf. Qed.

Theorem C07_ring_uset_layout : forall (A : Type) (r : ring A) (i : nat) (v : A) (r' : ring A),
  ring_uset r i v = Some r' -> rhead r' = rhead r /\ rlen r' = rlen r /\ rcap r' = rcap r.
Proof. exact @ring_uset_layout. Qed.

Theorem C07_ring_get_after_set : forall (A : Type) (r r' : ring A) (i : nat) (v : A) (j : nat),
  ring_wf r -> ring_uset r i v = Some r' -> ring_get r' j = if j =? i then Some v else ring_get r j.
Proof. exact @ring_get_uset. Qed.

(* try_as_slice_mut is offered exactly when try_as_slice is; a write through it at index k IS the write at
   logical index k (same resulting buffer), hence the update of the logical sequence at k *)
Theorem C07_ring_slice_mut_offered : forall (A : Type) (r : ring A), ring_wf r -> forall (k : nat) (v : A),
  ring_slice_mut_set r k v = None <-> ring_try_as_slice r = None.
Proof. exact @ring_slice_mut_offered. Qed.

Theorem C07_ring_slice_mut_is_set : forall (A : Type) (r : ring A), ring_wf r ->
  forall (k : nat) (v : A) (w : option (ring A)), ring_slice_mut_set r k v = Some w -> w = ring_uset r k v.
Proof. exact @ring_slice_mut_is_uset. Qed.

Theorem C07_ring_slice_mut : forall (A : Type) (r : ring A), ring_wf r ->
  forall (k : nat) (v : A) (w : option (ring A)), ring_slice_mut_set r k v = Some w ->
  option_map (@ring_to_list A) w = if k <? rlen r then Some (update (ring_to_list r) k v) else None.
Proof. exact @ring_slice_mut_to_list. Qed.

Theorem C07_ring_slice_after_set : forall (A : Type) (r r' : ring A) (i : nat) (v : A),
  ring_wf r -> ring_uset r i v = Some r' ->
  ring_try_as_slice r' = option_map (fun l => update l i v) (ring_try_as_slice r).
Proof. exact @ring_try_as_slice_uset. Qed.

(* ndarray mutable views: every non-zero stride (a mutable view never aliases two logical positions) *)
Theorem C07_strided_uset : forall (A : Type) (s : strided A), strided_wf s -> (sstep s <> 0)%Z ->
  forall (i : nat) (v : A),
  option_map (@strided_to_list A) (strided_uset s i v)
  = if i <? slen s then Some (update (strided_to_list s) i v) else None.
Proof. exact @strided_uset_to_list. Qed.

Theorem C07_strided_get_mut : forall (A : Type) (s : strided A), strided_wf s -> (sstep s <> 0)%Z ->
  forall (i : nat) (v : A),
  option_map (@strided_to_list A) (checked_set (slen s) (strided_uset s) i v)
  = if i <? slen s then Some (update (strided_to_list s) i v) else None.
Proof. exact @strided_checked_set_to_list. Qed.

Theorem C07_strided_uset_wf : forall (A : Type) (s : strided A), strided_wf s -> forall (i : nat) (v : A) (s' : strided A),
  strided_uset s i v = Some s' -> strided_wf s'.
Proof. exact @strided_uset_wf. Qed.

Theorem C07_strided_get_after_set : forall (A : Type) (s s' : strided A) (i : nat) (v : A) (j : nat),
  strided_wf s -> (sstep s <> 0)%Z -> strided_uset s i v = Some s' ->
  strided_get s' j = if j =? i then Some v else strided_get s j.
Proof. exact @strided_get_uset. Qed.

Theorem C07_strided_slice_mut_offered : forall (A : Type) (s : strided A) (k : nat) (v : A),
  strided_slice_mut_set s k v = None <-> strided_try_as_slice s = None.
Proof. exact @strided_slice_mut_offered. Qed.

Theorem C07_strided_slice_mut_is_set : forall (A : Type) (s : strided A) (k : nat) (v : A) (w : option (strided A)),
  strided_slice_mut_set s k v = Some w -> w = strided_uset s k v.
Proof. exact @strided_slice_mut_is_uset. Qed.

Theorem C07_strided_slice_mut : forall (A : Type) (s : strided A), strided_wf s -> (sstep s <> 0)%Z ->
  forall (k : nat) (v : A) (w : option (strided A)), strided_slice_mut_set s k v = Some w ->
  option_map (@strided_to_list A) w = if k <? slen s then Some (update (strided_to_list s) k v) else None.
Proof. exact @strided_slice_mut_to_list. Qed.

(* a reversed (or any negative-stride) view of two or more elements offers no mutable slice *)
Theorem C07_strided_reversed_no_slice_mut : forall (A : Type) (s : strided A) (k : nat) (v : A),
  (sstep s < 0)%Z -> 2 <= slen s -> strided_slice_mut_set s k v = None.
Proof. exact @strided_reversed_no_slice_mut. Qed.

(* the defect class repaired for try_as_slice (memory order) would have been a defect here too: witness *)
Theorem C07_memory_order_mut_refuted :
  exists (s : strided nat) (w : strided nat), strided_wf s /\ (sstep s <> 0)%Z /\
    strided_memory_order_mut_set s 0 9 = Some (Some w) /\
    strided_to_list s = [4; 3; 2; 1] /\ strided_to_list w = [4; 3; 2; 9] /\
    update (strided_to_list s) 0 9 = [9; 3; 2; 1].
Proof. exact strided_memory_order_mut_refuted. Qed.

(* the list laws the statements above are phrased with *)
Theorem C07_update_nth : forall (A : Type) (l : list A) (i : nat) (v : A) (j : nat),
  nth_error (update l i v) j = if andb (j =? i) (i <? length l) then Some v else nth_error l j.
Proof. exact @nth_error_update. Qed.

Theorem C07_update_length : forall (A : Type) (l : list A) (i : nat) (v : A), length (update l i v) = length l.
Proof. exact @update_length. Qed.

Theorem C07_update_same : forall (A : Type) (l : list A) (i : nat) (x : A), nth_error l i = Some x -> update l i x = l.
Proof. exact @update_same. Qed.

Theorem C07_update_twice : forall (A : Type) (l : list A) (i : nat) (v w : A), update (update l i v) i w = update l i w.
Proof. exact @update_update. Qed.

Theorem C07_update_comm : forall (A : Type) (l : list A) (i j : nat) (v w : A), i <> j ->
  update (update l i v) j w = update (update l j w) i v.
Proof. exact @update_comm. Qed.

(* ==== valid get (vget / uvget) and the element-wise iterators (to_opt_iter / iter_cast / opt_iter_cast) ============= *)
(* vget c i = match get c i with Some x => if is_none x then None else Some (unwrap x) | None => None end *)
Theorem C07_vget : forall (T I : Type) (N : IsNone T I) (l : list T) (i : nat),
  valid_get to_opt (length l) (nth_error l) i
  = match nth_error l i with Some x => if is_none x then None else Some (unwrap x) | None => None end.
Proof. intros. apply valid_get_spec. Qed.

Theorem C07_uvget : forall (T I : Type) (to_opt : T -> option I) (l : list T) (i : nat),
  i < length l -> uvalid_get to_opt (nth_error l) i = valid_get to_opt (length l) (nth_error l) i.
Proof. exact @uvalid_get_spec. Qed.

Theorem C07_ring_vget : forall (T I : Type) (to_opt : T -> option I) (r : ring T) (i : nat), ring_wf r ->
  valid_get to_opt (rlen r) (ring_get r) i
  = match nth_error (ring_to_list r) i with Some x => to_opt x | None => None end.
Proof. exact @ring_valid_get. Qed.

Theorem C07_strided_vget : forall (T I : Type) (to_opt : T -> option I) (s : strided T) (i : nat), strided_wf s ->
  valid_get to_opt (slen s) (strided_get s) i
  = match nth_error (strided_to_list s) i with Some x => to_opt x | None => None end.
Proof. exact @strided_valid_get. Qed.

Theorem C07_chunked_vget : forall (T I : Type) (to_opt : option T -> option I) (c : chunked T) (i : nat),
  valid_get to_opt (chunked_len c) (chunked_get c) i
  = match nth_error (chunked_to_list c) i with Some x => to_opt x | None => None end.
Proof. exact @chunked_valid_get. Qed.

(* position i of to_opt_iter is vget(i); opt_iter_cast is to_opt_iter followed by the cast; iter_cast is get then cast *)
Theorem C07_to_opt_iter : forall (T I : Type) (to_opt : T -> option I) (l : list T) (i : nat),
  nth_error (to_opt_iter_m to_opt l) i
  = if i <? length l then Some (valid_get to_opt (length l) (nth_error l) i) else None.
Proof. exact @to_opt_iter_nth. Qed.

Theorem C07_iter_cast : forall (T U : Type) (cast : T -> U) (l : list T) (i : nat),
  nth_error (iter_cast_m cast l) i = option_map cast (nth_error l i).
Proof. exact @iter_cast_nth. Qed.

Theorem C07_opt_iter_cast : forall (T I U : Type) (to_opt : T -> option I) (cast : I -> U) (l : list T) (i : nat),
  nth_error (opt_iter_cast_m to_opt cast l) i
  = if i <? length l then Some (option_map cast (valid_get to_opt (length l) (nth_error l) i)) else None.
Proof. exact @opt_iter_cast_nth. Qed.

Theorem C07_elementwise_lengths : forall (T I U V : Type) (to_opt : T -> option I) (cast : T -> U) (cast' : I -> V) (l : list T),
  length (to_opt_iter_m to_opt l) = length l /\ length (iter_cast_m cast l) = length l
  /\ length (opt_iter_cast_m to_opt cast' l) = length l.
Proof. exact @elementwise_lengths. Qed.

(* a write is seen by the valid get *)
Theorem C07_vget_after_set : forall (T I : Type) (to_opt : T -> option I) (l : list T) (i : nat) (v : T) (j : nat),
  i < length l ->
  valid_get to_opt (length (update l i v)) (nth_error (update l i v)) j
  = if j =? i then to_opt v else valid_get to_opt (length l) (nth_error l) j.
Proof. exact @valid_get_update. Qed.

(* non-vacuity of the new implications *)
Example C07_example_ring_set :
  let r := {| rbuf := [3; 4; 1; 2]; rhead := 2; rlen := 4 |} in
  ring_wf r /\ option_map (@ring_to_list nat) (ring_uset r 3 9) = Some [1; 2; 3; 9]
  /\ ring_slice_mut_set r 0 9 = None /\ ring_uset r 4 9 = None.
Proof. cbv zeta. unfold ring_wf, rcap. cbn. repeat split; lia. Qed.

Example C07_example_ring_slice_mut :
  let r := {| rbuf := [0; 1; 2; 3]; rhead := 1; rlen := 3 |} in
  ring_wf r /\ exists w, ring_slice_mut_set r 2 9 = Some (Some w) /\ ring_to_list w = [1; 2; 9]
  /\ ring_try_as_slice r = Some [1; 2; 3].
Proof. cbv zeta. unfold ring_wf, rcap. cbn. split; [lia|]. eexists. repeat split. Qed.

Example C07_example_reversed_set :
  let s := {| sbase := [1; 2; 3; 4]; soff := 3; sstep := (-1)%Z; slen := 4 |} in
  strided_wf s /\ (sstep s <> 0)%Z /\ (sstep s < 0)%Z /\ 2 <= slen s
  /\ option_map (@strided_to_list nat) (strided_uset s 0 9) = Some [9; 3; 2; 1]
  /\ strided_slice_mut_set s 0 9 = None.
Proof.
  cbv zeta. split; [|cbn; repeat split; lia].
  intros i Hi. unfold spos. cbn [soff sstep sbase slen length] in *. lia.
Qed.

Example C07_example_standard_slice_mut :
  let s := {| sbase := [1; 2; 3; 4]; soff := 1; sstep := 1%Z; slen := 3 |} in
  exists w, strided_slice_mut_set s 1 9 = Some (Some w) /\ strided_to_list w = [2; 9; 4]
  /\ strided_uset s 1 9 = Some w.
Proof. cbv zeta. eexists. repeat split. Qed.

Example C07_example_vget :
  valid_get (fun x : nat => if x =? 0 then None else Some x) 3 (nth_error [5; 0; 7]) 0 = Some 5
  /\ valid_get (fun x : nat => if x =? 0 then None else Some x) 3 (nth_error [5; 0; 7]) 1 = None
  /\ valid_get (fun x : nat => if x =? 0 then None else Some x) 3 (nth_error [5; 0; 7]) 3 = None
  /\ update [5; 0; 7] 1 4 = [5; 4; 7] /\ nth_error [5; 0; 7] 2 = Some 7.
Proof. repeat split. Qed.


(* ====================================================================================================================
   AUDIT YB (notes/C07.md, matrix): the clauses of the statement that had no theorem.  Proofs/Audit07.v.  Axiom-free.
   ==================================================================================================================== *)
From Coq Require Import Permutation.
From Tevec Require Import Model.Create Model.Collect Proofs.Audit07.

(* ---- VecDeque: hypothesis weakened.  `ring_wf` (head < cap) excludes the deque WITHOUT allocation (cap 0) - the
   len = 0 deques of the correspondence run; the accessor laws hold under `ring_wf0` (len <= cap, head <= cap)      *)
Theorem C07_ring_wf_weakened : forall (A : Type) (r : ring A), ring_wf r -> ring_wf0 r.
Proof. exact @ring_wf_wf0. Qed.
Theorem C07_ring_unallocated : forall A : Type,
  ring_wf0 {| rbuf := @nil A; rhead := 0; rlen := 0 |} /\ ~ ring_wf {| rbuf := @nil A; rhead := 0; rlen := 0 |}.
Proof. exact @ring_empty_wf0. Qed.
Theorem C07_ring_length_any : forall (A : Type) (r : ring A), ring_wf0 r -> length (ring_to_list r) = rlen r.
Proof. exact @ring0_to_list_length. Qed.
Theorem C07_ring_get_any : forall (A : Type) (r : ring A), ring_wf0 r ->
  forall i, nth_error (ring_to_list r) i = ring_get r i.
Proof. exact @ring0_get_to_list. Qed.
Theorem C07_ring_try_as_slice_any : forall (A : Type) (r : ring A), ring_wf0 r ->
  forall l, ring_try_as_slice r = Some l -> l = ring_to_list r.
Proof. exact @ring0_try_as_slice_sound. Qed.
(* checked get over the deque's OWN uget (C07_checked_get is stated over a list) *)
Theorem C07_ring_checked_get : forall (A : Type) (r : ring A), ring_wf0 r -> forall i,
  checked_get (rlen r) (ring_get r) i
  = match nth_error (ring_to_list r) i with Some x => Ok x | None => Panic OtherPanic end.
Proof. exact @ring_checked_get. Qed.
(* titer(): VecDeque::iter() walks the two halves of as_slices(); their lengths; their concatenation *)
Theorem C07_ring_titer : forall (A : Type) (r : ring A), ring_wf0 r -> ring_iter r = ring_to_list r.
Proof. exact @ring_iter_spec. Qed.
Theorem C07_ring_as_slices_lengths : forall (A : Type) (r : ring A), ring_wf0 r ->
  length (fst (ring_slices r)) = Nat.min (rlen r) (rcap r - rhead r) /\
  length (snd (ring_slices r)) = rlen r - (rcap r - rhead r).
Proof. exact @ring_slices_lengths. Qed.
(* iteration in the other direction: item i from the back is logical position len - 1 - i *)
Theorem C07_ring_rev_titer : forall (A : Type) (r : ring A), ring_wf0 r -> forall i,
  nth_error (rev (ring_to_list r)) i = if i <? rlen r then ring_get r (rlen r - 1 - i) else None.
Proof. exact @ring_rev_nth. Qed.
(* "the contiguous-slice view WHEN OFFERED": offered exactly when the ring has not wrapped, and then complete *)
Theorem C07_ring_try_as_slice_offered_iff : forall (A : Type) (r : ring A), ring_wf0 r ->
  (ring_try_as_slice r = None <-> rcap r < rhead r + rlen r).
Proof. exact @ring_try_as_slice_offered_iff. Qed.
Theorem C07_ring_try_as_slice_complete : forall (A : Type) (r : ring A), ring_wf0 r ->
  rhead r + rlen r <= rcap r -> ring_try_as_slice r = Some (ring_to_list r).
Proof. exact @ring_try_as_slice_complete. Qed.
(* sub-slicing: slice(a, b) = VecDeque::range(a..b) *)
Theorem C07_ring_slice : forall (A : Type) (r : ring A), ring_wf0 r -> forall a b i,
  nth_error (ring_range r a b) i = if i <? b - a then ring_get r (a + i) else None.
Proof. exact @ring_range_nth. Qed.
Theorem C07_ring_slice_length : forall (A : Type) (r : ring A), ring_wf0 r -> forall a b,
  a <= b -> b <= rlen r -> length (ring_range r a b) = b - a.
Proof. exact @ring_range_length. Qed.
Theorem C07_ring_slice_all : forall (A : Type) (r : ring A), ring_wf0 r -> ring_range r 0 (rlen r) = ring_to_list r.
Proof. exact @ring_range_all. Qed.

(* ---- ndarray views ------------------------------------------------------------------------------------------------ *)
(* sub-slicing a view of ANY stride (0 and negative included): same memory, offset moved by a strides *)
Theorem C07_strided_slice : forall (A : Type) (s : strided A), strided_wf s -> forall a b,
  a <= b -> b <= slen s ->
  strided_wf (strided_slice s a b) /\ slen (strided_slice s a b) = b - a /\
  strided_to_list (strided_slice s a b) = seg a b (strided_to_list s).
Proof.
  intros A s Hwf a b Hab Hb. split; [apply strided_slice_wf; assumption|].
  split; [reflexivity|apply strided_slice_to_list; assumption].
Qed.
Theorem C07_strided_slice_get : forall (A : Type) (s : strided A), strided_wf s -> forall a b i,
  a <= b -> b <= slen s ->
  strided_get (strided_slice s a b) i = if i <? b - a then strided_get s (a + i) else None.
Proof. exact @strided_slice_get. Qed.
(* the reversed view (s![..;-1]) IS the reversed logical sequence; reversing twice gives the view back *)
Theorem C07_strided_reversed_view : forall (A : Type) (s : strided A), strided_wf s ->
  strided_wf (strided_rev s) /\ strided_to_list (strided_rev s) = rev (strided_to_list s).
Proof. intros A s Hwf. split; [apply strided_rev_wf|apply strided_rev_to_list]; exact Hwf. Qed.
Theorem C07_strided_reversed_twice : forall (A : Type) (s : strided A), strided_wf s -> 1 <= slen s ->
  strided_rev (strided_rev s) = s.
Proof. exact @strided_rev_involutive. Qed.
Theorem C07_strided_rev_titer : forall (A : Type) (s : strided A), strided_wf s -> forall i,
  nth_error (rev (strided_to_list s)) i = if i <? slen s then strided_get s (slen s - 1 - i) else None.
Proof. exact @strided_rev_iter_nth. Qed.
(* the stepped view (s![..;k], k >= 1): element i is element i * k; ceil(len / k) elements *)
Theorem C07_strided_stepped_view : forall (A : Type) (s : strided A), strided_wf s -> forall k i, 1 <= k ->
  strided_wf (strided_step s k) /\
  nth_error (strided_to_list (strided_step s k)) i
  = if i <? (slen s + k - 1) / k then nth_error (strided_to_list s) (i * k) else None.
Proof. intros A s Hwf k i Hk. split; [apply strided_step_wf|apply strided_step_to_list_nth]; assumption. Qed.
Theorem C07_strided_step_one : forall (A : Type) (s : strided A), strided_wf s ->
  strided_to_list (strided_step s 1) = strided_to_list s.
Proof. exact @strided_step_one. Qed.
Theorem C07_strided_try_as_slice_offered_iff : forall (A : Type) (s : strided A),
  strided_try_as_slice s = None <-> (sstep s <> 1%Z /\ 2 <= slen s).
Proof. exact @strided_try_as_slice_offered_iff. Qed.
Theorem C07_strided_try_as_slice_complete : forall (A : Type) (s : strided A), strided_wf s ->
  (sstep s = 1%Z \/ slen s <= 1) -> strided_try_as_slice s = Some (strided_to_list s).
Proof. exact @strided_try_as_slice_complete. Qed.
Theorem C07_strided_checked_get : forall (A : Type) (s : strided A), strided_wf s -> forall i,
  checked_get (slen s) (strided_get s) i
  = match nth_error (strided_to_list s) i with Some x => Ok x | None => Panic OtherPanic end.
Proof. exact @strided_checked_get. Qed.

(* ---- Polars chunked arrays ------------------------------------------------------------------------------------------ *)
Theorem C07_chunked_slice : forall (A : Type) (c : chunked A) (a b i : nat),
  nth_error (chunked_slice c a b) i = if i <? b - a then chunked_get c (a + i) else None.
Proof. exact @chunked_slice_nth. Qed.
(* a slice that keeps a chunked layout (skip a, take b - a across the chunk boundaries) is that same sequence *)
Theorem C07_chunked_slice_chunks : forall (A : Type) (c : chunked A) (a b : nat),
  chunked_to_list (chunked_slice_chunks c a b) = chunked_slice c a b.
Proof. exact @chunked_slice_chunks_spec. Qed.
Theorem C07_chunked_rev_titer : forall (A : Type) (c : chunked A) (i : nat),
  nth_error (rev (chunked_to_list c)) i = if i <? chunked_len c then chunked_get c (chunked_len c - 1 - i) else None.
Proof. exact @chunked_rev_nth. Qed.
Theorem C07_chunked_checked_get : forall (A : Type) (c : chunked A) (i : nat),
  checked_get (chunked_len c) (chunked_get c) i
  = match nth_error (chunked_to_list c) i with Some x => Ok x | None => Panic OtherPanic end.
Proof. exact @chunked_checked_get. Qed.
Theorem C07_chunked_empty_chunk : forall (A : Type) (c1 c2 : chunked A),
  chunked_to_list (c1 ++ [] :: c2) = chunked_to_list (c1 ++ c2).
Proof. exact @chunked_empty_chunk. Qed.

(* ---- Arc-wrapped containers and the option view (no theorem named them before) -------------------------------------- *)
Theorem C07_arc_transparent : forall (A : Type) (l : list A) (i a b : nat),
  arc_to_list l = l /\ length (arc_to_list l) = length l /\ nth_error (arc_to_list l) i = nth_error l i
  /\ seg a b (arc_to_list l) = seg a b l /\ rev (arc_to_list l) = rev l.
Proof. exact @arc_transparent. Qed.
Theorem C07_optview_accessors : forall (T I : Type) (to_opt : T -> option I) (l : list T) (i a b : nat),
  length (optview_to_list to_opt l) = length l
  /\ nth_error (optview_to_list to_opt l) i = option_map to_opt (nth_error l i)
  /\ seg a b (optview_to_list to_opt l) = optview_to_list to_opt (seg a b l)
  /\ rev (optview_to_list to_opt l) = optview_to_list to_opt (rev l)
  /\ optview_to_list to_opt l = to_opt_iter_m to_opt l.
Proof.
  intros. split; [apply optview_length|]. split; [apply optview_nth|]. split; [apply optview_slice|].
  split; [apply optview_rev|reflexivity].
Qed.
Theorem C07_optview_is_vget : forall (T I : Type) (to_opt : T -> option I) (l : list T) (i : nat),
  nth_error (optview_to_list to_opt l) i
  = if i <? length l then Some (valid_get to_opt (length l) (nth_error l) i) else None.
Proof. exact @optview_vget. Qed.
Theorem C07_optview_of_backends : forall (T I : Type) (to_opt : T -> option I) (r : ring T) (s : strided T) (i : nat),
  ring_wf0 r -> strided_wf s ->
  nth_error (optview_to_list to_opt (ring_to_list r)) i = option_map to_opt (ring_get r i) /\
  nth_error (optview_to_list to_opt (strided_to_list s)) i = option_map to_opt (strided_get s i).
Proof. intros T I to_opt r s i Hr Hs. split; [apply optview_ring; exact Hr|apply optview_strided; exact Hs]. Qed.
Theorem C07_optview_of_chunked : forall (T I : Type) (to_opt : option T -> option I) (c : chunked T) (i : nat),
  nth_error (optview_to_list to_opt (chunked_to_list c)) i = option_map to_opt (chunked_get c i).
Proof. exact @optview_chunked. Qed.

(* ---- list laws the accessor statements are phrased with -------------------------------------------------------------- *)
Theorem C07_rev_nth : forall (A : Type) (l : list A) (i : nat),
  nth_error (rev l) i = if i <? length l then nth_error l (length l - 1 - i) else None.
Proof. exact @nth_error_rev. Qed.
Theorem C07_slice_of_slice : forall (A : Type) (a b a' b' : nat) (l : list A),
  a + b' <= b -> seg a' b' (seg a b l) = seg (a + a') (a + b') l.
Proof. exact @seg_seg. Qed.
Theorem C07_slice_of_reversed : forall (A : Type) (a b : nat) (l : list A), a <= b -> b <= length l ->
  seg a b (rev l) = rev (seg (length l - b) (length l - a) l).
Proof. exact @seg_rev. Qed.
Theorem C07_slice_length_any : forall (A : Type) (a b : nat) (l : list A),
  length (seg a b l) = Nat.min (b - a) (length l - a).
Proof. exact @seg_length_min. Qed.

(* ---- "generic algorithms written once against the view trait; backends only supply len / uget" ------------------------
   view_seq len uget is what such an algorithm sees.  For every backend it IS the logical sequence, and two containers of
   ANY kinds with the same length and the same uget have the same logical sequence - hence the same result of every
   function of Model/ (all of them take the logical sequence)                                                          *)
Theorem C07_view_seq_backends : forall (A : Type) (l : list A) (r : ring A) (s : strided A) (c : chunked A),
  ring_wf0 r ->
  view_seq (length l) (nth_error l) = l /\ view_seq (rlen r) (ring_get r) = ring_to_list r
  /\ view_seq (slen s) (strided_get s) = strided_to_list s
  /\ view_seq (chunked_len c) (chunked_get c) = chunked_to_list c.
Proof.
  intros A l r s c Hr. split; [apply view_seq_list|]. split; [apply ring_view_seq; exact Hr|].
  split; [apply strided_view_seq|apply chunked_view_seq].
Qed.
Theorem C07_view_determined_by_len_and_uget : forall (A : Type) (len : nat) (g1 g2 : nat -> option A),
  (forall i, i < len -> g1 i = g2 i) -> view_seq len g1 = view_seq len g2.
Proof. exact @view_seq_ext. Qed.
Theorem C07_backend_irrelevant_ring_strided : forall (A : Type) (r : ring A) (s : strided A),
  ring_wf0 r -> rlen r = slen s -> (forall i, i < rlen r -> ring_get r i = strided_get s i) ->
  ring_to_list r = strided_to_list s.
Proof. exact @ring_strided_same_sequence. Qed.
Theorem C07_backend_irrelevant_ring_chunked : forall (A : Type) (r : ring (option A)) (c : chunked A),
  ring_wf0 r -> rlen r = chunked_len c -> (forall i, i < rlen r -> ring_get r i = chunked_get c i) ->
  ring_to_list r = chunked_to_list c.
Proof. exact @ring_chunked_same_sequence. Qed.
Theorem C07_backend_irrelevant_strided_chunked : forall (A : Type) (s : strided (option A)) (c : chunked A),
  slen s = chunked_len c -> (forall i, i < slen s -> strided_get s i = chunked_get c i) ->
  strided_to_list s = chunked_to_list c.
Proof. exact @strided_chunked_same_sequence. Qed.

(* ---- "whatever the output container": uninit / uset / assume_init of the MaybeUninit buffer (Vec, VecDeque, Array1) -- *)
Theorem C07_uset_slot : forall (O : Type) (i : nat) (v : O) (buf : list (option O)) (j : nat),
  nth_error (set_nth i v buf) j = if (j =? i) && (i <? length buf) then Some (Some v) else nth_error buf j.
Proof. exact @set_nth_nth. Qed.
Theorem C07_uset_length : forall (O : Type) (i : nat) (v : O) (buf : list (option O)), length (set_nth i v buf) = length buf.
Proof. exact @set_nth_length. Qed.
Theorem C07_uset_commutes : forall (O : Type) (i j : nat) (v w : O) (buf : list (option O)),
  i <> j -> set_nth i v (set_nth j w buf) = set_nth j w (set_nth i v buf).
Proof. exact @set_nth_comm. Qed.
Theorem C07_uninit_exposes_nothing : forall (O : Type) (n : nat),
  assume_init (repeat (@None O) n) = if n =? 0 then Some [] else None.
Proof. exact @uninit_assume_init. Qed.
Theorem C07_assume_init_exactly_when_all_written : forall (O : Type) (buf : list (option O)),
  (forall l, assume_init buf = Some l <-> buf = map Some l) /\
  (assume_init buf = None <-> exists j, nth_error buf j = Some None).
Proof. intros O buf. split; [intros l; apply assume_init_Some_iff|apply assume_init_None_iff]. Qed.
(* stores in ANY order, any number of times, covering every slot: a complete output, slot j = the last value stored at j *)
Theorem C07_stores_any_order : forall (O : Type) (ws : list (nat * O)) (n : nat),
  (forall j, j < n -> In j (map fst ws)) ->
  exists l, finish (apply_writes ws (repeat None n)) = Done l /\ length l = n /\
            forall j, j < n -> nth_error l j = last_write j ws.
Proof. exact @writes_cover_all. Qed.
(* every slot exactly once in any order (vrank's order): slot j = THE value stored at j *)
Theorem C07_stores_permutation : forall (O : Type) (ws : list (nat * O)) (n : nat),
  Permutation (map fst ws) (seq 0 n) ->
  exists l, finish (apply_writes ws (repeat None n)) = Done l /\ length l = n /\
            forall j v, In (j, v) ws -> nth_error l j = Some v.
Proof. exact @writes_permutation. Qed.
(* what must NOT happen: a slot never stored keeps the buffer from being exposed as initialised *)
Theorem C07_missing_store_detected : forall (O : Type) (ws : list (nat * O)) (n j : nat),
  j < n -> ~ In j (map fst ws) ->
  finish (apply_writes ws (repeat None n)) = Uninit (apply_writes ws (repeat None n)).
Proof. exact @missing_slot_uninit. Qed.
(* the collected sequence read back from a fresh VecDeque / Array1 / Arc / single chunk is the sequence *)
Theorem C07_output_container_irrelevant : forall (A : Type) (l : list A) (lo : list (option A)),
  ring_to_list (ring_of_list l) = l /\ strided_to_list (strided_of_list l) = l /\ arc_to_list l = l
  /\ chunked_to_list [lo] = lo.
Proof. exact @output_container_irrelevant. Qed.
Theorem C07_fresh_containers_well_formed : forall (A : Type) (l : list A),
  ring_wf0 (ring_of_list l) /\ ring_try_as_slice (ring_of_list l) = Some l /\
  strided_wf (strided_of_list l) /\ strided_try_as_slice (strided_of_list l) = Some l.
Proof.
  intros A l. destruct (ring_of_list_spec l) as (H1 & _ & H2). destruct (strided_of_list_spec l) as (H3 & _ & H4).
  split; [exact H1|]. split; [exact H2|]. split; [exact H3|exact H4].
Qed.
(* the lazy (iterator) forms: collected by a trusted-length collector, or written through write_trust_iter into a
   caller buffer of the series' length - the sequence the iterator yields, every slot once, in order *)
Theorem C07_lazy_collected_and_written : forall (O : Type) (items : list O),
  collect_trusted (length items) items = Done items /\
  (let r := write_trust_iter (length items) (exact_iter items) in
   fst r = WOk /\ map fst (snd r) = seq 0 (length items)
   /\ finish (apply_writes (snd r) (repeat None (length items))) = Done items).
Proof. exact @lazy_collected_and_written. Qed.

(* ---- returned path = caller-buffer path: hypothesis `1 <= w` of C07_out_path / C07_total DROPPED ------------------------ *)
Theorem C07_out_path_any_window :
  forall (T St O : Type) (F : feat T St O) (w : nat) (xs : list T), ts_run F true w xs = ts_run F false w xs.
Proof. exact @ts_run_out_path_any_window. Qed.
Theorem C07_outcome_any_window :
  forall (T St O : Type) (F : feat T St O) (w : nat) (xs : list T) (body : bool),
    if bad_window w xs then ts_run F body w xs = Panicked AssertFail
    else exists out, ts_run F body w xs = Done out /\ length out = length xs.
Proof. exact @ts_run_outcome. Qed.
Theorem C07_paths_reject_alike :
  forall (T St O : Type) (w : nat) (f : St -> option T * T -> St * O) (g : St -> option nat * nat * T -> St * O)
         (s0 : St) (xs : list T),
    (rolling_apply_to w f s0 xs = Panicked AssertFail <-> bad_window w xs = true) /\
    (rolling_apply_default w f s0 xs = Panicked AssertFail <-> bad_window w xs = true) /\
    (rolling_apply_idx_to w g s0 xs = Panicked AssertFail <-> bad_window w xs = true) /\
    (rolling_apply_idx_default w g s0 xs = Panicked AssertFail <-> bad_window w xs = true).
Proof.
  intros T St O w f g s0 xs. destruct (apply_paths_reject_alike w f s0 xs) as [H1 H2].
  destruct (apply_idx_paths_reject_alike w g s0 xs) as [H3 H4]. repeat split; tauto.
Qed.
(* the slice form is the exception: at window 0 the returned (lazy) path and the caller-buffer path DIFFER on every
   series - `window - 1` underflows before the assertion is reached; on the EMPTY series the buffer path returns the
   empty result while the lazy path panics (debug build).  The clause "whether the result is returned or written into a
   caller-supplied buffer" therefore holds for the slice form for window >= 1 only (C07_out_path_custom)              *)
Theorem C07_out_path_custom_window0_refuted :
  forall (T St O : Type) (f : St -> list T -> St * O) (s0 : St) (xs : list T),
    rolling_custom_default 0 f s0 xs = Panicked Underflow /\
    rolling_custom_to 0 f s0 xs = (if length xs =? 0 then Done [] else Panicked AssertFail) /\
    rolling_custom_to 0 f s0 xs <> rolling_custom_default 0 f s0 xs.
Proof. exact @custom_paths_window0. Qed.

(* ---- non-vacuity of the audit theorems ------------------------------------------------------------------------------ *)
Example C07_audit_example_ring :
  let r := {| rbuf := [3; 4; 1; 2]; rhead := 2; rlen := 4 |} in
  ring_wf0 r /\ ring_slices r = ([1; 2], [3; 4]) /\ ring_iter r = [1; 2; 3; 4] /\ ring_range r 1 3 = [2; 3]
  /\ rcap r < rhead r + rlen r /\ ring_try_as_slice r = None
  /\ (let r2 := {| rbuf := [0; 1; 2; 3]; rhead := 1; rlen := 3 |} in
      ring_wf0 r2 /\ rhead r2 + rlen r2 <= rcap r2 /\ ring_try_as_slice r2 = Some [1; 2; 3]).
Proof. cbv zeta. unfold ring_wf0, rcap. cbn. repeat split; lia. Qed.

Example C07_audit_example_strided :
  let s := {| sbase := [0; 1; 2; 3; 4; 5; 6]; soff := 1; sstep := 2%Z; slen := 3 |} in
  strided_wf s /\ strided_to_list s = [1; 3; 5]
  /\ strided_to_list (strided_slice s 1 3) = [3; 5] /\ 1 <= 3 /\ 3 <= slen s
  /\ strided_to_list (strided_rev s) = [5; 3; 1] /\ sstep (strided_rev s) = (-2)%Z /\ 1 <= slen s
  /\ strided_to_list (strided_step s 2) = [1; 5] /\ 1 <= 2
  /\ strided_try_as_slice s = None /\ sstep s <> 1%Z /\ 2 <= slen s
  /\ (let o := strided_of_list [7; 8] in (sstep o = 1%Z \/ slen o <= 1) /\ strided_try_as_slice o = Some [7; 8]).
Proof.
  cbv zeta. split.
  { intros i Hi. unfold spos. cbn [soff sstep sbase slen length] in *. lia. }
  cbn. repeat split; try lia; try discriminate.
Qed.

Example C07_audit_example_chunked :
  let c := [[Some 1; None]; []; [Some 3; Some 4]] in
  chunked_slice_chunks c 1 4 = [[None]; []; [Some 3; Some 4]] /\ chunked_slice c 1 4 = [None; Some 3; Some 4]
  /\ rev (chunked_to_list c) = [Some 4; Some 3; None; Some 1]
  /\ optview_to_list (fun x : nat => if x =? 0 then None else Some x) [5; 0; 7] = [Some 5; None; Some 7].
Proof. repeat split. Qed.

Example C07_audit_example_views_agree :
  let r := {| rbuf := [3; 4; 1; 2]; rhead := 2; rlen := 4 |} in
  let s := {| sbase := [4; 3; 2; 1]; soff := 3; sstep := (-1)%Z; slen := 4 |} in
  ring_wf0 r /\ rlen r = slen s /\ (forall i, i < rlen r -> ring_get r i = strided_get s i)
  /\ ring_to_list r = [1; 2; 3; 4] /\ strided_to_list s = [1; 2; 3; 4].
Proof.
  cbv zeta. split; [unfold ring_wf0, rcap; cbn; lia|]. split; [reflexivity|]. split; [|split; reflexivity].
  intros i Hi. cbn in Hi. do 4 (destruct i as [|i]; [reflexivity|]). lia.
Qed.

Example C07_audit_example_stores :
  let ws := [(2, 30); (0, 10); (1, 20)] in
  Permutation (map fst ws) (seq 0 3) /\ finish (apply_writes ws (repeat None 3)) = Done [10; 20; 30]
  /\ finish (apply_writes [(2, 30); (0, 10); (2, 31)] (repeat None 3)) = Uninit [Some 10; None; Some 31]
  /\ ~ In 1 (map fst [(2, 30); (0, 10); (2, 31)]) /\ last_write 2 [(2, 30); (0, 10); (2, 31)] = Some 31.
Proof.
  cbv zeta. split.
  { cbn. change [0; 1; 2] with ([0; 1] ++ [2]). apply Permutation_cons_app. cbn. apply Permutation_refl. }
  cbn. repeat split. intros [H|[H|[H|[]]]]; discriminate.
Qed.

Example C07_audit_example_window0 :
  bad_window 0 [1; 2] = true /\ bad_window 0 (@nil nat) = false /\ bad_window 3 [1; 2] = false
  /\ rolling_custom_to 0 (fun (s : unit) (l : list nat) => (s, l)) tt (@nil nat) = Done []
  /\ rolling_custom_default 0 (fun (s : unit) (l : list nat) => (s, l)) tt (@nil nat) = Panicked Underflow.
Proof. repeat split. Qed.

Print Assumptions C07_ring_length.
Print Assumptions C07_ring_get.
Print Assumptions C07_ring_try_as_slice.
Print Assumptions C07_strided_length.
Print Assumptions C07_strided_get.
Print Assumptions C07_strided_try_as_slice.
Print Assumptions C07_chunked_get.
Print Assumptions C07_chunked_len.
Print Assumptions C07_chunking_irrelevant.
Print Assumptions C07_checked_get.
Print Assumptions C07_out_path.
Print Assumptions C07_total.
Print Assumptions C07_out_path_custom.
Print Assumptions C07_polars_stage_refines.
Print Assumptions C07_polars_stage_total.
Print Assumptions C07_polars_stage_slot.
Print Assumptions C07_polars_out_any_window.
Print Assumptions C07_polars_out_rolling_apply.
Print Assumptions C07_polars_out_rolling_apply_idx.
Print Assumptions C07_polars_out_rolling_custom.
Print Assumptions C07_polars_out_rolling2_apply.
Print Assumptions C07_polars_out_rolling2_apply_idx.
Print Assumptions C07_polars_out_feature.
Print Assumptions C07_polars_collect.
Print Assumptions C07_vec_set.
Print Assumptions C07_ring_uset.
Print Assumptions C07_ring_get_mut.
Print Assumptions C07_ring_uset_wf.
Print Assumptions C07_ring_uset_layout.
Print Assumptions C07_ring_get_after_set.
Print Assumptions C07_ring_slice_mut_offered.
Print Assumptions C07_ring_slice_mut_is_set.
Print Assumptions C07_ring_slice_mut.
Print Assumptions C07_ring_slice_after_set.
Print Assumptions C07_strided_uset.
Print Assumptions C07_strided_get_mut.
Print Assumptions C07_strided_uset_wf.
Print Assumptions C07_strided_get_after_set.
Print Assumptions C07_strided_slice_mut_offered.
Print Assumptions C07_strided_slice_mut_is_set.
Print Assumptions C07_strided_slice_mut.
Print Assumptions C07_strided_reversed_no_slice_mut.
Print Assumptions C07_memory_order_mut_refuted.
Print Assumptions C07_update_nth.
Print Assumptions C07_update_length.
Print Assumptions C07_update_same.
Print Assumptions C07_update_twice.
Print Assumptions C07_update_comm.
Print Assumptions C07_vget.
Print Assumptions C07_uvget.
Print Assumptions C07_ring_vget.
Print Assumptions C07_strided_vget.
Print Assumptions C07_chunked_vget.
Print Assumptions C07_to_opt_iter.
Print Assumptions C07_iter_cast.
Print Assumptions C07_opt_iter_cast.
Print Assumptions C07_elementwise_lengths.
Print Assumptions C07_vget_after_set.
Print Assumptions C07_ring_wf_weakened.
Print Assumptions C07_ring_unallocated.
Print Assumptions C07_ring_length_any.
Print Assumptions C07_ring_get_any.
Print Assumptions C07_ring_try_as_slice_any.
Print Assumptions C07_ring_checked_get.
Print Assumptions C07_ring_titer.
Print Assumptions C07_ring_as_slices_lengths.
Print Assumptions C07_ring_rev_titer.
Print Assumptions C07_ring_try_as_slice_offered_iff.
Print Assumptions C07_ring_try_as_slice_complete.
Print Assumptions C07_ring_slice.
Print Assumptions C07_ring_slice_length.
Print Assumptions C07_ring_slice_all.
Print Assumptions C07_strided_slice.
Print Assumptions C07_strided_slice_get.
Print Assumptions C07_strided_reversed_view.
Print Assumptions C07_strided_reversed_twice.
Print Assumptions C07_strided_rev_titer.
Print Assumptions C07_strided_stepped_view.
Print Assumptions C07_strided_step_one.
Print Assumptions C07_strided_try_as_slice_offered_iff.
Print Assumptions C07_strided_try_as_slice_complete.
Print Assumptions C07_strided_checked_get.
Print Assumptions C07_chunked_slice.
Print Assumptions C07_chunked_slice_chunks.
Print Assumptions C07_chunked_rev_titer.
Print Assumptions C07_chunked_checked_get.
Print Assumptions C07_chunked_empty_chunk.
Print Assumptions C07_arc_transparent.
Print Assumptions C07_optview_accessors.
Print Assumptions C07_optview_is_vget.
Print Assumptions C07_optview_of_backends.
Print Assumptions C07_optview_of_chunked.
Print Assumptions C07_rev_nth.
Print Assumptions C07_slice_of_slice.
Print Assumptions C07_slice_of_reversed.
Print Assumptions C07_slice_length_any.
Print Assumptions C07_view_seq_backends.
Print Assumptions C07_view_determined_by_len_and_uget.
Print Assumptions C07_backend_irrelevant_ring_strided.
Print Assumptions C07_backend_irrelevant_ring_chunked.
Print Assumptions C07_backend_irrelevant_strided_chunked.
Print Assumptions C07_uset_slot.
Print Assumptions C07_uset_length.
Print Assumptions C07_uset_commutes.
Print Assumptions C07_uninit_exposes_nothing.
Print Assumptions C07_assume_init_exactly_when_all_written.
Print Assumptions C07_stores_any_order.
Print Assumptions C07_stores_permutation.
Print Assumptions C07_missing_store_detected.
Print Assumptions C07_output_container_irrelevant.
Print Assumptions C07_fresh_containers_well_formed.
Print Assumptions C07_lazy_collected_and_written.
Print Assumptions C07_out_path_any_window.
Print Assumptions C07_outcome_any_window.
Print Assumptions C07_paths_reject_alike.
Print Assumptions C07_out_path_custom_window0_refuted.

(* ==== the chunked model at an ARBITRARY element type (coverage / mutation campaign: the hand-written Polars string impl
   `Vec1View<Option<&str>> for &ChunkedArray<StringType>`, polars.rs:174-225, is observed by harness-pl c07pl.rs
   `observe_str`, case tag `pl_str`, against `run_chunked`).  Every C07_chunked_* statement above (C07_chunked_get, _len,
   C07_chunking_irrelevant, C07_chunked_collect.., _vget, _slice, _slice_chunks, _rev_titer, _checked_get, _empty_chunk,
   C07_optview_of_chunked, C07_view_seq_backends, C07_backend_irrelevant_*_chunked) is already quantified `forall (A : Type)`:
   they hold for strings as they stand, nothing had to be generalised.  What was instantiated at `float` is only the
   INTERPRETER (`run_chunked : chunked float -> list Z`), because the harness renders each string (a decimal numeral) as the
   float it denotes.  The two theorems below justify that rendering for every element type (Proofs/LooseEnds.v). ========== *)
From Coq Require Import Floats.
From Tevec Require Import Proofs.LooseEnds.
From Tevec Require Run.Codec Run.RunC07.

(* the accessors are natural in the element: rendering the elements (f) and then accessing = accessing and then rendering -
   length, get (None past the end included), the flattened sequence, slices as sequences and as chunk layouts *)
Theorem C07_chunked_accessors_natural_any_element :
  forall (A B : Type) (f : A -> B) (c : chunked A),
    chunked_to_list (chunked_map f c) = map (option_map f) (chunked_to_list c)
    /\ chunked_len (chunked_map f c) = chunked_len c
    /\ (forall i, chunked_get (chunked_map f c) i = option_map (option_map f) (chunked_get c i))
    /\ (forall a b, chunked_slice (chunked_map f c) a b = map (option_map f) (chunked_slice c a b))
    /\ (forall a b, chunked_slice_chunks (chunked_map f c) a b = chunked_map f (chunked_slice_chunks c a b)).
Proof.
  intros A B f c. split; [apply chunked_map_to_list|]. split; [apply chunked_map_len|].
  split; [intros i; apply chunked_map_get|]. split; [intros a b; apply chunked_map_slice|].
  intros a b. apply chunked_map_slice_chunks.
Qed.

(* what the correspondence run computes for an array whose elements were rendered as floats by `enc` (strings: the numeral's
   value) IS the observation of the array itself - len, get 0..=len, titer, reversed, every slice - with the cell encoder
   `c_float o enc`, for EVERY element type and EVERY rendering *)
Theorem C07_chunked_observation_any_element :
  forall (A : Type) (enc : A -> float) (c : chunked A),
    Run.RunC07.run_chunked (chunked_map enc c)
    = Run.RunC07.observe (Run.Codec.c_opt (fun x => Run.Codec.c_float (enc x))) (chunked_to_list c) None.
Proof. exact @run_chunked_rendered. Qed.

(* non-vacuity: an array of three chunks (one empty, nulls) over a two-letter element type rendered as floats *)
Example C07_chunked_any_element_example :
  let enc := fun b : bool => if b then 1%float else 2%float in
  let c := [[Some true; None]; []; [Some false; Some true]] in
  chunked_map enc c = [[Some 1%float; None]; []; [Some 2%float; Some 1%float]]
  /\ chunked_get (chunked_map enc c) 2 = Some (Some 2%float) /\ chunked_get c 2 = Some (Some false)
  /\ chunked_get (chunked_map enc c) 4 = None
  /\ chunked_slice_chunks (chunked_map enc c) 1 3 = [[None]; []; [Some 2%float]]
  /\ chunked_slice_chunks c 1 3 = [[None]; []; [Some false]].
Proof. vm_compute. repeat split. Qed.

Print Assumptions C07_chunked_accessors_natural_any_element.
Print Assumptions C07_chunked_observation_any_element.
