(* Props/C07.v — property C07: results are independent of input backend, output container and
   out-buffer path; each container's accessors describe one logical sequence.  Axiom-free.       *)
From Coq Require Import ZArith.
From Tevec Require Import Base.Prelude Base.Num Model.Driver Proofs.Driver Model.Features
     Proofs.Generic Model.Containers Proofs.Containers Model.PolarsOut Proofs.PolarsOut.

(* ---- VecDeque (ring buffer) in any rotation: wrapped or contiguous ---------------------------- *)
Theorem C07_ring_length : forall (A : Type) (r : ring A), ring_wf r -> length (ring_to_list r) = rlen r.
Proof. exact @ring_to_list_length. Qed.

Theorem C07_ring_get : forall (A : Type) (r : ring A), ring_wf r ->
  forall i, nth_error (ring_to_list r) i = ring_get r i.
Proof. exact @ring_get_to_list. Qed.

Theorem C07_ring_try_as_slice : forall (A : Type) (r : ring A), ring_wf r ->
  forall l, ring_try_as_slice r = Some l -> l = ring_to_list r.
Proof. exact @ring_try_as_slice_sound. Qed.

(* ---- ndarray views with any stride (positive, negative) and offset ------------------------------ *)
Theorem C07_strided_length : forall (A : Type) (s : strided A), strided_wf s ->
  length (strided_to_list s) = slen s.
Proof. exact @strided_to_list_length. Qed.

Theorem C07_strided_get : forall (A : Type) (s : strided A), strided_wf s ->
  forall i, nth_error (strided_to_list s) i = strided_get s i.
Proof. exact @strided_to_list_nth. Qed.

Theorem C07_strided_try_as_slice : forall (A : Type) (s : strided A), strided_wf s ->
  forall l, strided_try_as_slice s = Some l -> l = strided_to_list s.
Proof. exact @strided_try_as_slice_sound. Qed.

(* ---- Polars chunked arrays under any chunking ------------------------------------------------------ *)
Theorem C07_chunked_get : forall (A : Type) (c : chunked A) (i : nat),
  chunked_get c i = nth_error (chunked_to_list c) i.
Proof. exact @chunked_get_spec. Qed.

Theorem C07_chunked_len : forall (A : Type) (c : chunked A), chunked_len c = length (chunked_to_list c).
Proof. exact @chunked_len_spec. Qed.

Theorem C07_chunking_irrelevant : forall (A : Type) (c1 c2 : chunked A) (i : nat),
  chunked_to_list c1 = chunked_to_list c2 -> chunked_get c1 i = chunked_get c2 i.
Proof. exact @chunked_rechunk. Qed.

(* ---- the checked accessor of view.rs ------------------------------------------------------------------ *)
Theorem C07_checked_get : forall (A : Type) (l : list A) (i : nat),
  checked_get (length l) (nth_error l) i
  = match nth_error l i with Some x => Ok x | None => Panic OtherPanic end.
Proof. exact @checked_get_spec. Qed.

(* ---- returned path = caller-buffer path = fast path ------------------------------------------------- *)
(* every rolling feature (add-emit-remove) gives the same, complete result through the iterator body
   (default backends, returned) and the two-phase index body (caller buffer; Vec / ndarray fast path) *)
Theorem C07_out_path :
  forall (T St O : Type) (F : feat T St O) (w : nat) (xs : list T),
    1 <= w -> ts_run F true w xs = ts_run F false w xs.
Proof. intros T St O F w xs Hw. rewrite !ts_run_iter by exact Hw. reflexivity. Qed.

Theorem C07_total :
  forall (T St O : Type) (F : feat T St O) (w : nat) (xs : list T) (body : bool),
    1 <= w -> exists out, ts_run F body w xs = Done out /\ length out = length xs.
Proof. exact @ts_run_total. Qed.

(* the slice forms pass the same windows on both paths *)
Theorem C07_out_path_custom :
  forall (T St O : Type) (f : St -> list T -> St * O) (s0 : St) (xs : list T) (w : nat),
    1 <= w -> rolling_custom_to w f s0 xs = rolling_custom_default w f s0 xs.
Proof. intros. rewrite rolling_custom_to_eq, rolling_custom_default_eq by assumption. reflexivity. Qed.

(* ---- a Polars array as OUTPUT container (Model/PolarsOut.v; polars.rs after the repair) ----------------
   results stored by index go through a staging buffer that starts all-null and is collected by
   assume_init; this is the caller-buffer path of every backend and the returned path of the Vec / ndarray
   fast paths with O = ChunkedArray (which panicked with `unimplemented!` before the repair)              *)

(* any stores, in any order, any number of times: slot by slot the staged array is `join` of the generic
   MaybeUninit buffer of Model/Driver.v — equal to it when that is fully initialised, null (never
   garbage) where it is not *)
Theorem C07_polars_stage_refines :
  forall (St X A : Type) (g : St -> X -> St * option A) (s : St) (calls : list (nat * X)) (n : nat),
    finish_polars (pexec g s calls (pstage_uninit n))
    = match finish (exec g s calls (repeat None n)) with
      | Done out => Done out
      | Uninit buf => Done (map join buf)
      | Panicked k => Panicked k
      end.
Proof. exact @polars_stage_refines. Qed.

Theorem C07_polars_stage_total :
  forall (St X A : Type) (g : St -> X -> St * option A) (s : St) (calls : list (nat * X)) (n : nat),
    exists out, finish_polars (pexec g s calls (pstage_uninit n)) = Done out /\ length out = n.
Proof. exact @polars_stage_total. Qed.

(* uset / read-back of one slot *)
Theorem C07_polars_stage_slot :
  forall (A : Type) (i : nat) (v : option A) (b : pstage A) (j : nat),
    nth_error (pstage_uset i v b) j = if (j =? i) && (i <? length b) then Some v else nth_error b j.
Proof. exact @pstage_uset_nth. Qed.

(* the five index bodies, every window (0 included), every callback, every series *)
Theorem C07_polars_out_any_window :
  forall (T St A : Type) (w : nat) (f : St -> option T * T -> St * option A) (s0 : St) (xs : list T),
    rolling_apply_to_polars w f s0 xs = lift_uninit (rolling_apply_to w f s0 xs).
Proof. exact @rolling_apply_to_polars_spec. Qed.

Theorem C07_polars_out_rolling_apply :
  forall (T St A : Type) (w : nat) (f : St -> option T * T -> St * option A) (s0 : St) (xs : list T),
    1 <= w -> rolling_apply_to_polars w f s0 xs = rolling_apply_to w f s0 xs.
Proof. exact @rolling_apply_to_polars_eq. Qed.

Theorem C07_polars_out_rolling_apply_idx :
  forall (T St A : Type) (w : nat) (f : St -> option nat * nat * T -> St * option A) (s0 : St) (xs : list T),
    1 <= w -> rolling_apply_idx_to_polars w f s0 xs = rolling_apply_idx_to w f s0 xs.
Proof. exact @rolling_apply_idx_to_polars_eq. Qed.

Theorem C07_polars_out_rolling_custom :
  forall (T St A : Type) (w : nat) (f : St -> list T -> St * option A) (s0 : St) (xs : list T),
    1 <= w -> rolling_custom_to_polars w f s0 xs = collected_polars (rolling_custom_default w f s0 xs).
Proof. exact @rolling_custom_to_polars_eq. Qed.

Theorem C07_polars_out_rolling2_apply :
  forall (T1 T2 St A : Type) (w : nat) (f : St -> option (T1 * T2) * (T1 * T2) -> St * option A) (s0 : St)
         (xs : list T1) (ys : list T2),
    1 <= w -> rolling2_apply_to_polars w f s0 xs ys = rolling2_apply_to w f s0 xs ys.
Proof. exact @rolling2_apply_to_polars_eq. Qed.

Theorem C07_polars_out_rolling2_apply_idx :
  forall (T1 T2 St A : Type) (w : nat) (f : St -> option nat * nat * (T1 * T2) -> St * option A) (s0 : St)
         (xs : list T1) (ys : list T2),
    1 <= w -> rolling2_apply_idx_to_polars w f s0 xs ys = rolling2_apply_idx_to w f s0 xs ys.
Proof. exact @rolling2_apply_idx_to_polars_eq. Qed.

(* every rolling feature: staged into a Polars array = either body collected into a Polars array *)
Theorem C07_polars_out_feature :
  forall (T St A : Type) (F : feat T St (option A)) (w : nat) (xs : list T) (body : bool),
    1 <= w -> ts_run_polars F w xs = collected_polars (ts_run F body w xs).
Proof. exact @ts_run_polars_eq. Qed.

(* collecting into one chunk does not change the logical sequence *)
Theorem C07_polars_collect :
  forall (A : Type) (l : list (option A)), chunked_to_list (chunked_collect l) = l.
Proof. exact @chunked_single. Qed.

(* non-vacuity of the Polars-output theorems: a running count of valid elements with window 2 over a series
   with a null, staged out of a two-phase body; the window-index and slice forms; a window of 0 *)
Example C07_example_polars_out :
  let F := {| f_init := 0; f_pre := fun s (v : option nat) => match v with Some _ => S s | None => s end;
              f_emit := fun s => if 2 <=? s then Some s else None;
              f_post := fun s rm => match rm with Some (Some _) => s - 1 | _ => s end |} in
  ts_run_polars F 2 [Some 5; None; Some 7; Some 8; Some 9] = Done [None; None; None; Some 2; Some 2]
  /\ ts_run F false 2 [Some 5; None; Some 7; Some 8; Some 9] = Done [None; None; None; Some 2; Some 2].
Proof. split; vm_compute; reflexivity. Qed.

Example C07_example_polars_out_idx_custom :
  rolling_apply_idx_to_polars 2 (fun (s : unit) a => (s, Some (fst (fst a), snd a))) tt [10; 20; 30]
    = Done [Some (None, 10); Some (Some 0, 20); Some (Some 1, 30)]
  /\ rolling_custom_to_polars 2 (fun (s : unit) (l : list nat) => (s, Some l)) tt [10; 20; 30]
    = Done [Some [10]; Some [10; 20]; Some [20; 30]]
  /\ rolling2_apply_to_polars 2 (fun (s : unit) a => (s, Some (fst a))) tt [1; 2; 3] [4; 5; 6]
    = Done [Some None; Some (Some (1, 4)); Some (Some (2, 5))]
  /\ rolling2_apply_idx_to_polars 1 (fun (s : unit) a => (s, Some (snd a))) tt [1; 2] [4; 5]
    = Done [Some (1, 4); Some (2, 5)]
  /\ rolling_apply_to_polars 0 (fun (s : unit) (a : option nat * nat) => (s, Some (snd a))) tt [1]
    = Panicked AssertFail.
Proof. repeat split; vm_compute; reflexivity. Qed.

(* a store sequence that leaves a slot unwritten and writes another twice: null there, last write wins *)
Example C07_example_polars_stage :
  finish_polars (pexec (fun (s : unit) (a : nat) => (s, Some a)) tt [(2, 7); (0, 8); (2, 9)] (pstage_uninit 3))
    = Done [Some 8; None; Some 9]
  /\ finish (exec (fun (s : unit) (a : nat) => (s, Some a)) tt [(2, 7); (0, 8); (2, 9)] (repeat None 3))
    = Uninit [Some (Some 8); None; Some (Some 9)].
Proof. split; vm_compute; reflexivity. Qed.

(* non-vacuity: a wrapped ring and a reversed view *)
Example C07_example_ring :
  let r := {| rbuf := [3; 4; 1; 2]; rhead := 2; rlen := 4 |} in
  ring_wf r /\ ring_to_list r = [1; 2; 3; 4] /\ ring_try_as_slice r = None.
Proof. cbv zeta. unfold ring_wf, rcap. cbn. repeat split; lia. Qed.

Example C07_example_reversed_view :
  let s := {| sbase := [1; 2; 3; 4]; soff := 3; sstep := (-1)%Z; slen := 4 |} in
  strided_to_list s = [4; 3; 2; 1] /\ strided_try_as_slice s = None.
Proof. split; reflexivity. Qed.


(* ==== mutable accessors (Vec1Mut::get_mut / uget_mut / try_as_slice_mut) ============================================ *)
(* a write at logical index i is a write at index i of the logical sequence; an out-of-range index is rejected *)
Theorem C07_vec_set : forall (A : Type) (l : list A) (i : nat) (v : A),
  checked_set (length l) (list_uset l) i v = if i <? length l then Some (update l i v) else None.
Proof. exact @checked_set_list. Qed.

Theorem C07_ring_uset : forall (A : Type) (r : ring A), ring_wf r -> forall (i : nat) (v : A),
  option_map (@ring_to_list A) (ring_uset r i v) = if i <? rlen r then Some (update (ring_to_list r) i v) else None.
Proof. exact @ring_uset_to_list. Qed.

Theorem C07_ring_get_mut : forall (A : Type) (r : ring A), ring_wf r -> forall (i : nat) (v : A),
  option_map (@ring_to_list A) (checked_set (rlen r) (ring_uset r) i v)
  = if i <? rlen r then Some (update (ring_to_list r) i v) else None.
Proof. exact @ring_checked_set_to_list. Qed.

Theorem C07_ring_uset_wf : forall (A : Type) (r : ring A), ring_wf r -> forall (i : nat) (v : A) (r' : ring A),
  ring_uset r i v = Some r' -> ring_wf r'.
Proof. exact @ring_uset_wf. Qed.

Theorem C07_ring_uset_layout : forall (A : Type) (r : ring A) (i : nat) (v : A) (r' : ring A),
  ring_uset r i v = Some r' -> rhead r' = rhead r /\ rlen r' = rlen r /\ rcap r' = rcap r.
Proof. exact @ring_uset_layout. Qed.

Theorem C07_ring_get_after_set : forall (A : Type) (r r' : ring A) (i : nat) (v : A) (j : nat),
  ring_wf r -> ring_uset r i v = Some r' -> ring_get r' j = if j =? i then Some v else ring_get r j.
Proof. exact @ring_get_uset. Qed.

(* try_as_slice_mut is offered exactly when try_as_slice is; a write through it at index k IS the write at
   logical index k (same resulting buffer), hence the update of the logical sequence at k *)
Theorem C07_ring_slice_mut_offered : forall (A : Type) (r : ring A), ring_wf r -> forall (k : nat) (v : A),
  ring_slice_mut_set r k v = None <-> ring_try_as_slice r = None.
Proof. exact @ring_slice_mut_offered. Qed.

Theorem C07_ring_slice_mut_is_set : forall (A : Type) (r : ring A), ring_wf r ->
  forall (k : nat) (v : A) (w : option (ring A)), ring_slice_mut_set r k v = Some w -> w = ring_uset r k v.
Proof. exact @ring_slice_mut_is_uset. Qed.

Theorem C07_ring_slice_mut : forall (A : Type) (r : ring A), ring_wf r ->
  forall (k : nat) (v : A) (w : option (ring A)), ring_slice_mut_set r k v = Some w ->
  option_map (@ring_to_list A) w = if k <? rlen r then Some (update (ring_to_list r) k v) else None.
Proof. exact @ring_slice_mut_to_list. Qed.

Theorem C07_ring_slice_after_set : forall (A : Type) (r r' : ring A) (i : nat) (v : A),
  ring_wf r -> ring_uset r i v = Some r' ->
  ring_try_as_slice r' = option_map (fun l => update l i v) (ring_try_as_slice r).
Proof. exact @ring_try_as_slice_uset. Qed.

(* ndarray mutable views: every non-zero stride (a mutable view never aliases two logical positions) *)
Theorem C07_strided_uset : forall (A : Type) (s : strided A), strided_wf s -> (sstep s <> 0)%Z ->
  forall (i : nat) (v : A),
  option_map (@strided_to_list A) (strided_uset s i v)
  = if i <? slen s then Some (update (strided_to_list s) i v) else None.
Proof. exact @strided_uset_to_list. Qed.

Theorem C07_strided_get_mut : forall (A : Type) (s : strided A), strided_wf s -> (sstep s <> 0)%Z ->
  forall (i : nat) (v : A),
  option_map (@strided_to_list A) (checked_set (slen s) (strided_uset s) i v)
  = if i <? slen s then Some (update (strided_to_list s) i v) else None.
Proof. exact @strided_checked_set_to_list. Qed.

Theorem C07_strided_uset_wf : forall (A : Type) (s : strided A), strided_wf s -> forall (i : nat) (v : A) (s' : strided A),
  strided_uset s i v = Some s' -> strided_wf s'.
Proof. exact @strided_uset_wf. Qed.

Theorem C07_strided_get_after_set : forall (A : Type) (s s' : strided A) (i : nat) (v : A) (j : nat),
  strided_wf s -> (sstep s <> 0)%Z -> strided_uset s i v = Some s' ->
  strided_get s' j = if j =? i then Some v else strided_get s j.
Proof. exact @strided_get_uset. Qed.

Theorem C07_strided_slice_mut_offered : forall (A : Type) (s : strided A) (k : nat) (v : A),
  strided_slice_mut_set s k v = None <-> strided_try_as_slice s = None.
Proof. exact @strided_slice_mut_offered. Qed.

Theorem C07_strided_slice_mut_is_set : forall (A : Type) (s : strided A) (k : nat) (v : A) (w : option (strided A)),
  strided_slice_mut_set s k v = Some w -> w = strided_uset s k v.
Proof. exact @strided_slice_mut_is_uset. Qed.

Theorem C07_strided_slice_mut : forall (A : Type) (s : strided A), strided_wf s -> (sstep s <> 0)%Z ->
  forall (k : nat) (v : A) (w : option (strided A)), strided_slice_mut_set s k v = Some w ->
  option_map (@strided_to_list A) w = if k <? slen s then Some (update (strided_to_list s) k v) else None.
Proof. exact @strided_slice_mut_to_list. Qed.

(* a reversed (or any negative-stride) view of two or more elements offers no mutable slice *)
Theorem C07_strided_reversed_no_slice_mut : forall (A : Type) (s : strided A) (k : nat) (v : A),
  (sstep s < 0)%Z -> 2 <= slen s -> strided_slice_mut_set s k v = None.
Proof. exact @strided_reversed_no_slice_mut. Qed.

(* the defect class repaired for try_as_slice (memory order) would have been a defect here too: witness *)
Theorem C07_memory_order_mut_refuted :
  exists (s : strided nat) (w : strided nat), strided_wf s /\ (sstep s <> 0)%Z /\
    strided_memory_order_mut_set s 0 9 = Some (Some w) /\
    strided_to_list s = [4; 3; 2; 1] /\ strided_to_list w = [4; 3; 2; 9] /\
    update (strided_to_list s) 0 9 = [9; 3; 2; 1].
Proof. exact strided_memory_order_mut_refuted. Qed.

(* the list laws the statements above are phrased with *)
Theorem C07_update_nth : forall (A : Type) (l : list A) (i : nat) (v : A) (j : nat),
  nth_error (update l i v) j = if andb (j =? i) (i <? length l) then Some v else nth_error l j.
Proof. exact @nth_error_update. Qed.

Theorem C07_update_length : forall (A : Type) (l : list A) (i : nat) (v : A), length (update l i v) = length l.
Proof. exact @update_length. Qed.

Theorem C07_update_same : forall (A : Type) (l : list A) (i : nat) (x : A), nth_error l i = Some x -> update l i x = l.
Proof. exact @update_same. Qed.

Theorem C07_update_twice : forall (A : Type) (l : list A) (i : nat) (v w : A), update (update l i v) i w = update l i w.
Proof. exact @update_update. Qed.

Theorem C07_update_comm : forall (A : Type) (l : list A) (i j : nat) (v w : A), i <> j ->
  update (update l i v) j w = update (update l j w) i v.
Proof. exact @update_comm. Qed.

(* ==== valid get (vget / uvget) and the element-wise iterators (to_opt_iter / iter_cast / opt_iter_cast) ============= *)
(* vget c i = match get c i with Some x => if is_none x then None else Some (unwrap x) | None => None end *)
Theorem C07_vget : forall (T I : Type) (N : IsNone T I) (l : list T) (i : nat),
  valid_get to_opt (length l) (nth_error l) i
  = match nth_error l i with Some x => if is_none x then None else Some (unwrap x) | None => None end.
Proof. intros. apply valid_get_spec. Qed.

Theorem C07_uvget : forall (T I : Type) (to_opt : T -> option I) (l : list T) (i : nat),
  i < length l -> uvalid_get to_opt (nth_error l) i = valid_get to_opt (length l) (nth_error l) i.
Proof. exact @uvalid_get_spec. Qed.

Theorem C07_ring_vget : forall (T I : Type) (to_opt : T -> option I) (r : ring T) (i : nat), ring_wf r ->
  valid_get to_opt (rlen r) (ring_get r) i
  = match nth_error (ring_to_list r) i with Some x => to_opt x | None => None end.
Proof. exact @ring_valid_get. Qed.

Theorem C07_strided_vget : forall (T I : Type) (to_opt : T -> option I) (s : strided T) (i : nat), strided_wf s ->
  valid_get to_opt (slen s) (strided_get s) i
  = match nth_error (strided_to_list s) i with Some x => to_opt x | None => None end.
Proof. exact @strided_valid_get. Qed.

Theorem C07_chunked_vget : forall (T I : Type) (to_opt : option T -> option I) (c : chunked T) (i : nat),
  valid_get to_opt (chunked_len c) (chunked_get c) i
  = match nth_error (chunked_to_list c) i with Some x => to_opt x | None => None end.
Proof. exact @chunked_valid_get. Qed.

(* position i of to_opt_iter is vget(i); opt_iter_cast is to_opt_iter followed by the cast; iter_cast is get then cast *)
Theorem C07_to_opt_iter : forall (T I : Type) (to_opt : T -> option I) (l : list T) (i : nat),
  nth_error (to_opt_iter_m to_opt l) i
  = if i <? length l then Some (valid_get to_opt (length l) (nth_error l) i) else None.
Proof. exact @to_opt_iter_nth. Qed.

Theorem C07_iter_cast : forall (T U : Type) (cast : T -> U) (l : list T) (i : nat),
  nth_error (iter_cast_m cast l) i = option_map cast (nth_error l i).
Proof. exact @iter_cast_nth. Qed.

Theorem C07_opt_iter_cast : forall (T I U : Type) (to_opt : T -> option I) (cast : I -> U) (l : list T) (i : nat),
  nth_error (opt_iter_cast_m to_opt cast l) i
  = if i <? length l then Some (option_map cast (valid_get to_opt (length l) (nth_error l) i)) else None.
Proof. exact @opt_iter_cast_nth. Qed.

Theorem C07_elementwise_lengths : forall (T I U V : Type) (to_opt : T -> option I) (cast : T -> U) (cast' : I -> V) (l : list T),
  length (to_opt_iter_m to_opt l) = length l /\ length (iter_cast_m cast l) = length l
  /\ length (opt_iter_cast_m to_opt cast' l) = length l.
Proof. exact @elementwise_lengths. Qed.

(* a write is seen by the valid get *)
Theorem C07_vget_after_set : forall (T I : Type) (to_opt : T -> option I) (l : list T) (i : nat) (v : T) (j : nat),
  i < length l ->
  valid_get to_opt (length (update l i v)) (nth_error (update l i v)) j
  = if j =? i then to_opt v else valid_get to_opt (length l) (nth_error l) j.
Proof. exact @valid_get_update. Qed.

(* non-vacuity of the new implications *)
Example C07_example_ring_set :
  let r := {| rbuf := [3; 4; 1; 2]; rhead := 2; rlen := 4 |} in
  ring_wf r /\ option_map (@ring_to_list nat) (ring_uset r 3 9) = Some [1; 2; 3; 9]
  /\ ring_slice_mut_set r 0 9 = None /\ ring_uset r 4 9 = None.
Proof. cbv zeta. unfold ring_wf, rcap. cbn. repeat split; lia. Qed.

Example C07_example_ring_slice_mut :
  let r := {| rbuf := [0; 1; 2; 3]; rhead := 1; rlen := 3 |} in
  ring_wf r /\ exists w, ring_slice_mut_set r 2 9 = Some (Some w) /\ ring_to_list w = [1; 2; 9]
  /\ ring_try_as_slice r = Some [1; 2; 3].
Proof. cbv zeta. unfold ring_wf, rcap. cbn. split; [lia|]. eexists. repeat split. Qed.

Example C07_example_reversed_set :
  let s := {| sbase := [1; 2; 3; 4]; soff := 3; sstep := (-1)%Z; slen := 4 |} in
  strided_wf s /\ (sstep s <> 0)%Z /\ (sstep s < 0)%Z /\ 2 <= slen s
  /\ option_map (@strided_to_list nat) (strided_uset s 0 9) = Some [9; 3; 2; 1]
  /\ strided_slice_mut_set s 0 9 = None.
Proof.
  cbv zeta. split; [|cbn; repeat split; lia].
  intros i Hi. unfold spos. cbn [soff sstep sbase slen length] in *. lia.
Qed.

Example C07_example_standard_slice_mut :
  let s := {| sbase := [1; 2; 3; 4]; soff := 1; sstep := 1%Z; slen := 3 |} in
  exists w, strided_slice_mut_set s 1 9 = Some (Some w) /\ strided_to_list w = [2; 9; 4]
  /\ strided_uset s 1 9 = Some w.
Proof. cbv zeta. eexists. repeat split. Qed.

Example C07_example_vget :
  valid_get (fun x : nat => if x =? 0 then None else Some x) 3 (nth_error [5; 0; 7]) 0 = Some 5
  /\ valid_get (fun x : nat => if x =? 0 then None else Some x) 3 (nth_error [5; 0; 7]) 1 = None
  /\ valid_get (fun x : nat => if x =? 0 then None else Some x) 3 (nth_error [5; 0; 7]) 3 = None
  /\ update [5; 0; 7] 1 4 = [5; 4; 7] /\ nth_error [5; 0; 7] 2 = Some 7.
Proof. repeat split. Qed.

Print Assumptions C07_ring_length.
Print Assumptions C07_ring_get.
Print Assumptions C07_ring_try_as_slice.
Print Assumptions C07_strided_length.
Print Assumptions C07_strided_get.
Print Assumptions C07_strided_try_as_slice.
Print Assumptions C07_chunked_get.
Print Assumptions C07_chunked_len.
Print Assumptions C07_chunking_irrelevant.
Print Assumptions C07_checked_get.
Print Assumptions C07_out_path.
Print Assumptions C07_total.
Print Assumptions C07_out_path_custom.
Print Assumptions C07_polars_stage_refines.
Print Assumptions C07_polars_stage_total.
Print Assumptions C07_polars_stage_slot.
Print Assumptions C07_polars_out_any_window.
Print Assumptions C07_polars_out_rolling_apply.
Print Assumptions C07_polars_out_rolling_apply_idx.
Print Assumptions C07_polars_out_rolling_custom.
Print Assumptions C07_polars_out_rolling2_apply.
Print Assumptions C07_polars_out_rolling2_apply_idx.
Print Assumptions C07_polars_out_feature.
Print Assumptions C07_polars_collect.
Print Assumptions C07_vec_set.
Print Assumptions C07_ring_uset.
Print Assumptions C07_ring_get_mut.
Print Assumptions C07_ring_uset_wf.
Print Assumptions C07_ring_uset_layout.
Print Assumptions C07_ring_get_after_set.
Print Assumptions C07_ring_slice_mut_offered.
Print Assumptions C07_ring_slice_mut_is_set.
Print Assumptions C07_ring_slice_mut.
Print Assumptions C07_ring_slice_after_set.
Print Assumptions C07_strided_uset.
Print Assumptions C07_strided_get_mut.
Print Assumptions C07_strided_uset_wf.
Print Assumptions C07_strided_get_after_set.
Print Assumptions C07_strided_slice_mut_offered.
Print Assumptions C07_strided_slice_mut_is_set.
Print Assumptions C07_strided_slice_mut.
Print Assumptions C07_strided_reversed_no_slice_mut.
Print Assumptions C07_memory_order_mut_refuted.
Print Assumptions C07_update_nth.
Print Assumptions C07_update_length.
Print Assumptions C07_update_same.
Print Assumptions C07_update_twice.
Print Assumptions C07_update_comm.
Print Assumptions C07_vget.
Print Assumptions C07_uvget.
Print Assumptions C07_ring_vget.
Print Assumptions C07_strided_vget.
Print Assumptions C07_chunked_vget.
Print Assumptions C07_to_opt_iter.
Print Assumptions C07_iter_cast.
Print Assumptions C07_opt_iter_cast.
Print Assumptions C07_elementwise_lengths.
Print Assumptions C07_vget_after_set.
