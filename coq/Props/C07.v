(* Props/C07.v — property C07: results are independent of input backend, output container and
   out-buffer path; each container's accessors describe one logical sequence.  Axiom-free.       *)
From Coq Require Import ZArith.
From Tevec Require Import Base.Prelude Base.Num Model.Driver Proofs.Driver Model.Features
     Proofs.Generic Model.Containers Proofs.Containers.

(* ---- VecDeque (ring buffer) in any rotation: wrapped or contiguous ---------------------------- *)
Theorem C07_ring_length : forall (A : Type) (r : ring A), ring_wf r -> length (ring_to_list r) = rlen r.
Proof. exact @ring_to_list_length. Qed.

Theorem C07_ring_get : forall (A : Type) (r : ring A), ring_wf r ->
  forall i, nth_error (ring_to_list r) i = ring_get r i.
Proof. exact @ring_get_to_list. Qed.

Theorem C07_ring_try_as_slice : forall (A : Type) (r : ring A), ring_wf r ->
  forall l, ring_try_as_slice r = Some l -> l = ring_to_list r.
Proof. exact @ring_try_as_slice_sound. Qed.

(* ---- ndarray views with any stride (positive, negative) and offset ------------------------------ *)
Theorem C07_strided_length : forall (A : Type) (s : strided A), strided_wf s ->
  length (strided_to_list s) = slen s.
Proof. exact @strided_to_list_length. Qed.

Theorem C07_strided_get : forall (A : Type) (s : strided A), strided_wf s ->
  forall i, nth_error (strided_to_list s) i = strided_get s i.
Proof. exact @strided_to_list_nth. Qed.

Theorem C07_strided_try_as_slice : forall (A : Type) (s : strided A), strided_wf s ->
  forall l, strided_try_as_slice s = Some l -> l = strided_to_list s.
Proof. exact @strided_try_as_slice_sound. Qed.

(* ---- Polars chunked arrays under any chunking ------------------------------------------------------ *)
Theorem C07_chunked_get : forall (A : Type) (c : chunked A) (i : nat),
  chunked_get c i = nth_error (chunked_to_list c) i.
Proof. exact @chunked_get_spec. Qed.

Theorem C07_chunked_len : forall (A : Type) (c : chunked A), chunked_len c = length (chunked_to_list c).
Proof. exact @chunked_len_spec. Qed.

Theorem C07_chunking_irrelevant : forall (A : Type) (c1 c2 : chunked A) (i : nat),
  chunked_to_list c1 = chunked_to_list c2 -> chunked_get c1 i = chunked_get c2 i.
Proof. exact @chunked_rechunk. Qed.

(* ---- the checked accessor of view.rs ------------------------------------------------------------------ *)
Theorem C07_checked_get : forall (A : Type) (l : list A) (i : nat),
  checked_get (length l) (nth_error l) i
  = match nth_error l i with Some x => Ok x | None => Panic OtherPanic end.
Proof. exact @checked_get_spec. Qed.

(* ---- returned path = caller-buffer path = fast path ------------------------------------------------- *)
(* every rolling feature (add-emit-remove) gives the same, complete result through the iterator body
   (default backends, returned) and the two-phase index body (caller buffer; Vec / ndarray fast path) *)
Theorem C07_out_path :
  forall (T St O : Type) (F : feat T St O) (w : nat) (xs : list T),
    1 <= w -> ts_run F true w xs = ts_run F false w xs.
Proof. intros T St O F w xs Hw. rewrite !ts_run_iter by exact Hw. reflexivity. Qed.

Theorem C07_total :
  forall (T St O : Type) (F : feat T St O) (w : nat) (xs : list T) (body : bool),
    1 <= w -> exists out, ts_run F body w xs = Done out /\ length out = length xs.
Proof. exact @ts_run_total. Qed.

(* the slice forms pass the same windows on both paths *)
Theorem C07_out_path_custom :
  forall (T St O : Type) (f : St -> list T -> St * O) (s0 : St) (xs : list T) (w : nat),
    1 <= w -> rolling_custom_to w f s0 xs = rolling_custom_default w f s0 xs.
Proof. intros. rewrite rolling_custom_to_eq, rolling_custom_default_eq by assumption. reflexivity. Qed.

(* non-vacuity: a wrapped ring and a reversed view *)
Example C07_example_ring :
  let r := {| rbuf := [3; 4; 1; 2]; rhead := 2; rlen := 4 |} in
  ring_wf r /\ ring_to_list r = [1; 2; 3; 4] /\ ring_try_as_slice r = None.
Proof. cbv zeta. unfold ring_wf, rcap. cbn. repeat split; lia. Qed.

Example C07_example_reversed_view :
  let s := {| sbase := [1; 2; 3; 4]; soff := 3; sstep := (-1)%Z; slen := 4 |} in
  strided_to_list s = [4; 3; 2; 1] /\ strided_try_as_slice s = None.
Proof. split; reflexivity. Qed.

Print Assumptions C07_ring_length.
Print Assumptions C07_ring_get.
Print Assumptions C07_ring_try_as_slice.
Print Assumptions C07_strided_length.
Print Assumptions C07_strided_get.
Print Assumptions C07_strided_try_as_slice.
Print Assumptions C07_chunked_get.
Print Assumptions C07_chunked_len.
Print Assumptions C07_chunking_irrelevant.
Print Assumptions C07_checked_get.
Print Assumptions C07_out_path.
Print Assumptions C07_total.
Print Assumptions C07_out_path_custom.
