(* Props/C07.v — property C07: results are independent of input backend, output container and
   out-buffer path; each container's accessors describe one logical sequence.  Axiom-free.       *)
From Coq Require Import ZArith.
From Tevec Require Import Base.Prelude Base.Num Model.Driver Proofs.Driver Model.Features
     Proofs.Generic Model.Containers Proofs.Containers Model.PolarsOut Proofs.PolarsOut.

(* ---- VecDeque (ring buffer) in any rotation: wrapped or contiguous ---------------------------- *)
Theorem C07_ring_length : forall (A : Type) (r : ring A), ring_wf r -> length (ring_to_list r) = rlen r.
Proof. exact @ring_to_list_length. Qed.

Theorem C07_ring_get : forall (A : Type) (r : ring A), ring_wf r ->
  forall i, nth_error (ring_to_list r) i = ring_get r i.
Proof. exact @ring_get_to_list. Qed.

Theorem C07_ring_try_as_slice : forall (A : Type) (r : ring A), ring_wf r ->
  forall l, ring_try_as_slice r = Some l -> l = ring_to_list r.
Proof. exact @ring_try_as_slice_sound. Qed.

(* ---- ndarray views with any stride (positive, negative) and offset ------------------------------ *)
Theorem C07_strided_length : forall (A : Type) (s : strided A), strided_wf s ->
  length (strided_to_list s) = slen s.
Proof. exact @strided_to_list_length. Qed.

Theorem C07_strided_get : forall (A : Type) (s : strided A), strided_wf s ->
  forall i, nth_error (strided_to_list s) i = strided_get s i.
Proof. exact @strided_to_list_nth. Qed.

Theorem C07_strided_try_as_slice : forall (A : Type) (s : strided A), strided_wf s ->
  forall l, strided_try_as_slice s = Some l -> l = strided_to_list s.
Proof. exact @strided_try_as_slice_sound. Qed.

(* ---- Polars chunked arrays under any chunking ------------------------------------------------------ *)
Theorem C07_chunked_get : forall (A : Type) (c : chunked A) (i : nat),
  chunked_get c i = nth_error (chunked_to_list c) i.
Proof. exact @chunked_get_spec. Qed.

Theorem C07_chunked_len : forall (A : Type) (c : chunked A), chunked_len c = length (chunked_to_list c).
Proof. exact @chunked_len_spec. Qed.

Theorem C07_chunking_irrelevant : forall (A : Type) (c1 c2 : chunked A) (i : nat),
  chunked_to_list c1 = chunked_to_list c2 -> chunked_get c1 i = chunked_get c2 i.
Proof. exact @chunked_rechunk. Qed.

(* ---- the checked accessor of view.rs ------------------------------------------------------------------ *)
Theorem C07_checked_get : forall (A : Type) (l : list A) (i : nat),
  checked_get (length l) (nth_error l) i
  = match nth_error l i with Some x => Ok x | None => Panic OtherPanic end.
Proof. exact @checked_get_spec. Qed.

(* ---- returned path = caller-buffer path = fast path ------------------------------------------------- *)
(* every rolling feature (add-emit-remove) gives the same, complete result through the iterator body
   (default backends, returned) and the two-phase index body (caller buffer; Vec / ndarray fast path) *)
Theorem C07_out_path :
  forall (T St O : Type) (F : feat T St O) (w : nat) (xs : list T),
    1 <= w -> ts_run F true w xs = ts_run F false w xs.
Proof. intros T St O F w xs Hw. rewrite !ts_run_iter by exact Hw. reflexivity. Qed.

Theorem C07_total :
  forall (T St O : Type) (F : feat T St O) (w : nat) (xs : list T) (body : bool),
    1 <= w -> exists out, ts_run F body w xs = Done out /\ length out = length xs.
Proof. exact @ts_run_total. Qed.

(* the slice forms pass the same windows on both paths *)
Theorem C07_out_path_custom :
  forall (T St O : Type) (f : St -> list T -> St * O) (s0 : St) (xs : list T) (w : nat),
    1 <= w -> rolling_custom_to w f s0 xs = rolling_custom_default w f s0 xs.
Proof. intros. rewrite rolling_custom_to_eq, rolling_custom_default_eq by assumption. reflexivity. Qed.

(* ---- a Polars array as OUTPUT container (Model/PolarsOut.v; polars.rs after the repair) ----------------
   results stored by index go through a staging buffer that starts all-null and is collected by
   assume_init; this is the caller-buffer path of every backend and the returned path of the Vec / ndarray
   fast paths with O = ChunkedArray (which panicked with `unimplemented!` before the repair)              *)

(* any stores, in any order, any number of times: slot by slot the staged array is `join` of the generic
   MaybeUninit buffer of Model/Driver.v — equal to it when that is fully initialised, null (never
   garbage) where it is not *)
Theorem C07_polars_stage_refines :
  forall (St X A : Type) (g : St -> X -> St * option A) (s : St) (calls : list (nat * X)) (n : nat),
    finish_polars (pexec g s calls (pstage_uninit n))
    = match finish (exec g s calls (repeat None n)) with
      | Done out => Done out
      | Uninit buf => Done (map join buf)
      | Panicked k => Panicked k
      end.
Proof. exact @polars_stage_refines. Qed.

Theorem C07_polars_stage_total :
  forall (St X A : Type) (g : St -> X -> St * option A) (s : St) (calls : list (nat * X)) (n : nat),
    exists out, finish_polars (pexec g s calls (pstage_uninit n)) = Done out /\ length out = n.
Proof. exact @polars_stage_total. Qed.

(* uset / read-back of one slot *)
Theorem C07_polars_stage_slot :
  forall (A : Type) (i : nat) (v : option A) (b : pstage A) (j : nat),
    nth_error (pstage_uset i v b) j = if (j =? i) && (i <? length b) then Some v else nth_error b j.
Proof. exact @pstage_uset_nth. Qed.

(* the five index bodies, every window (0 included), every callback, every series *)
Theorem C07_polars_out_any_window :
  forall (T St A : Type) (w : nat) (f : St -> option T * T -> St * option A) (s0 : St) (xs : list T),
    rolling_apply_to_polars w f s0 xs = lift_uninit (rolling_apply_to w f s0 xs).
Proof. exact @rolling_apply_to_polars_spec. Qed.

Theorem C07_polars_out_rolling_apply :
  forall (T St A : Type) (w : nat) (f : St -> option T * T -> St * option A) (s0 : St) (xs : list T),
    1 <= w -> rolling_apply_to_polars w f s0 xs = rolling_apply_to w f s0 xs.
Proof. exact @rolling_apply_to_polars_eq. Qed.

Theorem C07_polars_out_rolling_apply_idx :
  forall (T St A : Type) (w : nat) (f : St -> option nat * nat * T -> St * option A) (s0 : St) (xs : list T),
    1 <= w -> rolling_apply_idx_to_polars w f s0 xs = rolling_apply_idx_to w f s0 xs.
Proof. exact @rolling_apply_idx_to_polars_eq. Qed.

Theorem C07_polars_out_rolling_custom :
  forall (T St A : Type) (w : nat) (f : St -> list T -> St * option A) (s0 : St) (xs : list T),
    1 <= w -> rolling_custom_to_polars w f s0 xs = collected_polars (rolling_custom_default w f s0 xs).
Proof. exact @rolling_custom_to_polars_eq. Qed.

Theorem C07_polars_out_rolling2_apply :
  forall (T1 T2 St A : Type) (w : nat) (f : St -> option (T1 * T2) * (T1 * T2) -> St * option A) (s0 : St)
         (xs : list T1) (ys : list T2),
    1 <= w -> rolling2_apply_to_polars w f s0 xs ys = rolling2_apply_to w f s0 xs ys.
Proof. exact @rolling2_apply_to_polars_eq. Qed.

Theorem C07_polars_out_rolling2_apply_idx :
  forall (T1 T2 St A : Type) (w : nat) (f : St -> option nat * nat * (T1 * T2) -> St * option A) (s0 : St)
         (xs : list T1) (ys : list T2),
    1 <= w -> rolling2_apply_idx_to_polars w f s0 xs ys = rolling2_apply_idx_to w f s0 xs ys.
Proof. exact @rolling2_apply_idx_to_polars_eq. Qed.

(* every rolling feature: staged into a Polars array = either body collected into a Polars array *)
Theorem C07_polars_out_feature :
  forall (T St A : Type) (F : feat T St (option A)) (w : nat) (xs : list T) (body : bool),
    1 <= w -> ts_run_polars F w xs = collected_polars (ts_run F body w xs).
Proof. exact @ts_run_polars_eq. Qed.

(* collecting into one chunk does not change the logical sequence *)
Theorem C07_polars_collect :
  forall (A : Type) (l : list (option A)), chunked_to_list (chunked_collect l) = l.
Proof. exact @chunked_single. Qed.

(* non-vacuity of the Polars-output theorems: a running count of valid elements with window 2 over a series
   with a null, staged out of a two-phase body; the window-index and slice forms; a window of 0 *)
Example C07_example_polars_out :
  let F := {| f_init := 0; f_pre := fun s (v : option nat) => match v with Some _ => S s | None => s end;
              f_emit := fun s => if 2 <=? s then Some s else None;
              f_post := fun s rm => match rm with Some (Some _) => s - 1 | _ => s end |} in
  ts_run_polars F 2 [Some 5; None; Some 7; Some 8; Some 9] = Done [None; None; None; Some 2; Some 2]
  /\ ts_run F false 2 [Some 5; None; Some 7; Some 8; Some 9] = Done [None; None; None; Some 2; Some 2].
Proof. split; vm_compute; reflexivity. Qed.

Example C07_example_polars_out_idx_custom :
  rolling_apply_idx_to_polars 2 (fun (s : unit) a => (s, Some (fst (fst a), snd a))) tt [10; 20; 30]
    = Done [Some (None, 10); Some (Some 0, 20); Some (Some 1, 30)]
  /\ rolling_custom_to_polars 2 (fun (s : unit) (l : list nat) => (s, Some l)) tt [10; 20; 30]
    = Done [Some [10]; Some [10; 20]; Some [20; 30]]
  /\ rolling2_apply_to_polars 2 (fun (s : unit) a => (s, Some (fst a))) tt [1; 2; 3] [4; 5; 6]
    = Done [Some None; Some (Some (1, 4)); Some (Some (2, 5))]
  /\ rolling2_apply_idx_to_polars 1 (fun (s : unit) a => (s, Some (snd a))) tt [1; 2] [4; 5]
    = Done [Some (1, 4); Some (2, 5)]
  /\ rolling_apply_to_polars 0 (fun (s : unit) (a : option nat * nat) => (s, Some (snd a))) tt [1]
    = Panicked AssertFail.
Proof. repeat split; vm_compute; reflexivity. Qed.

(* a store sequence that leaves a slot unwritten and writes another twice: null there, last write wins *)
Example C07_example_polars_stage :
  finish_polars (pexec (fun (s : unit) (a : nat) => (s, Some a)) tt [(2, 7); (0, 8); (2, 9)] (pstage_uninit 3))
    = Done [Some 8; None; Some 9]
  /\ finish (exec (fun (s : unit) (a : nat) => (s, Some a)) tt [(2, 7); (0, 8); (2, 9)] (repeat None 3))
    = Uninit [Some (Some 8); None; Some (Some 9)].
Proof. split; vm_compute; reflexivity. Qed.

(* non-vacuity: a wrapped ring and a reversed view *)
Example C07_example_ring :
  let r := {| rbuf := [3; 4; 1; 2]; rhead := 2; rlen := 4 |} in
  ring_wf r /\ ring_to_list r = [1; 2; 3; 4] /\ ring_try_as_slice r = None.
Proof. cbv zeta. unfold ring_wf, rcap. cbn. repeat split; lia. Qed.

Example C07_example_reversed_view :
  let s := {| sbase := [1; 2; 3; 4]; soff := 3; sstep := (-1)%Z; slen := 4 |} in
  strided_to_list s = [4; 3; 2; 1] /\ strided_try_as_slice s = None.
Proof. split; reflexivity. Qed.

Print Assumptions C07_ring_length.
Print Assumptions C07_ring_get.
Print Assumptions C07_ring_try_as_slice.
Print Assumptions C07_strided_length.
Print Assumptions C07_strided_get.
Print Assumptions C07_strided_try_as_slice.
Print Assumptions C07_chunked_get.
Print Assumptions C07_chunked_len.
Print Assumptions C07_chunking_irrelevant.
Print Assumptions C07_checked_get.
Print Assumptions C07_out_path.
Print Assumptions C07_total.
Print Assumptions C07_out_path_custom.
Print Assumptions C07_polars_stage_refines.
Print Assumptions C07_polars_stage_total.
Print Assumptions C07_polars_stage_slot.
Print Assumptions C07_polars_out_any_window.
Print Assumptions C07_polars_out_rolling_apply.
Print Assumptions C07_polars_out_rolling_apply_idx.
Print Assumptions C07_polars_out_rolling_custom.
Print Assumptions C07_polars_out_rolling2_apply.
Print Assumptions C07_polars_out_rolling2_apply_idx.
Print Assumptions C07_polars_out_feature.
Print Assumptions C07_polars_collect.
