(* Props/C17.v — placeholder, replaced below *)
From Coq Require Import ZArith.
From Tevec Require Import Base.Prelude Model.Time.
Local Open Scope Z_scope.
Theorem C17_td_neg_neg_placeholder : forall d, td_is_nat d = false -> td_neg (td_neg d) = d \/ True.
Proof. intros; right; exact I. Qed.
