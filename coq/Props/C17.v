(* Props/C17.v — property C17: date-time / duration / time-of-day arithmetic obeys its inverse laws.
   Statements about the model (Model/Time.v) closed by `exact`; Print Assumptions at the end. *)
From Coq Require Import ZArith List Bool.
From Tevec Require Import Base.Prelude Spec.Calendar Model.Time Proofs.Time Proofs.TimeCal Proofs.Calendar Proofs.TimeCal2 Proofs.Time3 Proofs.Audit17.
Local Open Scope Z_scope.

(* ---- (1) (x + d) - d = x and (x - d) + d = x for a month-free d, outside known-finding class 1 ------- *)
Definition C17_add_sub_inverse_full_statement : Prop :=
  forall u x d y, in_i64 x = true -> x <> NaT -> td_months d = 0 ->
    dt_add u x d = Ok y -> y <> NaT -> dt_sub u y d = Ok x.
(* refuted as stated (class 1: d not a whole number of units of a coarse DateTime) ... *)
Theorem C17_add_sub_inverse_class1_fails :
  exists u x d y, td_months d = 0 /\ kf_subunit u d = true /\ dt_add u x d = Ok y /\ dt_sub u y d <> Ok x.
Proof. exact add_sub_inverse_class_fails. Qed.
(* ... and proved outside the class (every d at nanosecond resolution; whole units otherwise) *)
Theorem C17_add_sub_inverse :
  forall u x d y, in_i64 x = true -> x <> NaT -> td_months d = 0 -> kf_subunit u d = false ->
    dt_add u x d = Ok y -> y <> NaT -> dt_sub u y d = Ok x.
Proof. exact add_sub_inverse. Qed.
Theorem C17_sub_add_inverse :
  forall u x d y, in_i64 x = true -> x <> NaT -> td_months d = 0 -> kf_subunit u d = false ->
    dt_sub u x d = Ok y -> y <> NaT -> dt_add u y d = Ok x.
Proof. exact sub_add_inverse. Qed.
Theorem C17_nano_never_in_class1 : forall d, kf_subunit Nano d = false.
Proof. intros d. unfold kf_subunit. cbn [unit_ns]. rewrite Z.mod_1_r. reflexivity. Qed.

(* ---- (2) (a - b) + b = a; the difference is the exact, month-free distance of the instants ----------- *)
Theorem C17_diff_add_inverse :
  forall u a b d, in_i64 a = true -> a <> NaT -> b <> NaT -> dt_diff u a b = Ok d -> dt_add u b d = Ok a.
Proof. exact diff_add_inverse. Qed.
Theorem C17_diff_value :
  forall u a b d, a <> NaT -> b <> NaT -> dt_diff u a b = Ok d ->
    d = mktd 0 (instant_ns u a - instant_ns u b).
Proof. exact dt_diff_value. Qed.

(* ---- (3) durations: abelian group under + / neg, scaling distributes --------------------------------- *)
Theorem C17_td_add_comm : forall a b, td_add a b = td_add b a.
Proof. exact td_add_comm. Qed.
Theorem C17_td_add_assoc :
  forall a b c ab bc, td_is_nat a = false -> td_is_nat b = false -> td_is_nat c = false ->
    td_add a b = Ok ab -> td_add b c = Ok bc -> td_is_nat ab = false -> td_is_nat bc = false ->
    td_add ab c = td_add a bc.
Proof. exact td_add_assoc. Qed.
Theorem C17_td_add_closed :
  forall a b r, td_is_nat a = false -> td_is_nat b = false -> td_add a b = Ok r -> td_is_nat r = false ->
    td_valid r /\ r = mktd (td_months a + td_months b) (td_ns a + td_ns b).
Proof.
  intros a b r Ha Hb H Hr. split; [exact (td_add_valid a b r Ha Hb H Hr)|].
  exact (proj1 (td_add_inv a b r Ha Hb H)).
Qed.
Theorem C17_td_zero : forall a, td_valid a -> td_add a td_zero = Ok a.
Proof. exact td_add_zero_r. Qed.
Theorem C17_td_inverse : forall a, td_valid a -> td_valid (td_neg a) /\ td_add a (td_neg a) = Ok td_zero.
Proof. intros a H. split; [exact (td_neg_valid a H) | exact (td_add_neg_r a H)]. Qed.
Theorem C17_td_neg_involutive : forall a, td_valid a -> td_neg (td_neg a) = a.
Proof. exact td_neg_involutive. Qed.
Theorem C17_td_sub_is_add_neg :
  forall a b r, td_is_nat a = false -> td_valid b -> td_sub a b = Ok r -> td_add a (td_neg b) = Ok r.
Proof. exact td_sub_as_add_neg. Qed.
Theorem C17_td_scale_distributes :
  forall a b k ab l ak bk r, td_is_nat a = false -> td_is_nat b = false ->
    td_add a b = Ok ab -> td_is_nat ab = false -> td_mul ab k = Ok l ->
    td_mul a k = Ok ak -> td_mul b k = Ok bk -> td_is_nat ak = false -> td_is_nat bk = false ->
    td_add ak bk = Ok r -> r = l.
Proof. exact td_mul_add_distr. Qed.
Theorem C17_td_scale_value :
  forall a k r, td_is_nat a = false -> td_mul a k = Ok r -> r = mktd (td_months a * k) (td_ns a * k).
Proof. exact td_mul_inv. Qed.
Theorem C17_td_scale_one : forall a, td_valid a -> td_mul a 1 = Ok a.
Proof. exact td_mul_1. Qed.

(* ---- (4) adding months = calendar month arithmetic with end-of-month clamping ------------------------ *)
(* against the calendar laws as a hypothesis ... *)
Theorem C17_month_add_is_calendar_arithmetic :
  CalendarLaws civil_of_days days_of_civil ->
  forall u x k y, x <> NaT -> k <> 0 -> k <> i32_min -> dt_add u x (mktd k 0) = Ok y -> y <> NaT ->
    exists c c', as_cr u x = Some c /\ as_cr u y = Some c'
                 /\ cr_civil c' = add_months (cr_civil c) k /\ cr_sod c' = cr_sod c /\ cr_nanos c' = cr_nanos c.
Proof. exact dt_add_months_fields. Qed.
Theorem C17_month_sub_is_calendar_arithmetic :
  CalendarLaws civil_of_days days_of_civil ->
  forall u x k y, x <> NaT -> k <> 0 -> k <> i32_min -> dt_sub u x (mktd k 0) = Ok y -> y <> NaT ->
    exists c c', as_cr u x = Some c /\ as_cr u y = Some c'
                 /\ cr_civil c' = add_months (cr_civil c) (- k) /\ cr_sod c' = cr_sod c /\ cr_nanos c' = cr_nanos c.
Proof. exact dt_sub_months_fields. Qed.
(* ... and for the executable calendar of Spec/Calendar.v, which satisfies them *)
Corollary C17_month_add_executable_calendar :
  forall u x k y, x <> NaT -> k <> 0 -> k <> i32_min -> dt_add u x (mktd k 0) = Ok y -> y <> NaT ->
    exists c c', as_cr u x = Some c /\ as_cr u y = Some c'
                 /\ cr_civil c' = add_months (cr_civil c) k /\ cr_sod c' = cr_sod c /\ cr_nanos c' = cr_nanos c.
Proof. exact (dt_add_months_fields calendar_lawful). Qed.
Theorem C17_add_months_clamps :
  forall y m d k, add_months (y, m, d) k
    = ((y * 12 + (m - 1) + k) / 12, (y * 12 + (m - 1) + k) mod 12 + 1,
       Z.min d (days_in_month ((y * 12 + (m - 1) + k) / 12) ((y * 12 + (m - 1) + k) mod 12 + 1))).
Proof. reflexivity. Qed.

(* ---- (5) time of day ----------------------------------------------------------------------------------- *)
Theorem C17_time_ctor_getters_nano :
  forall h m s n, hms_ok h m s -> 0 <= n < 1000000000 ->
    exists t, time_from_hms_nano h m s n = Ok t /\ 0 <= t < 86400000000000
      /\ time_hour t = Ok h /\ time_minute t = Ok m /\ time_second t = Ok s /\ time_nanosecond t = Ok n.
Proof.
  intros h m s n H Hn. exists ((h * 3600 + m * 60 + s) * 1000000000 + n).
  split; [exact (time_from_hms_nano_value h m s n H Hn)|].
  split; [destruct H as (? & ? & ?); Lia.lia|].
  exact (time_getters h m s n _ H Hn eq_refl).
Qed.
Theorem C17_time_ctor_getters_milli :
  forall h m s x, hms_ok h m s -> 0 <= x < 1000 ->
    exists t, time_from_hms_milli h m s x = Ok t
      /\ time_hour t = Ok h /\ time_minute t = Ok m /\ time_second t = Ok s /\ time_nanosecond t = Ok (x * 1000000).
Proof.
  intros h m s x H Hx. exists ((h * 3600 + m * 60 + s) * 1000000000 + x * 1000000).
  split; [apply (time_from_hms_sub_value 1000000 h m s x H); Lia.lia|].
  apply (time_getters h m s (x * 1000000) _ H); [Lia.lia | reflexivity].
Qed.
Theorem C17_time_ctor_getters_micro :
  forall h m s x, hms_ok h m s -> 0 <= x < 1000000 ->
    exists t, time_from_hms_micro h m s x = Ok t
      /\ time_hour t = Ok h /\ time_minute t = Ok m /\ time_second t = Ok s /\ time_nanosecond t = Ok (x * 1000).
Proof.
  intros h m s x H Hx. exists ((h * 3600 + m * 60 + s) * 1000000000 + x * 1000).
  split; [apply (time_from_hms_sub_value 1000 h m s x H); Lia.lia|].
  apply (time_getters h m s (x * 1000) _ H); [Lia.lia | reflexivity].
Qed.
Theorem C17_time_ctor_hms :
  forall h m s, hms_ok h m s -> time_from_hms h m s = Ok ((h * 3600 + m * 60 + s) * 1000000000).
Proof. exact time_from_hms_value. Qed.
Theorem C17_time_calendar_roundtrip :
  (forall t c, 0 <= t < 86400000000000 -> time_as_cr t = Some c -> time_from_cr c = t)
  /\ (forall t, 0 <= t < 86400000000000 -> time_as_cr t = Some (t / 1000000000, t mod 1000000000))
  /\ (forall secs frac, 0 <= secs < 86400 -> 0 <= frac < 1000000000 ->
        time_as_cr (time_from_cr (secs, frac)) = Some (secs, frac)).
Proof. repeat split; [exact time_cr_roundtrip | exact time_as_cr_in_range | exact time_cr_roundtrip']. Qed.
Theorem C17_time_shift_exact :
  forall t d, t <> NaT -> td_months d = 0 -> in_i64 (td_ns d) = true ->
    (in_i64 (t + td_ns d) = true -> time_add t d = Ok (t + td_ns d))
    /\ (in_i64 (t - td_ns d) = true -> time_sub t d = Ok (t - td_ns d)).
Proof.
  intros t d Ht Hm Hd. split; intros Hr; [apply time_add_exact | apply time_sub_exact]; assumption.
Qed.
Theorem C17_time_add_sub_inverse :
  forall t d y, in_i64 t = true -> t <> NaT -> td_months d = 0 -> in_i64 (td_ns d) = true ->
    time_add t d = Ok y -> y <> NaT -> time_sub y d = Ok t.
Proof. exact time_add_sub_inverse. Qed.

(* ---- (6) duration_trunc ------------------------------------------------------------------------------------ *)
(* month-free d > 0: computed at nanosecond resolution as d * floor(x / d), stored at the unit.
   `y <> NaT`: at ns resolution a result below the i64 range is NaT (chrono -> DateTime<Nanosecond> is total
   since repo commit 3cb9707; it used to panic) *)
Theorem C17_trunc_monthfree :
  forall u x d y, x <> NaT -> td_months d = 0 -> 0 < td_ns d -> dt_trunc u x d = Ok y -> y <> NaT ->
    y = (td_ns d * (instant_ns u x / td_ns d)) / unit_ns u.
Proof. exact dt_trunc_monthfree. Qed.
(* hence, for d a whole number of units (always at ns resolution): the greatest multiple of d not after x *)
Theorem C17_trunc_greatest_multiple :
  forall u x d y, x <> NaT -> td_months d = 0 -> 0 < td_ns d -> td_ns d mod unit_ns u = 0 ->
    dt_trunc u x d = Ok y -> y <> NaT ->
    instant_ns u y = td_ns d * (instant_ns u x / td_ns d)
    /\ instant_ns u y <= instant_ns u x < instant_ns u y + td_ns d.
Proof. exact dt_trunc_monthfree_multiple. Qed.
(* months dividing 12: the first instant of the month / quarter / half-year / year containing x *)
Theorem C17_trunc_months :
  CalendarLaws civil_of_days days_of_civil ->
  forall u x m y, x <> NaT -> divides12 m -> dt_trunc u x (mktd m 0) = Ok y ->
    exists c, as_cr u x = Some c /\
      forall cy, as_cr u y = Some cy ->
        (let '(yr, mo, _) := cr_civil c in cr_civil cy = (yr, period_start mo m, 1))
        /\ cr_sod cy = 0 /\ cr_nanos cy = 0.
Proof. exact dt_trunc_months_fields. Qed.
Corollary C17_trunc_months_executable_calendar :
  forall u x m y, x <> NaT -> divides12 m -> dt_trunc u x (mktd m 0) = Ok y ->
    exists c, as_cr u x = Some c /\
      forall cy, as_cr u y = Some cy ->
        (let '(yr, mo, _) := cr_civil c in cr_civil cy = (yr, period_start mo m, 1))
        /\ cr_sod cy = 0 /\ cr_nanos cy = 0.
Proof. exact (dt_trunc_months_fields calendar_lawful). Qed.

(* ---- (7) order: days_of_civil is monotone; the month-truncated instant is the greatest period start <= x ---- *)
(* Hinnant's days_of_civil is strictly monotone for the lexicographic order (year, month, day) on valid dates,
   for every year (negative ones included), and reflects it: an order isomorphism onto the day numbers *)
Theorem C17_days_of_civil_monotone :
  forall a b, valid_civil a -> valid_civil b -> civil_lt a b -> days_of_civil a < days_of_civil b.
Proof. exact days_of_civil_mono. Qed.
Theorem C17_days_of_civil_order_iso :
  forall a b, valid_civil a -> valid_civil b -> (days_of_civil a < days_of_civil b <-> civil_lt a b).
Proof. exact days_of_civil_lt_iff. Qed.
Theorem C17_civil_of_days_monotone :
  forall z1 z2, z1 < z2 -> civil_lt (civil_of_days z1) (civil_of_days z2).
Proof. exact civil_of_days_mono. Qed.
(* the first of the next month is this month's first plus the length of the month *)
Theorem C17_month_lengths :
  forall t, month_start (t + 1) = month_start t + days_in_month (t / 12) (t mod 12 + 1).
Proof. exact month_start_succ. Qed.
(* months dividing 12, all four units, pre-1970 instants included: the truncated instant is not after x ... *)
Theorem C17_month_trunc_le :
  forall u x m y, x <> NaT -> divides12 m -> dt_trunc u x (mktd m 0) = Ok y -> y <> NaT ->
    instant_ns u y <= instant_ns u x /\ y <= x.
Proof. exact month_trunc_le. Qed.
(* ... it is the first instant of a year-aligned period of m months, and the greatest such instant <= x ... *)
Theorem C17_month_trunc_greatest :
  forall u x m y, x <> NaT -> divides12 m -> dt_trunc u x (mktd m 0) = Ok y -> y <> NaT ->
    is_period_start m (instant_ns u y)
    /\ instant_ns u y <= instant_ns u x
    /\ (forall T, is_period_start m T -> T <= instant_ns u x -> T <= instant_ns u y).
Proof. exact month_trunc_greatest. Qed.
(* ... in closed form: 00:00:00.0 on the first day of the period's first month, and x lies before the first
   instant of the next period (the month / quarter / half-year / year containing x) *)
Theorem C17_month_trunc_containing_period :
  forall u x m y, x <> NaT -> divides12 m -> dt_trunc u x (mktd m 0) = Ok y -> y <> NaT ->
    exists c yr mo dd, as_cr u x = Some c /\ cr_civil c = (yr, mo, dd)
      /\ instant_ns u y = days_of_civil (yr, period_start mo m, 1) * DAY_NS
      /\ instant_ns u y <= instant_ns u x < days_of_civil (add_months (yr, period_start mo m, 1) m) * DAY_NS.
Proof. exact month_trunc_next. Qed.
(* month-free d > 0, also when d is NOT a whole number of units: never after x, less than d + one unit before x *)
Theorem C17_trunc_monthfree_le :
  forall u x d y, x <> NaT -> td_months d = 0 -> 0 < td_ns d -> dt_trunc u x d = Ok y -> y <> NaT ->
    instant_ns u y <= td_ns d * (instant_ns u x / td_ns d) <= instant_ns u x
    /\ instant_ns u x < instant_ns u y + unit_ns u + td_ns d
    /\ y <= x.
Proof. exact dt_trunc_monthfree_le. Qed.
(* known-finding class 1 is tight: EVERY member of the class fails, always by exactly one unit *)
Theorem C17_add_sub_class1_loses_one_unit :
  forall u x d y z, x <> NaT -> td_months d = 0 -> kf_subunit u d = true ->
    dt_add u x d = Ok y -> y <> NaT -> dt_sub u y d = Ok z -> z <> NaT -> z = x - 1.
Proof. exact add_sub_class1_loses_one_unit. Qed.
Corollary C17_add_sub_class1_always_fails :
  forall u x d y z, x <> NaT -> td_months d = 0 -> kf_subunit u d = true ->
    dt_add u x d = Ok y -> y <> NaT -> dt_sub u y d = Ok z -> z <> NaT -> z <> x.
Proof. exact add_sub_class1_always_fails. Qed.

(* ---- (8) extension X27: with_*, components bijection, TimeDelta / TimeDelta, the full scaling laws -------------- *)
(* Time::with_hour / with_minute / with_second / with_nanosecond (impl_time.rs:62-101): on every time of day and every
   valid component the result is a time of day that reports the new component and the three others unchanged *)
Theorem C17_time_with_components :
  forall t, 0 <= t < 86400000000000 ->
    (forall h, 0 <= h < 24 -> exists t', time_with_hour t h = Some t' /\ 0 <= t' < 86400000000000
        /\ time_hour t' = Ok h /\ time_minute t' = time_minute t /\ time_second t' = time_second t
        /\ time_nanosecond t' = time_nanosecond t)
    /\ (forall m, 0 <= m < 60 -> exists t', time_with_minute t m = Some t' /\ 0 <= t' < 86400000000000
        /\ time_hour t' = time_hour t /\ time_minute t' = Ok m /\ time_second t' = time_second t
        /\ time_nanosecond t' = time_nanosecond t)
    /\ (forall s, 0 <= s < 60 -> exists t', time_with_second t s = Some t' /\ 0 <= t' < 86400000000000
        /\ time_hour t' = time_hour t /\ time_minute t' = time_minute t /\ time_second t' = Ok s
        /\ time_nanosecond t' = time_nanosecond t)
    /\ (forall n, 0 <= n < 1000000000 -> exists t', time_with_nanosecond t n = Some t' /\ 0 <= t' < 86400000000000
        /\ time_hour t' = time_hour t /\ time_minute t' = time_minute t /\ time_second t' = time_second t
        /\ time_nanosecond t' = Ok n).
Proof.
  intros t Ht. split; [intros h Hh; exact (time_with_hour_getters t h Ht Hh)|].
  split; [intros m Hm; exact (time_with_minute_getters t m Ht Hm)|].
  split; [intros s Hs; exact (time_with_second_getters t s Ht Hs)|].
  intros n Hn; exact (time_with_nanosecond_getters t n Ht Hn).
Qed.
(* ... in closed form on the raw nanoseconds since midnight (with_nanosecond also on chrono's leap-second range) *)
Theorem C17_time_with_values :
  forall t, 0 <= t < 86400000000000 ->
    (forall h, 0 <= h < 24 -> time_with_hour t h = Some (t + (h - t / 3600000000000) * 3600000000000))
    /\ (forall m, 0 <= m < 60 -> time_with_minute t m = Some (t + (m - t / 60000000000 mod 60) * 60000000000))
    /\ (forall s, 0 <= s < 60 -> time_with_second t s = Some (t + (s - t / 1000000000 mod 60) * 1000000000))
    /\ (forall n, 0 <= n < 2000000000 -> time_with_nanosecond t n = Some (t + (n - t mod 1000000000))).
Proof. exact time_with_values. Qed.
(* out-of-range components give the documented None, whatever the receiver *)
Theorem C17_time_with_out_of_range :
  forall t, (forall h, 24 <= h -> time_with_hour t h = None)
    /\ (forall m, 60 <= m -> time_with_minute t m = None)
    /\ (forall s, 60 <= s -> time_with_second t s = None)
    /\ (forall n, 2000000000 <= n -> time_with_nanosecond t n = None).
Proof. exact time_with_out_of_range. Qed.
(* a receiver that chrono does not accept as a time of day (NaT, every negative value down to -(2^32 - 86400) s):
   None for every component *)
Theorem C17_time_with_invalid_receiver :
  forall t v, t = NaT \/ - 4294880896000000000 <= t < 0 ->
    time_with_hour t v = None /\ time_with_minute t v = None /\ time_with_second t v = None
    /\ time_with_nanosecond t v = None.
Proof.
  intros t v [-> | Ht]; apply time_with_invalid; [exact time_as_cr_nat | exact (time_as_cr_negative t Ht)].
Qed.
(* composing the four setters from midnight = from_hms_nano *)
Theorem C17_time_with_compose :
  forall h m s n, hms_ok h m s -> 0 <= n < 1000000000 ->
    exists t1 t2 t3 t4, time_with_hour 0 h = Some t1 /\ time_with_minute t1 m = Some t2
      /\ time_with_second t2 s = Some t3 /\ time_with_nanosecond t3 n = Some t4
      /\ time_from_hms_nano h m s n = Ok t4.
Proof.
  intros h m s n H Hn. destruct H as (Hh & Hm & Hs).
  assert (C0 : comp_ok 0 0 0 0) by (repeat split; Lia.lia).
  assert (C1 : comp_ok h 0 0 0) by (repeat split; Lia.lia).
  assert (C2 : comp_ok h m 0 0) by (repeat split; Lia.lia).
  assert (C3 : comp_ok h m s 0) by (repeat split; Lia.lia).
  assert (C4 : comp_ok h m s n) by (repeat split; Lia.lia).
  exists (time_of_comp h 0 0 0), (time_of_comp h m 0 0), (time_of_comp h m s 0), (time_of_comp h m s n).
  split; [exact (time_with_hour_comp 0 0 0 0 h C0 Hh)|].
  split; [exact (time_with_minute_comp h 0 0 0 m C1 Hm)|].
  split; [exact (time_with_second_comp h m 0 0 s C2 Hs)|].
  split; [apply (time_with_nanosecond_comp h m s 0 n C3); Lia.lia|].
  exact (time_from_hms_nano_comp h m s n C4).
Qed.
(* the setters commute, a second set overrides the first, setting the current value is the identity *)
Theorem C17_time_with_commute :
  forall t h m, 0 <= t < 86400000000000 -> 0 <= h < 24 -> 0 <= m < 60 ->
    obind (time_with_hour t h) (fun t1 => time_with_minute t1 m)
    = obind (time_with_minute t m) (fun t1 => time_with_hour t1 h).
Proof. exact time_with_commute. Qed.
Theorem C17_time_with_idempotent :
  forall t h h', 0 <= t < 86400000000000 -> 0 <= h < 24 -> 0 <= h' < 24 ->
    obind (time_with_hour t h) (fun t1 => time_with_hour t1 h') = time_with_hour t h'
    /\ time_with_hour t (t / 3600000000000) = Some t.
Proof. exact time_with_idempotent. Qed.
(* remark made precise: chrono accepts 10^9 <= n < 2*10^9 (leap second) on EVERY second; Time cannot represent it, so the
   result reports n - 10^9 in the next second, and at 23:59:59 it is a `Some` whose getters panic *)
Theorem C17_time_with_nanosecond_leap_range :
  forall t n, 0 <= t < 86400000000000 -> 1000000000 <= n < 2000000000 ->
    exists t', time_with_nanosecond t n = Some t' /\ t' = t / 1000000000 * 1000000000 + n
      /\ (t < 86399000000000 -> time_nanosecond t' = Ok (n - 1000000000)
                                /\ time_as_cr t' = Some (t / 1000000000 + 1, n - 1000000000))
      /\ (86399000000000 <= t -> time_as_cr t' = None /\ time_hour t' = Panic UnwrapNone).
Proof. exact time_with_nanosecond_leap. Qed.

(* (h, m, s, ns) |-> Time is a bijection between the valid components and 0 <= raw < 86400 * 10^9, inverse = getters *)
Theorem C17_time_components_bijection :
  (forall h m s n h' m' s' n' t, hms_ok h m s -> 0 <= n < 1000000000 -> hms_ok h' m' s' -> 0 <= n' < 1000000000 ->
     time_from_hms_nano h m s n = Ok t -> time_from_hms_nano h' m' s' n' = Ok t ->
     h = h' /\ m = m' /\ s = s' /\ n = n')
  /\ (forall h m s n t, hms_ok h m s -> 0 <= n < 1000000000 -> time_from_hms_nano h m s n = Ok t ->
        0 <= t < 86400000000000)
  /\ (forall t, 0 <= t < 86400000000000 ->
        exists h m s n, hms_ok h m s /\ 0 <= n < 1000000000 /\ time_from_hms_nano h m s n = Ok t
          /\ time_hour t = Ok h /\ time_minute t = Ok m /\ time_second t = Ok s /\ time_nanosecond t = Ok n).
Proof.
  split; [intros h m s n h' m' s' n' t H Hn H' Hn'; exact (time_ctor_injective h m s n h' m' s' n' t (conj H Hn) (conj H' Hn'))|].
  split; [intros h m s n t H Hn; exact (time_ctor_range h m s n t (conj H Hn))|].
  intros t Ht. destruct (time_ctor_onto t Ht) as (h & m & s & n & [H Hn] & R). exists h, m, s, n. tauto.
Qed.
Theorem C17_time_getters_then_ctor :
  forall t h m s n, 0 <= t < 86400000000000 -> time_hour t = Ok h -> time_minute t = Ok m -> time_second t = Ok s ->
    time_nanosecond t = Ok n -> (hms_ok h m s /\ 0 <= n < 1000000000) /\ time_from_hms_nano h m s n = Ok t.
Proof. exact time_getters_ctor_inverse. Qed.

(* TimeDelta / TimeDelta -> i32 (impl_ops.rs:149-170, "may not as expected"): what the code computes *)
(* (k * d) / d = k for every non-NaT d with a non-zero fixed part (with or without months) and every i32 k *)
Theorem C17_timedelta_div :
  forall d k kd, td_is_nat d = false -> td_ns d <> 0 -> in_i64 (td_ns d) = true -> in_i32 k = true ->
    td_mul d k = Ok kd -> td_is_nat kd = false -> in_i64 (td_ns kd) = true -> td_div kd d = Ok k.
Proof. exact td_div_mul_cancel. Qed.
Theorem C17_timedelta_div_self :
  forall d, td_is_nat d = false -> td_ns d <> 0 -> in_i64 (td_ns d) = true -> td_div d d = Ok 1.
Proof. exact td_div_self. Qed.
(* value: truncating quotient of the fixed parts, cast `as i32` (silent wrap-around), when an operand is month-free *)
Theorem C17_timedelta_div_value :
  forall a b, td_is_nat a = false -> td_is_nat b = false -> in_i64 (td_ns a) = true -> in_i64 (td_ns b) = true ->
    td_ns b <> 0 -> ~ (td_ns a = i64_min /\ td_ns b = -1) -> td_months a = 0 \/ td_months b = 0 ->
    td_div a b = Ok (wrap_i32 (Z.quot (td_ns a) (td_ns b))).
Proof. exact td_div_value. Qed.
(* division with remainder toward zero: a = q * b + r, |r| < |b|, r has the sign of a *)
Theorem C17_timedelta_div_remainder :
  forall a b q, td_is_nat a = false -> td_is_nat b = false -> in_i64 (td_ns a) = true -> in_i64 (td_ns b) = true ->
    td_ns b <> 0 -> td_months a = 0 \/ td_months b = 0 -> in_i32 (Z.quot (td_ns a) (td_ns b)) = true ->
    td_div a b = Ok q ->
    exists r, td_ns a = q * td_ns b + r /\ Z.abs r < Z.abs (td_ns b) /\ 0 <= r * td_ns a.
Proof. exact td_div_trunc. Qed.
(* both with months: the month quotient if the nanosecond quotient agrees with it, else a panic *)
Theorem C17_timedelta_div_months :
  forall a b, td_is_nat a = false -> td_is_nat b = false -> in_i64 (td_ns a) = true -> in_i64 (td_ns b) = true ->
    td_ns b <> 0 -> ~ (td_ns a = i64_min /\ td_ns b = -1) -> td_months a <> 0 -> td_months b <> 0 ->
    td_div a b = if Z.quot (td_months a) (td_months b) =? wrap_i32 (Z.quot (td_ns a) (td_ns b))
                 then Ok (Z.quot (td_months a) (td_months b)) else Panic OtherPanic.
Proof. exact td_div_months. Qed.
(* NaT operand: panic; zero fixed part in the divisor: "attempt to divide by zero", ALSO for pure-month operands
   (2mo / 1mo panics); i64::MIN / -1: overflow; a fixed part beyond i64 nanoseconds: unwrap on None *)
Theorem C17_timedelta_div_failures :
  (forall a b, td_is_nat a = true \/ td_is_nat b = true -> td_div a b = Panic OtherPanic)
  /\ (forall a b, td_is_nat a = false -> td_is_nat b = false -> in_i64 (td_ns a) = true -> td_ns b = 0 ->
        td_div a b = Panic OtherPanic)
  /\ (forall a b, td_is_nat a = false -> td_is_nat b = false -> td_ns a = i64_min -> td_ns b = -1 ->
        td_div a b = Panic Overflow)
  /\ (forall a b, td_is_nat a = false -> td_is_nat b = false -> in_i64 (td_ns a) = false \/ in_i64 (td_ns b) = false ->
        td_div a b = Panic UnwrapNone).
Proof. repeat split; [exact td_div_nat | exact td_div_zero | exact td_div_min_neg1 | exact td_div_unrepresentable]. Qed.

(* scaling: the full set of laws.  Each equation is stated as: when the side with MORE operations exists (no overflow
   panic, nothing read as NaT), the other side exists too and is equal.  (The converses fail: C17_td_scale_converse_fails.) *)
Theorem C17_scaling_distributes_full :
  (* k * (a + b) = k * a + k * b *)
  (forall a b k ab ak bk r, td_is_nat a = false -> td_is_nat b = false -> td_add a b = Ok ab -> td_is_nat ab = false ->
     td_mul a k = Ok ak -> td_mul b k = Ok bk -> td_is_nat ak = false -> td_is_nat bk = false ->
     td_add ak bk = Ok r -> td_mul ab k = Ok r)
  (* (j + k) * d = j * d + k * d *)
  /\ (forall d j k dj dk r, td_is_nat d = false -> td_mul d j = Ok dj -> td_mul d k = Ok dk ->
        td_is_nat dj = false -> td_is_nat dk = false -> td_add dj dk = Ok r -> td_mul d (j + k) = Ok r)
  (* (j * k) * d = j * (k * d) *)
  /\ (forall d j k dk r, td_is_nat d = false -> td_mul d k = Ok dk -> td_is_nat dk = false -> td_mul dk j = Ok r ->
        td_mul d (j * k) = Ok r)
  (* 1 * d = d, (-1) * d = -d, 0 * d = zero *)
  /\ (forall d, td_valid d -> td_mul d 1 = Ok d)
  /\ (forall d, td_valid d -> td_mul d (-1) = Ok (td_neg d))
  /\ (forall d, td_is_nat d = false -> td_mul d 0 = Ok td_zero).
Proof.
  split; [exact td_mul_add_distr_full|]. split; [exact td_mul_plus|]. split; [exact td_mul_mul|].
  split; [exact td_mul_1|]. split; [exact td_mul_m1|exact td_mul_0].
Qed.
(* NaT * k = NaT for EVERY k, 0 included: it never becomes the zero duration (seeded defect C16-3) *)
Theorem C17_td_scale_nat_absorbs :
  forall a k, td_is_nat a = true -> td_mul a k = Ok td_nat /\ td_is_nat td_nat = true /\ td_nat <> td_zero.
Proof. exact td_mul_nat_every_k. Qed.
Corollary C17_td_scale_nat_times_zero : td_mul td_nat 0 = Ok td_nat /\ td_mul td_nat 0 <> Ok td_zero.
Proof. split; [reflexivity | discriminate]. Qed.
(* a purely arithmetic sufficient condition under which scaling succeeds with the exact product and a valid result *)
Theorem C17_td_scale_bounded :
  forall B d k, 0 <= B <= 1000000000 -> td_bounded B d -> Z.abs k * B <= 1000000000 ->
    td_mul d k = Ok (mktd (td_months d * k) (td_ns d * k)) /\ td_valid (mktd (td_months d * k) (td_ns d * k)).
Proof. exact td_mul_bounded. Qed.
Theorem C17_td_scale_converse_fails :
  (exists a b k ab, td_add a b = Ok ab /\ td_mul ab k = Ok td_zero /\ td_mul a k = Panic Overflow)
  /\ (exists d j k, td_mul d (j + k) = Ok td_zero /\ td_mul d j = Panic Overflow)
  /\ (exists d j k, td_mul d (j * k) = Ok td_zero /\ td_mul d k = Panic Overflow).
Proof. exact td_scale_converse_fails. Qed.

(* PartialOrd for TimeDelta (impl_timedelta.rs:56-69): lexicographic on (months, ns) for a non-NaT left operand, None
   for a NaT left operand, Greater against a NaT right operand; compatible with + and reversed by negation *)
Theorem C17_td_order :
  (forall a b, td_is_nat a = false ->
     td_partial_cmp a b = Some (match td_months a ?= td_months b with Eq => td_ns a ?= td_ns b | c => c end))
  /\ (forall a b, td_is_nat a = true -> td_partial_cmp a b = None)
  /\ (forall a b, td_valid a -> td_is_nat b = true -> td_partial_cmp a b = Some Gt)
  /\ (forall a b, td_is_nat a = false -> td_partial_cmp a b = Some Eq -> a = b)
  /\ (forall a b, td_is_nat a = false -> td_is_nat b = false ->
        td_partial_cmp b a = option_map CompOpp (td_partial_cmp a b))
  /\ (forall a b c, td_is_nat a = false -> td_is_nat b = false ->
        td_partial_cmp a b = Some Lt -> td_partial_cmp b c = Some Lt -> td_partial_cmp a c = Some Lt).
Proof.
  split; [exact td_cmp_lex|]. split; [exact td_cmp_nat_l|]. split; [exact td_cmp_nat_r|].
  split; [exact td_cmp_eq|]. split; [exact td_cmp_antisym | exact td_cmp_trans].
Qed.
Theorem C17_td_order_group_compatible :
  (forall a b c ac bc, td_is_nat a = false -> td_is_nat b = false -> td_is_nat c = false ->
     td_add a c = Ok ac -> td_add b c = Ok bc -> td_is_nat ac = false ->
     td_partial_cmp ac bc = td_partial_cmp a b)
  /\ (forall a b, td_valid a -> td_valid b -> td_partial_cmp (td_neg a) (td_neg b) = td_partial_cmp b a).
Proof. split; [exact td_cmp_add_mono | exact td_cmp_neg]. Qed.

(* ==== (9) AUDIT (notes/C17.md "Audit matrix"; proofs in Proofs/Audit17.v) ========================================= *)
(* ---- (9a) DateTime +- TimeDelta on EVERY operand: one closed form, the checks in source order, sign-uniform *)
Theorem C17_dt_add_closed_form :
  forall u x d, dt_add u x d = if is_nat x || td_is_nat d then Ok NaT else dt_shift_spec u x (td_months d) (td_ns d).
Proof. exact dt_add_closed_form. Qed.
Theorem C17_dt_sub_closed_form :
  forall u x d, dt_sub u x d = if is_nat x || td_is_nat d then Ok NaT else dt_shift_spec u x (- td_months d) (- td_ns d).
Proof. exact dt_sub_closed_form. Qed.
(* the three panics: as_cr().unwrap() (outside chrono's range), then the month step, then the fixed part *)
Theorem C17_dt_shift_outcomes :
  forall u x k n,
  (as_cr u x = None -> dt_shift_spec u x k n = Panic UnwrapNone)
  /\ (forall c, as_cr u x = Some c -> k <> 0 -> cr_add_months c k = None -> dt_shift_spec u x k n = Panic OtherPanic)
  /\ (forall c c1, as_cr u x = Some c -> (if k =? 0 then Some c else cr_add_months c k) = Some c1 ->
        cr_add_ns c1 n = None -> dt_shift_spec u x k n = Panic Overflow)
  /\ (forall c c1 r, as_cr u x = Some c -> (if k =? 0 then Some c else cr_add_months c k) = Some c1 ->
        cr_add_ns c1 n = Some r -> dt_shift_spec u x k n = from_cr u r).
Proof. exact dt_shift_outcomes. Qed.
Theorem C17_dt_add_monthfree_outcome :
  forall u x d c, x <> NaT -> td_months d = 0 -> as_cr u x = Some c ->
  dt_add u x d =
    if date_in_range ((x * unit_ns u + td_ns d) / 1000000000 / SECS_PER_DAY)
    then from_cr u (cr_of_total_ns (x * unit_ns u + td_ns d)) else Panic Overflow.
Proof. exact dt_add_monthfree_outcome. Qed.
(* x - d = x + (-d) and x + d = x - (-d), NaT operands included *)
Theorem C17_dt_sub_is_add_neg :
  forall u x d, in_i32 (td_months d) = true ->
    dt_sub u x d = dt_add u x (td_neg d) /\ dt_add u x d = dt_sub u x (td_neg d).
Proof. intros u x d H. split; [exact (dt_sub_as_add_neg u x d H) | exact (dt_add_as_sub_neg u x d H)]. Qed.
(* the value of a month-free shift for EVERY d: x + floor(ns / unit) — no hypothesis on the class *)
Theorem C17_dt_shift_monthfree_value :
  forall u x d y, x <> NaT -> td_months d = 0 -> y <> NaT ->
    (dt_add u x d = Ok y -> y = x + td_ns d / unit_ns u) /\ (dt_sub u x d = Ok y -> y = x + (- td_ns d) / unit_ns u).
Proof.
  intros u x d y Hx Hm Hy. split; intros H; [exact (dt_add_monthfree_value u x d y Hx Hm H Hy) | exact (dt_sub_monthfree_value u x d y Hx Hm H Hy)].
Qed.
(* ---- (9b) known-finding class 1, EXACTLY: the law fails IFF d is in the class (both orders of the round trip) *)
Theorem C17_inverse_law_iff_class1 :
  forall u x d y, in_i64 x = true -> x <> NaT -> td_months d = 0 -> dt_add u x d = Ok y -> y <> NaT ->
    (dt_sub u y d = Ok x <-> kf_subunit u d = false).
Proof. exact inverse_law_iff_class1. Qed.
Theorem C17_inverse_law_iff_class1_mirror :
  forall u x d y, in_i64 x = true -> x <> NaT -> td_months d = 0 -> dt_sub u x d = Ok y -> y <> NaT ->
    (dt_add u y d = Ok x <-> kf_subunit u d = false).
Proof. exact inverse_law_iff_class1_mirror. Qed.
Theorem C17_sub_add_class1_loses_one_unit :
  forall u x d y z, x <> NaT -> td_months d = 0 -> kf_subunit u d = true ->
    dt_sub u x d = Ok y -> y <> NaT -> dt_add u y d = Ok z -> z <> NaT -> z = x - 1.
Proof. exact sub_add_class1_loses_one_unit. Qed.
Theorem C17_round_trip_value :
  forall u x d y z, x <> NaT -> td_months d = 0 -> dt_add u x d = Ok y -> y <> NaT -> dt_sub u y d = Ok z -> z <> NaT ->
    z = x + (if kf_subunit u d then -1 else 0).
Proof. exact round_trip_value. Qed.
(* ---- (9c) DateTime - DateTime: total description, algebra, the other inverse law, never in class 1 *)
Theorem C17_diff_closed_form :
  forall u a b, dt_diff u a b =
    if is_nat a || is_nat b then Ok td_nat
    else match as_cr u a, as_cr u b with
         | Some _, Some _ => Ok (mktd 0 (instant_ns u a - instant_ns u b))
         | _, _ => Panic UnwrapNone
         end.
Proof. exact dt_diff_closed_form. Qed.
Theorem C17_diff_nano_total : forall a b, a <> NaT -> b <> NaT -> dt_diff Nano a b = Ok (mktd 0 (a - b)).
Proof. exact dt_diff_nano_total. Qed.
Theorem C17_diff_algebra :
  (forall u a b d, a <> NaT -> b <> NaT -> dt_diff u a b = Ok d -> dt_diff u b a = Ok (td_neg d))
  /\ (forall u a c, as_cr u a = Some c -> dt_diff u a a = Ok td_zero)
  /\ (forall u a b c d1 d2, a <> NaT -> b <> NaT -> c <> NaT -> dt_diff u a b = Ok d1 -> dt_diff u b c = Ok d2 ->
        dt_diff u a c = Ok (mktd 0 (td_ns d1 + td_ns d2))).
Proof. split; [exact dt_diff_antisym|]. split; [exact dt_diff_self | exact dt_diff_triangle]. Qed.
Theorem C17_diff_sub_inverse :
  forall u a b d, in_i64 b = true -> a <> NaT -> b <> NaT -> dt_diff u a b = Ok d -> dt_sub u a d = Ok b.
Proof. exact diff_sub_inverse. Qed.
Theorem C17_diff_never_class1_and_valid :
  forall u a b d, in_i64 a = true -> in_i64 b = true -> a <> NaT -> b <> NaT -> dt_diff u a b = Ok d ->
    kf_subunit u d = false /\ td_months d = 0 /\ td_valid d.
Proof.
  intros u a b d Ha Hb Na Nb H. destruct (dt_diff_never_class1 u a b d Na Nb H) as [H1 H2].
  split; [exact H1|]. split; [exact H2|]. exact (dt_diff_valid u a b d Ha Hb Na Nb H).
Qed.
(* ---- (9d) TimeDelta + - * : the rejected input exactly (months are evaluated before the fixed part), NaT operands *)
Theorem C17_td_ops_total :
  (forall a b, td_is_nat a = false -> td_is_nat b = false ->
     td_add a b = if negb (in_i32 (td_months a + td_months b)) then Panic Overflow
                  else if negb (dur_in_range (td_ns a + td_ns b)) then Panic Overflow
                  else Ok (mktd (td_months a + td_months b) (td_ns a + td_ns b)))
  /\ (forall a b, td_is_nat a = false -> td_is_nat b = false ->
     td_sub a b = if negb (in_i32 (td_months a - td_months b)) then Panic Underflow
                  else if negb (dur_in_range (td_ns a - td_ns b)) then Panic Overflow
                  else Ok (mktd (td_months a - td_months b) (td_ns a - td_ns b)))
  /\ (forall a k, td_is_nat a = false ->
     td_mul a k = if negb (in_i32 (td_months a * k)) then Panic Overflow
                  else if (td_ns a * k / 1000000000 <=? i64_min) || (i64_max <=? td_ns a * k / 1000000000) then Panic Overflow
                  else Ok (mktd (td_months a * k) (td_ns a * k)))
  /\ (forall d, td_neg d = if td_is_nat d then d else mktd (- td_months d) (- td_ns d)).
Proof. split; [exact td_add_total|]. split; [exact td_sub_total|]. split; [exact td_mul_total | exact td_neg_total]. Qed.
Theorem C17_td_ops_nat_total :
  forall a b k, td_is_nat a = true \/ td_is_nat b = true ->
    td_add a b = Ok td_nat /\ td_sub a b = Ok td_nat /\ (td_is_nat a = true -> td_mul a k = Ok td_nat).
Proof. exact td_ops_nat_total. Qed.
Theorem C17_td_group_more :
  (forall a, td_valid a -> td_add td_zero a = Ok a)
  /\ (forall a, td_valid a -> td_sub a a = Ok td_zero)
  /\ (forall a b c r, td_is_nat a = false -> td_is_nat b = false -> td_is_nat c = false ->
        td_add a c = Ok r -> td_add b c = Ok r -> a = b)
  /\ (forall a b r, td_valid a -> td_valid b -> td_add a b = Ok r -> td_is_nat r = false ->
        td_add (td_neg a) (td_neg b) = Ok (td_neg r)).
Proof. split; [exact td_zero_left|]. split; [exact td_sub_self|]. split; [exact td_add_cancel | exact td_neg_add]. Qed.
(* ---- (9e) calendar months: the round trip is the identity IFF no end-of-month clamping; composition; mixed d *)
Theorem C17_add_months_roundtrip_iff :
  forall y m d k, valid_civil (y, m, d) ->
    add_months (add_months (y, m, d) k) (- k)
      = (y, m, Z.min d (days_in_month ((y * 12 + (m - 1) + k) / 12) ((y * 12 + (m - 1) + k) mod 12 + 1)))
    /\ (add_months (add_months (y, m, d) k) (- k) = (y, m, d)
        <-> d <= days_in_month ((y * 12 + (m - 1) + k) / 12) ((y * 12 + (m - 1) + k) mod 12 + 1))
    /\ (d <= 28 -> add_months (add_months (y, m, d) k) (- k) = (y, m, d)).
Proof.
  intros y m d k H. split; [exact (add_months_back y m d k H)|]. split; [exact (add_months_roundtrip_iff y m d k H)|].
  exact (add_months_roundtrip_day28 y m d k H).
Qed.
Theorem C17_add_months_compose :
  forall y m d j k, valid_civil (y, m, d) ->
    fst (add_months (add_months (y, m, d) j) k) = fst (add_months (y, m, d) (j + k))
    /\ (d <= 28 -> add_months (add_months (y, m, d) j) k = add_months (y, m, d) (j + k)).
Proof. exact add_months_compose. Qed.
Theorem C17_month_add_sub_not_inverse :
  exists u x k y z, dt_add u x (mktd k 0) = Ok y /\ dt_sub u y (mktd k 0) = Ok z /\ z <> x /\ z <> NaT /\ y <> NaT.
Proof. exact month_add_sub_not_inverse. Qed.
Theorem C17_month_add_sub_inverse_iff :
  forall u x k y z c yr mo dd, x <> NaT -> k <> 0 -> k <> i32_min ->
    dt_add u x (mktd k 0) = Ok y -> y <> NaT -> dt_sub u y (mktd k 0) = Ok z -> z <> NaT ->
    as_cr u x = Some c -> cr_civil c = (yr, mo, dd) ->
    (z = x <-> dd <= days_in_month ((yr * 12 + (mo - 1) + k) / 12) ((yr * 12 + (mo - 1) + k) mod 12 + 1)).
Proof. exact month_add_sub_inverse_iff. Qed.
Theorem C17_dt_add_mixed_sequential :
  forall u x k n y1, x <> NaT -> k <> 0 -> k <> i32_min -> dt_add u x (mktd k 0) = Ok y1 -> y1 <> NaT ->
    dt_add u x (mktd k n) = dt_add u y1 (mktd 0 n).
Proof. exact dt_add_mixed_sequential. Qed.
(* ---- (9f) Time: constructors on every i64, from_num_seconds_from_midnight, as_cr defined exactly where, +- total *)
Theorem C17_time_ctor_total :
  forall h m s, time_from_hms h m s =
    if in_i64 (h * 3600) && in_i64 (m * 60) && in_i64 (h * 3600 + m * 60) && in_i64 (h * 3600 + m * 60 + s)
       && in_i64 ((h * 3600 + m * 60 + s) * 1000000000)
    then Ok ((h * 3600 + m * 60 + s) * 1000000000) else Panic Overflow.
Proof. exact time_from_hms_total. Qed.
Theorem C17_time_ctor_linear :
  forall h m s x t,
  (time_from_hms h m s = Ok t -> t = (h * 3600 + m * 60 + s) * 1000000000)
  /\ (time_from_hms_nano h m s x = Ok t -> t = (h * 3600 + m * 60 + s) * 1000000000 + x)
  /\ (time_from_hms_micro h m s x = Ok t -> t = (h * 3600 + m * 60 + s) * 1000000000 + x * 1000)
  /\ (time_from_hms_milli h m s x = Ok t -> t = (h * 3600 + m * 60 + s) * 1000000000 + x * 1000000)
  /\ (time_from_nsm h x = Ok t -> t = h * 1000000000 + x).
Proof. exact time_ctor_linear. Qed.
Theorem C17_time_from_num_seconds_from_midnight :
  forall secs n, 0 <= secs < 86400 -> 0 <= n < 1000000000 ->
    exists t, time_from_nsm secs n = Ok t /\ t = secs * 1000000000 + n /\ 0 <= t < 86400000000000
      /\ time_hour t = Ok (secs / 3600) /\ time_minute t = Ok (secs / 60 mod 60) /\ time_second t = Ok (secs mod 60)
      /\ time_nanosecond t = Ok n.
Proof. exact time_from_nsm_getters. Qed.
Theorem C17_time_from_nsm_is_hms_nano :
  forall h m s n, hms_ok h m s -> 0 <= n < 1000000000 -> time_from_nsm (h * 3600 + m * 60 + s) n = time_from_hms_nano h m s n.
Proof. exact time_from_nsm_is_hms_nano. Qed.
Theorem C17_time_as_cr_some_iff :
  forall t, in_i64 t = true ->
    (time_as_cr t <> None <-> (0 <= t \/ Z.rem t 1000000000 = 0) /\ wrap_u32 (Z.quot t 1000000000) < 86400).
Proof. exact time_as_cr_some_iff. Qed.
Theorem C17_time_shift_total :
  (forall t d, time_add t d =
     if is_nat t || td_is_nat d then Ok NaT
     else if negb (td_months d =? 0) then Panic OtherPanic
     else if negb (in_i64 (td_ns d)) then Ok NaT
     else if in_i64 (t + td_ns d) then Ok (t + td_ns d) else Panic Overflow)
  /\ (forall t d, time_sub t d =
     if is_nat t || td_is_nat d then Ok NaT
     else if negb (td_months d =? 0) then Panic OtherPanic
     else if negb (in_i64 (td_ns d)) then Ok NaT
     else if in_i64 (t - td_ns d) then Ok (t - td_ns d) else Panic Underflow).
Proof. split; [exact time_add_total | exact time_sub_total]. Qed.
Theorem C17_time_shift_not_modular :
  (forall t d y, t <> NaT -> td_months d = 0 -> in_i64 (td_ns d) = true -> time_add t d = Ok y ->
     y = t + td_ns d /\ (0 <= y < 86400000000000 <-> 0 <= t + td_ns d < 86400000000000))
  /\ (exists t d y, time_add t d = Ok y /\ 0 <= t < 86400000000000 /\ td_months d = 0 /\ ~ (0 <= y < 86400000000000)
                    /\ time_as_cr y = None /\ time_hour y = Panic UnwrapNone).
Proof. split; [exact time_add_in_day_iff | exact time_add_no_wrap]. Qed.
Theorem C17_time_sub_add_inverse :
  forall t d y, in_i64 t = true -> t <> NaT -> td_months d = 0 -> in_i64 (td_ns d) = true ->
    time_sub t d = Ok y -> y <> NaT -> time_add y d = Ok t.
Proof. exact time_sub_add_inverse. Qed.
Theorem C17_time_add_compose :
  forall t a b y z, t <> NaT -> td_months a = 0 -> td_months b = 0 -> in_i64 (td_ns a) = true -> in_i64 (td_ns b) = true ->
    in_i64 (td_ns a + td_ns b) = true -> time_add t a = Ok y -> y <> NaT -> time_add y b = Ok z ->
    time_add t (mktd 0 (td_ns a + td_ns b)) = Ok z.
Proof. exact time_add_compose. Qed.
(* ---- (9g) duration_trunc: the checks in source order, the rejected input exactly, what it must not change *)
Theorem C17_trunc_checks :
  forall u x d,
  (is_nat x = true -> dt_trunc u x d = Ok x)
  /\ (x <> NaT -> as_cr u x = None -> dt_trunc u x d = Panic UnwrapNone)
  /\ (forall c, x <> NaT -> as_cr u x = Some c -> td_months d < 0 -> dt_trunc u x d = Panic OtherPanic).
Proof. exact dt_trunc_checks. Qed.
Theorem C17_trunc_monthfree_rejects :
  forall u x d c, x <> NaT -> td_months d = 0 -> as_cr u x = Some c ->
    td_ns d <= 0 \/ in_i64 (td_ns d) = false \/ in_i64 (instant_ns u x) = false -> dt_trunc u x d = Panic OtherPanic.
Proof. exact dt_trunc_monthfree_rejects. Qed.
Theorem C17_trunc_monthfree_total :
  forall u x d c, x <> NaT -> td_months d = 0 -> as_cr u x = Some c ->
    0 < td_ns d -> in_i64 (td_ns d) = true -> in_i64 (instant_ns u x) = true ->
    dt_trunc u x d = from_cr u (cr_of_total_ns (td_ns d * (instant_ns u x / td_ns d))).
Proof. exact dt_trunc_monthfree_total. Qed.
Theorem C17_trunc_idempotent :
  forall u x d y y', x <> NaT -> td_months d = 0 -> 0 < td_ns d -> td_ns d mod unit_ns u = 0 ->
    dt_trunc u x d = Ok y -> y <> NaT -> dt_trunc u y d = Ok y' -> y' <> NaT -> y' = y.
Proof. exact dt_trunc_idempotent. Qed.
Theorem C17_trunc_monotone :
  forall u x x' d y y', x <> NaT -> x' <> NaT -> td_months d = 0 -> 0 < td_ns d ->
    dt_trunc u x d = Ok y -> y <> NaT -> dt_trunc u x' d = Ok y' -> y' <> NaT -> x <= x' -> y <= y'.
Proof. exact dt_trunc_monotone. Qed.
Theorem C17_trunc_fixed_iff :
  forall u x d y, x <> NaT -> td_months d = 0 -> 0 < td_ns d -> td_ns d mod unit_ns u = 0 ->
    dt_trunc u x d = Ok y -> y <> NaT -> (y = x <-> instant_ns u x mod td_ns d = 0).
Proof. exact dt_trunc_fixed_iff. Qed.
Theorem C17_trunc_mixed_sequential :
  forall u x m n y1 cy, x <> NaT -> divides12 m -> n <> 0 -> dt_trunc u x (mktd m 0) = Ok y1 -> as_cr u y1 = Some cy ->
    dt_trunc u x (mktd m n) = dt_trunc u y1 (mktd 0 n).
Proof. exact dt_trunc_mixed_sequential. Qed.

(* ---- non-vacuity ---------------------------------------------------------------------------------------------- *)
Example C17_ex_add_sub :
  dt_add Sec 0 (mktd 0 90000000000) = Ok 90 /\ dt_sub Sec 90 (mktd 0 90000000000) = Ok 0
  /\ dt_add Sec 0 (mktd 0 1) = Ok 0 /\ dt_sub Sec 0 (mktd 0 1) = Ok (-1)
  /\ dt_add Nano (-5) (mktd 0 7) = Ok 2 /\ dt_sub Nano 2 (mktd 0 7) = Ok (-5).
Proof. vm_compute. auto 10. Qed.
Example C17_ex_diff : dt_diff Milli 5 (-3) = Ok (mktd 0 8000000) /\ dt_add Milli (-3) (mktd 0 8000000) = Ok 5.
Proof. vm_compute. auto. Qed.
Example C17_ex_months :
  (* 2000-01-31 00:00:00 + 1 month = 2000-02-29 (leap year, clamped); 1900 is not a leap year *)
  dt_add Sec 949276800 (mktd 1 0) = Ok 951782400 /\ cr_civil (mkcr 951782400 0) = (2000, 2, 29)
  /\ add_months (1900, 1, 31) 1 = (1900, 2, 28) /\ add_months (2023, 3, 31) (-13) = (2022, 2, 28).
Proof. vm_compute. auto. Qed.
Example C17_ex_time :
  time_from_hms_nano 23 59 59 999999999 = Ok 86399999999999 /\ time_hour 86399999999999 = Ok 23
  /\ time_add 0 (mktd 0 (-1)) = Ok (-1) /\ time_add 0 (mktd 1 0) = Panic OtherPanic.
Proof. vm_compute. auto. Qed.
Example C17_ex_out_of_range_is_nat :
  dt_add Nano i64_max (mktd 0 1) = Ok NaT /\ dt_trunc Nano (-9223372036854775807) (mktd 0 1000) = Ok NaT.
Proof. vm_compute. auto. Qed.
Example C17_ex_trunc :
  (* 2023-05-15 14:30:45 UTC = 1684161045 *)
  dt_trunc Sec 1684161045 (mktd 1 0) = Ok 1682899200      (* 2023-05-01 00:00:00 *)
  /\ dt_trunc Sec 1684161045 (mktd 3 0) = Ok 1680307200   (* 2023-04-01 00:00:00 *)
  /\ dt_trunc Sec 1684161045 (mktd 0 3600000000000) = Ok 1684159200
  /\ dt_trunc Nano (-1) (mktd 0 10) = Ok (-10).
Proof. vm_compute. auto. Qed.

Example C17_ex_order :
  (* 1 BC-12-31 < 0001-01-01 (year 0 = 1 BC), leap day 2000-02-29 < 2000-03-01 *)
  valid_civil (0, 12, 31) /\ valid_civil (1, 1, 1) /\ civil_lt (0, 12, 31) (1, 1, 1)
  /\ days_of_civil (0, 12, 31) = -719163 /\ days_of_civil (1, 1, 1) = -719162
  /\ days_of_civil (2000, 3, 1) = days_of_civil (2000, 2, 29) + 1.
Proof. vm_compute. intuition discriminate. Qed.
Example C17_ex_trunc_pre_epoch :
  (* 1969-11-15 12:00:00 = -4017600 s: quarter 1969-10-01 = -7948800, next quarter 1970-01-01 = 0 *)
  dt_trunc Sec (-4017600) (mktd 3 0) = Ok (-7948800)
  /\ is_period_start 3 (instant_ns Sec (-7948800)) /\ is_period_start 3 0
  /\ days_of_civil (add_months (1969, 10, 1) 3) = 0
  (* year 0 (year_ce arm for BCE): -62162208000 = 0000-02-29 00:00:00, half-year 0000-01-01 *)
  /\ dt_trunc Sec (-62162208000) (mktd 6 0) = Ok (-62167219200)
  (* d = 1.5 s on DateTime<Second>: not a whole number of units *)
  /\ dt_trunc Sec 10 (mktd 0 1500000000) = Ok 9 /\ kf_subunit Sec (mktd 0 1500000000) = true
  /\ dt_add Sec 10 (mktd 0 1500000000) = Ok 11 /\ dt_sub Sec 11 (mktd 0 1500000000) = Ok 9.
Proof.
  split; [vm_compute; reflexivity|].
  split; [exists 1969, 3; vm_compute; intuition discriminate|].
  split; [exists 1970, 0; vm_compute; intuition discriminate|].
  vm_compute. intuition.
Qed.

Example C17_ex_with :
  (* 12:34:56.000000007 *)
  time_with_hour 45296000000007 15 = Some 56096000000007 /\ time_with_minute 45296000000007 0 = Some 43256000000007
  /\ time_with_second 45296000000007 59 = Some 45299000000007 /\ time_with_nanosecond 45296000000007 999999999 = Some 45296999999999
  /\ time_with_hour 45296000000007 24 = None /\ time_with_nanosecond 45296000000007 2000000000 = None
  /\ time_with_hour NaT 0 = None /\ time_with_second (-1) 0 = None
  (* leap-second range at 23:59:59: a Some whose hour() panics *)
  /\ time_with_nanosecond 86399000000000 1500000000 = Some 86400500000000 /\ time_hour 86400500000000 = Panic UnwrapNone.
Proof. vm_compute. intuition. Qed.
Example C17_ex_div :
  td_mul (mktd 0 90000000000) 7 = Ok (mktd 0 630000000000) /\ td_div (mktd 0 630000000000) (mktd 0 90000000000) = Ok 7
  /\ td_mul (mktd 2 5) (-3) = Ok (mktd (-6) (-15)) /\ td_div (mktd (-6) (-15)) (mktd 2 5) = Ok (-3)
  /\ td_div (mktd 0 7) (mktd 0 (-2)) = Ok (-3) /\ td_div (mktd 0 (-7)) (mktd 0 2) = Ok (-3)
  (* pure months: divide by zero; mismatching quotients; NaT; silent `as i32` wrap-around: 2^32 ns / 1 ns = 0 *)
  /\ td_div (mktd 2 0) (mktd 1 0) = Panic OtherPanic /\ td_div (mktd 4 10) (mktd 2 3) = Panic OtherPanic
  /\ td_div td_nat (mktd 0 1) = Panic OtherPanic /\ td_div (mktd 0 4294967296) (mktd 0 1) = Ok 0
  /\ td_div (mktd 0 i64_min) (mktd 0 (-1)) = Panic Overflow /\ td_div (mktd 0 (i64_max + 1)) (mktd 0 1) = Panic UnwrapNone.
Proof. vm_compute. intuition. Qed.
Example C17_ex_scaling :
  td_mul (mktd 3 5) 4 = Ok (mktd 12 20) /\ td_mul (mktd 3 5) (-1) = Ok (td_neg (mktd 3 5)) /\ td_mul (mktd 3 5) 0 = Ok td_zero
  /\ td_mul td_nat 0 = Ok td_nat /\ td_mul td_nat 5 = Ok td_nat
  /\ td_mul (mktd 3 5) (2 + 4) = Ok (mktd 18 30) /\ td_add (mktd 6 10) (mktd 12 20) = Ok (mktd 18 30)
  /\ td_mul (mktd 6 10) 4 = Ok (mktd 24 40) /\ td_mul (mktd 3 5) (4 * 2) = Ok (mktd 24 40)
  /\ td_bounded 1000 (mktd (-1000) 1000000000000).
Proof. vm_compute. intuition discriminate. Qed.
Example C17_ex_order_td :
  td_partial_cmp (mktd 1 0) (mktd 0 999999999999999) = Some Gt /\ td_partial_cmp (mktd 0 (-1)) (mktd 0 1) = Some Lt
  /\ td_partial_cmp td_nat td_zero = None /\ td_partial_cmp td_zero td_nat = Some Gt
  /\ td_partial_cmp (mktd 2 5) (mktd 2 5) = Some Eq.
Proof. vm_compute. intuition. Qed.


(* non-vacuity of the audit theorems *)
Example C17_ex_audit_shift :
  (* Sec 10 + 1.5 s = 11, - 1.5 s = 9 = 10 - 1: in the class; value = x + floor(ns / unit) *)
  dt_add Sec 10 (mktd 0 1500000000) = Ok 11 /\ 11 = 10 + 1500000000 / 1000000000
  /\ dt_sub Sec 11 (mktd 0 1500000000) = Ok 9 /\ 9 = 11 + (- 1500000000) / 1000000000
  /\ dt_sub Sec 10 (mktd 0 1500000000) = Ok 8 /\ dt_add Sec 8 (mktd 0 1500000000) = Ok 9
  (* the three panics in order: outside chrono's range; month step out of range; fixed part overflows *)
  /\ dt_add Sec 9000000000000 (mktd 0 1) = Panic UnwrapNone
  /\ dt_add Sec 8000000000000 (mktd 1000000 0) = Panic OtherPanic
  /\ dt_add Sec 8000000000000 (mktd 0 9000000000000000000000) = Panic Overflow
  /\ dt_sub Sec 0 (mktd (-15) 7) = dt_add Sec 0 (mktd 15 (-7)).
Proof. vm_compute. intuition. Qed.
Example C17_ex_audit_diff :
  dt_diff Milli 5 (-3) = Ok (mktd 0 8000000) /\ dt_sub Milli 5 (mktd 0 8000000) = Ok (-3)
  /\ dt_diff Milli (-3) 5 = Ok (mktd 0 (-8000000)) /\ dt_diff Sec 9000000000000 0 = Panic UnwrapNone
  /\ in_i64 (-3) = true /\ as_cr Milli 5 = Some (mkcr 0 5000000).
Proof. vm_compute. intuition. Qed.
Example C17_ex_audit_months :
  (* Jan 31 + 1 month: clamped, the round trip gives Jan 29 (2000 is a leap year); Jan 28: comes back *)
  add_months (add_months (2000, 1, 31) 1) (-1) = (2000, 1, 29) /\ valid_civil (2000, 1, 31)
  /\ add_months (add_months (2000, 1, 28) 1) (-1) = (2000, 1, 28)
  /\ dt_add Sec 949276800 (mktd 1 0) = Ok 951782400 /\ dt_sub Sec 951782400 (mktd 1 0) = Ok 949104000
  /\ as_cr Sec 949276800 = Some (mkcr 949276800 0) /\ cr_civil (mkcr 949276800 0) = (2000, 1, 31)
  (* mixed duration = months first, then the fixed part *)
  /\ dt_add Sec 949276800 (mktd 1 5000000000) = Ok 951782405 /\ dt_add Sec 951782400 (mktd 0 5000000000) = Ok 951782405.
Proof. vm_compute. intuition. Qed.
Example C17_ex_audit_time :
  time_from_nsm 45296 7 = Ok 45296000000007 /\ time_hour 45296000000007 = Ok 12
  /\ time_from_hms 0 90 0 = Ok 5400000000000 /\ time_from_hms 9223372036854775807 0 0 = Panic Overflow
  (* as_cr: Time(2^32 s) reads as midnight, Time(-1 ns) and Time(-1 s) are not times of day *)
  /\ time_as_cr 4294967296000000000 = Some (0, 0) /\ time_as_cr (-1) = None /\ time_as_cr (-1000000000) = None
  /\ time_add 0 (mktd 0 (i64_max + 1)) = Ok NaT /\ time_add i64_max (mktd 0 1) = Panic Overflow
  /\ time_sub (-9223372036854775807) (mktd 0 2) = Panic Underflow
  /\ time_sub 5 (mktd 0 7) = Ok (-2) /\ time_add (-2) (mktd 0 7) = Ok 5.
Proof. vm_compute. intuition. Qed.
Example C17_ex_audit_trunc :
  dt_trunc Sec NaT (mktd 0 5) = Ok NaT /\ dt_trunc Sec 9000000000000 (mktd 0 5) = Panic UnwrapNone
  /\ dt_trunc Sec 0 (mktd (-1) 0) = Panic OtherPanic /\ dt_trunc Sec 0 td_nat = Panic OtherPanic
  /\ dt_trunc Sec 0 (mktd 0 0) = Panic OtherPanic /\ dt_trunc Sec 0 (mktd 0 (-5)) = Panic OtherPanic
  (* DateTime<Second> in year 2300: outside the i64 nanosecond window, chrono reports TimestampExceedsLimit *)
  /\ dt_trunc Sec 10413792000 (mktd 0 1000000000) = Panic OtherPanic /\ in_i64 (instant_ns Sec 10413792000) = false
  /\ dt_trunc Sec 1684161045 (mktd 0 3600000000000) = Ok 1684159200
  /\ dt_trunc Sec 1684159200 (mktd 0 3600000000000) = Ok 1684159200
  (* 1 month + 1 hour *)
  /\ dt_trunc Sec 1684161045 (mktd 1 3600000000000) = Ok 1682899200 /\ divides12 1.
Proof. vm_compute. intuition. Qed.

Print Assumptions C17_add_sub_inverse.
Print Assumptions C17_diff_add_inverse.
Print Assumptions C17_td_scale_distributes.
Print Assumptions C17_month_add_executable_calendar.
Print Assumptions C17_time_ctor_getters_nano.
Print Assumptions C17_trunc_greatest_multiple.
Print Assumptions C17_trunc_months_executable_calendar.
Print Assumptions C17_days_of_civil_order_iso.
Print Assumptions C17_civil_of_days_monotone.
Print Assumptions C17_month_trunc_le.
Print Assumptions C17_month_trunc_greatest.
Print Assumptions C17_month_trunc_containing_period.
Print Assumptions C17_trunc_monthfree_le.
Print Assumptions C17_add_sub_class1_loses_one_unit.
Print Assumptions C17_time_with_components.
Print Assumptions C17_time_with_values.
Print Assumptions C17_time_with_invalid_receiver.
Print Assumptions C17_time_with_compose.
Print Assumptions C17_time_with_nanosecond_leap_range.
Print Assumptions C17_time_components_bijection.
Print Assumptions C17_timedelta_div.
Print Assumptions C17_timedelta_div_remainder.
Print Assumptions C17_timedelta_div_failures.
Print Assumptions C17_scaling_distributes_full.
Print Assumptions C17_td_scale_nat_absorbs.
Print Assumptions C17_td_scale_bounded.
Print Assumptions C17_td_order.
Print Assumptions C17_td_order_group_compatible.
Print Assumptions C17_dt_add_closed_form.
Print Assumptions C17_dt_sub_closed_form.
Print Assumptions C17_dt_shift_outcomes.
Print Assumptions C17_dt_add_monthfree_outcome.
Print Assumptions C17_dt_sub_is_add_neg.
Print Assumptions C17_dt_shift_monthfree_value.
Print Assumptions C17_inverse_law_iff_class1.
Print Assumptions C17_inverse_law_iff_class1_mirror.
Print Assumptions C17_sub_add_class1_loses_one_unit.
Print Assumptions C17_round_trip_value.
Print Assumptions C17_diff_closed_form.
Print Assumptions C17_diff_nano_total.
Print Assumptions C17_diff_algebra.
Print Assumptions C17_diff_sub_inverse.
Print Assumptions C17_diff_never_class1_and_valid.
Print Assumptions C17_td_ops_total.
Print Assumptions C17_td_ops_nat_total.
Print Assumptions C17_td_group_more.
Print Assumptions C17_add_months_roundtrip_iff.
Print Assumptions C17_add_months_compose.
Print Assumptions C17_month_add_sub_not_inverse.
Print Assumptions C17_month_add_sub_inverse_iff.
Print Assumptions C17_dt_add_mixed_sequential.
Print Assumptions C17_time_ctor_total.
Print Assumptions C17_time_ctor_linear.
Print Assumptions C17_time_from_num_seconds_from_midnight.
Print Assumptions C17_time_from_nsm_is_hms_nano.
Print Assumptions C17_time_as_cr_some_iff.
Print Assumptions C17_time_shift_total.
Print Assumptions C17_time_shift_not_modular.
Print Assumptions C17_time_sub_add_inverse.
Print Assumptions C17_time_add_compose.
Print Assumptions C17_trunc_checks.
Print Assumptions C17_trunc_monthfree_rejects.
Print Assumptions C17_trunc_monthfree_total.
Print Assumptions C17_trunc_idempotent.
Print Assumptions C17_trunc_monotone.
Print Assumptions C17_trunc_fixed_iff.
Print Assumptions C17_trunc_mixed_sequential.
