(* Props/C11.v — placeholder, replaced below *)
From Tevec Require Import Base.Prelude Base.Num Model.Agg.
