(* Props/C11.v — property C11: aggregations equal their textbook definitions over the non-null elements,
   are null exactly below the required number of valid observations, and the symmetric ones are
   permutation invariant.  Statements only (proofs in Proofs/Agg*.v).

   Reading guide.  A : the element's inner type (f64/f32 -> XR = option R, exact reals with one absorbing NaN;
   i32/i64 -> Z);  T with `DT : IsNone T A` : the element type with its null dictionary (f64: NaN is the null,
   Option<_>: None, integers: never null);  tof : A -> XR = Number::f64.
     vals xs          the non-null elements, unwrapped, in order (generic)
     rvals tof xs     their real values;   nvalid tof xs = length (rvals tof xs)
     canonical tof xs every non-null element is a number (DESIGN 5.4: no Some(NaN)); holds by construction for
                      f64 (C11_canonical_f64) and for every integer series (C11_canonical_int)
     rpairs tof xs ys the pairwise-complete observations of two series
   EPS = 1e-14 is the code's variance floor; it is explicit in the statements and bounded by C11_eps_floor. *)
From Coq Require Import Reals List Permutation ZArith.
From Tevec Require Import Base.Prelude Base.Num Base.XR Spec.Stats Spec.Stats2 Model.Agg
     Proofs.AggGeneric Proofs.AggOrder Proofs.AggXR Proofs.Agg.
Import ListNotations.

(* ================= counts, first / last valid, any / all (every carrier, every dictionary) ============== *)
Theorem C11_count_valid : forall {A T} {DT : IsNone T A} (xs : list T),
  count_valid xs = length (vals xs).
Proof. intros. apply count_valid_spec. Qed.

Theorem C11_count_none : forall {A T} {DT : IsNone T A} (xs : list T),
  count_none xs = length (filter (fun v => is_none v) xs).
Proof. intros. apply count_none_spec. Qed.

Theorem C11_counts_partition : forall {A T} {DT : IsNone T A} (xs : list T),
  count_valid xs + count_none xs = length xs.
Proof. intros. apply count_valid_plus_none. Qed.

(* a non-null value: number of valid elements equal to it; a null value: number of nulls *)
Theorem C11_vcount_value : forall {A} {NA : Num A} {T} {DT : IsNone T A} (value : T) (xs : list T),
  vcount_value value xs =
  if not_none value then length (filter (fun x => neqb x (unwrap value)) (vals xs))
  else length (filter (fun v => is_none v) xs).
Proof.
  intros. rewrite vcount_value_spec, count_value_spec, count_none_spec. reflexivity.
Qed.

Theorem C11_count_value_plain : forall {A} {NA : Num A} (value : A) (xs : list A),
  count_value value xs = length (filter (fun x => neqb x value) xs).
Proof. intros. apply count_value_spec. Qed.

(* first / last valid: the element is valid and everything before / after it is null *)
Theorem C11_vfirst : forall {A T} {DT : IsNone T A} (xs : list T) (v : T),
  vfirst xs = Some v <->
  exists pre post, xs = pre ++ v :: post /\ not_none v = true /\ Forall (fun u => is_none u = true) pre.
Proof. intros. apply vfirst_some. Qed.
Theorem C11_vlast : forall {A T} {DT : IsNone T A} (xs : list T) (v : T),
  vlast xs = Some v <->
  exists pre post, xs = pre ++ v :: post /\ not_none v = true /\ Forall (fun u => is_none u = true) post.
Proof. intros. apply vlast_some. Qed.
Theorem C11_vfirst_vlast_null : forall {A T} {DT : IsNone T A} (xs : list T),
  (vfirst xs = None <-> vals xs = []) /\ (vlast xs = None <-> vals xs = []).
Proof. intros. split; [apply vfirst_none|apply vlast_none]. Qed.

Theorem C11_vany_vall : forall {TB} {DB : IsNone TB bool} (xs : list TB),
  (vany xs = true <-> exists v, In v xs /\ not_none v = true /\ unwrap v = true) /\
  (vall xs = true <-> forall v, In v xs -> not_none v = true -> unwrap v = true).
Proof. intros. split; [apply vany_true|apply vall_true]. Qed.
(* on a never-null bool series the valid family is the plain any / all (existsb / forallb) *)
Theorem C11_any_all_plain : forall xs : list bool,
  vany (DB := IsNone_plain) xs = any_plain xs /\ vall (DB := IsNone_plain) xs = all_plain xs /\
  any_plain xs = existsb (fun b => b) xs /\ all_plain xs = forallb (fun b => b) xs.
Proof. intros. repeat split; [apply vany_plain|apply vall_plain]. Qed.

Theorem C11_counts_bool_perm : forall {A} {NA : Num A} {T} {DT : IsNone T A} {TB} {DB : IsNone TB bool}
    (xs ys : list T) (bs cs : list TB) (value : T),
  Permutation xs ys -> Permutation bs cs ->
  count_valid xs = count_valid ys /\ count_none xs = count_none ys /\
  vcount_value value xs = vcount_value value ys /\ vany bs = vany cs /\ vall bs = vall cs.
Proof.
  intros A NA T DT TB DB xs ys bs cs value H1 H2. repeat split.
  - apply count_valid_perm, H1.
  - apply count_none_perm, H1.
  - apply vcount_value_perm, H1.
  - apply vany_perm, H2.
  - apply vall_perm, H2.
Qed.

(* ================= the valid family is the plain family on the non-null elements ======================== *)
Theorem C11_valid_is_plain_on_nonnull :
  forall {A} {NA : Num A} {T} {DT : IsNone T A} {F} {NF : Num F} (tof : A -> F) (xs : list T),
  vsum xs = sum (vals xs) /\
  vmean tof xs = match mean tof (vals xs) with Some m => m | None => nnan end /\
  vmax xs = pmax (vals xs) /\ vmin xs = pmin (vals xs).
Proof.
  intros. repeat split.
  - apply vsum_is_plain_sum.
  - apply vmean_is_plain_mean.
  - apply vmax_is_plain_max.
  - apply vmin_is_plain_min.
Qed.

(* ================= canonical nulls =================================================================== *)
Theorem C11_canonical_f64 : forall xs : list XR,
  canonical (DT := IsNoneXR) idX xs /\ rvals (DT := IsNoneXR) idX xs = valid xs.
Proof. intros. split; [apply canonical_float|apply rvals_float]. Qed.
Theorem C11_canonical_int : forall {T} {DT : IsNone T Z} (xs : list T),
  canonical zR xs /\ rvals zR xs = map IZR (vals xs).
Proof. intros. split; [apply canonical_int|apply rvals_int]. Qed.

(* ================= sum and mean ===================================================================== *)
Theorem C11_vsum_float : forall {T} {DT : IsNone T XR} (xs : list T),
  canonical idX xs ->
  vsum xs = if (nvalid idX xs =? 0)%nat then None else Some (Some (sumR (rvals idX xs))).
Proof. intros. apply vsum_textbook_float. assumption. Qed.
Theorem C11_vsum_int : forall {T} {DT : IsNone T Z} (xs : list T),
  vsum (NA := AggNumZ) xs = if (length (vals xs) =? 0)%nat then None else Some (sumZ (vals xs)).
Proof. intros. apply vsum_textbook_int. Qed.

Theorem C11_vmean_float : forall {T} {DT : IsNone T XR} (xs : list T),
  canonical idX xs ->
  vmean idX xs = if (nvalid idX xs =? 0)%nat then None else Some (meanR (rvals idX xs)).
Proof. intros T DT xs H. apply (vmean_textbook (@sum_hom_float T DT)). exact H. Qed.
Theorem C11_vmean_int : forall {T} {DT : IsNone T Z} (xs : list T),
  vmean (NA := AggNumZ) zR xs =
  if (length (vals xs) =? 0)%nat then None else Some (meanR (map IZR (vals xs))).
Proof.
  intros T DT xs. rewrite (vmean_textbook (NA := AggNumZ) (@sum_hom_int T DT) (canonical_int xs)).
  unfold nvalid. rewrite rvals_int, map_length. reflexivity.
Qed.

(* ================= variance, standard deviation, skewness, kurtosis ==================================== *)
(* any element type: A, dictionary, cast.  For f64 take tof = idX (C11_canonical_f64), for integers tof = zR. *)
Theorem C11_vmean_var :
  forall {A} {NA : Num A} {T} {DT : IsNone T A} (tof : A -> XR) (mp : nat) (xs : list T),
  canonical tof xs ->
  let V := rvals tof xs in let n := nvalid tof xs in
  vmean_var tof mp xs =
  if (n <? mp)%nat then (None, None)
  else if (n =? 0)%nat then (None, None)
  else if (n <? 2)%nat then (Some (meanR V), None)
  else if Rle_dec (popvarR V) EPS then (Some (meanR V), Some 0%R)
  else (Some (meanR V), Some (samplevarR V)).
Proof. intros. apply vmean_var_textbook. assumption. Qed.

Theorem C11_vvar :
  forall {A} {NA : Num A} {T} {DT : IsNone T A} (tof : A -> XR) (mp : nat) (xs : list T),
  canonical tof xs ->
  vvar tof mp xs =
  if (nvalid tof xs <? Nat.max mp 2)%nat then None
  else if Rle_dec (popvarR (rvals tof xs)) EPS then Some 0%R else Some (samplevarR (rvals tof xs)).
Proof. intros. apply vvar_textbook. assumption. Qed.

Theorem C11_vstd :
  forall {A} {NA : Num A} {T} {DT : IsNone T A} (tof : A -> XR) (mp : nat) (xs : list T),
  canonical tof xs ->
  vstd tof mp xs =
  if (nvalid tof xs <? Nat.max mp 2)%nat then None
  else if Rle_dec (popvarR (rvals tof xs)) EPS then Some 0%R else Some (samplestdR (rvals tof xs)).
Proof. intros. apply vstd_textbook. assumption. Qed.

Theorem C11_vskew :
  forall {A} {NA : Num A} {T} {DT : IsNone T A} (tof : A -> XR) (mp : nat) (xs : list T),
  canonical tof xs ->
  vskew tof mp xs =
  if (nvalid tof xs <? Nat.max mp 3)%nat then None
  else if Rle_dec (popvarR (rvals tof xs)) EPS then Some 0%R else Some (skewR (rvals tof xs)).
Proof. intros. apply vskew_textbook. assumption. Qed.

Theorem C11_vkurt :
  forall {A} {NA : Num A} {T} {DT : IsNone T A} (tof : A -> XR) (mp : nat) (xs : list T),
  canonical tof xs ->
  vkurt tof mp xs =
  if (nvalid tof xs <? Nat.max mp 4)%nat then None
  else if Rle_dec (popvarR (rvals tof xs)) EPS then Some 0%R else Some (kurtR (rvals tof xs)).
Proof. intros. apply vkurt_textbook. assumption. Qed.

(* the f64 reading with Spec.Stats.valid *)
Corollary C11_vvar_f64 : forall (mp : nat) (xs : list XR),
  vvar (DT := IsNoneXR) idX mp xs =
  if (nv xs <? Nat.max mp 2)%nat then None
  else if Rle_dec (popvarR (valid xs)) EPS then Some 0%R else Some (samplevarR (valid xs)).
Proof.
  intros. rewrite (vvar_textbook (DT := IsNoneXR) mp (canonical_float xs)). unfold nvalid, nv.
  rewrite rvals_float. reflexivity.
Qed.

(* the floor is a rounding device: where it applies the textbook sample variance is at most 2 EPS *)
Theorem C11_eps_floor : forall V : list R,
  2 <= length V -> (popvarR V <= EPS)%R -> (samplevarR V <= 2 * EPS)%R.
Proof. exact agg_eps_floor_bounded. Qed.

(* nullness: exactly below max(min_periods, intrinsic minimum) — 1 mean, 2 var/std, 3 skew, 4 kurt *)
Theorem C11_nullness_single :
  forall {A} {NA : Num A} {T} {DT : IsNone T A} (tof : A -> XR) (mp : nat) (xs : list T),
  canonical tof xs ->
  (vvar tof mp xs = None <-> nvalid tof xs < Nat.max mp 2) /\
  (vstd tof mp xs = None <-> nvalid tof xs < Nat.max mp 2) /\
  (vskew tof mp xs = None <-> nvalid tof xs < Nat.max mp 3) /\
  (vkurt tof mp xs = None <-> nvalid tof xs < Nat.max mp 4).
Proof.
  intros A NA T DT tof mp xs H. repeat split;
    first [apply vvar_null | apply vstd_null | apply vskew_null | apply vkurt_null]; exact H.
Qed.
Theorem C11_nullness_mean_sum : forall {T} {DT : IsNone T XR} (xs : list T),
  canonical idX xs ->
  (vmean idX xs = None <-> nvalid idX xs < 1) /\ (vsum xs = None <-> nvalid idX xs < 1).
Proof.
  intros T DT xs H. split.
  - apply (vmean_null (@sum_hom_float T DT)). exact H.
  - rewrite (vsum_textbook_float H). destruct (nvalid idX xs) as [|k]; cbn [Nat.eqb].
    + split; [intros _; apply Nat.lt_0_1|reflexivity].
    + split; [discriminate|]. intros L. inversion L as [|? L']. inversion L'.
Qed.

(* ================= extrema and first arg-extrema ======================================================= *)
(* f64: least / greatest valid element; index (in xs, nulls counted) of its FIRST occurrence *)
Theorem C11_vmin_f64 : forall xs : list XR,
  match vmin (DT := IsNoneXR) xs with
  | None => valid xs = []
  | Some m => exists r, m = Some r /\ In r (valid xs) /\ forall x, In x (valid xs) -> (r <= x)%R
  end.
Proof. exact vmin_float. Qed.
Theorem C11_vmax_f64 : forall xs : list XR,
  match vmax (DT := IsNoneXR) xs with
  | None => valid xs = []
  | Some m => exists r, m = Some r /\ In r (valid xs) /\ forall x, In x (valid xs) -> (x <= r)%R
  end.
Proof. exact vmax_float. Qed.
Theorem C11_vargmin_f64 : forall xs : list XR,
  match vargmin (DT := IsNoneXR) xs with
  | None => valid xs = []
  | Some i => exists r, nth_error xs i = Some (Some r) /\
      (forall j x, nth_error xs j = Some (Some x) -> (r <= x)%R) /\
      (forall j x, j < i -> nth_error xs j = Some (Some x) -> (r < x)%R)
  end.
Proof. exact vargmin_float. Qed.
Theorem C11_vargmax_f64 : forall xs : list XR,
  match vargmax (DT := IsNoneXR) xs with
  | None => valid xs = []
  | Some i => exists r, nth_error xs i = Some (Some r) /\
      (forall j x, nth_error xs j = Some (Some x) -> (x <= r)%R) /\
      (forall j x, j < i -> nth_error xs j = Some (Some x) -> (x < r)%R)
  end.
Proof. exact vargmax_float. Qed.

(* integers, any dictionary (i32 / i64 / Option<i32>) — axiom-free *)
Theorem C11_vmin_vmax_int : forall {T} {DT : IsNone T Z} (xs : list T),
  match vmin (NA := AggNumZ) xs with
  | None => vals xs = []
  | Some m => In m (vals xs) /\ forall x, In x (vals xs) -> (m <= x)%Z
  end /\
  match vmax (NA := AggNumZ) xs with
  | None => vals xs = []
  | Some m => In m (vals xs) /\ forall x, In x (vals xs) -> (x <= m)%Z
  end.
Proof. intros. split; [apply vmin_int|apply vmax_int]. Qed.
Theorem C11_vargmin_int : forall {T} {DT : IsNone T Z} (xs : list T),
  match vargmin (NA := AggNumZ) xs with
  | None => vals xs = []
  | Some i => exists v, nth_error xs i = Some v /\ not_none v = true /\
      (forall j w, nth_error xs j = Some w -> not_none w = true -> (unwrap v <= unwrap w)%Z) /\
      (forall j w, j < i -> nth_error xs j = Some w -> not_none w = true -> (unwrap v < unwrap w)%Z)
  end.
Proof. intros. apply vargmin_int. Qed.
Theorem C11_vargmax_int : forall {T} {DT : IsNone T Z} (xs : list T),
  match vargmax (NA := AggNumZ) xs with
  | None => vals xs = []
  | Some i => exists v, nth_error xs i = Some v /\ not_none v = true /\
      (forall j w, nth_error xs j = Some w -> not_none w = true -> (unwrap w <= unwrap v)%Z) /\
      (forall j w, j < i -> nth_error xs j = Some w -> not_none w = true -> (unwrap w < unwrap v)%Z)
  end.
Proof. intros. apply vargmax_int. Qed.

(* every carrier with a strict total order on its valid values: the arg-min points at the minimum *)
Theorem C11_argmin_points_at_min :
  forall {A} {NA : Num A} (ok : A -> Prop),
  (forall a, ok a -> nltb a a = false) ->
  (forall a b c, ok a -> ok b -> ok c -> nltb a b = true -> nltb b c = true -> nltb a c = true) ->
  (forall a b, ok a -> ok b -> nltb a b = false -> nltb b a = false -> a = b) ->
  forall {T} {DT : IsNone T A} (xs : list T) (i : nat),
  all_ok ok xs -> vargmin xs = Some i ->
  exists v, nth_error xs i = Some v /\ not_none v = true /\ vmin xs = Some (unwrap v).
Proof. intros A NA ok H1 H2 H3 T DT xs i Hok Hi. exact (vargmin_points_at_vmin H1 H2 H3 Hok Hi). Qed.

(* plain family on null-free input (AggBasic::argmin / argmax / min / max), reals *)
Theorem C11_plain_argmin_f64 : forall V : list R,
  match argmin (map Some V) with
  | None => V = []
  | Some i => exists r, nth_error V i = Some r /\
      (forall j x, nth_error V j = Some x -> (r <= x)%R) /\
      (forall j x, j < i -> nth_error V j = Some x -> (r < x)%R)
  end.
Proof. exact plain_argmin_float. Qed.

(* AggBasic::min / max on null-free input *)
Theorem C11_plain_min_max_f64 : forall V : list R,
  match pmin (map Some V) with
  | None => V = []
  | Some m => exists r, m = Some r /\ In r V /\ forall x, In x V -> (r <= x)%R
  end /\
  match pmax (map Some V) with
  | None => V = []
  | Some m => exists r, m = Some r /\ In r V /\ forall x, In x V -> (x <= r)%R
  end.
Proof. intros. split; [apply plain_min_float|apply plain_max_float]. Qed.
Theorem C11_plain_min_max_int : forall l : list Z,
  match pmin (NA := AggNumZ) l with
  | None => l = []
  | Some m => In m l /\ forall x, In x l -> (m <= x)%Z
  end /\
  match pmax (NA := AggNumZ) l with
  | None => l = []
  | Some m => In m l /\ forall x, In x l -> (x <= m)%Z
  end.
Proof. exact plain_min_max_int. Qed.

(* ================= two series ========================================================================== *)
Theorem C11_vcov :
  forall {A T T2} {DT : IsNone T A} {DT2 : IsNone T2 A} (tof : A -> XR) (mp : nat) (xs : list T) (ys : list T2),
  canonical tof xs -> canonical tof ys ->
  let P := rpairs tof xs ys in
  vcov tof mp xs ys = if (length P <? Nat.max mp 2)%nat then None else Some (samplecovR P).
Proof. intros. apply vcov_textbook; assumption. Qed.

Theorem C11_vcorr_pearson :
  forall {A T T2} {DT : IsNone T A} {DT2 : IsNone T2 A} (tof : A -> XR) (mp : nat) (xs : list T) (ys : list T2),
  canonical tof xs -> canonical tof ys ->
  let P := rpairs tof xs ys in
  vcorr_pearson tof mp xs ys =
  if (length P <? Nat.max mp 2)%nat then None
  else if Rlt_dec EPS (popvarR (xs_of P)) then
         (if Rlt_dec EPS (popvarR (ys_of P)) then Some (corrR P) else None)
       else None.
Proof. intros. apply vcorr_textbook; assumption. Qed.

Theorem C11_nullness_two :
  forall {A T T2} {DT : IsNone T A} {DT2 : IsNone T2 A} (tof : A -> XR) (mp : nat) (xs : list T) (ys : list T2),
  canonical tof xs -> canonical tof ys ->
  let P := rpairs tof xs ys in
  (vcov tof mp xs ys = None <-> length P < Nat.max mp 2) /\
  (vcorr_pearson tof mp xs ys = None <->
   length P < Nat.max mp 2 \/ ~ (EPS < popvarR (xs_of P))%R \/ ~ (EPS < popvarR (ys_of P))%R).
Proof. intros. split; [apply vcov_null|apply vcorr_null]; assumption. Qed.

(* Pearson's r in its sample form (the 1/n factors cancel) *)
Theorem C11_corr_sample_form : forall l : list (R * R), 0 < length l ->
  corrR l = (covsum (meanR (xs_of l)) (meanR (ys_of l)) l /
             sqrt (devsum 2 (meanR (xs_of l)) (xs_of l) * devsum 2 (meanR (ys_of l)) (ys_of l)))%R.
Proof. exact corrR_sample_form. Qed.

(* ================= masked sum / mean =================================================================== *)
Theorem C11_masked :
  forall {A} {NA : Num A} {T} {DT : IsNone T A} {U} {DU : IsNone U bool} (xs : list T) (mask : list U),
  mask_filter xs mask =
    map fst (filter (fun p : T * U => not_none (snd p) && unwrap (snd p)) (combine xs mask)) /\
  n_sum_filter xs mask = vsum (mask_filter xs mask) /\
  n_vsum_filter xs mask =
    (count_valid (mask_filter xs mask), fold_left nadd (vals (mask_filter xs mask)) nzero).
Proof.
  intros. split; [apply mask_filter_spec|]. split; [apply n_sum_filter_is_vsum|apply n_vsum_filter_spec].
Qed.
Theorem C11_vmean_filter_float :
  forall {T} {DT : IsNone T XR} {U} {DU : IsNone U bool} (mp : nat) (xs : list T) (mask : list U),
  canonical idX xs ->
  let W := rvals idX (mask_filter xs mask) in
  vmean_filter idX mp xs mask =
  if (mp <=? length W)%nat then (if (length W =? 0)%nat then None else Some (meanR W)) else None.
Proof. intros T DT U DU mp xs mask H. apply (vmean_filter_textbook (@sum_hom_float T DT)). exact H. Qed.
Theorem C11_vmean_filter_int :
  forall {T} {DT : IsNone T Z} {U} {DU : IsNone U bool} (mp : nat) (xs : list T) (mask : list U),
  let W := rvals zR (mask_filter xs mask) in
  vmean_filter (NA := AggNumZ) zR mp xs mask =
  if (mp <=? length W)%nat then (if (length W =? 0)%nat then None else Some (meanR W)) else None.
Proof.
  intros T DT U DU mp xs mask.
  apply (vmean_filter_textbook (NA := AggNumZ) (@sum_hom_int T DT)). apply canonical_int.
Qed.

(* ================= plain family on null-free input: sum, mean ============================================ *)
Theorem C11_plain_sum_mean : forall (V : list R) (l : list Z),
  sum (map Some V) = (if (length V =? 0)%nat then None else Some (Some (sumR V))) /\
  mean idX (map Some V) = (if (length V =? 0)%nat then None else Some (Some (meanR V))) /\
  sum (NA := AggNumZ) l = (if (length l =? 0)%nat then None else Some (sumZ l)) /\
  mean (NA := AggNumZ) zR l = (if (length l =? 0)%nat then None else Some (Some (meanR (map IZR l)))).
Proof.
  intros. repeat split; [apply plain_sum_float|apply plain_mean_float|apply plain_sum_int|apply plain_mean_int].
Qed.

(* ================= permutation invariance of the symmetric aggregations ================================== *)
Theorem C11_perm_moments :
  forall {A} {NA : Num A} {T} {DT : IsNone T A} (tof : A -> XR) (mp : nat) (xs ys : list T),
  Permutation xs ys -> canonical tof xs ->
  vmean_var tof mp xs = vmean_var tof mp ys /\ vvar tof mp xs = vvar tof mp ys /\
  vstd tof mp xs = vstd tof mp ys /\ vskew tof mp xs = vskew tof mp ys /\ vkurt tof mp xs = vkurt tof mp ys.
Proof.
  intros A NA T DT tof mp xs ys HP H. repeat split.
  - apply vmean_var_perm; assumption.
  - apply vvar_perm; assumption.
  - apply vstd_perm; assumption.
  - apply vskew_perm; assumption.
  - apply vkurt_perm; assumption.
Qed.
Theorem C11_perm_sum_mean_float : forall {T} {DT : IsNone T XR} (xs ys : list T),
  Permutation xs ys -> canonical idX xs -> vsum xs = vsum ys /\ vmean idX xs = vmean idX ys.
Proof.
  intros T DT xs ys HP H. split; [apply vsum_perm_float; assumption|].
  apply (vmean_perm (@sum_hom_float T DT)); assumption.
Qed.
Theorem C11_perm_sum_mean_int : forall {T} {DT : IsNone T Z} (xs ys : list T),
  Permutation xs ys ->
  vsum (NA := AggNumZ) xs = vsum (NA := AggNumZ) ys /\ vmean (NA := AggNumZ) zR xs = vmean (NA := AggNumZ) zR ys.
Proof.
  intros T DT xs ys HP. split; [apply vsum_perm_int; assumption|].
  apply (vmean_perm (NA := AggNumZ) (@sum_hom_int T DT)); [assumption|apply canonical_int].
Qed.
Theorem C11_perm_extrema_f64 : forall xs ys : list XR, Permutation xs ys ->
  vmin (DT := IsNoneXR) xs = vmin (DT := IsNoneXR) ys /\ vmax (DT := IsNoneXR) xs = vmax (DT := IsNoneXR) ys.
Proof. intros xs ys HP. split; [apply vmin_perm_float|apply vmax_perm_float]; exact HP. Qed.
Theorem C11_perm_extrema_int : forall {T} {DT : IsNone T Z} (xs ys : list T), Permutation xs ys ->
  vmin (NA := AggNumZ) xs = vmin (NA := AggNumZ) ys /\ vmax (NA := AggNumZ) xs = vmax (NA := AggNumZ) ys.
Proof. intros T DT xs ys HP. split; [apply vmin_perm_int|apply vmax_perm_int]; exact HP. Qed.
(* two series: permuting the observation pairs together *)
Theorem C11_perm_two :
  forall {A T T2} {DT : IsNone T A} {DT2 : IsNone T2 A} (tof : A -> XR) (mp : nat)
         (xs xs' : list T) (ys ys' : list T2),
  Permutation (combine xs ys) (combine xs' ys') ->
  canonical tof xs -> canonical tof ys -> canonical tof xs' -> canonical tof ys' ->
  vcov tof mp xs ys = vcov tof mp xs' ys' /\ vcorr_pearson tof mp xs ys = vcorr_pearson tof mp xs' ys'.
Proof. intros. split; [apply vcov_perm|apply vcorr_perm]; assumption. Qed.

(* ================= non-vacuity ======================================================================== *)
(* a series with a null, below / at the thresholds *)
Example C11_ex_single_observation_is_null :
  vvar (DT := IsNoneXR) idX 0 [None; Some 5%R] = None /\ vstd (DT := IsNoneXR) idX 1 [Some 5%R] = None.
Proof.
  split.
  - apply (proj2 (vvar_null (DT := IsNoneXR) 0 (canonical_float [None; Some 5%R]))). cbn. unfold lt. constructor.
  - apply (proj2 (vstd_null (DT := IsNoneXR) 1 (canonical_float [Some 5%R]))). cbn. unfold lt. constructor.
Qed.
(* the code as it was before the repair of defect #9 reported variance 0 for one observation (Z-valued toy
   carrier: the branch order alone decides, no real arithmetic needed) *)
Example C11_ex_before_fix_reported_zero :
  snd (vmean_var_before_fix (DT := IsNone_plain) (NF := AggNumZ) (fun z => z) 0 [5%Z]) = 0%Z.
Proof. vm_compute. reflexivity. Qed.
Example C11_ex_counts :
  count_valid (DT := IsNone_opt 0%Z) [Some 1%Z; None; Some 3%Z] = 2 /\
  vargmin (NA := AggNumZ) (DT := IsNone_opt 0%Z) [None; Some 3%Z; Some 1%Z; Some 1%Z] = Some 2 /\
  vargmax (NA := AggNumZ) (DT := IsNone_opt 0%Z) [None; Some 3%Z; Some 1%Z; Some 3%Z] = Some 1 /\
  vsum (NA := AggNumZ) (DT := IsNone_opt 0%Z) [None; Some 3%Z; Some 1%Z] = Some 4%Z.
Proof. vm_compute. auto. Qed.
Example C11_ex_perm_premise : Permutation [Some 1%R; None; Some 2%R] [None; Some 2%R; Some 1%R].
Proof.
  apply Permutation_trans with (l' := [None; Some 1%R; Some 2%R]); [apply perm_swap|].
  apply perm_skip, perm_swap.
Qed.
Example C11_ex_two_series_pairs :
  rpairs (DT := IsNoneXR) (DT2 := IsNoneXR) idX [Some 1%R; None; Some 3%R] [Some 2%R; Some 5%R; None] = [(1%R, 2%R)].
Proof. reflexivity. Qed.

(* ================= binary64: the one-pass sum up to floating-point rounding (Proofs/RoundSum.v) ========= *)
(* So far "up to floating-point rounding" was the comparator tolerance of the correspondence run.  Here it is a
   theorem about the EXECUTION instance of the model — `vsum` at Coq's primitive binary64 `float` (NumF64, NaN is
   the null), the very term the correspondence run evaluates and compares bit for bit with Rust.
     f2r x      the real value of a finite float            ffin x     x is finite (PrimFloat.is_finite)
     fvals xs   the valid (non-NaN) elements, in order       rvals64 xs their real values
     u64 = 2^-53 (C11_u64_value)                             gam u n = (1+u)^n - 1  (<= n u (1+u)^n, C11_gam_linear)
     sumabs l = sum of |l_k|                                 fx : float -> option R  (NaN -> None)
   The only premise is EXECUTABLE: the computed sum is finite.  (A non-finite operand or partial sum can never
   become finite again, so this certifies "no overflow, no infinity in the input" — C11_vsum_finite_certifies.)
   Flocq supplies IEEE addition (Bplus_correct), the error of a rounded sum without underflow term
   (FLT_plus_error_N_ex) and the bridge to the primitive floats (Flocq.IEEE754.PrimFloat.add_equiv).          *)
From Coq Require Import Floats.
From Tevec Require Import Base.F64 Proofs.RoundSum.

(* (R1) the left fold s_0 = 0, s_{k+1} = fl(s_k + x_k) over any list of floats *)
Theorem C11_round_sum_fold : forall ys : list PrimFloat.float,
  ffin (ffold zero ys) = true ->
  (Rabs (f2r (ffold zero ys) - sumR (map f2r ys)) <= gam u64 (length ys) * sumabs (map f2r ys))%R.
Proof. exact round_sum_fold. Qed.

(* (R2) the model's one-pass sum: |vsum_float xs - sum of the valid elements| <= ((1+u)^n - 1) * sum |valid| *)
Theorem C11_vsum_binary64_error : forall (xs : list PrimFloat.float) (r : PrimFloat.float),
  vsum (NA := NumF64) (DT := IsNoneF64) xs = Some r -> ffin r = true ->
  (Rabs (f2r r - sumR (rvals64 xs)) <= gam u64 (length (rvals64 xs)) * sumabs (rvals64 xs))%R.
Proof. exact vsum_binary64_error. Qed.

(* the same with the explicit constant n u (1+u)^n *)
Theorem C11_vsum_binary64_error_linear : forall (xs : list PrimFloat.float) (r : PrimFloat.float),
  vsum (NA := NumF64) (DT := IsNoneF64) xs = Some r -> ffin r = true ->
  (Rabs (f2r r - sumR (rvals64 xs))
   <= INR (length (rvals64 xs)) * u64 * (1 + u64) ^ length (rvals64 xs) * sumabs (rvals64 xs))%R.
Proof. exact vsum_binary64_error_linear. Qed.

Theorem C11_u64_value : u64 = (/ 9007199254740992)%R.
Proof. exact u64_value. Qed.
Theorem C11_gam_linear : forall (u : R) (n : nat), (0 <= u)%R -> (gam u n <= INR n * u * (1 + u) ^ n)%R.
Proof. exact gam_le_linear. Qed.

(* (R3) against the exact model: the float model and the option-R model of the SAME series are null together and
   their values differ by at most the bound *)
Theorem C11_vsum_float_vs_exact_model : forall (xs : list PrimFloat.float) (r : PrimFloat.float),
  vsum (NA := NumF64) (DT := IsNoneF64) xs = Some r -> ffin r = true ->
  exists e : R, vsum (NA := NumXR) (DT := IsNoneXR) (map fx xs) = Some (Some e) /\
                (Rabs (f2r r - e) <= gam u64 (length (rvals64 xs)) * sumabs (rvals64 xs))%R.
Proof. exact vsum_float_vs_exact_model. Qed.

(* a finite result certifies that every valid element was finite *)
Theorem C11_vsum_finite_certifies : forall (xs : list PrimFloat.float) (r : PrimFloat.float),
  vsum (NA := NumF64) (DT := IsNoneF64) xs = Some r -> ffin r = true ->
  Forall (fun y => ffin y = true) (fvals xs).
Proof. exact vsum_finite_inputs. Qed.

(* (R4) exactness: when every valid element is finite and an integer multiple of 2^e (executable test grid_check)
   and the magnitudes add up to less than 2^(e+53), no addition rounds: model(float) = model(option R).  The
   generated inputs are k/4 with |k| <= 400 (e = -2): exact for series of up to 2^53/400 elements — which is why the
   correspondence run sees bit-identical sums. *)
Theorem C11_vsum_exact_on_grid : forall (e : Z) (xs : list PrimFloat.float),
  (-1074 <= e <= 971)%Z -> forallb (grid_check e) (fvals xs) = true ->
  (sumabs (rvals64 xs) < pow2 (e + 53))%R ->
  option_map fx (vsum (NA := NumF64) (DT := IsNoneF64) xs) = vsum (NA := NumXR) (DT := IsNoneXR) (map fx xs).
Proof. intros e xs He HG Hb. apply (vsum_f64_exact_on_grid e xs He); [apply grid_check_all, HG|exact Hb]. Qed.

(* non-vacuity: 0.1 + 0.2 + 0.3 rounds (twice), a NaN is skipped; the premises hold *)
Example C11_ex_round_premises :
  exists r, vsum (NA := NumF64) (DT := IsNoneF64) [0.1; nan; 0.2; 0.3]%float = Some r /\ ffin r = true /\
            r <> 0.6%float /\ length (fvals [0.1; nan; 0.2; 0.3]%float) = 3.
Proof.
  eexists. split; [vm_compute; reflexivity|]. split; [vm_compute; reflexivity|]. split; [|vm_compute; reflexivity].
  intros H. apply (f_equal (fun x => PrimFloat.eqb x 0.6%float)) in H. vm_compute in H. discriminate.
Qed.
(* the finiteness premise is needed: an overflowing sum is infinite although every input is finite *)
Example C11_ex_overflow_is_detected :
  ffin (ffold zero [0x1p1023; 0x1p1023]%float) = false /\
  Forall (fun y => ffin y = true) [0x1p1023; 0x1p1023]%float.
Proof. split; [vm_compute; reflexivity|repeat constructor]. Qed.
(* a grid input (multiples of 1/4), premises of (R4) *)
Example C11_ex_grid_premises :
  forallb (grid_check (-2)) (fvals [1.25; nan; -0.75; 100]%float) = true /\
  vsum (NA := NumF64) (DT := IsNoneF64) [1.25; nan; -0.75; 100]%float = Some 100.5%float.
Proof. split; vm_compute; reflexivity. Qed.

(* ================= binary64, continued: the one-pass MEAN up to floating-point rounding (Proofs/RoundMean.v) ===== *)
(* `vmean` accumulates the sum in f64 and divides once by `n as f64`.  `n as f64` is exact for n < 2^53; the division is
   one more correctly rounded operation, and binary64 division CAN underflow, so its error model carries an absolute
   term:  |fl(x) - x| <= u |x| + eta  with  eta = 2^-1075  (half the smallest subnormal; C11_rounding_model_with_underflow),
   and no absolute term when |x| >= 2^-1022 (the normal range).  Flocq: Bdiv_correct, relative_error_N_FLT'_ex,
   relative_error_N_FLT, and the bridge PrimFloat.div_equiv / of_int63_equiv.
   Premises (executable): the computed mean is finite (then the count is >= 1, the sum and every valid element were
   finite, nothing overflowed) and the count is below 2^53.                                                            *)
From Tevec Require Import Proofs.RoundMean.

(* (R5) the error model of one correctly rounded binary64 operation, gradual underflow included *)
Theorem C11_rounding_model_with_underflow : forall x : R, (Rabs (rnd64 x - x) <= u64 * Rabs x + eta64)%R.
Proof. exact rnd64_err. Qed.
Theorem C11_rounding_model_normal_range : forall x : R,
  (pow2 (-1022) <= Rabs x)%R -> (Rabs (rnd64 x - x) <= u64 * Rabs x)%R.
Proof. exact rnd64_err_normal. Qed.
Theorem C11_eta64_value : eta64 = (/ IZR (2 ^ 1075))%R.
Proof. exact eta64_value. Qed.

(* (R6) |vmean_float xs - mean of the valid elements| <= ((1+u)^(n+1) - 1) * (sum |valid|) / n + eta *)
Theorem C11_vmean_binary64_error : forall xs : list PrimFloat.float,
  ffin (vmean (NA := NumF64) (DT := IsNoneF64) (NF := NumF64) (fun x => x) xs) = true ->
  (Z.of_nat (length (fvals xs)) < 2 ^ 53)%Z ->
  (Rabs (f2r (vmean (NA := NumF64) (DT := IsNoneF64) (NF := NumF64) (fun x => x) xs) - meanR (rvals64 xs))
   <= gam u64 (S (length (rvals64 xs))) * (sumabs (rvals64 xs) / INR (length (rvals64 xs))) + eta64)%R.
Proof. exact vmean_binary64_error. Qed.

(* the same with the explicit constant (n+1) u (1+u)^(n+1) *)
Theorem C11_vmean_binary64_error_linear : forall xs : list PrimFloat.float,
  ffin (vmean (NA := NumF64) (DT := IsNoneF64) (NF := NumF64) (fun x => x) xs) = true ->
  (Z.of_nat (length (fvals xs)) < 2 ^ 53)%Z ->
  (Rabs (f2r (vmean (NA := NumF64) (DT := IsNoneF64) (NF := NumF64) (fun x => x) xs) - meanR (rvals64 xs))
   <= INR (S (length (rvals64 xs))) * u64 * (1 + u64) ^ S (length (rvals64 xs))
      * (sumabs (rvals64 xs) / INR (length (rvals64 xs))) + eta64)%R.
Proof. exact vmean_binary64_error_linear. Qed.

(* (R7) no absolute term when the computed quotient sum / n is in the normal range (|.| >= 2^-1022) *)
Theorem C11_vmean_binary64_error_normal : forall xs : list PrimFloat.float,
  ffin (vmean (NA := NumF64) (DT := IsNoneF64) (NF := NumF64) (fun x => x) xs) = true ->
  (Z.of_nat (length (fvals xs)) < 2 ^ 53)%Z ->
  (pow2 (-1022) <= Rabs (f2r (ffold zero (fvals xs)) / INR (length (fvals xs))))%R ->
  (Rabs (f2r (vmean (NA := NumF64) (DT := IsNoneF64) (NF := NumF64) (fun x => x) xs) - meanR (rvals64 xs))
   <= gam u64 (S (length (rvals64 xs))) * (sumabs (rvals64 xs) / INR (length (rvals64 xs))))%R.
Proof. exact vmean_binary64_error_normal. Qed.

(* (R8) against the exact model: the option-R model of the same series is non-null and within the bound *)
Theorem C11_vmean_float_vs_exact_model : forall xs : list PrimFloat.float,
  ffin (vmean (NA := NumF64) (DT := IsNoneF64) (NF := NumF64) (fun x => x) xs) = true ->
  (Z.of_nat (length (fvals xs)) < 2 ^ 53)%Z ->
  exists e : R, vmean (NA := NumXR) (DT := IsNoneXR) (NF := NumXR) (fun x => x) (map fx xs) = Some e /\
    (Rabs (f2r (vmean (NA := NumF64) (DT := IsNoneF64) (NF := NumF64) (fun x => x) xs) - e)
     <= gam u64 (S (length (rvals64 xs))) * (sumabs (rvals64 xs) / INR (length (rvals64 xs))) + eta64)%R.
Proof. exact vmean_float_vs_exact_model. Qed.

(* a finite mean certifies at least one valid element, all of them finite *)
Theorem C11_vmean_finite_certifies : forall xs : list PrimFloat.float,
  ffin (vmean (NA := NumF64) (DT := IsNoneF64) (NF := NumF64) (fun x => x) xs) = true ->
  (Z.of_nat (length (fvals xs)) < 2 ^ 53)%Z ->
  1 <= length (fvals xs) /\ Forall (fun y => ffin y = true) (fvals xs).
Proof. intros xs Hf Hn. split; [apply vmean_finite_count, Hf|apply vmean_finite_inputs; assumption]. Qed.

(* non-vacuity of (R6)/(R8): a mean that rounds (sum twice, quotient once), a NaN is skipped; the premises hold *)
Example C11_ex_mean_premises :
  ffin (vmean (NA := NumF64) (DT := IsNoneF64) (NF := NumF64) (fun x => x) [0.1; nan; 0.2; 0.3]%float) = true /\
  (Z.of_nat (length (fvals [0.1; nan; 0.2; 0.3]%float)) < 2 ^ 53)%Z /\
  PrimFloat.eqb (vmean (NA := NumF64) (DT := IsNoneF64) (NF := NumF64) (fun x => x) [0.1; nan; 0.2; 0.3]%float) 0.2%float = false.
Proof. repeat split; vm_compute; reflexivity. Qed.
(* the absolute term eta cannot be dropped: the mean of [2^-1074; 0] is 2^-1075 exactly, the quotient underflows to 0 —
   an error of eta with a relative bound of about 3u * 2^-1075 *)
Example C11_ex_mean_underflow :
  vmean (NA := NumF64) (DT := IsNoneF64) (NF := NumF64) (fun x => x) [0x1p-1074; 0]%float = 0%float /\
  ffin (vmean (NA := NumF64) (DT := IsNoneF64) (NF := NumF64) (fun x => x) [0x1p-1074; 0]%float) = true.
Proof. split; vm_compute; reflexivity. Qed.
(* the finiteness premise is needed: the sum overflows although the mean is representable *)
Example C11_ex_mean_overflow_is_detected :
  ffin (vmean (NA := NumF64) (DT := IsNoneF64) (NF := NumF64) (fun x => x) [0x1p1023; 0x1p1023]%float) = false.
Proof. vm_compute. reflexivity. Qed.
(* premise of (R7): an ordinary mean is in the normal range (executable test on the quotient's exponent) *)
Example C11_ex_mean_normal_range :
  match Prim2SF (vmean (NA := NumF64) (DT := IsNoneF64) (NF := NumF64) (fun x => x) [0.1; nan; 0.2; 0.3]%float) with
  | S754_finite _ m ex => (-1074 <= ex)%Z /\ (4503599627370496 <= Z.pos m)%Z | _ => False end.
Proof. vm_compute. split; discriminate. Qed.

(* ================= AUDIT (notes/C11.md "Audit matrix"; proofs in Proofs/Audit11.v, Proofs/Audit11Float.v) ========= *)
(* What the clause-by-clause audit added.  (A1) the Number helpers of tea-dtype/src/number.rs that no model contained
   (Model/AggNumber.v): n_add / n_prod, Kahan's kh_sum, floor / ceil, to / fromas, and min_with / max_with on EVERY
   operand (NaN included); (A2) iter_traits.rs vfold2 / vapply; (A3) extrema and first arg-extrema with the order
   hypotheses weakened from a strict total order to a strict WEAK order (so binary64 with +0 / -0 is an instance) and,
   for "the arg-extreme points at the extreme", dropped altogether; (A4) the plain family totally (first / last / n_sum,
   arg-extrema on integers and reals, min / max on input WITH NaN); (A5) zip truncation and permutation invariance of
   the masked aggregations; (A6) nullness below the thresholds for every carrier, and what a valid NaN (non-canonical
   input) does; (A7)-(A8) binary64 instances.                                                                           *)
From Tevec Require Import Spec.ExtremaOrd Model.AggNumber Proofs.OrderXR Proofs.Audit11 Proofs.Audit11Float.
From Tevec Require Run.RunC11.

(* ---- (A1) Number::n_add / n_prod / kh_sum / floor / ceil / min_with / max_with / to / fromas ------------------------ *)
(* one call: only `other` is tested; a null `other` changes neither the value nor the counter *)
Theorem C11_number_n_add_n_prod : forall {A} {NA : Num A} {DN : IsNone A A} (self other : A) (n : nat),
  (is_none other = true -> n_add self other n = (self, n) /\ n_prod self other n = (self, n)) /\
  (is_none other = false -> n_add self other n = (nadd self other, S n) /\ n_prod self other n = (nmul self other, S n)).
Proof.
  intros. destruct (n_add_cases self other n) as [a1 a2]. destruct (n_prod_cases self other n) as [p1 p2].
  split; intros H; split; auto.
Qed.
(* accumulating a series with them: the sum / product of the non-null elements in order, and their number — for the
   float-like dictionary (NaN null: f32, f64) and the never-null one (i32, i64, u64, usize), every carrier *)
Theorem C11_number_n_add_fold : forall {A} {NA : Num A} (init : A) (xs : list A),
  n_add_fold (DN := IsNone_float) init xs
    = (fold_left nadd (vals (DT := IsNone_float) xs) init, length (vals (DT := IsNone_float) xs)) /\
  n_prod_fold (DN := IsNone_float) init xs
    = (fold_left nmul (vals (DT := IsNone_float) xs) init, length (vals (DT := IsNone_float) xs)) /\
  n_add_fold (DN := IsNone_plain) init xs = (fold_left nadd xs init, length xs) /\
  n_prod_fold (DN := IsNone_plain) init xs = (fold_left nmul xs init, length xs).
Proof.
  intros. split; [apply (n_add_fold_spec unwrap_id_float)|]. split; [apply (n_prod_fold_spec unwrap_id_float)|].
  rewrite (n_add_fold_spec (DN := IsNone_plain) unwrap_id_plain), (n_prod_fold_spec (DN := IsNone_plain) unwrap_id_plain).
  rewrite vals_plain. split; reflexivity.
Qed.
(* ... which is exactly what vsum computes (agg.rs:236 uses vfold_n; Number::n_add is the same step) *)
Theorem C11_number_n_add_fold_is_vsum : forall {A} {NA : Num A} {DN : IsNone A A} (xs : list A),
  unwrap_id DN ->
  vsum xs = if (1 <=? snd (n_add_fold nzero xs))%nat then Some (fst (n_add_fold nzero xs)) else None.
Proof. intros A NA DN xs H. apply (n_add_fold_is_vsum H). Qed.

(* Kahan's step on the exact carriers: the compensation is identically 0 and the running sum is the plain sum *)
Theorem C11_number_kh_sum_exact : forall (zs : list Z) (V : list R),
  kh_fold (NA := AggNumZ) zs = (sumZ zs, 0%Z) /\ kh_fold (map Some V) = (Some (sumR V), Some 0%R).
Proof. intros. split; [apply kh_fold_Z|apply kh_fold_XR]. Qed.
(* kh_sum has NO null test: one NaN element poisons the sum and the compensation for good *)
Theorem C11_number_kh_sum_nan : forall xs : list XR, In None xs -> kh_fold xs = (None, None).
Proof. exact kh_fold_XR_nan. Qed.
(* at binary64: the step operation by operation; the compensation is effective (1 + 2^-53 + 2^-53) and NaN poisons *)
Theorem C11_number_kh_sum_binary64 : forall s v c : PrimFloat.float,
  kh_sum s v c = ((s + (v - c))%float, (((s + (v - c)) - s) - (v - c))%float).
Proof. exact kh_sum_binary64. Qed.
Theorem C11_number_kh_sum_binary64_witness :
  fst (kh_fold [1; 0x1p-53; 0x1p-53]%float) = 0x1.0000000000001p+0%float /\
  fold_left PrimFloat.add [1; 0x1p-53; 0x1p-53]%float zero = 1%float /\
  PrimFloat.is_nan (fst (kh_fold [1; nan; 2]%float)) = true /\ PrimFloat.is_nan (snd (kh_fold [1; nan; 2]%float)) = true.
Proof. exact kh_fold_binary64_witness. Qed.

(* floor / ceil: the identity on the integer types (trait defaults); on floats the integer-valued floor / ceiling, a null
   stays null, ceil x = -floor(-x) *)
Theorem C11_number_floor_ceil : forall (z : Z) (a : XR),
  (number_floor (NR := NumRoundZ) z = z /\ number_ceil (NR := NumRoundZ) z = z) /\
  match a with
  | None => number_floor (NR := NumRoundXR) a = None /\ number_ceil (NR := NumRoundXR) a = None
  | Some x => exists f c : Z,
      number_floor (NR := NumRoundXR) a = Some (IZR f) /\ number_ceil (NR := NumRoundXR) a = Some (IZR c) /\
      (IZR f <= x < IZR f + 1)%R /\ (IZR c - 1 < x <= IZR c)%R /\ c = (- Rfloor (- x))%Z
  end.
Proof. intros. split; [apply number_floor_ceil_Z|apply number_floor_XR]. Qed.

(* min_with / max_with: Rmin / Rmax, Z.min / Z.max on numbers ... *)
Theorem C11_number_min_max_with : forall (x y : R) (a b : Z),
  min_with (Some x) (Some y) = Some (Rmin x y) /\ max_with (Some x) (Some y) = Some (Rmax x y) /\
  min_with (NA := AggNumZ) a b = Z.min a b /\ max_with (NA := AggNumZ) a b = Z.max a b.
Proof.
  intros. destruct (min_max_with_XR x y) as [h1 h2]. destruct (min_max_with_Z a b) as [h3 h4]. repeat split; assumption.
Qed.
(* ... and with a NaN operand (any carrier whose `<` is false on NaN): a NaN `other` is ignored, a NaN `self` STAYS —
   the helpers are not symmetric on nulls, which is why vmin / vmax seed their fold with the first VALID element *)
Theorem C11_number_min_max_with_nan : forall {A} {NA : Num A},
  (forall a b, nisnan a = true -> nltb a b = false) -> (forall a b, nisnan b = true -> nltb a b = false) ->
  forall s o : A,
  (nisnan o = true -> min_with s o = s /\ max_with s o = s) /\
  (nisnan s = true -> min_with s o = s /\ max_with s o = s).
Proof. intros A NA H1 H2 s o. apply (min_max_with_nan H1 H2). Qed.
Theorem C11_number_min_max_with_nan_f64 : forall s o : XR,
  (o = None -> min_with s o = s /\ max_with s o = s) /\ (s = None -> min_with s o = s /\ max_with s o = s).
Proof.
  intros s o. destruct (min_max_with_nan xlt_nan_l xlt_nan_r s o) as [H1 H2].
  split; intros ->; [apply H1|apply H2]; reflexivity.
Qed.
(* on non-NaN operands of a weakly ordered carrier: a lower / upper bound of both, and always one of the operands *)
Theorem C11_number_min_max_with_ordered : forall {A} {NA : Num A}, OrdLaws A -> forall s o : A,
  num_ok s -> num_ok o ->
  (nltb s (min_with s o) = false /\ nltb o (min_with s o) = false /\
   nltb (max_with s o) s = false /\ nltb (max_with s o) o = false) /\
  (min_with s o = s \/ min_with s o = o) /\ (max_with s o = s \/ max_with s o = o).
Proof.
  intros A NA OL s o Hs Ho. split; [apply (min_max_with_ord OL Hs Ho)|]. split.
  - destruct (min_with_cases s o) as [[_ H]|[_ H]]; [right|left]; exact H.
  - destruct (max_with_cases s o) as [[_ H]|[_ H]]; [right|left]; exact H.
Qed.
Theorem C11_number_min_max_with_binary64 : forall s o : PrimFloat.float,
  (PrimFloat.is_nan o = true -> min_with s o = s /\ max_with s o = s) /\
  (PrimFloat.is_nan s = true -> min_with s o = s /\ max_with s o = s) /\
  (PrimFloat.is_nan s = false -> PrimFloat.is_nan o = false ->
     (s <? min_with s o)%float = false /\ (o <? min_with s o)%float = false /\
     (max_with s o <? s)%float = false /\ (max_with s o <? o)%float = false) /\
  (min_with s o = s \/ min_with s o = o) /\ (max_with s o = s \/ max_with s o = o).
Proof. exact min_max_with_binary64. Qed.
(* the carriers the ordered statements are about *)
Theorem C11_ordered_carriers : OrdLaws XR /\ @OrdLaws Z AggNumZ /\ OrdLaws PrimFloat.float /\ ~ OrdStrict PrimFloat.float.
Proof.
  split; [exact ordlaws_XR|]. split; [exact ordlaws_AggZ|]. split; [exact ordlaws_F64|exact Proofs.CmpOrdFloat.f64_not_strict].
Qed.

(* to::<T>() is Cast::<T>::cast, fromas is to in the other direction (the casts themselves: property C15) *)
Theorem C11_number_to_fromas : forall {S U : Type} (cast : U -> S) (v : U),
  number_fromas cast v = number_to cast v /\ number_to cast v = cast v.
Proof. intros. apply number_to_fromas. Qed.

(* ---- (A2) iter_traits.rs: vfold2, vapply ---------------------------------------------------------------------- *)
Theorem C11_vfold2 : forall {A A2 T T2 U} {DT : IsNone T A} {DT2 : IsNone T2 A2}
    (f : U -> T -> T2 -> U) (init : U) (xs : list T) (ys : list T2),
  vfold2 f init xs ys = fold_left (fun acc p => f acc (fst p) (snd p)) (complete_pairs xs ys) init /\
  vfold2 f init xs ys = vfold2 f init (firstn (Nat.min (length xs) (length ys)) xs)
                                      (firstn (Nat.min (length xs) (length ys)) ys).
Proof. intros. split; [apply vfold2_spec|apply vfold2_truncates]. Qed.
Theorem C11_vapply : forall {A T U} {DT : IsNone T A} (f : U -> A -> U) (init : U) (xs : list T),
  vapply f init xs = fold_left f (vals xs) init /\ vapply f init xs = snd (vapply_n f init xs).
Proof. intros. apply vapply_spec. Qed.
(* vcov's accumulation loop is such a two-series null-skipping fold *)
Theorem C11_vcov_is_vfold2 : forall {A T T2 F} {DT : IsNone T A} {DT2 : IsNone T2 A} {NF : Num F}
    (tof : A -> F) (xs : list T) (ys : list T2) s0,
  fold_left (cov_step tof) (combine xs ys) s0 = vfold2 (cov_acc tof) s0 xs ys.
Proof. intros. apply cov_fold_is_vfold2. Qed.

(* ---- (A3) extrema and first arg-extrema ------------------------------------------------------------------------ *)
(* NO hypothesis (C11_argmin_points_at_min asked for a strict total order and all_ok): for every carrier, dictionary
   and input the arg-extreme is None exactly when there is no valid element (then the extreme is None too) and
   otherwise indexes a VALID element whose value is the extreme returned by vmin / vmax *)
Theorem C11_arg_points_at_extreme_unconditional : forall {A T} {NA : Num A} {DT : IsNone T A} (xs : list T),
  match vargmin xs with
  | None => vals xs = [] /\ vmin xs = None
  | Some i => exists v, nth_error xs i = Some v /\ not_none v = true /\ vmin xs = Some (unwrap v)
  end /\
  match vargmax xs with
  | None => vals xs = [] /\ vmax xs = None
  | Some i => exists v, nth_error xs i = Some v /\ not_none v = true /\ vmax xs = Some (unwrap v)
  end.
Proof. intros. split; [apply vargmin_points_at_vmin_any|apply vargmax_points_at_vmax_any]. Qed.

(* any weakly ordered carrier (reals, integers, binary64), valid elements not NaN: least / greatest valid element *)
Theorem C11_extrema_ordered_carrier : forall {A} {NA : Num A}, OrdLaws A ->
  forall {T} {DT : IsNone T A} (xs : list T), valid_ok xs ->
  match vmin xs with
  | None => vals xs = []
  | Some m => In m (vals xs) /\ forall x, In x (vals xs) -> nltb x m = false
  end /\
  match vmax xs with
  | None => vals xs = []
  | Some m => In m (vals xs) /\ forall x, In x (vals xs) -> nltb m x = false
  end.
Proof. intros A NA OL T DT xs H. split; [apply (vmin_ord OL H)|apply (vmax_ord OL H)]. Qed.
(* index (nulls counted) of the FIRST extreme: nothing is below it, everything valid before it is strictly above *)
Theorem C11_arg_extrema_ordered_carrier : forall {A} {NA : Num A}, OrdLaws A ->
  forall {T} {DT : IsNone T A} (xs : list T), valid_ok xs ->
  match vargmin xs with
  | None => vals xs = []
  | Some i => exists v, nth_error xs i = Some v /\ not_none v = true /\
      (forall j w, nth_error xs j = Some w -> not_none w = true -> nltb (unwrap w) (unwrap v) = false) /\
      (forall j w, j < i -> nth_error xs j = Some w -> not_none w = true -> nltb (unwrap v) (unwrap w) = true)
  end /\
  match vargmax xs with
  | None => vals xs = []
  | Some i => exists v, nth_error xs i = Some v /\ not_none v = true /\
      (forall j w, nth_error xs j = Some w -> not_none w = true -> nltb (unwrap v) (unwrap w) = false) /\
      (forall j w, j < i -> nth_error xs j = Some w -> not_none w = true -> nltb (unwrap w) (unwrap v) = true)
  end.
Proof. intros A NA OL T DT xs H. split; [apply (vargmin_ord OL H)|apply (vargmax_ord OL H)]. Qed.
(* permutation invariance over a weak order: null together, otherwise EQUIVALENT extremes (`==`) *)
Theorem C11_perm_extrema_ordered_carrier : forall {A} {NA : Num A}, OrdLaws A ->
  forall {T} {DT : IsNone T A} (xs ys : list T), valid_ok xs -> Permutation xs ys ->
  match vmin xs, vmin ys with
  | None, None => True | Some a, Some b => neqb a b = true | _, _ => False end /\
  match vmax xs, vmax ys with
  | None, None => True | Some a, Some b => neqb a b = true | _, _ => False end.
Proof. intros A NA OL T DT xs ys H HP. apply (vmin_vmax_perm_ord OL H HP). Qed.

(* binary64 (f64 series: every dictionary over Coq's float whose valid elements are not NaN — IsNoneF64 always is) *)
Theorem C11_valid_ok_f64 : forall xs : list PrimFloat.float, valid_ok (DT := IsNoneF64) xs.
Proof. exact valid_ok_f64. Qed.
Theorem C11_valid_ok_optf64 : forall xs : list (option PrimFloat.float),
  valid_ok (DT := IsNoneOptF64) xs <-> (forall x, In (Some x) xs -> PrimFloat.is_nan x = false).
Proof. exact valid_ok_optf64_iff. Qed.
Theorem C11_vmin_vmax_binary64 : forall {T} {DT : IsNone T PrimFloat.float} (xs : list T), valid_ok xs ->
  match vmin xs with
  | None => vals xs = []
  | Some m => In m (vals xs) /\ forall x, In x (vals xs) -> (x <? m)%float = false
  end /\
  match vmax xs with
  | None => vals xs = []
  | Some m => In m (vals xs) /\ forall x, In x (vals xs) -> (m <? x)%float = false
  end.
Proof. intros T DT xs H. apply (vmin_vmax_binary64 H). Qed.
Theorem C11_vargmin_vargmax_binary64 : forall {T} {DT : IsNone T PrimFloat.float} (xs : list T), valid_ok xs ->
  match vargmin xs with
  | None => vals xs = []
  | Some i => exists v, nth_error xs i = Some v /\ not_none v = true /\
      (forall j w, nth_error xs j = Some w -> not_none w = true -> (unwrap w <? unwrap v)%float = false) /\
      (forall j w, j < i -> nth_error xs j = Some w -> not_none w = true -> (unwrap v <? unwrap w)%float = true)
  end /\
  match vargmax xs with
  | None => vals xs = []
  | Some i => exists v, nth_error xs i = Some v /\ not_none v = true /\
      (forall j w, nth_error xs j = Some w -> not_none w = true -> (unwrap v <? unwrap w)%float = false) /\
      (forall j w, j < i -> nth_error xs j = Some w -> not_none w = true -> (unwrap w <? unwrap v)%float = true)
  end.
Proof. intros T DT xs H. apply (vargmin_vargmax_binary64 H). Qed.
Theorem C11_perm_extrema_binary64 : forall {T} {DT : IsNone T PrimFloat.float} (xs ys : list T),
  valid_ok xs -> Permutation xs ys ->
  match vmin xs, vmin ys with
  | None, None => True | Some a, Some b => (a =? b)%float = true | _, _ => False end /\
  match vmax xs, vmax ys with
  | None, None => True | Some a, Some b => (a =? b)%float = true | _, _ => False end.
Proof. intros T DT xs ys H HP. apply (vmin_vmax_perm_binary64 H HP). Qed.
(* "invariant under any permutation" is FALSE bit for bit at binary64: [+0; -0] vs [-0; +0] (equal as numbers) *)
Theorem C11_perm_extrema_bitwise_refuted :
  exists xs ys : list PrimFloat.float, Permutation xs ys /\
    vmin (DT := IsNoneF64) xs <> vmin (DT := IsNoneF64) ys /\ vmax (DT := IsNoneF64) xs <> vmax (DT := IsNoneF64) ys.
Proof. exact vmin_perm_bitwise_refuted. Qed.

(* ---- (A4) the plain family (AggBasic) ---------------------------------------------------------------------------- *)
Theorem C11_plain_first_last : forall {X} (xs : list X),
  first xs = hd_error xs /\ last xs = hd_error (rev xs) /\ (first xs = None <-> xs = []) /\ (last xs = None <-> xs = []).
Proof. intros. apply plain_first_last. Qed.
Theorem C11_plain_n_sum : forall {A} {NA : Num A} (xs : list A),
  n_sum xs = (length xs, if (length xs =? 0)%nat then None else Some (fold_left nadd xs nzero)) /\
  sum xs = snd (n_sum xs).
Proof. intros. apply n_sum_spec. Qed.
Theorem C11_vfirst_vlast_are_plain : forall {A T} {DT : IsNone T A} (xs : list T),
  vfirst xs = first (valid_elems xs) /\ vlast xs = last (valid_elems xs).
Proof. intros. apply vfirst_vlast_are_plain. Qed.
Theorem C11_plain_arg_ordered_carrier : forall {A} {NA : Num A}, OrdLaws A -> forall l : list A,
  Forall num_ok l ->
  match argmin l with
  | None => l = []
  | Some i => exists m, nth_error l i = Some m /\
      (forall j x, nth_error l j = Some x -> nltb x m = false) /\
      (forall j x, j < i -> nth_error l j = Some x -> nltb m x = true)
  end /\
  match argmax l with
  | None => l = []
  | Some i => exists m, nth_error l i = Some m /\
      (forall j x, nth_error l j = Some x -> nltb m x = false) /\
      (forall j x, j < i -> nth_error l j = Some x -> nltb x m = true)
  end.
Proof. intros A NA OL l H. apply (plain_arg_ord OL H). Qed.
Theorem C11_plain_argmax_f64 : forall V : list R,
  match argmax (map Some V) with
  | None => V = []
  | Some i => exists r, nth_error V i = Some r /\
      (forall j x, nth_error V j = Some x -> (x <= r)%R) /\
      (forall j x, j < i -> nth_error V j = Some x -> (x < r)%R)
  end.
Proof. exact plain_argmax_float. Qed.
Theorem C11_plain_arg_int : forall l : list Z,
  match argmin (NA := AggNumZ) l with
  | None => l = []
  | Some i => exists m, nth_error l i = Some m /\
      (forall j x, nth_error l j = Some x -> (m <= x)%Z) /\
      (forall j x, j < i -> nth_error l j = Some x -> (m < x)%Z)
  end /\
  match argmax (NA := AggNumZ) l with
  | None => l = []
  | Some i => exists m, nth_error l i = Some m /\
      (forall j x, nth_error l j = Some x -> (x <= m)%Z) /\
      (forall j x, j < i -> nth_error l j = Some x -> (x < m)%Z)
  end.
Proof. exact plain_arg_int. Qed.
(* AggBasic::min / max on ANY float series (NaN is an ordinary value for the plain family): a leading NaN is the
   result, a later NaN is skipped — the "null-free" hypothesis of C11_plain_min_max_f64 replaced by the full description *)
Theorem C11_plain_min_max_with_nan : forall l : list XR,
  match l with
  | [] => pmin l = None /\ pmax l = None
  | None :: _ => pmin l = Some None /\ pmax l = Some None
  | Some r :: t => pmin l = Some (Some (fold_left Rmin (valid t) r)) /\ pmax l = Some (Some (fold_left Rmax (valid t) r))
  end.
Proof. exact plain_min_max_with_nan. Qed.

(* ---- (A5) two series and masks: zip truncation; permuting the (value, flag) pairs --------------------------------- *)
Theorem C11_two_series_truncate :
  forall {A} {NA : Num A} {T T2} {DT : IsNone T A} {DT2 : IsNone T2 A} {F} {NF : Num F} (tof : A -> F)
         {U} {DU : IsNone U bool} (mp : nat) (xs : list T) (ys : list T2) (mask : list U),
  let n := Nat.min (length xs) (length ys) in let k := Nat.min (length xs) (length mask) in
  vcov tof mp xs ys = vcov tof mp (firstn n xs) (firstn n ys) /\
  vcorr_pearson tof mp xs ys = vcorr_pearson tof mp (firstn n xs) (firstn n ys) /\
  mask_filter xs mask = mask_filter (firstn k xs) (firstn k mask).
Proof. intros. apply two_series_truncate. Qed.
Theorem C11_masked_perm_float : forall {T} {DT : IsNone T XR} {U} {DU : IsNone U bool} (mp : nat)
    (xs xs' : list T) (mask mask' : list U),
  canonical idX xs -> canonical idX xs' -> Permutation (combine xs mask) (combine xs' mask') ->
  n_sum_filter xs mask = n_sum_filter xs' mask' /\ vmean_filter idX mp xs mask = vmean_filter idX mp xs' mask' /\
  fst (n_vsum_filter xs mask) = fst (n_vsum_filter xs' mask').
Proof.
  intros T DT U DU mp xs xs' mask mask' H H' HP. destruct (masked_perm_float mp mask mask' H H' HP) as [a b].
  split; [exact a|]. split; [exact b|]. apply (masked_count_perm (NA := NumXR) xs xs' mask mask' HP).
Qed.
Theorem C11_masked_perm_int : forall {T} {DT : IsNone T Z} {U} {DU : IsNone U bool} (mp : nat)
    (xs xs' : list T) (mask mask' : list U),
  Permutation (combine xs mask) (combine xs' mask') ->
  n_sum_filter (NA := AggNumZ) xs mask = n_sum_filter (NA := AggNumZ) xs' mask' /\
  vmean_filter (NA := AggNumZ) zR mp xs mask = vmean_filter (NA := AggNumZ) zR mp xs' mask'.
Proof. intros T DT U DU mp xs xs' mask mask' HP. apply (masked_perm_int mp xs xs' mask mask' HP). Qed.

(* ---- (A6) nullness for EVERY carrier; non-canonical input ------------------------------------------------------------ *)
(* fewer valid observations than required => null: decided by the count alone, so for every carrier (binary64 included),
   every dictionary, every cast, canonical or not.  (The converse is carrier specific: C11_nullness_single / _two.) *)
Theorem C11_null_below_any_carrier :
  forall {A} {NA : Num A} {T} {DT : IsNone T A} {F} {NF : Num F} (tof : A -> F),
  @nisnan F NF nnan = true -> forall (mp : nat) (xs : list T),
  (count_valid xs = 0 -> vsum xs = None /\ vmean tof xs = nnan /\ vmin xs = None /\ vmax xs = None /\
                         vargmin xs = None /\ vargmax xs = None /\ vfirst xs = None /\ vlast xs = None) /\
  (count_valid xs < Nat.max mp 2 -> vvar tof mp xs = nnan /\ vstd tof mp xs = nsqrt nnan) /\
  (count_valid xs < Nat.max mp 3 -> vskew tof mp xs = nnan) /\
  (count_valid xs < Nat.max mp 4 -> vkurt tof mp xs = nnan).
Proof. intros A NA T DT F NF tof H mp xs. apply (null_below_single tof H). Qed.
Theorem C11_null_below_two_any_carrier :
  forall {A T T2} {DT : IsNone T A} {DT2 : IsNone T2 A} {F} {NF : Num F} (tof : A -> F) (mp : nat) (xs : list T) (ys : list T2),
  npairs xs ys < Nat.max mp 2 -> vcov tof mp xs ys = nnan /\ vcorr_pearson tof mp xs ys = nnan.
Proof. intros A T T2 DT DT2 F NF tof mp xs ys H. apply (null_below_two tof mp xs ys H). Qed.
(* the quantifier's min_periods = len + 1 (and anything above): null whatever the data *)
Theorem C11_min_periods_above_length :
  forall {A} {NA : Num A} {T} {DT : IsNone T A} {F} {NF : Num F} (tof : A -> F),
  @nisnan F NF nnan = true -> forall (mp : nat) (xs : list T), length xs < mp ->
  vvar tof mp xs = nnan /\ vstd tof mp xs = nsqrt nnan /\ vskew tof mp xs = nnan /\ vkurt tof mp xs = nnan /\
  vmean_var tof mp xs = (nnan, nnan).
Proof. intros A NA T DT F NF tof H mp xs L. apply min_periods_above_length; assumption. Qed.
Theorem C11_null_below_binary64 : forall {A} {NA : Num A} {T} {DT : IsNone T A} (tof : A -> PrimFloat.float) (mp : nat) (xs : list T),
  (count_valid xs = 0 -> vsum xs = None /\ PrimFloat.is_nan (vmean tof xs) = true /\ vmin xs = None /\ vmax xs = None /\
                         vargmin xs = None /\ vargmax xs = None /\ vfirst xs = None /\ vlast xs = None) /\
  (count_valid xs < Nat.max mp 2 -> PrimFloat.is_nan (vvar tof mp xs) = true /\ PrimFloat.is_nan (vstd tof mp xs) = true) /\
  (count_valid xs < Nat.max mp 3 -> PrimFloat.is_nan (vskew tof mp xs) = true) /\
  (count_valid xs < Nat.max mp 4 -> PrimFloat.is_nan (vkurt tof mp xs) = true).
Proof. intros. apply null_below_binary64. Qed.
Theorem C11_null_below_two_binary64 :
  forall {A T T2} {DT : IsNone T A} {DT2 : IsNone T2 A} (tof : A -> PrimFloat.float) (mp : nat) (xs : list T) (ys : list T2),
  npairs xs ys < Nat.max mp 2 ->
  PrimFloat.is_nan (vcov tof mp xs ys) = true /\ PrimFloat.is_nan (vcorr_pearson tof mp xs ys) = true.
Proof. intros A T T2 DT DT2 tof mp xs ys H. apply (null_below_two_binary64 tof mp xs ys H). Qed.

(* non-canonical input (excluded by DESIGN 5.4 — this is what the code does there): a VALID element whose value is NaN,
   i.e. Some(NaN) in an Option<f64> series, counts as an observation and poisons sum, mean, variance *)
Theorem C11_valid_nan_poisons : forall {T} {DT : IsNone T XR} (mp : nat) (xs : list T),
  In None (vals xs) ->
  vsum xs = Some None /\ vmean idX xs = None /\ vmean_var idX mp xs = (None, None) /\
  vvar idX mp xs = None /\ vstd idX mp xs = None /\ 1 <= count_valid xs.
Proof. intros T DT mp xs H. apply (valid_nan_poisons mp xs H). Qed.

(* ---- (A7) accumulating with Number::n_add at binary64 = the vsum fold: the rounding bound (R2) covers it ----------- *)
Theorem C11_n_add_fold_binary64 : forall xs : list PrimFloat.float,
  n_add_fold (DN := IsNoneF64) zero xs = (ffold zero (fvals xs), length (fvals xs)).
Proof. exact n_add_fold_binary64. Qed.
Theorem C11_n_add_fold_binary64_error : forall xs : list PrimFloat.float,
  ffin (fst (n_add_fold (DN := IsNoneF64) zero xs)) = true ->
  (Rabs (f2r (fst (n_add_fold (DN := IsNoneF64) zero xs)) - sumR (rvals64 xs))
   <= gam u64 (length (rvals64 xs)) * sumabs (rvals64 xs))%R.
Proof. exact n_add_fold_binary64_error. Qed.

(* ---- (A8) f64::floor / ceil as executed by the correspondence run (Run/RunC11.v) ----------------------------------- *)
Theorem C11_f64_floor_shape : forall x : PrimFloat.float,
  match Prim2SF x with
  | S754_finite s m e =>
      if (0 <=? e)%Z then Run.RunC11.f64_floor x = x
      else Run.RunC11.f64_floor x =
           (if (Run.RunC11.f64_floorZ x =? 0)%Z then (if s then neg_zero else zero) else f64_ofZ (Run.RunC11.f64_floorZ x))
  | _ => Run.RunC11.f64_floor x = x
  end /\ Run.RunC11.f64_ceil x = (- Run.RunC11.f64_floor (- x))%float.
Proof. exact f64_floor_shape. Qed.

(* ... and it IS the mathematical floor / ceiling of the real value, for every finite float (Proofs/Audit11Floor.v: Flocq's
   Prim2B / B2R, the mantissa bound from `bounded`, exact conversion of integers below 2^53); NaN / infinities unchanged *)
From Tevec Require Proofs.Audit11Floor.
Theorem C11_f64_floor_is_floor : forall x : PrimFloat.float, ffin x = true ->
  ffin (Run.RunC11.f64_floor x) = true /\ f2r (Run.RunC11.f64_floor x) = IZR (Flocq.Core.Raux.Zfloor (f2r x)).
Proof. exact Proofs.Audit11Floor.f64_floor_spec. Qed.
Theorem C11_f64_ceil_is_ceil : forall x : PrimFloat.float, ffin x = true ->
  ffin (Run.RunC11.f64_ceil x) = true /\ f2r (Run.RunC11.f64_ceil x) = IZR (Flocq.Core.Raux.Zceil (f2r x)).
Proof. exact Proofs.Audit11Floor.f64_ceil_spec. Qed.
Example C11_ex_floor_premise :
  (ffin (-2.5)%float = true) /\ (Run.RunC11.f64_floor (-2.5)%float = (-3)%float) /\
  (Run.RunC11.f64_ceil (-2.5)%float = (-2)%float) /\
  (Run.RunC11.f64_floor 4503599627370496%float = 4503599627370496%float) /\
  (PrimFloat.is_nan (Run.RunC11.f64_floor nan) = true).
Proof. repeat split; vm_compute; reflexivity. Qed.

(* ---- non-vacuity of the audit's implications ----------------------------------------------------------------------- *)
Example C11_ex_audit_number :
  n_add (DN := IsNoneXR) (Some 1%R) None 3 = (Some 1%R, 3) /\ n_add (DN := IsNoneXR) None (Some 1%R) 3 = (None, 4) /\
  n_add_fold (NA := AggNumZ) (DN := IsNone_plain) 0%Z [1; 2; 3]%Z = (6%Z, 3) /\
  n_prod_fold (NA := AggNumZ) (DN := IsNone_plain) 1%Z [1; 2; 3]%Z = (6%Z, 3) /\
  kh_fold (NA := AggNumZ) [1; 2; 3]%Z = (6%Z, 0%Z) /\ In None [Some 1%R; None] /\
  unwrap_id (@IsNone_float XR NumXR) /\ unwrap_id (@IsNone_plain Z).
Proof.
  split; [reflexivity|]. split; [reflexivity|]. split; [reflexivity|]. split; [reflexivity|]. split; [reflexivity|].
  split; [right; left; reflexivity|]. split; [apply unwrap_id_float|apply unwrap_id_plain].
Qed.
Example C11_ex_audit_ordered :
  valid_ok (DT := IsNoneF64) [1%float; nan; (-0)%float] /\ @num_ok _ NumF64 1%float /\ @num_ok XR NumXR (Some 1%R) /\
  vargmin (DT := IsNoneF64) [2%float; nan; 1%float; 1%float] = Some 2 /\
  vmin (DT := IsNoneF64) [2%float; nan; 1%float; 1%float] = Some 1%float /\
  Permutation [0%float; (-0)%float] [(-0)%float; 0%float] /\ Forall (@num_ok Z AggNumZ) [3; 1; 2]%Z.
Proof.
  split; [apply valid_ok_f64|]. split; [reflexivity|]. split; [reflexivity|]. split; [reflexivity|]. split; [reflexivity|].
  split; [apply perm_swap|repeat constructor].
Qed.
Example C11_ex_audit_masked_perm_premise :
  Permutation (combine [Some 1%R; None; Some 3%R] [true; true; false]) (combine [None; Some 3%R; Some 1%R] [true; false; true]).
Proof.
  cbn [combine]. apply Permutation_trans with (l' := [(None, true); (Some 1%R, true); (Some 3%R, false)]); [apply perm_swap|].
  apply perm_skip, perm_swap.
Qed.
Example C11_ex_audit_null_premises :
  count_valid (DT := IsNoneXR) [None; Some 1%R] < Nat.max 0 2 /\ npairs (DT := IsNoneXR) (DT2 := IsNoneXR) [Some 1%R; None] [None; Some 2%R] < Nat.max 0 2 /\
  length [Some 1%R; Some 2%R] < 3 /\ @nisnan XR NumXR nnan = true /\ @nisnan _ NumF64 nnan = true /\
  In None (vals (DT := IsNoneOptXR) [Some (Some 1%R); Some None; None]).
Proof.
  split; [cbn; lia|]. split; [cbn; lia|]. split; [cbn; lia|]. split; [reflexivity|]. split; [reflexivity|].
  cbn. right. left. reflexivity.
Qed.

Print Assumptions C11_round_sum_fold.
Print Assumptions C11_vsum_binary64_error.
Print Assumptions C11_vsum_binary64_error_linear.
Print Assumptions C11_u64_value.
Print Assumptions C11_gam_linear.
Print Assumptions C11_vsum_float_vs_exact_model.
Print Assumptions C11_vsum_finite_certifies.
Print Assumptions C11_vsum_exact_on_grid.
Print Assumptions C11_rounding_model_with_underflow.
Print Assumptions C11_rounding_model_normal_range.
Print Assumptions C11_eta64_value.
Print Assumptions C11_vmean_binary64_error.
Print Assumptions C11_vmean_binary64_error_linear.
Print Assumptions C11_vmean_binary64_error_normal.
Print Assumptions C11_vmean_float_vs_exact_model.
Print Assumptions C11_vmean_finite_certifies.
Print Assumptions C11_number_n_add_n_prod.
Print Assumptions C11_number_n_add_fold.
Print Assumptions C11_number_n_add_fold_is_vsum.
Print Assumptions C11_number_kh_sum_exact.
Print Assumptions C11_number_kh_sum_nan.
Print Assumptions C11_number_kh_sum_binary64.
Print Assumptions C11_number_kh_sum_binary64_witness.
Print Assumptions C11_number_floor_ceil.
Print Assumptions C11_number_min_max_with.
Print Assumptions C11_number_min_max_with_nan.
Print Assumptions C11_number_min_max_with_nan_f64.
Print Assumptions C11_number_min_max_with_ordered.
Print Assumptions C11_number_min_max_with_binary64.
Print Assumptions C11_ordered_carriers.
Print Assumptions C11_number_to_fromas.
Print Assumptions C11_vfold2.
Print Assumptions C11_vapply.
Print Assumptions C11_vcov_is_vfold2.
Print Assumptions C11_arg_points_at_extreme_unconditional.
Print Assumptions C11_extrema_ordered_carrier.
Print Assumptions C11_arg_extrema_ordered_carrier.
Print Assumptions C11_perm_extrema_ordered_carrier.
Print Assumptions C11_valid_ok_f64.
Print Assumptions C11_valid_ok_optf64.
Print Assumptions C11_vmin_vmax_binary64.
Print Assumptions C11_vargmin_vargmax_binary64.
Print Assumptions C11_perm_extrema_binary64.
Print Assumptions C11_perm_extrema_bitwise_refuted.
Print Assumptions C11_plain_first_last.
Print Assumptions C11_plain_n_sum.
Print Assumptions C11_vfirst_vlast_are_plain.
Print Assumptions C11_plain_arg_ordered_carrier.
Print Assumptions C11_plain_argmax_f64.
Print Assumptions C11_plain_arg_int.
Print Assumptions C11_plain_min_max_with_nan.
Print Assumptions C11_two_series_truncate.
Print Assumptions C11_masked_perm_float.
Print Assumptions C11_masked_perm_int.
Print Assumptions C11_null_below_any_carrier.
Print Assumptions C11_null_below_two_any_carrier.
Print Assumptions C11_min_periods_above_length.
Print Assumptions C11_null_below_binary64.
Print Assumptions C11_null_below_two_binary64.
Print Assumptions C11_valid_nan_poisons.
Print Assumptions C11_n_add_fold_binary64.
Print Assumptions C11_n_add_fold_binary64_error.
Print Assumptions C11_f64_floor_shape.
Print Assumptions C11_f64_floor_is_floor.
Print Assumptions C11_f64_ceil_is_ceil.
