(* Props/C18.v — property C18: parsers are total and round-trip with their formatters.
   Statements only; proofs in Proofs/Parse.v and Proofs/ParseDT.v.                              *)
From Coq Require Import List ZArith Lia.
From Tevec Require Import Base.Prelude Model.Parse Spec.DurationC18 Proofs.Parse.
From Tevec Require Import Spec.CalendarC18 Model.ParseDT Proofs.CalendarC18 Proofs.ParseDT.
From Tevec Require Import Proofs.ParseRejects Proofs.ParseWs Proofs.ParseDT2.
Import ListNotations.
Local Open Scope Z_scope.

(* (1) TimeDelta::parse is total: for EVERY string (any list of code points) the scanner neither
       panics (the slice `&duration[start..i]` is always in bounds, nothing is unwrapped, no
       arithmetic overflows) nor runs out of fuel (the loops terminate).                          *)
Theorem C18_total :
  forall s : str, (forall k, parse s <> PPanic k) /\ parse s <> PFuel.
Proof. exact parse_total. Qed.

(* the invariant behind (1), for every reachable scanner state *)
Theorem C18_scanner_invariant :
  forall fuel s rest pos start a,
    (start <= pos)%nat -> (pos + length rest = length s)%nat -> (length rest < fuel)%nat ->
    match scan fuel s rest pos start a with PPanic _ | PFuel => False | _ => True end.
Proof. exact scan_safe. Qed.

(* (2) every well-formed duration string — a sequence of terms  sign? digit+ unit  with unit in
       ns us ms s m h d w mo y — whose numbers, products and running sums stay in range parses
       to the sum of its terms: months and years into the month count, the rest into the fixed
       part.                                                                                      *)
Theorem C18_wellformed :
  forall ts : list term,
    Forall wf_term ts -> Forall term_in_range ts -> partial_sums_in_range ts -> total_in_range ts ->
    parse (render_terms ts) = POk (sumf t_months ts) (fixed_ns ts).
Proof. exact wellformed_sum. Qed.

(* non-vacuity: "2y1mo-3d5h-2m3s" (the doc-comment example) satisfies every premise of (2) *)
Definition ex_terms : list term :=
  [ mk_term None [50] Uy; mk_term None [49] Umo; mk_term (Some true) [51] Ud;
    mk_term None [53] Uh; mk_term (Some true) [50] Um; mk_term (Some false) [51] Us ].

Example C18_wellformed_example :
  Forall wf_term ex_terms /\ Forall term_in_range ex_terms /\ partial_sums_in_range ex_terms /\
  total_in_range ex_terms /\
  render_terms ex_terms = [50;121; 49;109;111; 45;51;100; 53;104; 45;50;109; 43;51;115] /\
  parse (render_terms ex_terms) = POk 25 (-241317000000000).
Proof.
  split; [repeat constructor; discriminate|].
  split; [repeat constructor|].
  split; [intros k Hk; do 7 (destruct k as [|k]; [vm_compute; auto|]); cbn in Hk; lia|].
  split; [vm_compute; intuition discriminate|].
  split; vm_compute; reflexivity.
Qed.

(* the strings that used to panic (unwrap of the failed i64 parse, overflow) are errors now *)
Example C18_former_panics_are_errors :
  parse [45; 45; 49; 100] = PErr /\                       (* "--1d" *)
  parse [97; 49; 100] = PErr /\                           (* "a1d"  *)
  parse [233; 49; 100] = PErr /\                          (* "é1d"  *)
  parse [57;57;57;57;57;57;57;57;57;57;57;57;57;57;57;57;57;57;57;57;100] = PErr /\  (* 20 digits *)
  parse [50;48;48;48;48;48;48;48;48;48;48;48;48;48;48;119] = PErr /\                 (* 2e14 w *)
  parse [52;50;57;52;57;54;55;50;57;55;109;111] = PErr.   (* "4294967297mo" *)
Proof. vm_compute. repeat split. Qed.

(* (2') the converse of (2): every string the scanner ACCEPTS is a sequence of well-formed terms followed by
       a degenerate tail (nothing, or one arbitrary character followed by digits only: "12", "d", "1d2", "1d "),
       and the value returned is the sum of those terms — the scanner never accepts a string with another
       meaning.  `tail_ok` / `in_language` are defined in Proofs/ParseRejects.v.                     *)
Theorem C18_parse_accepts_grammar :
  forall (s : str) (m ns : Z), parse s = POk m ns ->
    exists (ts : list term) (tail : str),
      s = render_terms ts ++ tail /\ Forall wf_term ts /\ tail_ok ts tail /\
      m = sumf t_months ts /\ ns = fixed_ns ts.
Proof. exact parse_accepts_grammar. Qed.

(* ... contrapositive: a string outside that language is rejected with Err (never a panic: (1)) *)
Theorem C18_parse_rejects : forall s : str, ~ in_language s -> parse s = PErr.
Proof. exact parse_not_in_language_err. Qed.

(* the empty string and the degenerate tail alone are accepted as the zero duration *)
Theorem C18_parse_empty_and_tail_only :
  parse [] = POk 0 0 /\ (forall c ds, Forall (fun d => is_digit d = true) ds -> parse (c :: ds) = POk 0 0).
Proof. split; [exact parse_empty | exact parse_tail_only]. Qed.

(* a first character that is neither a sign nor a digit is rejected unless digits only follow ("a1d", " 1d") *)
Theorem C18_parse_bad_head_rejected :
  forall c r, is_digit c = false -> c <> 43 -> c <> 45 -> ~ Forall (fun d => is_digit d = true) r ->
    parse (c :: r) = PErr.
Proof. exact parse_bad_head_rejected. Qed.

(* white space (char::is_whitespace, the class chrono trims) is never consulted by the scanner and belongs
   to no term: in an accepted string it can only be followed by digits up to the end; anywhere else — leading
   (" 1d"), between terms ("1d 2h") — the string is rejected *)
Theorem C18_parse_whitespace_position :
  forall s m ns, parse s = POk m ns ->
    forall pre c post, s = pre ++ c :: post -> is_ws c = true -> Forall (fun d => is_digit d = true) post.
Proof. exact parse_ws_position. Qed.
Theorem C18_parse_whitespace_rejected :
  forall pre c post, is_ws c = true -> ~ Forall (fun d => is_digit d = true) post ->
    parse (pre ++ c :: post) = PErr.
Proof. exact parse_inner_ws_rejected. Qed.

(* non-vacuity: "1d 2h" and " 1d" satisfy the premises and are errors; "1d " and " " are accepted *)
Example C18_parse_rejects_example :
  is_ws 32 = true /\ ~ Forall (fun d => is_digit d = true) [50; 104] /\
  parse ([49; 100] ++ 32 :: [50; 104]) = PErr /\ parse (32 :: [49; 100]) = PErr /\
  parse [49; 100; 32] = POk 0 86400000000000 /\ parse [32] = POk 0 0 /\
  in_language [49; 100; 32].
Proof.
  split; [reflexivity|]. split.
  { intros H. inversion H as [|? ? _ H2]; subst. inversion H2 as [|? ? H3 _]; subst. discriminate H3. }
  split; [vm_compute; reflexivity|]. split; [vm_compute; reflexivity|].
  split; [vm_compute; reflexivity|]. split; [vm_compute; reflexivity|].
  exists [mk_term None [49] Ud], [32]. split; [reflexivity|]. split.
  { repeat constructor; discriminate. }
  right. exists 32, []. split; [reflexivity|]. split; [constructor|]. intros _. reflexivity.
Qed.

(* (3) date-time text.  The calendar used by the text model is exact: for EVERY day number,
       civil_from_days yields a valid date and days_from_civil maps it back.                      *)
Theorem C18_calendar_inverse :
  forall z : Z,
    let '(y, m, d) := civil_from_days z in
    valid_date y m d = true /\ days_from_civil y m d = z.
Proof. exact civil_roundtrip. Qed.

(* full statement of the round trip: every unit, each of the 11 listed formats (fmt_k 1 is also the
   format strftime uses by default), every non-NaT instant chrono can represent and the format can
   express (whole seconds unless the format has %f, midnight for the date-only formats 2 3 5 9,
   years 0..9999 for the formats 3 4 7 8 whose %Y is followed directly by digits), parsed back with
   the format given explicitly AND through the rule list of DateTime::parse(s, None).
   PROVED in full below (C18_datetime_roundtrip, Proofs/ParseDT2.v); the two older `_partial` theorems
   (the default format through the rule list; all 11 formats explicitly; both years 0000..9999) are kept
   as the lemmas it was built from.                                                               *)
Definition expressible (u : Z) (k : nat) (x : Z) (f : dtf) : Prop :=
  (has_frac k = false -> x mod per_sec u = 0) /\
  (date_only k = true -> x mod (86400 * per_sec u) = 0) /\
  (In k [3; 4; 7; 8]%nat -> 0 <= f_y f <= 9999).
Definition C18_datetime_roundtrip_full_statement : Prop :=
  forall u k x f,
    unit_code u -> (k < 11)%nat -> in_i64 x = true -> x <> i64_min ->
    fields_of_instant u x = Some f -> expressible u k x f ->
    dt_format u (fmt_k k) x = Ok (render (fmt_k k) f) /\
    parse_with u (fmt_k k) (render (fmt_k k) f) = Some x /\
    dt_parse u (render (fmt_k k) f) = Some x.

(* partial: the default format "%Y-%m-%d %H:%M:%S.%f", years 0000..9999, all four units
   (u = 0 s, 1 ms, 2 us, 3 ns), every non-NaT instant x: strftime renders the fields f of x, and
   parsing that text — with the format given explicitly, and through the rule list of
   DateTime::parse(s, None) where the first rule must reject it — returns x.                      *)
Theorem C18_datetime_roundtrip_partial :
  forall u x f,
    unit_code u -> in_i64 x = true -> x <> i64_min ->
    fields_of_instant u x = Some f -> 0 <= f_y f <= 9999 ->
    dt_format u fmt_default x = Ok (render fmt_default f) /\
    parse_with u fmt_default (render fmt_default f) = Some x /\
    dt_parse u (render fmt_default f) = Some x.
Proof. exact dt_default_roundtrip. Qed.

(* partial (b): each of the 11 listed formats, format given explicitly, years 0000..9999, all four
   units, every instant the format can express.                                                  *)
Theorem C18_datetime_roundtrip_listed_partial :
  forall u k x f,
    unit_code u -> (k < 11)%nat -> in_i64 x = true -> x <> i64_min ->
    fields_of_instant u x = Some f -> 0 <= f_y f <= 9999 ->
    (has_frac k = false -> x mod per_sec u = 0) ->
    (date_only k = true -> x mod (86400 * per_sec u) = 0) ->
    dt_format u (fmt_k k) x = Ok (render (fmt_k k) f) /\
    parse_with u (fmt_k k) (render (fmt_k k) f) = Some x.
Proof. exact dt_listed_roundtrip. Qed.

(* ---- the full statement, proved (Proofs/ParseDT2.v) --------------------------------------------------- *)
(* (b') explicit format, EVERY year chrono represents (-262143..262142; signed rendering `+12345`, `-0001`
        outside 0000..9999) for the formats whose %Y is followed by a literal, a space or the end of the text
        (0 1 2 5 6 9 10); 0000..9999 for the formats 3 4 7 8 whose %Y is followed directly by digits *)
Theorem C18_datetime_roundtrip_listed_all_years :
  forall u k x f,
    unit_code u -> (k < 11)%nat -> in_i64 x = true -> x <> i64_min ->
    fields_of_instant u x = Some f ->
    (y4 k = true -> 0 <= f_y f <= 9999) ->
    (has_frac k = false -> x mod per_sec u = 0) ->
    (date_only k = true -> x mod (86400 * per_sec u) = 0) ->
    dt_format u (fmt_k k) x = Ok (render (fmt_k k) f) /\
    parse_with u (fmt_k k) (render (fmt_k k) f) = Some x.
Proof. exact dt_listed_roundtrip_signed. Qed.

(* (a') no earlier rule of TIME_RULE_VEC reads a text rendered with format k differently: each of the 55 rule
        pairs j < k rejects the text or returns the same instant ... *)
Theorem C18_earlier_rule_unambiguous :
  forall u j k x f,
    unit_code u -> (j < k)%nat -> (k < 11)%nat ->
    fields_of_instant u x = Some f -> (y4 k = true -> 0 <= f_y f <= 9999) ->
    parse_with u (fmt_k k) (render (fmt_k k) f) = Some x ->
    parse_with u (fmt_k j) (render (fmt_k k) f) = None
    \/ parse_with u (fmt_k j) (render (fmt_k k) f) = Some x.
Proof. exact earlier_rule_unambiguous. Qed.
(* ... in fact 53 pairs reject (for every parser state p) and only (4,7), (6,8) accept — with the same meaning *)
Theorem C18_earlier_rule_rejects :
  forall j k f p,
    (j < k)%nat -> (k < 11)%nat -> same_pair j k = false ->
    year_in_range (f_y f) -> (y4 k = true -> 0 <= f_y f <= 9999) ->
    parse_items (fmt_k j) (render (fmt_k k) f) p = None.
Proof. exact earlier_rule_rejects. Qed.
(* the abstraction behind it is sound for EVERY text and rule: a text a rule accepts is accepted on its
   character classes (so a syntactic rejection on classes is a rejection by the parser) *)
Theorem C18_class_abstraction_sound :
  forall items s p p', parse_items items s p = Some p' -> csyn items (map cls_of s) = true.
Proof. exact parse_items_csyn. Qed.

(* the full statement *)
Theorem C18_datetime_roundtrip : C18_datetime_roundtrip_full_statement.
Proof.
  intros u k x f Hu Hk Hx Hn Hf (H1 & H2 & H3). apply dt_full_roundtrip; assumption.
Qed.

(* non-vacuity of the signed branch and of the rule list for a non-default format: year -1 through
   "%Y-%m-%d" (rule 2; rules 0 and 1 must reject) and year 10000 through "%Y/%m/%d" (rule 9) *)
Example C18_datetime_signed_example :
  fields_of_instant 0 (-62198755200) = Some (mk_dtf (-1) 1 1 0 0 0 0) /\
  render (fmt_k 2) (mk_dtf (-1) 1 1 0 0 0 0) = [45;48;48;48;49;45;48;49;45;48;49] /\
  dt_parse 0 [45;48;48;48;49;45;48;49;45;48;49] = Some (-62198755200) /\
  fields_of_instant 1 253402300800000 = Some (mk_dtf 10000 1 1 0 0 0 0) /\
  render (fmt_k 9) (mk_dtf 10000 1 1 0 0 0 0) = [43;49;48;48;48;48;47;48;49;47;48;49] /\
  dt_parse 1 [43;49;48;48;48;48;47;48;49;47;48;49] = Some 253402300800000.
Proof. exact signed_year_example. Qed.
(* non-vacuity of the same-meaning pairs: "20200101123456" is read by rule 4 ("%Y%m%d %H%M%S", the space
   matching nothing) before rule 7 gets to see it, with the same result *)
Example C18_same_pair_example :
  let f := mk_dtf 2020 1 1 12 34 56 0 in
  render (fmt_k 7) f = [50;48;50;48;48;49;48;49;49;50;51;52;53;54] /\
  parse_with 0 (fmt_k 4) (render (fmt_k 7) f) = Some 1577882096 /\
  parse_with 0 (fmt_k 7) (render (fmt_k 7) f) = Some 1577882096 /\
  same_pair 4 7 = true /\ same_pair 3 7 = false /\
  expressible 0 7 1577882096 f.
Proof.
  cbv zeta. do 5 (split; [vm_compute; reflexivity|]).
  unfold expressible. cbn [has_frac date_only f_y]. split; [intros _; reflexivity|].
  split; [discriminate|]. intros _. lia.
Qed.

(* non-vacuity of (b): 2020-01-01 12:34:56 in seconds through "%d/%m/%Y%H%M%S" (rule 8, one of the
   two repaired formats) and 2020-01-01 in milliseconds through "%Y%m%d" (rule 3) *)
Example C18_datetime_listed_example :
  let f := mk_dtf 2020 1 1 12 34 56 0 in
  let g := mk_dtf 2020 1 1 0 0 0 0 in
  fields_of_instant 0 1577882096 = Some f /\ 1577882096 mod per_sec 0 = 0 /\
  render (fmt_k 8) f = [48;49;47;48;49;47;50;48;50;48;49;50;51;52;53;54] /\
  parse_with 0 (fmt_k 8) (render (fmt_k 8) f) = Some 1577882096 /\
  fields_of_instant 1 1577836800000 = Some g /\ 1577836800000 mod (86400 * per_sec 1) = 0 /\
  render (fmt_k 3) g = [50;48;50;48;48;49;48;49] /\
  parse_with 1 (fmt_k 3) (render (fmt_k 3) g) = Some 1577836800000.
Proof. vm_compute. repeat split. Qed.

(* non-vacuity: 2020-09-13 12:26:40.123456789 at nanosecond resolution, 1969-12-31 23:59:59.999 at ms *)
Example C18_datetime_example :
  let f := mk_dtf 2020 9 13 12 26 40 123456789 in
  let g := mk_dtf 1969 12 31 23 59 59 999000000 in
  fields_of_instant 3 1600000000123456789 = Some f /\
  render fmt_default f = [50;48;50;48;45;48;57;45;49;51;32;49;50;58;50;54;58;52;48;46;
                          49;50;51;52;53;54;55;56;57] /\
  dt_parse 3 (render fmt_default f) = Some 1600000000123456789 /\
  fields_of_instant 1 (-1) = Some g /\
  dt_parse 1 (render fmt_default g) = Some (-1).
Proof. vm_compute. repeat split. Qed.

Print Assumptions C18_total.
Print Assumptions C18_scanner_invariant.
Print Assumptions C18_wellformed.
Print Assumptions C18_calendar_inverse.
Print Assumptions C18_datetime_roundtrip_partial.
Print Assumptions C18_datetime_roundtrip_listed_partial.
Print Assumptions C18_parse_accepts_grammar.
Print Assumptions C18_parse_rejects.
Print Assumptions C18_parse_whitespace_rejected.
Print Assumptions C18_datetime_roundtrip_listed_all_years.
Print Assumptions C18_earlier_rule_unambiguous.
Print Assumptions C18_class_abstraction_sound.
Print Assumptions C18_datetime_roundtrip.
