(* Props/C18.v — property C18: parsers are total and round-trip with their formatters.
   Statements only; proofs in Proofs/Parse.v and Proofs/ParseDT.v.                              *)
From Coq Require Import List ZArith Lia.
From Tevec Require Import Base.Prelude Model.Parse Spec.DurationC18 Proofs.Parse.
Import ListNotations.
Local Open Scope Z_scope.

(* (1) TimeDelta::parse is total: for EVERY string (any list of code points) the scanner neither
       panics (the slice `&duration[start..i]` is always in bounds, nothing is unwrapped, no
       arithmetic overflows) nor runs out of fuel (the loops terminate).                          *)
Theorem C18_total :
  forall s : str, (forall k, parse s <> PPanic k) /\ parse s <> PFuel.
Proof. exact parse_total. Qed.

(* the invariant behind (1), for every reachable scanner state *)
Theorem C18_scanner_invariant :
  forall fuel s rest pos start a,
    (start <= pos)%nat -> (pos + length rest = length s)%nat -> (length rest < fuel)%nat ->
    match scan fuel s rest pos start a with PPanic _ | PFuel => False | _ => True end.
Proof. exact scan_safe. Qed.

(* (2) every well-formed duration string — a sequence of terms  sign? digit+ unit  with unit in
       ns us ms s m h d w mo y — whose numbers, products and running sums stay in range parses
       to the sum of its terms: months and years into the month count, the rest into the fixed
       part.                                                                                      *)
Theorem C18_wellformed :
  forall ts : list term,
    Forall wf_term ts -> Forall term_in_range ts -> partial_sums_in_range ts -> total_in_range ts ->
    parse (render_terms ts) = POk (sumf t_months ts) (fixed_ns ts).
Proof. exact wellformed_sum. Qed.

(* non-vacuity: "2y1mo-3d5h-2m3s" (the doc-comment example) satisfies every premise of (2) *)
Definition ex_terms : list term :=
  [ mk_term None [50] Uy; mk_term None [49] Umo; mk_term (Some true) [51] Ud;
    mk_term None [53] Uh; mk_term (Some true) [50] Um; mk_term (Some false) [51] Us ].

Example C18_wellformed_example :
  Forall wf_term ex_terms /\ Forall term_in_range ex_terms /\ partial_sums_in_range ex_terms /\
  total_in_range ex_terms /\
  render_terms ex_terms = [50;121; 49;109;111; 45;51;100; 53;104; 45;50;109; 43;51;115] /\
  parse (render_terms ex_terms) = POk 25 (-241317000000000).
Proof.
  split; [repeat constructor; discriminate|].
  split; [repeat constructor|].
  split; [intros k Hk; do 7 (destruct k as [|k]; [vm_compute; auto|]); cbn in Hk; lia|].
  split; [vm_compute; intuition discriminate|].
  split; vm_compute; reflexivity.
Qed.

(* the strings that used to panic (unwrap of the failed i64 parse, overflow) are errors now *)
Example C18_former_panics_are_errors :
  parse [45; 45; 49; 100] = PErr /\                       (* "--1d" *)
  parse [97; 49; 100] = PErr /\                           (* "a1d"  *)
  parse [233; 49; 100] = PErr /\                          (* "é1d"  *)
  parse [57;57;57;57;57;57;57;57;57;57;57;57;57;57;57;57;57;57;57;57;100] = PErr /\  (* 20 digits *)
  parse [50;48;48;48;48;48;48;48;48;48;48;48;48;48;48;119] = PErr /\                 (* 2e14 w *)
  parse [52;50;57;52;57;54;55;50;57;55;109;111] = PErr.   (* "4294967297mo" *)
Proof. vm_compute. repeat split. Qed.

Print Assumptions C18_total.
Print Assumptions C18_scanner_invariant.
Print Assumptions C18_wellformed.
