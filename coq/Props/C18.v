(* Props/C18.v — property C18 (placeholder while the proofs are being written). *)
From Tevec Require Import Base.Prelude Model.Parse Model.ParseDT.
