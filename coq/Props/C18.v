(* Props/C18.v — property C18: parsers are total and round-trip with their formatters.
   Statements only; proofs in Proofs/Parse.v and Proofs/ParseDT.v.                              *)
From Coq Require Import List ZArith Lia.
From Tevec Require Import Base.Prelude Model.Parse Spec.DurationC18 Proofs.Parse.
From Tevec Require Import Spec.CalendarC18 Model.ParseDT Proofs.CalendarC18 Proofs.ParseDT.
Import ListNotations.
Local Open Scope Z_scope.

(* (1) TimeDelta::parse is total: for EVERY string (any list of code points) the scanner neither
       panics (the slice `&duration[start..i]` is always in bounds, nothing is unwrapped, no
       arithmetic overflows) nor runs out of fuel (the loops terminate).                          *)
Theorem C18_total :
  forall s : str, (forall k, parse s <> PPanic k) /\ parse s <> PFuel.
Proof. exact parse_total. Qed.

(* the invariant behind (1), for every reachable scanner state *)
Theorem C18_scanner_invariant :
  forall fuel s rest pos start a,
    (start <= pos)%nat -> (pos + length rest = length s)%nat -> (length rest < fuel)%nat ->
    match scan fuel s rest pos start a with PPanic _ | PFuel => False | _ => True end.
Proof. exact scan_safe. Qed.

(* (2) every well-formed duration string — a sequence of terms  sign? digit+ unit  with unit in
       ns us ms s m h d w mo y — whose numbers, products and running sums stay in range parses
       to the sum of its terms: months and years into the month count, the rest into the fixed
       part.                                                                                      *)
Theorem C18_wellformed :
  forall ts : list term,
    Forall wf_term ts -> Forall term_in_range ts -> partial_sums_in_range ts -> total_in_range ts ->
    parse (render_terms ts) = POk (sumf t_months ts) (fixed_ns ts).
Proof. exact wellformed_sum. Qed.

(* non-vacuity: "2y1mo-3d5h-2m3s" (the doc-comment example) satisfies every premise of (2) *)
Definition ex_terms : list term :=
  [ mk_term None [50] Uy; mk_term None [49] Umo; mk_term (Some true) [51] Ud;
    mk_term None [53] Uh; mk_term (Some true) [50] Um; mk_term (Some false) [51] Us ].

Example C18_wellformed_example :
  Forall wf_term ex_terms /\ Forall term_in_range ex_terms /\ partial_sums_in_range ex_terms /\
  total_in_range ex_terms /\
  render_terms ex_terms = [50;121; 49;109;111; 45;51;100; 53;104; 45;50;109; 43;51;115] /\
  parse (render_terms ex_terms) = POk 25 (-241317000000000).
Proof.
  split; [repeat constructor; discriminate|].
  split; [repeat constructor|].
  split; [intros k Hk; do 7 (destruct k as [|k]; [vm_compute; auto|]); cbn in Hk; lia|].
  split; [vm_compute; intuition discriminate|].
  split; vm_compute; reflexivity.
Qed.

(* the strings that used to panic (unwrap of the failed i64 parse, overflow) are errors now *)
Example C18_former_panics_are_errors :
  parse [45; 45; 49; 100] = PErr /\                       (* "--1d" *)
  parse [97; 49; 100] = PErr /\                           (* "a1d"  *)
  parse [233; 49; 100] = PErr /\                          (* "é1d"  *)
  parse [57;57;57;57;57;57;57;57;57;57;57;57;57;57;57;57;57;57;57;57;100] = PErr /\  (* 20 digits *)
  parse [50;48;48;48;48;48;48;48;48;48;48;48;48;48;48;119] = PErr /\                 (* 2e14 w *)
  parse [52;50;57;52;57;54;55;50;57;55;109;111] = PErr.   (* "4294967297mo" *)
Proof. vm_compute. repeat split. Qed.

(* (3) date-time text.  The calendar used by the text model is exact: for EVERY day number,
       civil_from_days yields a valid date and days_from_civil maps it back.                      *)
Theorem C18_calendar_inverse :
  forall z : Z,
    let '(y, m, d) := civil_from_days z in
    valid_date y m d = true /\ days_from_civil y m d = z.
Proof. exact civil_roundtrip. Qed.

(* full statement of the round trip: every unit, each of the 11 listed formats (fmt_k 1 is also the
   format strftime uses by default), every non-NaT instant chrono can represent and the format can
   express (whole seconds unless the format has %f, midnight for the date-only formats 2 3 5 9,
   years 0..9999 for the formats 3 4 7 8 whose %Y is followed directly by digits), parsed back with
   the format given explicitly AND through the rule list of DateTime::parse(s, None).
   NOT proved in full (see notes/C18.md); the two partial theorems below cover
   (a) the default format, explicit and through the rule list, years 0000..9999;
   (b) all 11 formats with the format given explicitly, years 0000..9999.                         *)
Definition expressible (u : Z) (k : nat) (x : Z) (f : dtf) : Prop :=
  (has_frac k = false -> x mod per_sec u = 0) /\
  (date_only k = true -> x mod (86400 * per_sec u) = 0) /\
  (In k [3; 4; 7; 8]%nat -> 0 <= f_y f <= 9999).
Definition C18_datetime_roundtrip_full_statement : Prop :=
  forall u k x f,
    unit_code u -> (k < 11)%nat -> in_i64 x = true -> x <> i64_min ->
    fields_of_instant u x = Some f -> expressible u k x f ->
    dt_format u (fmt_k k) x = Ok (render (fmt_k k) f) /\
    parse_with u (fmt_k k) (render (fmt_k k) f) = Some x /\
    dt_parse u (render (fmt_k k) f) = Some x.

(* partial: the default format "%Y-%m-%d %H:%M:%S.%f", years 0000..9999, all four units
   (u = 0 s, 1 ms, 2 us, 3 ns), every non-NaT instant x: strftime renders the fields f of x, and
   parsing that text — with the format given explicitly, and through the rule list of
   DateTime::parse(s, None) where the first rule must reject it — returns x.                      *)
Theorem C18_datetime_roundtrip_partial :
  forall u x f,
    unit_code u -> in_i64 x = true -> x <> i64_min ->
    fields_of_instant u x = Some f -> 0 <= f_y f <= 9999 ->
    dt_format u fmt_default x = Ok (render fmt_default f) /\
    parse_with u fmt_default (render fmt_default f) = Some x /\
    dt_parse u (render fmt_default f) = Some x.
Proof. exact dt_default_roundtrip. Qed.

(* partial (b): each of the 11 listed formats, format given explicitly, years 0000..9999, all four
   units, every instant the format can express.                                                  *)
Theorem C18_datetime_roundtrip_listed_partial :
  forall u k x f,
    unit_code u -> (k < 11)%nat -> in_i64 x = true -> x <> i64_min ->
    fields_of_instant u x = Some f -> 0 <= f_y f <= 9999 ->
    (has_frac k = false -> x mod per_sec u = 0) ->
    (date_only k = true -> x mod (86400 * per_sec u) = 0) ->
    dt_format u (fmt_k k) x = Ok (render (fmt_k k) f) /\
    parse_with u (fmt_k k) (render (fmt_k k) f) = Some x.
Proof. exact dt_listed_roundtrip. Qed.

(* non-vacuity of (b): 2020-01-01 12:34:56 in seconds through "%d/%m/%Y%H%M%S" (rule 8, one of the
   two repaired formats) and 2020-01-01 in milliseconds through "%Y%m%d" (rule 3) *)
Example C18_datetime_listed_example :
  let f := mk_dtf 2020 1 1 12 34 56 0 in
  let g := mk_dtf 2020 1 1 0 0 0 0 in
  fields_of_instant 0 1577882096 = Some f /\ 1577882096 mod per_sec 0 = 0 /\
  render (fmt_k 8) f = [48;49;47;48;49;47;50;48;50;48;49;50;51;52;53;54] /\
  parse_with 0 (fmt_k 8) (render (fmt_k 8) f) = Some 1577882096 /\
  fields_of_instant 1 1577836800000 = Some g /\ 1577836800000 mod (86400 * per_sec 1) = 0 /\
  render (fmt_k 3) g = [50;48;50;48;48;49;48;49] /\
  parse_with 1 (fmt_k 3) (render (fmt_k 3) g) = Some 1577836800000.
Proof. vm_compute. repeat split. Qed.

(* non-vacuity: 2020-09-13 12:26:40.123456789 at nanosecond resolution, 1969-12-31 23:59:59.999 at ms *)
Example C18_datetime_example :
  let f := mk_dtf 2020 9 13 12 26 40 123456789 in
  let g := mk_dtf 1969 12 31 23 59 59 999000000 in
  fields_of_instant 3 1600000000123456789 = Some f /\
  render fmt_default f = [50;48;50;48;45;48;57;45;49;51;32;49;50;58;50;54;58;52;48;46;
                          49;50;51;52;53;54;55;56;57] /\
  dt_parse 3 (render fmt_default f) = Some 1600000000123456789 /\
  fields_of_instant 1 (-1) = Some g /\
  dt_parse 1 (render fmt_default g) = Some (-1).
Proof. vm_compute. repeat split. Qed.

Print Assumptions C18_total.
Print Assumptions C18_scanner_invariant.
Print Assumptions C18_wellformed.
Print Assumptions C18_calendar_inverse.
Print Assumptions C18_datetime_roundtrip_partial.
Print Assumptions C18_datetime_roundtrip_listed_partial.
