(* Props/C18.v — property C18: parsers are total and round-trip with their formatters.
   Statements only; proofs in Proofs/Parse.v and Proofs/ParseDT.v.                              *)
From Coq Require Import List ZArith Lia.
From Tevec Require Import Base.Prelude Model.Parse Spec.DurationC18 Proofs.Parse.
From Tevec Require Import Spec.CalendarC18 Model.ParseDT Proofs.CalendarC18 Proofs.ParseDT.
From Tevec Require Import Proofs.ParseRejects Proofs.ParseWs Proofs.ParseDT2 Proofs.Audit18.
From Tevec Require Model.Time.
Import ListNotations.
Local Open Scope Z_scope.

(* (1) TimeDelta::parse is total: for EVERY string (any list of code points) the scanner neither
       panics (the slice `&duration[start..i]` is always in bounds, nothing is unwrapped, no
       arithmetic overflows) nor runs out of fuel (the loops terminate).                          *)
Theorem C18_total :
  forall s : str, (forall k, parse s <> PPanic k) /\ parse s <> PFuel.
Proof. exact parse_total. Qed.

(* the invariant behind (1), for every reachable scanner state *)
Theorem C18_scanner_invariant :
  forall fuel s rest pos start a,
    (start <= pos)%nat -> (pos + length rest = length s)%nat -> (length rest < fuel)%nat ->
    match scan fuel s rest pos start a with PPanic _ | PFuel => False | _ => True end.
Proof. exact scan_safe. Qed.

(* (2) every well-formed duration string — a sequence of terms  sign? digit+ unit  with unit in
       ns us ms s m h d w mo y — whose numbers, products and running sums stay in range parses
       to the sum of its terms: months and years into the month count, the rest into the fixed
       part.                                                                                      *)
Theorem C18_wellformed :
  forall ts : list term,
    Forall wf_term ts -> Forall term_in_range ts -> partial_sums_in_range ts -> total_in_range ts ->
    parse (render_terms ts) = POk (sumf t_months ts) (fixed_ns ts).
Proof. exact wellformed_sum. Qed.

(* non-vacuity: "2y1mo-3d5h-2m3s" (the doc-comment example) satisfies every premise of (2) *)
Definition ex_terms : list term :=
  [ mk_term None [50] Uy; mk_term None [49] Umo; mk_term (Some true) [51] Ud;
    mk_term None [53] Uh; mk_term (Some true) [50] Um; mk_term (Some false) [51] Us ].

Example C18_wellformed_example :
  Forall wf_term ex_terms /\ Forall term_in_range ex_terms /\ partial_sums_in_range ex_terms /\
  total_in_range ex_terms /\
  render_terms ex_terms = [50;121; 49;109;111; 45;51;100; 53;104; 45;50;109; 43;51;115] /\
  parse (render_terms ex_terms) = POk 25 (-241317000000000).
Proof.
  split; [repeat constructor; discriminate|].
  split; [repeat constructor|].
  split; [intros k Hk; do 7 (destruct k as [|k]; [vm_compute; auto|]); cbn in Hk; lia|].
  split; [vm_compute; intuition discriminate|].
  split; vm_compute; reflexivity.
Qed.

(* the strings that used to panic (unwrap of the failed i64 parse, overflow) are errors now *)
Example C18_former_panics_are_errors :
  parse [45; 45; 49; 100] = PErr /\                       (* "--1d" *)
  parse [97; 49; 100] = PErr /\                           (* "a1d"  *)
  parse [233; 49; 100] = PErr /\                          (* "é1d"  *)
  parse [57;57;57;57;57;57;57;57;57;57;57;57;57;57;57;57;57;57;57;57;100] = PErr /\  (* 20 digits *)
  parse [50;48;48;48;48;48;48;48;48;48;48;48;48;48;48;119] = PErr /\                 (* 2e14 w *)
  parse [52;50;57;52;57;54;55;50;57;55;109;111] = PErr.   (* "4294967297mo" *)
Proof. vm_compute. repeat split. Qed.

(* (2') the converse of (2): every string the scanner ACCEPTS is a sequence of well-formed terms followed by
       a degenerate tail (nothing, or one arbitrary character followed by digits only: "12", "d", "1d2", "1d "),
       and the value returned is the sum of those terms — the scanner never accepts a string with another
       meaning.  `tail_ok` / `in_language` are defined in Proofs/ParseRejects.v.                     *)
Theorem C18_parse_accepts_grammar :
  forall (s : str) (m ns : Z), parse s = POk m ns ->
    exists (ts : list term) (tail : str),
      s = render_terms ts ++ tail /\ Forall wf_term ts /\ tail_ok ts tail /\
      m = sumf t_months ts /\ ns = fixed_ns ts.
Proof. exact parse_accepts_grammar. Qed.

(* ... contrapositive: a string outside that language is rejected with Err (never a panic: (1)) *)
Theorem C18_parse_rejects : forall s : str, ~ in_language s -> parse s = PErr.
Proof. exact parse_not_in_language_err. Qed.

(* the empty string and the degenerate tail alone are accepted as the zero duration *)
Theorem C18_parse_empty_and_tail_only :
  parse [] = POk 0 0 /\ (forall c ds, Forall (fun d => is_digit d = true) ds -> parse (c :: ds) = POk 0 0).
Proof. split; [exact parse_empty | exact parse_tail_only]. Qed.

(* a first character that is neither a sign nor a digit is rejected unless digits only follow ("a1d", " 1d") *)
Theorem C18_parse_bad_head_rejected :
  forall c r, is_digit c = false -> c <> 43 -> c <> 45 -> ~ Forall (fun d => is_digit d = true) r ->
    parse (c :: r) = PErr.
Proof. exact parse_bad_head_rejected. Qed.

(* white space (char::is_whitespace, the class chrono trims) is never consulted by the scanner and belongs
   to no term: in an accepted string it can only be followed by digits up to the end; anywhere else — leading
   (" 1d"), between terms ("1d 2h") — the string is rejected *)
Theorem C18_parse_whitespace_position :
  forall s m ns, parse s = POk m ns ->
    forall pre c post, s = pre ++ c :: post -> is_ws c = true -> Forall (fun d => is_digit d = true) post.
Proof. exact parse_ws_position. Qed.
Theorem C18_parse_whitespace_rejected :
  forall pre c post, is_ws c = true -> ~ Forall (fun d => is_digit d = true) post ->
    parse (pre ++ c :: post) = PErr.
Proof. exact parse_inner_ws_rejected. Qed.

(* non-vacuity: "1d 2h" and " 1d" satisfy the premises and are errors; "1d " and " " are accepted *)
Example C18_parse_rejects_example :
  is_ws 32 = true /\ ~ Forall (fun d => is_digit d = true) [50; 104] /\
  parse ([49; 100] ++ 32 :: [50; 104]) = PErr /\ parse (32 :: [49; 100]) = PErr /\
  parse [49; 100; 32] = POk 0 86400000000000 /\ parse [32] = POk 0 0 /\
  in_language [49; 100; 32].
Proof.
  split; [reflexivity|]. split.
  { intros H. inversion H as [|? ? _ H2]; subst. inversion H2 as [|? ? H3 _]; subst. discriminate H3. }
  split; [vm_compute; reflexivity|]. split; [vm_compute; reflexivity|].
  split; [vm_compute; reflexivity|]. split; [vm_compute; reflexivity|].
  exists [mk_term None [49] Ud], [32]. split; [reflexivity|]. split.
  { repeat constructor; discriminate. }
  right. exists 32, []. split; [reflexivity|]. split; [constructor|]. intros _. reflexivity.
Qed.

(* (3) date-time text.  The calendar used by the text model is exact: for EVERY day number,
       civil_from_days yields a valid date and days_from_civil maps it back.                      *)
Theorem C18_calendar_inverse :
  forall z : Z,
    let '(y, m, d) := civil_from_days z in
    valid_date y m d = true /\ days_from_civil y m d = z.
Proof. exact civil_roundtrip. Qed.

(* full statement of the round trip: every unit, each of the 11 listed formats (fmt_k 1 is also the
   format strftime uses by default), every non-NaT instant chrono can represent and the format can
   express (whole seconds unless the format has %f, midnight for the date-only formats 2 3 5 9,
   years 0..9999 for the formats 3 4 7 8 whose %Y is followed directly by digits), parsed back with
   the format given explicitly AND through the rule list of DateTime::parse(s, None).
   PROVED in full below (C18_datetime_roundtrip, Proofs/ParseDT2.v); the two older `_partial` theorems
   (the default format through the rule list; all 11 formats explicitly; both years 0000..9999) are kept
   as the lemmas it was built from.                                                               *)
Definition expressible (u : Z) (k : nat) (x : Z) (f : dtf) : Prop :=
  (has_frac k = false -> x mod per_sec u = 0) /\
  (date_only k = true -> x mod (86400 * per_sec u) = 0) /\
  (In k [3; 4; 7; 8]%nat -> 0 <= f_y f <= 9999).
Definition C18_datetime_roundtrip_full_statement : Prop :=
  forall u k x f,
    unit_code u -> (k < 11)%nat -> in_i64 x = true -> x <> i64_min ->
    fields_of_instant u x = Some f -> expressible u k x f ->
    dt_format u (fmt_k k) x = Ok (render (fmt_k k) f) /\
    parse_with u (fmt_k k) (render (fmt_k k) f) = Some x /\
    dt_parse u (render (fmt_k k) f) = Some x.

(* partial: the default format "%Y-%m-%d %H:%M:%S.%f", years 0000..9999, all four units
   (u = 0 s, 1 ms, 2 us, 3 ns), every non-NaT instant x: strftime renders the fields f of x, and
   parsing that text — with the format given explicitly, and through the rule list of
   DateTime::parse(s, None) where the first rule must reject it — returns x.                      *)
Theorem C18_datetime_roundtrip_partial :
  forall u x f,
    unit_code u -> in_i64 x = true -> x <> i64_min ->
    fields_of_instant u x = Some f -> 0 <= f_y f <= 9999 ->
    dt_format u fmt_default x = Ok (render fmt_default f) /\
    parse_with u fmt_default (render fmt_default f) = Some x /\
    dt_parse u (render fmt_default f) = Some x.
Proof. exact dt_default_roundtrip. Qed.

(* partial (b): each of the 11 listed formats, format given explicitly, years 0000..9999, all four
   units, every instant the format can express.                                                  *)
Theorem C18_datetime_roundtrip_listed_partial :
  forall u k x f,
    unit_code u -> (k < 11)%nat -> in_i64 x = true -> x <> i64_min ->
    fields_of_instant u x = Some f -> 0 <= f_y f <= 9999 ->
    (has_frac k = false -> x mod per_sec u = 0) ->
    (date_only k = true -> x mod (86400 * per_sec u) = 0) ->
    dt_format u (fmt_k k) x = Ok (render (fmt_k k) f) /\
    parse_with u (fmt_k k) (render (fmt_k k) f) = Some x.
Proof. exact dt_listed_roundtrip. Qed.

(* ---- the full statement, proved (Proofs/ParseDT2.v) --------------------------------------------------- *)
(* (b') explicit format, EVERY year chrono represents (-262143..262142; signed rendering `+12345`, `-0001`
        outside 0000..9999) for the formats whose %Y is followed by a literal, a space or the end of the text
        (0 1 2 5 6 9 10); 0000..9999 for the formats 3 4 7 8 whose %Y is followed directly by digits *)
Theorem C18_datetime_roundtrip_listed_all_years :
  forall u k x f,
    unit_code u -> (k < 11)%nat -> in_i64 x = true -> x <> i64_min ->
    fields_of_instant u x = Some f ->
    (y4 k = true -> 0 <= f_y f <= 9999) ->
    (has_frac k = false -> x mod per_sec u = 0) ->
    (date_only k = true -> x mod (86400 * per_sec u) = 0) ->
    dt_format u (fmt_k k) x = Ok (render (fmt_k k) f) /\
    parse_with u (fmt_k k) (render (fmt_k k) f) = Some x.
Proof. exact dt_listed_roundtrip_signed. Qed.

(* (a') no earlier rule of TIME_RULE_VEC reads a text rendered with format k differently: each of the 55 rule
        pairs j < k rejects the text or returns the same instant ... *)
Theorem C18_earlier_rule_unambiguous :
  forall u j k x f,
    unit_code u -> (j < k)%nat -> (k < 11)%nat ->
    fields_of_instant u x = Some f -> (y4 k = true -> 0 <= f_y f <= 9999) ->
    parse_with u (fmt_k k) (render (fmt_k k) f) = Some x ->
    parse_with u (fmt_k j) (render (fmt_k k) f) = None
    \/ parse_with u (fmt_k j) (render (fmt_k k) f) = Some x.
Proof. exact earlier_rule_unambiguous. Qed.
(* ... in fact 53 pairs reject (for every parser state p) and only (4,7), (6,8) accept — with the same meaning *)
Theorem C18_earlier_rule_rejects :
  forall j k f p,
    (j < k)%nat -> (k < 11)%nat -> same_pair j k = false ->
    year_in_range (f_y f) -> (y4 k = true -> 0 <= f_y f <= 9999) ->
    parse_items (fmt_k j) (render (fmt_k k) f) p = None.
Proof. exact earlier_rule_rejects. Qed.
(* the abstraction behind it is sound for EVERY text and rule: a text a rule accepts is accepted on its
   character classes (so a syntactic rejection on classes is a rejection by the parser) *)
Theorem C18_class_abstraction_sound :
  forall items s p p', parse_items items s p = Some p' -> csyn items (map cls_of s) = true.
Proof. exact parse_items_csyn. Qed.

(* the full statement *)
Theorem C18_datetime_roundtrip : C18_datetime_roundtrip_full_statement.
Proof.
  intros u k x f Hu Hk Hx Hn Hf (H1 & H2 & H3). apply dt_full_roundtrip; assumption.
Qed.

(* non-vacuity of the signed branch and of the rule list for a non-default format: year -1 through
   "%Y-%m-%d" (rule 2; rules 0 and 1 must reject) and year 10000 through "%Y/%m/%d" (rule 9) *)
Example C18_datetime_signed_example :
  fields_of_instant 0 (-62198755200) = Some (mk_dtf (-1) 1 1 0 0 0 0) /\
  render (fmt_k 2) (mk_dtf (-1) 1 1 0 0 0 0) = [45;48;48;48;49;45;48;49;45;48;49] /\
  dt_parse 0 [45;48;48;48;49;45;48;49;45;48;49] = Some (-62198755200) /\
  fields_of_instant 1 253402300800000 = Some (mk_dtf 10000 1 1 0 0 0 0) /\
  render (fmt_k 9) (mk_dtf 10000 1 1 0 0 0 0) = [43;49;48;48;48;48;47;48;49;47;48;49] /\
  dt_parse 1 [43;49;48;48;48;48;47;48;49;47;48;49] = Some 253402300800000.
Proof. exact signed_year_example. Qed.
(* non-vacuity of the same-meaning pairs: "20200101123456" is read by rule 4 ("%Y%m%d %H%M%S", the space
   matching nothing) before rule 7 gets to see it, with the same result *)
Example C18_same_pair_example :
  let f := mk_dtf 2020 1 1 12 34 56 0 in
  render (fmt_k 7) f = [50;48;50;48;48;49;48;49;49;50;51;52;53;54] /\
  parse_with 0 (fmt_k 4) (render (fmt_k 7) f) = Some 1577882096 /\
  parse_with 0 (fmt_k 7) (render (fmt_k 7) f) = Some 1577882096 /\
  same_pair 4 7 = true /\ same_pair 3 7 = false /\
  expressible 0 7 1577882096 f.
Proof.
  cbv zeta. do 5 (split; [vm_compute; reflexivity|]).
  unfold expressible. cbn [has_frac date_only f_y]. split; [intros _; reflexivity|].
  split; [discriminate|]. intros _. lia.
Qed.

(* non-vacuity of (b): 2020-01-01 12:34:56 in seconds through "%d/%m/%Y%H%M%S" (rule 8, one of the
   two repaired formats) and 2020-01-01 in milliseconds through "%Y%m%d" (rule 3) *)
Example C18_datetime_listed_example :
  let f := mk_dtf 2020 1 1 12 34 56 0 in
  let g := mk_dtf 2020 1 1 0 0 0 0 in
  fields_of_instant 0 1577882096 = Some f /\ 1577882096 mod per_sec 0 = 0 /\
  render (fmt_k 8) f = [48;49;47;48;49;47;50;48;50;48;49;50;51;52;53;54] /\
  parse_with 0 (fmt_k 8) (render (fmt_k 8) f) = Some 1577882096 /\
  fields_of_instant 1 1577836800000 = Some g /\ 1577836800000 mod (86400 * per_sec 1) = 0 /\
  render (fmt_k 3) g = [50;48;50;48;48;49;48;49] /\
  parse_with 1 (fmt_k 3) (render (fmt_k 3) g) = Some 1577836800000.
Proof. vm_compute. repeat split. Qed.

(* non-vacuity: 2020-09-13 12:26:40.123456789 at nanosecond resolution, 1969-12-31 23:59:59.999 at ms *)
Example C18_datetime_example :
  let f := mk_dtf 2020 9 13 12 26 40 123456789 in
  let g := mk_dtf 1969 12 31 23 59 59 999000000 in
  fields_of_instant 3 1600000000123456789 = Some f /\
  render fmt_default f = [50;48;50;48;45;48;57;45;49;51;32;49;50;58;50;54;58;52;48;46;
                          49;50;51;52;53;54;55;56;57] /\
  dt_parse 3 (render fmt_default f) = Some 1600000000123456789 /\
  fields_of_instant 1 (-1) = Some g /\
  dt_parse 1 (render fmt_default g) = Some (-1).
Proof. vm_compute. repeat split. Qed.

(* ==== the audit (notes/C18.md "Audit matrix"; Proofs/Audit18.v) ==================================================== *)
(* ---- (4) the unit table: exactly the ten tokens, what each contributes -------------------------------------------- *)
Theorem C18_unit_tokens : forall s u, unit_of s = Some u <-> s = unit_str u.
Proof. exact unit_of_iff. Qed.
Theorem C18_unit_tokens_distinct : forall u v, unit_str u = unit_str v -> u = v.
Proof. exact unit_str_injective. Qed.
Theorem C18_unit_token_shape :
  forall s u, unit_of s = Some u -> (1 <= length s <= 2)%nat /\ Forall (fun c => 97 <= c <= 122) s.
Proof. exact unit_of_some_shape. Qed.
Theorem C18_unit_table :
  forall t,
    (t_months t, t_secs t, t_nsecs t) =
    match t_unit t with
    | Uns | Uus | Ums => (0, 0, tval t * unit_scale (t_unit t))
    | Us | Um | Uh | Ud | Uw => (0, tval t * unit_scale (t_unit t), 0)
    | Umo | Uy => (tval t * unit_scale (t_unit t), 0, 0)
    end
    /\ unit_scale Uns = 1 /\ unit_scale Uus = 1000 /\ unit_scale Ums = 1000000
    /\ unit_scale Us = 1 /\ unit_scale Um = 60 /\ unit_scale Uh = 3600 /\ unit_scale Ud = 86400 /\ unit_scale Uw = 604800
    /\ unit_scale Umo = 1 /\ unit_scale Uy = 12.
Proof. exact unit_table. Qed.

(* ---- (5) (2) without its range hypotheses: on EVERY well-formed string the scanner is the checked fold over the
        terms — `i64::from_str` on the number, then the closure of the unit, in this order, first failure wins; the three
        range premises of C18_wellformed are exactly "run_terms = Some" and "finish <> Err" ------------------------- *)
Theorem C18_wellformed_run :
  forall ts, Forall wf_term ts -> parse (render_terms ts) = run_result (run_terms (mk_accs 0 0 0) ts).
Proof. exact parse_wellformed_run. Qed.

Theorem C18_wellformed_ok_iff :
  forall ts m ns, Forall wf_term ts ->
    (parse (render_terms ts) = POk m ns <->
     exists a, run_terms (mk_accs 0 0 0) ts = Some a /\ finish a = POk m ns).
Proof. exact parse_wellformed_ok_iff. Qed.

Theorem C18_wellformed_err_iff :
  forall ts, Forall wf_term ts ->
    (parse (render_terms ts) = PErr <->
     run_terms (mk_accs 0 0 0) ts = None \/ exists a, run_terms (mk_accs 0 0 0) ts = Some a /\ finish a = PErr).
Proof. exact parse_wellformed_err_iff. Qed.

Theorem C18_number_overflow_err :
  forall ts1 t ts2, Forall wf_term (ts1 ++ t :: ts2) -> in_i64 (tval t) = false ->
    parse (render_terms (ts1 ++ t :: ts2)) = PErr.
Proof. exact parse_number_overflow_err. Qed.

Theorem C18_single_term :
  forall t, wf_term t ->
    parse (render_term t) =
    if in_i64 (tval t)
    then match apply_unit (t_unit t) (tval t) (mk_accs 0 0 0) with Some a => finish a | None => PErr end
    else PErr.
Proof. exact parse_single_term. Qed.

(* ... and in the declarative vocabulary of (2): its three range premises are NECESSARY as well — a well-formed string is
   accepted (with the sum of its terms) if and only if they hold, and is Err otherwise.  (2) + this = the exact acceptance
   condition of every well-formed duration string *)
Theorem C18_wellformed_iff :
  forall ts, Forall wf_term ts ->
    (parse (render_terms ts) = POk (sumf t_months ts) (fixed_ns ts)
     <-> (Forall term_in_range ts /\ partial_sums_in_range ts /\ total_in_range ts))
    /\ (parse (render_terms ts) = PErr
        <-> ~ (Forall term_in_range ts /\ partial_sums_in_range ts /\ total_in_range ts)).
Proof. exact parse_wellformed_iff. Qed.

Theorem C18_wellformed_value_unique :
  forall ts m ns, Forall wf_term ts -> parse (render_terms ts) = POk m ns ->
    (Forall term_in_range ts /\ partial_sums_in_range ts /\ total_in_range ts)
    /\ m = sumf t_months ts /\ ns = fixed_ns ts.
Proof. exact parse_ok_ranges. Qed.

(* ---- (6) sign runs; Debug / Display text is never a duration ------------------------------------------------------ *)
Theorem C18_two_nondigit_head :
  forall c1 c2 r, is_digit c1 = false -> is_digit c2 = false -> parse (c1 :: c2 :: r) = PErr.
Proof. exact parse_two_nondigit_head. Qed.

Theorem C18_sign_run_rejected :
  forall s1 s2 r, (s1 = 43 \/ s1 = 45) -> (s2 = 43 \/ s2 = 45) -> parse (s1 :: s2 :: r) = PErr.
Proof. exact parse_sign_run_rejected. Qed.

Theorem C18_debug_text_is_not_a_duration :
  (forall t, parse (time_debug t) = PErr) /\ (forall t, parse (time_display t) = PErr)
  /\ (forall m ns, parse (td_debug m ns) = PErr) /\ parse nat_str = PErr.
Proof. exact debug_text_is_not_a_duration. Qed.

Theorem C18_time_display_is_debug : forall t, time_display t = time_debug t.
Proof. exact time_display_is_debug. Qed.

(* ---- (7) date-time text: where strftime panics; the default format with no hypothesis on the fields; NaT ---------- *)
Theorem C18_strftime_panics_iff :
  forall u items x k,
    dt_format u items x = Panic k <-> (x <> i64_min /\ fields_of_instant u x = None /\ k = UnwrapNone).
Proof. exact strftime_panics_iff. Qed.

Theorem C18_strftime_default_parse_back :
  forall u x text, unit_code u -> in_i64 x = true -> x <> i64_min ->
    dt_format u fmt_default x = Ok text ->
    parse_with u fmt_default text = Some x /\ dt_parse u text = Some x.
Proof. exact strftime_default_parse_back. Qed.

Theorem C18_debug_parse_back :
  forall u x text, unit_code u -> in_i64 x = true -> x <> i64_min -> dt_debug u x = Ok text -> dt_parse u text = Some x.
Proof. exact debug_parse_back. Qed.

(* the default unit, unconditionally: every non-NaT i64 nanosecond timestamp is rendered (no panic) and read back *)
Theorem C18_strftime_nano_total :
  forall x, in_i64 x = true -> x <> i64_min ->
    exists text, dt_format 3 fmt_default x = Ok text /\ dt_parse 3 text = Some x /\ dt_debug 3 x = Ok text.
Proof. exact strftime_nano_total. Qed.

Theorem C18_nat_text :
  (forall u items, dt_format u items i64_min = Ok nat_str) /\ (forall u, dt_debug u i64_min = Ok nat_str)
  /\ (forall u, dt_parse u nat_str = None)
  /\ (forall u k, (k < 11)%nat -> parse_with u (fmt_k k) nat_str = None)
  /\ (forall u, parse_with u fmt_default nat_str = None).
Proof. exact nat_text. Qed.

Theorem C18_listed_text_is_not_nat : forall k f, render (fmt_k k) f <> nat_str.
Proof. exact listed_text_is_not_nat. Qed.

Theorem C18_strftime_nat_iff : forall u k x, dt_format u (fmt_k k) x = Ok nat_str <-> x = i64_min.
Proof. exact strftime_nat_iff. Qed.

(* ---- (8) Time::parse with an explicit format (Model/ParseDT.v time_parse_with) ------------------------------------ *)
Theorem C18_time_parse_hms :
  forall h m s, 0 <= h <= 23 -> 0 <= m <= 59 -> 0 <= s <= 59 ->
    time_parse_with fmt_hms (render fmt_hms (tfields h m s 0)) = Some ((h * 3600 + m * 60 + s) * giga)
    /\ time_parse_with fmt_hms_compact (render fmt_hms_compact (tfields h m s 0)) = Some ((h * 3600 + m * 60 + s) * giga).
Proof. exact time_parse_hms. Qed.

Theorem C18_time_parse_hms_frac :
  forall h m s ns, 0 <= h <= 23 -> 0 <= m <= 59 -> 0 <= s <= 59 -> 0 <= ns <= 999999999 ->
    time_parse_with fmt_hms_f (render fmt_hms_f (tfields h m s ns)) = Some ((h * 3600 + m * 60 + s) * giga + ns).
Proof. exact time_parse_hms_frac. Qed.

Theorem C18_time_parse_leap_second :
  time_parse_with fmt_hms [50;51;58;53;57;58;54;48] = Some 86400000000000
  /\ time_parse_with fmt_hms_compact [50;51;53;57;54;48] = Some 86400000000000
  /\ Time.time_as_cr 86400000000000 = None
  /\ Time.time_hour 86400000000000 = Panic UnwrapNone /\ Time.time_second 86400000000000 = Panic UnwrapNone
  /\ Time.time_with_hour 86400000000000 0 = None.
Proof. exact time_parse_leap_second. Qed.

(* ---- non-vacuity of the audit theorems ---------------------------------------------------------------------------- *)
Definition ex_big : term := mk_term None [57;50;50;51;51;55;50;48;51;54;56;53;52;55;55;53;56;48;56] Us.  (* 2^63 s *)
Example C18_ex_audit_run :
  (* "1d9223372036854775808s": well formed, the second number does not fit an i64 -> Err; "1d" -> 1 day;
     "9223372036854775807s" fits the i64 but not chrono's Duration -> Err by `finish` *)
  Forall wf_term ([mk_term None [49] Ud] ++ ex_big :: []) /\ in_i64 (tval ex_big) = false
  /\ parse (render_terms ([mk_term None [49] Ud] ++ ex_big :: [])) = PErr
  /\ wf_term (mk_term None [49] Ud) /\ parse (render_term (mk_term None [49] Ud)) = POk 0 86400000000000
  /\ run_terms (mk_accs 0 0 0) [mk_term None [57;50;50;51;51;55;50;48;51;54;56;53;52;55;55;53;56;48;55] Us]
     = Some (mk_accs 0 9223372036854775807 0)
  /\ finish (mk_accs 0 9223372036854775807 0) = PErr
  /\ run_terms (mk_accs 0 0 0) [mk_term None [50;48;48;48;48;48;48;48;48;48;48;48;48;48;48] Uw] = None.
Proof.
  split; [repeat constructor; discriminate|]. split; [vm_compute; reflexivity|]. split; [vm_compute; reflexivity|].
  split; [repeat constructor; discriminate|]. repeat split; vm_compute; reflexivity.
Qed.

Example C18_ex_audit_iff :
  (* "2147483647mo1mo": every term in range, the running month sum is not -> the premises fail -> Err *)
  let ts := [mk_term None [50;49;52;55;52;56;51;54;52;55] Umo; mk_term None [49] Umo] in
  Forall wf_term ts /\ Forall term_in_range ts /\ ~ partial_sums_in_range ts /\ parse (render_terms ts) = PErr.
Proof.
  cbv zeta. split; [repeat constructor; discriminate|]. split; [repeat constructor|].
  split; [|vm_compute; reflexivity].
  intros H. destruct (H 2%nat ltac:(cbn; lia)) as [H1 _]. vm_compute in H1. discriminate H1.
Qed.

Example C18_ex_audit_heads :
  is_digit 45 = false /\ parse [45; 45; 49; 100] = PErr /\ parse [43; 45; 49; 100] = PErr
  /\ unit_of [109; 111] = Some Umo /\ unit_of [77; 83] = None /\ unit_of [109; 105; 110] = None
  /\ time_debug (-5) = [84;105;109;101;40;45;53;41]
  /\ td_debug 14 (-1500000000) = [84;105;109;101;68;101;108;116;97;32;123;32;109;111;110;116;104;115;58;32;49;52;44;32;
       105;110;110;101;114;58;32;84;105;109;101;68;101;108;116;97;32;123;32;115;101;99;115;58;32;45;50;44;32;110;97;110;
       111;115;58;32;53;48;48;48;48;48;48;48;48;32;125;32;125].
Proof. vm_compute. repeat split. Qed.

Example C18_ex_audit_datetime :
  (* year -1 at second resolution through strftime(None) and the rule list; the panic outside chrono's range *)
  unit_code 0 /\ in_i64 (-62198755200) = true /\ -62198755200 <> i64_min
  /\ dt_format 0 fmt_default (-62198755200)
     = Ok [45;48;48;48;49;45;48;49;45;48;49;32;48;48;58;48;48;58;48;48;46;48;48;48;48;48;48;48;48;48]
  /\ dt_parse 0 [45;48;48;48;49;45;48;49;45;48;49;32;48;48;58;48;48;58;48;48;46;48;48;48;48;48;48;48;48;48]
     = Some (-62198755200)
  /\ dt_format 0 fmt_default i64_max = Panic UnwrapNone /\ i64_max <> i64_min /\ fields_of_instant 0 i64_max = None
  /\ in_i64 (i64_min + 1) = true /\ i64_min + 1 <> i64_min
  /\ dt_format 3 fmt_default (i64_min + 1)
     = Ok [49;54;55;55;45;48;57;45;50;49;32;48;48;58;49;50;58;52;51;46;49;52;53;50;50;52;49;57;51].
Proof. vm_compute. repeat split; (discriminate || auto). Qed.

Example C18_ex_audit_time :
  0 <= 12 <= 23 /\ 0 <= 34 <= 59 /\ 0 <= 56 <= 59 /\ 0 <= 789000000 <= 999999999
  /\ render fmt_hms_f (tfields 12 34 56 789000000) = [49;50;58;51;52;58;53;54;46;55;56;57;48;48;48;48;48;48]
  /\ time_parse_with fmt_hms_f [49;50;58;51;52;58;53;54;46;55;56;57;48;48;48;48;48;48] = Some 45296789000000
  /\ time_parse_with fmt_hms [50;52;58;48;48;58;48;48] = None.
Proof. vm_compute. repeat split; discriminate. Qed.

Print Assumptions C18_total.
Print Assumptions C18_scanner_invariant.
Print Assumptions C18_wellformed.
Print Assumptions C18_calendar_inverse.
Print Assumptions C18_datetime_roundtrip_partial.
Print Assumptions C18_datetime_roundtrip_listed_partial.
Print Assumptions C18_parse_accepts_grammar.
Print Assumptions C18_parse_rejects.
Print Assumptions C18_parse_whitespace_rejected.
Print Assumptions C18_datetime_roundtrip_listed_all_years.
Print Assumptions C18_earlier_rule_unambiguous.
Print Assumptions C18_class_abstraction_sound.
Print Assumptions C18_datetime_roundtrip.
Print Assumptions C18_unit_tokens.
Print Assumptions C18_unit_table.
Print Assumptions C18_wellformed_run.
Print Assumptions C18_wellformed_ok_iff.
Print Assumptions C18_wellformed_err_iff.
Print Assumptions C18_wellformed_iff.
Print Assumptions C18_wellformed_value_unique.
Print Assumptions C18_number_overflow_err.
Print Assumptions C18_single_term.
Print Assumptions C18_two_nondigit_head.
Print Assumptions C18_debug_text_is_not_a_duration.
Print Assumptions C18_strftime_panics_iff.
Print Assumptions C18_strftime_default_parse_back.
Print Assumptions C18_strftime_nano_total.
Print Assumptions C18_nat_text.
Print Assumptions C18_listed_text_is_not_nat.
Print Assumptions C18_strftime_nat_iff.
Print Assumptions C18_time_parse_hms.
Print Assumptions C18_time_parse_hms_frac.
Print Assumptions C18_time_parse_leap_second.
