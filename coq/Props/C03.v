(* Props/C03.v — placeholder while the pipeline is brought up; replaced by the real statements. *)
From Coq Require Import ZArith List.
From Tevec Require Import Base.Prelude Base.Num Model.Driver Model.Cmp.
Import ListNotations.

Theorem C03_sort_cmp_nulls_last : forall (a : Z), sort_cmp (Some a) None = Lt /\ sort_cmp None (Some a) = Gt.
Proof. intros a. split; reflexivity. Qed.
Print Assumptions C03_sort_cmp_nulls_last.
