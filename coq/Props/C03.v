(* Props/C03.v — property C03: rolling extrema, arg-extrema, rank and normalisation are exact per window.
   Statements only.  Extrema / arg-extrema / rank counts: integer carrier, ANY null dictionary
   (Option<i32>, never-null i32, ...), every series of length >= 1, window >= 1, min_periods, position, both
   driver bodies; axiom-free.  Rank value, min-max normalisation, z-score: carrier XR = option R (exact
   reals + one absorbing NaN); only the standard-library Reals axioms.                                   *)
From Coq Require Import ZArith List Reals.
From Tevec Require Import Base.Prelude Base.Num Base.XR Model.Driver Proofs.Driver Model.Cmp Spec.Extrema
     Proofs.IdxRun Proofs.Cmp Proofs.RollRank Spec.Stats Model.Features Model.Norm Proofs.Norm Proofs.MinMax.
Import ListNotations.

(* the comparisons of isnone.rs at the integer carrier are the null-last order *)
Theorem C03_sort_cmp_nulls_last :
  forall a b : option Z,
    sort_cmp a b = ocmp a b /\ sort_cmp_rev a b = ocmp (option_map Z.opp a) (option_map Z.opp b).
Proof. intros a b. split; [apply sort_cmp_Z|apply sort_cmp_rev_Z]. Qed.

(* (1) rolling minimum / maximum = least / greatest non-null element of the window, null when it has none,
   masked below min_periods (the effective min_periods uses the clamped window, DESIGN 5.3) *)
Theorem C03_ts_vmin :
  forall (T : Type) (DT : IsNone T Z) (body : bool) (w : nat) (mp : option nat) (xs : list T),
    1 <= w -> 1 <= length xs ->
    exists out, ts_vmin body w mp xs = Done out /\ length out = length xs /\
      forall i, i < length xs ->
        nth_error out i =
        Some (let V := validZ (win w i (map to_opt xs)) in
              if cmp_mp mp (cmp_window w xs) <=? length V then list_min V else None).
Proof. intros T DT. exact ts_vmin_spec. Qed.

Theorem C03_ts_vmax :
  forall (T : Type) (DT : IsNone T Z) (body : bool) (w : nat) (mp : option nat) (xs : list T),
    1 <= w -> 1 <= length xs ->
    exists out, ts_vmax body w mp xs = Done out /\ length out = length xs /\
      forall i, i < length xs ->
        nth_error out i =
        Some (let V := validZ (win w i (map to_opt xs)) in
              if cmp_mp mp (cmp_window w xs) <=? length V then list_max V else None).
Proof. intros T DT. exact ts_vmax_spec. Qed.

(* (2) rolling arg-min / arg-max = 1-based offset from the window start of the LAST position holding the
   extreme; null when the window has no valid element (repaired behaviour) or below min_periods *)
Theorem C03_ts_vargmin :
  forall (T : Type) (DT : IsNone T Z) (body : bool) (w : nat) (mp : option nat) (xs : list T),
    1 <= w -> 1 <= length xs ->
    exists out, ts_vargmin body w mp xs = Done out /\ length out = length xs /\
      forall i, i < length xs ->
        nth_error out i =
        Some (let W := win w i (map to_opt xs) in
              if cmp_mp mp (cmp_window w xs) <=? length (validZ W) then argmin_spec W else None).
Proof. intros T DT. exact ts_vargmin_spec. Qed.

Theorem C03_ts_vargmax :
  forall (T : Type) (DT : IsNone T Z) (body : bool) (w : nat) (mp : option nat) (xs : list T),
    1 <= w -> 1 <= length xs ->
    exists out, ts_vargmax body w mp xs = Done out /\ length out = length xs /\
      forall i, i < length xs ->
        nth_error out i =
        Some (let W := win w i (map to_opt xs) in
              if cmp_mp mp (cmp_window w xs) <=? length (validZ W) then argmax_spec W else None).
Proof. intros T DT. exact ts_vargmax_spec. Qed.

(* what argmin_spec means: the window position it names holds the minimum, and no later one does *)
Theorem C03_argmin_spec_meaning :
  forall (W : list (option Z)) (o : nat),
    argmin_spec W = Some o ->
    exists m, list_min (validZ W) = Some m /\ 1 <= o /\ last_pos m W = Some (o - 1).
Proof.
  intros W o H. unfold argmin_spec in H. destruct (list_min (validZ W)) as [m|]; [|discriminate].
  exists m. split; [reflexivity|]. destruct (last_pos m W) as [j|]; [|discriminate].
  cbn in H. injection H as <-. split; [apply le_n_S, Nat.le_0_l|]. cbn. rewrite Nat.sub_0_r. reflexivity.
Qed.

(* (3) the cached-extreme invariant: after k steps of ANY history the count is that of the positions the
   next window keeps and the cached (value, index) is the LAST position of the null-last minimum (key x = x)
   or maximum (key x = -x) of the window just left ...                                                   *)
Theorem C03_cached_extreme_invariant :
  forall (T : Type) (DT : IsNone T Z) (scmp : option Z -> option Z -> comparison) (key : Z -> Z),
    (forall a b, scmp a b = ocmp (option_map key a) (option_map key b)) ->
    forall (w : nat) (mp : option nat) (xs : list T) (k : nat),
      1 <= w -> 1 <= length xs -> k <= length xs ->
      let wd := cmp_window w xs in
      exists s,
        state_after (lift_cb (vext_cb scmp (cmp_mp mp wd) xs)) (Ok ext0)
                    (firstn k (mapi (fun i v => (start_of wd i, i, v)) xs)) = Ok s /\
        PreExt key xs wd k s.
Proof. intros T DT scmp key H w mp xs k. apply ext_cache_invariant. exact H. Qed.

(* ... hence, when the next step begins, the cached index is either still inside the window (and is the last
   extreme of what remains of it) or stale, i.e. strictly before the new start — which is exactly the code's
   expiry test `min_idx < start` *)
Theorem C03_cache_fresh_or_stale :
  forall (T : Type) (DT : IsNone T Z) (key : Z -> Z) (xs : list T) (wd k : nat) (s : ext),
    1 <= wd -> 0 < k -> PreExt key xs wd k s ->
    exists p, x_idx s = Some p /\ x_val s = ov xs p /\
              ((wstart wd k <= p /\ lm key xs (wstart wd k) k p) \/
               (p < wstart wd k /\ opt_lt (x_idx s) (start_of wd k) = true)).
Proof. intros T DT key xs wd k s. apply cache_fresh_or_stale. Qed.

(* (4) rolling rank: the recount loop yields exactly the numbers of smaller and of equal valid elements ... *)
Theorem C03_rank_counts :
  forall (T : Type) (DT : IsNone T Z) (xs : list T) (x : Z) (cnt i : nat) (r : R) (nrep : nat),
    i + cnt <= length xs ->
    rank_loop (B := XR) xs x i cnt (Some r) nrep =
    Ok (Some (r + INR (count_lt x (validZ (seg i (i + cnt) (map to_opt xs)))))%R,
        nrep + count_eq x (validZ (seg i (i + cnt) (map to_opt xs)))).
Proof. intros T DT xs x. exact (rank_loop_spec xs x). Qed.

(* ... and the output is the average rank of the current element among the valid elements of its window
   (V' = valid window without the current element): #smaller + 1 + #equal / 2, reversed (n + 1) - that,
   divided by n = |V'| + 1 with pct; null when the current element is null or below min_periods *)
Theorem C03_ts_vrank :
  forall (T : Type) (DT : IsNone T Z) (body : bool) (w : nat) (mp : option nat) (pct rev : bool)
         (xs : list T),
    1 <= w -> 1 <= length xs ->
    exists out, ts_vrank (B := XR) body w mp pct rev xs = Done out /\ length out = length xs /\
      forall i, i < length xs ->
        nth_error out i =
        Some (match nth_error (map to_opt xs) i with
              | Some (Some x) =>
                  let V' := validZ (seg (wstart w i) i (map to_opt xs)) in
                  if cmp_mp mp (cmp_window w xs) <=? S (length V') then Some (avg_rank pct rev x V')
                  else None
              | _ => None
              end).
Proof. intros T DT. exact ts_vrank_spec. Qed.

(* the reversed rank is the ascending rank counted from the other end *)
Theorem C03_rank_rev_is_descending :
  forall (x : Z) (V' : list Z),
    avg_rank false true x V' = (1 + INR (count_gt x V') + INR (count_eq x V') / 2)%R.
Proof. exact avg_rank_rev_gt. Qed.

(* (5) z-score = (x - mean) / sample-std over the non-null window; null when x is null, below min_periods
   (min(min_periods or w/2, w)), or the spread is zero in the code's sense: population variance <= EPS *)
Theorem C03_ts_vzscore :
  forall (body : bool) (w : nat) (mp : option nat) (xs : list XR), 1 <= w ->
    exists out, ts_vzscore body w mp xs = Done out /\ length out = length xs /\
      forall i, i < length xs ->
        nth_error out i =
        Some (match nth_error xs i with
              | Some (Some x) =>
                  let V := valid (win w i xs) in
                  if mp_eff mp w 0 <=? length V then
                    (if Rlt_dec EPS (popvarR V) then Some ((x - meanR V) / samplestdR V)%R else None)
                  else None
              | _ => None
              end).
Proof. exact ts_vzscore_spec. Qed.

(* (6) min-max normalisation = (x - min) / (max - min) over the non-null window (tmin / tmax: the sentinels
   T::Inner::min_() / max_(), every element within them — DESIGN 5.2); null when x is null, max = min, or below
   min_periods.  The window is NOT clamped here and the two driver bodies differ in the start index they pass at
   the last position when w > len; the theorem covers both. *)
Theorem C03_ts_vminmaxnorm :
  forall (lo hi : R) (body : bool) (w : nat) (mp : option nat) (xs : list XR), 1 <= w ->
    (forall r, In (Some r) xs -> (lo <= r <= hi)%R) ->
    exists out, ts_vminmaxnorm (Some lo) (Some hi) body w mp xs = Done out /\ length out = length xs /\
      forall i, i < length xs ->
        nth_error out i =
        Some (match nth_error xs i with
              | Some (Some x) =>
                  let V := valid (win w i xs) in
                  if mp_eff mp w 0 <=? length V then
                    (if Req_EM_T (lmaxR V) (lminR V) then None
                     else Some ((x - lminR V) / (lmaxR V - lminR V))%R)
                  else None
              | _ => None
              end).
Proof. exact ts_vminmaxnorm_spec. Qed.

(* lmaxR / lminR are the greatest / least element *)
Theorem C03_lmaxR_lminR_meaning :
  forall (l : list R) (m : R), In m l ->
    ((forall a, In a l -> (a <= m)%R) -> lmaxR l = m) /\ ((forall a, In a l -> (m <= a)%R) -> lminR l = m).
Proof. intros l m Hin. split; intros H; [apply lmaxR_spec|apply lminR_spec]; assumption. Qed.

(* ---- non-vacuity --------------------------------------------------------------------------------- *)
Definition Dopt : IsNone (option Z) Z := IsNone_option.

(* ties, a null, an expiring extreme, an all-null window *)
Example C03_example_argmin :
  ts_vargmin (DT := Dopt) true 2 (Some 0)
             [Some 1%Z; Some 1%Z; None; None; Some 3%Z; Some 2%Z] =
  Done [Some 1; Some 2; Some 1; None; Some 2; Some 2].
Proof. vm_compute. reflexivity. Qed.
Example C03_example_argmin_spec :
  map (fun i => argmin_spec (win 2 i [Some 1%Z; Some 1%Z; None; None; Some 3%Z; Some 2%Z])) (seq 0 6) =
  [Some 1; Some 2; Some 1; None; Some 2; Some 2].
Proof. vm_compute. reflexivity. Qed.
Example C03_example_min_max :
  ts_vmin (DT := Dopt) false 3 None [Some 2%Z; None; Some 1%Z; Some 5%Z; Some 5%Z] =
    Done [Some 2%Z; Some 2%Z; Some 1%Z; Some 1%Z; Some 1%Z] /\
  ts_vmax (DT := Dopt) false 3 None [Some 2%Z; None; Some 1%Z; Some 5%Z; Some 5%Z] =
    Done [Some 2%Z; Some 2%Z; Some 2%Z; Some 5%Z; Some 5%Z].
Proof. vm_compute. split; reflexivity. Qed.
Example C03_example_invariant_premise :
  forall a b : option Z, sort_cmp a b = ocmp (option_map (fun x => x) a) (option_map (fun x => x) b).
Proof. intros a b. rewrite sort_cmp_Z. destruct a, b; reflexivity. Qed.

Example C03_example_minmaxnorm_premise :
  forall r, In (Some r) [Some 1%R; None; Some 3%R] -> (0 <= r <= 4)%R.
Proof. intros r [H|[H|[H|[]]]]; try discriminate; injection H as <-; split; Lra.lra. Qed.

Print Assumptions C03_sort_cmp_nulls_last.
Print Assumptions C03_ts_vmin.
Print Assumptions C03_ts_vmax.
Print Assumptions C03_ts_vargmin.
Print Assumptions C03_ts_vargmax.
Print Assumptions C03_argmin_spec_meaning.
Print Assumptions C03_cached_extreme_invariant.
Print Assumptions C03_cache_fresh_or_stale.
Print Assumptions C03_rank_counts.
Print Assumptions C03_ts_vrank.
Print Assumptions C03_rank_rev_is_descending.
Print Assumptions C03_ts_vzscore.
Print Assumptions C03_ts_vminmaxnorm.
Print Assumptions C03_lmaxR_lminR_meaning.
