(* Props/C03.v — property C03: rolling extrema, arg-extrema, rank and normalisation are exact per window.
   Statements only.  Extrema / arg-extrema / rank counts: integer carrier, ANY null dictionary
   (Option<i32>, never-null i32, ...), every series of length >= 1, window >= 1, min_periods, position, both
   driver bodies; axiom-free.  Rank value, min-max normalisation, z-score: carrier XR = option R (exact
   reals + one absorbing NaN); only the standard-library Reals axioms.                                   *)
From Coq Require Import ZArith List Reals.
From Tevec Require Import Base.Prelude Base.Num Base.XR Model.Driver Proofs.Driver Model.Cmp Spec.Extrema
     Proofs.IdxRun Proofs.Cmp Proofs.RollRank Spec.Stats Model.Features Model.Norm Proofs.Norm Proofs.MinMax
     Spec.ExtremaOrd Proofs.CmpOrd Proofs.RollRankOrd Proofs.CmpOrdInst.
Import ListNotations.

(* the comparisons of isnone.rs at the integer carrier are the null-last order *)
Theorem C03_sort_cmp_nulls_last :
  forall a b : option Z,
    sort_cmp a b = ocmp a b /\ sort_cmp_rev a b = ocmp (option_map Z.opp a) (option_map Z.opp b).
Proof. intros a b. split; [apply sort_cmp_Z|apply sort_cmp_rev_Z]. Qed.

(* (1) rolling minimum / maximum = least / greatest non-null element of the window, null when it has none,
   masked below min_periods (the effective min_periods uses the clamped window, DESIGN 5.3) *)
Theorem C03_ts_vmin :
  forall (T : Type) (DT : IsNone T Z) (body : bool) (w : nat) (mp : option nat) (xs : list T),
    1 <= w -> 1 <= length xs ->
    exists out, ts_vmin body w mp xs = Done out /\ length out = length xs /\
      forall i, i < length xs ->
        nth_error out i =
        Some (let V := validZ (win w i (map to_opt xs)) in
              if cmp_mp mp (cmp_window w xs) <=? length V then list_min V else None).
Proof. intros T DT. exact ts_vmin_spec. Qed.

Theorem C03_ts_vmax :
  forall (T : Type) (DT : IsNone T Z) (body : bool) (w : nat) (mp : option nat) (xs : list T),
    1 <= w -> 1 <= length xs ->
    exists out, ts_vmax body w mp xs = Done out /\ length out = length xs /\
      forall i, i < length xs ->
        nth_error out i =
        Some (let V := validZ (win w i (map to_opt xs)) in
              if cmp_mp mp (cmp_window w xs) <=? length V then list_max V else None).
Proof. intros T DT. exact ts_vmax_spec. Qed.

(* (2) rolling arg-min / arg-max = 1-based offset from the window start of the LAST position holding the
   extreme; null when the window has no valid element (repaired behaviour) or below min_periods *)
Theorem C03_ts_vargmin :
  forall (T : Type) (DT : IsNone T Z) (body : bool) (w : nat) (mp : option nat) (xs : list T),
    1 <= w -> 1 <= length xs ->
    exists out, ts_vargmin body w mp xs = Done out /\ length out = length xs /\
      forall i, i < length xs ->
        nth_error out i =
        Some (let W := win w i (map to_opt xs) in
              if cmp_mp mp (cmp_window w xs) <=? length (validZ W) then argmin_spec W else None).
Proof. intros T DT. exact ts_vargmin_spec. Qed.

Theorem C03_ts_vargmax :
  forall (T : Type) (DT : IsNone T Z) (body : bool) (w : nat) (mp : option nat) (xs : list T),
    1 <= w -> 1 <= length xs ->
    exists out, ts_vargmax body w mp xs = Done out /\ length out = length xs /\
      forall i, i < length xs ->
        nth_error out i =
        Some (let W := win w i (map to_opt xs) in
              if cmp_mp mp (cmp_window w xs) <=? length (validZ W) then argmax_spec W else None).
Proof. intros T DT. exact ts_vargmax_spec. Qed.

(* what argmin_spec means: the window position it names holds the minimum, and no later one does *)
Theorem C03_argmin_spec_meaning :
  forall (W : list (option Z)) (o : nat),
    argmin_spec W = Some o ->
    exists m, list_min (validZ W) = Some m /\ 1 <= o /\ last_pos m W = Some (o - 1).
Proof.
  intros W o H. unfold argmin_spec in H. destruct (list_min (validZ W)) as [m|]; [|discriminate].
  exists m. split; [reflexivity|]. destruct (last_pos m W) as [j|]; [|discriminate].
  cbn in H. injection H as <-. split; [apply le_n_S, Nat.le_0_l|]. cbn. rewrite Nat.sub_0_r. reflexivity.
Qed.

(* (3) the cached-extreme invariant: after k steps of ANY history the count is that of the positions the
   next window keeps and the cached (value, index) is the LAST position of the null-last minimum (key x = x)
   or maximum (key x = -x) of the window just left ...                                                   *)
Theorem C03_cached_extreme_invariant :
  forall (T : Type) (DT : IsNone T Z) (scmp : option Z -> option Z -> comparison) (key : Z -> Z),
    (forall a b, scmp a b = ocmp (option_map key a) (option_map key b)) ->
    forall (w : nat) (mp : option nat) (xs : list T) (k : nat),
      1 <= w -> 1 <= length xs -> k <= length xs ->
      let wd := cmp_window w xs in
      exists s,
        state_after (lift_cb (vext_cb scmp (cmp_mp mp wd) xs)) (Ok ext0)
                    (firstn k (mapi (fun i v => (start_of wd i, i, v)) xs)) = Ok s /\
        PreExt key xs wd k s.
Proof. intros T DT scmp key H w mp xs k. apply ext_cache_invariant. exact H. Qed.

(* ... hence, when the next step begins, the cached index is either still inside the window (and is the last
   extreme of what remains of it) or stale, i.e. strictly before the new start — which is exactly the code's
   expiry test `min_idx < start` *)
Theorem C03_cache_fresh_or_stale :
  forall (T : Type) (DT : IsNone T Z) (key : Z -> Z) (xs : list T) (wd k : nat) (s : ext),
    1 <= wd -> 0 < k -> PreExt key xs wd k s ->
    exists p, x_idx s = Some p /\ x_val s = ov xs p /\
              ((wstart wd k <= p /\ lm key xs (wstart wd k) k p) \/
               (p < wstart wd k /\ opt_lt (x_idx s) (start_of wd k) = true)).
Proof. intros T DT key xs wd k s. apply cache_fresh_or_stale. Qed.

(* (4) rolling rank: the recount loop yields exactly the numbers of smaller and of equal valid elements ... *)
Theorem C03_rank_counts :
  forall (T : Type) (DT : IsNone T Z) (xs : list T) (x : Z) (cnt i : nat) (r : R) (nrep : nat),
    i + cnt <= length xs ->
    rank_loop (B := XR) xs x i cnt (Some r) nrep =
    Ok (Some (r + INR (count_lt x (validZ (seg i (i + cnt) (map to_opt xs)))))%R,
        nrep + count_eq x (validZ (seg i (i + cnt) (map to_opt xs)))).
Proof. intros T DT xs x. exact (rank_loop_spec xs x). Qed.

(* ... and the output is the average rank of the current element among the valid elements of its window
   (V' = valid window without the current element): #smaller + 1 + #equal / 2, reversed (n + 1) - that,
   divided by n = |V'| + 1 with pct; null when the current element is null or below min_periods *)
Theorem C03_ts_vrank :
  forall (T : Type) (DT : IsNone T Z) (body : bool) (w : nat) (mp : option nat) (pct rev : bool)
         (xs : list T),
    1 <= w -> 1 <= length xs ->
    exists out, ts_vrank (B := XR) body w mp pct rev xs = Done out /\ length out = length xs /\
      forall i, i < length xs ->
        nth_error out i =
        Some (match nth_error (map to_opt xs) i with
              | Some (Some x) =>
                  let V' := validZ (seg (wstart w i) i (map to_opt xs)) in
                  if cmp_mp mp (cmp_window w xs) <=? S (length V') then Some (avg_rank pct rev x V')
                  else None
              | _ => None
              end).
Proof. intros T DT. exact ts_vrank_spec. Qed.

(* the reversed rank is the ascending rank counted from the other end *)
Theorem C03_rank_rev_is_descending :
  forall (x : Z) (V' : list Z),
    avg_rank false true x V' = (1 + INR (count_gt x V') + INR (count_eq x V') / 2)%R.
Proof. exact avg_rank_rev_gt. Qed.

(* (5) z-score = (x - mean) / sample-std over the non-null window; null when x is null, below min_periods
   (min(min_periods or w/2, w)), or the spread is zero in the code's sense: population variance <= EPS *)
Theorem C03_ts_vzscore :
  forall (body : bool) (w : nat) (mp : option nat) (xs : list XR), 1 <= w ->
    exists out, ts_vzscore body w mp xs = Done out /\ length out = length xs /\
      forall i, i < length xs ->
        nth_error out i =
        Some (match nth_error xs i with
              | Some (Some x) =>
                  let V := valid (win w i xs) in
                  if mp_eff mp w 0 <=? length V then
                    (if Rlt_dec EPS (popvarR V) then Some ((x - meanR V) / samplestdR V)%R else None)
                  else None
              | _ => None
              end).
Proof. exact ts_vzscore_spec. Qed.

(* (6) min-max normalisation = (x - min) / (max - min) over the non-null window (tmin / tmax: the sentinels
   T::Inner::min_() / max_(), every element within them — DESIGN 5.2); null when x is null, max = min, or below
   min_periods.  The window is NOT clamped here and the two driver bodies differ in the start index they pass at
   the last position when w > len; the theorem covers both. *)
Theorem C03_ts_vminmaxnorm :
  forall (lo hi : R) (body : bool) (w : nat) (mp : option nat) (xs : list XR), 1 <= w ->
    (forall r, In (Some r) xs -> (lo <= r <= hi)%R) ->
    exists out, ts_vminmaxnorm (Some lo) (Some hi) body w mp xs = Done out /\ length out = length xs /\
      forall i, i < length xs ->
        nth_error out i =
        Some (match nth_error xs i with
              | Some (Some x) =>
                  let V := valid (win w i xs) in
                  if mp_eff mp w 0 <=? length V then
                    (if Req_EM_T (lmaxR V) (lminR V) then None
                     else Some ((x - lminR V) / (lmaxR V - lminR V))%R)
                  else None
              | _ => None
              end).
Proof. exact ts_vminmaxnorm_spec. Qed.

(* lmaxR / lminR are the greatest / least element *)
Theorem C03_lmaxR_lminR_meaning :
  forall (l : list R) (m : R), In m l ->
    ((forall a, In a l -> (a <= m)%R) -> lmaxR l = m) /\ ((forall a, In a l -> (m <= a)%R) -> lminR l = m).
Proof. intros l m Hin. split; intros H; [apply lmaxR_spec|apply lminR_spec]; assumption. Qed.

(* ---- non-vacuity --------------------------------------------------------------------------------- *)
Definition Dopt : IsNone (option Z) Z := IsNone_option.

(* ties, a null, an expiring extreme, an all-null window *)
Example C03_example_argmin :
  ts_vargmin (DT := Dopt) true 2 (Some 0)
             [Some 1%Z; Some 1%Z; None; None; Some 3%Z; Some 2%Z] =
  Done [Some 1; Some 2; Some 1; None; Some 2; Some 2].
Proof. vm_compute. reflexivity. Qed.
Example C03_example_argmin_spec :
  map (fun i => argmin_spec (win 2 i [Some 1%Z; Some 1%Z; None; None; Some 3%Z; Some 2%Z])) (seq 0 6) =
  [Some 1; Some 2; Some 1; None; Some 2; Some 2].
Proof. vm_compute. reflexivity. Qed.
Example C03_example_min_max :
  ts_vmin (DT := Dopt) false 3 None [Some 2%Z; None; Some 1%Z; Some 5%Z; Some 5%Z] =
    Done [Some 2%Z; Some 2%Z; Some 1%Z; Some 1%Z; Some 1%Z] /\
  ts_vmax (DT := Dopt) false 3 None [Some 2%Z; None; Some 1%Z; Some 5%Z; Some 5%Z] =
    Done [Some 2%Z; Some 2%Z; Some 2%Z; Some 5%Z; Some 5%Z].
Proof. vm_compute. split; reflexivity. Qed.
Example C03_example_invariant_premise :
  forall a b : option Z, sort_cmp a b = ocmp (option_map (fun x => x) a) (option_map (fun x => x) b).
Proof. intros a b. rewrite sort_cmp_Z. destruct a, b; reflexivity. Qed.

Example C03_example_minmaxnorm_premise :
  forall r, In (Some r) [Some 1%R; None; Some 3%R] -> (0 <= r <= 4)%R.
Proof. intros r [H|[H|[H|[]]]]; try discriminate; injection H as <-; split; Lra.lra. Qed.

(* ==== (7) EVERY ordered carrier, not only integers ====================================================
   The extrema / arg-extrema / cache-invariant / rank theorems above only use that Z is totally ordered.
   Below they are stated for ANY carrier A (Num A) whose comparisons satisfy the record
   Spec/ExtremaOrd.OrdLaws on the non-NaN elements (nltb asymmetric and co-transitive = a strict weak order,
   neqb its equivalence, nleb the complement of the converse), ANY null dictionary IsNone T A, and any series
   whose valid elements are not NaN (valid_not_nan: automatic for integers and for the float-like dictionary
   where NaN is the null; for Option<f64> it excludes Some(NaN), DESIGN 5.4).  The specification uses the
   carrier's own comparisons: gmin / gmax = ext_last nltb / ngtb (the LAST among equivalent extremes — this
   matters only when neqb is coarser than Leibniz equality, e.g. +0 / -0), glast_pos, gargmin_spec, gcount_lt/eq.
   The laws are proved for Z and for option R (hence the theorems are non-vacuous twice) and, from the standard
   library's FloatAxioms, for binary64 (Proofs/CmpOrdFloat.v; not counted here, see notes/C03.md).          *)

(* the laws hold for the integer carrier and for the exact reals with one NaN; there neqb is Leibniz equality *)
Theorem C03_order_laws_Z : OrdLaws Z /\ OrdStrict Z.
Proof. exact (conj ordlaws_Z ordstrict_Z). Qed.
Theorem C03_order_laws_real : OrdLaws XR /\ OrdStrict XR.
Proof. exact (conj ordlaws_XR ordstrict_XR). Qed.

(* isnone.rs sort_cmp / sort_cmp_rev are the null-last orders of the carrier's `<` and of its converse *)
Theorem C03_sort_cmp_nulls_last_ordered :
  forall (A : Type) (NA : Num A), OrdLaws A ->
  forall a b : option A, okv a -> okv b ->
    sort_cmp a b = gocmp nltb a b /\ sort_cmp_rev a b = gocmp ngtb a b.
Proof. intros A NA OL a b Ha Hb. split; [apply sort_cmp_ord|apply sort_cmp_rev_ord]; assumption. Qed.

Theorem C03_ts_vmin_ordered :
  forall (A : Type) (NA : Num A), OrdLaws A ->
  forall (T : Type) (DT : IsNone T A) (body : bool) (w : nat) (mp : option nat) (xs : list T),
    valid_not_nan xs -> 1 <= w -> 1 <= length xs ->
    exists out, ts_vmin body w mp xs = Done out /\ length out = length xs /\
      forall i, i < length xs ->
        nth_error out i =
        Some (let V := gvalid (win w i (map to_opt xs)) in
              if cmp_mp mp (cmp_window w xs) <=? length V then gmin V else None).
Proof. intros A NA OL T DT. exact (ts_vmin_ord OL). Qed.

Theorem C03_ts_vmax_ordered :
  forall (A : Type) (NA : Num A), OrdLaws A ->
  forall (T : Type) (DT : IsNone T A) (body : bool) (w : nat) (mp : option nat) (xs : list T),
    valid_not_nan xs -> 1 <= w -> 1 <= length xs ->
    exists out, ts_vmax body w mp xs = Done out /\ length out = length xs /\
      forall i, i < length xs ->
        nth_error out i =
        Some (let V := gvalid (win w i (map to_opt xs)) in
              if cmp_mp mp (cmp_window w xs) <=? length V then gmax V else None).
Proof. intros A NA OL T DT. exact (ts_vmax_ord OL). Qed.

Theorem C03_ts_vargmin_ordered :
  forall (A : Type) (NA : Num A), OrdLaws A ->
  forall (T : Type) (DT : IsNone T A) (body : bool) (w : nat) (mp : option nat) (xs : list T),
    valid_not_nan xs -> 1 <= w -> 1 <= length xs ->
    exists out, ts_vargmin body w mp xs = Done out /\ length out = length xs /\
      forall i, i < length xs ->
        nth_error out i =
        Some (let W := win w i (map to_opt xs) in
              if cmp_mp mp (cmp_window w xs) <=? length (gvalid W) then gargmin_spec W else None).
Proof. intros A NA OL T DT. exact (ts_vargmin_ord OL). Qed.

Theorem C03_ts_vargmax_ordered :
  forall (A : Type) (NA : Num A), OrdLaws A ->
  forall (T : Type) (DT : IsNone T A) (body : bool) (w : nat) (mp : option nat) (xs : list T),
    valid_not_nan xs -> 1 <= w -> 1 <= length xs ->
    exists out, ts_vargmax body w mp xs = Done out /\ length out = length xs /\
      forall i, i < length xs ->
        nth_error out i =
        Some (let W := win w i (map to_opt xs) in
              if cmp_mp mp (cmp_window w xs) <=? length (gvalid W) then gargmax_spec W else None).
Proof. intros A NA OL T DT. exact (ts_vargmax_ord OL). Qed.

(* what gmin / gmax mean: an element of the list that no element beats (ltb = nltb: minimum, ngtb: maximum);
   when neqb is Leibniz equality (Z, option R) this determines it *)
Theorem C03_extreme_meaning :
  forall (A : Type) (NA : Num A), OrdLaws A ->
  forall (l : list A), Forall num_ok l ->
    (forall m, gmin l = Some m -> In m l /\ forall a, In a l -> nltb a m = false) /\
    (forall m, gmax l = Some m -> In m l /\ forall a, In a l -> nltb m a = false) /\
    (OrdStrict A -> forall m, In m l ->
       ((forall a, In a l -> nltb a m = false) -> gmin l = Some m) /\
       ((forall a, In a l -> nltb m a = false) -> gmax l = Some m)).
Proof.
  intros A NA OL l Hl. split; [|split].
  - intros m. apply (ext_last_sound nltb (dir_lt OL) l Hl).
  - intros m. apply (ext_last_sound ngtb (dir_gt OL) l Hl).
  - intros HS m Hm. split; intros H.
    + apply (ext_last_spec nltb (dir_lt OL) l m HS Hl Hm H).
    + apply (ext_last_spec ngtb (dir_gt OL) l m HS Hl Hm H).
Qed.

(* what gargmin_spec means: the window position it names holds the extreme, and it is the last such *)
Theorem C03_gargmin_spec_meaning :
  forall (A : Type) (NA : Num A) (W : list (option A)) (o : nat),
    gargmin_spec W = Some o ->
    exists m, gmin (gvalid W) = Some m /\ 1 <= o /\ glast_pos m W = Some (o - 1).
Proof.
  intros A NA W o H. unfold gargmin_spec in H. destruct (gmin (gvalid W)) as [m|]; [|discriminate].
  exists m. split; [reflexivity|]. destruct (glast_pos m W) as [j|]; [|discriminate].
  cbn in H. injection H as <-. split; [apply le_n_S, Nat.le_0_l|]. cbn. rewrite Nat.sub_0_r. reflexivity.
Qed.

(* the cached-extreme invariant for any direction ltb of any ordered carrier (minima: nltb with sort_cmp,
   maxima: ngtb with sort_cmp_rev) ... *)
Theorem C03_cached_extreme_invariant_ordered :
  forall (A : Type) (NA : Num A) (T : Type) (DT : IsNone T A) (ltb : A -> A -> bool), DirLaws ltb ->
  forall scmp : option A -> option A -> comparison,
    (forall a b, okv a -> okv b -> scmp a b = gocmp ltb a b) ->
    forall (w : nat) (mp : option nat) (xs : list T) (k : nat),
      (forall v, In v xs -> okv (to_opt v)) ->
      1 <= w -> 1 <= length xs -> k <= length xs ->
      let wd := cmp_window w xs in
      exists s,
        state_after (lift_cb (vext_cb scmp (cmp_mp mp wd) xs)) (Ok ext0)
                    (firstn k (mapi (fun i v => (start_of wd i, i, v)) xs)) = Ok s /\
        GPre ltb xs wd k s.
Proof. intros A NA T DT ltb DL scmp H w mp xs k. apply g_ext_cache_invariant; assumption. Qed.

(* ... and the expiry test (no law needed: arithmetic on the cached index) *)
Theorem C03_cache_fresh_or_stale_ordered :
  forall (A T : Type) (DT : IsNone T A) (ltb : A -> A -> bool) (xs : list T) (wd k : nat) (s : ext),
    1 <= wd -> 0 < k -> GPre ltb xs wd k s ->
    exists p, x_idx s = Some p /\ x_val s = gov xs p /\
              ((wstart wd k <= p /\ glm ltb xs (wstart wd k) k p) \/
               (p < wstart wd k /\ opt_lt (x_idx s) (start_of wd k) = true)).
Proof. intros A T DT ltb xs wd k s. apply g_cache_fresh_or_stale. Qed.

(* both directions instantiate the invariant *)
Theorem C03_directions :
  forall (A : Type) (NA : Num A), OrdLaws A -> DirLaws (nltb (A := A)) /\ DirLaws (ngtb (A := A)).
Proof. intros A NA OL. exact (conj (dir_lt OL) (dir_gt OL)). Qed.

(* rank: the recount loop counts the smaller and the equal valid elements, in the carrier's own < and == *)
Theorem C03_rank_counts_ordered :
  forall (A : Type) (NA : Num A), OrdLaws A ->
  forall (T : Type) (DT : IsNone T A) (xs : list T), (forall v, In v xs -> okv (to_opt v)) ->
  forall (x : A), num_ok x -> forall (cnt i : nat) (r : R) (nrep : nat),
    i + cnt <= length xs ->
    rank_loop (B := XR) xs x i cnt (Some r) nrep =
    Ok (Some (r + INR (gcount_lt x (gvalid (seg i (i + cnt) (map to_opt xs)))))%R,
        nrep + gcount_eq x (gvalid (seg i (i + cnt) (map to_opt xs)))).
Proof. intros A NA OL T DT xs Hxs x Hx. exact (g_rank_loop_spec OL xs Hxs x Hx). Qed.

Theorem C03_ts_vrank_ordered :
  forall (A : Type) (NA : Num A), OrdLaws A ->
  forall (T : Type) (DT : IsNone T A) (body : bool) (w : nat) (mp : option nat) (pct rev : bool)
         (xs : list T),
    valid_not_nan xs -> 1 <= w -> 1 <= length xs ->
    exists out, ts_vrank (B := XR) body w mp pct rev xs = Done out /\ length out = length xs /\
      forall i, i < length xs ->
        nth_error out i =
        Some (match nth_error (map to_opt xs) i with
              | Some (Some x) =>
                  let V' := gvalid (seg (wstart w i) i (map to_opt xs)) in
                  if cmp_mp mp (cmp_window w xs) <=? S (length V') then Some (g_avg_rank pct rev x V')
                  else None
              | _ => None
              end).
Proof. intros A NA OL T DT. exact (ts_vrank_ord OL). Qed.

Theorem C03_rank_rev_is_descending_ordered :
  forall (A : Type) (NA : Num A) (x : A) (V' : list A),
    OrdLaws A -> num_ok x -> Forall num_ok V' ->
    g_avg_rank false true x V' = (1 + INR (gcount_gt x V') + INR (gcount_eq x V') / 2)%R.
Proof. intros A NA. exact g_avg_rank_rev_gt. Qed.

(* ---- instances ---------------------------------------------------------------------------------------- *)
(* at Z the generic specification is the integer specification of Spec/Extrema.v ... *)
Theorem C03_ordered_spec_at_Z :
  (forall l : list (option Z), gvalid l = validZ l) /\
  (forall l : list Z, gmin l = list_min l) /\ (forall l : list Z, gmax l = list_max l) /\
  (forall (m : Z) W, glast_pos m W = last_pos m W) /\
  (forall W : list (option Z), gargmin_spec W = argmin_spec W) /\
  (forall W : list (option Z), gargmax_spec W = argmax_spec W) /\
  (forall pct rev (x : Z) V', g_avg_rank pct rev x V' = avg_rank pct rev x V').
Proof.
  exact (conj gvalid_Z (conj gmin_Z (conj gmax_Z (conj glast_pos_Z (conj gargmin_spec_Z
        (conj gargmax_spec_Z g_avg_rank_Z)))))).
Qed.

(* ... so the integer theorems (1), (2), (4) are corollaries of the ordered ones (same statements as C03_ts_vmin ...) *)
Corollary C03_ts_vmin_integer_instance :
  forall (T : Type) (DT : IsNone T Z) (body : bool) (w : nat) (mp : option nat) (xs : list T),
    1 <= w -> 1 <= length xs ->
    exists out, ts_vmin body w mp xs = Done out /\ length out = length xs /\
      forall i, i < length xs ->
        nth_error out i =
        Some (let V := validZ (win w i (map to_opt xs)) in
              if cmp_mp mp (cmp_window w xs) <=? length V then list_min V else None).
Proof. intros T DT. exact ts_vmin_Z_from_ord. Qed.
Corollary C03_ts_vmax_integer_instance :
  forall (T : Type) (DT : IsNone T Z) (body : bool) (w : nat) (mp : option nat) (xs : list T),
    1 <= w -> 1 <= length xs ->
    exists out, ts_vmax body w mp xs = Done out /\ length out = length xs /\
      forall i, i < length xs ->
        nth_error out i =
        Some (let V := validZ (win w i (map to_opt xs)) in
              if cmp_mp mp (cmp_window w xs) <=? length V then list_max V else None).
Proof. intros T DT. exact ts_vmax_Z_from_ord. Qed.
Corollary C03_ts_vargmin_integer_instance :
  forall (T : Type) (DT : IsNone T Z) (body : bool) (w : nat) (mp : option nat) (xs : list T),
    1 <= w -> 1 <= length xs ->
    exists out, ts_vargmin body w mp xs = Done out /\ length out = length xs /\
      forall i, i < length xs ->
        nth_error out i =
        Some (let W := win w i (map to_opt xs) in
              if cmp_mp mp (cmp_window w xs) <=? length (validZ W) then argmin_spec W else None).
Proof. intros T DT. exact ts_vargmin_Z_from_ord. Qed.
Corollary C03_ts_vargmax_integer_instance :
  forall (T : Type) (DT : IsNone T Z) (body : bool) (w : nat) (mp : option nat) (xs : list T),
    1 <= w -> 1 <= length xs ->
    exists out, ts_vargmax body w mp xs = Done out /\ length out = length xs /\
      forall i, i < length xs ->
        nth_error out i =
        Some (let W := win w i (map to_opt xs) in
              if cmp_mp mp (cmp_window w xs) <=? length (validZ W) then argmax_spec W else None).
Proof. intros T DT. exact ts_vargmax_Z_from_ord. Qed.
Corollary C03_ts_vrank_integer_instance :
  forall (T : Type) (DT : IsNone T Z) (body : bool) (w : nat) (mp : option nat) (pct rev : bool)
         (xs : list T),
    1 <= w -> 1 <= length xs ->
    exists out, ts_vrank (B := XR) body w mp pct rev xs = Done out /\ length out = length xs /\
      forall i, i < length xs ->
        nth_error out i =
        Some (match nth_error (map to_opt xs) i with
              | Some (Some x) =>
                  let V' := validZ (seg (wstart w i) i (map to_opt xs)) in
                  if cmp_mp mp (cmp_window w xs) <=? S (length V') then Some (avg_rank pct rev x V')
                  else None
              | _ => None
              end).
Proof. intros T DT. exact ts_vrank_Z_from_ord. Qed.

(* the real instance: series over option R with NaN = None as the null (the float-like dictionary: the premise
   on the series is automatic), every window / min_periods / position / body *)
Corollary C03_ts_vmin_vmax_real_instance :
  forall (body : bool) (w : nat) (mp : option nat) (xs : list XR),
    1 <= w -> 1 <= length xs ->
    (exists out, ts_vmin (DT := IsNoneXR) body w mp xs = Done out /\ length out = length xs /\
      forall i, i < length xs ->
        nth_error out i =
        Some (let V := gvalid (win w i (map to_opt xs)) in
              if cmp_mp mp (cmp_window w xs) <=? length V then gmin V else None)) /\
    (exists out, ts_vmax (DT := IsNoneXR) body w mp xs = Done out /\ length out = length xs /\
      forall i, i < length xs ->
        nth_error out i =
        Some (let V := gvalid (win w i (map to_opt xs)) in
              if cmp_mp mp (cmp_window w xs) <=? length V then gmax V else None)).
Proof.
  intros body w mp xs Hw Hlen. split.
  - exact (ts_vmin_ord ordlaws_XR body w mp xs (valid_not_nan_floatlike xs) Hw Hlen).
  - exact (ts_vmax_ord ordlaws_XR body w mp xs (valid_not_nan_floatlike xs) Hw Hlen).
Qed.
Corollary C03_ts_vargmin_vargmax_real_instance :
  forall (body : bool) (w : nat) (mp : option nat) (xs : list XR),
    1 <= w -> 1 <= length xs ->
    (exists out, ts_vargmin (DT := IsNoneXR) body w mp xs = Done out /\ length out = length xs /\
      forall i, i < length xs ->
        nth_error out i =
        Some (let W := win w i (map to_opt xs) in
              if cmp_mp mp (cmp_window w xs) <=? length (gvalid W) then gargmin_spec W else None)) /\
    (exists out, ts_vargmax (DT := IsNoneXR) body w mp xs = Done out /\ length out = length xs /\
      forall i, i < length xs ->
        nth_error out i =
        Some (let W := win w i (map to_opt xs) in
              if cmp_mp mp (cmp_window w xs) <=? length (gvalid W) then gargmax_spec W else None)).
Proof.
  intros body w mp xs Hw Hlen. split.
  - exact (ts_vargmin_ord ordlaws_XR body w mp xs (valid_not_nan_floatlike xs) Hw Hlen).
  - exact (ts_vargmax_ord ordlaws_XR body w mp xs (valid_not_nan_floatlike xs) Hw Hlen).
Qed.
Corollary C03_ts_vrank_real_instance :
  forall (body : bool) (w : nat) (mp : option nat) (pct rev : bool) (xs : list XR),
    1 <= w -> 1 <= length xs ->
    exists out, ts_vrank (DT := IsNoneXR) (B := XR) body w mp pct rev xs = Done out /\ length out = length xs /\
      forall i, i < length xs ->
        nth_error out i =
        Some (match nth_error (map to_opt xs) i with
              | Some (Some x) =>
                  let V' := gvalid (seg (wstart w i) i (map to_opt xs)) in
                  if cmp_mp mp (cmp_window w xs) <=? S (length V') then Some (g_avg_rank pct rev x V')
                  else None
              | _ => None
              end).
Proof.
  intros body w mp pct rev xs Hw Hlen.
  exact (ts_vrank_ord ordlaws_XR body w mp pct rev xs (valid_not_nan_floatlike xs) Hw Hlen).
Qed.

(* at option R the generic extremes are the least / greatest real of the list *)
Theorem C03_extreme_real_meaning :
  forall (V : list XR) (m : R), Forall num_ok V ->
    (gmin V = Some (Some m) <-> In (Some m) V /\ forall r, In (Some r) V -> (m <= r)%R) /\
    (gmax V = Some (Some m) <-> In (Some m) V /\ forall r, In (Some r) V -> (r <= m)%R).
Proof. intros V m H. exact (conj (gmin_XR V m H) (gmax_XR V m H)). Qed.

(* ---- non-vacuity of the ordered theorems ---------------------------------------------------------- *)
(* premise `OrdLaws A`: C03_order_laws_Z, C03_order_laws_real.  Premise `valid_not_nan xs`: *)
Example C03_example_valid_not_nan_int : valid_not_nan (DT := Dopt) [Some 1%Z; None; Some 3%Z].
Proof. exact (valid_not_nan_Z _). Qed.
Example C03_example_valid_not_nan_real : valid_not_nan (DT := IsNoneXR) [Some 1%R; None; Some 3%R].
Proof. exact (valid_not_nan_floatlike _). Qed.
(* Option<f64>-like dictionary over option R: Some (Some r) valid, None null; Some None (= Some(NaN)) is what the
   premise excludes *)
Example C03_example_valid_not_nan_optreal :
  valid_not_nan (DT := IsNone_option (A := XR)) [Some (Some 1%R); None; Some (Some 3%R)].
Proof. intros v [<-|[<-|[<-|[]]]] H; try discriminate; reflexivity. Qed.
(* premises okv / num_ok / Forall num_ok *)
Example C03_example_okv : okv (Some 2%Z) /\ okv (@None Z) /\ num_ok (Some 1%R) /\ Forall num_ok [Some 1%R; Some 2%R].
Proof. repeat split; repeat constructor. Qed.
(* premise of the ordered invariant: sort_cmp is the null-last order of `<` (at Z, by C03_sort_cmp_nulls_last_ordered) *)
Example C03_example_invariant_premise_ordered :
  forall a b : option Z, okv a -> okv b -> sort_cmp a b = gocmp nltb a b.
Proof. exact (sort_cmp_ord ordlaws_Z). Qed.
(* the generic specification evaluated on the tie / null / expiry / all-null example above *)
Example C03_example_gargmin_spec :
  map (fun i => gargmin_spec (win 2 i [Some 1%Z; Some 1%Z; None; None; Some 3%Z; Some 2%Z])) (seq 0 6) =
  [Some 1; Some 2; Some 1; None; Some 2; Some 2].
Proof. vm_compute. reflexivity. Qed.
Example C03_example_gargmin_meaning_premise :
  gargmin_spec [Some 1%Z; Some 1%Z] = Some 2.
Proof. vm_compute. reflexivity. Qed.
Example C03_example_GPre : GPre (T := option Z) (DT := Dopt) nltb [Some 1%Z] 1 0 ext0.
Proof. apply GPre_init. apply le_n. Qed.


Print Assumptions C03_sort_cmp_nulls_last.
Print Assumptions C03_ts_vmin.
Print Assumptions C03_ts_vmax.
Print Assumptions C03_ts_vargmin.
Print Assumptions C03_ts_vargmax.
Print Assumptions C03_argmin_spec_meaning.
Print Assumptions C03_cached_extreme_invariant.
Print Assumptions C03_cache_fresh_or_stale.
Print Assumptions C03_rank_counts.
Print Assumptions C03_ts_vrank.
Print Assumptions C03_rank_rev_is_descending.
Print Assumptions C03_ts_vzscore.
Print Assumptions C03_ts_vminmaxnorm.
Print Assumptions C03_lmaxR_lminR_meaning.
Print Assumptions C03_order_laws_Z.
Print Assumptions C03_order_laws_real.
Print Assumptions C03_sort_cmp_nulls_last_ordered.
Print Assumptions C03_ts_vmin_ordered.
Print Assumptions C03_ts_vmax_ordered.
Print Assumptions C03_ts_vargmin_ordered.
Print Assumptions C03_ts_vargmax_ordered.
Print Assumptions C03_extreme_meaning.
Print Assumptions C03_gargmin_spec_meaning.
Print Assumptions C03_cached_extreme_invariant_ordered.
Print Assumptions C03_cache_fresh_or_stale_ordered.
Print Assumptions C03_directions.
Print Assumptions C03_rank_counts_ordered.
Print Assumptions C03_ts_vrank_ordered.
Print Assumptions C03_rank_rev_is_descending_ordered.
Print Assumptions C03_ordered_spec_at_Z.
Print Assumptions C03_ts_vmin_integer_instance.
Print Assumptions C03_ts_vmax_integer_instance.
Print Assumptions C03_ts_vargmin_integer_instance.
Print Assumptions C03_ts_vargmax_integer_instance.
Print Assumptions C03_ts_vrank_integer_instance.
Print Assumptions C03_ts_vmin_vmax_real_instance.
Print Assumptions C03_ts_vargmin_vargmax_real_instance.
Print Assumptions C03_ts_vrank_real_instance.
Print Assumptions C03_extreme_real_meaning.

(* ---- (7) binary64: the same theorems at Coq's primitive `float`, i.e. at the very instance the correspondence run
   evaluates and compares bit for bit with the Rust code.  The order laws hold for the non-NaN floats (strict weak
   order: +0 and -0 are equivalent, not equal); they are derived from the standard library's specification of the
   primitive comparisons (FloatAxioms.eqb_spec / ltb_spec / leb_spec — axioms of the Coq standard library about the
   primitive floats, named in the trusted base).  NaN is the null of an f64 series; for Option<f64> the premise
   valid_not_nan excludes Some(NaN) (DESIGN 5.4) and a witness shows it cannot be dropped.                        *)
From Tevec Require Import Base.F64 Proofs.CmpOrdFloat.

Theorem C03_order_laws_binary64 : OrdLaws PrimFloat.float /\ ~ OrdStrict PrimFloat.float.
Proof. split; [exact ordlaws_F64|exact f64_not_strict]. Qed.

Theorem C03_ts_vmin_binary64 :
  forall (body : bool) (w : nat) (mp : option nat) (xs : list PrimFloat.float),
    1 <= w -> 1 <= length xs ->
    exists out, ts_vmin (DT := IsNoneF64) body w mp xs = Done out /\ length out = length xs /\
      forall i, i < length xs ->
        nth_error out i =
        Some (let V := gvalid (win w i (map to_opt xs)) in
              if cmp_mp mp (cmp_window w xs) <=? length V then gmin V else None).
Proof. exact ts_vmin_f64. Qed.

Theorem C03_ts_vmax_binary64 :
  forall (body : bool) (w : nat) (mp : option nat) (xs : list PrimFloat.float),
    1 <= w -> 1 <= length xs ->
    exists out, ts_vmax (DT := IsNoneF64) body w mp xs = Done out /\ length out = length xs /\
      forall i, i < length xs ->
        nth_error out i =
        Some (let V := gvalid (win w i (map to_opt xs)) in
              if cmp_mp mp (cmp_window w xs) <=? length V then gmax V else None).
Proof. exact ts_vmax_f64. Qed.

Theorem C03_ts_vargmin_binary64 :
  forall (body : bool) (w : nat) (mp : option nat) (xs : list PrimFloat.float),
    1 <= w -> 1 <= length xs ->
    exists out, ts_vargmin (DT := IsNoneF64) body w mp xs = Done out /\ length out = length xs /\
      forall i, i < length xs ->
        nth_error out i =
        Some (let W := win w i (map to_opt xs) in
              if cmp_mp mp (cmp_window w xs) <=? length (gvalid W) then gargmin_spec W else None).
Proof. exact ts_vargmin_f64. Qed.

Theorem C03_ts_vargmax_binary64 :
  forall (body : bool) (w : nat) (mp : option nat) (xs : list PrimFloat.float),
    1 <= w -> 1 <= length xs ->
    exists out, ts_vargmax (DT := IsNoneF64) body w mp xs = Done out /\ length out = length xs /\
      forall i, i < length xs ->
        nth_error out i =
        Some (let W := win w i (map to_opt xs) in
              if cmp_mp mp (cmp_window w xs) <=? length (gvalid W) then gargmax_spec W else None).
Proof. exact ts_vargmax_f64. Qed.

Theorem C03_ts_vrank_binary64_input :
  forall (body : bool) (w : nat) (mp : option nat) (pct rev : bool) (xs : list PrimFloat.float),
    1 <= w -> 1 <= length xs ->
    exists out, ts_vrank (DT := IsNoneF64) (B := XR) body w mp pct rev xs = Done out /\ length out = length xs /\
      forall i, i < length xs ->
        nth_error out i =
        Some (match nth_error (map to_opt xs) i with
              | Some (Some x) =>
                  let V' := gvalid (seg (wstart w i) i (map to_opt xs)) in
                  if cmp_mp mp (cmp_window w xs) <=? S (length V') then Some (g_avg_rank pct rev x V')
                  else None
              | _ => None
              end).
Proof. exact ts_vrank_f64_input. Qed.

(* Option<f64>: the premise of DESIGN 5.4 is needed — on Some(NaN) elements the model of ts_vargmin underflows *)
Theorem C03_some_nan_is_outside_the_property :
  ts_vargmin (DT := IsNoneOptF64) true 2 (Some 0) [Some PrimFloat.nan; Some PrimFloat.nan; Some PrimFloat.nan]
  = Panicked Underflow /\
  ~ valid_not_nan (DT := IsNoneOptF64) [Some PrimFloat.nan; Some PrimFloat.nan; Some PrimFloat.nan].
Proof. exact f64_some_nan_is_outside. Qed.

Print Assumptions C03_order_laws_binary64.
Print Assumptions C03_ts_vmin_binary64.
Print Assumptions C03_ts_vmax_binary64.
Print Assumptions C03_ts_vargmin_binary64.
Print Assumptions C03_ts_vargmax_binary64.
Print Assumptions C03_ts_vrank_binary64_input.
Print Assumptions C03_some_nan_is_outside_the_property.

(* ================= AUDIT (notes/C03.md "Audit matrix"; Proofs/Audit03.v) ============================================
   (A1)-(A8) hold for every carrier / dictionary and are axiom-free (A5: any ordered carrier); (A9), (A10) are over
   option R; (A11)-(A12) at binary64.                                                                                 *)
From Tevec Require Import Proofs.Audit03.

(* (A1) the rejected and the trivial inputs of the seven entry points, totally — this is what the hypotheses `1 <= w`
   and `1 <= length xs` of (1)-(6) exclude.  Empty series: the empty result at every window, both bodies (the cmp
   family clamps the window to 0 and `assert!(window > 0 || len == 0)` passes).  Window 0 on a non-empty series: the
   assertion fails, both bodies, before any element is read. *)
Theorem C03_empty_series :
  forall (A : Type) (NA : Num A) (T : Type) (DT : IsNone T A) (B : Type) (NB : Num B)
         (body : bool) (w : nat) (mp : option nat) (pct rev : bool) (tmin tmax : A),
    ts_vmin body w mp (@nil T) = Done [] /\ ts_vmax body w mp (@nil T) = Done [] /\
    ts_vargmin body w mp (@nil T) = Done [] /\ ts_vargmax body w mp (@nil T) = Done [] /\
    ts_vrank (B := B) body w mp pct rev (@nil T) = Done [] /\
    ts_vminmaxnorm tmin tmax body w mp (@nil T) = Done [] /\
    ts_vzscore body w mp (@nil T) = Done [].
Proof.
  intros A NA T DT B NB body w mp pct rev tmin tmax.
  split; [apply (cmp_family_empty sort_cmp)|]. split; [apply (cmp_family_empty sort_cmp_rev)|].
  split; [apply (cmp_family_empty sort_cmp)|]. split; [apply (cmp_family_empty sort_cmp_rev)|].
  split; [apply vrank_empty|]. split; [apply minmaxnorm_empty|].
  rewrite zscore_total. unfold bad_window. cbn. rewrite Bool.andb_false_r. reflexivity.
Qed.

Theorem C03_window0_rejected :
  forall (A : Type) (NA : Num A) (T : Type) (DT : IsNone T A) (B : Type) (NB : Num B)
         (body : bool) (mp : option nat) (pct rev : bool) (tmin tmax : A) (xs : list T),
    xs <> [] ->
    ts_vmin body 0 mp xs = Panicked AssertFail /\ ts_vmax body 0 mp xs = Panicked AssertFail /\
    ts_vargmin body 0 mp xs = Panicked AssertFail /\ ts_vargmax body 0 mp xs = Panicked AssertFail /\
    ts_vrank (B := B) body 0 mp pct rev xs = Panicked AssertFail /\
    ts_vminmaxnorm tmin tmax body 0 mp xs = Panicked AssertFail /\
    ts_vzscore body 0 mp xs = Panicked AssertFail.
Proof.
  intros A NA T DT B NB body mp pct rev tmin tmax xs Hx.
  split; [apply (cmp_family_window0 sort_cmp); exact Hx|]. split; [apply (cmp_family_window0 sort_cmp_rev); exact Hx|].
  split; [apply (cmp_family_window0 sort_cmp); exact Hx|]. split; [apply (cmp_family_window0 sort_cmp_rev); exact Hx|].
  split; [apply vrank_window0; exact Hx|]. split; [apply minmaxnorm_window0; exact Hx|].
  rewrite zscore_total. destruct xs; [contradiction|reflexivity].
Qed.

(* (A2) w >= len: the cmp family clamps the window to the length, so the outcome is that of window = len — for EVERY
   min_periods, omitted included, every carrier *)
Theorem C03_window_clamped_to_length :
  forall (A : Type) (NA : Num A) (T : Type) (DT : IsNone T A) (B : Type) (NB : Num B)
         (body : bool) (w : nat) (mp : option nat) (pct rev : bool) (xs : list T),
    length xs <= w ->
    ts_vmin body w mp xs = ts_vmin body (length xs) mp xs /\ ts_vmax body w mp xs = ts_vmax body (length xs) mp xs /\
    ts_vargmin body w mp xs = ts_vargmin body (length xs) mp xs /\
    ts_vargmax body w mp xs = ts_vargmax body (length xs) mp xs /\
    ts_vrank (B := B) body w mp pct rev xs = ts_vrank (B := B) body (length xs) mp pct rev xs.
Proof.
  intros A NA T DT B NB body w mp pct rev xs H.
  split; [apply (cmp_family_window_clamped sort_cmp); exact H|].
  split; [apply (cmp_family_window_clamped sort_cmp_rev); exact H|].
  split; [apply (cmp_family_window_clamped sort_cmp); exact H|].
  split; [apply (cmp_family_window_clamped sort_cmp_rev); exact H|apply vrank_window_clamped; exact H].
Qed.

(* (A3) omitted min_periods (DESIGN 5.3): it IS Some ((min len w) / 2) — w / 2 when len >= w, len / 2 when len < w (the
   norm family uses min(w / 2, w) = w / 2 of the UNclamped window: Model/Features.mp_eff) *)
Theorem C03_omitted_min_periods :
  forall (A : Type) (NA : Num A) (T : Type) (DT : IsNone T A) (B : Type) (NB : Num B)
         (body : bool) (w : nat) (pct rev : bool) (xs : list T),
    let d := Some (Nat.min (length xs) w / 2) in
    ts_vmin body w None xs = ts_vmin body w d xs /\ ts_vmax body w None xs = ts_vmax body w d xs /\
    ts_vargmin body w None xs = ts_vargmin body w d xs /\ ts_vargmax body w None xs = ts_vargmax body w d xs /\
    ts_vrank (B := B) body w None pct rev xs = ts_vrank (B := B) body w d pct rev xs /\
    (w <= length xs -> cmp_mp None (cmp_window w xs) = w / 2) /\
    (length xs <= w -> cmp_mp None (cmp_window w xs) = length xs / 2).
Proof.
  intros A NA T DT B NB body w pct rev xs d. repeat split; try reflexivity;
    intros H; unfold cmp_mp, cmp_window; [rewrite Nat.min_r|rewrite Nat.min_l]; try exact H; reflexivity.
Qed.

(* (A4) min_periods above the clamped window is NOT clamped in this family: every output is null.  Any ordered carrier. *)
Theorem C03_min_periods_above_window_all_null :
  forall (A : Type) (NA : Num A), OrdLaws A ->
  forall (T : Type) (DT : IsNone T A) (body : bool) (w m : nat) (xs : list T),
    valid_not_nan xs -> 1 <= w -> 1 <= length xs -> cmp_window w xs < m ->
    ts_vmin body w (Some m) xs = Done (repeat None (length xs)) /\
    ts_vmax body w (Some m) xs = Done (repeat None (length xs)) /\
    ts_vargmin body w (Some m) xs = Done (repeat None (length xs)) /\
    ts_vargmax body w (Some m) xs = Done (repeat None (length xs)).
Proof. intros A NA OL T DT. exact (min_periods_above_window_all_null OL). Qed.

(* (A5) ties — "the most recent one": glast_pos m W = Some o says position o holds a valid element equivalent to m and
   NO LATER position does; at Z: holds m itself, no later position holds m.  The offsets lie in 1..=|W|. *)
Theorem C03_last_position_meaning :
  forall (A : Type) (NA : Num A) (W : list (option A)) (m : A) (o : nat),
    glast_pos m W = Some o ->
    (exists x, nth_error W o = Some (Some x) /\ neqb x m = true) /\
    (forall j x, o < j -> nth_error W j = Some (Some x) -> neqb x m = false).
Proof. intros A NA. exact glast_pos_sound. Qed.

Theorem C03_last_position_meaning_integer :
  forall (W : list (option Z)) (m : Z) (o : nat),
    last_pos m W = Some o ->
    nth_error W o = Some (Some m) /\ forall j, o < j -> nth_error W j <> Some (Some m).
Proof. exact last_pos_sound. Qed.

Theorem C03_argmax_spec_meaning :
  forall (W : list (option Z)) (o : nat),
    argmax_spec W = Some o ->
    exists m, list_max (validZ W) = Some m /\ 1 <= o /\ last_pos m W = Some (o - 1).
Proof. exact argmax_spec_meaning. Qed.

Theorem C03_gargmax_spec_meaning :
  forall (A : Type) (NA : Num A) (W : list (option A)) (o : nat),
    gargmax_spec W = Some o ->
    exists m, ExtremaOrd.gmax (gvalid W) = Some m /\ 1 <= o /\ glast_pos m W = Some (o - 1).
Proof. intros A NA. exact gargmax_spec_meaning. Qed.

Theorem C03_arg_offsets_in_window :
  forall (A : Type) (NA : Num A) (W : list (option A)) (o : nat),
    (gargmin_spec W = Some o \/ gargmax_spec W = Some o) -> 1 <= o <= length W.
Proof. intros A NA. exact garg_offsets_in_window. Qed.

(* (A9) ts_vminmaxnorm: the cached (max_idx, min_idx) are the LAST positions of the window's extremes (`>=` / `<=` take
   the newcomer), so when BOTH have expired the element that left was the only holder of both — the window the arm
   would re-scan has no valid element.  Hence the loop body of the both-expired arm (norm.rs:146-151: the five lines
   the coverage report shows the correspondence run never reaches) is dead code: the model with that loop body
   deleted (ts_vminmaxnorm_nd: `(max, min) = (min_(), max_())`, indices untouched) returns exactly what the model of
   the code returns — every series within the sentinels, every window (0 included), min_periods, both bodies. *)
Theorem C03_minmaxnorm_both_expired_arm_is_dead_code :
  forall (lo hi : R) (body : bool) (w : nat) (mp : option nat) (xs : list XR),
    (forall r, In (Some r) xs -> (lo <= r <= hi)%R) ->
    ts_vminmaxnorm (Some lo) (Some hi) body w mp xs = ts_vminmaxnorm_nd lo hi body w mp xs.
Proof. exact minmaxnorm_both_expired_arm_is_dead. Qed.

(* (A10) the reason, as a statement about every reachable state: whenever both cached indices are before the new
   window start, the positions the arm would scan hold no valid element *)
Theorem C03_minmaxnorm_both_expired_window_is_null :
  forall (lo hi : R) (xs : list XR) (wd : nat), 1 <= wd ->
  forall (k : nat) (s : @mm XR) (a : nat),
    k <= length xs -> PreMM lo hi xs wd k s -> LastMM xs wd k s ->
    start_of wd k = Some a -> mm_maxi s < a -> mm_mini s < a ->
    forall j, a <= j < k -> xv xs j = None.
Proof. intros lo hi xs wd Hwd. exact (both_expired_window_is_null lo hi xs wd Hwd). Qed.

Example C03_example_audit_premises :
  cmp_window 5 [1%Z; 2%Z] < 3 /\ 2 <= 5 /\ glast_pos 1%Z [Some 1%Z; Some 1%Z; None] = Some 1 /\
  gargmax_spec [Some 1%Z; Some 3%Z; Some 3%Z] = Some 3.
Proof. repeat split; vm_compute; auto. Qed.
(* (A4) is not vacuous: omitted min_periods on a short series is len/2 = 1, so outputs are non-null; 3 > 2 nulls all *)
Example C03_example_audit_above_window :
  ts_vmin (DT := Dopt) true 5 None [Some 1%Z; Some 2%Z] = Done [Some 1%Z; Some 1%Z] /\
  ts_vmin (DT := Dopt) true 5 (Some 3) [Some 1%Z; Some 2%Z] = Done [None; None].
Proof. split; vm_compute; reflexivity. Qed.
(* (A10) premise: both indices expired does happen (the arm itself IS reached: [1; null; null], w = 2, step 2) *)
Example C03_example_audit_both_expired :
  start_of 2 2 = Some 1 /\ LastMM [Some 1%R; None; None] 2 0 (mm0 (Some 0%R) (Some 2%R)).
Proof. split; [reflexivity|apply LastMM_init; auto]. Qed.

Print Assumptions C03_empty_series.
Print Assumptions C03_window0_rejected.
Print Assumptions C03_window_clamped_to_length.
Print Assumptions C03_omitted_min_periods.
Print Assumptions C03_min_periods_above_window_all_null.
Print Assumptions C03_last_position_meaning.
Print Assumptions C03_last_position_meaning_integer.
Print Assumptions C03_argmax_spec_meaning.
Print Assumptions C03_gargmax_spec_meaning.
Print Assumptions C03_arg_offsets_in_window.
Print Assumptions C03_minmaxnorm_both_expired_arm_is_dead_code.
Print Assumptions C03_minmaxnorm_both_expired_window_is_null.

From Coq Require Import Floats.
(* (A11) binary64, Option<f64> (only `None` is null): the four order theorems under the premise of DESIGN 5.4 (no
   Some(NaN)) — the witness (7) C03_some_nan_is_outside_the_property shows the premise cannot be dropped *)
Theorem C03_cmp_family_binary64_option :
  forall (body : bool) (w : nat) (mp : option nat) (xs : list (option PrimFloat.float)),
  valid_not_nan (DT := IsNoneOptF64) xs -> 1 <= w -> 1 <= length xs ->
  (exists out, ts_vmin (DT := IsNoneOptF64) body w mp xs = Done out /\ length out = length xs /\
     forall i, i < length xs ->
       nth_error out i =
       Some (let V := gvalid (win w i (map to_opt xs)) in
             if cmp_mp mp (cmp_window w xs) <=? length V then ExtremaOrd.gmin V else None)) /\
  (exists out, ts_vmax (DT := IsNoneOptF64) body w mp xs = Done out /\ length out = length xs /\
     forall i, i < length xs ->
       nth_error out i =
       Some (let V := gvalid (win w i (map to_opt xs)) in
             if cmp_mp mp (cmp_window w xs) <=? length V then ExtremaOrd.gmax V else None)) /\
  (exists out, ts_vargmin (DT := IsNoneOptF64) body w mp xs = Done out /\ length out = length xs /\
     forall i, i < length xs ->
       nth_error out i =
       Some (let W := win w i (map to_opt xs) in
             if cmp_mp mp (cmp_window w xs) <=? length (gvalid W) then gargmin_spec W else None)) /\
  (exists out, ts_vargmax (DT := IsNoneOptF64) body w mp xs = Done out /\ length out = length xs /\
     forall i, i < length xs ->
       nth_error out i =
       Some (let W := win w i (map to_opt xs) in
             if cmp_mp mp (cmp_window w xs) <=? length (gvalid W) then gargmax_spec W else None)).
Proof. exact cmp_optf64. Qed.

(* (A12) binary64: min_periods above the clamped window nulls everything (instance of (A4) through the float laws) *)
Theorem C03_min_periods_above_window_binary64 :
  forall (body : bool) (w m : nat) (xs : list PrimFloat.float),
    1 <= w -> 1 <= length xs -> cmp_window w xs < m ->
    ts_vmin (DT := IsNoneF64) body w (Some m) xs = Done (repeat None (length xs)) /\
    ts_vmax (DT := IsNoneF64) body w (Some m) xs = Done (repeat None (length xs)) /\
    ts_vargmin (DT := IsNoneF64) body w (Some m) xs = Done (repeat None (length xs)) /\
    ts_vargmax (DT := IsNoneF64) body w (Some m) xs = Done (repeat None (length xs)).
Proof.
  intros body w m xs. apply (min_periods_above_window_all_null ordlaws_F64). intros v _ H. exact H.
Qed.

(* the binary64 model on +0 / -0 ties, a NaN and an expiring extreme = the generic specification (by evaluation) *)
Example C03_example_binary64_ties :
  ts_vmin (DT := IsNoneF64) true 2 (Some 0) [0%float; (-0)%float; PrimFloat.nan; 3%float; 2%float] =
  Done (map (fun i => ExtremaOrd.gmin (gvalid (win 2 i (map (to_opt (H := IsNoneF64))
                        [0%float; (-0)%float; PrimFloat.nan; 3%float; 2%float])))) (seq 0 5)).
Proof. exact f64_example_min. Qed.
Example C03_example_valid_not_nan_optf64 :
  valid_not_nan (DT := IsNoneOptF64) [Some 1%float; None; Some 3%float].
Proof. intros v [<-|[<-|[<-|[]]]] H; try discriminate; vm_compute; reflexivity. Qed.

Print Assumptions C03_cmp_family_binary64_option.
Print Assumptions C03_min_periods_above_window_binary64.

(* (A13) ts_vzscore on EVERY numeric carrier and null dictionary (the binary64 execution instance included), both bodies:
   the output is the carrier's NaN whenever the current element is null or the window holds fewer than
   min(min_periods or w/2, w) non-null elements (cnt_valid: Proofs/Audit01.v) — the count and the "current element"
   of the closure never drift, whatever the arithmetic does.  Axiom-free. *)
From Tevec Require Import Proofs.Audit01.
Theorem C03_zscore_nan_every_carrier :
  forall (A : Type) (NA : Num A) (T : Type) (DT : IsNone T A) (body : bool) (w : nat) (mp : option nat) (xs : list T),
    1 <= w ->
    exists out, ts_vzscore body w mp xs = Done out /\ length out = length xs /\
      forall i v, nth_error xs i = Some v ->
        (not_none v = false \/ cnt_valid (win w i xs) < mp_eff mp w 0) -> nth_error out i = Some nnan.
Proof. intros A NA T DT. exact (@zscore_nan_every_carrier A NA T DT). Qed.

Example C03_example_zscore_nan_binary64 :      (* both premises occur: a short window (position 0), a NaN element (position 1) *)
  exists a b, ts_vzscore (NA := NumF64) (DT := IsNoneF64) true 3 (Some 2) [1; nan; 2; 4]%float = Done [nan; nan; a; b]%float /\
              PrimFloat.is_nan a = false /\ PrimFloat.is_nan b = false.
Proof. do 2 eexists. split; [vm_compute; reflexivity|split; vm_compute; reflexivity]. Qed.

Print Assumptions C03_zscore_nan_every_carrier.
