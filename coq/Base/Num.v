(* Base/Num.v — the numeric carrier the models are written over (DESIGN.md 2.1).
   Instances: XR = option R (proof instance, Base/XR.v), float (execution instance, Base/F64.v). *)
From Coq Require Import ZArith.
From Tevec Require Import Base.Prelude.

Class Num (A : Type) := {
  nzero : A; none : A;
  nadd : A -> A -> A; nsub : A -> A -> A; nmul : A -> A -> A; ndiv : A -> A -> A;
  nneg : A -> A; nabs : A -> A; nsqrt : A -> A;
  nofZ : Z -> A;                       (* n.f64() *)
  nltb : A -> A -> bool; nleb : A -> A -> bool; neqb : A -> A -> bool;   (* IEEE-style: false on NaN *)
  nisnan : A -> bool; nnan : A;
  neps : A;                            (* EPS = 1e-14 *)
  ntwo : A;
}.

Declare Scope num_scope.
Delimit Scope num_scope with num.
Infix "+" := nadd : num_scope.
Infix "-" := nsub : num_scope.
Infix "*" := nmul : num_scope.
Infix "/" := ndiv : num_scope.

Definition nofnat {A} `{Num A} (n : nat) : A := nofZ (Z.of_nat n).

(* compiler-rt's __powidf2 for a non-negative exponent: square-and-multiply, LSB first *)
Fixpoint powi_pos {A} `{Num A} (a : A) (p : positive) (r : A) : A :=
  match p with
  | xH => nmul r a
  | xO p' => powi_pos (nmul a a) p' r
  | xI p' => powi_pos (nmul a a) p' (nmul r a)
  end.
Definition powi {A} `{Num A} (a : A) (n : nat) : A :=
  match n with O => none | _ => powi_pos a (Pos.of_nat n) none end.

(* The null dictionary of an element type T with inner numeric type A (tea-dtype/src/isnone.rs):
   floats: T = A, is_none = isnan, unwrap = id;  Option<_>: T = option A. *)
Class IsNone (T A : Type) := {
  is_none : T -> bool;
  unwrap : T -> A;
}.
Definition not_none {T A} `{IsNone T A} (v : T) : bool := negb (is_none v).
Definition to_opt {T A} `{IsNone T A} (v : T) : option A := if is_none v then None else Some (unwrap v).

Definition IsNone_float {A} `{Num A} : IsNone A A := {| is_none := nisnan; unwrap := fun x => x |}.
(* unwrap None panics in Rust; every model use is guarded by not_none, the default is never observed *)
Definition IsNone_option {A} `{Num A} : IsNone (option A) A :=
  {| is_none := fun o => match o with None => true | Some _ => false end;
     unwrap := fun o => match o with Some x => x | None => nnan end |}.
