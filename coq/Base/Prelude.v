(* Base/Prelude.v — lists, windows, the Ok/Panic result monad.  Stdlib only, axiom-free. *)
From Coq Require Export List Arith ZArith Lia Bool.
Export ListNotations.

Set Implicit Arguments.

(* ------------------------------------------------------------------ *)
(* Result monad: Rust panics (debug build: usize underflow, assert!, unwrap) are values *)

Inductive panic_kind := Underflow | Overflow | AssertFail | UnwrapNone | OtherPanic.

Inductive res (A : Type) : Type :=
| Ok (a : A)
| Panic (k : panic_kind).
Arguments Ok {A} a.
Arguments Panic {A} k.

Definition bind {A B} (r : res A) (f : A -> res B) : res B :=
  match r with Ok a => f a | Panic k => Panic k end.
Notation "'do' x <- r ; k" := (bind r (fun x => k)) (at level 200, x name, r at level 100, k at level 200).

Definition usub (a b : nat) : res nat := if b <=? a then Ok (a - b) else Panic Underflow.

Definition is_ok {A} (r : res A) : bool := match r with Ok _ => true | Panic _ => false end.

(* ------------------------------------------------------------------ *)
(* Windows *)

(* positions max(0,i+1-w) ..= i of xs *)
Definition wstart (w i : nat) : nat := S i - w.
Definition win {T} (w i : nat) (xs : list T) : list T :=
  firstn (S i - wstart w i) (skipn (wstart w i) xs).

(* sub-sequence a..b (exclusive) *)
Definition seg {T} (a b : nat) (xs : list T) : list T := firstn (b - a) (skipn a xs).

Lemma win_seg {T} w i (xs : list T) : win w i xs = seg (wstart w i) (S i) xs.
Proof. reflexivity. Qed.

Lemma seg_length {T} a b (xs : list T) : b <= length xs -> length (seg a b xs) = b - a.
Proof. intros Hb. unfold seg. rewrite firstn_length, skipn_length. lia. Qed.

Lemma nth_error_ext {T} (l1 l2 : list T) :
  (forall i, nth_error l1 i = nth_error l2 i) -> l1 = l2.
Proof.
  revert l2; induction l1 as [|a l1 IH]; intros l2 H.
  - destruct l2; [reflexivity|]. specialize (H 0). discriminate.
  - destruct l2 as [|b l2]; [specialize (H 0); discriminate|].
    pose proof (H 0) as H0. cbn in H0. injection H0 as ->. f_equal.
    apply IH. intros i. exact (H (S i)).
Qed.

Lemma nth_error_skipn {T} n i (xs : list T) : nth_error (skipn n xs) i = nth_error xs (n + i).
Proof.
  revert xs; induction n as [|n IH]; intros xs; [reflexivity|].
  destruct xs as [|x xs]; [destruct i; reflexivity|]. cbn [skipn plus nth_error]. apply IH.
Qed.

Lemma nth_error_firstn {T} n i (xs : list T) :
  nth_error (firstn n xs) i = if i <? n then nth_error xs i else None.
Proof.
  revert i xs; induction n as [|n IH]; intros i xs.
  - destruct i; reflexivity.
  - destruct xs as [|x xs].
    { rewrite firstn_nil. destruct i; cbn [nth_error]; destruct (Nat.ltb _ _); reflexivity. }
    destruct i as [|i]; [reflexivity|]. cbn [firstn nth_error]. rewrite IH.
    change (S i <? S n) with (i <? n). reflexivity.
Qed.

Lemma nth_error_seg {T} a b i (xs : list T) :
  nth_error (seg a b xs) i = if i <? b - a then nth_error xs (a + i) else None.
Proof. unfold seg. rewrite nth_error_firstn, nth_error_skipn. reflexivity. Qed.

Lemma seg_snoc {T} a b (xs : list T) x :
  a <= b -> nth_error xs b = Some x -> seg a (S b) xs = seg a b xs ++ [x].
Proof.
  intros Hab Hx. unfold seg.
  replace (S b - a) with (S (b - a)) by lia.
  assert (Hn : nth_error (skipn a xs) (b - a) = Some x).
  { rewrite nth_error_skipn. replace (a + (b - a)) with b by lia. exact Hx. }
  generalize dependent (skipn a xs). generalize (b - a). clear.
  induction n as [|n IH]; intros l Hn.
  - destruct l; [discriminate|]. cbn in Hn. injection Hn as ->. reflexivity.
  - destruct l as [|y l]; [discriminate|]. cbn [firstn app]. f_equal. apply IH. exact Hn.
Qed.

Lemma seg_cons {T} a b (xs : list T) x :
  a < b -> nth_error xs a = Some x -> seg a b xs = x :: seg (S a) b xs.
Proof.
  intros Hab Hx. apply nth_error_ext. intros i. rewrite nth_error_seg.
  destruct i as [|i]; cbn [nth_error].
  - replace (0 <? b - a) with true by (symmetry; apply Nat.ltb_lt; lia).
    rewrite Nat.add_0_r. exact Hx.
  - rewrite nth_error_seg. replace (S a + i) with (a + S i) by lia.
    destruct (S i <? b - a) eqn:E1; destruct (i <? b - S a) eqn:E2; try reflexivity;
      [apply Nat.ltb_lt in E1; apply Nat.ltb_ge in E2 | apply Nat.ltb_ge in E1; apply Nat.ltb_lt in E2]; lia.
Qed.

Lemma seg_nil {T} a (xs : list T) : seg a a xs = [].
Proof. unfold seg. rewrite Nat.sub_diag. reflexivity. Qed.

Lemma seg_all {T} (xs : list T) : seg 0 (length xs) xs = xs.
Proof. unfold seg. cbn [skipn]. rewrite Nat.sub_0_r. apply firstn_all. Qed.

Lemma seg_firstn {T} a b k (xs : list T) : b <= k -> seg a b (firstn k xs) = seg a b xs.
Proof.
  intros Hk. apply nth_error_ext. intros i. rewrite !nth_error_seg.
  destruct (i <? b - a) eqn:E; [|reflexivity].
  rewrite nth_error_firstn. apply Nat.ltb_lt in E.
  replace (a + i <? k) with true; [reflexivity|]. symmetry. apply Nat.ltb_lt. lia.
Qed.

(* ------------------------------------------------------------------ *)
(* Stateful map: thread a state through a callback, collect the outputs *)

Section Run.
  Context {S X O : Type}.
  Variable g : S -> X -> S * O.

  Fixpoint run (s : S) (args : list X) : list O :=
    match args with
    | [] => []
    | a :: rest => let '(s', o) := g s a in o :: run s' rest
    end.

  Fixpoint state_after (s : S) (args : list X) : S :=
    match args with
    | [] => s
    | a :: rest => state_after (fst (g s a)) rest
    end.

  Lemma run_length s args : length (run s args) = length args.
  Proof. revert s; induction args as [|a r IH]; intros s; cbn; [reflexivity|].
         destruct (g s a). cbn. f_equal. apply IH. Qed.

  Lemma run_app s a1 a2 : run s (a1 ++ a2) = run s a1 ++ run (state_after s a1) a2.
  Proof. revert s; induction a1 as [|a r IH]; intros s; cbn; [reflexivity|].
         destruct (g s a) eqn:E. cbn. f_equal. apply IH. Qed.

  Lemma state_after_app s a1 a2 : state_after s (a1 ++ a2) = state_after (state_after s a1) a2.
  Proof. revert s; induction a1 as [|a r IH]; intros s; cbn; [reflexivity|]. apply IH. Qed.

  Lemma run_nth s args i a :
    nth_error args i = Some a ->
    nth_error (run s args) i = Some (snd (g (state_after s (firstn i args)) a)).
  Proof.
    revert s args; induction i as [|i IH]; intros s args Ha.
    - destruct args as [|b r]; [discriminate|]. cbn in Ha. injection Ha as ->.
      cbn. destruct (g s a). reflexivity.
    - destruct args as [|b r]; [discriminate|]. cbn in Ha. cbn [run firstn state_after].
      destruct (g s b) eqn:E. cbn [nth_error fst]. apply IH. exact Ha.
  Qed.

  Lemma run_firstn s args k : run s (firstn k args) = firstn k (run s args).
  Proof.
    revert s args; induction k as [|k IH]; intros s args; [reflexivity|].
    destruct args as [|a r]; [reflexivity|]. cbn. destruct (g s a). cbn. f_equal. apply IH.
  Qed.
End Run.

(* misc *)
Lemma nth_error_repeat {T} (x : T) n i : nth_error (repeat x n) i = if i <? n then Some x else None.
Proof.
  revert i; induction n as [|n IH]; intros i; [destruct i; reflexivity|].
  destruct i as [|i]; [reflexivity|]. cbn [repeat nth_error]. rewrite IH. reflexivity.
Qed.

Lemma nth_error_combine {X Y} (l1 : list X) (l2 : list Y) i :
  nth_error (combine l1 l2) i =
  match nth_error l1 i, nth_error l2 i with Some a, Some b => Some (a, b) | _, _ => None end.
Proof.
  revert l2 i; induction l1 as [|a l1 IH]; intros l2 i.
  - destruct i; reflexivity.
  - destruct l2 as [|b l2]; [destruct i; cbn; [reflexivity|destruct (nth_error l1 i); reflexivity]|].
    destruct i as [|i]; [reflexivity|]. cbn. apply IH.
Qed.

Lemma nth_error_app {T} (l1 l2 : list T) i :
  nth_error (l1 ++ l2) i = if i <? length l1 then nth_error l1 i else nth_error l2 (i - length l1).
Proof.
  destruct (i <? length l1) eqn:E.
  - apply nth_error_app1. apply Nat.ltb_lt. exact E.
  - apply nth_error_app2. apply Nat.ltb_ge. exact E.
Qed.

Lemma nth_error_seq a n i : nth_error (seq a n) i = if i <? n then Some (a + i) else None.
Proof.
  revert a i; induction n as [|n IH]; intros a i; [destruct i; reflexivity|].
  destruct i as [|i]; cbn [seq nth_error].
  - cbn. f_equal. lia.
  - rewrite IH. change (S i <? S n) with (i <? n). destruct (i <? n); [f_equal; lia|reflexivity].
Qed.

(* map with index *)
Definition mapi {X Y} (h : nat -> X -> Y) (xs : list X) : list Y :=
  map (fun p => h (fst p) (snd p)) (combine (seq 0 (length xs)) xs).

Lemma mapi_length {X Y} (h : nat -> X -> Y) xs : length (mapi h xs) = length xs.
Proof. unfold mapi. rewrite map_length, combine_length, seq_length. lia. Qed.

Lemma nth_error_mapi {X Y} (h : nat -> X -> Y) xs i :
  nth_error (mapi h xs) i = option_map (h i) (nth_error xs i).
Proof.
  unfold mapi. rewrite nth_error_map, nth_error_combine, nth_error_seq.
  destruct (i <? length xs) eqn:E.
  - cbn. destruct (nth_error xs i); reflexivity.
  - apply Nat.ltb_ge in E. apply nth_error_None in E. rewrite E. reflexivity.
Qed.

Lemma mapi_ext {X Y} (h k : nat -> X -> Y) xs :
  (forall i v, nth_error xs i = Some v -> h i v = k i v) -> mapi h xs = mapi k xs.
Proof.
  intros H. apply nth_error_ext. intros i. rewrite !nth_error_mapi.
  destruct (nth_error xs i) eqn:E; [cbn; f_equal; apply H; exact E|reflexivity].
Qed.

Lemma map_mapi {X Y Z} (g : Y -> Z) (h : nat -> X -> Y) xs : map g (mapi h xs) = mapi (fun i v => g (h i v)) xs.
Proof. unfold mapi. rewrite map_map. reflexivity. Qed.

Lemma mapi_fst_seq {X} (xs : list X) : mapi (fun i _ => i) xs = seq 0 (length xs).
Proof.
  apply nth_error_ext. intros i. rewrite nth_error_mapi, nth_error_seq.
  destruct (i <? length xs) eqn:E.
  - apply Nat.ltb_lt in E. destruct (nth_error xs i) eqn:E2; [reflexivity|].
    apply nth_error_None in E2. lia.
  - apply Nat.ltb_ge in E. apply nth_error_None in E. rewrite E. reflexivity.
Qed.

Lemma mapi_firstn {X Y} (h : nat -> X -> Y) xs k : mapi h (firstn k xs) = firstn k (mapi h xs).
Proof.
  apply nth_error_ext. intros i. rewrite nth_error_mapi, !nth_error_firstn, nth_error_mapi.
  destruct (i <? k); reflexivity.
Qed.

(* flat_map over positions of singleton-or-nothing = mapi *)
Lemma flat_map_positions_app {X Y} (h : nat -> X -> Y) (xs ys : list X) n :
  n <= length xs ->
  flat_map (fun i => match nth_error (xs ++ ys) i with Some v => [h i v] | None => [] end) (seq 0 n)
  = flat_map (fun i => match nth_error xs i with Some v => [h i v] | None => [] end) (seq 0 n).
Proof.
  induction n as [|n IHn]; intros Hn; [reflexivity|].
  rewrite seq_S, !flat_map_app. f_equal; [apply IHn; lia|]. cbn.
  rewrite nth_error_app1 by lia. reflexivity.
Qed.

Lemma flat_map_positions {X Y} (h : nat -> X -> Y) (xs : list X) :
  flat_map (fun i => match nth_error xs i with Some v => [h i v] | None => [] end)
           (seq 0 (length xs)) = mapi h xs.
Proof.
  induction xs as [|x xs IH] using rev_ind; [reflexivity|].
  rewrite app_length. cbn [length]. rewrite Nat.add_1_r, seq_S, flat_map_app. cbn [flat_map plus].
  rewrite nth_error_app2, Nat.sub_diag by lia. cbn [nth_error]. rewrite app_nil_r.
  rewrite flat_map_positions_app by lia. rewrite IH.
  apply nth_error_ext. intros i. rewrite nth_error_mapi, !nth_error_app, mapi_length, nth_error_mapi.
  destruct (i <? length xs) eqn:E; [reflexivity|].
  apply Nat.ltb_ge in E. destruct (i - length xs) as [|j] eqn:Ej.
  - assert (i = length xs) by lia. subst i. reflexivity.
  - cbn. destruct j; reflexivity.
Qed.
