(* Base/XR.v — XR = option R: "binary64 without rounding and without infinities".
   None is the absorbing NaN; x/0 = None; sqrt of a negative = None; comparisons are false on None. *)
From Coq Require Import Reals Lra ZArith.
From Tevec Require Import Base.Prelude Base.Num.
Local Open Scope R_scope.

Notation XR := (option R).

Definition xlift2 (f : R -> R -> R) (a b : XR) : XR :=
  match a, b with Some x, Some y => Some (f x y) | _, _ => None end.
Definition xlift1 (f : R -> R) (a : XR) : XR := match a with Some x => Some (f x) | None => None end.
Definition xdiv (a b : XR) : XR :=
  match a, b with
  | Some x, Some y => if Req_EM_T y 0 then None else Some (x / y)
  | _, _ => None end.
Definition xsqrt (a : XR) : XR :=
  match a with Some x => if Rlt_dec x 0 then None else Some (sqrt x) | None => None end.
Definition xltb (a b : XR) : bool :=
  match a, b with Some x, Some y => if Rlt_dec x y then true else false | _, _ => false end.
Definition xleb (a b : XR) : bool :=
  match a, b with Some x, Some y => if Rle_dec x y then true else false | _, _ => false end.
Definition xeqb (a b : XR) : bool :=
  match a, b with Some x, Some y => if Req_EM_T x y then true else false | _, _ => false end.
Definition xisnan (a : XR) : bool := match a with None => true | Some _ => false end.

Definition EPS : R := / 100000000000000.   (* 1e-14 *)

Global Instance NumXR : Num XR := {|
  nzero := Some 0; none := Some 1;
  nadd := xlift2 Rplus; nsub := xlift2 Rminus; nmul := xlift2 Rmult; ndiv := xdiv;
  nneg := xlift1 Ropp; nabs := xlift1 Rabs; nsqrt := xsqrt;
  nofZ := fun z => Some (IZR z);
  nltb := xltb; nleb := xleb; neqb := xeqb;
  nisnan := xisnan; nnan := None;
  neps := Some EPS; ntwo := Some 2;
|}.

Lemma EPS_pos : 0 < EPS.
Proof. unfold EPS. apply Rinv_0_lt_compat. lra. Qed.

(* rewriting lemmas: arithmetic on defined values *)
Lemma xadd_some a b : nadd (Some a) (Some b) = Some (a + b). Proof. reflexivity. Qed.
Lemma xsub_some a b : nsub (Some a) (Some b) = Some (a - b). Proof. reflexivity. Qed.
Lemma xmul_some a b : nmul (Some a) (Some b) = Some (a * b). Proof. reflexivity. Qed.
Lemma xdiv_some a b : b <> 0 -> ndiv (Some a) (Some b) = Some (a / b).
Proof. intros H. cbn. destruct (Req_EM_T b 0); [contradiction|reflexivity]. Qed.
Lemma xdiv_zero a : ndiv (Some a) (Some 0) = None.
Proof. cbn. destruct (Req_EM_T 0 0); [reflexivity|contradiction]. Qed.
Lemma xsqrt_some a : 0 <= a -> nsqrt (Some a) = Some (sqrt a).
Proof. intros H. cbn. destruct (Rlt_dec a 0); [lra|reflexivity]. Qed.
Lemma xltb_true a b : a < b -> nltb (Some a) (Some b) = true.
Proof. intros H. cbn. destruct (Rlt_dec a b); [reflexivity|contradiction]. Qed.
Lemma xltb_false a b : ~ a < b -> nltb (Some a) (Some b) = false.
Proof. intros H. cbn. destruct (Rlt_dec a b); [contradiction|reflexivity]. Qed.
Lemma xleb_true a b : a <= b -> nleb (Some a) (Some b) = true.
Proof. intros H. cbn. destruct (Rle_dec a b); [reflexivity|contradiction]. Qed.
Lemma xleb_false a b : ~ a <= b -> nleb (Some a) (Some b) = false.
Proof. intros H. cbn. destruct (Rle_dec a b); [contradiction|reflexivity]. Qed.
Lemma xofnat n : nofnat n = Some (INR n).
Proof. unfold nofnat. cbn. rewrite <- INR_IZR_INZ. reflexivity. Qed.

(* powi at XR is the real power *)
Lemma powi_pos_some (a : R) p (r : R) : powi_pos (Some a) p (Some r) = Some (r * a ^ Pos.to_nat p).
Proof.
  revert a r; induction p as [p IH|p IH|]; intros a r; cbn [powi_pos].
  - rewrite !xmul_some, IH. f_equal. rewrite Pos2Nat.inj_xI.
    rewrite <- tech_pow_Rmult, pow_mult. replace (a ^ 2) with (a * a) by ring. ring.
  - rewrite !xmul_some, IH. f_equal. rewrite Pos2Nat.inj_xO.
    rewrite pow_mult. replace (a ^ 2) with (a * a) by ring. ring.
  - rewrite xmul_some, Pos2Nat.inj_1, pow_1. reflexivity.
Qed.
Lemma powi_some (a : R) n : powi (Some a) n = Some (a ^ n).
Proof.
  destruct n as [|n]; [reflexivity|]. unfold powi.
  change none with (Some 1). rewrite powi_pos_some. f_equal.
  rewrite Nat2Pos.id by discriminate. ring.
Qed.

(* the float-like null dictionary on XR *)
Global Instance IsNoneXR : IsNone XR XR := IsNone_float.
