(* Base/F64.v — the execution instance: Coq primitive binary64 floats (PrimFloat). Evaluation only. *)
From Coq Require Import ZArith Floats Uint63.
From Tevec Require Import Base.Prelude Base.Num.

Definition f64_ofZ (z : Z) : float :=
  let a := of_uint63 (Uint63.of_Z (Z.abs z)) in if (z <? 0)%Z then (- a)%float else a.

Global Instance NumF64 : Num float := {|
  nzero := zero; none := one;
  nadd := PrimFloat.add; nsub := PrimFloat.sub; nmul := PrimFloat.mul; ndiv := PrimFloat.div;
  nneg := PrimFloat.opp; nabs := PrimFloat.abs; nsqrt := PrimFloat.sqrt;
  nofZ := f64_ofZ;
  nltb := PrimFloat.ltb; nleb := PrimFloat.leb; neqb := PrimFloat.eqb;
  nisnan := PrimFloat.is_nan; nnan := nan;
  neps := 0x1.6849b86a12b9bp-47%float;     (* 1e-14 *)
  ntwo := 2%float;
|}.

Global Instance IsNoneF64 : IsNone float float := IsNone_float.
Global Instance IsNoneOptF64 : IsNone (option float) float := IsNone_option.
